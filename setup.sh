#!/bin/sh
# Offline build of the Lean library (models + theorems). No network, no `lake update`.
cd "$(dirname "$0")/lean" || exit 1
# regenerate the source-derived tables (AST only) so that the theorems over them build against the current /repo
/venv/bin/python ../harness/translate/ast_tables.py "${CUQI_REPO:-/repo}" CuqiVerif/Generated 2>&1 | tail -2
lake build CuqiVerif 2>&1 | tail -3
mods=""
for f in CuqiVerif/Model/*.lean CuqiVerif/Props/*.lean; do
  m=$(echo "$f" | sed 's/\.lean$//; s#/#.#g')
  mods="$mods $m"
done
# one invocation builds everything in parallel; a broken module must not stop the others
lake build $mods 2>&1 | grep -E "error|✖|Built CuqiVerif.Props" | tail -40
exit 0
