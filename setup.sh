#!/bin/sh
# Offline build of the Lean library (models + theorems). No network, no `lake update`.
cd "$(dirname "$0")/lean" || exit 1
lake build CuqiVerif 2>&1 | tail -3
mods=""
for f in CuqiVerif/Model/*.lean CuqiVerif/Props/*.lean; do
  m=$(echo "$f" | sed 's/\.lean$//; s#/#.#g')
  mods="$mods $m"
done
# one invocation builds everything in parallel; a broken module must not stop the others
lake build $mods 2>&1 | grep -E "error|✖|Built CuqiVerif.Props" | tail -40
exit 0
