#!/bin/sh
# Offline build of the Lean library (models + theorems). No network, no lake update.
set -e
cd "$(dirname "$0")/lean"
lake build CuqiVerif 2>&1 | tail -5
# property theorem modules (each check rebuilds its own incrementally)
for f in CuqiVerif/Props/C*.lean; do
  m=$(basename "$f" .lean)
  lake build CuqiVerif.Props.$m 2>&1 | tail -3 || true
done
