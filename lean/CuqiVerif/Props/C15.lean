import CuqiVerif.Model.C15

namespace CuqiVerif.C15

/-- a Gaussian without a stored covariance makes the closed-form MAP raise `NotImplementedError` -/
theorem refuses_non_cov_forms_lik {R : Type} [Zero R] [One R] [Add R] [Sub R] [Mul R] [DecidableEq R]
    (slv : Solver R) (A : NArr R) (rd dd : Nat) (cx : Option (NArr R)) (x0 b : NArr R) :
    mapDirect slv A rd dd none cx x0 b = .error .notImplemented := rfl

end CuqiVerif.C15
