import CuqiVerif.Model.C15
import CuqiVerif.Proofs.C15
import Mathlib.Algebra.BigOperators.Group.Finset.Basic
import Mathlib.Algebra.BigOperators.Ring.Finset
import Mathlib.Algebra.Order.BigOperators.Ring.Finset
import Mathlib.Data.Matrix.Mul
import Mathlib.Algebra.Order.Field.Basic
import Mathlib.Tactic.Ring
import Mathlib.Tactic.Linarith
import Mathlib.Tactic.NormNum
import Mathlib.Tactic.FieldSimp

/-!
# C15 — MAP/ML estimates are true maximisers; direct Gaussian sampling has exact moments

Everything is about the executable definitions of `CuqiVerif/Model/C15.lean` (the driver runs them
at `R = Rat`); the theorems hold for every commutative ring / field `R` (ordered field where an
inequality is stated), every size, every matrix, **every solver** (its answer is certified inside
`NArr.solve`).

`mapDirect` = `BayesianProblem.MAP` (direct branch) with numpy semantics; `sysMat = A Cx Aᵀ + Ce`;
`assemble = x0 + Cx Aᵀ s`; `normalResidual` = row residual of `(AᵀWeA + Wx) x = AᵀWe b + Wx x0`
written as the gradient `AᵀWe(b − Ax) − Wx(x − x0)`; `logPost`/`gradPost`/`curv` (Proofs/C15) are the
un-normalised Gaussian log-posterior, its gradient and its curvature on Mathlib matrices; `toM`,
`toV` read an entry function as a Mathlib matrix / vector.
-/
open Finset Matrix

set_option linter.unusedSectionVars false
set_option linter.unusedVariables false

namespace CuqiVerif.C15

/-! ## 1. the closed-form route on 2-D (or scalar) covariances -/

section closedForm
variable {R : Type} [CommRing R] [DecidableEq R]

/-- **mapDirect_sound** (`tarantola`).  Whenever the closed-form branch returns, with covariance
    attributes that expand to `m×m` / `n×n` matrices, it returned `x0 + Cx Aᵀ s` for an `s` that
    solves `(A Cx Aᵀ + Ce) s = b − A x0` exactly — for every solver. -/
theorem mapDirect_sound (slv : Solver R) (m n : ℕ) (Af : ℕ → ℕ → R) (Ce Cx : NArr R)
    (CeF CxF : ℕ → ℕ → R) (x0 b : ℕ → R) (r : NArr R)
    (hCe : diagIfVec (expandScalar Ce m) = .m m m CeF) (hCx : diagIfVec (expandScalar Cx n) = .m n n CxF)
    (h : mapDirect slv (.m m n Af) m n (some Ce) (some Cx) (.v n x0) (.v m b) = .ok r) :
    ∃ s x, r = .v n x ∧ (∀ j, j < n → x j = assemble m n Af CxF x0 s j) ∧
      ∀ i, i < m → mvec m (sysMat n Af CxF CeF) s i = b i - mvec n Af x0 i := by
  unfold mapDirect at h
  simp only [getCov, hCe, hCx, NArr.matmul, NArr.T, NArr.add, NArr.sub, NArr.zipB, bdim_self,
    ↓reduceIte, bind, Except.bind] at h
  split at h
  · cases h
  · rename_i v hv
    obtain ⟨s, rfl, hs⟩ := solve_ok _ _ _ _ _ hv
    simp only [↓reduceIte, bdim_self] at h
    cases h
    refine ⟨s, _, rfl, ?_, ?_⟩
    · intro j hj
      simp only [assemble, bidx_lt hj]
    · intro i hi
      have := hs i hi
      simp only [bidx_lt hi] at this
      show sumTo m (fun l => sysMat n Af CxF CeF i l * s l) = b i - sumTo n (fun l => Af i l * x0 l)
      rw [← this]
      simp only [sysMat]
      exact sumTo_congr _ _ _ fun k hk => by simp only [bidx_lt hk]

/-- **mapMethod_ignores_x0.**  On the closed-form route `MAP(disp, x0)` does not depend on the
    user's initial guess `x0` nor on `disp`: the prior mean is read from the prior. -/
theorem mapMethod_ignores_x0 (slv : Solver R) (disp disp' : Bool) (u u' : Option (NArr R)) (A : NArr R)
    (rd dd : ℕ) (ce cx : Option (NArr R)) (pm b : NArr R) :
    mapMethod slv disp u A rd dd ce cx pm b = mapMethod slv disp' u' A rd dd ce cx pm b ∧
    mapMethod slv disp u A rd dd ce cx pm b = mapDirect slv A rd dd ce cx pm b := ⟨rfl, rfl⟩

/-- a concrete solver for the examples: the constant candidate `s`, accepted only if it solves -/
def constSolver (s : ℕ → R) : Solver R := fun _ _ _ => some s

example : ∃ x, mapDirect (constSolver (fun _ => (1:ℤ))) (.m 1 1 fun _ _ => 1) 1 1 (some (.m 1 1 fun _ _ => 1))
    (some (.s 1)) (.v 1 fun _ => 0) (.v 1 fun _ => 2) = .ok (.v 1 x) ∧ x 0 = 1 := ⟨_, rfl, by decide⟩

/-- **expandCov_documented.**  For *every* documented covariance argument — a scalar, a size-1
    array, a 1-D vector of the variances, a `dim × dim` matrix — the array the closed form works
    with is the documented covariance matrix (`docCov`: "If a scalar or 1d-array, the value defines
    the diagonal entries of the covariance matrix"). -/
theorem expandCov_documented (C : NArr R) (dim : ℕ) (G : ℕ → ℕ → R)
    (hdoc : docCov dim C = some G) :
    ∃ G', diagIfVec (expandScalar C dim) = .m dim dim G' ∧ ∀ i j, G' i j = G i j := by
  cases C with
  | s c =>
    simp only [docCov, Option.some.injEq] at hdoc
    subst hdoc
    exact ⟨_, by simp [expandScalar, NArr.size, NArr.first, NArr.scale, eye, diagIfVec]; rfl, fun i j => by
      by_cases h : i = j <;> simp [h]⟩
  | v l f =>
    simp only [docCov] at hdoc
    split at hdoc
    · rename_i hl
      subst hl
      simp only [Option.some.injEq] at hdoc
      subst hdoc
      exact ⟨_, by simp [expandScalar, NArr.size, NArr.first, NArr.scale, eye, diagIfVec]; rfl, fun i j => by
        by_cases h : i = j <;> simp [h]⟩
    · rename_i hl
      split at hdoc
      · rename_i hd
        subst hd
        simp only [Option.some.injEq] at hdoc
        subst hdoc
        exact ⟨_, by simp [expandScalar, NArr.size, hl, diagIfVec], fun _ _ => rfl⟩
      · cases hdoc
  | m r c F =>
    simp only [docCov] at hdoc
    split at hdoc
    · rename_i h1
      obtain ⟨rfl, rfl⟩ := h1
      simp only [Option.some.injEq] at hdoc
      subst hdoc
      exact ⟨_, by simp [expandScalar, NArr.size, NArr.first, NArr.scale, eye, diagIfVec]; rfl, fun i j => by
        by_cases h : i = j <;> simp [h]⟩
    · rename_i h1
      split at hdoc
      · rename_i h2
        simp only [Option.some.injEq] at hdoc
        have hs : ¬ (r * c = 1) := by
          intro h
          exact h1 ⟨Nat.eq_one_of_mul_eq_one_right h, Nat.eq_one_of_mul_eq_one_left h⟩
        refine ⟨F, ?_, fun i j => by rw [← hdoc]⟩
        obtain ⟨hr, hc⟩ := h2
        rw [← hr] at hc ⊢
        have hs' : ¬ (r * r = 1) := by rw [hc] at hs; exact hs
        rw [hc]
        simp only [expandScalar, NArr.size, hs', ↓reduceIte, diagIfVec]
      · cases hdoc

example : docCov 3 (.s (2:ℚ)) = some (fun i j => if i = j then 2 else 0) := rfl

end closedForm

/-! ## 2. Tarantola's form = information form; the point is the unique maximiser -/

section field
variable {K : Type} [Field K] [DecidableEq K]

/-- **mapDirect_normal_equations** (`tarantola_eq_information_form`, on the executable model).
    With `We`, `Wx` left inverses of the covariances the code used, the returned point satisfies the
    information-form normal equations `(AᵀWeA + Wx) x = AᵀWe b + Wx x0` (every row residual is 0),
    i.e. it is the closed-form posterior mean. -/
theorem mapDirect_normal_equations (slv : Solver K) (m n : ℕ) (Af : ℕ → ℕ → K) (Ce Cx : NArr K)
    (CeF CxF We Wx : ℕ → ℕ → K) (x0 b : ℕ → K) (r : NArr K)
    (hCe : diagIfVec (expandScalar Ce m) = .m m m CeF) (hCx : diagIfVec (expandScalar Cx n) = .m n n CxF)
    (hWe : ∀ i j, i < m → j < m → sumTo m (fun k => We i k * CeF k j) = if i = j then 1 else 0)
    (hWx : ∀ i j, i < n → j < n → sumTo n (fun k => Wx i k * CxF k j) = if i = j then 1 else 0)
    (h : mapDirect slv (.m m n Af) m n (some Ce) (some Cx) (.v n x0) (.v m b) = .ok r) :
    ∃ x, r = .v n x ∧ ∀ j, j < n → normalResidual m n Af We Wx x0 b x j = 0 := by
  obtain ⟨s, x, rfl, hx, hs⟩ := mapDirect_sound slv m n Af Ce Cx CeF CxF x0 b r hCe hCx h
  refine ⟨x, rfl, ?_⟩
  have hWe' : toM m m We * toM m m CeF = 1 := by
    rw [← toM_mmul]; exact (toM_eq_one_iff m _).mpr hWe
  have hWx' : toM n n Wx * toM n n CxF = 1 := by
    rw [← toM_mmul]; exact (toM_eq_one_iff n _).mpr hWx
  have hs' : (toM m n Af * toM n n CxF * (toM m n Af)ᵀ + toM m m CeF) *ᵥ toV m s
      = toV m b - toM m n Af *ᵥ toV n x0 := by
    rw [← toM_sysMat, ← toV_mvec, ← toV_mvec]
    funext i
    exact hs i i.isLt
  have hxv : toV n x = toV n (assemble m n Af CxF x0 s) := funext fun j => hx j j.isLt
  have key := toV_normalResidual m n Af We Wx x0 b x
  rw [hxv, toV_assemble] at key
  rw [tarantola_stationary _ _ _ _ _ _ _ _ hWe' hWx' hs'] at key
  intro j hj
  exact congrFun key ⟨j, hj⟩

example : normalResidual 1 1 (fun _ _ => (1:ℚ)) (fun _ _ => 1) (fun _ _ => 1) (fun _ => 0) (fun _ => 2) (fun _ => 1) 0 = 0 := by
  simp [normalResidual, mvec, sumTo]; norm_num

/-- **tarantola_eq_information_form** (Mathlib matrices, any field).  If `We Ce = 1`, `Wx Cx = 1`,
    `C (AᵀWeA + Wx) = 1` and `(A Cx Aᵀ + Ce) s = b − A x0`, then
    `x0 + Cx Aᵀ s = C (AᵀWe b + Wx x0)`. -/
theorem tarantola_eq_information_form {m n : ℕ} (A : Matrix (Fin m) (Fin n) K)
    (Ce We : Matrix (Fin m) (Fin m) K) (Cx Wx C : Matrix (Fin n) (Fin n) K)
    (x0 : Fin n → K) (b s : Fin m → K)
    (hWe : We * Ce = 1) (hWx : Wx * Cx = 1) (hC : C * (Aᵀ * We * A + Wx) = 1)
    (hs : (A * Cx * Aᵀ + Ce) *ᵥ s = b - A *ᵥ x0) :
    x0 + Cx *ᵥ (Aᵀ *ᵥ s) = C *ᵥ (Aᵀ *ᵥ (We *ᵥ b) + Wx *ᵥ x0) := by
  have hst := tarantola_stationary A Ce We Cx Wx x0 b s hWe hWx hs
  set x := x0 + Cx *ᵥ (Aᵀ *ᵥ s) with hxdef
  have hH : (Aᵀ * We * A + Wx) *ᵥ x = Aᵀ *ᵥ (We *ᵥ b) + Wx *ᵥ x0 := by
    have e : Aᵀ *ᵥ (We *ᵥ (b - A *ᵥ x)) - Wx *ᵥ (x - x0)
        = (Aᵀ *ᵥ (We *ᵥ b) + Wx *ᵥ x0) - (Aᵀ * We * A + Wx) *ᵥ x := by
      rw [Matrix.mulVec_sub, Matrix.mulVec_sub, Matrix.mulVec_sub, Matrix.add_mulVec,
        ← Matrix.mulVec_mulVec, ← Matrix.mulVec_mulVec]
      abel
    rw [e] at hst
    exact (sub_eq_zero.mp hst).symm
  calc x = (C * (Aᵀ * We * A + Wx)) *ᵥ x := by rw [hC, Matrix.one_mulVec]
    _ = C *ᵥ (Aᵀ *ᵥ (We *ᵥ b) + Wx *ᵥ x0) := by rw [← Matrix.mulVec_mulVec, hH]

example : (1 : Matrix (Fin 1) (Fin 1) ℚ) * 1 = 1 := by simp

end field

section ordered
variable {K : Type} [Field K] [LinearOrder K] [IsStrictOrderedRing K] {m n : ℕ}

/-- **logPost_directional.**  Along every line the Gaussian log-posterior is the quadratic
    `t ↦ φ(x) + t·(d·∇φ(x)) − t²/2·dᵀ(AᵀWeA + Wx)d`: `gradPost` is its gradient (coefficient of `t`). -/
theorem logPost_directional (A : Matrix (Fin m) (Fin n) K) (We : Matrix (Fin m) (Fin m) K)
    (Wx : Matrix (Fin n) (Fin n) K) (hWe : Weᵀ = We) (hWx : Wxᵀ = Wx) (x0 : Fin n → K) (b : Fin m → K)
    (x d : Fin n → K) (t : K) :
    logPost A We Wx x0 b (x + t • d)
      = logPost A We Wx x0 b x + t * (d ⬝ᵥ gradPost A We Wx x0 b x) - t ^ 2 / 2 * curv A We Wx d := by
  rw [logPost_expand A We Wx hWe hWx]
  simp only [curv, Matrix.mulVec_smul, smul_dotProduct, dotProduct_smul, smul_eq_mul]
  ring

/-- **gaussian_post_maximiser.**  A stationary point of the Gaussian log-posterior (symmetric
    precisions, `We` positive semidefinite, `Wx` positive definite) is its unique global maximiser. -/
theorem gaussian_post_maximiser (A : Matrix (Fin m) (Fin n) K) (We : Matrix (Fin m) (Fin m) K)
    (Wx : Matrix (Fin n) (Fin n) K) (hWe : Weᵀ = We) (hWx : Wxᵀ = Wx)
    (hpsd : ∀ v, 0 ≤ v ⬝ᵥ (We *ᵥ v)) (hpd : ∀ d, d ≠ 0 → 0 < d ⬝ᵥ (Wx *ᵥ d))
    (x0 : Fin n → K) (b : Fin m → K) (xh : Fin n → K) (hstat : gradPost A We Wx x0 b xh = 0) :
    (∀ x, logPost A We Wx x0 b x ≤ logPost A We Wx x0 b xh) ∧
    (∀ x, logPost A We Wx x0 b x = logPost A We Wx x0 b xh → x = xh) := by
  have hexp : ∀ x, logPost A We Wx x0 b x
      = logPost A We Wx x0 b xh - (1/2) * curv A We Wx (x - xh) := by
    intro x
    have := logPost_expand A We Wx hWe hWx x0 b xh (x - xh)
    rw [hstat, dotProduct_zero, add_zero] at this
    rw [← this]; congr 1; abel
  have hcurv : ∀ d, 0 ≤ curv A We Wx d := fun d => by
    unfold curv
    by_cases hd : d = 0
    · subst hd; simp
    · exact add_nonneg (hpsd _) (le_of_lt (hpd d hd))
  constructor
  · intro x
    rw [hexp x]
    have := hcurv (x - xh)
    linarith
  · intro x hx
    rw [hexp x] at hx
    by_contra hne
    have hd : x - xh ≠ 0 := sub_ne_zero.mpr hne
    have : 0 < curv A We Wx (x - xh) := by
      unfold curv
      exact add_pos_of_nonneg_of_pos (hpsd _) (hpd _ hd)
    linarith

example : ∀ d : Fin 1 → ℚ, d ≠ 0 → 0 < d ⬝ᵥ ((1 : Matrix (Fin 1) (Fin 1) ℚ) *ᵥ d) := by
  intro d hd
  have h0 : d 0 ≠ 0 := fun h => hd (funext fun i => by rw [Subsingleton.elim i 0]; exact h)
  simp [dotProduct]
  exact h0

/-- **gaussian_post_stationary_of_max.**  Conversely a maximiser is a stationary point (the gradient
    vanishes at the MAP). -/
theorem gaussian_post_stationary_of_max (A : Matrix (Fin m) (Fin n) K) (We : Matrix (Fin m) (Fin m) K)
    (Wx : Matrix (Fin n) (Fin n) K) (hWe : Weᵀ = We) (hWx : Wxᵀ = Wx)
    (x0 : Fin n → K) (b : Fin m → K) (xh : Fin n → K)
    (hmax : ∀ x, logPost A We Wx x0 b x ≤ logPost A We Wx x0 b xh) :
    gradPost A We Wx x0 b xh = 0 := by
  set g := gradPost A We Wx x0 b xh with hg
  by_contra hne
  have hgg : 0 < g ⬝ᵥ g := by
    have : ∃ i, g i ≠ 0 := by
      by_contra hall
      exact hne (funext fun i => by_contra fun hi => hall ⟨i, hi⟩)
    obtain ⟨i, hi⟩ := this
    unfold dotProduct
    exact Finset.sum_pos' (fun j _ => mul_self_nonneg _) ⟨i, Finset.mem_univ _, mul_self_pos.mpr hi⟩
  set c := curv A We Wx g with hc
  -- choose a small step along g
  have key : ∀ t : K, t * (g ⬝ᵥ g) - t ^ 2 / 2 * c ≤ 0 := by
    intro t
    have h1 := logPost_directional A We Wx hWe hWx x0 b xh g t
    have h2 := hmax (xh + t • g)
    rw [h1] at h2
    linarith
  by_cases hcpos : 0 < c
  · have := key ((g ⬝ᵥ g) / c)
    have hne' : c ≠ 0 := ne_of_gt hcpos
    have e : (g ⬝ᵥ g) / c * (g ⬝ᵥ g) - ((g ⬝ᵥ g) / c) ^ 2 / 2 * c = (g ⬝ᵥ g) ^ 2 / (2 * c) := by
      field_simp; ring
    rw [e] at this
    have : 0 < (g ⬝ᵥ g) ^ 2 / (2 * c) := by positivity
    linarith
  · have hc0 : c ≤ 0 := not_lt.mp hcpos
    have := key 1
    have : (1:K) ^ 2 / 2 * c ≤ 0 := by
      have : (1:K) ^ 2 / 2 = 1 / 2 := by norm_num
      rw [this]; nlinarith
    nlinarith [key 1]

/- `ml_full_column_rank` (the weighted least-squares point is the unique maximiser of the likelihood for a
   full-column-rank model) is proved in `Props/C15_analysis.lean` with Mathlib's `PosDef`/`rank`. -/

/-- **mapDirect_is_maximiser** (`gaussian_post_maximiser` on the executable model).  What the
    closed-form branch returns for 2-D / scalar covariances is the unique maximiser of the
    Gaussian posterior density with precisions `We = Ce⁻¹`, `Wx = Cx⁻¹`, and its gradient vanishes. -/
theorem mapDirect_is_maximiser [DecidableEq K] (slv : Solver K) (m n : ℕ) (Af : ℕ → ℕ → K) (Ce Cx : NArr K)
    (CeF CxF We Wx : ℕ → ℕ → K) (x0 b : ℕ → K) (r : NArr K)
    (hCe : diagIfVec (expandScalar Ce m) = .m m m CeF) (hCx : diagIfVec (expandScalar Cx n) = .m n n CxF)
    (hWe : ∀ i j, i < m → j < m → sumTo m (fun k => We i k * CeF k j) = if i = j then 1 else 0)
    (hWx : ∀ i j, i < n → j < n → sumTo n (fun k => Wx i k * CxF k j) = if i = j then 1 else 0)
    (hWes : (toM m m We)ᵀ = toM m m We) (hWxs : (toM n n Wx)ᵀ = toM n n Wx)
    (hpsd : ∀ v, 0 ≤ v ⬝ᵥ (toM m m We *ᵥ v)) (hpd : ∀ d, d ≠ 0 → 0 < d ⬝ᵥ (toM n n Wx *ᵥ d))
    (h : mapDirect slv (.m m n Af) m n (some Ce) (some Cx) (.v n x0) (.v m b) = .ok r) :
    ∃ x, r = .v n x ∧
      gradPost (toM m n Af) (toM m m We) (toM n n Wx) (toV n x0) (toV m b) (toV n x) = 0 ∧
      (∀ y, logPost (toM m n Af) (toM m m We) (toM n n Wx) (toV n x0) (toV m b) y
          ≤ logPost (toM m n Af) (toM m m We) (toM n n Wx) (toV n x0) (toV m b) (toV n x)) ∧
      (∀ y, logPost (toM m n Af) (toM m m We) (toM n n Wx) (toV n x0) (toV m b) y
          = logPost (toM m n Af) (toM m m We) (toM n n Wx) (toV n x0) (toV m b) (toV n x) → y = toV n x) := by
  obtain ⟨x, rfl, hres⟩ := mapDirect_normal_equations slv m n Af Ce Cx CeF CxF We Wx x0 b r hCe hCx hWe hWx h
  have hgrad : gradPost (toM m n Af) (toM m m We) (toM n n Wx) (toV n x0) (toV m b) (toV n x) = 0 := by
    unfold gradPost
    rw [← toV_normalResidual]
    funext j
    exact hres j j.isLt
  obtain ⟨h1, h2⟩ := gaussian_post_maximiser _ _ _ hWes hWxs hpsd hpd (toV n x0) (toV m b) (toV n x) hgrad
  exact ⟨x, rfl, hgrad, h1, h2⟩

end ordered

/-! ## 3. refusals; 1-D covariance vectors -/

section negative

/- Repo commit 0527445 repaired DESIGN §5 #23 (a 1-D covariance vector was broadcast inside
   `A Cx Aᵀ + Ce`): `diagIfVec` now puts it on the diagonal and `expandCov_documented` holds for
   vectors.  The former witnesses are kept as *positive* instances: `A = [[1],[0]]`, noise covariance
   vector `[1, 1]`, `Cx = 1`, `x0 = 0`, `b = [2, 1]` gives `x = 1` with zero gradient; and `A = I₂`,
   prior covariance vector `[1, 1]`, `b = [2, 2]` gives `[1, 1]`. -/
example : ∃ x, mapDirect (constSolver (fun _ => (1:ℤ)))
        (.m 2 1 fun i _ => if i = 0 then 1 else 0) 2 1
        (some (.v 2 fun _ => 1)) (some (.m 1 1 fun _ _ => 1)) (.v 1 fun _ => 0) (.v 2 fun i => if i = 0 then 2 else 1) = .ok (.v 1 x)
      ∧ docCov 2 (.v 2 fun _ => (1:ℤ)) = some (fun i j => if i = j then 1 else 0)
      ∧ normalResidual 2 1 (fun i _ => if i = 0 then (1:ℤ) else 0) (fun i j => if i = j then 1 else 0)
          (fun _ _ => 1) (fun _ => 0) (fun i => if i = 0 then 2 else 1) x 0 = 0 :=
  ⟨_, rfl, rfl, by decide⟩

example : ∃ x, mapDirect (constSolver (fun _ => (1:ℤ)))
        (.m 2 2 fun i j => if i = j then 1 else 0) 2 2
        (some (.m 2 2 fun i j => if i = j then 1 else 0)) (some (.v 2 fun _ => 1))
        (.v 2 fun _ => 0) (.v 2 fun _ => 2) = .ok (.v 2 x)
      ∧ normalResidual 2 2 (fun i j => if i = j then (1:ℤ) else 0) (fun i j => if i = j then 1 else 0)
          (fun i j => if i = j then 1 else 0) (fun _ => 0) (fun _ => 2) x 1 = 0 :=
  ⟨_, rfl, by decide⟩

variable {R : Type} [CommRing R] [DecidableEq R]

/-- **refuses_non_cov_forms.**  A Gaussian that holds no covariance (`prec`, `sqrtcov`, `sqrtprec`
    parameterisations before `compute_cov()`) makes the closed-form MAP and the direct sampler raise
    `NotImplementedError` — never a point. -/
theorem refuses_non_cov_forms (slv : Solver R) (A : NArr R) (rd dd : ℕ) (c : Option (NArr R)) (x0 b : NArr R) :
    mapDirect slv A rd dd none c x0 b = .error .notImplemented ∧
    mapDirect slv A rd dd (some (.s 1)) none x0 b = .error .notImplemented ∧
    sampleCentre slv A rd dd none c x0 b = .error .notImplemented ∧
    sampleCentre slv A rd dd (some (.s 1)) none x0 b = .error .notImplemented :=
  ⟨rfl, rfl, rfl, rfl⟩

example : mapDirect (constSolver (fun _ => (0:ℤ))) (.m 1 1 fun _ _ => 1) 1 1 none none (.v 1 fun _ => 0) (.v 1 fun _ => 0)
    = .error .notImplemented := rfl

/-- **cov_never_stale.**  After any history of setter assignments and `compute_cov()` calls on one
    Gaussian, the `cov` getter either raises or holds the value of the *last* operation: re-assigning
    `prec` / `sqrtcov` / `sqrtprec` discards a previously computed covariance (the closed form then
    refuses until `compute_cov()` is called again), re-assigning `cov` replaces it. -/
theorem cov_never_stale (st : CovState R) (ops : List (CovOp R)) (last : CovOp R) :
    (CovState.run st (ops ++ [last])).cov =
      match last with
      | .setMain v => if st.covMutable then some v else none
      | .computeCov full => some full := by
  have hm : ∀ (ops : List (CovOp R)) (st : CovState R), (CovState.run st ops).covMutable = st.covMutable := by
    intro ops
    induction ops with
    | nil => intro st; rfl
    | cons o os ih =>
      intro st
      show (CovState.run (st.step o) os).covMutable = st.covMutable
      rw [ih]
      cases o <;> simp [CovState.step] <;> split <;> rfl
  unfold CovState.run
  rw [List.foldl_append]
  show ((CovState.run st ops).step last).cov = _
  cases last with
  | setMain v => simp only [CovState.step, hm ops st]; split <;> rfl
  | computeCov full => rfl

example : (CovState.run (R := ℤ) ⟨false, none⟩ [.computeCov (.s 2), .setMain (.s 3)]).cov.isNone = true := rfl

/-- **sampleCentre_refuses_vectors.**  With a 1-D covariance vector (length > 1) on either side the
    direct sampler never produces draws: whatever `MAP` returned, `np.linalg.inv` raises. -/
theorem sampleCentre_refuses_vectors (slv : Solver R) (A : NArr R) (rd dd : ℕ) (Ce Cx : NArr R) (x0 b : NArr R)
    (l : ℕ) (f : ℕ → R) (hl : l ≠ 1) (h : Ce = .v l f ∨ Cx = .v l f) (r : NArr R) :
    sampleCentre slv A rd dd (some Ce) (some Cx) x0 b ≠ .ok r := by
  intro hr
  unfold sampleCentre at hr
  simp only [getCov, bind, Except.bind] at hr
  split at hr
  · cases hr
  · rcases h with h | h
    · subst h
      simp [expandScalar, NArr.size, hl, invShapeOk] at hr
    · subst h
      by_cases h1 : invShapeOk (expandScalar Ce rd) = true
      · simp [expandScalar, NArr.size, hl, invShapeOk] at hr
      · simp [h1] at hr

example : sampleCentre (constSolver (fun _ => (1:ℤ)))
        (.m 2 1 fun i _ => if i = 0 then 1 else 0) 2 1
        (some (.v 2 fun _ => 1)) (some (.m 1 1 fun _ _ => 1)) (.v 1 fun _ => 0) (.v 2 fun i => if i = 0 then 2 else 1)
      = .error .linAlgError := rfl

end negative

/-! ## 4. `get_matrix` and geometries -/

section geometry
variable {R : Type} [CommRing R]

/-- **geometry_transparent** (function-backed models).  The matrix `get_matrix()` assembles from
    the columns `forward(e_j)` represents `forward` on *parameters* for every linear domain/range
    geometry: `G x = fun2par_R (A (par2fun_D x))` for all `x`.  Hence the closed form evaluated with
    it is the parameter-space posterior mean (§1–2 with `Af := G`). -/
theorem geometry_transparent (rf df rp dp : ℕ) (A E F : ℕ → ℕ → R) (x : ℕ → R) (i : ℕ) :
    ∃ G, getMatrix false rf df rp dp A E F = .m rp dp G ∧ mvec dp G x i = forwardPar rf df dp A E F x i := by
  refine ⟨_, rfl, ?_⟩
  simp only [mvec, forwardPar, sumTo_eq_sum, Finset.sum_mul, Finset.mul_sum]
  rw [Finset.sum_comm]
  refine Finset.sum_congr rfl fun p _ => ?_
  rw [Finset.sum_comm]
  refine Finset.sum_congr rfl fun q _ => ?_
  refine Finset.sum_congr rfl fun j _ => ?_
  ring

/-- **geometry_transparent_matrixBacked_partial.**  A matrix-backed model returns its stored matrix;
    that represents `forward` on parameters when both geometry maps are identities
    (`_DefaultGeometry1D`, `Continuous1D`, `Discrete`, full `StepExpansion`). -/
theorem geometry_transparent_matrixBacked_partial (rf df : ℕ) (A E F : ℕ → ℕ → R) (x : ℕ → R) (i : ℕ)
    (hi : i < rf)
    (hE : ∀ q j, q < df → j < df → E q j = if q = j then 1 else 0)
    (hF : ∀ p q, p < rf → q < rf → F p q = if p = q then 1 else 0) :
    ∃ G, getMatrix true rf df rf df A E F = .m rf df G ∧ mvec df G x i = forwardPar rf df df A E F x i := by
  refine ⟨A, rfl, ?_⟩
  simp only [mvec, forwardPar, sumTo_eq_sum]
  have h1 : ∀ q, q < df → ∑ j ∈ range df, E q j * x j = x q := by
    intro q hq
    rw [Finset.sum_eq_single q]
    · rw [hE q q hq hq]; simp
    · intro j hj hne
      rw [hE q j hq (mem_range.mp hj)]; simp [Ne.symm hne]
    · intro h; exact absurd (mem_range.mpr hq) h
  have hR : ∑ p ∈ range rf, F i p * (∑ q ∈ range df, A p q * ∑ j ∈ range df, E q j * x j)
      = ∑ q ∈ range df, A i q * x q := by
    rw [Finset.sum_eq_single i]
    · rw [hF i i hi hi]; simp
      exact Finset.sum_congr rfl fun q hq => by rw [h1 q (mem_range.mp hq)]
    · intro p hp hne
      rw [hF i p hi (mem_range.mp hp)]; simp [Ne.symm hne]
    · intro h; exact absurd (mem_range.mpr hi) h
  rw [hR]

/-- **getMatrix_matrixBacked_counterexample.**  `A = [1]` stored, domain geometry `par2fun = 2·`:
    `get_matrix()` is `[1]` but `forward(1) = 2`; with `Ce = Cx = 1`, `x0 = 0`, `b = 2` the closed form
    evaluated with the stored matrix returns `1`, where the gradient of the (parameter-space)
    log-posterior, whose forward matrix is `[2]`, is `−1 ≠ 0`. -/
theorem getMatrix_matrixBacked_counterexample :
    (∃ G, getMatrix true 1 1 1 1 (fun _ _ => (1:ℤ)) (fun _ _ => 2) (fun _ _ => 1) = .m 1 1 G ∧
      mvec 1 G (fun _ => 1) 0 ≠ forwardPar 1 1 1 (fun _ _ => (1:ℤ)) (fun _ _ => 2) (fun _ _ => 1) (fun _ => 1) 0) ∧
    ∃ x, mapDirect (constSolver (fun _ => (1:ℤ))) (getMatrix true 1 1 1 1 (fun _ _ => (1:ℤ)) (fun _ _ => 2) (fun _ _ => 1)) 1 1
        (some (.m 1 1 fun _ _ => 1)) (some (.m 1 1 fun _ _ => 1)) (.v 1 fun _ => 0) (.v 1 fun _ => 2) = .ok (.v 1 x)
      ∧ normalResidual 1 1 (fun _ _ => (2:ℤ)) (fun _ _ => 1) (fun _ _ => 1) (fun _ => 0) (fun _ => 2) x 0 ≠ 0 :=
  ⟨⟨_, rfl, by decide⟩, _, rfl, by decide⟩

end geometry

/-! ## 5. direct sampling -/

section sampling
variable {K : Type} [Field K]

/-- **direct_draw_offset.**  The draw for `ξ = 0` is the MAP estimate; draws are affine in `ξ`. -/
theorem direct_draw_offset (n : ℕ) (xmap : ℕ → K) (L : ℕ → ℕ → K) (xi eta : ℕ → K) (c : K) (i : ℕ) :
    draw n xmap L (fun _ => 0) i = xmap i ∧
    draw n xmap L (fun k => xi k + c * eta k) i - xmap i
      = (draw n xmap L xi i - xmap i) + c * (draw n xmap L eta i - xmap i) := by
  simp only [draw, sumTo_eq_sum, mul_zero, Finset.sum_const_zero, add_zero, true_and, add_sub_cancel_left]
  rw [Finset.mul_sum, ← Finset.sum_add_distrib]
  exact Finset.sum_congr rfl fun k _ => by ring

/-- **direct_draw_moments.**  Under any (finitely supported, possibly signed) law of `ξ` with total
    mass 1, mean 0 and second moments `δ_kl`, the draw `x_map + L ξ` has mean `x_map` and covariance
    `L Lᵀ`.  With `L Lᵀ = C` and `C (AᵀWeA + Wx) = 1` (what `cholesky(inv(…))` delivers) these are the
    posterior mean (§2) and the posterior covariance. -/
theorem direct_draw_moments {Ω : Type} [Fintype Ω] (w : Ω → K) (ξ : Ω → ℕ → K) (n : ℕ)
    (xmap : ℕ → K) (L : ℕ → ℕ → K)
    (hw : ∑ ω, w ω = 1) (h1 : ∀ k, k < n → ∑ ω, w ω * ξ ω k = 0)
    (h2 : ∀ k l, k < n → l < n → ∑ ω, w ω * (ξ ω k * ξ ω l) = if k = l then 1 else 0) (i j : ℕ) :
    ∑ ω, w ω * draw n xmap L (ξ ω) i = xmap i ∧
    ∑ ω, w ω * ((draw n xmap L (ξ ω) i - xmap i) * (draw n xmap L (ξ ω) j - xmap j))
      = sumTo n (fun k => L i k * L j k) := by
  constructor
  · simp only [draw, sumTo_eq_sum, mul_add, Finset.sum_add_distrib, ← Finset.sum_mul, hw, one_mul]
    have : ∑ ω, w ω * ∑ k ∈ range n, L i k * ξ ω k = ∑ k ∈ range n, L i k * ∑ ω, w ω * ξ ω k := by
      simp only [Finset.mul_sum]
      rw [Finset.sum_comm]
      exact Finset.sum_congr rfl fun k _ => Finset.sum_congr rfl fun ω _ => by ring
    rw [this, Finset.sum_eq_zero (fun k hk => by rw [h1 k (mem_range.mp hk), mul_zero]), add_zero]
  · simp only [draw, sumTo_eq_sum, add_sub_cancel_left]
    have : ∀ ω, w ω * ((∑ k ∈ range n, L i k * ξ ω k) * ∑ l ∈ range n, L j l * ξ ω l)
        = ∑ k ∈ range n, ∑ l ∈ range n, L i k * L j l * (w ω * (ξ ω k * ξ ω l)) := by
      intro ω
      rw [Finset.sum_mul_sum, Finset.mul_sum]
      refine Finset.sum_congr rfl fun k _ => ?_
      rw [Finset.mul_sum]
      exact Finset.sum_congr rfl fun l _ => by ring
    simp only [this]
    rw [Finset.sum_comm]
    refine Finset.sum_congr rfl fun k hk => ?_
    rw [Finset.sum_comm]
    have : ∀ l ∈ range n, ∑ ω, L i k * L j l * (w ω * (ξ ω k * ξ ω l)) = L i k * L j l * (if k = l then 1 else 0) := by
      intro l hl
      rw [← Finset.mul_sum, h2 k l (mem_range.mp hk) (mem_range.mp hl)]
    rw [Finset.sum_congr rfl this, Finset.sum_eq_single k]
    · simp
    · intro l _ hne; simp [Ne.symm hne]
    · intro h; exact absurd hk h

-- a two-point law for one standard-normal coordinate: ξ = ±1 with weights 1/2
example : ∑ ω : Bool, (fun _ => (1/2 : ℚ)) ω * ((fun ω _ => if ω then (1:ℚ) else -1) ω 0 * (fun ω _ => if ω then (1:ℚ) else -1) ω 0) = 1 := by
  simp; norm_num

end sampling

/-! ## 6. routes and the optimisation wrapper -/

section routes

/-- **mapRoute_direct_iff.**  The closed form is used exactly for Gaussian prior, Gaussian
    likelihood, linear model, both dimensions within `MAX_DIM_INV`; ML never uses it. -/
theorem mapRoute_direct_iff (p : Problem) :
    (mapRoute p = .direct ↔ p.prior = .gaussian ∧ p.lik = .gaussian ∧ p.model = .linear ∧
      p.domainDim ≤ p.maxDimInv ∧ p.rangeDim ≤ p.maxDimInv) ∧ mlRoute p ≠ .direct := by
  constructor
  · unfold mapRoute Problem.directOk Problem.dimsOk
    cases hp : p.prior <;> cases hl : p.lik <;> cases hm : p.model <;>
      simp [PriorKind.isGaussian] <;> split <;> simp
  · unfold mlRoute; split <;> simp

/-- **sampleRoute_mapCholesky_iff.**  Direct sampling is selected under the same condition. -/
theorem sampleRoute_mapCholesky_iff (p : Problem) :
    sampleRoute p = .mapCholesky ↔ mapRoute p = .direct := by
  unfold sampleRoute mapRoute
  by_cases h : p.directOk = true
  · have hg : p.prior = .gaussian := by
      unfold Problem.directOk at h
      cases hp : p.prior <;> simp [hp, PriorKind.isGaussian] at h ⊢
    simp [h, hg]
  · simp only [h, Bool.false_and, Bool.false_eq_true, ↓reduceIte]
    constructor
    · intro h'
      repeat' split at h'
      all_goals cases h'
    · intro h'
      repeat' split at h'
      all_goals cases h'

example : sampleRoute ⟨.gaussian, .gaussian, .linear, 3, 4, true, true, 2000⟩ = .mapCholesky := by decide

end routes

section opt
variable {X : Type} {K : Type} [AddCommGroup K] [PartialOrder K] [IsOrderedAddMonoid K]

/-- **maximize_sign.**  The optimisation route hands SciPy exactly `−logd` (and `−gradient`), so a
    (local) minimiser SciPy returns — which the wrappers pass through untouched — is a (local)
    maximiser of the density on the same set, and the objective's gradient vanishes iff the
    density's does. -/
theorem maximize_sign (logd : X → K) (grad : Option (X → X)) (negX : X → X) (x0 xs : X) (S : Set X) :
    let P := solveMaxPointProblem logd grad negX x0
    ((∀ y ∈ S, P.func xs ≤ P.func y) ↔ (∀ y ∈ S, logd y ≤ logd xs)) ∧
    P.x0 = x0 ∧ wrapperResult xs = xs ∧ startPoint (none : Option X) x0 = x0 ∧ startPoint (some xs) x0 = xs ∧
    (∀ g, grad = some g → ∃ g', P.gradfunc = some g' ∧ ∀ x, g' x = negX (g x)) ∧
    (grad = none → P.gradfunc = none) := by
  refine ⟨?_, rfl, rfl, rfl, rfl, ?_, ?_⟩
  · simp only [solveMaxPointProblem, neg_le_neg_iff]
  · intro g hg; subst hg; exact ⟨_, rfl, fun _ => rfl⟩
  · intro hg; subst hg; rfl

example : (solveMaxPointProblem (fun x : ℤ => -(x * x)) none (fun x => -x) 1).func 3 = 9 := by decide

end opt

end CuqiVerif.C15
