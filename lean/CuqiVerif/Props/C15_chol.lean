import CuqiVerif.Model.C15_chol
import CuqiVerif.Proofs.C15_gauss
import CuqiVerif.Props.C15_analysis
import Mathlib.Analysis.Matrix.LDL

/-!
# C15, the Cholesky factor of the direct sampler (session-3, second pass)

Closes "Remaining gap (a)" of the analysis section: `direct_draw_posterior_law` had `L Lᵀ = H⁻¹` as a
hypothesis about leaf data.  Here: (1) such a factor exists for every positive definite covariance;
(2) the model's certified LDLᵀ form (`choleskyLDL`, executed by the driver over ℚ and compared with numpy's
factor on every sampled problem) *is* a factor `L = Lu·diag(√d)` with `L Lᵀ = C`, lower triangular with
positive diagonal; (3) therefore the draws have the posterior law with no hypothesis on `L` left.
-/
open Matrix MeasureTheory ProbabilityTheory CuqiVerif.C05 WithLp

set_option linter.unusedSectionVars false
set_option linter.unusedVariables false

namespace CuqiVerif.C15

/-- **cholesky_factor_exists_partial.**  Every positive definite real matrix has a square factor `L` with
    `L Lᵀ = C` (via Mathlib's LDL decomposition).  Full statement (not proved here: Mathlib's `LDL.lower`
    is not yet shown lower triangular): `L` can be taken lower triangular with positive diagonal, and is
    then unique.  For the *executed* factor lower-triangularity and positivity are in
    `ldlCert_real_cholesky`. -/
theorem cholesky_factor_exists_partial {n : ℕ} (C : Matrix (Fin n) (Fin n) ℝ) (hC : C.PosDef) :
    ∃ L : Matrix (Fin n) (Fin n) ℝ, L * Lᵀ = C := by
  have hD : (LDL.diag hC).PosSemidef := by
    rw [LDL.diag_eq_lowerInv_conj]; exact hC.posSemidef.mul_mul_conjTranspose_same _
  have hd : ∀ i, 0 ≤ LDL.diagEntries hC i := fun i => by
    have := hD.diag_nonneg (i := i)
    simpa [LDL.diag] using this
  refine ⟨LDL.lower hC * Matrix.diagonal (fun i => Real.sqrt (LDL.diagEntries hC i)), ?_⟩
  rw [Matrix.transpose_mul, Matrix.diagonal_transpose, ← Matrix.mul_assoc,
    Matrix.mul_assoc (LDL.lower hC), Matrix.diagonal_mul_diagonal]
  have h2 : (fun i => Real.sqrt (LDL.diagEntries hC i) * Real.sqrt (LDL.diagEntries hC i)) = LDL.diagEntries hC :=
    funext fun i => Real.mul_self_sqrt (hd i)
  rw [h2]
  have := LDL.lower_conj_diag hC
  simpa [conjTranspose_eq_transpose_of_trivial, LDL.diag] using this

example : ∃ L : Matrix (Fin 2) (Fin 2) ℝ, L * Lᵀ = !![2, 1; 1, 2] :=
  cholesky_factor_exists_partial _ posDef_example

/-- **direct_draw_posterior_law_exists.**  For every linear-Gaussian problem with positive definite
    covariances a factor as required by `direct_draw_posterior_law` exists, and with it the direct draws
    centred on the information-form point are distributed exactly as the Gaussian posterior. -/
theorem direct_draw_posterior_law_exists {m n : ℕ} (A : Matrix (Fin m) (Fin n) ℝ) {Ce : Matrix (Fin m) (Fin m) ℝ}
    {Cx : Matrix (Fin n) (Fin n) ℝ} (hCe : Ce.PosDef) (hCx : Cx.PosDef)
    (x0 : Fin n → ℝ) (b : Fin m → ℝ) (xmap : ℕ → ℝ) (hx : toV n xmap = infoPoint A Ce⁻¹ Cx⁻¹ x0 b) :
    ∃ L : ℕ → ℕ → ℝ, toM n n L * (toM n n L)ᵀ = (precH A Ce⁻¹ Cx⁻¹)⁻¹ ∧
      ((MeasureTheory.Measure.map (fun ξ => toV n (draw n xmap L (ofV ξ))) (stdNormalVec (Fin n))).map (WithLp.toLp 2)
        = ProbabilityTheory.multivariateGaussian (WithLp.toLp 2 (infoPoint A Ce⁻¹ Cx⁻¹ x0 b)) (precH A Ce⁻¹ Cx⁻¹)⁻¹) := by
  obtain ⟨L, hL⟩ := cholesky_factor_exists_partial _ (postPrec_posDef A hCe hCx).2.1.1.inv
  refine ⟨ofM L, by rw [toM_ofM]; exact hL, ?_⟩
  exact (direct_draw_posterior_law A hCe hCx x0 b xmap (ofM L) hx (by rw [toM_ofM]; exact hL)).1

lemma sumTo_cast (n : ℕ) (f : ℕ → ℚ) : ((sumTo n f : ℚ) : ℝ) = sumTo n (fun k => (f k : ℝ)) := by
  induction n with
  | zero => simp [sumTo]
  | succ n ih => simp [sumTo, ih]

/-- **ldlCert_real_cholesky.**  What the model executes (over ℚ) and accepts as `np.linalg.cholesky(C)`:
    whenever the certificate holds, `L = Lu·diag(√d)` (over ℝ) is lower triangular, has positive diagonal
    `√d_i`, and `L Lᵀ = C` entry by entry — for every size and every factoriser. -/
theorem ldlCert_real_cholesky (n : ℕ) (C Lu : ℕ → ℕ → ℚ) (d : ℕ → ℚ) (h : ldlCert n C Lu d = true) :
    let L : ℕ → ℕ → ℝ := fun i k => (Lu i k : ℝ) * Real.sqrt (d k)
    (∀ i j, i < n → j < n → sumTo n (fun k => L i k * L j k) = (C i j : ℝ)) ∧
    (∀ i j, i < n → j < n → i < j → L i j = 0) ∧ (∀ i, i < n → 0 < L i i) := by
  intro L
  simp only [ldlCert, allLt_iff, Bool.and_eq_true, Bool.or_eq_true, decide_eq_true_eq] at h
  have hd : ∀ k, k < n → (0:ℝ) < (d k : ℝ) := fun k hk => by exact_mod_cast (h k hk).1.2
  refine ⟨?_, ?_, ?_⟩
  · intro i j hi hj
    have hij := ((h i hi).2 j hj).2
    have hc : ((sumTo n (fun k => Lu i k * d k * Lu j k) : ℚ) : ℝ) = (C i j : ℝ) := by rw [hij]
    rw [sumTo_cast] at hc
    rw [← hc]
    refine sumTo_congr _ _ _ fun k hk => ?_
    show (Lu i k : ℝ) * Real.sqrt (d k) * ((Lu j k : ℝ) * Real.sqrt (d k)) = ((Lu i k * d k * Lu j k : ℚ) : ℝ)
    have := Real.mul_self_sqrt (hd k hk).le
    push_cast
    calc (Lu i k : ℝ) * Real.sqrt (d k) * ((Lu j k : ℝ) * Real.sqrt (d k))
        = (Lu i k : ℝ) * (Real.sqrt (d k) * Real.sqrt (d k)) * (Lu j k : ℝ) := by ring
      _ = (Lu i k : ℝ) * (d k : ℝ) * (Lu j k : ℝ) := by rw [this]
  · intro i j hi hj hlt
    rcases ((h i hi).2 j hj).1 with hle | hz
    · omega
    · show (Lu i j : ℝ) * _ = 0
      rw [hz]; simp
  · intro i hi
    show 0 < (Lu i i : ℝ) * Real.sqrt (d i)
    rw [(h i hi).1.1]
    simpa using Real.sqrt_pos.mpr (hd i hi)

example : ldlCert 2 (fun i j => if i = j then (2:ℚ) else 1) (fun i j => if i = j then 1 else if j < i then 1/2 else 0)
    (fun i => if i = 0 then 2 else 3/2) = true := by decide +kernel

/-- **direct_draw_posterior_law_certified.**  The chain without leaf data: positive definite covariances,
    centre = information-form point, and a *certified* LDLᵀ form `(Lu, d)` of a rational matrix `C` that
    represents `H⁻¹`: the draws `x_map + (Lu·diag √d) ξ`, `ξ ~ N(0, I)`, are distributed exactly as the
    Gaussian posterior `N(H⁻¹(AᵀCe⁻¹b + Cx⁻¹x0), H⁻¹)`. -/
theorem direct_draw_posterior_law_certified {m n : ℕ} (A : Matrix (Fin m) (Fin n) ℝ) {Ce : Matrix (Fin m) (Fin m) ℝ}
    {Cx : Matrix (Fin n) (Fin n) ℝ} (hCe : Ce.PosDef) (hCx : Cx.PosDef)
    (x0 : Fin n → ℝ) (b : Fin m → ℝ) (xmap : ℕ → ℝ) (hx : toV n xmap = infoPoint A Ce⁻¹ Cx⁻¹ x0 b)
    (C Lu : ℕ → ℕ → ℚ) (d : ℕ → ℚ) (hcert : ldlCert n C Lu d = true)
    (hC : toM n n (fun i j => (C i j : ℝ)) = (precH A Ce⁻¹ Cx⁻¹)⁻¹) :
    (MeasureTheory.Measure.map (fun ξ => toV n (draw n xmap (fun i k => (Lu i k : ℝ) * Real.sqrt (d k)) (ofV ξ)))
        (stdNormalVec (Fin n))).map (WithLp.toLp 2)
      = ProbabilityTheory.multivariateGaussian (WithLp.toLp 2 (infoPoint A Ce⁻¹ Cx⁻¹ x0 b)) (precH A Ce⁻¹ Cx⁻¹)⁻¹ := by
  have hL : toM n n (fun i k => (Lu i k : ℝ) * Real.sqrt (d k)) * (toM n n (fun i k => (Lu i k : ℝ) * Real.sqrt (d k)))ᵀ
      = (precH A Ce⁻¹ Cx⁻¹)⁻¹ := by
    rw [← hC]
    ext i j
    rw [toM_mul_transpose_apply]
    exact (ldlCert_real_cholesky n C Lu d hcert).1 i j i.isLt j.isLt
  exact (direct_draw_posterior_law A hCe hCx x0 b xmap _ hx hL).1

end CuqiVerif.C15
