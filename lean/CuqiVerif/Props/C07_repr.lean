import CuqiVerif.Model.C07_repr
import CuqiVerif.Props.C07

/-!
# C07 — the representation decisions of `Model._apply_func` (session 3, pass 2)

Theorems about the executable transcription `applyFunc` (`CuqiVerif/Model/C07_repr.lean`, driver op `repr`): for the
representations of an input the library documents — a plain parameter vector, plain function values with `is_par=False`, a
`CUQIarray` of parameters or of function values tagged with the geometry the operator expects — the result is the same
parameter-to-parameter map, so the adjoint identity does not depend on how `x` and `y` are represented.
-/
set_option linter.unusedSectionVars false
set_option linter.unusedVariables false

namespace CuqiVerif.C07

variable {R : Type} [CommRing R]

/-- `==` between geometries is sound for the maps: geometries that compare equal have the same `par2fun` and `fun2par`
    (what `Geometry.__eq__` — same class, equal attributes — is meant to guarantee; the asymmetric
    `_DefaultGeometry1D.__eq__` of known finding 9 violates it) -/
def ReprEnv.Sound (env : ReprEnv R) : Prop :=
  ∀ a b, env.geq a b = true →
    (∀ v i, (env.geomOf a).E.apply v i = (env.geomOf b).E.apply v i) ∧
    (∀ v i, (env.geomOf a).F.apply v i = (env.geomOf b).F.apply v i)

/-- the documented representations of the parameter vector `p` on geometry number `g` -/
inductive Rep | plainPar | plainFun | ownPar | ownFun
  deriving DecidableEq

/-- the array handed to `forward` / `adjoint` and the `is_par` flag of the call -/
def Rep.val (env : ReprEnv R) (g : ℕ) (p : ℕ → R) : Rep → RVal R × Bool
  | .plainPar => ({ data := p, len := (env.geomOf g).parDim, tag := .plain }, true)
  | .plainFun => ({ data := (env.geomOf g).E.apply p, len := (env.geomOf g).funDim, tag := .plain }, false)
  | .ownPar => ({ data := p, len := (env.geomOf g).parDim, tag := .cu g true }, true)
  | .ownFun => ({ data := (env.geomOf g).E.apply p, len := (env.geomOf g).funDim, tag := .cu g false }, false)

/-- **The result of `_apply_func` does not depend on the representation of its input.**  With a sound geometry equality that
    recognises the operator's own domain geometry, for every operator matrix `C`, subclass-keeping or -stripping callable,
    and each of the four representations of `p`: the result is `fun2par_gr ∘ C ∘ par2fun_gd (p)`. -/
theorem applyFunc_repr_independent (env : ReprEnv R) (hs : env.Sound) (C : LMat R) (keeps : Bool) (gd gr : ℕ)
    (hrefl : env.geq gd gd = true) (p : ℕ → R) (r : Rep) (i : ℕ) :
    (applyFunc env C keeps gd gr (r.val env gd p).1 (r.val env gd p).2).data i
      = (env.geomOf gr).F.apply (C.apply ((env.geomOf gd).E.apply p)) i := by
  cases r <;> cases keeps <;>
    simp only [applyFunc, Rep.val, to2fun, to2par, callFn, funvals, hrefl, if_true, Bool.false_eq_true, if_false] <;>
    try rfl
  all_goals
    by_cases hg : env.geq gd gr = true
    · simp only [hg, if_true, Bool.false_eq_true, if_false]
      exact (hs gd gr hg).2 _ i
    · have hg' : env.geq gd gr = false := by simpa using hg
      simp [hg']

/-- the environment of a `LinearModel`: geometry 0 = domain, geometry 1 = range -/
def LinModel.env (M : LinModel R) (geq : ℕ → ℕ → Bool) (tt : ℕ → Bool) : ReprEnv R :=
  { geomOf := fun k => if k = 0 then M.dom else M.rng, geq := geq, tagThrough := tt }

/-- **The adjoint identity is independent of the representation of `x` and `y`.**  For a linear model whose geometry equality is
    sound and reflexive on its two geometries, `forward` applied to ANY of the four representations of `x` is `fwdPar x` and
    `adjoint` applied to any representation of `y` is `adjPar y`; hence if `⟨fwdPar x, y⟩ = ⟨x, adjPar y⟩` holds (theorems of
    `Props/C07.lean`), the identity holds for all 16 combinations of input representations, with either kind of callable. -/
theorem adjoint_identity_repr_independent (M : LinModel R) (geq : ℕ → ℕ → Bool) (tt : ℕ → Bool)
    (hs : (M.env geq tt).Sound) (h0 : geq 0 0 = true) (h1 : geq 1 1 = true) (kf ka : Bool) (x y : ℕ → R) (rx ry : Rep)
    (n m : ℕ) (hid : ip m (M.fwdPar x) y = ip n x (M.adjPar y)) :
    ip m (applyFunc (M.env geq tt) M.A kf 0 1 (rx.val (M.env geq tt) 0 x).1 (rx.val (M.env geq tt) 0 x).2).data y
      = ip n x (applyFunc (M.env geq tt) M.B ka 1 0 (ry.val (M.env geq tt) 1 y).1 (ry.val (M.env geq tt) 1 y).2).data := by
  have hf : ∀ i, (applyFunc (M.env geq tt) M.A kf 0 1 (rx.val (M.env geq tt) 0 x).1 (rx.val (M.env geq tt) 0 x).2).data i
      = M.fwdPar x i := fun i => applyFunc_repr_independent (M.env geq tt) hs M.A kf 0 1 h0 x rx i
  have ha : ∀ i, (applyFunc (M.env geq tt) M.B ka 1 0 (ry.val (M.env geq tt) 1 y).1 (ry.val (M.env geq tt) 1 y).2).data i
      = M.adjPar y i := fun i => applyFunc_repr_independent (M.env geq tt) hs M.B ka 1 0 h1 y ry i
  rw [ip_congr m _ (M.fwdPar x) y y (fun i _ => hf i) (fun _ _ => rfl),
      ip_congr n x x _ (M.adjPar y) (fun _ _ => rfl) (fun i _ => ha i)]
  exact hid

/-- an instance: identity equality (`geq a b ↔ a = b`) is sound -/
example : ((LinModel.ofMatrix exA (Geom.ident 3) (Geom.ident 2)).env (fun a b => a == b) (fun _ => true)).Sound := by
  intro a b h
  have : a = b := by simpa [LinModel.env] using h
  subst this
  exact ⟨fun _ _ => rfl, fun _ _ => rfl⟩

/-- **Negative result (known finding `LinearModel:*repr:geometry-eq-asymmetric:*`, now inside the model).**  Default domain
    geometry, `StepExpansion(arange(4), n_steps=2)` range, `_DefaultGeometry1D.__eq__` answering `True` for
    (domain, range): `forward(CUQIarray p)` with a subclass-keeping callable returns the unprojected function values
    (`p[1] = 60`), `forward(ndarray p)` the step means (`(60+… )`: entry 1 is `120`). -/
theorem repr_geq_unsound_counterexample :
    let env : ReprEnv ℚ := { geomOf := fun k => if k = 0 then Geom.ident 4 else Geom.step 4 2,
                             geq := fun a b => a == b || (a == 0 && b == 1), tagThrough := fun _ => true }
    let p : ℕ → ℚ := fun k => if k = 0 then 20 else if k = 1 then 60 else if k = 2 then 100 else 140
    (applyFunc env (LMat.identity 4) true 0 1 { data := p, len := 4, tag := .cu 0 true } true).data 1
      ≠ (applyFunc env (LMat.identity 4) true 0 1 { data := p, len := 4, tag := .plain } true).data 1 := by
  intro env p
  simp only [env, p, applyFunc, to2fun, to2par, callFn, funvals]
  norm_num [LMat.apply, LMat.identity, sumTo, Geom.ident, Geom.step, inStep, stepCount]

end CuqiVerif.C07
