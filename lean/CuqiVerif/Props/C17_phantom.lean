import CuqiVerif.Model.C17_phantom
import Mathlib.Data.Rat.Floor
import Mathlib.Algebra.Order.Floor.Ring
import Mathlib.Tactic.Ring
import Mathlib.Tactic.NormNum
import Mathlib.Tactic.Linarith

/-!
# C17 — the exactly computable phantoms of `_getExactSolution` (`Model/C17_phantom.lean`)

`'square'`, `'hat'`, `'pc'`, `'skyscraper'`: what the arrays look like for EVERY size `dim` and
parameter, and when the code refuses / produces `0/0`.  The driver runs the same definitions.
-/

set_option linter.unusedSectionVars false
set_option linter.unusedVariables false
set_option linter.unusedSimpArgs false

namespace CuqiVerif.C17

/-- **roundHalfEven_spec.**  `np.round` as transcribed: the result is an integer nearest to `q`
    (distance at most 1/2), and on an exact tie it is the even one. -/
theorem roundHalfEven_spec (q : ℚ) :
    |q - (roundHalfEven q : ℚ)| ≤ 1 / 2 ∧ (|q - (roundHalfEven q : ℚ)| = 1 / 2 → roundHalfEven q % 2 = 0) := by
  have hf : q.floor = ⌊q⌋ := rfl
  have h1 := Int.floor_le q
  have h2 := Int.lt_floor_add_one q
  simp only [roundHalfEven, hf]
  by_cases ha : q - (⌊q⌋ : ℚ) < 1 / 2
  · rw [if_pos ha]
    refine ⟨by rw [abs_le]; constructor <;> linarith, fun h => ?_⟩
    rw [abs_of_nonneg (by linarith)] at h
    linarith
  · rw [if_neg ha]
    by_cases hb : 1 / 2 < q - (⌊q⌋ : ℚ)
    · rw [if_pos hb]
      push_cast
      refine ⟨by rw [abs_le]; constructor <;> linarith, fun h => ?_⟩
      rw [abs_of_nonpos (by linarith)] at h
      linarith
    · rw [if_neg hb]
      have he : q - (⌊q⌋ : ℚ) = 1 / 2 := le_antisymm (not_lt.mp hb) (not_lt.mp ha)
      by_cases hev : ⌊q⌋ % 2 = 0
      · rw [if_pos hev]
        exact ⟨by rw [he]; norm_num, fun _ => hev⟩
      · rw [if_neg hev]
        push_cast
        refine ⟨by rw [abs_le]; constructor <;> linarith, fun _ => ?_⟩
        omega

example : roundHalfEven (5 / 2) = 2 ∧ roundHalfEven (7 / 2) = 4 ∧ roundHalfEven (8 / 3) = 3 := by
  refine ⟨?_, ?_, ?_⟩ <;> decide +kernel

/-- `pyBound` stays inside `[0, n]` -/
lemma pyBound_le (n : ℕ) (i : ℤ) : pyBound n i ≤ n := by
  simp only [pyBound]
  split_ifs <;> omega

lemma getD_lt (l : List ℚ) (k : ℕ) (h : k < l.length) : l.getD k 0 = l[k] := by
  simp [List.getD_eq_getElem?_getD, h]

lemma setSlice_length (x : List ℚ) (a b : ℤ) (v : ℚ) : (setSlice x a b v).length = x.length := by
  simp [setSlice]

lemma setSlice_getD (x : List ℚ) (a b : ℤ) (v : ℚ) (k : ℕ) (hk : k < x.length) :
    (setSlice x a b v).getD k 0 = if pyBound x.length a ≤ k ∧ k < pyBound x.length b then v else x.getD k 0 := by
  have hl : k < (setSlice x a b v).length := by rw [setSlice_length]; exact hk
  rw [getD_lt _ _ hl, getD_lt _ _ hk]
  simp [setSlice]

/-- **square_phantom_tophat.**  `'square'` for every `dim` and every `phantom_param ≥ 3` (default 15):
    the code does not refuse, the array has length `dim`, and it is the indicator of ONE contiguous
    block `[lo, hi)` — value exactly 1 inside, exactly 0 outside — with
    `lo = dimh − w`, `hi = dimh + w` (clipped to the array by Python's slice rule),
    `dimh = round(dim/2)`, `w = round(dim/phantom_param)` (round half to even).
    For `phantom_param < 3` the code raises `ValueError`. -/
theorem square_phantom_tophat (dim : ℕ) (param : Option ℚ) :
    (param.getD 15 < 3 → phantomSquare dim param = .raises "ValueError") ∧
    (¬ param.getD 15 < 3 → ∃ x, phantomSquare dim param = .ok x ∧ x.length = dim ∧
      ∀ k, k < dim → x.getD k 0 =
        if pyBound dim (roundHalfEven ((dim : ℚ) / 2) - roundHalfEven ((dim : ℚ) / param.getD 15)) ≤ k ∧
           k < pyBound dim (roundHalfEven ((dim : ℚ) / 2) + roundHalfEven ((dim : ℚ) / param.getD 15)) then 1 else 0) := by
  refine ⟨fun h => by simp [phantomSquare, h], fun h => ?_⟩
  refine ⟨setSlice (List.replicate dim 0) (roundHalfEven ((dim : ℚ) / 2) - roundHalfEven ((dim : ℚ) / param.getD 15))
    (roundHalfEven ((dim : ℚ) / 2) + roundHalfEven ((dim : ℚ) / param.getD 15)) 1, ?_, by simp [setSlice_length], ?_⟩
  · simp only [phantomSquare]; rw [if_neg h]
  intro k hk
  have hl : k < (List.replicate dim (0 : ℚ)).length := by simpa using hk
  rw [setSlice_getD _ _ _ _ _ hl]
  simp only [List.length_replicate]
  split_ifs
  · rfl
  · rw [getD_lt _ _ hl]; simp

example : phantomSquare 12 (some 4) = .ok [0, 0, 0, 1, 1, 1, 1, 1, 1, 0, 0, 0] := by decide +kernel

/-- `np.piecewise` as transcribed returns 0 or one of the listed values -/
lemma piecewise_mem (thr vals : List ℚ) (xmax x : ℚ) : piecewise thr vals xmax x = 0 ∨ piecewise thr vals xmax x ∈ vals := by
  simp only [piecewise]
  generalize hn : vals.length = n
  have key : ∀ (l : List ℕ) (acc : ℚ), (∀ k ∈ l, k < vals.length) → (acc = 0 ∨ acc ∈ vals) →
      (let r := l.foldl (fun acc k =>
        if (if k + 1 = n then decide (thr.getD k 0 ≤ x) && decide (x ≤ xmax)
            else decide (thr.getD k 0 ≤ x) && decide (x < thr.getD (k + 1) 0)) = true then vals.getD k 0 else acc) acc
       r = 0 ∨ r ∈ vals) := by
    intro l
    induction l with
    | nil => intro acc _ h; simpa using h
    | cons a t ih =>
      intro acc hl h
      simp only [List.foldl_cons]
      apply ih
      · intro k hk; exact hl k (List.mem_cons_of_mem _ hk)
      · have ha : a < vals.length := hl a (List.mem_cons_self ..)
        have hv : vals.getD a 0 = 0 ∨ vals.getD a 0 ∈ vals := by
          right; rw [getD_lt _ _ ha]; exact List.getElem_mem ha
        split_ifs <;> first | exact hv | exact h
  exact key (List.range n) 0 (by intro k hk; rw [hn]; exact List.mem_range.mp hk) (Or.inl rfl)

/-- **pc_skyscraper_values.**  `'pc'` and `'skyscraper'` for every `dim`: an array of length `dim`
    all of whose entries are among the documented plateau heights (`0, 1, 2, 3`, resp.
    `0, 1/4, 3/4, 1, 13/10, 3/2`) — no other value can occur, whatever the size. -/
theorem pc_skyscraper_values (dim : ℕ) :
    (∃ x, phantomPc dim = .ok x ∧ x.length = dim ∧ ∀ v ∈ x, v ∈ [(0 : ℚ), 1, 2, 3]) ∧
    (∃ x, phantomSky dim = .ok x ∧ x.length = dim ∧ ∀ v ∈ x, v ∈ [(0 : ℚ), 1 / 4, 3 / 4, 1, 13 / 10, 3 / 2]) := by
  refine ⟨⟨_, rfl, by simp, ?_⟩, ⟨_, rfl, by simp, ?_⟩⟩
  · intro v hv
    simp only [List.mem_map] at hv
    obtain ⟨i, _, rfl⟩ := hv
    have h := piecewise_mem pcThr pcVals (unitMesh dim (dim - 1)) (unitMesh dim i)
    generalize piecewise pcThr pcVals (unitMesh dim (dim - 1)) (unitMesh dim i) = w at h ⊢
    rcases h with h | h
    · rw [h]; simp
    · simp only [pcVals, List.mem_cons, List.not_mem_nil, or_false] at h
      rcases h with h | h | h | h | h | h | h <;> rw [h] <;> simp
  · intro v hv
    simp only [List.mem_map] at hv
    obtain ⟨i, _, rfl⟩ := hv
    have h := piecewise_mem skyThr skyVals 1 (unitMesh dim i)
    generalize piecewise skyThr skyVals 1 (unitMesh dim i) = w at h ⊢
    rcases h with h | h
    · rw [h]; simp
    · simp only [skyVals, List.mem_cons, List.not_mem_nil, or_false] at h
      rcases h with h | h | h | h | h | h | h | h | h | h | h <;> rw [h] <;> simp

example : phantomPc 11 = .ok [0, 2, 2, 1, 1, 1, 0, 0, 0, 0, 0] := by decide +kernel

/-- **Negative witness (observation: the `'hat'` phantom for small sizes).**  With the default
    `phantom_param = 15` and `dim = 6` the half-width rounds to 0 and the code computes `0/0`:
    the phantom contains NaN; with `dim = 2`, `phantom_param = 3` the slices cannot be filled and the
    code raises `ValueError`. -/
theorem hat_small_sizes_counterexample :
    phantomHat 6 none = .nan ∧ phantomHat 2 (some 3) = .raises "ValueError" := by
  constructor <;> decide +kernel

end CuqiVerif.C17
