import CuqiVerif.Model.C03
import CuqiVerif.Proofs.RExpr
import CuqiVerif.Proofs.C03

/-!
# C03 — every gradient equals the derivative of the log-density, or is refused

All statements are about the definitions of `Model/C03.lean` — the `RExpr` closed forms the driver
evaluates (`cauchyLogpdf`/`cauchyGrad`, …) and the generic vector-level assembly (`gaussGrad`,
`gaussQuad`, `cmrfGradCode`, `likGrad`, `fdGrad`, `sumGrad`), instantiated at `ℝ` here and at
`Rat` in the driver.  Parameters, evaluation points and dimensions are universally quantified.

Scalar components use the environment `env4 x p1 p2 p3` (`var 0 = x`, `var k = pk`).
-/
open Finset Filter Topology

namespace CuqiVerif.C03
open CuqiVerif RExpr

/-! ## 1. the scalar closed forms (via the master theorem `RExpr.hasDerivAt_deriv`) -/

/-- **Cauchy**: `Cauchy.gradient` is the derivative of `Cauchy.logpdf`, all `x`, location, scale > 0. -/
theorem cauchy_grad_eq_deriv (x l s : ℝ) (hs : 0 < s) :
    HasDerivAt (fun t => eval (env4 t l s 0) (cauchyLogpdf (var 0) (var 1) (var 2)))
      (eval (env4 x l s 0) (cauchyGrad (var 0) (var 1) (var 2))) x := by
  have hs' : s ≠ 0 := ne_of_gt hs
  apply comp_hasDerivAt
  · simp [cauchyLogpdf, hs']
    positivity
  · have : Real.pi ≠ 0 := Real.pi_ne_zero
    have h1 : s ^ 2 + (x - l) ^ 2 ≠ 0 := by positivity
    simp [cauchyLogpdf, cauchyGrad, deriv_var_ne]
    field_simp

example : HasDerivAt (fun t => eval (env4 t 1 2 0) (cauchyLogpdf (var 0) (var 1) (var 2)))
    (eval (env4 3 1 2 0) (cauchyGrad (var 0) (var 1) (var 2))) 3 :=
  cauchy_grad_eq_deriv 3 1 2 (by norm_num)

/-- **Beta**: on the open unit interval, all shape parameters > 0. -/
theorem beta_grad_eq_deriv (x a b : ℝ) (hx0 : 0 < x) (hx1 : x < 1) (ha : 0 < a) (hb : 0 < b) :
    HasDerivAt (fun t => eval (env4 t a b 0) (betaLogpdf (var 0) (var 1) (var 2)))
      (eval (env4 x a b 0) (betaGrad (var 0) (var 1) (var 2))) x := by
  have h1 : x ≠ 0 := ne_of_gt hx0
  have h2 : (1 - x) ≠ 0 := by linarith
  have h3 : (x - 1) ≠ 0 := by linarith
  apply comp_hasDerivAt
  · simp [betaLogpdf, hx0, ha, hb]
    constructor <;> linarith
  · simp [betaLogpdf, betaGrad, deriv_var_ne]
    field_simp
    ring

example : HasDerivAt (fun t => eval (env4 t 2 3 0) (betaLogpdf (var 0) (var 1) (var 2)))
    (eval (env4 (1/4) 2 3 0) (betaGrad (var 0) (var 1) (var 2))) (1/4) :=
  beta_grad_eq_deriv (1/4) 2 3 (by norm_num) (by norm_num) (by norm_num) (by norm_num)

/-- **InverseGamma**: for `x > location`, shape and scale > 0, every location. -/
theorem invGamma_grad_eq_deriv (x a loc sc : ℝ) (hx : loc < x) (ha : 0 < a) (hsc : 0 < sc) :
    HasDerivAt (fun t => eval (env4 t a loc sc) (invGammaLogpdf (var 0) (var 1) (var 2) (var 3)))
      (eval (env4 x a loc sc) (invGammaGrad (var 0) (var 1) (var 2) (var 3))) x := by
  have h1 : x - loc ≠ 0 := by linarith
  have h1' : 0 < x - loc := by linarith
  have h2 : sc ≠ 0 := ne_of_gt hsc
  apply comp_hasDerivAt
  · simp [invGammaLogpdf, ha, hsc, h1, h2]
    exact hx
  · simp [invGammaLogpdf, invGammaGrad, deriv_var_ne]
    field_simp
    ring

example : HasDerivAt (fun t => eval (env4 t 2 (-1) 3) (invGammaLogpdf (var 0) (var 1) (var 2) (var 3)))
    (eval (env4 1 2 (-1) 3) (invGammaGrad (var 0) (var 1) (var 2) (var 3))) 1 :=
  invGamma_grad_eq_deriv 1 2 (-1) 3 (by norm_num) (by norm_num) (by norm_num)

/-- **SmoothedLaplace**: everywhere (including `x = location`), scale > 0, smoothing > 0. -/
theorem smoothedLaplace_grad_eq_deriv (x l s β : ℝ) (hs : 0 < s) (hβ : 0 < β) :
    HasDerivAt (fun t => eval (env4 t l s β) (slLogpdf (var 0) (var 1) (var 2) (var 3)))
      (eval (env4 x l s β) (slGrad (var 0) (var 1) (var 2) (var 3))) x := by
  have h2 : s ≠ 0 := ne_of_gt hs
  have h3 : 0 < (x - l) ^ 2 + β := by positivity
  have h4 : Real.sqrt ((x - l) ^ 2 + β) ≠ 0 := by positivity
  apply comp_hasDerivAt
  · simp [slLogpdf, h2, h3]
    positivity
  · simp [slLogpdf, slGrad, deriv_var_ne]
    field_simp

example : HasDerivAt (fun t => eval (env4 t 1 2 (1/4)) (slLogpdf (var 0) (var 1) (var 2) (var 3)))
    (eval (env4 1 1 2 (1/4)) (slGrad (var 0) (var 1) (var 2) (var 3))) 1 :=
  smoothedLaplace_grad_eq_deriv 1 1 2 (1/4) (by norm_num) (by norm_num)

/-- **ModifiedHalfNormal**: for `x > 0`, every `(alpha, beta, gamma)`; the code instantiates
    `beta = gamma = alpha` in *both* `logpdf` and `_gradient` (its getters), which this covers. -/
theorem mhn_grad_eq_deriv (x a b c : ℝ) (hx : 0 < x) :
    HasDerivAt (fun t => eval (env4 t a b c) (mhnLogpdf (var 0) (var 1) (var 2) (var 3)))
      (eval (env4 x a b c) (mhnGrad (var 0) (var 1) (var 2) (var 3))) x := by
  have h1 : x ≠ 0 := ne_of_gt hx
  apply comp_hasDerivAt
  · simp [mhnLogpdf, hx]
  · simp [mhnLogpdf, mhnGrad, deriv_var_ne]
    field_simp
    ring

/-- the instantiation the code actually evaluates (`self.beta`, `self.gamma` return `_alpha`) -/
theorem mhn_grad_eq_deriv_as_coded (x a : ℝ) (hx : 0 < x) :
    HasDerivAt (fun t => eval (env4 t a 0 0) (mhnLogpdf (var 0) (var 1) (var 1) (var 1)))
      (eval (env4 x a 0 0) (mhnGrad (var 0) (var 1) (var 1) (var 1))) x := by
  have h1 : x ≠ 0 := ne_of_gt hx
  apply comp_hasDerivAt
  · simp [mhnLogpdf, hx]
  · simp [mhnLogpdf, mhnGrad, deriv_var_ne]
    field_simp
    ring

example : HasDerivAt (fun t => eval (env4 t 2 0 0) (mhnLogpdf (var 0) (var 1) (var 1) (var 1)))
    (eval (env4 (3/2) 2 0 0) (mhnGrad (var 0) (var 1) (var 1) (var 1))) (3/2) :=
  mhn_grad_eq_deriv_as_coded (3/2) 2 (by norm_num)

/-- **Lognormal** with diagonal covariance, per component, `x > 0`, variance > 0. -/
theorem lognormal_diag_grad_eq_deriv (x m v : ℝ) (hx : 0 < x) (hv : 0 < v) :
    HasDerivAt (fun t => eval (env4 t m v 0) (lognLogpdf (var 0) (var 1) (var 2)))
      (eval (env4 x m v 0) (lognGrad (var 0) (var 1) (var 2))) x := by
  have h1 : x ≠ 0 := ne_of_gt hx
  have h2 : v ≠ 0 := ne_of_gt hv
  have hpi : 0 < Real.pi := Real.pi_pos
  apply comp_hasDerivAt
  · simp [lognLogpdf, hx, h2]
    positivity
  · simp [lognLogpdf, lognGrad, deriv_var_ne]
    field_simp
    ring

example : HasDerivAt (fun t => eval (env4 t 1 2 0) (lognLogpdf (var 0) (var 1) (var 2)))
    (eval (env4 3 1 2 0) (lognGrad (var 0) (var 1) (var 2))) 3 :=
  lognormal_diag_grad_eq_deriv 3 1 2 (by norm_num) (by norm_num)

/-- CMRF, per difference `u`: `-2u/(u²+s²)` is the derivative of `log s - log(u²+s²)`. -/
theorem cmrfComp_grad_eq_deriv (u s : ℝ) (hs : 0 < s) :
    HasDerivAt (fun t => eval (env4 t s 0 0) (cmrfComp (var 0) (var 1)))
      (eval (env4 u s 0 0) (cmrfCompGrad (var 0) (var 1))) u := by
  have h3 : 0 < u ^ 2 + s ^ 2 := by positivity
  apply comp_hasDerivAt
  · simp [cmrfComp, hs, h3]
  · simp [cmrfComp, cmrfCompGrad, deriv_var_ne]
    field_simp

/-! ## 2. from components to vectors: independent families, every dimension -/

/-- **i.i.d. lift, every dimension `n` and component `i < n`.**  If the log-density is
    `Σ_j c j (x j)` and component `i` has derivative `g` at `x i`, then the `i`-th partial derivative
    of the sum is `g`: the gradient vector of an independent family is the vector of component
    derivatives (each with its own — scalar-broadcast or per-component — parameters inside `c j`). -/
theorem iid_partial_deriv (n : ℕ) (c : ℕ → ℝ → ℝ) (x : ℕ → ℝ) (i : ℕ) (hi : i < n) (g : ℝ)
    (hc : HasDerivAt (c i) g (x i)) :
    HasDerivAt (fun t => ∑ j ∈ range n, c j (Function.update x i t j)) g (x i) := by
  have h : HasDerivAt (fun t => ∑ j ∈ range n, c j (Function.update x i t j))
      (∑ j ∈ range n, if j = i then g else 0) (x i) := by
    apply HasDerivAt.fun_sum
    intro j _
    by_cases hj : j = i
    · subst hj
      simpa using hc
    · simpa [hj, Function.update_of_ne hj] using hasDerivAt_const (x i) (c j (x j))
  refine h.congr_deriv ?_
  simp [Finset.sum_ite_eq', hi]

/-- the Cauchy family in dimension `n`, per-component location and scale -/
theorem cauchy_vector_grad (n : ℕ) (x l s : ℕ → ℝ) (hs : ∀ j, 0 < s j) (i : ℕ) (hi : i < n) :
    HasDerivAt (fun t => ∑ j ∈ range n,
        eval (env4 (Function.update x i t j) (l j) (s j) 0) (cauchyLogpdf (var 0) (var 1) (var 2)))
      (eval (env4 (x i) (l i) (s i) 0) (cauchyGrad (var 0) (var 1) (var 2))) (x i) :=
  iid_partial_deriv n (fun j y => eval (env4 y (l j) (s j) 0) (cauchyLogpdf (var 0) (var 1) (var 2)))
    x i hi _ (cauchy_grad_eq_deriv (x i) (l i) (s i) (hs i))


/-! ### the other independent families in dimension `n` (per-component parameters) -/

theorem beta_vector_grad (n : ℕ) (x a b : ℕ → ℝ) (hx : ∀ j, 0 < x j ∧ x j < 1) (ha : ∀ j, 0 < a j)
    (hb : ∀ j, 0 < b j) (i : ℕ) (hi : i < n) :
    HasDerivAt (fun t => ∑ j ∈ range n,
        eval (env4 (Function.update x i t j) (a j) (b j) 0) (betaLogpdf (var 0) (var 1) (var 2)))
      (eval (env4 (x i) (a i) (b i) 0) (betaGrad (var 0) (var 1) (var 2))) (x i) :=
  iid_partial_deriv n (fun j y => eval (env4 y (a j) (b j) 0) (betaLogpdf (var 0) (var 1) (var 2)))
    x i hi _ (beta_grad_eq_deriv (x i) (a i) (b i) (hx i).1 (hx i).2 (ha i) (hb i))

theorem invGamma_vector_grad (n : ℕ) (x a loc sc : ℕ → ℝ) (hx : ∀ j, loc j < x j) (ha : ∀ j, 0 < a j)
    (hsc : ∀ j, 0 < sc j) (i : ℕ) (hi : i < n) :
    HasDerivAt (fun t => ∑ j ∈ range n,
        eval (env4 (Function.update x i t j) (a j) (loc j) (sc j)) (invGammaLogpdf (var 0) (var 1) (var 2) (var 3)))
      (eval (env4 (x i) (a i) (loc i) (sc i)) (invGammaGrad (var 0) (var 1) (var 2) (var 3))) (x i) :=
  iid_partial_deriv n
    (fun j y => eval (env4 y (a j) (loc j) (sc j)) (invGammaLogpdf (var 0) (var 1) (var 2) (var 3)))
    x i hi _ (invGamma_grad_eq_deriv (x i) (a i) (loc i) (sc i) (hx i) (ha i) (hsc i))

theorem smoothedLaplace_vector_grad (n : ℕ) (x l s : ℕ → ℝ) (β : ℝ) (hs : ∀ j, 0 < s j) (hβ : 0 < β)
    (i : ℕ) (hi : i < n) :
    HasDerivAt (fun t => ∑ j ∈ range n,
        eval (env4 (Function.update x i t j) (l j) (s j) β) (slLogpdf (var 0) (var 1) (var 2) (var 3)))
      (eval (env4 (x i) (l i) (s i) β) (slGrad (var 0) (var 1) (var 2) (var 3))) (x i) :=
  iid_partial_deriv n (fun j y => eval (env4 y (l j) (s j) β) (slLogpdf (var 0) (var 1) (var 2) (var 3)))
    x i hi _ (smoothedLaplace_grad_eq_deriv (x i) (l i) (s i) β (hs i) hβ)

theorem lognormal_diag_vector_grad (n : ℕ) (x m v : ℕ → ℝ) (hx : ∀ j, 0 < x j) (hv : ∀ j, 0 < v j)
    (i : ℕ) (hi : i < n) :
    HasDerivAt (fun t => ∑ j ∈ range n,
        eval (env4 (Function.update x i t j) (m j) (v j) 0) (lognLogpdf (var 0) (var 1) (var 2)))
      (eval (env4 (x i) (m i) (v i) 0) (lognGrad (var 0) (var 1) (var 2))) (x i) :=
  iid_partial_deriv n (fun j y => eval (env4 y (m j) (v j) 0) (lognLogpdf (var 0) (var 1) (var 2)))
    x i hi _ (lognormal_diag_grad_eq_deriv (x i) (m i) (v i) (hx i) (hv i))

/-- **Uniform**: inside the open box the log-density is the constant `c`, so the zero vector
    `Uniform.gradient` returns is its derivative (the box is a neighbourhood of the point). -/
theorem uniform_grad_zero (lo hi c : ℝ) (x : ℝ) (hlo : lo < x) (hhi : x < hi) :
    HasDerivAt (fun t => if lo ≤ t ∧ t ≤ hi then c else 0) 0 x := by
  have hc : HasDerivAt (fun _ : ℝ => c) 0 x := hasDerivAt_const x c
  refine hc.congr_of_eventuallyEq ?_
  have : Set.Ioo lo hi ∈ 𝓝 x := Ioo_mem_nhds hlo hhi
  filter_upwards [this] with t ht
  simp [le_of_lt ht.1, le_of_lt ht.2]

/-! ## 3. Gaussian, GMRF: quadratic forms -/

/-- **Gaussian / GMRF, every dimension, every mean, every symmetric precision.**
    `gaussGrad n P x μ i = -(P (x-μ))_i` is the `i`-th partial derivative of `-½ (x-μ)ᵀP(x-μ)`. -/
theorem gauss_grad_eq_deriv (n : ℕ) (P : ℕ → ℕ → ℝ) (hP : ∀ a b, P a b = P b a) (x μ : ℕ → ℝ)
    (i : ℕ) (hi : i < n) :
    HasDerivAt (fun t => -(gaussQuad n P (Function.update x i t) μ) / 2) (gaussGrad n P x μ i) (x i) := by
  have hF : ∀ a < n, HasDerivAt (fun t => -(Function.update x i t a)) (-(if a = i then (1:ℝ) else 0)) (x i) := by
    intro a _
    have := (hasDerivAt_update_sub x (fun _ => 0) i a).const_sub 0
    simpa using this
  have h := hasDerivAt_quad_curve n P hP (fun a => -(μ a)) (fun a t => -(Function.update x i t a))
    (fun a => -(if a = i then (1:ℝ) else 0)) (x i) hF
  have e1 : (fun t => -(gaussQuad n P (Function.update x i t) μ) / 2)
      = fun t => -(∑ a ∈ range n, (-(μ a) - -(Function.update x i t a))
          * ∑ b ∈ range n, P a b * (-(μ b) - -(Function.update x i t b))) / 2 := by
    funext t
    rw [gaussQuad_eq]
    congr 2
    apply Finset.sum_congr rfl; intro a _
    congr 1
    · ring
    · apply Finset.sum_congr rfl; intro b _; ring
  rw [e1]
  refine h.congr_deriv ?_
  rw [gaussGrad_eq]
  simp only [Function.update_eq_self, mul_neg, mul_ite, mul_one, mul_zero, Finset.sum_neg_distrib,
    Finset.sum_ite_eq', Finset.mem_range, hi, if_true]
  congr 1
  apply Finset.sum_congr rfl; intro b _; ring

example : HasDerivAt (fun t => -(gaussQuad 2 (fun a b => if a = b then 2 else 1) (Function.update (fun _ => (1:ℝ)) 0 t) (fun _ => 0)) / 2)
    (gaussGrad 2 (fun a b => if a = b then (2:ℝ) else 1) (fun _ => 1) (fun _ => 0) 0) ((fun _ => (1:ℝ)) 0) :=
  gauss_grad_eq_deriv 2 _ (by intro a b; by_cases h : a = b <;> simp [h, eq_comm]) _ _ 0 (by norm_num)

/-- `‖R z‖² = zᵀ(RᵀR) z`: the Mahalanobis distance `_logupdf` computes through `sqrtprec` is the
    quadratic form of `gramOf m R = RᵀR` (any commutative ring; any `m × n` factor `R`). -/
theorem normSq_eq_quad_gram {K : Type} [CommRing K] (m n : ℕ) (R : ℕ → ℕ → K) (z : ℕ → K) :
    normSqR m n R z = gaussQuad n (gramOf m R) z (fun _ => 0) := by
  simp only [normSqR, gaussQuad, matVec, gramOf, sumTo_eq_sum, sub_zero]
  simp only [Finset.mul_sum, Finset.sum_mul]
  rw [Finset.sum_comm]
  apply Finset.sum_congr rfl; intro a _
  rw [Finset.sum_comm]
  apply Finset.sum_congr rfl; intro b _
  apply Finset.sum_congr rfl; intro k _
  ring

/-- `RᵀR` is symmetric -/
theorem gramOf_symm {K : Type} [CommRing K] (m : ℕ) (R : ℕ → ℕ → K) (a b : ℕ) :
    gramOf m R a b = gramOf m R b a := by
  simp only [gramOf, sumTo_eq_sum]
  apply Finset.sum_congr rfl; intro k _; ring

/-- **GMRF** (`-(prec * DᵀD) @ (x - mean)`), every difference operator `D` (any order, boundary
    condition, 1-D or 2-D), every size: the gradient is the derivative of `-½ prec ‖D(x-mean)‖²`. -/
theorem gmrf_grad_eq_deriv (m n : ℕ) (D : ℕ → ℕ → ℝ) (prec : ℝ) (x μ : ℕ → ℝ) (i : ℕ) (hi : i < n) :
    HasDerivAt (fun t => -(gaussQuad n (fun a b => prec * gramOf m D a b) (Function.update x i t) μ) / 2)
      (gaussGrad n (fun a b => prec * gramOf m D a b) x μ i) (x i) :=
  gauss_grad_eq_deriv n _ (fun a b => by rw [gramOf_symm]) x μ i hi

/-- **Code-faithful defect** (`Gaussian(mean, prec=<1-D array>)`): what `_gradient` returns is the
    scalar `-Σ_j p_j (x_j - μ_j)`, i.e. the *sum* of the components of the true gradient `-diag(p)(x-μ)`,
    not the gradient vector. -/
theorem gauss_precVector_returns_sum {K : Type} [CommRing K] (n : ℕ) (p x μ : ℕ → K) :
    gaussGradPrecVectorCode n p x μ
      = ∑ i ∈ range n, gaussGrad n (fun a b => if a = b then p a else 0) x μ i := by
  simp only [gaussGradPrecVectorCode, gaussGrad_eq, sumTo_eq_sum, Finset.sum_neg_distrib, ite_mul, zero_mul]
  congr 1
  apply Finset.sum_congr rfl; intro i hi
  simp [Finset.sum_ite_eq, Finset.mem_range.mp hi]

/-! ## 4. CMRF -/

/-- `CMRF.logpdf`: `-m log π + Σ_k (log s - log((D(x-l))_k² + s²))` -/
noncomputable def cmrfLogpdf (m n : ℕ) (D : ℕ → ℕ → ℝ) (s : ℝ) (x l : ℕ → ℝ) : ℝ :=
  -(m : ℝ) * Real.log Real.pi
    + ∑ k ∈ range m, eval (env4 (matVec n D (fun j => x j - l j) k) s 0 0) (cmrfComp (var 0) (var 1))

/-- **CMRF, every difference operator `D` (`m × n`: any boundary condition, 1-D or 2-D), every
    location, scale > 0, every size**: `CMRF._gradient` is the derivative of `CMRF.logpdf`. -/
theorem cmrf_grad_eq_deriv (m n : ℕ) (D : ℕ → ℕ → ℝ) (s : ℝ) (hs : 0 < s) (x l : ℕ → ℝ)
    (i : ℕ) (hi : i < n) :
    HasDerivAt (fun t => cmrfLogpdf m n D s (Function.update x i t) l) (cmrfGrad m n D s x l i) (x i) := by
  unfold cmrfLogpdf
  have hsum := hasDerivAt_sum_comp m
    (fun k t => ∑ b ∈ range n, D k b * (Function.update x i t b - l b)) (fun k => D k i)
    (fun _ u => eval (env4 u s 0 0) (cmrfComp (var 0) (var 1)))
    (fun k => eval (env4 (∑ b ∈ range n, D k b * (x b - l b)) s 0 0) (cmrfCompGrad (var 0) (var 1))) (x i)
    (fun k _ => hasDerivAt_linForm n (D k) x l i hi)
    (fun k _ => by
      simp only [Function.update_eq_self]
      exact cmrfComp_grad_eq_deriv _ s hs)
  have h2 := hsum.const_add (-(m : ℝ) * Real.log Real.pi)
  simp only [matVec_eq]
  refine h2.congr_deriv ?_
  simp only [cmrfGrad, sumTo_eq_sum, matVec_eq]
  apply Finset.sum_congr rfl; intro k _
  congr 1
  simp [cmrfCompGrad]
  ring

example : HasDerivAt (fun t => cmrfLogpdf 1 2 (fun _ j => if j = 0 then 1 else -1) 2 (Function.update (fun _ => (1:ℝ)) 0 t) (fun _ => 3))
    (cmrfGrad 1 2 (fun _ j => if j = 0 then (1:ℝ) else -1) 2 (fun _ => 1) (fun _ => 3) 0) ((fun _ => (1:ℝ)) 0) :=
  cmrf_grad_eq_deriv 1 2 _ 2 (by norm_num) _ _ 0 (by norm_num)

/-- **Regression witness** (the defect of the pinned snapshot, repaired by /repo commit 019a74f):
    differentiating through `D @ val` instead of `D @ (val - location)` is *not* the derivative when
    the location is non-zero (one difference `x₀ - x₁`, scale 1, `x = location = (1, 0)`:
    derivative `0`, unshifted formula `-1`).  This is why the generators keep non-zero locations. -/
theorem cmrf_unshifted_not_deriv :
    ¬ HasDerivAt (fun t => cmrfLogpdf 1 2 (fun _ j => if j = 0 then 1 else -1) 1
          (Function.update (fun j => if j = 0 then (1:ℝ) else 0) 0 t) (fun j => if j = 0 then 1 else 0))
        (cmrfGradUnshifted 1 2 (fun _ j => if j = 0 then (1:ℝ) else -1) 1 (fun j => if j = 0 then 1 else 0) 0)
        ((fun j => if j = 0 then (1:ℝ) else 0) 0) := by
  intro h
  have ht := cmrf_grad_eq_deriv 1 2 (fun _ j => if j = 0 then (1:ℝ) else -1) 1 (by norm_num)
    (fun j => if j = 0 then (1:ℝ) else 0) (fun j => if j = 0 then 1 else 0) 0 (by norm_num)
  have := h.unique ht
  simp [cmrfGrad, cmrfGradUnshifted, sumTo, matVec, List.range, List.range.loop] at this

/-! ## 5. likelihoods, posteriors -/

/-- **Gaussian (and Lognormal) likelihood, chain rule through any forward model.**
    Along the `i`-th coordinate line let the forward map have components `F a t` with derivatives
    `J a i` at `t₀` (matrix, function+adjoint, Jacobian, direction-Jacobian and PDE-based models all
    supply `direction ↦ Σ_a direction_a · J a i`).  For every symmetric data precision `P` and data
    `d`, `likGrad … none i = (Jᵀ P (d - F x))_i` is the derivative of `-½ (d - F)ᵀ P (d - F)`.
    (`Lognormal` passes `d = log(data)`.) -/
theorem gauss_lik_grad (m p n : ℕ) (P : ℕ → ℕ → ℝ) (hP : ∀ a b, P a b = P b a) (d : ℕ → ℝ)
    (F : ℕ → ℝ → ℝ) (J : ℕ → ℕ → ℝ) (i : ℕ) (t0 : ℝ) (hF : ∀ a < m, HasDerivAt (F a) (J a i) t0) :
    HasDerivAt (fun t => -(gaussQuad m P d (fun a => F a t)) / 2)
      (likGrad m p n P (fun a => d a - F a t0) J none i) t0 := by
  have h := hasDerivAt_quad_curve m P hP d F (fun a => J a i) t0 hF
  simp only [gaussQuad_eq]
  refine h.congr_deriv ?_
  simp [likGrad, vjp_eq, matVec_eq]

/-- **Chain rule through a geometry that supplies its own derivative.**  If along the coordinate
    line the composite `F ∘ par2fun` has derivative `Σ_l J a l · G l i` (`G` = Jacobian of `par2fun`,
    `J` = Jacobian of the forward map at the function values — the multivariate chain rule), then
    `geometry.gradient(gradient_func(direction, par2fun x), x) = Gᵀ(Jᵀ direction)` is the derivative. -/
theorem lik_grad_geometry_chain (m p n : ℕ) (P : ℕ → ℕ → ℝ) (hP : ∀ a b, P a b = P b a) (d : ℕ → ℝ)
    (F : ℕ → ℝ → ℝ) (J G : ℕ → ℕ → ℝ) (i : ℕ) (t0 : ℝ)
    (hF : ∀ a < m, HasDerivAt (F a) (∑ l ∈ range p, J a l * G l i) t0) :
    HasDerivAt (fun t => -(gaussQuad m P d (fun a => F a t)) / 2)
      (likGrad m p n P (fun a => d a - F a t0) J (some G) i) t0 := by
  have h := hasDerivAt_quad_curve m P hP d F (fun a => ∑ l ∈ range p, J a l * G l i) t0 hF
  simp only [gaussQuad_eq]
  refine h.congr_deriv ?_
  have key : ∀ dir : ℕ → ℝ, ∑ a ∈ range m, dir a * ∑ l ∈ range p, J a l * G l i
      = ∑ l ∈ range p, (∑ a ∈ range m, dir a * J a l) * G l i := by
    intro dir
    simp only [Finset.mul_sum, Finset.sum_mul]
    rw [Finset.sum_comm]
    apply Finset.sum_congr rfl; intro l _
    apply Finset.sum_congr rfl; intro a _
    ring
  simp only [likGrad, vjp_eq, matVec_eq]
  exact key _

/-- **Sum rule** (`Posterior._gradient`, `MultipleLikelihoodPosterior.gradient`): the sum of the
    parts' gradients is the derivative of the sum of the parts' log-densities. -/
theorem sum_rule (fs : List (ℝ → ℝ)) (gs : List (ℕ → ℝ)) (i : ℕ) (t0 : ℝ)
    (h : List.Forall₂ (fun f g => HasDerivAt f (g i) t0) fs gs) :
    HasDerivAt (fun t => fs.foldl (fun acc f => acc + f t) 0) (sumGrad gs i) t0 := by
  have key : ∀ (f0 : ℝ → ℝ) (c : ℝ), HasDerivAt f0 c t0 →
      HasDerivAt (fun t => fs.foldl (fun acc f => acc + f t) (f0 t))
        (gs.foldl (fun acc g => acc + g i) c) t0 := by
    induction h with
    | nil => intro f0 c h0; simpa using h0
    | cons hfg _ ih =>
      intro f0 c h0
      simp only [List.foldl_cons]
      exact ih (fun t => f0 t + _) _ (h0.add hfg)
  simpa [sumGrad] using key (fun _ => 0) 0 (hasDerivAt_const t0 (0:ℝ))

/-! ### Lognormal with a dense covariance -/

/-- **Lognormal, dense covariance, every dimension.** -/
theorem lognormal_dense_grad_eq_deriv (n : ℕ) (P : ℕ → ℕ → ℝ) (hP : ∀ a b, P a b = P b a) (x μ : ℕ → ℝ)
    (hx : ∀ j, 0 < x j) (i : ℕ) (hi : i < n) :
    HasDerivAt (fun t => -(gaussQuad n P (fun j => Real.log (Function.update x i t j)) μ) / 2
        - ∑ j ∈ range n, Real.log (Function.update x i t j))
      (lognDenseGrad n P x (fun j => Real.log (x j)) μ i) (x i) := by
  unfold lognDenseGrad
  have hxi : x i ≠ 0 := ne_of_gt (hx i)
  -- the Gaussian part is the coordinate line of the quadratic, re-parametrised by `log`
  have hline := gauss_grad_eq_deriv n P hP (fun j => Real.log (x j)) μ i hi
  have hlog : HasDerivAt Real.log (x i)⁻¹ (x i) := Real.hasDerivAt_log hxi
  have hcomp := HasDerivAt.comp (x i) (h₂ := fun s => -(gaussQuad n P (Function.update (fun j => Real.log (x j)) i s) μ) / 2)
    (h := Real.log) hline hlog
  have e : (fun t => -(gaussQuad n P (fun j => Real.log (Function.update x i t j)) μ) / 2)
      = (fun s => -(gaussQuad n P (Function.update (fun j => Real.log (x j)) i s) μ) / 2) ∘ Real.log := by
    funext t
    simp only [Function.comp]
    congr 3
    funext j
    by_cases h : j = i
    · subst h; simp
    · simp [Function.update_of_ne h]
  have hsum := iid_partial_deriv n (fun _ y => Real.log y) x i hi (x i)⁻¹ hlog
  rw [← e] at hcomp
  have := hcomp.fun_sub hsum
  refine this.congr_deriv ?_
  field_simp
  ring

/-! ## 6. the finite-difference option -/

lemma upd_eq_update {α : Type} (x : ℕ → α) (i : ℕ) (v : α) : upd x i v = Function.update x i v := by
  funext j
  by_cases h : j = i <;> simp [upd, h]

/-- **Finite-difference option converges to the derivative of the same log-density.** -/
theorem fd_tendsto (f : (ℕ → ℝ) → ℝ) (x : ℕ → ℝ) (i : ℕ) (g : ℝ)
    (h : HasDerivAt (fun t => f (Function.update x i t)) g (x i)) :
    Tendsto (fun ε => fdGrad f x ε i) (𝓝[≠] 0) (𝓝 g) := by
  have := h.tendsto_slope_zero
  refine this.congr ?_
  intro ε
  simp [fdGrad, upd_eq_update, div_eq_inv_mul]

theorem fd_quadratic_exact {K : Type} [Field K] [NeZero (2:K)] (n : ℕ) (P : ℕ → ℕ → K) (hP : ∀ a b, P a b = P b a)
    (x μ : ℕ → K) (ε : K) (hε : ε ≠ 0) (i : ℕ) (hi : i < n) :
    fdGrad (fun y => -(gaussQuad n P y μ) / 2) x ε i = gaussGrad n P x μ i - ε / 2 * P i i := by
  have h2 : (2:K) ≠ 0 := NeZero.ne 2
  have hz : ∀ a, upd x i (x i + ε) a - μ a = (x a - μ a) + ε * (if a = i then 1 else 0) := by
    intro a
    by_cases h : a = i
    · subst h; simp [upd]; ring
    · simp [upd, h]
  have hq : gaussQuad n P (upd x i (x i + ε)) μ
      = gaussQuad n P x μ + 2 * ε * (∑ b ∈ range n, P i b * (x b - μ b)) + ε ^ 2 * P i i := by
    simp only [gaussQuad_eq, hz]
    simp only [add_mul, mul_add, Finset.sum_add_distrib]
    simp only [mul_ite, mul_one, mul_zero, ite_mul, zero_mul, Finset.sum_ite_eq', Finset.mem_range, hi, if_true]
    have h3 : ∑ a ∈ range n, (x a - μ a) * (P a i * ε) = ε * ∑ b ∈ range n, P i b * (x b - μ b) := by
      rw [Finset.mul_sum]
      apply Finset.sum_congr rfl; intro a _; rw [hP a i]; ring
    rw [h3]
    ring
  simp only [fdGrad, hq, gaussGrad_eq]
  field_simp
  ring


/-! ### the FD configuration over call histories (`enable_FD` / `disable_FD` in any order) -/

/-- **After `disable_FD()` the closed form is used again, whatever happened before**: for every
    history of `enable_FD(ε)` / `disable_FD()` calls ending in `disable_FD()`, `gradient` is in the
    closed-form mode (no spacing survives). -/
theorem fd_disable_restores_closed (c : FDCfg) (ops : List FDOp) :
    fdMode (fdRun c (ops ++ [.disable])) = none := by
  simp [fdRun, List.foldl_append, fdApply, fdMode]

/-- **The mode is decided by the last call alone**: after a history ending in `enable_FD(ε)` the
    forward difference with exactly that spacing (1e-8 when called without argument) is used. -/
theorem fd_last_enable_wins (c : FDCfg) (ops : List FDOp) (e : Option ℚ) :
    fdMode (fdRun c (ops ++ [.enable e])) = some (e.getD fdDefaultEps) := by
  cases e <;> simp [fdRun, List.foldl_append, fdApply, fdMode]

/-- a fresh density uses the closed form -/
theorem fd_init_closed : fdMode FDCfg.init = none := rfl

/-! ## 7. the decision table (`gradStatus`, transcribed from the guards)

Complete finite tables: every statement below is checked on all rows by `decide`. -/

/-- **Outside the support the guarded families answer NaN** (identity geometry, plain parameters,
    closed-form path): Cauchy (scale ≤ 0), Beta, InverseGamma, Lognormal, Uniform — every form/dim
    flag; and the one-dimensional MHN. -/
theorem grad_outside_support_nan : ∀ (fam : Family) (pf : PrecForm) (dg : Bool),
    (fam = .cauchy ∨ fam = .beta ∨ fam = .invgamma ∨ fam = .lognormal ∨ fam = .uniform →
      gradStatus fam .identity .no false false pf dg = .nan)
    ∧ gradStatus .mhn .identity .no false false pf false = .nan := by
  decide

set_option synthInstance.maxSize 4096 in
set_option synthInstance.maxHeartbeats 400000 in
/-- **`value` only where the closed form is proved to be the derivative**: a closed-form vector is
    returned only for families with a `*_grad_eq_deriv` theorem (or a user-supplied gradient),
    never for a plain-callable (conditional) parameter, never outside a guarded support, never in
    the Gaussian forms without a usable `prec`, never for a multi-dimensional MHN. -/
theorem gradStatus_value_sound : ∀ (fam : Family) (g : Geom) (c : Cond) (fd sup : Bool) (pf : PrecForm)
    (dg : Bool), gradStatus fam g c fd sup pf dg = .value →
    (closedFormProved fam = true ∨ fam = .userWithGrad)
      ∧ (c ≠ .callable ∨ fam = .userWithGrad)
      ∧ ((fam = .cauchy ∨ fam = .beta ∨ fam = .invgamma ∨ fam = .lognormal ∨ fam = .uniform ∨ fam = .mhn) → sup = true)
      ∧ (fam = .gaussian → pf ≠ .sqrtprec ∧ pf ≠ .precVector ∧ pf ≠ .precScalarDimN)
      ∧ (fam = .mhn → dg = false) := by
  decide +kernel

set_option synthInstance.maxSize 4096 in
set_option synthInstance.maxHeartbeats 400000 in
/-- Where the "or is refused" clause is *not* met (the call neither returns a vector nor raises):
    `None` only for a conditional Gaussian/CMRF/Lognormal (GMRF raises since /repo commit eb9cc4c),
    a non-vector only for the 1-D `prec` Gaussian and the multi-dimensional MHN.
    (Recorded as known findings of the pinned code.) -/
theorem gradStatus_not_refused_rows : ∀ (fam : Family) (g : Geom) (c : Cond) (fd sup : Bool)
    (pf : PrecForm) (dg : Bool),
    (gradStatus fam g c fd sup pf dg = .none →
        c ≠ .no ∧ (fam = .gaussian ∨ fam = .cmrf ∨ fam = .lognormal))
      ∧ (gradStatus fam g c fd sup pf dg = .notVector →
        (fam = .gaussian ∧ pf = .precVector) ∨ (fam = .mhn ∧ dg = true)) := by
  decide +kernel

set_option synthInstance.maxSize 4096 in
/-- **No analytic gradient ⇒ refusal, and FD replaces it**: families without `_gradient`
    (Normal, Gamma, Laplace, LMRF, … and a user distribution without `gradient_func`) raise on every
    row with FD off, and produce the finite-difference vector on every row with FD on. -/
theorem no_closed_form_raises_or_fd : ∀ (g : Geom) (sup : Bool) (pf : PrecForm) (dg : Bool),
    gradStatus .other g .no false sup pf dg = .raises ∧ gradStatus .userNoGrad g .no false sup pf dg = .raises
      ∧ gradStatus .other g .no true sup pf dg = .valueFD ∧ gradStatus .userNoGrad g .no true sup pf dg = .valueFD := by
  decide

/-- likelihood gradient: a closed-form value only if every link of the chain rule is available -/
theorem likStatus_value_sound : ∀ (hasGrad : Bool) (dom : Geom) (rangeId precOk fd : Bool),
    likStatus hasGrad dom rangeId precOk fd = .value →
    hasGrad = true ∧ dom ≠ .nonIdNoGrad ∧ rangeId = true ∧ precOk = true ∧ fd = false := by
  decide

/-- posterior: a value (closed or FD) needs both parts to produce one and a usable geometry -/
theorem postStatus_value_sound : ∀ (lik prior : Status) (dom : Geom),
    (postStatus lik prior dom = .value ∨ postStatus lik prior dom = .valueFD) →
    dom ≠ .nonIdNoGrad ∧ (lik = .value ∨ lik = .valueFD) ∧ (prior = .value ∨ prior = .valueFD) := by
  decide

end CuqiVerif.C03
