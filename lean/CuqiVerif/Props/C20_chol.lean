import CuqiVerif.Model.C20_chol
import CuqiVerif.Props.C20_rank
import Mathlib.LinearAlgebra.Matrix.Block
import Mathlib.LinearAlgebra.Matrix.NonsingularInverse

/-!
# C20 — `sparse_cholesky` and the factor / log-determinant GMRF keeps (`Model/C20_chol.lean`)

The executable model returns a factor as `(L, d)` — unit lower triangular `L`, positive pivots `d` —
standing for `R = diag(√d)·Lᵀ`, and the driver re-multiplies `L·diag(d)·Lᵀ = A` exactly with every
factor it prints (`cholCheck`).  `ldl_cert` says what such a certified pair gives: `R` is THE upper
triangular square root with positive diagonal, `2·Σ log R_ii = Σ log d_i = log det A`, `A` is positive
definite.  `ldl_order1_zero` gives the pair in closed form for the 1-D first-order zero-boundary
precision `tridiag(-1, 2, -1)` of every size, hence `det P = n + 1` and `GMRF._logdet = log (n + 1)`.
-/
open Finset Matrix

namespace CuqiVerif.C20
open CuqiVerif.QMat

/-- **What a certified `(L, d)` gives (`sparse_cholesky`, `GMRF._chol`, `GMRF._logdet`):** if `L` is unit
    lower triangular, `d > 0` and `L·diag(d)·Lᵀ = A` (the identity the driver checks exactly), then
    `R = diag(√d)·Lᵀ` — the matrix the harness compares `sparse_cholesky(A)` with — is upper
    triangular with diagonal `√d_i > 0`, `RᵀR = A`, `det A = Π d_i`,
    `2·Σ log R_ii = Σ log d_i = log det A` (the `_logdet` of the zero-boundary branch), and `A` is
    positive definite. -/
theorem ldl_cert {n : ℕ} (A L : Matrix (Fin n) (Fin n) ℝ) (d : Fin n → ℝ)
    (hL : ∀ i j, i < j → L i j = 0) (hL1 : ∀ i, L i i = 1) (hd : ∀ i, 0 < d i)
    (hA : L * diagonal d * Lᵀ = A) :
    (∀ i j, j < i → (diagonal (fun i => Real.sqrt (d i)) * Lᵀ) i j = 0)
      ∧ (∀ i, (diagonal (fun i => Real.sqrt (d i)) * Lᵀ) i i = Real.sqrt (d i))
      ∧ (diagonal (fun i => Real.sqrt (d i)) * Lᵀ)ᵀ * (diagonal (fun i => Real.sqrt (d i)) * Lᵀ) = A
      ∧ A.det = ∏ i, d i
      ∧ 2 * ∑ i, Real.log ((diagonal (fun i => Real.sqrt (d i)) * Lᵀ) i i) = Real.log A.det
      ∧ ∑ i, Real.log (d i) = Real.log A.det
      ∧ A.PosDef := by
  set R := diagonal (fun i => Real.sqrt (d i)) * Lᵀ with hR
  have hentry : ∀ i j, R i j = Real.sqrt (d i) * L j i := fun i j => by
    rw [hR, diagonal_mul, transpose_apply]
  have hRR : Rᵀ * R = A := by
    rw [hR, transpose_mul, transpose_transpose, diagonal_transpose, Matrix.mul_assoc,
      ← Matrix.mul_assoc (diagonal _) (diagonal _), diagonal_mul_diagonal, ← Matrix.mul_assoc, ← hA]
    congr 2
    ext i j
    by_cases h : i = j
    · subst h; simp [Real.mul_self_sqrt (hd i).le]
    · simp [h]
  have hLtri : L.BlockTriangular OrderDual.toDual := fun i j h => hL i j (by simpa using h)
  have hdetL : L.det = 1 := by
    rw [det_of_isLowerTriangular L hLtri]; simp [hL1]
  have hdet : A.det = ∏ i, d i := by
    rw [← hA, det_mul, det_mul, det_transpose, hdetL, det_diagonal]; ring
  have hpos : 0 < ∏ i, d i := Finset.prod_pos fun i _ => hd i
  have hlog : ∑ i, Real.log (d i) = Real.log A.det := by
    rw [hdet, Real.log_prod]; exact fun i _ => (hd i).ne'
  refine ⟨?_, ?_, hRR, hdet, ?_, hlog, ?_⟩
  · intro i j hji; rw [hentry, hL j i hji, mul_zero]
  · intro i; rw [hentry, hL1, mul_one]
  · rw [← hlog, Finset.mul_sum]
    refine Finset.sum_congr rfl fun i _ => ?_
    rw [hentry, hL1, mul_one, Real.log_sqrt (hd i).le]; ring
  · have hdetR : R.det ≠ 0 := by
      intro h0
      have : A.det = 0 := by rw [← hRR, det_mul, det_transpose, h0, mul_zero]
      rw [hdet] at this; exact hpos.ne' this
    have hinj : Function.Injective R.mulVec :=
      Matrix.mulVec_injective_iff_isUnit.2 ((Matrix.isUnit_iff_isUnit_det R).2 (isUnit_iff_ne_zero.2 hdetR))
    rw [← hRR, ← Matrix.conjTranspose_eq_transpose_of_trivial]
    exact Matrix.PosDef.conjTranspose_mul_self _ hinj

example : (!![4, 2; 2, 5] : Matrix (Fin 2) (Fin 2) ℝ).det = ∏ i, (![4, 4] : Fin 2 → ℝ) i :=
  (ldl_cert !![4, 2; 2, 5] !![1, 0; 1/2, 1] ![4, 4]
    (by intro i j h; fin_cases i <;> fin_cases j <;> simp_all)
    (by intro i; fin_cases i <;> simp)
    (by intro i; fin_cases i <;> simp)
    (by ext i j; fin_cases i <;> fin_cases j <;> simp [Matrix.mul_apply, Fin.sum_univ_two, Matrix.vecMul_diagonal] <;> norm_num)).2.2.2.1

/-- **Closed-form pivots of `tridiag(-1, 2, -1)` (1-D, order 1, zero boundary):** the pivots
    `d_j = (j+2)/(j+1)` the elimination produces (the driver compares the elimination with
    `tridiagL` / `tridiagD` on every run) are positive and telescope: `Π_{j<n} d_j = n + 1`, so
    `Σ_{j<n} log d_j = log (n + 1)` — the `_logdet` of that field for every size `n`. -/
theorem tridiagD_prod (n : ℕ) :
    (∀ j, 0 < tridiagD j) ∧ ∏ j ∈ range n, tridiagD j = (n : ℚ) + 1
      ∧ ∑ j ∈ range n, Real.log ((tridiagD j : ℚ) : ℝ) = Real.log ((n : ℝ) + 1) := by
  have hpos : ∀ j, 0 < tridiagD j := fun j => by
    unfold tridiagD; positivity
  have hprod : ∀ m : ℕ, ∏ j ∈ range m, tridiagD j = (m : ℚ) + 1 := by
    intro m
    induction m with
    | zero => simp
    | succ m ih =>
      rw [Finset.prod_range_succ, ih]
      unfold tridiagD
      push_cast
      field_simp
      ring
  refine ⟨hpos, hprod n, ?_⟩
  rw [← Real.log_prod]
  · have := congrArg (fun q : ℚ => (q : ℝ)) (hprod n)
    simp only [Rat.cast_prod, Rat.cast_add, Rat.cast_natCast, Rat.cast_one] at this
    rw [this]
  · intro j _
    exact (Rat.cast_pos.2 (hpos j)).ne'

example : ∏ j ∈ range 4, tridiagD j = 5 := by
  have := (tridiagD_prod 4).2.1; norm_num at this ⊢; exact this

lemma foldlQ_range_eq_sum' (f : ℕ → ℚ) (n : ℕ) :
    (List.range n).foldl (fun acc k => acc + f k) 0 = ∑ k ∈ range n, f k := by
  induction n with
  | zero => rfl
  | succ n ih => rw [List.range_succ, List.foldl_append, ih, Finset.sum_range_succ]; rfl

/-- **The driver's exact certificate means what `ldl_cert` needs:** whenever the executable check
    `cholCheck A L d` returns `true` (the driver prints it with every factor, the harness refuses to
    continue otherwise), the list matrices, read as real matrices, satisfy the hypotheses of
    `ldl_cert`: `L` is unit lower triangular, `d > 0` and `L·diag(d)·Lᵀ = A`. -/
theorem cholCheck_sound (A L : Mat) (d : Vec) (h : cholCheck A L d = true) :
    (∀ i j : Fin A.length, i < j → ((entry L i j : ℚ) : ℝ) = 0)
      ∧ (∀ i : Fin A.length, ((entry L i i : ℚ) : ℝ) = 1)
      ∧ (∀ i : Fin A.length, 0 < ((d.getD i 0 : ℚ) : ℝ))
      ∧ (Matrix.of fun i j : Fin A.length => ((entry L i j : ℚ) : ℝ))
          * diagonal (fun i : Fin A.length => ((d.getD i 0 : ℚ) : ℝ))
          * (Matrix.of fun i j : Fin A.length => ((entry L i j : ℚ) : ℝ))ᵀ
        = Matrix.of fun i j : Fin A.length => ((entry A i j : ℚ) : ℝ) := by
  simp only [cholCheck, Bool.and_eq_true, List.all_eq_true, List.mem_range, beq_iff_eq,
    decide_eq_true_eq] at h
  obtain ⟨⟨⟨hLn, hdn⟩, hdpos⟩, hall⟩ := h
  refine ⟨?_, ?_, ?_, ?_⟩
  · intro i j hij
    have := (hall i i.2 j j.2).1
    have hne : (i : ℕ) ≠ j := fun h => (ne_of_lt hij) (Fin.ext h)
    have hlt : (i : ℕ) < j := hij
    simp only [hne, hlt, if_true, if_false, beq_iff_eq] at this
    rw [this]; simp
  · intro i
    have := (hall i i.2 i i.2).1
    simp only [if_true, beq_iff_eq] at this
    rw [this]; simp
  · intro i
    have hi : (i : ℕ) < d.length := by rw [hdn]; exact i.2
    have hmem : d.getD i 0 ∈ d := by
      rw [List.getD_eq_getElem?_getD, List.getElem?_eq_getElem hi]; exact List.getElem_mem hi
    exact_mod_cast hdpos _ hmem
  · ext i j
    have := (hall i i.2 j j.2).2
    rw [foldlQ_range_eq_sum'] at this
    rw [Matrix.mul_apply]
    simp only [Matrix.mul_diagonal, Matrix.of_apply, Matrix.transpose_apply]
    rw [← this, ← Fin.sum_univ_eq_sum_range (fun k => entry L i k * d.getD k 0 * entry L j k)]
    push_cast
    rfl

example : cholCheck [[4, 2], [2, 5]] [[1, 0], [1/2, 1]] [4, 4] = true := by decide +kernel

/-- **LU uniqueness — the bridge from SuperLU's contract to the model:** if a symmetric `A` is factored
    `A = L·U` with `L` unit lower triangular and `U` upper triangular (what `splu` returns when no
    rows were exchanged), then necessarily `U = diag(U_ii)·Lᵀ`, i.e. `A = L·diag(U_ii)·Lᵀ`: the pair
    `(LU.L, LU.U.diagonal())` that `sparse_cholesky` reads off IS an `(L, d)` pair in the sense of
    `ldl_cert` / `cholCheck`, whatever algorithm produced the factorisation. -/
theorem lu_symm_unique {n : ℕ} (A L U : Matrix (Fin n) (Fin n) ℝ)
    (hA : Aᵀ = A) (hLU : L * U = A)
    (hL : ∀ i j, i < j → L i j = 0) (hL1 : ∀ i, L i i = 1)
    (hU : ∀ i j, j < i → U i j = 0) :
    U = diagonal (fun i => U i i) * Lᵀ ∧ L * diagonal (fun i => U i i) * Lᵀ = A := by
  have hLtri : L.BlockTriangular OrderDual.toDual := fun i j h => hL i j (by simpa using h)
  have hUtri : U.BlockTriangular id := fun i j h => hU i j h
  have hdetL : L.det = 1 := by rw [det_of_isLowerTriangular L hLtri]; simp [hL1]
  have huL : IsUnit L.det := by rw [hdetL]; exact isUnit_one
  have huLt : IsUnit Lᵀ.det := by rw [det_transpose]; exact huL
  let _ : Invertible L := Matrix.invertibleOfIsUnitDet L huL
  let _ : Invertible Lᵀ := Matrix.invertibleOfIsUnitDet Lᵀ huLt
  have hLinv : L⁻¹.BlockTriangular OrderDual.toDual := blockTriangular_inv_of_blockTriangular hLtri
  have hLttri : Lᵀ.BlockTriangular id := fun i j h => hL j i h
  have hLtinv : Lᵀ⁻¹.BlockTriangular id := blockTriangular_inv_of_blockTriangular hLttri
  have hUttri : Uᵀ.BlockTriangular OrderDual.toDual := fun i j h => hU j i (by simpa using h)
  -- the symmetric identity
  have hsym : L * U = Uᵀ * Lᵀ := by
    rw [hLU, ← hA, ← hLU, transpose_mul]
  have hM1 : U * Lᵀ⁻¹ = L⁻¹ * Uᵀ := by
    calc U * Lᵀ⁻¹ = L⁻¹ * (L * U) * Lᵀ⁻¹ := by
            rw [← Matrix.mul_assoc, nonsing_inv_mul _ huL, Matrix.one_mul]
      _ = L⁻¹ * (Uᵀ * Lᵀ) * Lᵀ⁻¹ := by rw [hsym]
      _ = L⁻¹ * Uᵀ := by
            rw [Matrix.mul_assoc, Matrix.mul_assoc, mul_nonsing_inv _ huLt, Matrix.mul_one]
  have hMlow : (L⁻¹ * Uᵀ).BlockTriangular OrderDual.toDual := hLinv.mul hUttri
  have hMup : (U * Lᵀ⁻¹).BlockTriangular id := hUtri.mul hLtinv
  have hMdiag : U * Lᵀ⁻¹ = diagonal (fun i => (U * Lᵀ⁻¹) i i) := by
    ext i j
    rcases lt_trichotomy i j with h | h | h
    · rw [diagonal_apply_ne _ (ne_of_lt h), hM1]
      exact hMlow (by simpa using h)
    · subst h; rw [diagonal_apply_eq]
    · rw [diagonal_apply_ne _ (ne_of_gt h)]
      exact hMup h
  have hUM : U = diagonal (fun i => (U * Lᵀ⁻¹) i i) * Lᵀ := by
    rw [← hMdiag, Matrix.mul_assoc, nonsing_inv_mul _ huLt, Matrix.mul_one]
  have hdiag : ∀ i, (U * Lᵀ⁻¹) i i = U i i := by
    intro i
    have := congrFun (congrFun hUM i) i
    rw [diagonal_mul, transpose_apply, hL1, mul_one] at this
    exact this.symm
  have hfin : U = diagonal (fun i => U i i) * Lᵀ := by
    have : (fun i => (U * Lᵀ⁻¹) i i) = fun i => U i i := funext hdiag
    rw [this] at hUM; exact hUM
  refine ⟨hfin, ?_⟩
  rw [Matrix.mul_assoc, ← hfin, hLU]

example : (!![4, 2; 0, 4] : Matrix (Fin 2) (Fin 2) ℝ)
    = diagonal (fun i => (!![4, 2; 0, 4] : Matrix (Fin 2) (Fin 2) ℝ) i i) * (!![1, 0; 1/2, 1] : Matrix (Fin 2) (Fin 2) ℝ)ᵀ :=
  (lu_symm_unique !![4, 2; 2, 5] !![1, 0; 1/2, 1] !![4, 2; 0, 4]
    (by ext i j; fin_cases i <;> fin_cases j <;> simp)
    (by ext i j; fin_cases i <;> fin_cases j <;> simp [Matrix.mul_apply, Fin.sum_univ_two] <;> norm_num)
    (by intro i j h; fin_cases i <;> fin_cases j <;> simp_all)
    (by intro i; fin_cases i <;> simp)
    (by intro i j h; fin_cases i <;> fin_cases j <;> simp_all)).1

/-- **`sparse_cholesky` returns a square root (`sparse_cholesky_cert`):** for symmetric `A = L·U` as
    above with `U_ii > 0` (the function's acceptance test), the returned `(L·diag(√U_ii))ᵀ` is upper
    triangular with positive diagonal, `RᵀR = A`, `2·Σ log R_ii = log det A`, and `A` is positive definite. -/
theorem sparse_cholesky_cert {n : ℕ} (A L U : Matrix (Fin n) (Fin n) ℝ)
    (hA : Aᵀ = A) (hLU : L * U = A)
    (hL : ∀ i j, i < j → L i j = 0) (hL1 : ∀ i, L i i = 1)
    (hU : ∀ i j, j < i → U i j = 0) (hpos : ∀ i, 0 < U i i) :
    (∀ i j, j < i → (L * diagonal (fun i => Real.sqrt (U i i)))ᵀ i j = 0)
      ∧ (∀ i, 0 < (L * diagonal (fun i => Real.sqrt (U i i)))ᵀ i i)
      ∧ (L * diagonal (fun i => Real.sqrt (U i i)))ᵀᵀ * (L * diagonal (fun i => Real.sqrt (U i i)))ᵀ = A
      ∧ 2 * ∑ i, Real.log ((L * diagonal (fun i => Real.sqrt (U i i)))ᵀ i i) = Real.log A.det
      ∧ A.PosDef := by
  have hR : (L * diagonal (fun i => Real.sqrt (U i i)))ᵀ = diagonal (fun i => Real.sqrt (U i i)) * Lᵀ := by
    rw [transpose_mul, diagonal_transpose]
  obtain ⟨h1, h2, h3, _, h5, _, h7⟩ :=
    ldl_cert A L (fun i => U i i) hL hL1 hpos (lu_symm_unique A L U hA hLU hL hL1 hU).2
  rw [hR]
  exact ⟨h1, fun i => by rw [h2]; exact Real.sqrt_pos.2 (hpos i), h3, h5, h7⟩

example : (!![4, 2; 2, 5] : Matrix (Fin 2) (Fin 2) ℝ).PosDef :=
  (sparse_cholesky_cert !![4, 2; 2, 5] !![1, 0; 1/2, 1] !![4, 2; 0, 4]
    (by ext i j; fin_cases i <;> fin_cases j <;> simp)
    (by ext i j; fin_cases i <;> fin_cases j <;> simp [Matrix.mul_apply, Fin.sum_univ_two] <;> norm_num)
    (by intro i j h; fin_cases i <;> fin_cases j <;> simp_all)
    (by intro i; fin_cases i <;> simp)
    (by intro i j h; fin_cases i <;> fin_cases j <;> simp_all)
    (by intro i; fin_cases i <;> simp)).2.2.2.2

/-- **`GMRF._sample`, zero boundary — the draw has precision `prec·P`:** with `R` the factor
    (`RᵀR = A`, invertible), `s = mean + prec^(-1/2)·R⁻¹ξ` is `mean + Wξ` with
    `W·Wᵀ = (prec·A)⁻¹`; and `W ξ` is the unique solution of `R·(√prec · y) = ξ` — the equation the
    model's back substitution solves exactly (`backSubst`, certificate `backCheck`). -/
theorem sample_precision {n : ℕ} (A R : Matrix (Fin n) (Fin n) ℝ) (δ : ℝ) (hδ : 0 < δ)
    (hR : Rᵀ * R = A) (hdet : R.det ≠ 0) :
    ((Real.sqrt δ)⁻¹ • R⁻¹) * ((Real.sqrt δ)⁻¹ • R⁻¹)ᵀ = (δ • A)⁻¹
      ∧ ∀ xi : Fin n → ℝ, R.mulVec (Real.sqrt δ • ((Real.sqrt δ)⁻¹ • R⁻¹).mulVec xi) = xi := by
  have hu : IsUnit R.det := isUnit_iff_ne_zero.2 hdet
  have hut : IsUnit Rᵀ.det := by rw [det_transpose]; exact hu
  have hs : Real.sqrt δ ≠ 0 := (Real.sqrt_pos.2 hδ).ne'
  have hss : (Real.sqrt δ)⁻¹ * (Real.sqrt δ)⁻¹ * δ = 1 := by
    have : Real.sqrt δ * Real.sqrt δ = δ := Real.mul_self_sqrt hδ.le
    field_simp; rw [sq]; exact this.symm
  constructor
  · symm
    apply Matrix.inv_eq_left_inv
    rw [transpose_smul, transpose_nonsing_inv]
    simp only [Matrix.smul_mul, Matrix.mul_smul, smul_smul]
    rw [← hR, Matrix.mul_assoc, ← Matrix.mul_assoc (Rᵀ⁻¹),
      nonsing_inv_mul _ hut, Matrix.one_mul, nonsing_inv_mul _ hu]
    have : δ * ((Real.sqrt δ)⁻¹ * (Real.sqrt δ)⁻¹) = 1 := by rw [mul_comm]; exact hss
    rw [this, one_smul]
  · intro xi
    rw [Matrix.smul_mulVec, smul_smul, mul_inv_cancel₀ hs, one_smul, Matrix.mulVec_mulVec,
      mul_nonsing_inv _ hu, Matrix.one_mulVec]

example : ((Real.sqrt 4)⁻¹ • (1 : Matrix (Fin 2) (Fin 2) ℝ)⁻¹) * ((Real.sqrt 4)⁻¹ • (1 : Matrix (Fin 2) (Fin 2) ℝ)⁻¹)ᵀ
    = ((4 : ℝ) • (1 : Matrix (Fin 2) (Fin 2) ℝ))⁻¹ :=
  (sample_precision 1 1 4 (by norm_num) (by simp) (by simp)).1

/-- real-valued copies of the closed form -/
noncomputable def ellR (i j : ℕ) : ℝ := if i = j then 1 else if i = j + 1 then -((j : ℝ) + 1) / ((j : ℝ) + 2) else 0
noncomputable def delR (j : ℕ) : ℝ := ((j : ℝ) + 2) / ((j : ℝ) + 1)

lemma ellR_cast (i j : ℕ) : ((tridiagL i j : ℚ) : ℝ) = ellR i j := by
  unfold tridiagL ellR; split_ifs <;> push_cast <;> ring
lemma delR_cast (j : ℕ) : ((tridiagD j : ℚ) : ℝ) = delR j := by
  unfold tridiagD delR; push_cast; ring

lemma sum_two (f : ℕ → ℝ) (n i : ℕ) (hi : i < n)
    (h0 : ∀ k, k ≠ i → k + 1 ≠ i → f k = 0) :
    ∑ k ∈ range n, f k = f i + (if 1 ≤ i then f (i - 1) else 0) := by
  by_cases h : 1 ≤ i
  · rw [if_pos h]
    refine Finset.sum_eq_add i (i - 1) (by omega) ?_ ?_ ?_
    · intro c _ hc; exact h0 c hc.1 (by omega)
    · intro hn; exact absurd (mem_range.2 hi) hn
    · intro hn; exact absurd (mem_range.2 (by omega)) hn
  · rw [if_neg h, add_zero]
    refine Finset.sum_eq_single i ?_ ?_
    · intro c _ hc; exact h0 c hc (by omega)
    · intro hn; exact absurd (mem_range.2 hi) hn

lemma ldl_entry (n i j : ℕ) (hi : i < n) (hj : j < n) :
    ∑ k ∈ range n, ellR i k * delR k * ellR j k
      = if i = j then 2 else if i + 1 = j ∨ j + 1 = i then -1 else 0 := by
  rw [sum_two _ n i hi (fun k h1 h2 => by
    have : ellR i k = 0 := by unfold ellR; rw [if_neg (Ne.symm h1), if_neg (fun h => h2 h.symm)]
    rw [this]; ring)]
  have hii : ellR i i = 1 := by unfold ellR; simp
  rcases Nat.eq_zero_or_pos i with h0 | hpos
  · subst h0
    simp only [show ¬ (1 ≤ 0) by omega, if_false, add_zero, hii, one_mul]
    unfold ellR delR
    rcases Nat.eq_zero_or_pos j with hj0 | hjp
    · subst hj0; simp
    · by_cases hj1 : j = 1
      · subst hj1; simp; norm_num
      · have h1 : ¬ (j = 0) := by omega
        have h2 : ¬ (0 = j) := by omega
        have h3 : ¬ (0 + 1 = j ∨ j + 1 = 0) := by omega
        have h4 : ¬ (1 = j) := by omega
        simp [h1, h2, h4, hj1]
  · obtain ⟨m, rfl⟩ : ∃ m, i = m + 1 := ⟨i - 1, by omega⟩
    simp only [show 1 ≤ m + 1 by omega, if_true, Nat.add_sub_cancel, hii, one_mul]
    have hm1 : ellR (m + 1) m = -((m : ℝ) + 1) / ((m : ℝ) + 2) := by unfold ellR; simp
    rw [hm1]
    have hp1 : ((m : ℝ) + 1) ≠ 0 := by positivity
    have hp2 : ((m : ℝ) + 2) ≠ 0 := by positivity
    have hp3 : ((m : ℝ) + 1 + 1) ≠ 0 := by positivity
    have hp4 : ((m : ℝ) + 1 + 2) ≠ 0 := by positivity
    by_cases c1 : j = m + 1
    · subst c1
      rw [hii, hm1, if_pos rfl]; unfold delR; push_cast; field_simp; ring
    · by_cases c2 : j = m + 2
      · subst c2
        have e1 : ellR (m + 2) (m + 1) = -(((m + 1 : ℕ) : ℝ) + 1) / (((m + 1 : ℕ) : ℝ) + 2) := by unfold ellR; simp
        have e2 : ellR (m + 2) m = 0 := by unfold ellR; simp
        rw [e1, e2, if_neg (by omega), if_pos (Or.inl (by omega))]; unfold delR; push_cast; field_simp; ring
      · by_cases c3 : j = m
        · subst c3
          have e1 : ellR j (j + 1) = 0 := by unfold ellR; rw [if_neg (by omega), if_neg (by omega)]
          have e2 : ellR j j = 1 := by unfold ellR; simp
          rw [e1, e2, if_neg (by omega), if_pos (Or.inr rfl)]; unfold delR; field_simp; ring
        · have e1 : ellR j (m + 1) = 0 := by
            unfold ellR; rw [if_neg c1, if_neg (by omega)]
          have e2 : ellR j m = 0 := by
            unfold ellR; rw [if_neg c3, if_neg (by omega)]
          rw [e1, e2, if_neg (by omega), if_neg (by omega)]; ring

/-- entries of `tridiag(-1, 2, -1)` as built by the model -/
lemma gram_firstOrder_zero_entry (n i j : ℕ) (hi : i < n) :
    (gram (firstOrder .zero n)).e i j
      = if i = j then 2 else if i + 1 = j ∨ j + 1 = i then -1 else 0 := by
  rw [gram_entry]
  have hrows : (firstOrder .zero n).rows = n + 1 := rfl
  rw [hrows, Finset.sum_eq_add i (i + 1) (by omega)
    (fun c _ hc => by
      rw [firstOrder_zero_entry, if_neg (fun h => hc.1 h.symm), if_neg (fun h => hc.2 h.symm)]; ring)
    (fun hn => absurd (mem_range.2 (by omega)) hn)
    (fun hn => absurd (mem_range.2 (by omega)) hn)]
  simp only [firstOrder_zero_entry]
  split_ifs <;> omega

/-- **Closed-form factor of the 1-D first-order zero-boundary precision, every size:**
    with `L_ij = [i=j] − [i=j+1]·(j+1)/(j+2)` and `d_j = (j+2)/(j+1)` (`tridiagL`, `tridiagD` of the model, which the
    driver compares with the elimination on every run), `L·diag(d)·Lᵀ` IS the precision `gram (firstOrder .zero n)`
    (= `tridiag(-1, 2, -1)`). -/
theorem ldl_order1_zero (n : ℕ) :
    (Matrix.of fun i j : Fin n => ((tridiagL i j : ℚ) : ℝ))
        * diagonal (fun i : Fin n => ((tridiagD i : ℚ) : ℝ))
        * (Matrix.of fun i j : Fin n => ((tridiagL i j : ℚ) : ℝ))ᵀ
      = Matrix.of fun i j : Fin n => (((gram (firstOrder .zero n)).e i j : ℤ) : ℝ) := by
  ext i j
  rw [Matrix.mul_apply]
  simp only [Matrix.mul_diagonal, Matrix.of_apply, Matrix.transpose_apply, ellR_cast, delR_cast]
  rw [Fin.sum_univ_eq_sum_range (fun k => ellR i k * delR k * ellR j k) n,
    ldl_entry n i j i.2 j.2, gram_firstOrder_zero_entry n i j i.2]
  split_ifs <;> simp

example : (gram (firstOrder .zero 4)).e 2 3 = -1 := by decide

/-- **`det P = n + 1`, `log det P = log (n + 1)`, `P` positive definite — every `n`:** the
    `_logdet` a zero-boundary first-order 1-D GMRF must report (and, by `ldl_cert`, what
    `2·Σ log chol_ii` gives for the closed-form factor). -/
theorem det_precision_order1_zero (n : ℕ) :
    (Matrix.of fun i j : Fin n => (((gram (firstOrder .zero n)).e i j : ℤ) : ℝ)).det = (n : ℝ) + 1
      ∧ Real.log (Matrix.of fun i j : Fin n => (((gram (firstOrder .zero n)).e i j : ℤ) : ℝ)).det
          = Real.log ((n : ℝ) + 1)
      ∧ (Matrix.of fun i j : Fin n => (((gram (firstOrder .zero n)).e i j : ℤ) : ℝ)).PosDef := by
  have hcert := ldl_cert _ (Matrix.of fun i j : Fin n => ((tridiagL i j : ℚ) : ℝ))
    (fun i : Fin n => ((tridiagD i : ℚ) : ℝ))
    (fun i j hij => by
      have h1 : (i : ℕ) ≠ j := fun h => (ne_of_lt hij) (Fin.ext h)
      have h2 : (i : ℕ) ≠ (j : ℕ) + 1 := by have : (i : ℕ) < j := hij; omega
      simp [Matrix.of_apply, tridiagL, h1, h2])
    (fun i => by simp [Matrix.of_apply, tridiagL])
    (fun i => by exact_mod_cast (tridiagD_prod 0).1 i)
    (ldl_order1_zero n)
  have hdet := hcert.2.2.2.1
  have hprod : ∏ i : Fin n, ((tridiagD i : ℚ) : ℝ) = (n : ℝ) + 1 := by
    rw [Fin.prod_univ_eq_prod_range (fun k => ((tridiagD k : ℚ) : ℝ)) n]
    have := congrArg (fun q : ℚ => (q : ℝ)) (tridiagD_prod n).2.1
    simpa using this
  rw [hprod] at hdet
  exact ⟨hdet, by rw [hdet], hcert.2.2.2.2.2.2⟩


example : (Matrix.of fun i j : Fin 3 => (((gram (firstOrder .zero 3)).e i j : ℤ) : ℝ)).det = 4 := by
  have := (det_precision_order1_zero 3).1; norm_num at this ⊢; exact this

end CuqiVerif.C20
