import CuqiVerif.Model.C20_chol
import CuqiVerif.Props.C20_rank
import Mathlib.LinearAlgebra.Matrix.Block
import Mathlib.LinearAlgebra.Matrix.NonsingularInverse

/-!
# C20 — `sparse_cholesky` and the factor / log-determinant GMRF keeps (`Model/C20_chol.lean`)

The executable model returns a factor as `(L, d)` — unit lower triangular `L`, positive pivots `d` —
standing for `R = diag(√d)·Lᵀ`, and the driver re-multiplies `L·diag(d)·Lᵀ = A` exactly with every
factor it prints (`cholCheck`).  `ldl_cert` says what such a certified pair gives: `R` is THE upper
triangular square root with positive diagonal, `2·Σ log R_ii = Σ log d_i = log det A`, `A` is positive
definite.  `ldl_order1_zero` gives the pair in closed form for the 1-D first-order zero-boundary
precision `tridiag(-1, 2, -1)` of every size, hence `det P = n + 1` and `GMRF._logdet = log (n + 1)`.
-/
open Finset Matrix

namespace CuqiVerif.C20
open CuqiVerif.QMat

/-- **What a certified `(L, d)` gives (`sparse_cholesky`, `GMRF._chol`, `GMRF._logdet`):** if `L` is unit
    lower triangular, `d > 0` and `L·diag(d)·Lᵀ = A` (the identity the driver checks exactly), then
    `R = diag(√d)·Lᵀ` — the matrix the harness compares `sparse_cholesky(A)` with — is upper
    triangular with diagonal `√d_i > 0`, `RᵀR = A`, `det A = Π d_i`,
    `2·Σ log R_ii = Σ log d_i = log det A` (the `_logdet` of the zero-boundary branch), and `A` is
    positive definite. -/
theorem ldl_cert {n : ℕ} (A L : Matrix (Fin n) (Fin n) ℝ) (d : Fin n → ℝ)
    (hL : ∀ i j, i < j → L i j = 0) (hL1 : ∀ i, L i i = 1) (hd : ∀ i, 0 < d i)
    (hA : L * diagonal d * Lᵀ = A) :
    (∀ i j, j < i → (diagonal (fun i => Real.sqrt (d i)) * Lᵀ) i j = 0)
      ∧ (∀ i, (diagonal (fun i => Real.sqrt (d i)) * Lᵀ) i i = Real.sqrt (d i))
      ∧ (diagonal (fun i => Real.sqrt (d i)) * Lᵀ)ᵀ * (diagonal (fun i => Real.sqrt (d i)) * Lᵀ) = A
      ∧ A.det = ∏ i, d i
      ∧ 2 * ∑ i, Real.log ((diagonal (fun i => Real.sqrt (d i)) * Lᵀ) i i) = Real.log A.det
      ∧ ∑ i, Real.log (d i) = Real.log A.det
      ∧ A.PosDef := by
  set R := diagonal (fun i => Real.sqrt (d i)) * Lᵀ with hR
  have hentry : ∀ i j, R i j = Real.sqrt (d i) * L j i := fun i j => by
    rw [hR, diagonal_mul, transpose_apply]
  have hRR : Rᵀ * R = A := by
    rw [hR, transpose_mul, transpose_transpose, diagonal_transpose, Matrix.mul_assoc,
      ← Matrix.mul_assoc (diagonal _) (diagonal _), diagonal_mul_diagonal, ← Matrix.mul_assoc, ← hA]
    congr 2
    ext i j
    by_cases h : i = j
    · subst h; simp [Real.mul_self_sqrt (hd i).le]
    · simp [h]
  have hLtri : L.BlockTriangular OrderDual.toDual := fun i j h => hL i j (by simpa using h)
  have hdetL : L.det = 1 := by
    rw [det_of_isLowerTriangular L hLtri]; simp [hL1]
  have hdet : A.det = ∏ i, d i := by
    rw [← hA, det_mul, det_mul, det_transpose, hdetL, det_diagonal]; ring
  have hpos : 0 < ∏ i, d i := Finset.prod_pos fun i _ => hd i
  have hlog : ∑ i, Real.log (d i) = Real.log A.det := by
    rw [hdet, Real.log_prod]; exact fun i _ => (hd i).ne'
  refine ⟨?_, ?_, hRR, hdet, ?_, hlog, ?_⟩
  · intro i j hji; rw [hentry, hL j i hji, mul_zero]
  · intro i; rw [hentry, hL1, mul_one]
  · rw [← hlog, Finset.mul_sum]
    refine Finset.sum_congr rfl fun i _ => ?_
    rw [hentry, hL1, mul_one, Real.log_sqrt (hd i).le]; ring
  · have hdetR : R.det ≠ 0 := by
      intro h0
      have : A.det = 0 := by rw [← hRR, det_mul, det_transpose, h0, mul_zero]
      rw [hdet] at this; exact hpos.ne' this
    have hinj : Function.Injective R.mulVec :=
      Matrix.mulVec_injective_iff_isUnit.2 ((Matrix.isUnit_iff_isUnit_det R).2 (isUnit_iff_ne_zero.2 hdetR))
    rw [← hRR, ← Matrix.conjTranspose_eq_transpose_of_trivial]
    exact Matrix.PosDef.conjTranspose_mul_self _ hinj

example : (!![4, 2; 2, 5] : Matrix (Fin 2) (Fin 2) ℝ).det = ∏ i, (![4, 4] : Fin 2 → ℝ) i :=
  (ldl_cert !![4, 2; 2, 5] !![1, 0; 1/2, 1] ![4, 4]
    (by intro i j h; fin_cases i <;> fin_cases j <;> simp_all)
    (by intro i; fin_cases i <;> simp)
    (by intro i; fin_cases i <;> simp)
    (by ext i j; fin_cases i <;> fin_cases j <;> simp [Matrix.mul_apply, Fin.sum_univ_two, Matrix.vecMul_diagonal] <;> norm_num)).2.2.2.1

/-- **Closed-form pivots of `tridiag(-1, 2, -1)` (1-D, order 1, zero boundary):** the pivots
    `d_j = (j+2)/(j+1)` the elimination produces (the driver compares the elimination with
    `tridiagL` / `tridiagD` on every run) are positive and telescope: `Π_{j<n} d_j = n + 1`, so
    `Σ_{j<n} log d_j = log (n + 1)` — the `_logdet` of that field for every size `n`. -/
theorem tridiagD_prod (n : ℕ) :
    (∀ j, 0 < tridiagD j) ∧ ∏ j ∈ range n, tridiagD j = (n : ℚ) + 1
      ∧ ∑ j ∈ range n, Real.log ((tridiagD j : ℚ) : ℝ) = Real.log ((n : ℝ) + 1) := by
  have hpos : ∀ j, 0 < tridiagD j := fun j => by
    unfold tridiagD; positivity
  have hprod : ∀ m : ℕ, ∏ j ∈ range m, tridiagD j = (m : ℚ) + 1 := by
    intro m
    induction m with
    | zero => simp
    | succ m ih =>
      rw [Finset.prod_range_succ, ih]
      unfold tridiagD
      push_cast
      field_simp
      ring
  refine ⟨hpos, hprod n, ?_⟩
  rw [← Real.log_prod]
  · have := congrArg (fun q : ℚ => (q : ℝ)) (hprod n)
    simp only [Rat.cast_prod, Rat.cast_add, Rat.cast_natCast, Rat.cast_one] at this
    rw [this]
  · intro j _
    exact (Rat.cast_pos.2 (hpos j)).ne'

example : ∏ j ∈ range 4, tridiagD j = 5 := by
  have := (tridiagD_prod 4).2.1; norm_num at this ⊢; exact this

lemma foldlQ_range_eq_sum' (f : ℕ → ℚ) (n : ℕ) :
    (List.range n).foldl (fun acc k => acc + f k) 0 = ∑ k ∈ range n, f k := by
  induction n with
  | zero => rfl
  | succ n ih => rw [List.range_succ, List.foldl_append, ih, Finset.sum_range_succ]; rfl

/-- **The driver's exact certificate means what `ldl_cert` needs:** whenever the executable check
    `cholCheck A L d` returns `true` (the driver prints it with every factor, the harness refuses to
    continue otherwise), the list matrices, read as real matrices, satisfy the hypotheses of
    `ldl_cert`: `L` is unit lower triangular, `d > 0` and `L·diag(d)·Lᵀ = A`. -/
theorem cholCheck_sound (A L : Mat) (d : Vec) (h : cholCheck A L d = true) :
    (∀ i j : Fin A.length, i < j → ((entry L i j : ℚ) : ℝ) = 0)
      ∧ (∀ i : Fin A.length, ((entry L i i : ℚ) : ℝ) = 1)
      ∧ (∀ i : Fin A.length, 0 < ((d.getD i 0 : ℚ) : ℝ))
      ∧ (Matrix.of fun i j : Fin A.length => ((entry L i j : ℚ) : ℝ))
          * diagonal (fun i : Fin A.length => ((d.getD i 0 : ℚ) : ℝ))
          * (Matrix.of fun i j : Fin A.length => ((entry L i j : ℚ) : ℝ))ᵀ
        = Matrix.of fun i j : Fin A.length => ((entry A i j : ℚ) : ℝ) := by
  simp only [cholCheck, Bool.and_eq_true, List.all_eq_true, List.mem_range, beq_iff_eq,
    decide_eq_true_eq] at h
  obtain ⟨⟨⟨hLn, hdn⟩, hdpos⟩, hall⟩ := h
  refine ⟨?_, ?_, ?_, ?_⟩
  · intro i j hij
    have := (hall i i.2 j j.2).1
    have hne : (i : ℕ) ≠ j := fun h => (ne_of_lt hij) (Fin.ext h)
    have hlt : (i : ℕ) < j := hij
    simp only [hne, hlt, if_true, if_false, beq_iff_eq] at this
    rw [this]; simp
  · intro i
    have := (hall i i.2 i i.2).1
    simp only [if_true, beq_iff_eq] at this
    rw [this]; simp
  · intro i
    have hi : (i : ℕ) < d.length := by rw [hdn]; exact i.2
    have hmem : d.getD i 0 ∈ d := by
      rw [List.getD_eq_getElem?_getD, List.getElem?_eq_getElem hi]; exact List.getElem_mem hi
    exact_mod_cast hdpos _ hmem
  · ext i j
    have := (hall i i.2 j j.2).2
    rw [foldlQ_range_eq_sum'] at this
    rw [Matrix.mul_apply]
    simp only [Matrix.mul_diagonal, Matrix.of_apply, Matrix.transpose_apply]
    rw [← this, ← Fin.sum_univ_eq_sum_range (fun k => entry L i k * d.getD k 0 * entry L j k)]
    push_cast
    rfl

example : cholCheck [[4, 2], [2, 5]] [[1, 0], [1/2, 1]] [4, 4] = true := by decide +kernel

end CuqiVerif.C20
