import CuqiVerif.Props.C18_analysis
import CuqiVerif.Proofs.C18_testproblems
import Mathlib.Data.Rat.Floor

/-!
# C18 — the shipped PDE test problems `Poisson1D` and `Heat1D` (session 3)

Theorems about the executable definitions of `CuqiVerif/Model/C18_testproblems.lean` (driver ops
`tpp` / `tph`, tied to `cuqi.testproblem.Poisson1D/Heat1D` on every run): the grids, the
finite-difference operators, the number of time steps, and what the assemble-solve-observe pipeline of
`Model/C18.lean` does on them.  `K` is any field (ordered where an order is needed); the driver runs
`K = ℚ`.
-/
open Finset

set_option linter.unusedSectionVars false
set_option linter.unusedVariables false

namespace CuqiVerif.C18

/-! ## 1. `np.linspace` as the test problems use it -/

section linspace
variable {K : Type} [Field K]

/-- `linspace` returns `num` nodes -/
theorem linspace_length (a b : K) (num : ℕ) (e : Bool) : (linspace a b num e).length = num :=
  linspace_length' a b num e

/-- node `k` of `linspace(a, b, num, endpoint=e)` is `a + k·(b − a)/div`, `div = num − 1` resp. `num` -/
theorem linspace_node (a b : K) (num : ℕ) (e : Bool) (k : ℕ) (hk : k < num) :
    (linspace a b num e).getD k 0 = a + (k : K) * ((b - a) / ((if e then num - 1 else num : ℕ) : K)) :=
  linspace_getD' a b num e k hk

/-- with `endpoint=True` and at least two nodes the last node is the stop value (characteristic 0) -/
theorem linspace_endpoint_last [CharZero K] (a b : K) (m : ℕ) :
    (linspace a b (m + 2) true).getD (m + 1) 0 = b := by
  rw [linspace_getD' a b (m + 2) true (m + 1) (by omega)]
  have h : ((m + 1 : ℕ) : K) ≠ 0 := Nat.cast_ne_zero.mpr (by omega)
  simp only [if_true, show m + 2 - 1 = m + 1 from rfl]
  field_simp
  ring

/-- the grids are uniform: consecutive nodes differ by the same step -/
theorem linspace_uniform (a b : K) (num : ℕ) (e : Bool) :
    UniformStep (linspace a b num e) ((b - a) / ((if e then num - 1 else num : ℕ) : K)) := by
  intro k hk
  rw [linspace_length'] at hk
  rw [linspace_getD' a b num e (k + 1) hk, linspace_getD' a b num e k (by omega)]
  push_cast
  ring

example : linspace (0 : ℚ) 1 5 true = [0, 1/4, 1/2, 3/4, 1] := by decide +kernel
example : linspace (1/4 : ℚ) 1 4 false = [1/4, 7/16, 5/8, 13/16] := by decide +kernel

end linspace

/-! ## 2. `Poisson1D`: the operator `Dxᵀ diag(x) Dx` -/

section poisson
variable {K : Type} [Field K]

/-- **poissonOp_entry.**  The matrix `Poisson1D` assembles for the parameter `x` (`dim = N+1` values)
    is the tridiagonal conductivity matrix: `A_ii = (x_i + x_{i+1})/dx²`, `A_{i,i+1} = A_{i+1,i} =
    −x_{i+1}/dx²`, zero elsewhere — for every `N`, every `x`. -/
theorem poissonOp_entry (N : ℕ) (dx : K) (x : Vec K) (i j : ℕ) (hi : i < N) (hj : j < N) :
    poissonOp N dx x i j =
      ((if i = j then x i + x (i + 1) else 0) - (if i = j + 1 then x i else 0) - (if j = i + 1 then x j else 0)) / (dx * dx) := by
  rw [poissonOp_eq]
  congr 1
  unfold dcoef
  have e : ∀ k ∈ range (N + 1),
      ((if k = i then (1 : K) else 0) - (if k = i + 1 then 1 else 0)) * x k * ((if k = j then 1 else 0) - (if k = j + 1 then 1 else 0))
        = (if k = i then x k * ((if k = j then 1 else 0) - (if k = j + 1 then 1 else 0)) else 0)
          - (if k = i + 1 then x k * ((if k = j then 1 else 0) - (if k = j + 1 then 1 else 0)) else 0) := by
    intro k _
    by_cases h1 : k = i <;> by_cases h2 : k = i + 1 <;> simp [h1, h2]
  rw [Finset.sum_congr rfl e, Finset.sum_sub_distrib, sum_ind_left, sum_ind_left]
  have h1 : i < N + 1 := by omega
  have h2 : i + 1 < N + 1 := by omega
  simp only [h1, h2, if_true]
  by_cases hij : i = j
  · subst hij
    simp
  · by_cases h3 : i = j + 1
    · subst h3
      simp
      rw [if_neg (by omega), if_neg (by omega)]
    · by_cases h4 : j = i + 1
      · subst h4
        simp
      · have h5 : ¬ (i + 1 = j) := fun h => h4 h.symm
        simp [hij, h3, h4, h5]

/-- the assembled operator is symmetric -/
theorem poissonOp_symm (N : ℕ) (dx : K) (x : Vec K) (i j : ℕ) : poissonOp N dx x i j = poissonOp N dx x j i := by
  unfold poissonOp
  rw [sumTo_eq_sum, sumTo_eq_sum]
  exact Finset.sum_congr rfl fun k _ => by ring

/-- **poisson_energy_identity.**  `vᵀ A(x) v = Σ_k x_k ((Dx v)_k)²`: the assembled operator is the
    weighted sum of squared differences (its "energy") — for every `N`, `x`, `v`. -/
theorem poisson_energy_identity (N : ℕ) (dx : K) (x v : Vec K) :
    ∑ i ∈ range N, v i * ∑ j ∈ range N, poissonOp N dx x i j * v j
      = ∑ k ∈ range (N + 1), x k * (∑ i ∈ range N, poissonDx dx k i * v i) ^ 2 :=
  poisson_quadratic N dx x v

example : poissonOp 4 (1/4 : ℚ) (fun _ => 1) 1 2 = -16 := by
  rw [poissonOp_entry 4 _ _ 1 2 (by omega) (by omega)]; norm_num

end poisson

section poisson_ordered
variable {K : Type} [Field K] [LinearOrder K] [IsStrictOrderedRing K]

/-- **poissonOp_nonsing.**  For a positive conductivity (`x_k > 0`, `k ≤ N`) and `dx ≠ 0` the
    assembled system `A(x) u = b` has at most one solution: `A(x) v = 0` forces `v = 0`. -/
theorem poissonOp_nonsing (N : ℕ) (dx : K) (hdx : dx ≠ 0) (x : Vec K) (hx : ∀ k, k ≤ N → 0 < x k) :
    Nonsing N (poissonOp N dx x) := by
  intro v hv
  -- energy is zero
  have hE : ∑ k ∈ range (N + 1), x k * (∑ i ∈ range N, poissonDx dx k i * v i) ^ 2 = 0 := by
    rw [← poisson_quadratic]
    exact Finset.sum_eq_zero fun i hi => by rw [hv i (mem_range.mp hi), mul_zero]
  have hnn : ∀ k ∈ range (N + 1), 0 ≤ x k * (∑ i ∈ range N, poissonDx dx k i * v i) ^ 2 := fun k hk =>
    mul_nonneg (hx k (by have := mem_range.mp hk; omega)).le (sq_nonneg _)
  have hz := (Finset.sum_eq_zero_iff_of_nonneg hnn).mp hE
  -- every difference vanishes
  have hD : ∀ k, k ≤ N → (if k < N then v k else 0) - (if 1 ≤ k ∧ k - 1 < N then v (k - 1) else 0) = 0 := by
    intro k hk
    have h1 := hz k (mem_range.mpr (by omega))
    have h2 : (∑ i ∈ range N, poissonDx dx k i * v i) = 0 := by
      rcases mul_eq_zero.mp h1 with h | h
      · exact absurd h (hx k hk).ne'
      · exact pow_eq_zero_iff (two_ne_zero) |>.mp h
    have h3 : ∑ i ∈ range N, poissonDx dx k i * v i = (∑ i ∈ range N, dcoef k i * v i) / dx := by
      rw [Finset.sum_div]
      exact Finset.sum_congr rfl fun i _ => by rw [poissonDx_eq, div_mul_eq_mul_div]
    rw [h3, dcoef_sum] at h2
    exact (div_eq_zero_iff.mp h2).resolve_right hdx
  intro i
  induction i with
  | zero =>
    intro h0
    have := hD 0 (by omega)
    simpa [h0] using this
  | succ i ih =>
    intro hi
    have h := hD (i + 1) (by omega)
    have hi' : i < N := by omega
    simp only [hi, if_true, Nat.add_sub_cancel, hi', and_true, show 1 ≤ i + 1 by omega] at h
    rw [ih hi'] at h
    simpa using h

/-- **poisson1d_solution_unique.**  `Poisson1D` with a positive (mapped) parameter: whatever two
    correct linear solvers return for the assembled system, the solutions agree — the forward output
    of the test problem is determined by the discrete equations alone. -/
theorem poisson1d_solution_unique {I J : Type} [DecidableEq K] (s : PoissonSetup K) (hdx : s.dx ≠ 0)
    (source : K → K) (fm : FieldMap K) (x : Vec K) (hx : ∀ k, k ≤ s.N → 0 < fm.apply (x k))
    (s₁ : Mat K → Vec K → SolverRet (Vec K) I) (s₂ : Mat K → Vec K → SolverRet (Vec K) J)
    (h₁ : SolverCorrect s.N s₁) (h₂ : SolverCorrect s.N s₂)
    (u₁ u₂ : Vec K) (i₁ : Option (List I)) (i₂ : Option (List J))
    (e₁ : ((poissonSteady s source fm s₁).assemble x).solve = .ok (u₁, i₁))
    (e₂ : ((poissonSteady s source fm s₂).assemble x).solve = .ok (u₂, i₂)) (i : ℕ) (hi : i < s.N) :
    u₁ i = u₂ i := by
  have r₁ := steady_solves s.N (poissonSteady s source fm s₁) h₁ x u₁ i₁ e₁
  have r₂ := steady_solves s.N (poissonSteady s source fm s₂) h₂ x u₂ i₂ e₂
  have hns := poissonOp_nonsing s.N s.dx hdx (fun k => fm.apply (x k)) hx
  have hz := hns (fun j => u₁ j - u₂ j) (fun i hi => by
    have a := r₁ i hi
    have b := r₂ i hi
    simp only [poissonSteady, poissonForm] at a b
    simp only [mul_sub, Finset.sum_sub_distrib]
    rw [a, b, sub_self]) i hi
  exact sub_eq_zero.mp hz

end poisson_ordered

/-! ## 3. `Heat1D` -/

section heat
variable {K : Type} [Field K]

/-- `Dxx` is symmetric -/
theorem heatDxx_symm (dx : K) (i j : ℕ) : heatDxx dx i j = heatDxx dx j i := by
  unfold heatDxx
  by_cases h1 : i = j
  · subst h1; rfl
  · have h1' : ¬ (j = i) := fun h => h1 h.symm
    simp only [h1, h1', if_false]
    ring

/-- **heatDxx_row.**  Row `i` of `Dxx` applied to `u` is the three-point second difference
    `(u_{i−1} − 2u_i + u_{i+1})/dx²` with the neighbours outside the grid absent (`u = 0` at both ends). -/
theorem heatDxx_row (n : ℕ) (dx : K) (u : ℕ → K) (i : ℕ) (hi : i < n) :
    ∑ j ∈ range n, heatDxx dx i j * u j
      = (-(2 : K) * u i + (if 1 ≤ i then u (i - 1) else 0) + (if i + 1 < n then u (i + 1) else 0)) / (dx * dx) :=
  heatDxx_mulVec n dx u i hi

/-- **heat_grid_nodes.**  The `Heat1D` grid has spacing `dx = endpoint/(dim+1)`: node `k` is `(k+1)·dx`
    (characteristic 0; `dim ≥ 1`) — the grid matches the finite-difference operator. -/
theorem heat_grid_nodes [CharZero K] (dim : ℕ) (endpoint : K) (k : ℕ) (hk : k < dim) :
    (linspace (heatDx dim endpoint) endpoint dim false).getD k 0 = ((k + 1 : ℕ) : K) * heatDx dim endpoint := by
  rw [linspace_getD' _ _ _ _ _ hk]
  have h1 : ((dim + 1 : ℕ) : K) ≠ 0 := Nat.cast_ne_zero.mpr (by omega)
  have h2 : ((dim : ℕ) : K) ≠ 0 := Nat.cast_ne_zero.mpr (by omega)
  simp only [Bool.false_eq_true, if_false, heatDx]
  push_cast at h1 ⊢
  field_simp
  ring

/-- **heat_time_steps_uniform.**  `time_steps` is the uniform grid from `0` with step
    `max_time/max_iter` (for `max_iter ≥ 1`). -/
theorem heat_time_steps_uniform (maxTime : K) (maxIter : ℕ) :
    UniformStep (heatTimeSteps maxTime maxIter) (maxTime / (maxIter : K)) := by
  have := linspace_uniform (0 : K) maxTime (maxIter + 1) true
  simpa [heatTimeSteps] using this

/-- the time grid starts at 0 and has `max_iter + 1` levels -/
theorem heat_time_steps_start (maxTime : K) (maxIter : ℕ) :
    (heatTimeSteps maxTime maxIter).length = maxIter + 1 ∧ (heatTimeSteps maxTime maxIter).getD 0 0 = 0 := by
  refine ⟨linspace_length' _ _ _ _, ?_⟩
  rw [heatTimeSteps, linspace_getD' _ _ _ _ 0 (by omega)]
  simp

end heat

section heat_ordered
variable {K : Type} [Field K] [LinearOrder K] [IsStrictOrderedRing K]

/-- one explicit step of the heat form does not increase the maximum norm when `0 ≤ dt/dx² ≤ 1/2` -/
lemma heat_step_bound (n : ℕ) (dx dt : K) (hr0 : 0 ≤ dt / (dx * dx)) (hr : dt / (dx * dx) ≤ 1 / 2)
    (u : ℕ → K) (M : K) (hM : ∀ j, j < n → |u j| ≤ M) (i : ℕ) (hi : i < n) :
    |u i + dt * ((∑ j ∈ range n, heatDxx dx i j * u j) + 0)| ≤ M := by
  rw [heatDxx_mulVec n dx u i hi, add_zero]
  set r := dt / (dx * dx) with hrdef
  have hM0 : 0 ≤ M := le_trans (abs_nonneg _) (hM i hi)
  set a : K := if 1 ≤ i then u (i - 1) else 0 with ha
  set b : K := if i + 1 < n then u (i + 1) else 0 with hb
  have hab : |a| ≤ M := by
    rw [ha]; split
    · exact hM _ (by omega)
    · simpa using hM0
  have hbb : |b| ≤ M := by
    rw [hb]; split
    · exact hM _ (by omega)
    · simpa using hM0
  have e : u i + dt * ((-(2 : K) * u i + a + b) / (dx * dx)) = (1 - 2 * r) * u i + r * a + r * b := by
    rw [hrdef]; ring
  rw [e]
  have h12 : 0 ≤ 1 - 2 * r := by linarith
  calc |(1 - 2 * r) * u i + r * a + r * b|
      ≤ |(1 - 2 * r) * u i| + |r * a| + |r * b| := abs_add_three _ _ _
    _ = (1 - 2 * r) * |u i| + r * |a| + r * |b| := by
        rw [abs_mul, abs_mul, abs_mul, abs_of_nonneg h12, abs_of_nonneg hr0]
    _ ≤ (1 - 2 * r) * M + r * M + r * M := by
        have := hM i hi
        gcongr
    _ = M := by ring

/-- **heat_forward_max_principle.**  Forward Euler on the `Heat1D` form (operator `Dxx`, zero source),
    uniform step `dt` with `0 ≤ dt/dx² ≤ 1/2`: every stored level is bounded in maximum norm by the
    initial condition — the discrete maximum principle, for every dimension, every number of steps,
    every initial condition. -/
theorem heat_forward_max_principle {I : Type} (n : ℕ) (dx dt : K) (ic : Vec K)
    (solver : Mat K → Vec K → SolverRet (Vec K) I) (ts : List K) (hu : UniformStep ts dt)
    (hr0 : 0 ≤ dt / (dx * dx)) (hr : dt / (dx * dx) ≤ 1 / 2)
    (levels : List (Array K)) (info : Option (List I))
    (h : solveTime n .forward (heat1dForm dx ic) solver ts = .ok (levels, info))
    (M : K) (hM : ∀ j, j < n → |ic j| ≤ M) (k : ℕ) (hk : k < ts.length) (i : ℕ) (hi : i < n) :
    |rd (levels.getD k #[]) i| ≤ M := by
  induction k generalizing i with
  | zero =>
    cases ts with
    | nil => simp at hk
    | cons t0 rest =>
      rw [level_zero_initial_condition n .forward _ solver t0 rest levels info h i hi]
      exact hM i hi
  | succ k ih =>
    have hk' : k < ts.length := by omega
    rw [euler_forward_recurrence n _ solver ts levels info h k hk i hi, hu k hk]
    exact heat_step_bound n dx dt hr0 hr _ M (fun j hj => ih hk' j hj) i hi

/-- **heat_cfl_ratio.**  `Heat1D` takes `max_iter = int(max_time/dt_approx)` steps with
    `dt_approx = (5/11)·dx²`, so the step actually used is `dt = max_time/max_iter ≥ dt_approx`.
    If `max_iter ≥ 10` then still `dt/dx² ≤ 1/2` (and `≥ 5/11`). -/
theorem heat_cfl_ratio (dx maxTime : K) (hdx : dx ≠ 0) (mi : ℕ) (hmi : 10 ≤ mi)
    (hlo : (mi : K) ≤ maxTime / (5 / 11 * (dx * dx))) (hhi : maxTime / (5 / 11 * (dx * dx)) < mi + 1) :
    5 / 11 ≤ maxTime / mi / (dx * dx) ∧ maxTime / mi / (dx * dx) ≤ 1 / 2 := by
  have hd : 0 < dx * dx := mul_self_pos.mpr hdx
  have hm : (0 : K) < mi := by
    have : (10 : K) ≤ mi := by exact_mod_cast hmi
    linarith
  have hc : (0 : K) < 5 / 11 * (dx * dx) := by positivity
  rw [le_div_iff₀ hc] at hlo
  rw [div_lt_iff₀ hc] at hhi
  have hm10 : (10 : K) ≤ mi := by exact_mod_cast hmi
  constructor
  · rw [div_div, le_div_iff₀ (by positivity)]
    linarith
  · rw [div_div, div_le_iff₀ (by positivity)]
    nlinarith

/-- **heat_cfl_small_counterexample.**  The hypothesis `max_iter ≥ 10` cannot be dropped: with
    `dx = 1/3` (`dim = 2`, `endpoint = 1`) and `max_time = 19/198` the code takes one step
    (`max_time/dt_approx = 1.9`) and that step has `dt/dx² = 19/22 > 1/2`. -/
theorem heat_cfl_small_counterexample :
    heatMaxIterInt 2 1 (19 / 198) = some 1 ∧ ((19 / 198 : ℚ) / 1 / (heatDx 2 (1 : ℚ) * heatDx 2 1)) = 19 / 22 := by
  constructor
  · decide +kernel
  · norm_num [heatDx]

end heat_ordered

/-! ## 4. the number of steps as the driver computes it -/

/-- **heatMaxIterInt_spec.**  For `max_time ≥ 0` the integer the model (and the code, up to floating
    point) uses is the floor of `max_time/dt_approx`: `max_iter ≤ max_time/dt_approx < max_iter + 1`. -/
theorem heatMaxIterInt_spec (dim : ℕ) (endpoint maxTime : ℚ) (mi : ℤ)
    (h : heatMaxIterInt dim endpoint maxTime = some mi) (hq : 0 ≤ maxTime / heatDtApprox dim endpoint) :
    (mi : ℚ) ≤ maxTime / heatDtApprox dim endpoint ∧ maxTime / heatDtApprox dim endpoint < mi + 1 ∧ 0 ≤ mi := by
  unfold heatMaxIterInt at h
  simp only at h
  split at h
  · cases h
  · simp only [Option.some.injEq] at h
    subst h
    have e : (maxTime / heatDtApprox dim endpoint).floor = ⌊maxTime / heatDtApprox dim endpoint⌋ := rfl
    rw [e]
    exact ⟨Int.floor_le _, Int.lt_floor_add_one _, Int.floor_nonneg.mpr hq⟩

/-- **heat1d_stable.**  `Heat1D` as shipped (`dim ≥ 1`, `endpoint ≠ 0`, `max_time ≥ 0`), whenever the
    number of steps it chooses is at least 10: every level of its forward-Euler solve is bounded in
    maximum norm by the initial condition (the parameter). -/
theorem heat1d_stable {I : Type} (dim : ℕ) (endpoint maxTime : ℚ) (hep : endpoint ≠ 0) (hT : 0 ≤ maxTime)
    (mi : ℤ) (hmi : heatMaxIterInt dim endpoint maxTime = some mi) (h10 : 10 ≤ mi)
    (ic : Vec ℚ) (solver : Mat ℚ → Vec ℚ → SolverRet (Vec ℚ) I)
    (levels : List (Array ℚ)) (info : Option (List I))
    (h : solveTime dim .forward (heat1dForm (heatDx dim endpoint) ic) solver (heatTimeSteps maxTime mi.toNat) = .ok (levels, info))
    (M : ℚ) (hM : ∀ j, j < dim → |ic j| ≤ M) (k : ℕ) (hk : k ≤ mi.toNat) (i : ℕ) (hi : i < dim) :
    |rd (levels.getD k #[]) i| ≤ M := by
  have hdx : heatDx dim endpoint ≠ 0 := by
    unfold heatDx
    exact div_ne_zero hep (Nat.cast_ne_zero.mpr (by omega))
  have hd : 0 < heatDx dim endpoint * heatDx dim endpoint := mul_self_pos.mpr hdx
  have hdt : heatDtApprox dim endpoint = 5 / 11 * (heatDx dim endpoint * heatDx dim endpoint) := by
    simp [heatDtApprox, heatCfl]
  have hq : 0 ≤ maxTime / heatDtApprox dim endpoint := by
    rw [hdt]; positivity
  obtain ⟨hlo, hhi, h0⟩ := heatMaxIterInt_spec dim endpoint maxTime mi hmi hq
  have hcast : ((mi.toNat : ℕ) : ℚ) = (mi : ℚ) := by
    have : ((mi.toNat : ℕ) : ℤ) = mi := Int.toNat_of_nonneg h0
    exact_mod_cast this
  have hmiN : 10 ≤ mi.toNat := by omega
  rw [hdt] at hlo hhi
  obtain ⟨r1, r2⟩ := heat_cfl_ratio (heatDx dim endpoint) maxTime hdx mi.toNat hmiN (by rw [hcast]; exact hlo) (by rw [hcast]; exact hhi)
  refine heat_forward_max_principle dim (heatDx dim endpoint) (maxTime / (mi.toNat : ℚ)) ic solver _
    (heat_time_steps_uniform maxTime mi.toNat) (le_trans (by norm_num) r1) r2 levels info h M hM k ?_ i hi
  rw [(heat_time_steps_start maxTime mi.toNat).1]
  omega

/-- `divSolver`-free non-vacuity: the shipped default `Heat1D(dim=2, endpoint=1, max_time=1)` takes
    `⌊1/(5/99)⌋ = 19` steps, which is `≥ 10` -/
example : heatMaxIterInt 2 1 1 = some 19 := by decide +kernel

/-! ## 5. the shipped problems on their default grids: no interpolation -/

section defaults
variable {K : Type} [Field K] [DecidableEq K]

lemma grids_init_same (g : List K) : (Grids.init (some g) (some g)).equal = true := by
  simp [Grids.init, Grids.setSol, Grids.setObs, compareGrid]

/-- **poisson1d_default_direct.**  `Poisson1D` without an `observation_grid_map`: the PDE's grids are
    flagged equal, so `observe` returns the solution itself (then the identity map) — the forward
    output is the solution of the assembled system on the whole grid. -/
theorem poisson1d_default_direct (dim : ℕ) (endpoint : K) (s : PoissonSetup K)
    (h : poissonSetup dim endpoint .none = .ok s)
    (interp : List K → List K → List K → Except Err (List K)) (u : List K) :
    s.grids.equal = true ∧ s.N = dim - 1 ∧ s.gridObs = s.gridRange ∧
      observeSteady s.grids u interp .ident = .ok (.vec u) := by
  unfold poissonSetup at h
  split at h
  · cases h
  · simp only [GridMap.apply, Except.ok.injEq] at h
    subst h
    refine ⟨grids_init_same _, rfl, rfl, ?_⟩
    simp [observeSteady, grids_init_same, ObsMap.apply]

/-- **heat1d_default_direct.**  `Heat1D` without an `observation_grid_map`: equal grids, one
    observation time (the final one), hence the no-interpolation branch. -/
theorem heat1d_default_direct (dim : ℕ) (endpoint maxTime : K) (maxIter : ℕ) (s : HeatSetup K)
    (h : heatSetup dim endpoint maxTime maxIter .none = .ok s) :
    s.N = dim ∧ s.dx = heatDx dim endpoint ∧ s.timeSteps = heatTimeSteps maxTime maxIter ∧ s.grids.equal = true ∧
      s.tobs.length = 1 ∧ branchTime s.grids s.timeSteps s.tobs 2 = .direct := by
  unfold heatSetup at h
  split at h
  · cases h
  · have hne : heatTimeSteps maxTime maxIter ≠ [] := by
      intro h0
      have := (heat_time_steps_start maxTime maxIter).1
      rw [h0] at this
      simp at this
    have hlen := (heat_time_steps_start maxTime maxIter).1
    simp only [GridMap.apply, resolveTimeObs, if_true, Except.ok.injEq] at h
    subst h
    refine ⟨rfl, rfl, rfl, grids_init_same _, ?_, ?_⟩
    · simp [hlen]
    · rw [direct_branch_iff]
      refine ⟨grids_init_same _, ?_⟩
      rw [allFinal_iff]
      refine ⟨(heatTimeSteps maxTime maxIter).getLast hne, List.getLast?_eq_some_getLast hne, ?_⟩
      intro t ht
      rw [List.drop_length_sub_one hne] at ht
      have ht' : t = (heatTimeSteps maxTime maxIter).getLast hne := by simpa using ht
      exact ht'

/-- **heat1d_forward_is_final_level.**  `Heat1D(...).model.forward(x)` on the default grids is level
    number `max_iter` of the forward-Euler loop started from `par2fun(x)` — before the observation map
    (the identity) and the final `squeeze()`. -/
theorem heat1d_forward_is_final_level {I : Type} (dim : ℕ) (endpoint maxTime : K) (maxIter : ℕ) (s : HeatSetup K)
    (h : heatSetup dim endpoint maxTime maxIter .none = .ok s) (ic : Vec K)
    (solver : Mat K → Vec K → SolverRet (Vec K) I)
    (interp : List K → List K → List (List K) → List K → List K → Except Err (List (List K)))
    (levels : List (Array K)) (info : Option (List I))
    (hsolve : solveTime s.N .forward (heat1dForm s.dx ic) solver s.timeSteps = .ok (levels, info)) :
    preObserveTime s.grids s.timeSteps s.tobs (levelsToRows s.N levels) interp
      = .ok (.vec (vecL s.N (rd (levels.getD maxIter #[])))) := by
  obtain ⟨-, -, hts, -, -, hb⟩ := heat1d_default_direct dim endpoint maxTime maxIter s h
  have := time_pipeline_final_is_last_level s.N .forward (heat1dForm s.dx ic) solver s.timeSteps s.grids s.tobs
    interp levels info hsolve hb
  rw [this, hts, (heat_time_steps_start maxTime maxIter).1]
  rfl

example : ∃ s : HeatSetup ℚ, heatSetup 3 (1 : ℚ) (1/10) 3 .none = .ok s ∧ s.timeSteps = [0, 1/30, 1/15, 1/10] := by
  refine ⟨_, rfl, ?_⟩
  decide +kernel

end defaults

end CuqiVerif.C18
