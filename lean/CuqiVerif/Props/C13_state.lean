import CuqiVerif.Model.C13_state
import CuqiVerif.Props.C13
import CuqiVerif.Props.C13_dst
import CuqiVerif.Proofs.C13_state
import CuqiVerif.Props.C13_shapes

/-!
# C13 (state) — the two pieces of derived state named by the property's anchors, over *all histories*

`Model/C13_state.lean` models a `KLExpansion` and a `StepExpansion` **object**: the attributes, the
derived state (`_coefs`, `_coefs_inverse`; `_indices`) and every public operation that reads or
writes it.  The theorems below quantify over every list of operations (`KLObj.run`, any list of
grid re-assignments), not over bounded histories.

* `KLExpansion`: the length-keyed cache is *coherent for ever* — whatever the object has been used
  for, `coefs`, `coefs_inverse`, `par2fun`, `fun2par` are those of a fresh geometry with the current
  grid (the stateless `klPre/klPost` of `Model/C13.lean`, about which `Props/C13_dst.lean` proves the
  round trip).  The reason is that entry `i` of the scalings depends on `i` and on `decay_rate` only,
  and `decay_rate`, `normalizer`, `num_modes` have no setter.
* `StepExpansion`: `_indices` is never refreshed (`step_obj_indices_never_refreshed`), so a re-assigned
  grid is served with the partition of the construction-time grid: correct iff the new grid has the same
  length and partition (`step_obj_regrid_same_partition_partial`), wrong otherwise
  (`step_obj_regrid_counterexample` — the listed finding `StepExpansion:reassign:grid:*`).  A fresh object
  is exactly the stateless model (`step_obj_fresh_par2fun/fun2par`) the partition and round-trip theorems
  of `Props/C13.lean` are about.
-/

namespace CuqiVerif.C13

/-! ## KLExpansion -/

/-- **The cache of scalings is coherent after every history.**  Starting from a constructed
    `KLExpansion` (any grid or `None`, any `num_modes`, any decay law, any normaliser), after ANY
    sequence of grid re-assignments, `coefs` / `coefs_inverse` accesses, `par2fun` and `fun2par`
    calls (accepted or refused), whatever is stored in `_coefs` is the fresh scaling vector of its
    length and whatever is stored in `_coefs_inverse` is the fresh inverse vector of its (non-zero)
    length; and `num_modes`, the decay law and the normaliser are still those of the constructor. -/
theorem kl_cache_coherent_all_histories (g nm : Option ℕ) (law : ℕ → ℚ) (τ : ℚ) (ops : List KLOp) :
    let o := (KLObj.init g nm law τ).run ops
    (∀ l, o.coefs = some l → l = (List.range l.length).map law) ∧
    (∀ l, o.coefsInv = some l → l = (List.range l.length).map (fun i => (law i)⁻¹) ∧ l.length ≠ 0) ∧
    o.numModes = nm ∧ o.law = law ∧ o.τ = τ := by
  intro o
  obtain ⟨hc, hp⟩ := run_spec ops (KLObj.init g nm law τ) (init_coherent g nm law τ)
  have hl : o.law = law := hp.2.1
  refine ⟨?_, ?_, hp.1, hl, hp.2.2⟩
  · intro l h; have := hc.1 l h; rwa [hl] at this
  · intro l h; have := hc.2 l h; rwa [hl] at this

example : ((KLObj.init (some 5) (some 3) (klCoef 2) 12).run
    [.coefs, .setGrid (some 2), .coefsInv, .setGrid none, .coefs, .setGrid (some 9)]).numModes = some 3 :=
  (kl_cache_coherent_all_histories _ _ _ _ _).2.2.1

/-- **`coefs` after any history = `coefs` of a fresh geometry on the current grid**: `None` when there
    are no modes (no grid, empty grid, `num_modes = 0`), otherwise `1/(i+1)^γ`, `i < num_modes`, with the
    *current* effective `num_modes = min(num_modes, #nodes)`. -/
theorem kl_coefs_after_history (g nm : Option ℕ) (law : ℕ → ℚ) (τ : ℚ) (ops : List KLOp) :
    let o := (KLObj.init g nm law τ).run ops
    o.getCoefs.1 = (KLObj.init o.grid nm law τ).getCoefs.1 ∧
    o.getCoefs.1 = (if klNumModes nm (o.grid.getD 0) = 0 then none
                    else some ((List.range (klNumModes nm (o.grid.getD 0))).map law)) := by
  intro o
  obtain ⟨hc, hp⟩ := run_spec ops (KLObj.init g nm law τ) (init_coherent g nm law τ)
  have h1 := (getCoefs_spec o hc).1
  have h2 := (getCoefs_spec (KLObj.init o.grid nm law τ) (init_coherent _ _ _ _)).1
  have hm : o.m = klNumModes nm (o.grid.getD 0) := by unfold KLObj.m; rw [hp.1]; rfl
  have hm' : (KLObj.init o.grid nm law τ).m = klNumModes nm (o.grid.getD 0) := rfl
  have hl : o.law = law := hp.2.1
  rw [h1, h2, hm, hm', hl]
  exact ⟨rfl, rfl⟩

example : ((KLObj.init (some 8) (some 3) (klCoef 1) 1).run [.coefs, .setGrid (some 2), .coefsInv]).getCoefs.1
    = some [1, 1 / 2] := by
  have h := (kl_coefs_after_history (some 8) (some 3) (klCoef 1) 1 [.coefs, .setGrid (some 2), .coefsInv]).2
  rw [h]; norm_num [KLObj.run, KLObj.step, KLObj.setGrid, KLObj.getCoefs, KLObj.getCoefsInv, KLObj.init, KLObj.m,
    klNumModes, cacheValid, klCoef, List.range, List.range.loop]

/-- **`coefs_inverse` after any history** = the fresh inverse scalings at the current `num_modes`
    (`none`: the code raises, which it does exactly when there are no modes). -/
theorem kl_coefs_inverse_after_history (g nm : Option ℕ) (law : ℕ → ℚ) (τ : ℚ) (ops : List KLOp) :
    let o := (KLObj.init g nm law τ).run ops
    o.getCoefsInv.1 = (if klNumModes nm (o.grid.getD 0) = 0 then none
                       else some ((List.range (klNumModes nm (o.grid.getD 0))).map fun i => (law i)⁻¹)) := by
  intro o
  obtain ⟨hc, hp⟩ := run_spec ops (KLObj.init g nm law τ) (init_coherent g nm law τ)
  have h1 := (getCoefsInv_spec o hc).1
  have hm : o.m = klNumModes nm (o.grid.getD 0) := by unfold KLObj.m; rw [hp.1]; rfl
  have hl : o.law = law := hp.2.1
  rw [h1, hm, hl]
  rfl

example : ∃ l, ((KLObj.init none none (klCoef 2) 12).run [.coefsInv, .setGrid (some 3), .coefs]).getCoefsInv.1 = some l :=
  ⟨_, (kl_coefs_inverse_after_history none none (klCoef 2) 12 [.coefsInv, .setGrid (some 3), .coefs])⟩

/-- **`par2fun` after any history is the stateless model at the current attributes**: on an object
    that has been used and re-gridded arbitrarily, the part of `KLExpansion.par2fun` before `idst(.)/2`
    equals `klPre law τ N m` with `N` the current node count and `m` the current effective `num_modes`
    — including every refusal (wrong parameter shape for the *current* `m`, no modes). -/
theorem kl_par2fun_after_history (g nm : Option ℕ) (law : ℕ → ℚ) (τ : ℚ) (ops : List KLOp) (x : Arr) :
    let o := (KLObj.init g nm law τ).run ops
    (o.par2funPre x).1 = klPre law τ (o.grid.getD 0) (klNumModes nm (o.grid.getD 0)) x := by
  intro o
  obtain ⟨hc, hp⟩ := run_spec ops (KLObj.init g nm law τ) (init_coherent g nm law τ)
  have h1 := (par2funPre_spec o hc x).1
  have hm : o.m = klNumModes nm (o.grid.getD 0) := by unfold KLObj.m; rw [hp.1]; rfl
  have hl : o.law = law := hp.2.1
  have ht : o.τ = τ := hp.2.2
  rw [h1, hm, hl, ht]

example : (((KLObj.init (some 4) (some 2) (klCoef 1) 2).run [.coefs, .setGrid (some 3)]).par2funPre
    (Arr.ofList [2] [4, 6])).1 = klPre (klCoef 1) 2 3 2 (Arr.ofList [2] [4, 6]) :=
  kl_par2fun_after_history (some 4) (some 2) (klCoef 1) 2 [.coefs, .setGrid (some 3)] _

/-- **`fun2par` after any history is the stateless model at the current attributes**: if the argument
    has the *current* function shape (`(N,)` or `(N, ns)`, `N ≠ 0`) and `d = dst(2 f)` has shape `(N, ns)`,
    the result is the numpy array `klPost law τ N m d` (or both are refused: no modes). -/
theorem kl_fun2par_after_history (g nm : Option ℕ) (law : ℕ → ℚ) (τ : ℚ) (ops : List KLOp)
    (fshape : List ℕ) (d : Arr) (n ns : ℕ) :
    let o := (KLObj.init g nm law τ).run ops
    o.grid = some n → batchOf n ⟨fshape, fun _ => 0⟩ = some ns → n ≠ 0 → d.shape = [n, ns] →
    OptEqv (o.fun2parPost fshape d).1 (klPost law τ n (klNumModes nm n) d) := by
  intro o hg hb hn hd
  obtain ⟨hc, hp⟩ := run_spec ops (KLObj.init g nm law τ) (init_coherent g nm law τ)
  have h1 := (fun2parPost_spec o hc fshape d).1 n ns hg hb hn hd
  have hm : o.m = klNumModes nm n := by unfold KLObj.m; rw [hp.1, hg]; rfl
  have hl : o.law = law := hp.2.1
  have ht : o.τ = τ := hp.2.2
  rwa [hm, hl, ht] at h1

example : OptEqv (((KLObj.init (some 4) (some 2) (klCoef 1) 2).run [.coefsInv, .setGrid (some 3), .coefs]).fun2parPost
    [3] (Arr.ofList [3, 1] [6, 6, 6])).1 (klPost (klCoef 1) 2 3 (klNumModes (some 2) 3) (Arr.ofList [3, 1] [6, 6, 6])) :=
  kl_fun2par_after_history (some 4) (some 2) (klCoef 1) 2 [.coefsInv, .setGrid (some 3), .coefs] [3] _ 3 1
    rfl rfl (by norm_num) rfl

/-- **Function values of a previous grid are refused, whatever the history**: `fun2par` tests its
    argument against the *current* `fun_shape`; without a grid everything is refused. -/
theorem kl_fun2par_refuses_other_shapes (g nm : Option ℕ) (law : ℕ → ℚ) (τ : ℚ) (ops : List KLOp)
    (fshape : List ℕ) (d : Arr) :
    let o := (KLObj.init g nm law τ).run ops
    (o.grid = none ∨ ∃ n, o.grid = some n ∧ batchOf n ⟨fshape, fun _ => 0⟩ = none) →
    (o.fun2parPost fshape d).1 = none := by
  intro o h
  rcases h with hg | ⟨n, hg, hb⟩
  · rw [fun2parPost_nogrid o fshape d hg]
  · rw [fun2parPost_badshape o fshape d n hg hb]

example : (((KLObj.init (some 4) none (klCoef 1) 2).run [.setGrid (some 3)]).fun2parPost [4] (Arr.ofList [4, 1] [1, 2, 3, 4])).1 = none :=
  kl_fun2par_refuses_other_shapes (some 4) none (klCoef 1) 2 [.setGrid (some 3)] [4] _ (Or.inr ⟨3, rfl, rfl⟩)

/-- **The round trip holds at every point of every history** (exact real arithmetic, scipy's transforms
    as the sine sums `dstII/idstII`): if after any history the object has `N ≠ 0` nodes, then with the
    effective `m = num_modes` of that moment (`m ≤ N` always), `fun2par(par2fun p) i = p i` for `i < m`
    — `klPre`/`klPost` at `(N, m)` being what the object computes then (`kl_par2fun_after_history`,
    `kl_fun2par_after_history`) and `klPreK/klPostK` their one-column forms (`klPre_is_instance`). -/
theorem kl_roundtrip_after_history (g nm : Option ℕ) (law : ℕ → ℚ) (τ : ℚ) (hτ : τ ≠ 0) (ops : List KLOp)
    (N : ℕ) (hN : N ≠ 0) (p : ℕ → ℚ) (i : ℕ) :
    let o := (KLObj.init g nm law τ).run ops
    o.grid = some N → i < o.m → law i ≠ 0 →
    o.m = klNumModes nm N ∧ o.m ≤ N ∧
    klPostK (fun i => ((law i : ℚ) : ℝ)) (τ : ℝ) N
      (dstII N (fun j => 2 * (idstII N (fun j => ((klPreK law τ o.m p j : ℚ) : ℝ)) j / 2))) i = ((p i : ℚ) : ℝ) := by
  intro o hg hi hc
  obtain ⟨_, hp⟩ := run_spec ops (KLObj.init g nm law τ) (init_coherent g nm law τ)
  have hm : o.m = klNumModes nm N := by unfold KLObj.m; rw [hp.1, hg]; rfl
  have hle : o.m ≤ N := by have := m_le_grid o; rwa [hg] at this
  exact ⟨hm, hle, kl_fun2par_par2fun_dst_model N o.m hN hle law τ hτ p i hi hc⟩

example : ((KLObj.init (some 9) (some 4) (klCoef 2) 12).run [.coefs, .setGrid (some 3), .coefsInv]).m ≤ 3 :=
  (kl_roundtrip_after_history (some 9) (some 4) (klCoef 2) 12 (by norm_num) [.coefs, .setGrid (some 3), .coefsInv]
    3 (by norm_num) (fun _ => 1) 0 rfl (by decide) (klCoef_ne_zero 2 0)).2.1

/-- **Conversion chains over a used / re-gridded `KLExpansion` are lossless** (bridge to `kl_chain_lossless`):
    after any history that leaves the object with `N ≠ 0` nodes, the per-sample system `klSys N m` of the
    object's *current* sizes (`m = o.m = min(num_modes, N)`; by `kl_par2fun_after_history` /
    `kl_fun2par_after_history` these are the maps the object computes then) satisfies: any list of
    `.parameters/.funvals/.vector` requests started from coefficients `p` runs through and a final
    `.parameters` returns `p i`, `i < m`. -/
theorem kl_chain_lossless_after_history (g nm : Option ℕ) (law : ℕ → ℚ) (τ : ℚ) (hτ : τ ≠ 0) (ops : List KLOp)
    (N : ℕ) (hN : N ≠ 0) (hlaw : ∀ i, law i ≠ 0) (p : ℕ → ℝ) (cs : List Conv) :
    let o := (KLObj.init g nm law τ).run ops
    o.grid = some N →
    o.m = klNumModes nm N ∧
    ∃ s' s'', (klSys N o.m (fun i => ((law i : ℚ) : ℝ)) (τ : ℝ)).chain cs ⟨p, true, true⟩ = some s' ∧
      (klSys N o.m (fun i => ((law i : ℚ) : ℝ)) (τ : ℝ)).convert .parameters s' = some s'' ∧ s''.isPar = true ∧
      ∀ i, i < o.m → s''.data i = p i := by
  intro o hg
  obtain ⟨_, hp⟩ := run_spec ops (KLObj.init g nm law τ) (init_coherent g nm law τ)
  have hm : o.m = klNumModes nm N := by unfold KLObj.m; rw [hp.1, hg]; rfl
  have hle : o.m ≤ N := by have := m_le_grid o; rwa [hg] at this
  exact ⟨hm, kl_chain_lossless N o.m hN hle _ _ (by exact_mod_cast hτ) (fun i _ => by exact_mod_cast hlaw i) p cs⟩

example (p : ℕ → ℝ) : ((KLObj.init (some 9) (some 4) (klCoef 2) 12).run [.coefs, .setGrid (some 3)]).m = klNumModes (some 4) 3 :=
  (kl_chain_lossless_after_history (some 9) (some 4) (klCoef 2) 12 (by norm_num) [.coefs, .setGrid (some 3)] 3 (by norm_num)
    (klCoef_ne_zero 2) p [.funvals, .vector, .parameters, .funvals] rfl).1

/-- **Batches through a used / re-gridded `KLExpansion` are column-wise** (object level): after any history,
    if the object accepts a batch `(m, ns)` of parameter vectors (`m` the current `num_modes`), it accepts
    column `k` alone and entry `r` of column `k` of the batch result (before `idst`, which scipy applies per
    column) is entry `r` of the single-column result. -/
theorem kl_batch_columnwise_after_history (g nm : Option ℕ) (law : ℕ → ℚ) (τ : ℚ) (ops : List KLOp)
    (ns k : ℕ) (hk : k < ns) (x y : Arr) :
    let o := (KLObj.init g nm law τ).run ops
    x.shape = [o.m, ns] → (o.par2funPre x).1 = some y →
    ∃ yk, (o.par2funPre (x.col ns k)).1 = some yk ∧ ∀ r, (y.col ns k).get r = yk.get r := by
  intro o hx hy
  obtain ⟨_, hp⟩ := run_spec ops (KLObj.init g nm law τ) (init_coherent g nm law τ)
  have hm : o.m = klNumModes nm (o.grid.getD 0) := by unfold KLObj.m; rw [hp.1]; rfl
  have e1 := kl_par2fun_after_history g nm law τ ops x
  have e2 := kl_par2fun_after_history g nm law τ ops (x.col ns k)
  simp only at e1 e2
  rw [e1] at hy
  rw [e2]
  have hm0 : klNumModes nm (o.grid.getD 0) ≠ 0 := by
    intro h0
    rw [← hm] at hy
    simp [klPre, batchOf, hx, ← hm, hm.trans h0] at hy
  exact (kl_batch_columnwise law τ (o.grid.getD 0) _ ns hm0 k hk).1 x y (by rw [← hm]; exact hx) hy

example : ((KLObj.init (some 9) (some 2) (klCoef 1) 1).run [.coefs, .setGrid (some 3)]).m = 2 := by decide +kernel

/-! ## StepExpansion -/

/-- **`_indices` is never refreshed.**  After ANY sequence of grid re-assignments through the public
    setter the stored index sets (and `n_steps`, the projection) are those computed by `__init__` on the
    construction-time grid, while `grid` (hence `fun_shape`) is the last grid assigned. -/
theorem step_obj_indices_never_refreshed (o : StepObj) (gs : List (List ℚ)) :
    (gs.foldl StepObj.setGrid o).indices = o.indices ∧ (gs.foldl StepObj.setGrid o).s = o.s ∧
    (gs.foldl StepObj.setGrid o).proj = o.proj ∧ (gs.foldl StepObj.setGrid o).grid = gs.getLastD o.grid :=
  regrid_indices gs o

example (o : StepObj) : ([[0, 1], [0, 1, 2, 3]].foldl StepObj.setGrid o).funShape = [4] := by
  rw [StepObj.funShape, (step_obj_indices_never_refreshed o _).2.2.2]; rfl

/-- **A fresh `StepExpansion` object is the stateless model** (`par2fun`): for every grid, interval
    ends (exact or given as data), `n_steps ≥ 1` the constructor accepts, every input: same refusal or the
    same numpy array as `stepPar2fun` — so `step_partition`, `step_fun2par_par2fun`,
    `maps_mutually_inverse_step`, … speak about the object as constructed. -/
theorem step_obj_fresh_par2fun (grid : List ℚ) (bounds : Option (List ℚ)) (s : ℕ) (pr : Option Proj) (o : StepObj)
    (h : StepObj.init? grid bounds s pr = some o) (x : Arr) :
    OptEqv (o.par2fun x) (stepPar2fun (stepB grid bounds s) (lget grid) grid.length s x) := by
  obtain ⟨hg, hs, _, hi⟩ := init_fields h
  have hoor := fresh_not_outOfRange h
  unfold StepObj.par2fun stepPar2fun
  rw [hs, hoor]
  cases hb : batchOf s x with
  | none => trivial
  | some ns =>
    by_cases hs0 : s = 0
    · simp [hs0, OptEqv]
    · simp only [hs0, if_false, Bool.false_eq_true, OptEqv]
      refine ⟨by rw [hg]; rfl, ?_⟩
      intro t ht
      simp only [Arr.size, Arr.squeeze, prod_squeezeShape, prod_two, hg] at ht
      simp only [Arr.squeeze]
      have hns : 0 < ns := Nat.pos_of_ne_zero (by rintro rfl; simp at ht)
      have hk : t / ns < grid.length := (Nat.div_lt_iff_lt_mul hns).2 ht
      have : o.idx = fun i => (stepIndices (stepB grid bounds s) (lget grid) grid.length s).getD i [] := by
        funext i; simp [StepObj.idx, hi]
      rw [this, fillByIndices_fresh _ _ _ _ _ _ hk]

example : ∃ o, StepObj.init? [0, 1, 2, 3] none 2 (some .mean) = some o ∧
    OptEqv (o.par2fun (Arr.ofList [2] [5, 7]))
      (stepPar2fun (stepB [0, 1, 2, 3] none 2) (lget [0, 1, 2, 3]) 4 2 (Arr.ofList [2] [5, 7])) := by
  have h : (StepObj.init? [0, 1, 2, 3] none 2 (some .mean)).isSome = true := by decide +kernel
  obtain ⟨o, ho⟩ := Option.isSome_iff_exists.1 h
  exact ⟨o, ho, step_obj_fresh_par2fun _ _ _ _ o ho _⟩

/-- **If the re-assigned grid has the same partition, the object is right.**
    `o` any object (constructed on some grid, re-gridded arbitrarily), re-gridded to `g'`; `o₂` constructed
    on `g'` (ends `b'`): if `__init__` computes for `g'` the index sets `o` still stores, both maps of the
    re-gridded object are those of the fresh one, on every input.
    Partial.  Full statement (false, `step_obj_regrid_counterexample`):
    `∀ g' b' o₂, StepObj.init? g' b' o.s o.proj = some o₂ → ∀ x, (o.setGrid g').par2fun x = o₂.par2fun x`. -/
theorem step_obj_regrid_same_partition_partial (o o₂ : StepObj) (g' : List ℚ) (b' : Option (List ℚ))
    (h₂ : StepObj.init? g' b' o.s o.proj = some o₂) (hidx : o₂.indices = o.indices) (x : Arr) :
    (o.setGrid g').par2fun x = o₂.par2fun x ∧ (o.setGrid g').fun2par x = o₂.fun2par x := by
  obtain ⟨hg, hs, hp, _⟩ := init_fields h₂
  have hl : (o.setGrid g').grid.length = o₂.grid.length := by rw [hg]; rfl
  exact ⟨StepObj.par2fun_congr (o.setGrid g') o₂ hs.symm hidx.symm hl x,
    StepObj.fun2par_congr (o.setGrid g') o₂ hs.symm hp.symm hidx.symm hl x⟩

/-- **A fresh `StepExpansion` object is the stateless model** (`fun2par`, `n_steps ≥ 1`, a valid projection
    string): same error (`"raise"`, or `"nan"` for a mean over an empty step) or the same numpy array as
    `stepFun2par`. -/
theorem step_obj_fresh_fun2par (grid : List ℚ) (bounds : Option (List ℚ)) (s : ℕ) (pr : Proj) (o : StepObj)
    (h : StepObj.init? grid bounds s (some pr) = some o) (hs0 : s ≠ 0) (x : Arr) :
    ExcEqv (o.fun2par x) (stepFun2par (stepB grid bounds s) (lget grid) grid.length s pr x) := by
  obtain ⟨hg, hs, hp, hi⟩ := init_fields h
  have hoor := fresh_not_outOfRange h
  have hn : grid.length ≠ 0 := by have := (init_accepts h).1; omega
  have hidx : ∀ i, i < s → o.idx i = (List.range grid.length).filter fun k => inStep (stepB grid bounds s) (lget grid (k)) i := by
    intro i his; rw [StepObj.idx, hi, stepIndices_getD _ _ _ _ i his]
  unfold StepObj.fun2par stepFun2par
  rw [hs, hoor, hp, hg]
  simp only []
  cases hb : batchOf grid.length x with
  | none => simp only [ExcEqv]
  | some ns =>
    simp only [hn, hs0, if_false, Bool.false_eq_true]
    have hany : ((List.range s).any fun i => (o.idx i).isEmpty) =
        ((List.range s).any fun i => (stepVals (stepB grid bounds s) (lget grid) grid.length (fun _ => 0) i).isEmpty) := by
      apply any_range_congr
      intro i his
      rw [hidx i his, stepVals, List.isEmpty_map]
    rw [hany]
    split
    · split <;> simp [ExcEqv]
    · simp only [ExcEqv]
      refine ⟨rfl, ?_⟩
      intro t ht
      simp only [Arr.size, Arr.squeeze, prod_squeezeShape, prod_two] at ht
      simp only [Arr.squeeze]
      have hns : 0 < ns := Nat.pos_of_ne_zero (by rintro rfl; simp at ht)
      have hk : t / ns < s := (Nat.div_lt_iff_lt_mul hns).2 ht
      rw [hidx _ hk, stepVals]

example : ∃ o, StepObj.init? [0, 1, 2, 3] none 2 (some .max) = some o ∧
    ExcEqv (o.fun2par (Arr.ofList [4] [5, 7, 1, 2]))
      (stepFun2par (stepB [0, 1, 2, 3] none 2) (lget [0, 1, 2, 3]) 4 2 .max (Arr.ofList [4] [5, 7, 1, 2])) := by
  have h : (StepObj.init? [0, 1, 2, 3] none 2 (some .max)).isSome = true := by decide +kernel
  obtain ⟨o, ho⟩ := Option.isSome_iff_exists.1 h
  exact ⟨o, ho, step_obj_fresh_fun2par _ _ _ _ o ho (by norm_num) _⟩

/-- **A re-gridded object whose stored partition is the new grid's IS the geometry `Geom.step` on the new
    grid** (bridge to the `Geom`-level theorems: `samples_conversions_lossless_chain`,
    `carr_conversions_lossless_chain`, `par2fun_batch_columnwise`, … quantify over `g : Geom` and
    `samples_chain_columnwise` reduces a `Samples` chain to the per-sample maps): both maps of the
    re-gridded object agree (same refusal / `nan` / numpy array) with those of
    `Geom.step g' b' n_steps projection` on every input. -/
theorem step_obj_regrid_is_geom (o o₂ : StepObj) (g' : List ℚ) (b' : Option (List ℚ)) (pr : Proj)
    (hpr : o.proj = some pr) (hs : o.s ≠ 0)
    (h₂ : StepObj.init? g' b' o.s (some pr) = some o₂) (hidx : o₂.indices = o.indices) (x : Arr) :
    OptEqv ((o.setGrid g').par2fun x) ((Geom.step g' b' o.s pr).par2fun x) ∧
    ExcEqv ((o.setGrid g').fun2par x) ((Geom.step g' b' o.s pr).fun2par x) := by
  have h₂' : StepObj.init? g' b' o.s o.proj = some o₂ := by rw [hpr]; exact h₂
  obtain ⟨e1, e2⟩ := step_obj_regrid_same_partition_partial o o₂ g' b' h₂' hidx x
  rw [e1, e2]
  exact ⟨step_obj_fresh_par2fun g' b' o.s (some pr) o₂ h₂ x, step_obj_fresh_fun2par g' b' o.s pr o₂ h₂ hs x⟩

example : ∃ o o₂ : StepObj, StepObj.init? [0, 1, 2, 3] none 2 (some .mean) = some o ∧
    StepObj.init? [0, 2, 4, 6] none 2 (some .mean) = some o₂ ∧ o₂.indices = o.indices ∧
    ∀ x, OptEqv ((o.setGrid [0, 2, 4, 6]).par2fun x) ((Geom.step [0, 2, 4, 6] none 2 .mean).par2fun x) := by
  have h : ((StepObj.init? [0, 1, 2, 3] none 2 (some .mean)).bind fun o =>
      (StepObj.init? [0, 2, 4, 6] none 2 (some .mean)).map fun o₂ => decide (o₂.indices = o.indices)) = some true := by
    decide +kernel
  cases hA : StepObj.init? [0, 1, 2, 3] none 2 (some .mean) with
  | none => simp [hA] at h
  | some o =>
    cases hB : StepObj.init? [0, 2, 4, 6] none 2 (some .mean) with
    | none => simp [hA, hB] at h
    | some o₂ =>
      have hi : o₂.indices = o.indices := by simpa [hA, hB] using h
      obtain ⟨_, hs, hp, _⟩ := init_fields hA
      refine ⟨o, o₂, rfl, rfl, hi, fun x => ?_⟩
      have := (step_obj_regrid_is_geom o o₂ [0, 2, 4, 6] none .mean hp (by rw [hs]; norm_num) (by rw [hs]; exact hB) hi x).1
      rwa [hs] at this

/-- **Re-assigning the grid breaks the maps** (the listed finding `StepExpansion:reassign:grid:*`, reproduced
    by the model): `StepExpansion(arange(6), n_steps=3)`, then `geom.grid = arange(9)`: `par2fun([1,2,3])`
    is `[1,1,2,2,3,3,0,0,0]` (three nodes receive no parameter) while a fresh geometry on `arange(9)` gives
    `[1,1,1,2,2,2,3,3,3]`; with `geom.grid = arange(3)` the call raises (`IndexError`). -/
theorem step_obj_regrid_counterexample :
    (StepObj.init? [0, 1, 2, 3, 4, 5] none 3 (some .mean)).map
        (fun o => ((o.setGrid [0, 1, 2, 3, 4, 5, 6, 7, 8]).par2fun (Arr.ofList [3] [1, 2, 3])).map Arr.toList)
      = some (some [1, 1, 2, 2, 3, 3, 0, 0, 0]) ∧
    (StepObj.init? [0, 1, 2, 3, 4, 5, 6, 7, 8] none 3 (some .mean)).map
        (fun o => (o.par2fun (Arr.ofList [3] [1, 2, 3])).map Arr.toList)
      = some (some [1, 1, 1, 2, 2, 2, 3, 3, 3]) ∧
    (StepObj.init? [0, 1, 2, 3, 4, 5] none 3 (some .mean)).map
        (fun o => ((o.setGrid [0, 1, 2]).par2fun (Arr.ofList [3] [1, 2, 3])).isNone) = some true := by
  refine ⟨?_, ?_, ?_⟩ <;> decide +kernel

/-- **`n_steps = 0` and unknown projection strings** (error branches as the code has them): with
    `n_steps = 0` `par2fun` refuses every input while `fun2par` returns an empty `(0,)`/`(0, ns)` array for a
    function of the right shape without looking at the projection; an unknown projection string is only
    detected by `fun2par`, and only when `n_steps ≥ 1`. -/
theorem step_obj_degenerate_branches (o : StepObj) (x : Arr) (ns : ℕ)
    (hb : batchOf o.grid.length x = some ns) (hn : o.grid.length ≠ 0) :
    (o.s = 0 → o.par2fun x = none ∧ o.fun2par x = .ok (Arr.squeeze ⟨[0, ns], fun _ => 0⟩)) ∧
    (o.s ≠ 0 → o.proj = none → o.fun2par x = .error "raise") := by
  constructor
  · intro hs
    constructor
    · unfold StepObj.par2fun
      cases batchOf o.s x <;> simp [hs]
    · unfold StepObj.fun2par
      simp [hb, hn, hs]
  · intro hs hp
    unfold StepObj.fun2par
    simp [hb, hn, hs, hp]

example : projOfString "MEAN" = some .mean ∧ projOfString "median" = none := by decide +kernel

end CuqiVerif.C13
