import CuqiVerif.Model.C18_history
import CuqiVerif.Props.C18

/-!
# C18 — one `TimeDependentLinearPDE` / `PDEModel` object under a history of calls: no stale state

Theorems about the executable state machine of `CuqiVerif/Model/C18_history.lean` (driver op `hist`,
tied on every run to ONE real object driven through the same random call sequence, all attributes
compared after every call).  `R` is any commutative ring, the parameter type `P` arbitrary.
-/

set_option linter.unusedSectionVars false
set_option linter.unusedVariables false

namespace CuqiVerif.C18

variable {P R I : Type} [CommRing R]

/-- what `solve()` hands back for a result of the time loop -/
def HOut.ofSolve (r : Except Err (List (Array R) × Option (List I))) : HOut R I :=
  match r with
  | .error e => .err e
  | .ok (levels, info) => .solved levels info

/-- the configuration a history leaves behind: only the *valid* method assignments and the
    `time_steps` assignments matter -/
def cfgAfter : Method × List R → List (HOp P R) → Method × List R
  | c, [] => c
  | c, .setMethod s :: rest =>
    cfgAfter (match Method.ofString s with | some m => (m, c.2) | none => c) rest
  | c, .setTs ts :: rest => cfgAfter (c.1, ts) rest
  | c, _ :: rest => cfgAfter c rest

/-- `n`, `PDE_form` and the solver never change -/
theorem step_static (o : TimeObj P R I) (op : HOp P R) :
    (o.step op).1.n = o.n ∧ (o.step op).1.formP = o.formP ∧ (o.step op).1.solver = o.solver := by
  cases op with
  | assemble p => exact ⟨rfl, rfl, rfl⟩
  | assembleStep t => simp only [TimeObj.step]; cases o.param <;> exact ⟨rfl, rfl, rfl⟩
  | solve => simp only [TimeObj.step, TimeObj.doSolve]; cases o.param <;> exact ⟨rfl, rfl, rfl⟩
  | setMethod s => simp only [TimeObj.step]; cases Method.ofString s <;> exact ⟨rfl, rfl, rfl⟩
  | setTs ts => exact ⟨rfl, rfl, rfl⟩
  | forward x => exact ⟨rfl, rfl, rfl⟩

theorem step_cfg (o : TimeObj P R I) (op : HOp P R) :
    ((o.step op).1.method, (o.step op).1.ts) = cfgAfter (o.method, o.ts) [op] := by
  cases op with
  | assemble p => rfl
  | assembleStep t => simp only [TimeObj.step, cfgAfter]; cases o.param <;> rfl
  | solve => simp only [TimeObj.step, TimeObj.doSolve, cfgAfter]; cases o.param <;> rfl
  | setMethod s => simp only [TimeObj.step, cfgAfter]; cases Method.ofString s <;> rfl
  | setTs ts => rfl
  | forward x => rfl

/-- **history_static_and_config.**  After ANY history of calls the object still has the `PDE_form`,
    solver and size it was built with, and its `method` / `time_steps` are exactly those of the last
    valid assignments (`cfgAfter`): no call other than the two setters touches the configuration. -/
theorem history_static_and_config (o : TimeObj P R I) (h : List (HOp P R)) :
    (o.run h).1.n = o.n ∧ (o.run h).1.formP = o.formP ∧ (o.run h).1.solver = o.solver ∧
      ((o.run h).1.method, (o.run h).1.ts) = cfgAfter (o.method, o.ts) h := by
  induction h generalizing o with
  | nil => simp [TimeObj.run, cfgAfter]
  | cons op rest ih =>
    obtain ⟨s1, s2, s3⟩ := step_static o op
    have c := step_cfg o op
    obtain ⟨i1, i2, i3, i4⟩ := ih (o.step op).1
    simp only [TimeObj.run]
    refine ⟨by rw [i1, s1], by rw [i2, s2], by rw [i3, s3], ?_⟩
    rw [i4, c]
    cases op <;> simp [cfgAfter]

/-- **forward_reads_configuration_only.**  `PDEModel._forward_func(x)`: what is solved is the time
    loop for the parameter `x` on the CURRENT `method` and `time_steps` — the previously assembled
    parameter and the attributes left by earlier `assemble_step` calls are not read. -/
theorem forward_reads_configuration_only (o : TimeObj P R I) (x : P) :
    (o.step (.forward x)).2 = HOut.ofSolve (solveTime o.n o.method (o.formP x) o.solver o.ts)
      ∧ (o.step (.forward x)).1.param = some x := by
  exact ⟨rfl, rfl⟩

/-- **forward_no_stale_state.**  After ANY history of calls on the object (assemblies with other
    parameters, solves, stray `assemble_step`s, method and time-grid re-assignments, earlier forward
    calls, refused calls), `PDEModel._forward_func(x)` returns what a *freshly constructed* object with
    the current configuration returns for `x`. -/
theorem forward_no_stale_state (o : TimeObj P R I) (h : List (HOp P R)) (x : P) :
    ((o.run h).1.step (.forward x)).2 =
      (({ n := o.n, formP := o.formP, solver := o.solver,
          method := (cfgAfter (o.method, o.ts) h).1, ts := (cfgAfter (o.method, o.ts) h).2 } : TimeObj P R I).step
        (.forward x)).2 := by
  obtain ⟨i1, i2, i3, i4⟩ := history_static_and_config o h
  rw [(forward_reads_configuration_only _ x).1, (forward_reads_configuration_only _ x).1]
  simp only [i1, i2, i3]
  have hm : (o.run h).1.method = (cfgAfter (o.method, o.ts) h).1 := by rw [← i4]
  have ht : (o.run h).1.ts = (cfgAfter (o.method, o.ts) h).2 := by rw [← i4]
  rw [hm, ht]

/-- **solve_uses_last_assembled_parameter.**  `assemble(p)` followed by `solve()` — whatever happened
    before — runs the time loop for `p`. -/
theorem solve_uses_last_assembled_parameter (o : TimeObj P R I) (p : P) :
    (((o.step (.assemble p)).1).step .solve).2 = HOut.ofSolve (solveTime o.n o.method (o.formP p) o.solver o.ts) := by
  rfl

/-- **solve_requires_assemble.**  `solve()` / `assemble_step(t)` before any `assemble` are refused. -/
theorem solve_requires_assemble (o : TimeObj P R I) (hp : o.param = none) (t : R) :
    (o.step .solve).2 = .err .notAssembled ∧ (o.step (.assembleStep t)).2 = .err .notAssembled := by
  simp [TimeObj.step, TimeObj.doSolve, hp]

/-- two states that differ at most in what the assembled attributes (`diff_op`, `rhs`,
    `initial_condition`) currently hold -/
def SameButAssembled (o o' : TimeObj P R I) : Prop :=
  o.n = o'.n ∧ o.formP = o'.formP ∧ o.solver = o'.solver ∧ o.method = o'.method ∧ o.ts = o'.ts ∧ o.param = o'.param

lemma step_sameButAssembled (o o' : TimeObj P R I) (hs : SameButAssembled o o') (op : HOp P R) :
    SameButAssembled (o.step op).1 (o'.step op).1 ∧ (o.step op).2 = (o'.step op).2 := by
  obtain ⟨h1, h2, h3, h4, h5, h6⟩ := hs
  cases op with
  | assemble p => exact ⟨⟨h1, h2, h3, h4, h5, rfl⟩, rfl⟩
  | assembleStep t =>
    cases hp : o'.param with
    | none =>
      have hp' : o.param = none := h6.trans hp
      have e1 : o.step (.assembleStep t) = (o, .err .notAssembled) := by simp only [TimeObj.step, hp']
      have e2 : o'.step (.assembleStep t) = (o', .err .notAssembled) := by simp only [TimeObj.step, hp]
      rw [e1, e2]
      exact ⟨⟨h1, h2, h3, h4, h5, h6⟩, rfl⟩
    | some p =>
      have hp' : o.param = some p := h6.trans hp
      have e1 : o.step (.assembleStep t) = ({ o with lastStep := some (p, t) }, .unit) := by simp only [TimeObj.step, hp']
      have e2 : o'.step (.assembleStep t) = ({ o' with lastStep := some (p, t) }, .unit) := by simp only [TimeObj.step, hp]
      rw [e1, e2]
      exact ⟨⟨h1, h2, h3, h4, h5, h6⟩, rfl⟩
  | solve =>
    cases hp : o'.param with
    | none =>
      have hp' : o.param = none := h6.trans hp
      have e1 : o.step .solve = (o, .err .notAssembled) := by simp only [TimeObj.step, TimeObj.doSolve, hp']
      have e2 : o'.step .solve = (o', .err .notAssembled) := by simp only [TimeObj.step, TimeObj.doSolve, hp]
      rw [e1, e2]
      exact ⟨⟨h1, h2, h3, h4, h5, h6⟩, rfl⟩
    | some p =>
      have hp' : o.param = some p := h6.trans hp
      have e1 : o.step .solve = (o.afterSolve p, o.solveOut p) := by simp only [TimeObj.step, TimeObj.doSolve, hp']
      have e2 : o'.step .solve = (o'.afterSolve p, o'.solveOut p) := by simp only [TimeObj.step, TimeObj.doSolve, hp]
      rw [e1, e2]
      refine ⟨⟨h1, h2, h3, h4, h5, h6⟩, ?_⟩
      simp only [TimeObj.solveOut, h1, h2, h3, h4, h5]
  | setMethod s =>
    simp only [TimeObj.step]
    cases Method.ofString s with
    | none => exact ⟨⟨h1, h2, h3, h4, h5, h6⟩, rfl⟩
    | some m => exact ⟨⟨h1, h2, h3, rfl, h5, h6⟩, rfl⟩
  | setTs ts => exact ⟨⟨h1, h2, h3, h4, rfl, h6⟩, rfl⟩
  | forward x =>
    refine ⟨⟨h1, h2, h3, h4, h5, rfl⟩, ?_⟩
    simp only [TimeObj.step, TimeObj.doSolve, TimeObj.solveOut, h1, h2, h3, h4, h5]

/-- **assembled_attributes_never_read.**  The outputs of every later call are the same whatever the
    attributes `diff_op`, `rhs`, `initial_condition` hold at the moment: `solve()` re-assembles before
    each use. -/
theorem assembled_attributes_never_read (o o' : TimeObj P R I) (hs : SameButAssembled o o') (h : List (HOp P R)) :
    (o.run h).2 = (o'.run h).2 := by
  induction h generalizing o o' with
  | nil => rfl
  | cons op rest ih =>
    obtain ⟨hs', ho⟩ := step_sameButAssembled o o' hs op
    simp only [TimeObj.run]
    rw [ho, ih _ _ hs']

/-- **stray_assemble_step_irrelevant.**  A stray `assemble_step(t)` by the user — at any time `t`, at
    any point of a history — changes no output of any later call. -/
theorem stray_assemble_step_irrelevant (o : TimeObj P R I) (t : R) (h : List (HOp P R)) :
    ((o.step (.assembleStep t)).1.run h).2 = (o.run h).2 := by
  apply assembled_attributes_never_read
  cases hp : o.param with
  | none =>
    have e : o.step (.assembleStep t) = (o, .err .notAssembled) := by simp only [TimeObj.step, hp]
    rw [e]
    exact ⟨rfl, rfl, rfl, rfl, rfl, rfl⟩
  | some p =>
    have e : o.step (.assembleStep t) = ({ o with lastStep := some (p, t) }, .unit) := by simp only [TimeObj.step, hp]
    rw [e]
    exact ⟨rfl, rfl, rfl, rfl, rfl, rfl⟩

/-- a history on a concrete object: forward Euler for `u' = -u`, one node, grid `0, 1/2`; `solve` before
    `assemble` is refused, the method is switched to backward Euler (whose solver raises) and back, and the
    forward call afterwards ignores everything that happened before -/
example :
    let o : TimeObj ℚ ℚ ℚ := { n := 1, formP := fun p _ => ⟨fun _ _ => -1, fun _ => 0, fun _ => p⟩,
                               solver := fun _ _ => .raised, method := .forward, ts := [0, 1/2] }
    ((o.run [.solve, .assemble 7, .assembleStep 3, .setMethod "backward_euler", .solve, .setMethod "forward_euler"]).1.step
        (.forward 4)).2 = (o.step (.forward 4)).2 := by
  intro o
  rw [forward_no_stale_state]
  have hc : cfgAfter (o.method, o.ts) ([.solve, .assemble 7, .assembleStep 3, .setMethod "backward_euler", .solve,
      .setMethod "forward_euler"] : List (HOp ℚ ℚ)) = (.forward, [0, 1/2]) := by
    simp [cfgAfter, Method.ofString, o]
  rw [hc]

end CuqiVerif.C18
