import CuqiVerif.Props.C13_shapes
import CuqiVerif.Proofs.C13_total

/-!
# C13 (total) — a `Samples` conversion chain never fails under `Geom.Lossless`

Closes "Remaining gap 1" of the shapes section: `samples_conversions_lossless_chain` was conditional on the
chain running through.  Here: for a geometry with mutually inverse maps (`g.Lossless fs`) whose function
values have a vector representation (needed — `Continuous2D` has none and `.vector` fails there by design,
`cont2D_no_vector_representation`), every chain of `.parameters/.funvals/.vector` requests on a non-empty
collection of parameter samples runs through; for 1-D function spaces the extra hypothesis is automatic.
-/

namespace CuqiVerif.C13

/-- **No conversion in a chain ever fails.**  `g` any geometry of the model with `g.Lossless fs`; the
    per-sample vector conversion is defined on every array of the function shape; `s` a collection of
    `ns ≥ 1` parameter samples `(par_dim, ns)`.  Then for EVERY list `cs` of requests
    `Samples.chain g cs s` is defined (no conversion and no broadcasting assignment raises, the shapes
    `fun_shape`/`funvec_shape` needed to allocate the results are available). -/
theorem samples_chain_never_fails (g : Geom) (fs : List ℕ) (L : g.Lossless fs)
    (hvec : ∀ f : Arr, f.shape = fs → ∃ v, (sysOf g).f2v f = some v)
    (s : Samples) (ns : ℕ) (hns : 0 < ns) (hshape : s.arr.shape = g.parShape ++ [ns])
    (hpar : s.isPar = true) (cs : List Conv) :
    ∃ s', Samples.chain g cs s = some s' := by
  have hLS := L.toSys
  have hT : ∀ f, Geom.RF fs f f → ∃ v, (sysOf g).f2v f = some v := fun f h => hvec f h.1
  have hp : ∀ i, g.RP (s.arr.col ns i) (s.arr.col ns i) := fun i =>
    ⟨by simp [Arr.col, hshape], Arr.Eqv.refl _⟩
  have aux : ∀ (cs : List Conv) (t : Samples), t.ns = ns →
      (∀ i, i < ns → (sysOf g).Inv g.RP (Geom.RF fs) g.RV (s.arr.col ns i) (t.colSt ns i)) →
      ∃ s', Samples.chain g cs t = some s' := by
    intro cs
    induction cs with
    | nil => intro t _ _; exact ⟨t, rfl⟩
    | cons c cs ih =>
      intro t ht hI
      have hcols : ∀ i, i < t.ns → ∃ u, (sysOf g).convert c (t.colSt t.ns i) = some u := by
        intro i hi
        rw [ht] at hi ⊢
        exact hLS.convert_total hT _ (hp i) c _ (hI i hi)
      obtain ⟨t1, h1⟩ := samples_convert_of_cols g c t (by rw [ht]; exact hns) hcols
      obtain ⟨e1, c1⟩ := samples_convert_col g c t t1 h1
      rw [ht] at e1 c1
      obtain ⟨s', h2⟩ := ih t1 e1 (fun i hi =>
        hLS.convert_inv _ (hp i) c _ _ (hI i hi) (c1 i hi))
      exact ⟨s', by simp only [Samples.chain, h1, Option.bind_some]; exact h2⟩
  have hsns : s.ns = ns := by simp [Samples.ns, hshape]
  refine aux cs s hsns ?_
  intro i _
  simp only [Sys.Inv, Samples.colSt, hpar, if_true]
  exact hp i

/-- for 1-D function spaces (`Continuous1D`, `Discrete`, default 1-D, visual-only images, `StepExpansion`,
    and mapped geometries over them) the vector representation is the function value itself, so the
    extra hypothesis of `samples_chain_never_fails` holds automatically -/
theorem oneD_vector_representation_defined (g : Geom) (fs : List ℕ) (L : g.Lossless fs) (h1 : fs.length ≤ 1)
    (f : Arr) (hf : f.shape = fs) : ∃ v, (sysOf g).f2v f = some v := by
  obtain ⟨vs, hvs, hprod, hid⟩ := L.oneD h1
  obtain ⟨y', hy', _⟩ := broadcastTo_same f [prod vs] (by rw [hprod]; exact hf)
  exact ⟨y', by simp [sysOf, hvs, hid f hf, optOfExcept, hy']⟩

/-- **Lossless AND total, 1-D function spaces**: any chain on `ns ≥ 1` parameter samples runs through,
    and a final `.parameters` succeeds, has the original shape and returns every original entry — with no
    hypothesis on the chain. -/
theorem samples_conversions_lossless_total (g : Geom) (fs : List ℕ) (L : g.Lossless fs) (h1 : fs.length ≤ 1)
    (s : Samples) (ns : ℕ) (hns : 0 < ns) (hshape : s.arr.shape = g.parShape ++ [ns])
    (hpar : s.isPar = true) (cs : List Conv) :
    ∃ s' s'', Samples.chain g cs s = some s' ∧ s'.parameters g = some s'' ∧ s''.isPar = true ∧
      s''.arr.shape = g.parShape ++ [ns] ∧
      ∀ i, i < ns → ∀ r, r < prod g.parShape → s''.arr.get (r * ns + i) = s.arr.get (r * ns + i) := by
  obtain ⟨s', h⟩ := samples_chain_never_fails g fs L (oneD_vector_representation_defined g fs L h1)
    s ns hns hshape hpar cs
  obtain ⟨s'', h2, h3, h4, h5⟩ := samples_conversions_lossless_chain g fs L s ns hns hshape hpar cs s' h
  exact ⟨s', s'', h, h2, h3, h4, h5⟩

/-- instance: `StepExpansion` on every regular grid (exact ends), `2 ≤ n_steps ≤ #nodes`, three projections:
    every chain on every non-empty collection of parameter samples runs through and is lossless -/
theorem step_samples_chain_total (x0 h : ℚ) (hh : 0 < h) (m st : ℕ) (hs : 2 ≤ st) (hsn : st ≤ m + 1) (pr : Proj)
    (s : Samples) (ns : ℕ) (hns : 0 < ns) (hshape : s.arr.shape = [st] ++ [ns]) (hpar : s.isPar = true)
    (cs : List Conv) :
    ∃ s' s'', Samples.chain (Geom.step (regularGrid x0 h m) none st pr) cs s = some s' ∧
      s'.parameters (Geom.step (regularGrid x0 h m) none st pr) = some s'' ∧ s''.isPar = true ∧
      ∀ i, i < ns → ∀ r, r < st → s''.arr.get (r * ns + i) = s.arr.get (r * ns + i) := by
  have L := maps_mutually_inverse_step (regularGrid x0 h m) none st pr (stepOK_regular x0 h hh m st hs hsn)
  obtain ⟨s', s'', a, b, c, _, e⟩ := samples_conversions_lossless_total _ _ L (by simp) s ns hns hshape hpar cs
  exact ⟨s', s'', a, b, c, fun i hi r hr => e i hi r (by simpa [Geom.parShape, prod] using hr)⟩

example (s : Samples) (hshape : s.arr.shape = [3] ++ [4]) (hpar : s.isPar = true) :
    ∃ s', Samples.chain (Geom.step (regularGrid 0 1 8) none 3 .max) [.funvals, .vector, .parameters, .funvals, .funvals] s = some s' := by
  obtain ⟨s', _, h, _⟩ := step_samples_chain_total 0 1 (by norm_num) 8 3 (by norm_num) (by norm_num) .max s 4
    (by norm_num) hshape hpar [.funvals, .vector, .parameters, .funvals, .funvals]
  exact ⟨s', h⟩

/-- instance: `Image2D` (both orders, `a·b ≠ 0`) — a 2-D function space, the vector representation is
    `ravel(order)`, defined on every `(a, b)` array: every chain runs through and is lossless -/
theorem image_samples_chain_total (a b : ℕ) (o : Bool) (hab : a * b ≠ 0)
    (s : Samples) (ns : ℕ) (hns : 0 < ns) (hshape : s.arr.shape = [a * b] ++ [ns]) (hpar : s.isPar = true)
    (cs : List Conv) :
    ∃ s' s'', Samples.chain (Geom.image a b o false) cs s = some s' ∧
      s'.parameters (Geom.image a b o false) = some s'' ∧ s''.isPar = true ∧
      ∀ i, i < ns → ∀ r, r < a * b → s''.arr.get (r * ns + i) = s.arr.get (r * ns + i) := by
  have L := maps_mutually_inverse_image a b o hab
  have hvec : ∀ f : Arr, f.shape = [a, b] → ∃ v, (sysOf (Geom.image a b o false)).f2v f = some v := by
    intro f hf
    have hsh : (imageRavel o f).shape = [a * b] := by
      rw [imageRavel_shape]; simp [Arr.size, hf, prod]
    obtain ⟨y', hy', _⟩ := broadcastTo_same (imageRavel o f) [prod [a * b]] (by simpa [prod] using hsh)
    exact ⟨y', by simp [sysOf, Geom.funvecShape, Geom.fun2vec, Geom.fun2par, optOfExcept, hy']⟩
  obtain ⟨s', h⟩ := samples_chain_never_fails _ _ L hvec s ns hns hshape hpar cs
  obtain ⟨s'', h2, h3, _, h5⟩ := samples_conversions_lossless_chain _ _ L s ns hns hshape hpar cs s' h
  exact ⟨s', s'', h, h2, h3, fun i hi r hr => h5 i hi r (by simpa [Geom.parShape, prod] using hr)⟩

example (s : Samples) (hshape : s.arr.shape = [2 * 3] ++ [5]) (hpar : s.isPar = true) :
    ∃ s', Samples.chain (Geom.image 2 3 true false) [.vector, .funvals, .vector, .parameters] s = some s' := by
  obtain ⟨s', _, h, _⟩ := image_samples_chain_total 2 3 true (by norm_num) s 5 (by norm_num) hshape hpar _
  exact ⟨s', h⟩

end CuqiVerif.C13
