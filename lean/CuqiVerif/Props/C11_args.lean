import CuqiVerif.Props.C11
import CuqiVerif.Model.C11_args

/-!
# C11 — positional arguments (`Model/C11_args.lean`)

The positional forms `dist(*args, **kw)`, `joint(*args, **kw)`, `model(*pos, **kw)` are parsed into keyword
form before anything is copied.  Proved: a refused call has no effect at all; an accepted call without main
parameter IS the keyword call with the arguments bound to the conditioning variables / parameter names in
order; programs mixing positional and keyword forms satisfy the same frame theorem as keyword programs.
-/
namespace CuqiVerif.C11

lemma condDistMain_step {n : Nat} {s : St} (h : n ≤ s.size) (a : Nat) (kw : Kw) (data : Int) :
    Step n s (s.condDistMain a kw data).1 := by
  unfold St.condDistMain
  have h1 := makeCopy_step h a
  have hb : n ≤ (s.makeCopy a).2 := by rw [makeCopy_addr]; exact h
  have h2 := condSlots_step h1.le (s.obj a) kw _ hb
  have h3 := condNormalSlot_step (h1.trans h2).le a _ hb
  have h123 := (h1.trans h2).trans h3
  dsimp only
  exact h123.trans (toLikelihood_step h123.le _ _)

lemma condArgsDist_step {n : Nat} {s : St} (h : n ≤ s.size) (a : Nat) (args : List Int) (kw : Kw) :
    Step n s (s.condArgsDist a args kw).1 := by
  unfold St.condArgsDist
  split
  · exact Step.refl h
  · split
    · exact condDistMain_step h _ _ _
    · exact condAny_step h _ _

lemma condArgsJoint_step {n : Nat} {s : St} (h : n ≤ s.size) (a : Nat) (args : List Int) (kw : Kw) :
    Step n s (s.condArgsJoint a args kw).1 := by
  unfold St.condArgsJoint
  split
  · exact Step.refl h
  · exact condAny_step h _ _

lemma condArgs_step {n : Nat} {s : St} (h : n ≤ s.size) (a : Nat) (args : List Int) (kw : Kw) :
    Step n s (s.condArgs a args kw).1 := by
  unfold St.condArgs
  split
  · exact condArgsDist_step h a args kw
  · exact condArgsDist_step h a args kw
  · exact condArgsJoint_step h a args kw
  · exact condArgsJoint_step h a args kw
  · split
    · exact condAny_step h _ _
    · exact Step.refl h

lemma applyArgs_step {n : Nat} {s : St} (h : n ≤ s.size) (m : Nat) (pos : List Nat) (kw : List (Nat × Nat)) :
    Step n s (s.applyArgs m pos kw).1 := by
  unfold St.applyArgs
  split
  · dsimp only
    split
    · exact Step.refl h
    · split
      · exact Step.refl h
      · split
        · exact applyModel_step h _ _
        · exact Step.refl h
  · exact Step.refl h

lemma runX_step {n : Nat} {s : St} (h : n ≤ s.size) (op : XOp) : Step n s (s.runX op).1 := by
  cases op with
  | op o => exact run_step h o
  | condArgs a args kw => exact condArgs_step h a args kw
  | applyArgs m pos kw => exact applyArgs_step h m pos kw

lemma runAllX_step {n : Nat} : ∀ (ops : List XOp) (s : St), n ≤ s.size → Step n s (s.runAllX ops) := by
  intro ops
  induction ops with
  | nil => intro s h; exact Step.refl h
  | cons op ops ih =>
    intro s h
    have h1 := runX_step h op
    exact h1.trans (ih _ h1.le)

/-- **positional_programs_frame.**  Any interleaving of keyword AND positional operations
    (`dist(v1, v2)`, `dist(v1, data)`, `joint(v1, …)`, `model(dist)`, `model(x=dist)`, refused calls included), of
    any length: the observable object graph of every pre-existing object is unchanged. -/
theorem positional_programs_frame (s : St) (ops : List XOp) (fuel a : Nat) :
    fp s.size fuel (s.runAllX ops) a = fp s.size fuel s a :=
  (runAllX_step ops s (Nat.le_refl _)).fp_eq fuel a

example (fuel a : Nat) : fp exDist.size fuel (exDist.runAllX [.condArgs 0 [5] [], .condArgs 0 [5, 7] [], .condArgs 0 [5, 7, 9] []]) a
    = fp exDist.size fuel exDist a := positional_programs_frame _ _ _ _

/-- **refused_call_no_effect.**  A positional call that the parser refuses (too many arguments, a variable given both
    positionally and by keyword) returns the error with the state untouched: nothing was copied, nothing written. -/
theorem refused_call_no_effect (s : St) (a : Nat) (args : List Int) (kw : Kw) :
    (parseArgsDist (s.condVars a) args kw = none → s.condArgsDist a args kw = (s, .err)) ∧
    (parseArgsJoint (s.jointNames a) args kw = none → s.condArgsJoint a args kw = (s, .err)) := by
  constructor
  · intro hp; unfold St.condArgsDist; rw [hp]
  · intro hp; unfold St.condArgsJoint; rw [hp]

-- `x ~ F(f(v3), 2)` called with three positional arguments (one conditioning variable + main parameter allowed)
example : parseArgsDist (exDist.condVars 0) [5, 7, 9] [] = none := by decide
-- `v3` given both ways
example : parseArgsDist (exDist.condVars 0) [5] [(3, 6)] = none := by decide
example : (exDist.condArgs 0 [5] [(3, 6)]).2 = .err ∧ (exDist.condArgs 0 [5] [(3, 6)]).1.size = exDist.size := by decide

lemma kwGet_append_single (kw : Kw) (k k' : Nat) (a : Int) (h : k' ≠ k) : kwGet (kw ++ [(k, a)]) k' = kwGet kw k' := by
  induction kw with
  | nil => simp [kwGet, Ne.symm h]
  | cons p r ih =>
    obtain ⟨pk, pv⟩ := p
    simp only [List.cons_append, kwGet]
    split
    · rfl
    · exact ih

/-- the parser binds the arguments to the keys in order (no clash, enough keys) -/
lemma parseGo_zip : ∀ (keys : List Nat) (args : List Int) (kw : Kw), keys.Nodup → (∀ k ∈ keys, kwHas kw k = false) →
    args.length ≤ keys.length → parseGo keys args kw = some (kw ++ keys.zip args) := by
  intro keys
  induction keys with
  | nil =>
    intro args kw _ _ hl
    cases args with
    | nil => simp [parseGo]
    | cons a as => simp at hl
  | cons k ks ih =>
    intro args kw hnd hfree hl
    cases args with
    | nil => simp [parseGo]
    | cons a as =>
      have hk : kwHas kw k = false := hfree k (List.mem_cons_self)
      simp only [parseGo, hk, Bool.false_eq_true, if_false]
      rw [ih as (kw ++ [(k, a)]) (List.nodup_cons.1 hnd).2 ?_ (by simpa using hl)]
      · simp
      · intro k' hk'
        have hne : k' ≠ k := fun e => (List.nodup_cons.1 hnd).1 (e ▸ hk')
        unfold kwHas
        rw [kwGet_append_single kw k k' a hne]
        exact hfree k' (List.mem_cons_of_mem _ hk')

/-- **parser_binds_in_order.**  With distinct keys none of which is given by keyword and at most as many arguments
    as keys, the parser returns the keywords followed by the arguments bound to the keys in order (the conditioning
    variables then `_main_parameter` for a distribution, `get_parameter_names()` for a joint). -/
theorem parser_binds_in_order (keys : List Nat) (args : List Int) (kw : Kw) (hnd : keys.Nodup)
    (hfree : ∀ k ∈ keys, kwHas kw k = false) (hl : args.length ≤ keys.length) :
    parseGo keys args kw = some (kw ++ keys.zip args) :=
  parseGo_zip keys args kw hnd hfree hl

example : parseArgsDist [3, 4] [5, 7] [(9, 1)] = some [(9, 1), (3, 5), (4, 7)] := by decide
example : parseArgsDist [3] [5, 7] [] = some [(3, 5), (mainKey, 7)] := by decide

/-- **positional_is_keyword.**  An accepted positional call without main parameter IS the keyword call with the
    parsed keywords: same new state, same result — so everything proved about keyword conditioning (frame, freshness,
    names, copy + re-binding) holds for the positional form. -/
theorem positional_is_keyword (s : St) (a : Nat) (args : List Int) (kw kw' : Kw) :
    (parseArgsDist (s.condVars a) args kw = some kw' → kwGet kw' mainKey = none → s.condArgsDist a args kw = s.condAny a kw') ∧
    (parseArgsJoint (s.jointNames a) args kw = some kw' → s.condArgsJoint a args kw = s.condAny a kw') := by
  constructor
  · intro hp hm; unfold St.condArgsDist; rw [hp]; simp only [hm]
  · intro hp; unfold St.condArgsJoint; rw [hp]

example : exDist.condArgsDist 0 [5] [] = exDist.condAny 0 [(3, 5)] :=
  (positional_is_keyword exDist 0 [5] [] [(3, 5)]).1 (by decide) (by decide)

/-- with a main parameter the result is what `to_likelihood` returns on the conditioned copy: a fresh object -/
theorem main_parameter_result_fresh (s : St) (a : Nat) (kw : Kw) (data : Int) (r : Nat)
    (h : (s.condDistMain a kw data).2 = .obj r) : s.size ≤ r := by
  unfold St.condDistMain at h
  dsimp only at h
  have hs := toLikelihood_fresh _ _ _ r h
  have h1 := makeCopy_step (Nat.le_refl s.size) a
  have hb : s.size ≤ (s.makeCopy a).2 := by rw [makeCopy_addr]; exact Nat.le_refl _
  have h2 := condSlots_step h1.le (s.obj a) kw _ hb
  have h3 := condNormalSlot_step (h1.trans h2).le a _ hb
  exact Nat.le_trans ((h1.trans h2).trans h3).size hs

end CuqiVerif.C11
