import CuqiVerif.Proofs.C02_kernel
import CuqiVerif.Props.C05_law
import Mathlib.MeasureTheory.Measure.Lebesgue.Basic

/-!
# C02 — the Metropolis–Hastings kernel on a general measurable space, `ℝ≥0∞`-valued densities

Setting: measurable space `X`, s-finite (in particular σ-finite) reference measure `μ`, target
density `π : X → ℝ≥0∞` (unnormalised, zeros allowed), proposal density `q : X → X → ℝ≥0∞`, jointly
measurable, `∫ q(x,y) μ(dy) = 1`.  The kernel

  `P(x, A) = ∫_A q(x,y) α(x,y) μ(dy) + r(x) 1_A(x)`,   `r(x) = 1 − ∫ q(x,y) α(x,y) μ(dy)`,
  `α(x,y) = min(1, π(y) q(y,x) / (π(x) q(x,y)))`

(`mhKernelE μ π q`, a Mathlib `Kernel X X`: measurability of `x ↦ P(x,A)` is part of the object)
satisfies detailed balance `∫_A π(x) P(x,B) μ(dx) = ∫_B π(x) P(x,A) μ(dx)` for all measurable
`A, B` (`mh_detailed_balance_kernel`), hence leaves `π · μ` invariant (`mh_invariant_kernel`,
`mhKernelE_invariant`).  The only hypotheses are measurability and FINITENESS of the density values
(`π x ≠ ∞`, `q x y ≠ ∞`); no integrability, no positivity, no normalisation of `π`.  Finiteness
cannot be dropped from the pointwise identity (`mh_offdiag_symm_counterexample`).

Zero denominators.  The division is the one of `ℝ≥0∞`: `b / 0 = ∞` (`b ≠ 0`), `0 / 0 = 0`, i.e. a
move out of a zero-density point to a positive-density point is accepted with probability 1 and a
move between zero-density points is rejected.  This is the convention of the executable model's
IEEE log-domain test (`accepts_iff_le_alphaE`, `accepts_iff_le_alphaE_general`: with
`π = exp(logd)`, `exp(−inf) = 0`, the guarded kernels accept iff `u ≤ α`; `mhStep_…`, `pcnStep_…`,
`malaStep_accept_iff_alphaE` for the step functions the driver runs), whereas `mhAlphaD` of
`Props/C02_density.lean` uses `b / 0 = 0`.  All results hold for EVERY convention (`IsMHAcc`: `α`
is only required to be the MH ratio where the denominator is non-zero;
`mh_offdiag_symm_any_convention`, `mh_detailed_balance_any_convention`); `mhAlphaD_isMHAcc` shows
the real-valued convention is one of them, `mhKernelE_eq_mhKernelD_of_pos` that the two kernels
coincide at every `x` with `π(x) > 0`, `isReversible_of_ae_eq` that this suffices.

Corollaries: symmetric proposals (`rwmh_detailed_balance`: `α = min(1, π(y)/π(x))`, the
random-walk kernels `MH`/`CWMH`), pCN in density form (`pcn_detailed_balance`: reference measure =
prior, `π` = likelihood, proposal density w.r.t. the prior symmetric ⇒ `α = min(1, L(y)/L(x))`;
`pcn_mehler_detailed_balance`: the concrete pCN proposal `N(a x, v)`, `a² + v = 1`, on `ℝ` whose
density w.r.t. the prior `N(0,1)` is the symmetric Mehler kernel).

The kernel is the law of the algorithm (closes the gap "kernel as ONE push-forward of the random
inputs" left by `Props/C02_density.lean` and `Props/C02_pcn.lean`): `mhKernelE_eq_law_of_step`
(proposal `y ~ q(x,·)μ`, `u ~ U(0,1]`, move iff `u ≤ α(x,y)`), `mhKernelE_eq_law_of_inputs`
(proposal produced from a raw draw `ξ`), instances `rwmh_law_of_inputs` (`x + s·randn(n)`, every
dimension), `rwmh_1d_law_of_inputs`, `mala_law_of_inputs` (`m(x) + s·randn(n)`, any measurable
drift), `cwmh_coordinate_law_of_inputs` (one iteration of the CWMH loop),
`pcn_1d_law_of_inputs`, `pcn_law_of_inputs_banach`,
`pcn_law_of_inputs` (every dimension, singular covariances, no proposal density), and with the
model's own convention `mh_model_convention_of_reversible_proposal`,
`pcn_model_convention_invariant(_euclid)`: Markov ∧ reversible ∧ invariant ∧ law of the step.
`mhStep_eq_mhStepG` / `pcnStep_eq_mhStepG`: the next point computed by the executable step IS the
generic step `mhStepG` at `u = exp ℓ`.  Consecutive steps: `law_of_two_steps` (the law of two steps
in a row driven by independent inputs is the kernel composition), `rwmh_two_steps_law_of_inputs`
(two RW steps with different scales: law = composition, composition invariant).

Relation to the model: `accepts`, `mhStep`, `pcnStep`, `malaStep` in the tie results are the
definitions the driver runs; `mhAlphaE`/`mhKernelE`/`mhStepG` are generic (`ℝ≥0∞`) versions of
`mhAlpha`/`mhKernel` (`Props/C02.lean`), `mhAlphaD`/`mhKernelD` (`Props/C02_density.lean`) and of
the `metropolis` tail.

The goal statement is proved at full strength; what remains open (exact real arithmetic vs. IEEE
floats, the laws of numpy's generators, the induction from two steps to a whole sweep / chain,
density values finite everywhere rather than almost everywhere, ergodicity) is listed in
`docs/C02.md`, section "kernel theorems".
-/

namespace CuqiVerif.C02

open MeasureTheory ProbabilityTheory Set
open scoped ENNReal NNReal

/-! ## pointwise: off-diagonal symmetry in `ℝ≥0∞` -/

/-- **Flux = minimum.** In `ℝ≥0∞`, `a · min(1, b/a) = min(a, b)` for finite `a` (`a = 0`, `b = ∞`
    allowed): the probability flux `x → y` of a Metropolis–Hastings move is the smaller of the two
    proposal fluxes `a = π(x)q(x,y)`, `b = π(y)q(y,x)`. -/
theorem mh_flux_eq_min {a b : ℝ≥0∞} (ha : a ≠ ∞) : a * min 1 (b / a) = min a b :=
  flux_eq_min_E ha

example : (2 : ℝ≥0∞) * min 1 (0 / 2) = min 2 0 := mh_flux_eq_min (by norm_num)
example : (0 : ℝ≥0∞) * min 1 (3 / 0) = min 0 3 := mh_flux_eq_min (by norm_num)

section pointwise
variable {X : Type*}

/-- **Off-diagonal symmetry** `π(x) q(x,y) α(x,y) = π(y) q(y,x) α(y,x)` for `ℝ≥0∞`-valued, finite
    densities — zero densities and zero denominators included.  This is the pointwise detailed
    balance behind every accept test of the eight kernels. -/
theorem mh_offdiag_symm (π : X → ℝ≥0∞) (q : X → X → ℝ≥0∞) (hπ : ∀ x, π x ≠ ∞)
    (hq : ∀ x y, q x y ≠ ∞) (x y : X) :
    π x * q x y * mhAlphaE π q x y = π y * q y x * mhAlphaE π q y x :=
  isMHAcc_balance (isMHAcc_mhAlphaE π q) hπ hq x y

example : (fun b : Bool => if b then (2 : ℝ≥0∞) else 0) true * 1
      * mhAlphaE (fun b : Bool => if b then (2 : ℝ≥0∞) else 0) (fun _ _ => 1) true false
    = (fun b : Bool => if b then (2 : ℝ≥0∞) else 0) false * 1
      * mhAlphaE (fun b : Bool => if b then (2 : ℝ≥0∞) else 0) (fun _ _ => 1) false true :=
  mh_offdiag_symm (fun b : Bool => if b then (2 : ℝ≥0∞) else 0) (fun _ _ => 1)
    (by intro b; cases b <;> simp) (by simp) true false

/-- **Finiteness of the density values is needed** for the pointwise identity: with
    `π(x)q(x,y) = ∞`, `π(y)q(y,x) = 1` the two fluxes are `0` and `1`. -/
theorem mh_offdiag_symm_counterexample :
    (∞ : ℝ≥0∞) * min 1 (1 / ∞) ≠ 1 * min 1 (∞ / 1) := by
  simp

/-- **The `ℝ≥0∞` convention for zero denominators**: a move from a point where `π(x) q(x,y) = 0`
    to a point with `π(y) q(y,x) ≠ 0` has acceptance probability 1; between two such points 0.
    (The IEEE test of the code does the same: `logd(y) − (−inf) = +inf`, `min(0, +inf) = 0`;
    `−inf − (−inf) = NaN` and the `−inf` proposal is refused by the guard.) -/
theorem mhAlphaE_zero_denominator (π : X → ℝ≥0∞) (q : X → X → ℝ≥0∞) (x y : X)
    (h0 : π x * q x y = 0) :
    (π y * q y x ≠ 0 → mhAlphaE π q x y = 1) ∧ (π y * q y x = 0 → mhAlphaE π q x y = 0) := by
  unfold mhAlphaE
  constructor
  · intro h; rw [h0, ENNReal.div_zero h]; simp
  · intro h; rw [h0, h]; simp

example : mhAlphaE (fun b : Bool => if b then (2 : ℝ≥0∞) else 0) (fun _ _ => 1) false true = 1 :=
  (mhAlphaE_zero_denominator _ _ false true (by simp)).1 (by simp)

/-- **Convention-free off-diagonal symmetry.** Any acceptance function that equals the MH ratio
    wherever the denominator `π(x) q(x,y)` is non-zero (`IsMHAcc`) — whatever it does on zero
    denominators: accept, reject, anything in between — balances the flux. -/
theorem mh_offdiag_symm_any_convention (π : X → ℝ≥0∞) (q α : X → X → ℝ≥0∞) (hα : IsMHAcc π q α)
    (hπ : ∀ x, π x ≠ ∞) (hq : ∀ x y, q x y ≠ ∞) (x y : X) :
    π x * q x y * α x y = π y * q y x * α y x :=
  isMHAcc_balance hα hπ hq x y

/-- The real-division convention of `Props/C02_density.lean` (`mhAlphaD`, `b / 0 = 0`) is an
    instance of the convention-free notion, so both files talk about MH acceptance functions. -/
theorem mhAlphaD_isMHAcc (π : X → ℝ) (q : X → X → ℝ) (hπ0 : ∀ x, 0 ≤ π x) (hq0 : ∀ x y, 0 ≤ q x y) :
    IsMHAcc (fun x => ENNReal.ofReal (π x)) (fun x y => ENNReal.ofReal (q x y))
      (fun x y => ENNReal.ofReal (mhAlphaD π q x y)) := by
  intro x y h
  have hx : 0 < π x := by
    rcases (hπ0 x).eq_or_lt with h' | h'
    · exact absurd (by simp [← h']) h
    · exact h'
  have hxy : 0 < q x y := by
    rcases (hq0 x y).eq_or_lt with h' | h'
    · exact absurd (by simp [← h']) h
    · exact h'
  exact (mhAlphaE_ofReal hπ0 hx hxy).symm

example : IsMHAcc (fun x : ℝ => ENNReal.ofReal (if 0 ≤ x then Real.exp (-x) else 0))
    (fun _ _ => ENNReal.ofReal 1)
    (fun x y => ENNReal.ofReal (mhAlphaD (fun x : ℝ => if 0 ≤ x then Real.exp (-x) else 0)
      (fun _ _ => 1) x y)) :=
  mhAlphaD_isMHAcc _ _ (fun x => by positivity) (fun _ _ => zero_le_one)

end pointwise

/-! ## the accept test of the executable model is `u ≤ α` with the `ℝ≥0∞` convention -/

section model
open XVal

/-- **The IEEE log-domain accept test is the `ℝ≥0∞` acceptance probability.**  For the kernels with
    both guards (MH, CWMH, PCN/pCN in both interfaces, experimental MALA), a cached value `tx` and a
    value at the proposal `ty` that are log-densities (finite or `−inf`; not NaN, not `+inf`), and a
    finite `ℓ = log u`: the executable `accepts` returns `true` iff
    `u = exp ℓ ≤ min(1, π(y)/π(x))` with `π = exp(logd)`, `exp(−inf) = 0` and the `ℝ≥0∞` division —
    a finite proposal from a `−inf` state is accepted (`b/0 = ∞`), a `−inf` proposal never is. -/
theorem accepts_iff_le_alphaE (k : Kernel) (hn : k.guardNan = true) (hi : k.guardInf = true)
    (tx ty : XVal) (l : Rat) (hx1 : tx ≠ nan) (hx2 : tx ≠ posinf) (hy1 : ty ≠ nan)
    (hy2 : ty ≠ posinf) :
    accepts k (fin l) (ty.sub tx) ty = true
      ↔ ENNReal.ofReal (Real.exp ((l : ℚ) : ℝ)) ≤ min 1 (densE ty / densE tx) := by
  rw [accepts_guarded_iff k hn hi]
  cases ty with
  | nan => exact absurd rfl hy1
  | posinf => exact absurd rfl hy2
  | neginf =>
    have hpos : ¬ ENNReal.ofReal (Real.exp ((l : ℚ) : ℝ)) ≤ 0 := by
      simp [Real.exp_pos]
    simp [isFinite, densE, hpos]
  | fin b =>
    cases tx with
    | nan => exact absurd rfl hx1
    | posinf => exact absurd rfl hx2
    | neginf =>
      have h1 : (fin b).sub neginf = posinf := rfl
      have h2 : pyMin0 posinf = fin 0 := rfl
      have h3 : densE (fin b) / densE neginf = ∞ := by
        simp only [densE]
        exact ENNReal.div_zero (by simp [Real.exp_pos])
      rw [h1, h2, h3, min_eq_left le_top, ← ENNReal.ofReal_one,
        ENNReal.ofReal_le_ofReal_iff zero_le_one, ← Real.exp_zero, Real.exp_le_exp]
      simp [le, isFinite]
    | fin a =>
      have h1 : (fin b).sub (fin a) = fin (b - a) := by simp [sub, neg, add, sub_eq_add_neg]
      have h3 : densE (fin b) / densE (fin a)
          = ENNReal.ofReal (Real.exp (((b - a : ℚ) : ℝ))) := by
        simp only [densE]
        rw [← ENNReal.ofReal_div_of_pos (Real.exp_pos _), ← Real.exp_sub]
        push_cast; rfl
      rw [h1, pyMin0_fin, h3, ofReal_exp_le_min_one_iff]
      simp only [le, isFinite, decide_eq_true_eq, and_true]
      exact_mod_cast Iff.rfl

example : accepts .expMH (fin (-1/2)) ((fin (-2)).sub neginf) (fin (-2)) = true := by decide +kernel
example : accepts .legPCN (fin (-1/2)) (neginf.sub (fin 1)) neginf = false := by decide +kernel

/-- **Non-symmetric proposals (the general MH ratio, as used by MALA).**  With the log proposal
    densities `r₁ = log q(y,x)` (reverse) and `r₂ = log q(x,y)` (forward) added to the log target
    difference — `(ty − tx) + (r₁ − r₂)` in IEEE arithmetic, as `MALA._accept_or_reject` does — the
    guarded accept test is `u ≤ min(1, π(y) q(y,x) / (π(x) q(x,y)))` in `ℝ≥0∞`. -/
theorem accepts_iff_le_alphaE_general (k : Kernel) (hn : k.guardNan = true) (hi : k.guardInf = true)
    (tx ty : XVal) (l r1 r2 : Rat) (hx1 : tx ≠ nan) (hx2 : tx ≠ posinf) (hy1 : ty ≠ nan)
    (hy2 : ty ≠ posinf) :
    accepts k (fin l) ((ty.sub tx).add (fin (r1 - r2))) ty = true
      ↔ ENNReal.ofReal (Real.exp ((l : ℚ) : ℝ))
          ≤ min 1 (densE ty * ENNReal.ofReal (Real.exp ((r1 : ℚ) : ℝ))
                    / (densE tx * ENNReal.ofReal (Real.exp ((r2 : ℚ) : ℝ)))) := by
  rw [accepts_guarded_iff k hn hi]
  cases ty with
  | nan => exact absurd rfl hy1
  | posinf => exact absurd rfl hy2
  | neginf =>
    have hpos : ¬ ENNReal.ofReal (Real.exp ((l : ℚ) : ℝ)) ≤ 0 := by
      simp [Real.exp_pos]
    simp [isFinite, densE, hpos]
  | fin b =>
    cases tx with
    | nan => exact absurd rfl hx1
    | posinf => exact absurd rfl hx2
    | neginf =>
      have h1 : ((fin b).sub neginf).add (fin (r1 - r2)) = posinf := rfl
      have h2 : pyMin0 posinf = fin 0 := rfl
      have h3 : densE (fin b) * ENNReal.ofReal (Real.exp ((r1 : ℚ) : ℝ))
          / (densE neginf * ENNReal.ofReal (Real.exp ((r2 : ℚ) : ℝ))) = ∞ := by
        simp only [densE, zero_mul]
        exact ENNReal.div_zero (by simp [Real.exp_pos])
      rw [h1, h2, h3, min_eq_left le_top, ← ENNReal.ofReal_one,
        ENNReal.ofReal_le_ofReal_iff zero_le_one, ← Real.exp_zero, Real.exp_le_exp]
      simp [le, isFinite]
    | fin a =>
      have h1 : ((fin b).sub (fin a)).add (fin (r1 - r2)) = fin (b - a + (r1 - r2)) := by
        simp [sub, neg, add, sub_eq_add_neg]
      have h3 : densE (fin b) * ENNReal.ofReal (Real.exp ((r1 : ℚ) : ℝ))
          / (densE (fin a) * ENNReal.ofReal (Real.exp ((r2 : ℚ) : ℝ)))
          = ENNReal.ofReal (Real.exp (((b - a + (r1 - r2) : ℚ) : ℝ))) := by
        simp only [densE]
        rw [← ENNReal.ofReal_mul (Real.exp_pos _).le, ← ENNReal.ofReal_mul (Real.exp_pos _).le,
          ← Real.exp_add, ← Real.exp_add, ← ENNReal.ofReal_div_of_pos (Real.exp_pos _),
          ← Real.exp_sub]
        congr 2
        push_cast; ring
      rw [h1, pyMin0_fin, h3, ofReal_exp_le_min_one_iff]
      simp only [le, isFinite, decide_eq_true_eq, and_true]
      exact_mod_cast Iff.rfl

example : accepts .expMALA (fin (-1/2)) (((fin (-2)).sub (fin (-1))).add (fin (3 - 5/2))) (fin (-2))
    = true := by decide +kernel

/-- **`MALA.step` (experimental) accepts with the `ℝ≥0∞` MH probability of its Langevin proposal.**
    If the caches are coherent (cached log-density and gradient are those of the current point, the
    invariant `malaStep_frame` maintains) the executable `malaStep` accepts iff `u ≤ α(x, x*)` for
    `α = mhAlphaE (exp ∘ logd) q`, `q(p, p') = exp(_log_proposal(p', p, ∇logd(p)))` — the
    non-symmetric Gaussian proposal density `N(p + (ε/2)∇, ε I)` up to its constant (`mala_logq`). -/
theorem malaStep_accept_iff_alphaE (k : Kernel) (hn : k.guardNan = true) (hi : k.guardInf = true)
    (logd : Vec → XVal) (gradf : Vec → Vec) (sigma : Rat) (st : St) (z : Vec) (l : Rat)
    (hc : st.logd = logd st.x) (hg : st.grad = gradf st.x)
    (h1 : ∀ p, logd p ≠ nan) (h2 : ∀ p, logd p ≠ posinf) :
    (malaStep k logd gradf sigma st z (fin l)).2 = true
      ↔ ENNReal.ofReal (Real.exp ((l : ℚ) : ℝ))
          ≤ mhAlphaE (fun p => densE (logd p))
              (fun p p' => ENNReal.ofReal
                (Real.exp ((logProposal (scalar st) p' p (gradf p) : ℚ) : ℝ)))
              st.x (malaPropose st sigma z) := by
  unfold malaStep mhAlphaE
  simp only [metropolis_acc, hc, hg]
  exact accepts_iff_le_alphaE_general k hn hi _ _ l _ _ (h1 _) (h2 _) (h1 _) (h2 _)

example : (malaStep .expMALA (fun p => fin (-(p.headD 0) ^ 2 / 2)) (fun p => [-(p.headD 0)]) 1
    ⟨[1], fin (-1/2), [-1], [1]⟩ [1/2] (fin (-1))).2 = true := by decide +kernel

/-- **`MH.step` / `MH.single_update` accept with the `ℝ≥0∞` MH probability.**  If the cached value
    is the log-density of the current point (the invariant the frame theorems maintain) and the
    target returns log-densities (finite or `−inf`), the executable `mhStep` accepts iff
    `u ≤ α(x, x*)` for `α = mhAlphaE (exp ∘ logd) q` with a constant (symmetric) `q`. -/
theorem mhStep_accept_iff_alphaE (k : Kernel) (hn : k.guardNan = true) (hi : k.guardInf = true)
    (logd : Vec → XVal) (st : St) (xi : Vec) (l : Rat) (hc : st.logd = logd st.x)
    (h1 : ∀ p, logd p ≠ nan) (h2 : ∀ p, logd p ≠ posinf) :
    (mhStep k logd st xi (fin l)).2 = true
      ↔ ENNReal.ofReal (Real.exp ((l : ℚ) : ℝ))
          ≤ mhAlphaE (fun p => densE (logd p)) (fun _ _ => 1) st.x (mhPropose st xi) := by
  unfold mhStep mhAlphaE
  simp only [metropolis_acc, hc, mul_one]
  exact accepts_iff_le_alphaE k hn hi _ _ l (h1 _) (h2 _) (h1 _) (h2 _)

/-- **`PCN.step` / `pCN.single_update`**: the same with the log-LIKELIHOOD — the acceptance
    probability is `min(1, L(x*)/L(x))`, the `π := L` instance used in `pcn_detailed_balance`. -/
theorem pcnStep_accept_iff_alphaE (k : Kernel) (hn : k.guardNan = true) (hi : k.guardInf = true)
    (loglik : Vec → XVal) (c : Rat) (st : St) (xi : Vec) (l : Rat) (hc : st.logd = loglik st.x)
    (h1 : ∀ p, loglik p ≠ nan) (h2 : ∀ p, loglik p ≠ posinf) :
    (pcnStep k loglik c st xi (fin l)).2 = true
      ↔ ENNReal.ofReal (Real.exp ((l : ℚ) : ℝ))
          ≤ mhAlphaE (fun p => densE (loglik p)) (fun _ _ => 1) st.x (pcnPropose st c xi) := by
  unfold pcnStep mhAlphaE
  simp only [metropolis_acc, hc, mul_one]
  exact accepts_iff_le_alphaE k hn hi _ _ l (h1 _) (h2 _) (h1 _) (h2 _)

/-- a support-restricted target (`−inf` below 0), started outside the support: the move into the
    support is accepted for `log u = −1/2` -/
example : (mhStep .expMH (fun p => if p.headD 0 < 0 then neginf else fin (-(p.headD 0)))
    ⟨[-1], neginf, [], [2]⟩ [1] (fin (-1/2))).2 = true := by decide +kernel

end model

/-! ## the kernel -/

section kernel
variable {X : Type*} [MeasurableSpace X]

/-- **The kernel is the textbook one**: for measurable `A`,
    `P(x, A) = ∫_A q(x,y) α(x,y) μ(dy) + (1 − ∫ q(x,y) α(x,y) μ(dy)) 1_A(x)`. -/
theorem mhKernelE_apply (μ : Measure X) [SFinite μ] (π : X → ℝ≥0∞) (q : X → X → ℝ≥0∞)
    (hπ : Measurable π) (hq : Measurable (Function.uncurry q)) (x : X) {A : Set X}
    (hA : MeasurableSet A) :
    mhKernelE μ π q x A
      = ∫⁻ y in A, q x y * mhAlphaE π q x y ∂μ
        + (1 - ∫⁻ y, q x y * mhAlphaE π q x y ∂μ) * A.indicator 1 x :=
  moveKernelE_apply μ (measurable_mhMoveE hπ hq) x hA

/-- **Markov kernel**: total mass 1 as soon as `q(x,·)` is a probability density. -/
theorem mhKernelE_isMarkov (μ : Measure X) [SFinite μ] (π : X → ℝ≥0∞) (q : X → X → ℝ≥0∞)
    (hπ : Measurable π) (hq : Measurable (Function.uncurry q)) (hq1 : ∀ x, ∫⁻ y, q x y ∂μ = 1) :
    IsMarkovKernel (mhKernelE μ π q) :=
  ⟨fun x => ⟨moveKernelE_univ μ (measurable_mhMoveE hπ hq) x
    ((lintegral_mono (mhMoveE_le π q x)).trans (hq1 x).le)⟩⟩

/-- **Integrated detailed balance of the absolutely continuous part** (Tonelli + off-diagonal
    symmetry): `∫_A π(x) ∫_B q α μ(dy) μ(dx) = ∫_B π(x) ∫_A q α μ(dy) μ(dx)`. -/
theorem mh_detailed_balance_ac (μ : Measure X) [SFinite μ] (π : X → ℝ≥0∞) (q : X → X → ℝ≥0∞)
    (hπ : Measurable π) (hq : Measurable (Function.uncurry q))
    (hπf : ∀ x, π x ≠ ∞) (hqf : ∀ x y, q x y ≠ ∞)
    {A B : Set X} (hA : MeasurableSet A) (hB : MeasurableSet B) :
    ∫⁻ x in A, π x * ∫⁻ y in B, q x y * mhAlphaE π q x y ∂μ ∂μ
      = ∫⁻ x in B, π x * ∫⁻ y in A, q x y * mhAlphaE π q x y ∂μ ∂μ :=
  ac_detailed_balance μ hπ (measurable_mhMoveE hπ hq) (mhMoveE_flux_symm hπf hqf) hA hB

/-- **Detailed balance of the Metropolis–Hastings kernel** (the goal): for all measurable `A, B`,
    `∫_A π(x) P(x,B) μ(dx) = ∫_B π(x) P(x,A) μ(dx)` — the rejection atom `r(x) δ_x` contributes
    `∫_{A∩B} π r dμ` to both sides.  No normalisation of `q` or `π` is needed here. -/
theorem mh_detailed_balance_kernel (μ : Measure X) [SFinite μ] (π : X → ℝ≥0∞) (q : X → X → ℝ≥0∞)
    (hπ : Measurable π) (hq : Measurable (Function.uncurry q))
    (hπf : ∀ x, π x ≠ ∞) (hqf : ∀ x y, q x y ≠ ∞)
    {A B : Set X} (hA : MeasurableSet A) (hB : MeasurableSet B) :
    ∫⁻ x in A, π x * mhKernelE μ π q x B ∂μ = ∫⁻ x in B, π x * mhKernelE μ π q x A ∂μ :=
  moveKernelE_detailed_balance μ hπ (measurable_mhMoveE hπ hq) (mhMoveE_flux_symm hπf hqf) hA hB

/-- **Invariance, explicit form**: `∫ π(x) P(x,A) μ(dx) = ∫_A π dμ` — one step of the chain started
    from `π · μ` is distributed as `π · μ`. -/
theorem mh_invariant_kernel (μ : Measure X) [SFinite μ] (π : X → ℝ≥0∞) (q : X → X → ℝ≥0∞)
    (hπ : Measurable π) (hq : Measurable (Function.uncurry q))
    (hπf : ∀ x, π x ≠ ∞) (hqf : ∀ x y, q x y ≠ ∞) (hq1 : ∀ x, ∫⁻ y, q x y ∂μ = 1)
    {A : Set X} (hA : MeasurableSet A) :
    ∫⁻ x, π x * mhKernelE μ π q x A ∂μ = ∫⁻ x in A, π x ∂μ := by
  have h := mh_detailed_balance_kernel μ π q hπ hq hπf hqf MeasurableSet.univ hA
  rw [Measure.restrict_univ] at h
  rw [h]
  have hM := mhKernelE_isMarkov μ π q hπ hq hq1
  simp [measure_univ]

/-- **Reversibility in Mathlib's vocabulary**: `Kernel.IsReversible` w.r.t. `π · μ`. -/
theorem mhKernelE_isReversible (μ : Measure X) [SFinite μ] (π : X → ℝ≥0∞) (q : X → X → ℝ≥0∞)
    (hπ : Measurable π) (hq : Measurable (Function.uncurry q))
    (hπf : ∀ x, π x ≠ ∞) (hqf : ∀ x y, q x y ≠ ∞) :
    (mhKernelE μ π q).IsReversible (targetE μ π) :=
  moveKernelE_isReversible' μ hπ (measurable_mhMoveE hπ hq) (mhMoveE_flux_symm hπf hqf)

/-- **Invariance in Mathlib's vocabulary**: `(π · μ) P = π · μ` (`Kernel.Invariant`). -/
theorem mhKernelE_invariant (μ : Measure X) [SFinite μ] (π : X → ℝ≥0∞) (q : X → X → ℝ≥0∞)
    (hπ : Measurable π) (hq : Measurable (Function.uncurry q))
    (hπf : ∀ x, π x ≠ ∞) (hqf : ∀ x y, q x y ≠ ∞) (hq1 : ∀ x, ∫⁻ y, q x y ∂μ = 1) :
    (mhKernelE μ π q).Invariant (targetE μ π) :=
  haveI := mhKernelE_isMarkov μ π q hπ hq hq1
  (mhKernelE_isReversible μ π q hπ hq hπf hqf).invariant

/-- **Every zero-denominator convention works.**  For any jointly measurable acceptance function
    `α` that is the MH ratio where `π(x) q(x,y) ≠ 0` (`IsMHAcc`), the kernel
    `∫_A q α dμ + r 1_A` satisfies detailed balance in set-integral form and is reversible w.r.t.
    `π · μ`.  Covers `mhAlphaE` (this file, the model's convention) and `mhAlphaD`
    (`mhAlphaD_isMHAcc`). -/
theorem mh_detailed_balance_any_convention (μ : Measure X) [SFinite μ] (π : X → ℝ≥0∞)
    (q α : X → X → ℝ≥0∞) (hπ : Measurable π) (hq : Measurable (Function.uncurry q))
    (hαm : Measurable (Function.uncurry α)) (hα : IsMHAcc π q α)
    (hπf : ∀ x, π x ≠ ∞) (hqf : ∀ x y, q x y ≠ ∞) :
    (∀ ⦃A B : Set X⦄, MeasurableSet A → MeasurableSet B →
      ∫⁻ x in A, π x * moveKernelE μ (fun x y => q x y * α x y) x B ∂μ
        = ∫⁻ x in B, π x * moveKernelE μ (fun x y => q x y * α x y) x A ∂μ)
    ∧ (moveKernelE μ (fun x y => q x y * α x y)).IsReversible (targetE μ π) := by
  have hf : Measurable (Function.uncurry (fun x y => q x y * α x y)) := hq.mul hαm
  have hs : ∀ x y, π x * (q x y * α x y) = π y * (q y x * α y x) := fun x y => by
    rw [← mul_assoc, ← mul_assoc]; exact isMHAcc_balance hα hπf hqf x y
  exact ⟨fun A B hA hB => moveKernelE_detailed_balance μ hπ hf hs hA hB,
    moveKernelE_isReversible' μ hπ hf hs⟩

end kernel

/-! ## corollary: symmetric proposals (random-walk Metropolis) -/

section symmetric
variable {X : Type*} [MeasurableSpace X]

/-- **Random-walk Metropolis** (`MH`, `CWMH`: symmetric proposal density, `q(x,y) = q(y,x)`, zeros
    allowed).  The MH kernel IS the kernel with acceptance probability `min(1, π(y)/π(x))` — the
    ratio of target values the code computes — it is a Markov kernel, satisfies detailed balance in
    set-integral form, and leaves `π · μ` invariant. -/
theorem rwmh_detailed_balance (μ : Measure X) [SFinite μ] (π : X → ℝ≥0∞) (q : X → X → ℝ≥0∞)
    (hπ : Measurable π) (hq : Measurable (Function.uncurry q))
    (hπf : ∀ x, π x ≠ ∞) (hqf : ∀ x y, q x y ≠ ∞) (hsymm : ∀ x y, q x y = q y x)
    (hq1 : ∀ x, ∫⁻ y, q x y ∂μ = 1) :
    mhKernelE μ π q = moveKernelE μ (fun x y => q x y * min 1 (π y / π x))
    ∧ IsMarkovKernel (mhKernelE μ π q)
    ∧ (∀ ⦃A B : Set X⦄, MeasurableSet A → MeasurableSet B →
        ∫⁻ x in A, π x * mhKernelE μ π q x B ∂μ = ∫⁻ x in B, π x * mhKernelE μ π q x A ∂μ)
    ∧ (mhKernelE μ π q).Invariant (targetE μ π) := by
  refine ⟨?_, mhKernelE_isMarkov μ π q hπ hq hq1,
    fun A B hA hB => mh_detailed_balance_kernel μ π q hπ hq hπf hqf hA hB,
    mhKernelE_invariant μ π q hπ hq hπf hqf hq1⟩
  unfold mhKernelE
  congr 1
  funext x y
  exact mhMoveE_of_symm (hsymm x y) (hqf x y)

/-- Gaussian random walk `N(x, 1)` on `ℝ` for a target with a zero region (`1_{x ≥ 0} e^{−x}`,
    unnormalised): all hypotheses hold. -/
example :
    (mhKernelE volume (fun x : ℝ => ENNReal.ofReal (if 0 ≤ x then Real.exp (-x) else 0))
      (fun x y => gaussianPDF x 1 y)).Invariant
    (targetE volume (fun x : ℝ => ENNReal.ofReal (if 0 ≤ x then Real.exp (-x) else 0))) :=
  (rwmh_detailed_balance volume _ _
    (Measurable.ite (measurableSet_le measurable_const measurable_id) (by fun_prop)
      measurable_const).ennreal_ofReal
    (measurable_gaussianPDFReal_uncurry 1).ennreal_ofReal
    (fun _ => ENNReal.ofReal_ne_top) (fun _ _ => ENNReal.ofReal_ne_top)
    (fun x y => by rw [gaussianPDFReal_symm])
    (fun x => lintegral_gaussianPDF_eq_one x one_ne_zero)).2.2.2

end symmetric

/-! ## corollary: pCN — reference measure = prior, ratio = likelihood ratio -/

section pcn
variable {X : Type*} [MeasurableSpace X]

/-- **pCN in density form.**  Reference measure = the prior `μ0` (any s-finite measure, e.g. a
    Gaussian on a function space — no Lebesgue density needed), `L` = likelihood, proposal with a
    density `k(x,y)` w.r.t. the PRIOR that is symmetric (⇔ the proposal is prior-reversible; for
    pCN `k` is the Mehler kernel).  Then the MH acceptance probability for the posterior `L · μ0`
    is the likelihood ratio `min(1, L(y)/L(x))` — what `PCN.step`/`pCN.single_update` compute
    (`pcnStep_accept_iff_alphaE`) — and the kernel is Markov, satisfies detailed balance, and
    leaves the posterior invariant. -/
theorem pcn_detailed_balance (μ0 : Measure X) [SFinite μ0] (L : X → ℝ≥0∞) (k : X → X → ℝ≥0∞)
    (hL : Measurable L) (hk : Measurable (Function.uncurry k))
    (hLf : ∀ x, L x ≠ ∞) (hkf : ∀ x y, k x y ≠ ∞) (hsymm : ∀ x y, k x y = k y x)
    (hk1 : ∀ x, ∫⁻ y, k x y ∂μ0 = 1) :
    mhKernelE μ0 L k = moveKernelE μ0 (fun x y => k x y * min 1 (L y / L x))
    ∧ IsMarkovKernel (mhKernelE μ0 L k)
    ∧ (∀ ⦃A B : Set X⦄, MeasurableSet A → MeasurableSet B →
        ∫⁻ x in A, L x * mhKernelE μ0 L k x B ∂μ0 = ∫⁻ x in B, L x * mhKernelE μ0 L k x A ∂μ0)
    ∧ (mhKernelE μ0 L k).Invariant (targetE μ0 L) :=
  rwmh_detailed_balance μ0 L k hL hk hLf hkf hsymm hk1

/-- **pCN on `ℝ`, prior `N(0,1)`, concrete.**  For `a² + v = 1`, `v ≠ 0` the pCN proposal
    `x* = a x + √v ξ ~ N(a x, v)` has the density `mehlerE a v x ·` w.r.t. the prior (first
    conjunct: that density times the prior IS `gaussianReal (a x) v`), the density is symmetric,
    and the Metropolis kernel with the likelihood-only ratio is Markov, satisfies detailed balance
    w.r.t. the prior-weighted likelihood, and leaves the posterior `L · N(0,1)` invariant — for
    every measurable finite likelihood `L` (zeros allowed). -/
theorem pcn_mehler_detailed_balance (a : ℝ) {v : ℝ≥0} (hv : v ≠ 0) (h : a ^ 2 + (v : ℝ) = 1)
    (L : ℝ → ℝ≥0∞) (hL : Measurable L) (hLf : ∀ x, L x ≠ ∞) :
    (∀ x, (gaussianReal 0 1).withDensity (mehlerE a v x) = gaussianReal (a * x) v)
    ∧ (∀ x y, mehlerE a v x y = mehlerE a v y x)
    ∧ mhKernelE (gaussianReal 0 1) L (mehlerE a v)
        = moveKernelE (gaussianReal 0 1) (fun x y => mehlerE a v x y * min 1 (L y / L x))
    ∧ IsMarkovKernel (mhKernelE (gaussianReal 0 1) L (mehlerE a v))
    ∧ (∀ ⦃A B : Set ℝ⦄, MeasurableSet A → MeasurableSet B →
        ∫⁻ x in A, L x * mhKernelE (gaussianReal 0 1) L (mehlerE a v) x B ∂(gaussianReal 0 1)
          = ∫⁻ x in B, L x * mhKernelE (gaussianReal 0 1) L (mehlerE a v) x A ∂(gaussianReal 0 1))
    ∧ (mhKernelE (gaussianReal 0 1) L (mehlerE a v)).Invariant (targetE (gaussianReal 0 1) L) :=
  ⟨mehler_proposal_law a hv, mehlerE_symm a hv h,
    pcn_detailed_balance (gaussianReal 0 1) L (mehlerE a v) hL (measurable_mehlerE a v) hLf
      (mehlerE_ne_top a v) (mehlerE_symm a hv h) (lintegral_mehlerE a hv)⟩

/-- `a = 3/5`, `s = 4/5` (`v = 16/25`), indicator likelihood of `[0, ∞)` -/
example : (mhKernelE (gaussianReal 0 1) (Set.indicator (Set.Ici (0 : ℝ)) 1)
      (mehlerE (3/5) (16/25))).Invariant
    (targetE (gaussianReal 0 1) (Set.indicator (Set.Ici (0 : ℝ)) 1)) :=
  (pcn_mehler_detailed_balance (3/5) (v := 16/25) (by norm_num) (by norm_num)
    (Set.indicator (Set.Ici (0 : ℝ)) 1) (measurable_one.indicator measurableSet_Ici)
    (fun x => by by_cases hx : x ∈ Set.Ici (0 : ℝ) <;> simp [hx])).2.2.2.2.2

end pcn

/-! ## the kernel is the law of the algorithm: propose, draw `u ~ U(0,1]`, move iff `u ≤ α` -/

section law
open XVal

/-- **`P(u ≤ a) = a`** for `u` uniform on `(0,1]` and `a ≤ 1` (`ℝ≥0∞` form of `accept_measure`). -/
theorem unif01_accept_prob {a : ℝ≥0∞} (ha : a ≤ 1) :
    unif01 {u : ℝ | ENNReal.ofReal u ≤ a} = a ∧ unif01 {u : ℝ | ¬ ENNReal.ofReal u ≤ a} = 1 - a :=
  ⟨unif01_le ha, unif01_not_le ha⟩

example : unif01 {u : ℝ | ENNReal.ofReal u ≤ 1 / 2} = 1 / 2 :=
  (unif01_accept_prob (by simp)).1

/-- **The executable `mhStep` is the generic accept/reject step.**  Under the hypotheses of
    `mhStep_accept_iff_alphaE`, the next point computed by the model's `mhStep` (the definition the
    driver runs) is `mhStepG α x x* u` with `u = exp ℓ`, `x* = mhPropose st ξ` and
    `α = mhAlphaE (exp ∘ logd) 1`: `x*` if `u ≤ α(x, x*)`, else `x`. -/
theorem mhStep_eq_mhStepG (k : Kernel) (hn : k.guardNan = true) (hi : k.guardInf = true)
    (logd : Vec → XVal) (st : St) (xi : Vec) (l : Rat) (hc : st.logd = logd st.x)
    (h1 : ∀ p, logd p ≠ nan) (h2 : ∀ p, logd p ≠ posinf) :
    (mhStep k logd st xi (fin l)).1.x
      = mhStepG (mhAlphaE (fun p => densE (logd p)) (fun _ _ => 1)) st.x (mhPropose st xi)
          (Real.exp ((l : ℚ) : ℝ)) := by
  have hiff := mhStep_accept_iff_alphaE k hn hi logd st xi l hc h1 h2
  unfold mhStepG
  by_cases hacc : (mhStep k logd st xi (fin l)).2 = true
  · rw [if_pos (hiff.1 hacc)]
    unfold mhStep metropolis at hacc ⊢
    simp only at hacc ⊢
    split at hacc
    · next h => rw [if_pos h]
    · exact absurd hacc (by simp)
  · rw [if_neg (fun h => hacc (hiff.2 h))]
    unfold mhStep metropolis at hacc ⊢
    simp only at hacc ⊢
    split at hacc
    · exact absurd rfl hacc
    · next h => rw [if_neg h]

/-- the same for `PCN.step` / `pCN.single_update` (likelihood in place of the target) -/
theorem pcnStep_eq_mhStepG (k : Kernel) (hn : k.guardNan = true) (hi : k.guardInf = true)
    (loglik : Vec → XVal) (c : Rat) (st : St) (xi : Vec) (l : Rat) (hc : st.logd = loglik st.x)
    (h1 : ∀ p, loglik p ≠ nan) (h2 : ∀ p, loglik p ≠ posinf) :
    (pcnStep k loglik c st xi (fin l)).1.x
      = mhStepG (mhAlphaE (fun p => densE (loglik p)) (fun _ _ => 1)) st.x (pcnPropose st c xi)
          (Real.exp ((l : ℚ) : ℝ)) := by
  have hiff := pcnStep_accept_iff_alphaE k hn hi loglik c st xi l hc h1 h2
  unfold mhStepG
  by_cases hacc : (pcnStep k loglik c st xi (fin l)).2 = true
  · rw [if_pos (hiff.1 hacc)]
    unfold pcnStep metropolis at hacc ⊢
    simp only at hacc ⊢
    split at hacc
    · next h => rw [if_pos h]
    · exact absurd hacc (by simp)
  · rw [if_neg (fun h => hacc (hiff.2 h))]
    unfold pcnStep metropolis at hacc ⊢
    simp only at hacc ⊢
    split at hacc
    · exact absurd rfl hacc
    · next h => rw [if_neg h]

variable {X : Type*} [MeasurableSpace X]

/-- **The MH kernel is the law of one step of the algorithm.**  Draw the proposal `y` from
    `q(x,·) μ` and, independently, `u ~ U(0,1]`; go to `y` if `u ≤ α(x,y)`, stay at `x` otherwise
    (`mhStepG`, the generic form of the model's step: `mhStep_eq_mhStepG`).  The distribution of
    the next state is `mhKernelE μ π q x` — so the kernel whose detailed balance is proved above
    is the transition law of the accept/reject procedure, not merely a formula. -/
theorem mhKernelE_eq_law_of_step (μ : Measure X) [SFinite μ] (π : X → ℝ≥0∞) (q : X → X → ℝ≥0∞)
    (hπ : Measurable π) (hq : Measurable (Function.uncurry q)) (hqf : ∀ x y, q x y ≠ ∞)
    (x : X) (hq1 : ∫⁻ y, q x y ∂μ = 1) :
    ((μ.withDensity (q x)).prod unif01).map (fun p : X × ℝ => mhStepG (mhAlphaE π q) x p.1 p.2)
      = mhKernelE μ π q x :=
  law_mhStepG μ hq (measurable_mhAlphaE hπ hq) (mhAlphaE_le_one π q) hqf x hq1

/-- **From the raw random inputs.**  If the proposal is produced as `y = g ξ` from a draw `ξ ~ γ`
    (`g = x + s·`, `g = a x + s·`, …) and its law has density `q(x,·)` w.r.t. `μ`, the law of
    `(ξ, u) ↦ step x (g ξ) u` under `γ ⊗ U(0,1]` is the MH kernel at `x`. -/
theorem mhKernelE_eq_law_of_inputs {Ξ : Type*} [MeasurableSpace Ξ] (γ : Measure Ξ) [SFinite γ]
    (g : Ξ → X) (hg : Measurable g) (μ : Measure X) [SFinite μ] (π : X → ℝ≥0∞)
    (q : X → X → ℝ≥0∞) (hπ : Measurable π) (hq : Measurable (Function.uncurry q))
    (hqf : ∀ x y, q x y ≠ ∞) (x : X) (hq1 : ∫⁻ y, q x y ∂μ = 1)
    (hlaw : γ.map g = μ.withDensity (q x)) :
    (γ.prod unif01).map (fun p : Ξ × ℝ => mhStepG (mhAlphaE π q) x (g p.1) p.2)
      = mhKernelE μ π q x := by
  rw [← law_step_pushforward γ hg (measurable_mhAlphaE hπ hq) x, hlaw]
  exact mhKernelE_eq_law_of_step μ π q hπ hq hqf x hq1

/-- **Random-walk Metropolis on `ℝ` as the law of its inputs** (`MH.step`: `x* = x + s ξ`,
    `ξ ~ N(0,1)` = `randn`, `u ~ U(0,1]`, accept iff `u ≤ min(1, π(x*)/π(x))` up to the cancelling
    symmetric density): the push-forward of `N(0,1) ⊗ U(0,1]` through the step function is the MH
    kernel with proposal density `N(x, s²)` w.r.t. Lebesgue measure. -/
theorem rwmh_1d_law_of_inputs (π : ℝ → ℝ≥0∞) (hπ : Measurable π) (s : ℝ) (hs : s ≠ 0) (x : ℝ) :
    ((gaussianReal 0 1).prod unif01).map
        (fun p : ℝ × ℝ => mhStepG (mhAlphaE π (fun x y => gaussianPDF x (NNReal.mk (s ^ 2) (sq_nonneg s)) y))
          x (x + s * p.1) p.2)
      = mhKernelE volume π (fun x y => gaussianPDF x (NNReal.mk (s ^ 2) (sq_nonneg s)) y) x := by
  have hv : NNReal.mk (s ^ 2) (sq_nonneg s) ≠ 0 := by
    intro h; exact hs (by simpa using congrArg NNReal.toReal h)
  have hqm : Measurable (Function.uncurry
      (fun x y => gaussianPDF x (NNReal.mk (s ^ 2) (sq_nonneg s)) y)) :=
    (measurable_gaussianPDFReal_uncurry _).ennreal_ofReal
  refine mhKernelE_eq_law_of_inputs (gaussianReal 0 1) (fun ξ => x + s * ξ) (by fun_prop) volume π
    (fun x y => gaussianPDF x (NNReal.mk (s ^ 2) (sq_nonneg s)) y)
    hπ hqm (fun _ _ => ENNReal.ofReal_ne_top) x
    (lintegral_gaussianPDF_eq_one x hv) ?_
  rw [gaussian_affine_law, gaussianReal_of_var_ne_zero _ hv]

example : ((gaussianReal 0 1).prod unif01).map
      (fun p : ℝ × ℝ => mhStepG (mhAlphaE (fun x : ℝ => ENNReal.ofReal (Real.exp (-x ^ 4)))
        (fun x y => gaussianPDF x (NNReal.mk ((1/2 : ℝ) ^ 2) (sq_nonneg _)) y)) 3 (3 + 1/2 * p.1) p.2)
    = mhKernelE volume (fun x : ℝ => ENNReal.ofReal (Real.exp (-x ^ 4)))
        (fun x y => gaussianPDF x (NNReal.mk ((1/2 : ℝ) ^ 2) (sq_nonneg _)) y) 3 :=
  rwmh_1d_law_of_inputs _ (by fun_prop) (1/2) (by norm_num) 3

/-- **Random-walk Metropolis on `ℝ^ι`, every dimension, as the law of its inputs** (`MH.step`:
    `x* = x + s ξ`, `ξ = randn(n) ~ N(0, I)`, `u ~ U(0,1]`): the push-forward of `N(0,I) ⊗ U(0,1]`
    through the accept/reject step is the MH kernel with proposal density `rwDens s²`
    (= `N(x, s² I)`) w.r.t. Lebesgue measure — the kernel shown reversible in `rwmh_detailed_balance`
    (and, in real-valued form, in `rwmh_gaussian_invariant`). -/
theorem rwmh_law_of_inputs {ι : Type*} [Fintype ι] (π : (ι → ℝ) → ℝ≥0∞) (hπ : Measurable π) (s : ℝ)
    (hs : s ≠ 0) (x : ι → ℝ) :
    ((Measure.pi (fun _ : ι => gaussianReal 0 1)).prod unif01).map
        (fun p : (ι → ℝ) × ℝ => mhStepG
          (mhAlphaE π (fun x y => ENNReal.ofReal (rwDens (NNReal.mk (s ^ 2) (sq_nonneg s)) x y)))
          x (fun i => x i + s * p.1 i) p.2)
      = mhKernelE volume π
          (fun x y => ENNReal.ofReal (rwDens (NNReal.mk (s ^ 2) (sq_nonneg s)) x y)) x := by
  have hv : NNReal.mk (s ^ 2) (sq_nonneg s) ≠ 0 := by
    intro h; exact hs (by simpa using congrArg NNReal.toReal h)
  have hqm : Measurable (Function.uncurry
      (fun x y : ι → ℝ => ENNReal.ofReal (rwDens (NNReal.mk (s ^ 2) (sq_nonneg s)) x y))) :=
    (measurable_rwDens _).ennreal_ofReal
  exact mhKernelE_eq_law_of_inputs (Measure.pi (fun _ : ι => gaussianReal 0 1))
    (fun ξ i => x i + s * ξ i) (measurable_pi_lambda _ (fun i => by fun_prop)) volume π
    (fun x y => ENNReal.ofReal (rwDens (NNReal.mk (s ^ 2) (sq_nonneg s)) x y))
    hπ hqm (fun _ _ => ENNReal.ofReal_ne_top) x (lintegral_rwDens hv x) (rw_proposal_law s hs x)

/-- quartic target on `ℝ³`, scale `1/4`, started at `(1, 0, −1)` -/
example : ((Measure.pi (fun _ : Fin 3 => gaussianReal 0 1)).prod unif01).map
      (fun p : (Fin 3 → ℝ) × ℝ => mhStepG
        (mhAlphaE (fun x : Fin 3 → ℝ => ENNReal.ofReal (Real.exp (-∑ i, (x i) ^ 4)))
          (fun x y => ENNReal.ofReal (rwDens (NNReal.mk ((1/4 : ℝ) ^ 2) (sq_nonneg _)) x y)))
        ![1, 0, -1] (fun i => ![1, 0, -1] i + 1/4 * p.1 i) p.2)
    = mhKernelE volume (fun x : Fin 3 → ℝ => ENNReal.ofReal (Real.exp (-∑ i, (x i) ^ 4)))
        (fun x y => ENNReal.ofReal (rwDens (NNReal.mk ((1/4 : ℝ) ^ 2) (sq_nonneg _)) x y)) ![1, 0, -1] :=
  rwmh_law_of_inputs _ (by fun_prop) (1/4) (by norm_num) _

/-- **MALA-type proposals on `ℝ^ι` as the law of their inputs** (`MALA.step`:
    `x* = m(x) + s ξ` with `m(x) = x + (ε/2)∇logπ(x)`, `s = √ε`, `ξ = randn(n)`; any measurable
    drift `m`): the push-forward of `N(0,I) ⊗ U(0,1]` through the accept/reject step with the full
    (non-symmetric) MH ratio is the MH kernel with proposal density `driftDens s² m`
    (= `N(m(x), s² I)`), the kernel of `mh_detailed_balance_kernel` / `mala_invariant_density`. -/
theorem mala_law_of_inputs {ι : Type*} [Fintype ι] (π : (ι → ℝ) → ℝ≥0∞) (hπ : Measurable π)
    (m : (ι → ℝ) → (ι → ℝ)) (hm : Measurable m) (s : ℝ) (hs : s ≠ 0) (x : ι → ℝ) :
    ((Measure.pi (fun _ : ι => gaussianReal 0 1)).prod unif01).map
        (fun p : (ι → ℝ) × ℝ => mhStepG
          (mhAlphaE π (fun x y => ENNReal.ofReal (driftDens (NNReal.mk (s ^ 2) (sq_nonneg s)) m x y)))
          x (fun i => m x i + s * p.1 i) p.2)
      = mhKernelE volume π
          (fun x y => ENNReal.ofReal (driftDens (NNReal.mk (s ^ 2) (sq_nonneg s)) m x y)) x := by
  have hv : NNReal.mk (s ^ 2) (sq_nonneg s) ≠ 0 := by
    intro h; exact hs (by simpa using congrArg NNReal.toReal h)
  have hqm : Measurable (Function.uncurry
      (fun x y : ι → ℝ => ENNReal.ofReal (driftDens (NNReal.mk (s ^ 2) (sq_nonneg s)) m x y))) :=
    (measurable_driftDens _ hm).ennreal_ofReal
  exact mhKernelE_eq_law_of_inputs (Measure.pi (fun _ : ι => gaussianReal 0 1))
    (fun ξ i => m x i + s * ξ i) (measurable_pi_lambda _ (fun i => by fun_prop)) volume π
    (fun x y => ENNReal.ofReal (driftDens (NNReal.mk (s ^ 2) (sq_nonneg s)) m x y))
    hπ hqm (fun _ _ => ENNReal.ofReal_ne_top) x (lintegral_driftDens hv m x)
    (rw_proposal_law s hs (m x))

/-- quartic target on `ℝ²` with its exact gradient `−4x³`, `ε = 1/4` (`s = 1/2`) -/
example := mala_law_of_inputs (ι := Fin 2)
  (fun x => ENNReal.ofReal (Real.exp (-∑ i, (x i) ^ 4))) (by fun_prop)
  (fun x i => x i + (1/4 : ℝ) / 2 * (-4 * (x i) ^ 3)) (measurable_pi_lambda _ (fun i => by fun_prop))
  (1/2) (by norm_num) ![1, -1]

/-- **One iteration of the CWMH loop as the law of its inputs** (coordinate `j`:
    `x*[j] = x_j + s ξ`, `ξ ~ N(0,1)`, all other coordinates kept — `cwmh_component` —, `u ~ U(0,1]`,
    move iff `u ≤ α`): the push-forward of `N(0,1) ⊗ U(0,1]` through the step is the coordinate
    kernel `cwKernel j π (rwCoordDens j s²)` of `cwmh_reversible_density` /
    `cwmh_gaussian_sweep_invariant` (`Props/C02_density.lean`). -/
theorem cwmh_coordinate_law_of_inputs {n : ℕ} (j : Fin (n + 1)) (π : (Fin (n + 1) → ℝ) → ℝ)
    (hπ : Measurable π) (s : ℝ) (hs : s ≠ 0) (x : Fin (n + 1) → ℝ) :
    ((gaussianReal 0 1).prod unif01).map (fun p : ℝ × ℝ => mhStepG
        (fun x y => ENNReal.ofReal
          (mhAlphaD π (rwCoordDens j (NNReal.mk (s ^ 2) (sq_nonneg s))) x y))
        x (Function.update x j (x j + s * p.1)) p.2)
      = cwKernel j π (rwCoordDens j (NNReal.mk (s ^ 2) (sq_nonneg s))) x := by
  have hv : NNReal.mk (s ^ 2) (sq_nonneg s) ≠ 0 := by
    intro h; exact hs (by simpa using congrArg NNReal.toReal h)
  have hq := measurable_rwCoordDens j (NNReal.mk (s ^ 2) (sq_nonneg s))
  have hα := measurable_mhAlphaD hπ hq
  have hαE : Measurable (Function.uncurry (fun x y => ENNReal.ofReal
      (mhAlphaD π (rwCoordDens j (NNReal.mk (s ^ 2) (sq_nonneg s))) x y))) := hα.ennreal_ofReal
  have hq1 : ∫⁻ y, ENNReal.ofReal (rwCoordDens j (NNReal.mk (s ^ 2) (sq_nonneg s)) x y)
      ∂coordRef j x = 1 := by
    rw [lintegral_coordRef j x ((hq.of_uncurry_left).ennreal_ofReal)]
    exact lintegral_rwCoordDens j hv x
  have hg : Measurable (fun ξ : ℝ => Function.update x j (x j + s * ξ)) :=
    (measurable_update_coord j x).comp (by fun_prop : Measurable (fun ξ : ℝ => x j + s * ξ))
  unfold cwKernel mhKernelR
  rw [← law_step_accKernelR (coordRef j) hq hα (rwCoordDens_nonneg j _) (mhAlphaD_le_one π _) x hq1,
    coord_proposal_law_inputs j s hs x, law_step_pushforward (gaussianReal 0 1) hg hαE x]

example := cwmh_coordinate_law_of_inputs (n := 2) 1
  (fun x => Real.exp (-∑ i, (x i) ^ 4)) (by fun_prop) (1/4) (by norm_num) ![1, 0, -1]

/-- **pCN on `ℝ` as the law of its inputs** (`PCN.step`: `x* = a x + s ξ`, `ξ ~ N(0,1)` drawn from
    the prior, `a² + s² = 1`, accept iff `u ≤ min(1, L(x*)/L(x))`): the push-forward of
    `N(0,1) ⊗ U(0,1]` through the step function is the MH kernel with reference measure = prior and
    proposal density = Mehler kernel — the kernel shown reversible for the posterior in
    `pcn_mehler_detailed_balance`. -/
theorem pcn_1d_law_of_inputs (L : ℝ → ℝ≥0∞) (hL : Measurable L) (a s : ℝ) (hs : s ≠ 0) (x : ℝ) :
    ((gaussianReal 0 1).prod unif01).map
        (fun p : ℝ × ℝ => mhStepG (mhAlphaE L (mehlerE a (NNReal.mk (s ^ 2) (sq_nonneg s))))
          x (a * x + s * p.1) p.2)
      = mhKernelE (gaussianReal 0 1) L (mehlerE a (NNReal.mk (s ^ 2) (sq_nonneg s))) x := by
  have hv : NNReal.mk (s ^ 2) (sq_nonneg s) ≠ 0 := by
    intro h; exact hs (by simpa using congrArg NNReal.toReal h)
  refine mhKernelE_eq_law_of_inputs (gaussianReal 0 1) (fun ξ => a * x + s * ξ) (by fun_prop)
    (gaussianReal 0 1) L _ hL (measurable_mehlerE a _) (mehlerE_ne_top a _) x
    (lintegral_mehlerE a hv x) ?_
  rw [gaussian_affine_law, mehler_proposal_law a hv x]

example : ((gaussianReal 0 1).prod unif01).map
      (fun p : ℝ × ℝ => mhStepG (mhAlphaE (Set.indicator (Set.Ici (0 : ℝ)) 1)
        (mehlerE (3/5) (NNReal.mk ((4/5 : ℝ) ^ 2) (sq_nonneg _)))) 2 (3/5 * 2 + 4/5 * p.1) p.2)
    = mhKernelE (gaussianReal 0 1) (Set.indicator (Set.Ici (0 : ℝ)) 1)
        (mehlerE (3/5) (NNReal.mk ((4/5 : ℝ) ^ 2) (sq_nonneg _))) 2 :=
  pcn_1d_law_of_inputs _ (measurable_one.indicator measurableSet_Ici) (3/5) (4/5) (by norm_num) 2

end law

/-! ## pCN in every dimension as the law of its inputs (reference KERNEL instead of a density) -/

section pcnlaw
open CuqiVerif.C05
variable {E : Type*} [NormedAddCommGroup E] [NormedSpace ℝ E] [MeasurableSpace E] [BorelSpace E]
  [SecondCountableTopology E]

/-- **pCN on a separable normed space as the law of its inputs.**  Draw `ξ ~ μ` (the prior; any
    probability measure for this statement), `u ~ U(0,1]`, propose `x* = a•x + s•ξ`, accept iff
    `u ≤ min(1, L(x*)/L(x))` (`mhAlphaD L 1`): the law of the next state is exactly the kernel
    `mhKernelR (pcnKernel μ a s) L 1` that `pcn_invariant_banach` (`Props/C02_pcn.lean`) shows
    Markov, reversible and invariant for the posterior `L • μ` when `μ` is a centred Gaussian and
    `a² + s² = 1`.  No density of the proposal is needed, so function-space priors are covered. -/
theorem pcn_law_of_inputs_banach (μ : Measure E) [IsProbabilityMeasure μ] (a s : ℝ) (L : E → ℝ)
    (hL : Measurable L) (x : E) :
    (μ.prod unif01).map (fun p : E × ℝ =>
        mhStepG (fun x y => ENNReal.ofReal (mhAlphaD L (fun _ _ => 1) x y)) x (a • x + s • p.1) p.2)
      = mhKernelR (pcnKernel μ a s) L (fun _ _ => 1) x := by
  have hα : Measurable (Function.uncurry (mhAlphaD L (fun _ _ => (1 : ℝ)))) :=
    measurable_mhAlphaD hL measurable_const
  have hαE : Measurable (Function.uncurry
      (fun x y => ENNReal.ofReal (mhAlphaD L (fun _ _ => (1 : ℝ)) x y))) := hα.ennreal_ofReal
  have hg : Measurable (fun ξ : E => a • x + s • ξ) := by fun_prop
  unfold mhKernelR
  rw [← law_step_accKernelR (pcnKernel μ a s) measurable_const hα (fun _ _ => zero_le_one)
    (mhAlphaD_le_one L _) x (by simp)]
  simp only [ENNReal.ofReal_one]
  have h1 : (fun _ : E => (1 : ℝ≥0∞)) = 1 := rfl
  rw [h1, withDensity_one, pcnKernel_apply, law_step_pushforward μ hg hαE x]

example := pcn_law_of_inputs_banach (gaussianReal 0 1) (3/5) (4/5)
  (fun x => Real.exp (-(x - 1) ^ 2 / 2)) (by fun_prop) 2

/-- **`PCN.step` on `ℝ^ι`, any covariance, from `randn` and `rand`.**  The prior draw is
    `B ξ'` with `ξ' = randn(n) ~ N(0, I)` (`gaussDrawLaw 0 B`, C05), the proposal
    `x* = a x + s B ξ'`; the push-forward of `N(0,I) ⊗ U(0,1]` through the accept/reject step is the
    kernel `pcn_invariant` proves reversible for the posterior `L • N(0, B Bᵀ)` (`B` may be
    singular). -/
theorem pcn_law_of_inputs {ι : Type*} [Fintype ι] [DecidableEq ι] (B : Matrix ι ι ℝ) (a s : ℝ)
    (L : (ι → ℝ) → ℝ) (hL : Measurable L) (x : ι → ℝ) :
    ((stdNormalVec ι).prod unif01).map (fun p : (ι → ℝ) × ℝ =>
        mhStepG (fun x y => ENNReal.ofReal (mhAlphaD L (fun _ _ => 1) x y)) x
          (a • x + s • (0 + B.mulVec p.1)) p.2)
      = mhKernelR (pcnKernel (gaussDrawLaw 0 B) a s) L (fun _ _ => 1) x := by
  have hα : Measurable (Function.uncurry
      (fun x y => ENNReal.ofReal (mhAlphaD L (fun _ _ => (1 : ℝ)) x y))) :=
    (measurable_mhAlphaD hL measurable_const).ennreal_ofReal
  have hg : Measurable (fun ξ : ι → ℝ => a • x + s • ξ) := by fun_prop
  rw [← pcn_law_of_inputs_banach (gaussDrawLaw 0 B) a s L hL x]
  unfold gaussDrawLaw
  have h : ((stdNormalVec ι).map (fun ξ => 0 + B.mulVec ξ)).prod unif01
      = ((stdNormalVec ι).prod unif01).map (Prod.map (fun ξ => 0 + B.mulVec ξ) id) := by
    conv_lhs => rw [← Measure.map_id (μ := unif01)]
    exact Measure.map_prod_map _ unif01 (measurable_affine 0 B) measurable_id
  have hm : Measurable (fun p : (ι → ℝ) × ℝ =>
      mhStepG (fun x y => ENNReal.ofReal (mhAlphaD L (fun _ _ => 1) x y)) x (a • x + s • p.1) p.2) :=
    (measurable_mhStepG hα x).comp ((hg.comp measurable_fst).prodMk measurable_snd)
  rw [h, Measure.map_map hm ((measurable_affine 0 B).prodMap measurable_id)]
  rfl

example := pcn_law_of_inputs (!![1, 0; -1, 1] : Matrix (Fin 2) (Fin 2) ℝ) (3/5) (4/5)
  (fun x => Real.exp (-((x 0 - 1) ^ 2 + (x 1 + 2) ^ 2) / 2)) (by fun_prop) ![1, 2]

end pcnlaw

/-! ## chains: consecutive steps compose -/

section chain
variable {X : Type*} [MeasurableSpace X]

/-- **Two steps in a row.**  If one step from `x` driven by inputs `ω₁ ~ P₁` has law `κ₁ x`, and one
    step from any `y` driven by independent inputs `ω₂ ~ P₂` has law `κ₂ y`, then running the two
    steps one after the other on `(ω₁, ω₂) ~ P₁ ⊗ P₂` has law `(κ₂ ∘ₖ κ₁) x` — iterating, the law of
    the `n`-th state of the chain the sampler stores is the `n`-fold kernel composition, and (by
    `Kernel.Invariant.comp`) stays the target when started from the target, also when the kernel
    changes between steps (tuned scale, next coordinate of a sweep). -/
theorem law_of_two_steps {Ω₁ Ω₂ : Type*} [MeasurableSpace Ω₁] [MeasurableSpace Ω₂]
    (P₁ : Measure Ω₁) (P₂ : Measure Ω₂) [SFinite P₂]
    (F₁ : X → Ω₁ → X) (F₂ : X → Ω₂ → X) (x : X) (hF₁ : Measurable (F₁ x))
    (hF₂ : Measurable (Function.uncurry F₂))
    (κ₁ κ₂ : ProbabilityTheory.Kernel X X) (h₁ : P₁.map (F₁ x) = κ₁ x)
    (h₂ : ∀ y, P₂.map (F₂ y) = κ₂ y) :
    (P₁.prod P₂).map (fun ω : Ω₁ × Ω₂ => F₂ (F₁ x ω.1) ω.2) = (κ₂ ∘ₖ κ₁) x :=
  law_two_steps P₁ P₂ x hF₁ hF₂ h₁ h₂

/-- **Two random-walk Metropolis steps on `ℝ^ι` with scales `s₁`, `s₂`** (e.g. before / after a
    tuning update of `scale`), from their raw inputs `(ξ₁, u₁, ξ₂, u₂)`.  `rwStepG π s y (ξ, u)` is
    the step `y ↦ (y + sξ if u ≤ α else y)` and `rwQ s` the density of `N(x, s² I)`
    (`rwStepG_eq`, by `rfl`).  The law of the state after both steps is the composition of the two
    MH kernels, and that composition leaves `π · dx` invariant. -/
theorem rwmh_two_steps_law_of_inputs {ι : Type*} [Fintype ι] (π : (ι → ℝ) → ℝ≥0∞)
    (hπ : Measurable π) (hπf : ∀ x, π x ≠ ∞) (s₁ s₂ : ℝ) (hs₁ : s₁ ≠ 0) (hs₂ : s₂ ≠ 0)
    (x : ι → ℝ) :
    (((Measure.pi (fun _ : ι => gaussianReal 0 1)).prod unif01).prod
        ((Measure.pi (fun _ : ι => gaussianReal 0 1)).prod unif01)).map
      (fun ω : ((ι → ℝ) × ℝ) × ((ι → ℝ) × ℝ) => rwStepG π s₂ (rwStepG π s₁ x ω.1) ω.2)
      = ((mhKernelE volume π (rwQ s₂)) ∘ₖ (mhKernelE volume π (rwQ s₁))) x
    ∧ ((mhKernelE volume π (rwQ s₂)) ∘ₖ (mhKernelE volume π (rwQ s₁))).Invariant
        (targetE volume π) := by
  have hv : ∀ s : ℝ, s ≠ 0 → NNReal.mk (s ^ 2) (sq_nonneg s) ≠ 0 := fun s hs h =>
    hs (by simpa using congrArg NNReal.toReal h)
  have hinv : ∀ s : ℝ, s ≠ 0 → (mhKernelE volume π (rwQ s)).Invariant (targetE volume π) :=
    fun s hs => mhKernelE_invariant volume π _ hπ (measurable_rwQ s) hπf
      (fun _ _ => ENNReal.ofReal_ne_top) (fun x => lintegral_rwDens (hv s hs) x)
  refine ⟨?_, (hinv s₂ hs₂).comp (hinv s₁ hs₁)⟩
  exact law_two_steps _ _ x (measurable_rwStepG hπ s₁).of_uncurry_left (measurable_rwStepG hπ s₂)
    (rwmh_law_of_inputs π hπ s₁ hs₁ x) (fun y => rwmh_law_of_inputs π hπ s₂ hs₂ y)

/-- what `rwStepG` / `rwQ` abbreviate -/
theorem rwStepG_eq {ι : Type*} [Fintype ι] (π : (ι → ℝ) → ℝ≥0∞) (s : ℝ) (y ξ : ι → ℝ) (u : ℝ) :
    rwStepG π s y (ξ, u)
      = (if ENNReal.ofReal u ≤ mhAlphaE π (rwQ s) y (fun i => y i + s * ξ i)
          then (fun i => y i + s * ξ i) else y)
    ∧ ∀ x y : ι → ℝ, rwQ s x y = ENNReal.ofReal (∏ i, gaussianPDFReal (x i) (NNReal.mk (s ^ 2) (sq_nonneg s)) (y i)) :=
  ⟨rfl, fun _ _ => rfl⟩

example := rwmh_two_steps_law_of_inputs (ι := Fin 2)
  (fun x => ENNReal.ofReal (Real.exp (-∑ i, (x i) ^ 4))) (by fun_prop)
  (fun _ => ENNReal.ofReal_ne_top) (1/4) 2 (by norm_num) (by norm_num) ![1, -1]

example : rwStepG (fun _ : Fin 1 → ℝ => 1) 2 ![0] (![1], 1/2) = ![2] := by
  rw [(rwStepG_eq _ 2 ![0] ![1] (1/2)).1, if_pos]
  · ext i; fin_cases i; simp
  · unfold mhAlphaE rwQ
    have hpos : ∀ a b : Fin 1 → ℝ, ENNReal.ofReal (rwDens (NNReal.mk ((2:ℝ) ^ 2) (sq_nonneg 2)) a b) ≠ 0 :=
      fun a b => by
        rw [ne_eq, ENNReal.ofReal_eq_zero, not_le]
        exact rwDens_pos (by intro h; simpa using congrArg NNReal.toReal h) a b
    rw [rwDens_symm]
    simp only [one_mul]
    rw [ENNReal.div_self (hpos _ _) ENNReal.ofReal_ne_top, min_self]
    exact ENNReal.ofReal_le_one.2 (by norm_num)

end chain

/-! ## the model's convention with a reference kernel: pCN in every dimension -/

section modelconv
variable {X : Type*} [MeasurableSpace X]

/-- **Reversibility does not see zero-density states.**  Two kernels that agree at almost every
    state of the target (e.g. two zero-denominator conventions, which differ only where the target
    density vanishes) are reversible together. -/
theorem isReversible_of_ae_eq {κ κ' : ProbabilityTheory.Kernel X X} {ν : Measure X}
    (h : ∀ᵐ x ∂ν, κ x = κ' x) (hκ : κ.IsReversible ν) : κ'.IsReversible ν :=
  isReversible_congr_ae h hκ

example (κ : ProbabilityTheory.Kernel ℝ ℝ) (hκ : κ.IsReversible (gaussianReal 0 1)) :
    κ.IsReversible (gaussianReal 0 1) := isReversible_of_ae_eq (ae_of_all _ (fun _ => rfl)) hκ

/-- **Likelihood-ratio Metropolis on a prior-reversible proposal, with the model's convention.**
    `Q` a Markov proposal kernel reversible w.r.t. a finite prior `μ0`, `L ≥ 0` measurable; the
    acceptance probability is `likAlphaE L x y = min(1, L(y)/L(x))` with the `ℝ≥0∞` division — the
    test the executable `pcnStep` performs (`pcnStep_accept_iff_alphaE`; a finite proposal from an
    `L = 0` state is accepted).  The kernel `∫_A α(x,y) Q(x,dy) + r(x) 1_A(x)` is Markov,
    reversible and invariant for the posterior `L • μ0`, coincides with `mhKernelR Q L 1`
    (`Props/C02_density.lean`, real division) wherever `L(x) > 0`, and is the law of one
    accept/reject step with proposal `y ~ Q(x,·)`, `u ~ U(0,1]`. -/
theorem mh_model_convention_of_reversible_proposal (μ0 : Measure X) [IsFiniteMeasure μ0]
    (Q : ProbabilityTheory.Kernel X X) [IsMarkovKernel Q] (hQ : Q.IsReversible μ0)
    (L : X → ℝ) (hL : Measurable L) (hL0 : ∀ x, 0 ≤ L x) :
    IsMarkovKernel (moveKernelER Q (likAlphaE L))
    ∧ (moveKernelER Q (likAlphaE L)).IsReversible (targetMeasure μ0 L)
    ∧ (moveKernelER Q (likAlphaE L)).Invariant (targetMeasure μ0 L)
    ∧ (∀ x, 0 < L x → moveKernelER Q (likAlphaE L) x = mhKernelR Q L (fun _ _ => 1) x)
    ∧ (∀ x y, likAlphaE L x y = mhAlphaE (fun x => ENNReal.ofReal (L x)) (fun _ _ => 1) x y)
    ∧ ∀ x, ((Q x).prod unif01).map (fun p : X × ℝ => mhStepG (likAlphaE L) x p.1 p.2)
        = moveKernelER Q (likAlphaE L) x := by
  have hM := moveKernelER_lik_isMarkov Q hL
  have hR := moveKernelER_lik_isReversible hQ hL hL0
  refine ⟨hM, hR, hR.invariant, fun x hx => moveKernelER_lik_eq_of_pos Q hL hx,
    likAlphaE_eq_mhAlphaE L, fun x => ?_⟩
  have h := law_mhStepG (Q x) (q := fun _ _ => 1) (α := likAlphaE L) measurable_const
    (measurable_likAlphaE hL) (likAlphaE_le_one L) (fun _ _ => ENNReal.one_ne_top) x (by simp)
  have h1 : (fun _ : X => (1 : ℝ≥0∞)) = 1 := rfl
  simp only [one_mul] at h
  rw [h1, withDensity_one] at h
  rw [h, moveKernelER_at Q (measurable_likAlphaE hL) x]

/-- the independence sampler from a probability prior, Gaussian likelihood -/
example := mh_model_convention_of_reversible_proposal (gaussianReal 0 1)
  (ProbabilityTheory.Kernel.const ℝ (gaussianReal 0 1)) (by intro A B _ _; simp [mul_comm])
  (fun x => Real.exp (-(x - 1) ^ 2)) (by fun_prop) (fun x => (Real.exp_pos _).le)

end modelconv

section pcnmodel
open CuqiVerif.C05
variable {E : Type*} [NormedAddCommGroup E] [NormedSpace ℝ E] [MeasurableSpace E] [BorelSpace E]
  [SecondCountableTopology E] [CompleteSpace E]

/-- **pCN with exactly the model's accept test, every dimension / function space.**  Prior `μ` a
    centred Gaussian on a separable Banach space, `a² + s² = 1`, likelihood `L ≥ 0` measurable.
    "Draw `ξ ~ μ`, `u ~ U(0,1]`, propose `x* = a•x + s•ξ`, move iff `u ≤ min(1, L(x*)/L(x))`
    (`ℝ≥0∞` division = the IEEE log-domain test of `pcnStep`)": the law of the next state is the
    kernel `moveKernelER (pcnKernel μ a s) (likAlphaE L)`, which is Markov, reversible and invariant
    for the posterior `L • μ`. -/
theorem pcn_model_convention_invariant (μ : Measure E) [IsGaussian μ] (hμ : μ[id] = 0) (a s : ℝ)
    (h : a ^ 2 + s ^ 2 = 1) (L : E → ℝ) (hL : Measurable L) (hL0 : ∀ x, 0 ≤ L x) :
    IsMarkovKernel (moveKernelER (pcnKernel μ a s) (likAlphaE L))
    ∧ (moveKernelER (pcnKernel μ a s) (likAlphaE L)).IsReversible (targetMeasure μ L)
    ∧ (moveKernelER (pcnKernel μ a s) (likAlphaE L)).Invariant (targetMeasure μ L)
    ∧ ∀ x, (μ.prod unif01).map (fun p : E × ℝ => mhStepG (likAlphaE L) x (a • x + s • p.1) p.2)
        = moveKernelER (pcnKernel μ a s) (likAlphaE L) x := by
  have hrev : (pcnKernel μ a s).IsReversible μ :=
    pcnKernel_isReversible_of_swap μ a s (pcnPair_swap μ hμ a s h)
  obtain ⟨hM, hR, hI, _, _, hlaw⟩ :=
    mh_model_convention_of_reversible_proposal μ (pcnKernel μ a s) hrev L hL hL0
  refine ⟨hM, hR, hI, fun x => ?_⟩
  have hg : Measurable (fun ξ : E => a • x + s • ξ) := by fun_prop
  rw [← hlaw x, pcnKernel_apply, law_step_pushforward μ hg (measurable_likAlphaE hL) x]

example := pcn_model_convention_invariant (gaussianReal 0 1) (by simp) (3/5) (4/5) (by norm_num)
  (fun x => if 0 ≤ x then 1 else 0)
  (Measurable.ite (measurableSet_le measurable_const measurable_id) measurable_const measurable_const)
  (fun x => by positivity)

/-- **…on `ℝ^ι` with prior `N(0, B Bᵀ)` from `randn`/`rand`** (any square `B`, singular allowed):
    the push-forward of `N(0,I) ⊗ U(0,1]` through "`x* = a x + s B ξ'`, move iff
    `u ≤ min(1, L(x*)/L(x))`" is a Markov kernel that is reversible and invariant for the posterior
    `L • N(0, B Bᵀ)`. -/
theorem pcn_model_convention_invariant_euclid {ι : Type*} [Fintype ι] [DecidableEq ι]
    (B : Matrix ι ι ℝ) (a s : ℝ) (h : a ^ 2 + s ^ 2 = 1) (L : (ι → ℝ) → ℝ) (hL : Measurable L)
    (hL0 : ∀ x, 0 ≤ L x) :
    IsMarkovKernel (moveKernelER (pcnKernel (gaussDrawLaw 0 B) a s) (likAlphaE L))
    ∧ (moveKernelER (pcnKernel (gaussDrawLaw 0 B) a s) (likAlphaE L)).IsReversible
        (targetMeasure (gaussDrawLaw 0 B) L)
    ∧ (moveKernelER (pcnKernel (gaussDrawLaw 0 B) a s) (likAlphaE L)).Invariant
        (targetMeasure (gaussDrawLaw 0 B) L)
    ∧ ∀ x, ((stdNormalVec ι).prod unif01).map (fun p : (ι → ℝ) × ℝ =>
          mhStepG (likAlphaE L) x (a • x + s • (0 + B.mulVec p.1)) p.2)
        = moveKernelER (pcnKernel (gaussDrawLaw 0 B) a s) (likAlphaE L) x := by
  obtain ⟨hM, hR, hI, hlaw⟩ := pcn_model_convention_invariant (gaussDrawLaw 0 B)
    (by simpa using integral_id_gaussDrawLaw (0 : ι → ℝ) B) a s h L hL hL0
  refine ⟨hM, hR, hI, fun x => ?_⟩
  have hg : Measurable (fun ξ : ι → ℝ => a • x + s • ξ) := by fun_prop
  rw [← hlaw x]
  unfold gaussDrawLaw
  have h' : ((stdNormalVec ι).map (fun ξ => 0 + B.mulVec ξ)).prod unif01
      = ((stdNormalVec ι).prod unif01).map (Prod.map (fun ξ => 0 + B.mulVec ξ) id) := by
    conv_lhs => rw [← Measure.map_id (μ := unif01)]
    exact Measure.map_prod_map _ unif01 (measurable_affine 0 B) measurable_id
  have hm : Measurable (fun p : (ι → ℝ) × ℝ => mhStepG (likAlphaE L) x (a • x + s • p.1) p.2) :=
    (measurable_mhStepG (measurable_likAlphaE hL) x).comp
      ((hg.comp measurable_fst).prodMk measurable_snd)
  rw [h', Measure.map_map hm ((measurable_affine 0 B).prodMap measurable_id)]
  rfl

/-- rank-1 covariance, support-constraint likelihood, the code's `a = √(1 − s²)`, `s = 1/2` -/
example := pcn_model_convention_invariant_euclid (!![1, 0; 1, 0] : Matrix (Fin 2) (Fin 2) ℝ)
  (Real.sqrt (1 - (1/2) ^ 2)) (1/2) (by rw [Real.sq_sqrt (by norm_num)]; ring)
  (fun x => if 0 ≤ x 0 then 1 else 0)
  (Measurable.ite (measurableSet_le measurable_const (measurable_pi_apply 0)) measurable_const
    measurable_const) (fun x => by positivity)

end pcnmodel

/-! ## tie to the real-valued kernel of `Props/C02_density.lean` -/

section tie
variable {X : Type*} [MeasurableSpace X]

/-- **The two conventions give the same kernel wherever the target density is positive.**  For
    real-valued `π ≥ 0`, `q ≥ 0` and every `x` with `π(x) > 0`, the transition measure of the
    `ℝ≥0∞` kernel of this file equals the one of `mhKernelD` (`Props/C02_density.lean`); they can
    differ only on `{π = 0}`, a null set of the target, where `mhKernelD` stays put and `mhKernelE`
    moves (as the code does from a `−inf` state). -/
theorem mhKernelE_eq_mhKernelD_of_pos (lam : Measure X) [SFinite lam] (π : X → ℝ) (q : X → X → ℝ)
    (hπ : Measurable π) (hq : Measurable (Function.uncurry q))
    (hπ0 : ∀ x, 0 ≤ π x) (hq0 : ∀ x y, 0 ≤ q x y) {x : X} (hx : 0 < π x) :
    mhKernelE lam (fun x => ENNReal.ofReal (π x)) (fun x y => ENNReal.ofReal (q x y)) x
      = mhKernelD lam π q x := by
  unfold mhKernelE mhKernelD
  rw [accKernel_eq_moveKernelE]
  exact moveKernelE_congr_at lam
    (measurable_mhMoveE hπ.ennreal_ofReal
      (show Measurable (Function.uncurry (fun x y => ENNReal.ofReal (q x y))) from hq.ennreal_ofReal))
    (measurable_moveDens hq (measurable_mhAlphaD hπ hq))
    (fun y => mhMoveE_ofReal hπ0 hq0 hx y)

example : mhKernelE volume (fun x : ℝ => ENNReal.ofReal (if 0 ≤ x then Real.exp (-x) else 0))
      (fun x y => ENNReal.ofReal (gaussianPDFReal x 1 y)) 2
    = mhKernelD volume (fun x : ℝ => if 0 ≤ x then Real.exp (-x) else 0)
      (fun x y => gaussianPDFReal x 1 y) 2 :=
  mhKernelE_eq_mhKernelD_of_pos volume _ _
    (Measurable.ite (measurableSet_le measurable_const measurable_id) (by fun_prop) measurable_const)
    (measurable_gaussianPDFReal_uncurry 1) (fun x => by positivity)
    (fun x y => gaussianPDFReal_nonneg x 1 y) (by norm_num; positivity)

end tie

end CuqiVerif.C02
