import CuqiVerif.Model.C06_factor
import CuqiVerif.Proofs.C06_factor
import CuqiVerif.Props.C06_factor

/-!
# C06 — scipy.sparse storage formats: every path of the dispatch table stores a square root of the precision (second pass)

`storedPath` (Model/C06_factor.lean) is the table "kind × storage format × diagonal? → code path" of
`get_sqrtprec_from_*`; `sqrtprecOfStored` the factor stored on that path.  The harness enumerates the table
against `Gaussian(...)` (every kind × {diagonal, banded} × 6 formats) on every run.
-/
open Finset Matrix

set_option linter.unusedSectionVars false
set_option linter.unusedVariables false

namespace CuqiVerif.C06

variable {K : Type} [Field K] [LT K] [DecidableEq K] [DecidableLT K]

/-- `(CᵀC)(AAᵀ) = I` when `C` is the two-sided inverse of `A` (the sparse `sqrtcov` path stores `inv(sqrtcov)`) -/
lemma gram_inv_mul_sqrtcov (n : ℕ) (A C : Mat K)
    (h : ∀ i j, i < n → j < n → mul n A C i j = ident i j ∧ mul n C A i j = ident i j) :
    ∀ i j, i < n → j < n → mul n (gram n C) (mul n A (tr A)) i j = ident i j := by
  have h1 : toM n n A * toM n n C = 1 := by
    rw [← toM_mul, ← toM_ident]; exact (toM_ext_iff n n _ _).mp fun i j hi hj => (h i j hi hj).1
  have h2 : toM n n C * toM n n A = 1 := by
    rw [← toM_mul, ← toM_ident]; exact (toM_ext_iff n n _ _).mp fun i j hi hj => (h i j hi hj).2
  rw [toM_ext_iff, toM_mul, toM_gram, toM_mul, toM_tr, toM_ident]
  calc (toM n n C)ᵀ * toM n n C * (toM n n A * (toM n n A)ᵀ)
      = (toM n n C)ᵀ * (toM n n C * toM n n A) * (toM n n A)ᵀ := by simp only [Matrix.mul_assoc]
    _ = (toM n n A * toM n n C)ᵀ := by rw [h2, Matrix.mul_one, Matrix.transpose_mul]
    _ = 1 := by rw [h1, Matrix.transpose_one]

lemma facFullSparse_spec (rt : K → Option K) (inv : ℕ → Mat K → Option (Mat K)) (k : Kind) (n : ℕ) (A : Mat K)
    (b : Branch) (sz : ℕ) (L : Mat K) (h : facFullSparse rt inv k n A = .ok b sz L) :
    b = .full ∧ sz = n ∧ IsPrec n k.isCov (specMat true n k (.matrix A)) (gram n L) := by
  cases k
  · simp only [facFullSparse] at h
    split at h
    · cases h
    · rename_i C hC
      obtain ⟨hb, hs, hg⟩ := facChol_spec rt n C b sz L h
      refine ⟨hb, hs, ?_⟩
      simp only [IsPrec, Kind.isCov, if_true, specMat]
      intro i j hi hj
      rw [mul_congr_left n _ C A i j (fun l hl => hg i l hi hl)]
      exact (invChecked_spec inv n A C hC i j hi hj).2
  · simp only [facFullSparse] at h
    obtain ⟨hb, hs, hg⟩ := facChol_spec rt n A b sz L h
    refine ⟨hb, hs, ?_⟩
    simp only [IsPrec, Kind.isCov, Bool.false_eq_true, if_false, specMat]
    exact hg
  · simp only [facFullSparse] at h
    split at h
    · cases h
    · rename_i C hC
      simp only [Fac.ok.injEq] at h
      obtain ⟨hb, hs, hL⟩ := h
      subst hL
      refine ⟨hb.symm, hs.symm, ?_⟩
      simp only [IsPrec, Kind.isCov, if_true, specMat]
      exact gram_inv_mul_sqrtcov n A C (invChecked_spec inv n A C hC)
  · simp only [facFullSparse, Fac.ok.injEq] at h
    obtain ⟨hb, hs, hL⟩ := h
    subst hL
    refine ⟨hb.symm, hs.symm, ?_⟩
    simp only [IsPrec, Kind.isCov, Bool.false_eq_true, if_false, specMat]
    intro i j _ _
    rfl

/-- **sqrtprecOfStored_is_sqrt_precision.**  For every storage format and every path of the dispatch table: a
    stored factor `L` squares to the precision of the Gaussian the (square, sparse or dense) matrix parameter
    stands for as the code reads it. -/
theorem sqrtprecOfStored_is_sqrt_precision (rt : K → Option K) (inv : ℕ → Mat K → Option (Mat K))
    (dim : ℕ) (k : Kind) (st : Storage) (hst : st ≠ .dense) (x : Arr K) (b : Branch) (sz : ℕ) (L : Mat K)
    (h : sqrtprecOfStored rt inv dim k st x = .ok b sz L) :
    sz = x.rows ∧ IsPrec sz k.isCov (specMat true sz k (.matrix x.a)) (gram sz L) := by
  unfold sqrtprecOfStored at h
  rw [if_neg hst] at h
  split at h
  · cases h
  · rename_i hsq
    have hsq' : x.rows = x.cols := by
      by_contra hne; exact hsq (Or.inl hne)
    split at h
    · -- diagonal branch
      rename_i hpath
      have hdiag : x.isDiag = true := by
        unfold storedPath at hpath
        cases st <;> cases k <;> cases hd : x.isDiag <;> simp_all
      obtain ⟨hb, hs, d, hL, hd⟩ := facDiag_spec rt k _ b _ sz _ L h
      subst hb hs hL
      refine ⟨rfl, isPrec_diag _ _ _ d (fun i => kindDiag k (x.a i i)) (fun i j hi hj => ?_) hd⟩
      exact specMat_matrix_diag _ k x.a
        (fun i j hi hj hne => isDiag_spec x hdiag i j hi (hsq' ▸ hj) hne) i j hi hj
    · obtain ⟨_, hs, hp⟩ := facFull_spec rt inv k _ _ b sz L h
      subst hs; exact ⟨rfl, hp⟩
    · obtain ⟨_, hs, hp⟩ := facFullSparse_spec rt inv k _ _ b sz L h
      subst hs; exact ⟨rfl, hp⟩
    all_goals
      rename_i hpath
      have hk : k = .sqrtprec := by
        unfold storedPath at hpath
        cases st <;> cases k <;> cases hd : x.isDiag <;> simp_all
      subst hk
      simp only [Fac.ok.injEq] at h
      obtain ⟨_, hs, hL⟩ := h
      subst hs hL
      refine ⟨rfl, ?_⟩
      simp only [IsPrec, Kind.isCov, Bool.false_eq_true, if_false, specMat]
      intro i j _ _
      rfl

/-- **dia_sqrtprec_kept_as_given.**  A `sqrtprec` stored in DIA format takes the `isspmatrix_dia` path whether or
    not it is diagonal, and the stored factor is the matrix as given — off-diagonal bands included (the class of
    the seeded change C06-r7m1). -/
theorem dia_sqrtprec_kept_as_given (rt : K → Option K) (inv : ℕ → Mat K → Option (Mat K)) (dim : ℕ) (x : Arr K)
    (hsq : x.rows = x.cols) (h2 : 2 ≤ x.rows) :
    storedPath .sqrtprec .dia x.isDiag = .keptDia ∧
    sqrtprecOfStored rt inv dim .sqrtprec .dia x = .ok .full x.rows x.a := by
  refine ⟨by simp [storedPath], ?_⟩
  unfold sqrtprecOfStored
  rw [if_neg (by decide), if_neg (by omega)]
  simp [storedPath]

example : storedPath .cov .csr false = .sparseFull ∧ storedPath .sqrtprec .csr true = .keptDiagonal
    ∧ storedPath .prec .dia true = .diagBranch := by decide

end CuqiVerif.C06
