import CuqiVerif.Model.C03_glue
import Mathlib.Tactic.FieldSimp
import Mathlib.Algebra.Field.Rat
import Mathlib.Tactic.NormNum.Basic
import Mathlib.Data.Fintype.OfMap
import Mathlib.Data.Fintype.Basic
import Mathlib.Data.Fintype.Prod

/-!
# C03 — the point conversions of `Model.gradient` (`Model._2par`, `Model._2fun`)

Statements about `wrtPar`, `wrtFun`, `modelGradient` of `Model/C03_glue.lean` (the driver's op `glue` runs them on
`scaledGeo`).  Meaning for the code: whichever representation of the evaluation point is handed to
`Likelihood.gradient` / `Model.gradient` — plain array, `CUQIarray` of parameters or of function values, with the
domain geometry or another one, `is_wrt_par=False` — the chain rule is evaluated at one consistent pair
(parameters `p`, function values `par2fun p`), and the returned vector depends on the parameter point only.
-/
namespace CuqiVerif.C03

/-- **consistency of the pair.**  If `fun2par` is a right inverse of `par2fun` on function values
    (`par2fun (fun2par f) = f`, true for every geometry whose `fun2par` is implemented), then for every
    representation the array given to `_gradient_func` is `par2fun` of the array given to `geometry.gradient`. -/
theorem wrtFun_eq_par2fun_wrtPar {P F : Type} (g : Geo P F) (hinv : ∀ f, g.par2fun (g.fun2par f) = f)
    (r : PointRep P F) : wrtFun g r = g.par2fun (wrtPar g r) := by
  cases r <;> simp [wrtFun, wrtPar, hinv]

/-- **representation invariance.**  Two representations of the same parameter point (`wrtPar` agrees) give the
    same gradient: `Model.gradient` — hence `Likelihood.gradient`, `Posterior.gradient` — is a function of the
    parameter point, the direction, the user's derivative and the geometry, not of the container. -/
theorem modelGradient_rep_invariant {P F D : Type} (g : Geo P F) (hinv : ∀ f, g.par2fun (g.fun2par f) = f)
    (gradFunc : D → F → F) (geomGrad : Option (F → P → P)) (dir : D) (r s : PointRep P F)
    (h : wrtPar g r = wrtPar g s) :
    modelGradient g gradFunc geomGrad dir r = modelGradient g gradFunc geomGrad dir s := by
  unfold modelGradient
  rw [wrtFun_eq_par2fun_wrtPar g hinv r, wrtFun_eq_par2fun_wrtPar g hinv s, h]

/-- in particular every representation equals the plain-array call at its parameter point -/
theorem modelGradient_eq_ndarray {P F D : Type} (g : Geo P F) (hinv : ∀ f, g.par2fun (g.fun2par f) = f)
    (gradFunc : D → F → F) (geomGrad : Option (F → P → P)) (dir : D) (r : PointRep P F) :
    modelGradient g gradFunc geomGrad dir r
      = modelGradient g gradFunc geomGrad dir (.ndarray (wrtPar g r)) :=
  modelGradient_rep_invariant g hinv gradFunc geomGrad dir r _ rfl

/-- the hypothesis is satisfiable by the executable instance of the driver (`par2fun p = c p`, `c ≠ 0`) -/
theorem scaledGeo_right_inverse (c : Rat) (hc : c ≠ 0) (f : List Rat) :
    (scaledGeo c).par2fun ((scaledGeo c).fun2par f) = f := by
  simp only [scaledGeo, List.map_map]
  conv_rhs => rw [← List.map_id f]
  apply List.map_congr_left
  intro a _
  simp only [Function.comp, id]
  exact mul_div_cancel₀ a hc

example : modelGradient (scaledGeo 2) (fun (d : Rat) f => f.map (d * ·)) none 3 (.cuqiFunSame [2, 4])
    = modelGradient (scaledGeo 2) (fun (d : Rat) f => f.map (d * ·)) none 3 (.ndarray [1, 2]) :=
  modelGradient_rep_invariant _ (scaledGeo_right_inverse 2 (by norm_num)) _ _ _ _ _ (by decide +kernel)

/-- the same consistency under the weaker hypothesis that only the function values actually supplied lie in the
    range of `par2fun` (expansion geometries: `par2fun ∘ fun2par` is a projection, the identity only on the range) -/
theorem wrtFun_eq_par2fun_wrtPar_of_range {P F : Type} (g : Geo P F) (r : PointRep P F)
    (hr : ∀ f, (r = .cuqiFunSame f ∨ r = .funvals f) → g.par2fun (g.fun2par f) = f) :
    wrtFun g r = g.par2fun (wrtPar g r) := by
  cases r with
  | ndarray p => rfl
  | cuqiParSame p => rfl
  | cuqiParOther p => rfl
  | cuqiFunSame f => simp [wrtFun, wrtPar, hr f (Or.inl rfl)]
  | funvals f => simp [wrtFun, wrtPar, hr f (Or.inr rfl)]

example : wrtFun (linGeo [[1, 0], [0, 2], [1, 1]] [1, 1, 1] [[1, 0, 0], [0, 1/2, 0]]) (.funvals [2, 5, 4])
    = (linGeo [[1, 0], [0, 2], [1, 1]] [1, 1, 1] [[1, 0, 0], [0, 1/2, 0]]).par2fun
        (wrtPar (linGeo [[1, 0], [0, 2], [1, 1]] [1, 1, 1] [[1, 0, 0], [0, 1/2, 0]]) (.funvals [2, 5, 4])) :=
  wrtFun_eq_par2fun_wrtPar_of_range _ _ (by
    intro f hf
    rcases hf with hf | hf
    · cases hf
    · cases hf; decide +kernel)

instance : Fintype Fun2parKind := Fintype.ofList [.ok, .notImplemented, .valueError] (by intro x; cases x <;> simp)

/-- **`Model.gradient` returns a vector exactly when every guard passes** (all 768 rows): a gradient function
    exists, no `Samples` argument, the range geometry is an identity geometry, the domain geometry is an identity
    geometry or carries `gradient`, and — if the point holds function values — `fun2par` is implemented. -/
theorem gradientOutcome_value_iff :
    ∀ (nf : Bool) (k : Fun2parKind) (hg sm rid dg did dc : Bool),
      (∃ w, gradientOutcome nf k hg sm rid dg did dc = .value w) ↔
        ((nf = true → k = .ok) ∧ hg = true ∧ sm = false ∧ rid = true ∧ (dg = true ∨ did = true)) := by
  intro nf k hg sm rid dg did dc
  cases nf <;> cases k <;> cases hg <;> cases sm <;> cases rid <;> cases dg <;> cases did <;> cases dc <;>
    simp [gradientOutcome]

/-- the output is wrapped as a `CUQIarray` exactly when the direction is one; never otherwise -/
theorem gradientOutcome_wrapping :
    ∀ (nf : Bool) (k : Fun2parKind) (hg sm rid dg did dc w : Bool),
      gradientOutcome nf k hg sm rid dg did dc = .value w → w = dc := by
  intro nf k hg sm rid dg did dc w
  cases nf <;> cases k <;> cases hg <;> cases sm <;> cases rid <;> cases dg <;> cases did <;> cases dc <;> cases w <;>
    simp [gradientOutcome]

/-- a `Samples` argument, a missing gradient function or a non-identity range are refused whatever else holds;
    the exception class of a failing `fun2par` is preserved (error translation of the `try` around `_2par`) -/
theorem gradientOutcome_refusals :
    ∀ (nf : Bool) (k : Fun2parKind) (hg sm rid dg did dc : Bool),
      ((sm = true ∨ hg = false ∨ rid = false) → ∀ w, gradientOutcome nf k hg sm rid dg did dc ≠ .value w) ∧
      (nf = true → k = .valueError → gradientOutcome nf k hg sm rid dg did dc = .valueError) ∧
      (nf = true → k = .notImplemented → gradientOutcome nf k hg sm rid dg did dc = .notImplemented) := by
  intro nf k hg sm rid dg did dc
  cases nf <;> cases k <;> cases hg <;> cases sm <;> cases rid <;> cases dg <;> cases did <;> cases dc <;>
    simp [gradientOutcome]

example : gradientOutcome true .ok true false true true false true = .value true := by decide

end CuqiVerif.C03
