import CuqiVerif.Model.C05
import CuqiVerif.Proofs.RExpr
import CuqiVerif.Proofs.C05
import Mathlib.Data.Matrix.Basic
import Mathlib.LinearAlgebra.Matrix.NonsingularInverse
import Mathlib.Probability.Distributions.Gaussian.Real
import Mathlib.Probability.Distributions.Gamma
import Mathlib.Probability.Distributions.Cauchy
import Mathlib.Analysis.SpecialFunctions.Pow.Real
import Mathlib.Tactic.LinearCombination

/-!
# C05 — direct samples follow the distribution's own density and the given random stream

Part A: theorems about the executable definitions the driver runs (`fwdXs`, `gaussPerturb`,
`diagSqrtprec`, `wrap`/`sampleShape`, `plumb`, `mhnRead`).
Part B: generic matrix identities (any field, any size) of which the rational model is an instance:
covariance of the Gaussian / GMRF draws.
Part C: the log-density formulas of the model (`RExpr`s, evaluated over ℝ) against the documented law of
the generator call the code makes.
Part D: the ModifiedHalfNormal rejection identities for the coded proposals and bounds.
-/
namespace CuqiVerif.C05
open CuqiVerif RExpr Real Matrix Finset

/-! ## Part A — executable definitions -/
/-- **Forward substitution solves the lower-triangular system** (any size `n`): if `L i j = 0` above the
diagonal and the diagonal is non-zero, the values `fwdX` satisfy every equation `∑ⱼ L i j xⱼ = bᵢ`. -/
theorem fwd_solves (L : ℕ → ℕ → ℚ) (b : ℕ → ℚ) (n : ℕ)
    (hlow : ∀ i j, i < n → j < n → i < j → L i j = 0) (hdiag : ∀ i, i < n → L i i ≠ 0) :
    ∀ i, i < n → ∑ j ∈ Finset.range n, L i j * fwdX L b j = b i := by
  intro i hi
  have hsplit : ∑ j ∈ Finset.range n, L i j * fwdX L b j
      = ∑ j ∈ Finset.range (i + 1), L i j * fwdX L b j := by
    have hsub : Finset.range (i + 1) ⊆ Finset.range n := by
      intro j hj; rw [Finset.mem_range] at *; omega
    symm
    apply Finset.sum_subset hsub
    intro j hj hnj
    rw [Finset.mem_range] at hj hnj
    rw [hlow i j hi hj (by omega), zero_mul]
  rw [hsplit, Finset.sum_range_succ, fwdX_eq L b i]
  field_simp [hdiag i hi]
  ring

/-- the same statement for what the executable `fwdXs` list holds -/
theorem fwdXs_solves (L : ℕ → ℕ → ℚ) (b : ℕ → ℚ) (n : ℕ)
    (hlow : ∀ i j, i < n → j < n → i < j → L i j = 0) (hdiag : ∀ i, i < n → L i i ≠ 0) :
    ∀ i, i < n → ∑ j ∈ Finset.range n, L i j * (fwdXs L b n).getD j 0 = b i := by
  intro i hi
  rw [← fwd_solves L b n hlow hdiag i hi]
  apply Finset.sum_congr rfl
  intro j hj
  rw [Finset.mem_range] at hj
  rw [fwdXs_getD L b n j hj]

/-- non-vacuity: a 3×3 lower-triangular, non-diagonal system -/
example : fwdXs (fun i j => QMat.entry [[2, 0, 0], [1, 4, 0], [-1, 1, 1/2]] i j) (fun i => [2, 1, 0].getD i 0) 3 = [1, 0, 2] := by
  decide +kernel

/-- **Witness for the repaired defect (DESIGN §5 #9)**: solving a lower-triangular, non-diagonal `sqrtprec`
with the *upper* triangle (what `solve_triangular(lower=False)` reads: the diagonal only) does not solve
the system, while the forward substitution of the repaired code does. -/
theorem diagOnly_not_a_solution :
    QMat.mulVec [[1, 0], [1, 1]] (diagOnlySolve [[1, 0], [1, 1]] [1, 0]) ≠ [1, 0]
    ∧ gaussPerturb false [[1, 0], [1, 1]] [1, 0] = some [1, -1]
    ∧ QMat.mulVec [[1, 0], [1, 1]] [1, -1] = [1, 0] := by
  decide +kernel

/-- Solver selection: a dense lower-triangular `sqrtprec` goes to the triangular solver, a sparse one to
`spsolve`, anything else to `solve`. -/
theorem solverOf_cases (sp : Bool) (R : QMat.Mat) :
    solverOf sp R = (if sp then Solver.sparse else if isLowerTri R then Solver.triLower else Solver.dense) := rfl

/-- **`spsolve` / `solve` branch**: whenever the model produces a perturbation it satisfies the defining
relation `sqrtprec · p = e` (the elimination is untrusted; its result is checked). -/
theorem gaussPerturb_solves (sp : Bool) (R : QMat.Mat) (e p : QMat.Vec)
    (hs : solverOf sp R ≠ Solver.triLower) (h : gaussPerturb sp R e = some p) : QMat.mulVec R p = e := by
  unfold gaussPerturb at h
  cases hsol : solverOf sp R with
  | triLower => exact absurd hsol hs
  | sparse =>
    rw [hsol] at h
    cases hq : QMat.solve R e with
    | none => simp [hq] at h
    | some p' =>
      simp only [hq] at h
      by_cases hc : QMat.solves R p' e = true
      · simp only [hc, if_true, Option.some.injEq] at h
        subst h
        simpa [QMat.solves] using hc
      · simp [hc] at h
  | dense =>
    rw [hsol] at h
    cases hq : QMat.solve R e with
    | none => simp [hq] at h
    | some p' =>
      simp only [hq] at h
      by_cases hc : QMat.solves R p' e = true
      · simp only [hc, if_true, Option.some.injEq] at h
        subst h
        simpa [QMat.solves] using hc
      · simp [hc] at h

/-- **triangular branch**: the model's perturbation is the forward-substitution list, which solves the
system row by row when `R` is lower triangular (`fwdXs_solves`). -/
theorem gaussPerturb_tri (sp : Bool) (R : QMat.Mat) (e p : QMat.Vec)
    (hs : solverOf sp R = Solver.triLower) (h : gaussPerturb sp R e = some p) :
    p = fwdXs (QMat.entry R) (fun i => e.getD i 0) R.length := by
  unfold gaussPerturb at h
  rw [hs] at h
  by_cases hc : ((List.range R.length).any fun i => QMat.entry R i i == 0) = true
  · simp [hc] at h
  · simp only [hc] at h
    simpa using h.symm

/-- **Witness of the defect repaired by 147a320** (`np.allclose(R, np.tril(R))` as triangularity test): the old
test accepts `1e-9·[[1,1],[0,1]]`, forward substitution on it does not solve `R p = e`; the exact test of the current
code sends the same matrix to the general solver, whose result does. -/
theorem allclose_triangular_counterexample :
    isLowerTriAllclose [[1 / 1000000000, 1 / 1000000000], [0, 1 / 1000000000]] = true
    ∧ QMat.mulVec [[1 / 1000000000, 1 / 1000000000], [0, 1 / 1000000000]]
        (fwdXs (QMat.entry [[1 / 1000000000, 1 / 1000000000], [0, 1 / 1000000000]]) (fun i => [0, 1].getD i 0) 2) ≠ [0, 1]
    ∧ solverOf false [[1 / 1000000000, 1 / 1000000000], [0, 1 / 1000000000]] = Solver.dense
    ∧ gaussPerturb false [[1 / 1000000000, 1 / 1000000000], [0, 1 / 1000000000]] [0, 1] = some [-1000000000, 1000000000]
    ∧ QMat.mulVec [[1 / 1000000000, 1 / 1000000000], [0, 1 / 1000000000]] [-1000000000, 1000000000] = [0, 1] := by
  decide +kernel

lemma isLowerTri_exact (R : QMat.Mat) (hsq : QMat.ncols R = R.length) (h : isLowerTri R = true) :
    ∀ i j, i < R.length → j < R.length → i < j → QMat.entry R i j = 0 := by
  intro i j hi hj hij
  unfold isLowerTri at h
  rw [List.all_eq_true] at h
  have h1 := h i (List.mem_range.mpr hi)
  rw [List.all_eq_true] at h1
  have h2 := h1 j (List.mem_range.mpr (by rw [hsq]; exact hj))
  simp only [Bool.or_eq_true, decide_eq_true_eq, beq_iff_eq] at h2
  rcases h2 with h2 | h2
  · omega
  · exact h2

/-- **Triangular branch at full strength** (code since 147a320): whenever the model selects the triangular solver
for a square `R` and returns a perturbation, that perturbation solves `R p = e` — any size. -/
theorem gaussPerturb_tri_solves (R : QMat.Mat) (e p : QMat.Vec) (hsq : QMat.ncols R = R.length)
    (hs : solverOf false R = Solver.triLower) (h : gaussPerturb false R e = some p) :
    ∀ i, i < R.length → ∑ j ∈ Finset.range R.length, QMat.entry R i j * p.getD j 0 = e.getD i 0 := by
  have htri : isLowerTri R = true := by
    unfold solverOf at hs
    by_cases ht : isLowerTri R = true
    · exact ht
    · simp [ht] at hs
  have hdiag : ∀ i, i < R.length → QMat.entry R i i ≠ 0 := by
    intro i hi h0
    unfold gaussPerturb at h
    rw [hs] at h
    have : ((List.range R.length).any fun i => QMat.entry R i i == 0) = true := by
      rw [List.any_eq_true]
      exact ⟨i, List.mem_range.mpr hi, by simp [h0]⟩
    simp [this] at h
  rw [gaussPerturb_tri false R e p hs h]
  exact fwdXs_solves (QMat.entry R) (fun i => e.getD i 0) R.length (isLowerTri_exact R hsq htri) hdiag

example : solverOf false [[2, 0], [1, 4]] = Solver.triLower ∧ gaussPerturb false [[2, 0], [1, 4]] [1, 0] = some [1 / 2, -1 / 8] := by
  decide +kernel

/-- **A draw is affine in the normal vector with offset the mean**: `sample = mean + perturbation`. -/
theorem gaussSample_eq (sp : Bool) (mean : QMat.Vec) (R : QMat.Mat) (e : QMat.Vec) :
    gaussSample sp mean R e = (gaussPerturb sp R e).map (fun p => QMat.vadd (bcast R.length mean) p) := rfl



/-- **Every scalar / vector / diagonal parameterisation stores a square root of the precision its own
log-density uses**: the stored diagonal entry `r` satisfies `r² = 1/var`, `prec`, `1/std²`, `sqrtprec²`. -/
theorem diagSqrtprec_sq (f : Form) (v r : ℚ) (h : diagSqrtprec f v = some r) : r * r = diagPrecision f v := by
  cases f with
  | cov =>
    simp only [diagSqrtprec] at h
    by_cases hv : v = 0
    · simp [hv] at h
    · simp only [hv, if_false] at h
      simpa [diagPrecision] using sqrtQ?_sq _ _ h
  | prec => simpa [diagPrecision, diagSqrtprec] using sqrtQ?_sq _ _ h
  | sqrtcov =>
    simp only [diagSqrtprec] at h
    by_cases hv : v = 0
    · simp [hv] at h
    · simp only [hv, if_false, Option.some.injEq] at h
      subst h
      simp only [diagPrecision]; field_simp
  | sqrtprec =>
    simp only [diagSqrtprec, Option.some.injEq] at h
    subst h; rfl

example : diagSqrtprec .cov (1/4) = some 2 ∧ diagPrecision .cov (1/4) = 4 := by decide +kernel

/-! ### wrapping and refusal -/

/-- **A conditional distribution refuses to sample**, whatever `_sample` would return. -/
theorem cond_refuses (N : ℕ) (raw : Raw) : wrap true N raw = .refused := rfl

theorem cond_refuses_family (fam : Family) (dim N : ℕ) : sampleShape fam true dim N = .refused := rfl

/-- once nothing is missing the result is never a refusal -/
theorem uncond_samples (N : ℕ) (raw : Raw) : wrap false N raw ≠ .refused := by
  unfold wrap
  simp only [Bool.false_eq_true, if_false]
  split_ifs <;> simp

/-- **One draw is an array with `dim` entries** (a 0-d array when `dim = 1`), for every family and
boundary condition except a single Neumann / periodic GMRF draw. -/
theorem wrap_single_draw (fam : Family) (dim : ℕ) (hmhn : fam = .mhn → dim = 1)
    (hreg : fam ≠ .gmrfNeumann ∧ fam ≠ .gmrfPeriodic) :
    sampleShape fam false dim 1 = (if dim = 1 then .scalar else .array dim) := by
  obtain ⟨h1, h2⟩ := hreg
  cases fam <;> simp_all [sampleShape, rawShape, wrap, Raw.len, Raw.size]

/-- **Several draws are a sample collection with one column per draw**: `N` columns, `dim` parameters each. -/
theorem wrap_many_draws (fam : Family) (dim N : ℕ) (hN : N ≠ 1) (hmhn : fam = .mhn → dim = 1) :
    ∃ raw, sampleShape fam false dim N = .samples raw ∧ raw.ns = N ∧ raw.perDraw = dim := by
  cases fam <;> simp_all [sampleShape, rawShape, wrap, Raw.ns, Raw.perDraw]

/-- **Known finding (GMRF, one draw, Neumann / periodic)**: the code-faithful model returns `dim²` entries. -/
theorem wrap_gmrf_single_draw_counterexample :
    sampleShape .gmrfNeumann false 5 1 = .array 25 ∧ sampleShape .gmrfPeriodic false 5 1 = .array 25
    ∧ sampleShape .gmrfZero false 5 1 = .array 5 := by decide

/-- **UserDefinedDistribution: one column per draw, in call order** — column `i` of the result is the value the
`i`-th call of the user's sampling function returned (at the time it returned), component by component. -/
theorem userDefined_column (dim N : ℕ) (calls : List QMat.Vec) (S : QMat.Mat)
    (h : userDefinedSample dim N calls = some S) (i j : ℕ) (hj : j < dim) :
    QMat.entry S j i = QMat.entry calls i j ∧ calls.length = N := by
  unfold userDefinedSample at h
  split_ifs at h with hc
  simp only [Option.some.injEq] at h
  subst h
  push_neg at hc
  refine ⟨?_, hc.1⟩
  simp only [QMat.entry, QMat.transposeN, QMat.transposeAux]
  have h1 : ((List.range dim).map (fun j => calls.map (fun r => r.getD j 0))).getD j [] = calls.map (fun r => r.getD j 0) := by
    rw [List.getD_eq_getElem?_getD, List.getElem?_map, List.getElem?_range hj]
    rfl
  rw [h1, List.getD_eq_getElem?_getD, List.getElem?_map]
  cases hi : calls[i]? with
  | none => simp [List.getD_eq_getElem?_getD, hi]
  | some r => simp [List.getD_eq_getElem?_getD, hi]

example : userDefinedSample 2 3 [[1, 2], [3, 4], [5, 6]] = some [[1, 3, 5], [2, 4, 6]] := by decide +kernel

/-! ### plumbing -/

/-- **The generator receives the tuple the density uses**: for the laws whose density is delegated to
scipy (`Gamma`: `a=shape, scale=1/rate`; `InverseGamma`: `a, loc, scale`; `Beta`: `a, b`) the parameter
tuple of the random call and of the `logpdf` call coincide. -/
theorem plumb_density_same_tuple (fam : Family) (ps : List QMat.Vec) (dim N : ℕ) (t : List QMat.Vec)
    (h : densityTuple fam ps = some t) : ∃ c, plumb fam ps dim N = some c ∧ c.args = t ∧ c.size = (N, dim) := by
  unfold densityTuple at h
  split at h
  · split_ifs at h with hr
    simp only [Option.some.injEq] at h
    exact ⟨_, by simp only [plumb, hr]; rfl, h, rfl⟩
  · simp only [Option.some.injEq] at h
    exact ⟨_, rfl, h, rfl⟩
  · simp only [Option.some.injEq] at h
    exact ⟨_, rfl, h, rfl⟩
  · simp at h

/-- **Known finding (ModifiedHalfNormal getters)**: what reaches `_sample` (and `logpdf`) does not depend on
the `beta` and `gamma` the object was built with. -/
theorem mhnRead_ignores_beta_gamma (α β γ β' γ' : ℚ) : mhnRead α β γ = mhnRead α β' γ' := rfl

theorem mhnRead_counterexample : mhnRead 2 3 1 ≠ (2, 3, 1) := by decide +kernel


/-! ## Part B — covariance of Gaussian and GMRF draws -/

/-- **Covariance of a Gaussian draw.**  If the perturbation is `B e` with `R B = 1` (what any of the
three solvers computes, see `fwdXs_solves`, `gaussPerturb_solves`), then `B Bᵀ` is the inverse of the
precision `Rᵀ R` the log-density uses — for every square `R`: symmetric or not, triangular or not. -/
theorem gauss_cov_eq_inv_precision {n : Type*} [Fintype n] [DecidableEq n] {K : Type*} [Field K]
    (R B : Matrix n n K) (h : R * B = 1) : (B * Bᵀ) * (Rᵀ * R) = 1 ∧ (Rᵀ * R) * (B * Bᵀ) = 1 := by
  have h' : B * R = 1 := mul_eq_one_comm.mp h
  have ht : Bᵀ * Rᵀ = 1 := by rw [← transpose_mul, h, transpose_one]
  have ht' : Rᵀ * Bᵀ = 1 := by rw [← transpose_mul, h', transpose_one]
  constructor
  · calc B * Bᵀ * (Rᵀ * R) = B * (Bᵀ * Rᵀ) * R := by simp only [Matrix.mul_assoc]
      _ = 1 := by rw [ht, Matrix.mul_one, h']
  · calc Rᵀ * R * (B * Bᵀ) = Rᵀ * (R * B) * Bᵀ := by simp only [Matrix.mul_assoc]
      _ = 1 := by rw [h, Matrix.mul_one, ht']

/-- non-vacuity: a lower-triangular, non-symmetric square root -/
example : (!![1, 0; 1, 1] : Matrix (Fin 2) (Fin 2) ℚ) * !![1, 0; -1, 1] = 1 := by
  ext i j; fin_cases i <;> fin_cases j <;> simp [Matrix.mul_apply, Fin.sum_univ_two]


section MatrixFacts
variable {n m : Type*} [Fintype n] [DecidableEq n] [Fintype m] {K : Type*} [Field K]

/-- **GMRF, zero boundary condition**: the draw is `mean + c·U⁻¹ξ` with `Uᵀ U = P` (`U = chol.T`) and
`c = 1/√δ` (`c² δ = 1`); its covariance `(cB)(cB)ᵀ` is the inverse of the precision `δ P` of the log-density. -/
theorem gmrf_zero_cov (U B P : Matrix n n K) (c δ : K) (hUB : U * B = 1) (hP : Uᵀ * U = P) (hc : c * c * δ = 1) :
    ((c • B) * (c • B)ᵀ) * (δ • P) = 1 := by
  have h' : B * U = 1 := mul_eq_one_comm.mp hUB
  have ht : Bᵀ * Uᵀ = 1 := by rw [← transpose_mul, hUB, transpose_one]
  rw [transpose_smul, ← hP]
  simp only [Matrix.smul_mul, Matrix.mul_smul, smul_smul]
  have : B * Bᵀ * (Uᵀ * U) = 1 := by
    calc B * Bᵀ * (Uᵀ * U) = B * (Bᵀ * Uᵀ) * U := by simp only [Matrix.mul_assoc]
      _ = 1 := by rw [ht, Matrix.mul_one, h']
  rw [this]
  convert one_smul K (1 : Matrix n n K) using 2
  linear_combination hc

/-- **Neumann: the two sparse solves are one solve with `C Cᵀ`**:
`spsolve(chol.T, spsolve(chol, v)) = (C Cᵀ)⁻¹ v`. -/
theorem neumann_two_solves (C Ci : Matrix n n K) (h : C * Ci = 1) : (Ciᵀ * Ci) * (C * Cᵀ) = 1 := by
  have h' : Ci * C = 1 := mul_eq_one_comm.mp h
  have ht : Cᵀ * Ciᵀ = 1 := by rw [← transpose_mul, h', transpose_one]
  have ht' : Ciᵀ * Cᵀ = 1 := by rw [← transpose_mul, h, transpose_one]
  calc Ciᵀ * Ci * (C * Cᵀ) = Ciᵀ * (Ci * C) * Cᵀ := by simp only [Matrix.mul_assoc]
    _ = 1 := by rw [h', Matrix.mul_one, ht']

/-- **GMRF, Neumann boundary condition, exact covariance with the explicit ε-perturbation.**
With `P = DᵀD` (singular), `M = P + ε·1`, `M Mi = 1`, the draw is `mean + c·Mi Dᵀ ξ`; its covariance
`B Bᵀ`, `B = Mi Dᵀ`, satisfies `P (B Bᵀ) P = (1 - ε Mi)² P` — the pseudo-inverse would give `P`; the
deviation is the factor `(1 - ε Mi)²`, `ε = √eps = 2⁻²⁶`. -/
theorem gmrf_neumann_cov (D : Matrix m n K) (P Mi : Matrix n n K) (ε : K)
    (hP : Dᵀ * D = P) (hM : (P + ε • (1 : Matrix n n K)) * Mi = 1) :
    let B := Mi * Dᵀ
    B * Bᵀ = Mi * P * Miᵀ ∧ P * (B * Bᵀ) * P = (1 - ε • Mi) * (1 - ε • Mi) * P := by
  intro B
  have hM' : Mi * (P + ε • (1 : Matrix n n K)) = 1 := mul_eq_one_comm.mp hM
  have hPsymm : Pᵀ = P := by rw [← hP, transpose_mul, transpose_transpose]
  have hMit : Miᵀ = Mi := by
    have h1 : Miᵀ * (P + ε • (1 : Matrix n n K)) = 1 := by
      have := congrArg transpose hM
      rw [transpose_mul, transpose_add, transpose_smul, transpose_one, hPsymm] at this
      exact this
    calc Miᵀ = Miᵀ * ((P + ε • (1 : Matrix n n K)) * Mi) := by rw [hM, Matrix.mul_one]
      _ = (Miᵀ * (P + ε • (1 : Matrix n n K))) * Mi := by rw [Matrix.mul_assoc]
      _ = Mi := by rw [h1, Matrix.one_mul]
  have hPMi : P * Mi = 1 - ε • Mi := by
    have := hM
    rw [Matrix.add_mul, Matrix.smul_mul, Matrix.one_mul] at this
    exact eq_sub_of_add_eq this
  have hMiP : Mi * P = 1 - ε • Mi := by
    have := hM'
    rw [Matrix.mul_add, Matrix.mul_smul, Matrix.mul_one] at this
    exact eq_sub_of_add_eq this
  have hBB : B * Bᵀ = Mi * P * Miᵀ := by
    show Mi * Dᵀ * (Mi * Dᵀ)ᵀ = _
    rw [transpose_mul, transpose_transpose, ← hP]
    simp only [Matrix.mul_assoc]
  refine ⟨hBB, ?_⟩
  rw [hBB, hMit]
  calc P * (Mi * P * Mi) * P = (P * Mi) * P * (Mi * P) := by simp only [Matrix.mul_assoc]
    _ = (1 - ε • Mi) * P * (1 - ε • Mi) := by rw [hPMi, hMiP]
    _ = (1 - ε • Mi) * (P * (1 - ε • Mi)) := by rw [Matrix.mul_assoc]
    _ = (1 - ε • Mi) * ((1 - ε • Mi) * P) := by
        congr 1
        rw [Matrix.mul_sub, Matrix.sub_mul, Matrix.mul_one, Matrix.one_mul, Matrix.mul_smul, Matrix.smul_mul, hPMi, hMiP]
    _ = (1 - ε • Mi) * (1 - ε • Mi) * P := by rw [Matrix.mul_assoc]

end MatrixFacts

/-- eigenvalue-wise size of the Neumann perturbation: on an eigen-direction of `P` with eigenvalue `l > 0`
the draw has variance `l/(l+ε)²` instead of `1/l`; the defect is between `0` and `2ε/l²`. -/
theorem neumann_eig_bound (l ε : ℝ) (hl : 0 < l) (hε : 0 < ε) :
    0 ≤ 1 / l - l / (l + ε) ^ 2 ∧ 1 / l - l / (l + ε) ^ 2 ≤ 2 * ε / l ^ 2 := by
  have h1 : 0 < l + ε := by linarith
  have key : 1 / l - l / (l + ε) ^ 2 = (2 * l * ε + ε ^ 2) / (l * (l + ε) ^ 2) := by
    field_simp; ring
  rw [key]
  constructor
  · positivity
  · rw [div_le_div_iff₀ (by positivity) (by positivity)]
    nlinarith [mul_pos hl hε, mul_pos (mul_pos hl hl) hε, mul_pos (mul_pos hl hε) hε, mul_pos (mul_pos hε hε) hε,
      mul_pos (mul_pos (mul_pos hl hl) hl) hε, mul_pos (mul_pos (mul_pos hl hl) hε) hε, mul_pos (mul_pos (mul_pos hl hε) hε) hε]


/-! ## Part C — generator law vs. reported density -/


/-- **Normal: `rng.normal(mean, std)` has the density `Normal.logpdf` reports.**  The documented law of the
call is `N(mean, std²)` (Mathlib's `gaussianPDFReal`). -/
theorem normal_plumbing_eq_density (x m s : ℝ) (hs : 0 < s) :
    Real.exp (eval (env4 x m s 0) (normalLogpdf (var 0) (var 1) (var 2)))
      = ProbabilityTheory.gaussianPDFReal m (Real.toNNReal (s ^ 2)) x := by
  have h2 : (0:ℝ) < 2 * π := by positivity
  have hsq : √(2 * π * s ^ 2) = s * √(2 * π) := by
    rw [Real.sqrt_mul h2.le, Real.sqrt_sq hs.le, mul_comm]
  simp only [ProbabilityTheory.gaussianPDFReal, Real.coe_toNNReal _ (sq_nonneg s), hsq]
  simp [normalLogpdf]
  rw [sub_eq_add_neg, Real.exp_add, Real.exp_neg, Real.exp_log (by positivity)]
  congr 2
  field_simp
  ring

/-- **Gaussian in dimension 1 with stored `sqrtprec = r`**: the draw `mean + ξ/r` (`ξ` standard normal) is
`N(mean, 1/r²)`, whose density is `exp (Gaussian.logpdf)`. -/
theorem gauss1_plumbing_eq_density (x m r : ℝ) (hr : 0 < r) :
    Real.exp (eval (env4 x m r 0) (gauss1Logpdf (var 0) (var 1) (var 2)))
      = ProbabilityTheory.gaussianPDFReal m (Real.toNNReal (1 / r ^ 2)) x := by
  have h2 : (0:ℝ) < 2 * π := by positivity
  have hr2 : (0:ℝ) < r ^ 2 := by positivity
  have hsq : √(2 * π * (1 / r ^ 2)) = √(2 * π) / r := by
    rw [Real.sqrt_mul h2.le, one_div, Real.sqrt_inv, Real.sqrt_sq hr.le]; ring
  simp only [ProbabilityTheory.gaussianPDFReal, Real.coe_toNNReal _ (by positivity : (0:ℝ) ≤ 1 / r ^ 2), hsq]
  simp [gauss1Logpdf]
  rw [sub_eq_add_neg, Real.exp_add]
  congr 1
  · rw [show -(2⁻¹ * (Real.log (2 * π) + -(2 * Real.log r))) = Real.log (r / √(2 * π)) by
      rw [Real.log_div hr.ne' (by positivity), Real.log_sqrt h2.le]; ring]
    rw [Real.exp_log (by positivity), Real.sqrt_mul (by norm_num : (0:ℝ) ≤ 2)]
  · congr 1
    field_simp

/-- **Laplace: `rng.laplace(location, scale)`** — numpy's documented density `exp(-|x-μ|/b)/(2b)` is
`exp (Laplace.logpdf)`. -/
theorem laplace_plumbing_eq_density (x l b : ℝ) (hb : 0 < b) :
    Real.exp (eval (env4 x l b 0) (laplaceLogpdf (var 0) (var 1) (var 2)))
      = 1 / (2 * b) * Real.exp (-|x - l| / b) := by
  simp [laplaceLogpdf]
  rw [sub_eq_add_neg, Real.exp_add, Real.exp_log (by positivity)]
  congr 1
  · field_simp
  · congr 1; ring

/-- **Uniform: `rng.uniform(low, high)`** — the documented density `1/(high-low)` on the interval is
`exp (Uniform.logpdf)` there. -/
theorem uniform_plumbing_eq_density (lo hi : ℝ) (h : lo < hi) :
    Real.exp (eval (env4 0 lo hi 0) (uniformLogpdf (var 1) (var 2))) = 1 / (hi - lo) := by
  have : 0 < hi - lo := sub_pos.mpr h
  simp [uniformLogpdf]
  rw [Real.exp_neg, Real.exp_log this]

/-- **Cauchy: `location + scale · C`, `C` standard Cauchy** has density Mathlib's `cauchyPDFReal location scale`,
which is `exp (Cauchy.logpdf)`. -/
theorem cauchy_plumbing_eq_density (x l s : ℝ) (hs : 0 < s) :
    Real.exp (eval (env4 x l s 0) (cauchyLogpdf (var 0) (var 1) (var 2)))
      = ProbabilityTheory.cauchyPDFReal l (Real.toNNReal s) x := by
  simp only [ProbabilityTheory.cauchyPDFReal, Real.coe_toNNReal _ hs.le]
  have hpos : 0 < π * s * (1 + ((x - l) / s) ^ 2) := by positivity
  have h1 : (x - l) ^ 2 + s ^ 2 ≠ 0 := by positivity
  simp [cauchyLogpdf]
  rw [Real.exp_neg, Real.exp_log hpos]
  field_simp
  ring

/-- **Gamma: `rng.gamma(shape, scale=1/rate)`** is the Gamma law with that shape and *rate*
(Mathlib's `gammaPDFReal shape rate`) — the conversion `scale = 1/rate` made by the code is the right one. -/
theorem gamma_plumbing_eq_density (k r x : ℝ) (hk : 0 < k) (hr : 0 < r) (hx : 0 ≤ x) :
    numpyGammaPdf k (1 / r) x = ProbabilityTheory.gammaPDFReal k r x := by
  unfold numpyGammaPdf ProbabilityTheory.gammaPDFReal
  rw [if_pos hx]
  have hG : 0 < Real.Gamma k := Real.Gamma_pos_of_pos hk
  have hrk : 0 < r ^ k := Real.rpow_pos_of_pos hr k
  rw [one_div, Real.inv_rpow hr.le]
  rw [show -x / r⁻¹ = -(r * x) by field_simp]
  field_simp


/-! ## Part D — ModifiedHalfNormal rejection loops -/


/-- **sqrt-gamma proposal, rejection identity.**  `T ~ gamma(α/2, scale 1/δ)`, `X = √T` has density
`∝ x^(α-1) exp(-δ x²)`; multiplied by `exp` of the coded log-acceptance bound (at `T = x²`) it is a constant
times the MHN density `x^(α-1) exp(-β x² + γ x)`: accepted draws follow the target. -/
theorem mhn_gamma_proposal_identity (x α β γ : ℝ) (hx : 0 < x) :
    x ^ (α - 1) * Real.exp (-(mhnDelta α β γ) * x ^ 2)
        * Real.exp (eval (env4 (x ^ 2) α β γ) (Mhn.gpAccept (var 1) (var 2) (var 3) (var 0)))
      = Real.exp (-(γ * γ / (4 * (β - mhnDelta α β γ)))) * (x ^ (α - 1) * Real.exp (-β * x ^ 2 + γ * x)) := by
  have hd := delta_indep (x ^ 2) α β γ
  simp only [Mhn.gpAccept, eval_sub, eval_add, eval_mul, eval_neg, eval_div, eval_var, env4_0, env4_1, env4_2, env4_3, hd]
  simp only [eval, Real.sqrt_sq hx.le]
  rw [mul_assoc, ← Real.exp_add, mul_left_comm, ← Real.exp_add]
  congr 2
  simp
  rw [Real.sqrt_sq hx.le]
  ring

/-- the coded bound of the sqrt-gamma proposal is a genuine log-probability (`≤ 0`) whenever `δ < β` -/
theorem mhn_gamma_bound_nonpos (t α β γ : ℝ) (ht : 0 ≤ t) (hδ : mhnDelta α β γ < β) :
    eval (env4 t α β γ) (Mhn.gpAccept (var 1) (var 2) (var 3) (var 0)) ≤ 0 := by
  obtain ⟨s, hs0, rfl⟩ : ∃ s, 0 ≤ s ∧ t = s * s := ⟨√t, Real.sqrt_nonneg t, (Real.mul_self_sqrt ht).symm⟩
  have hd := delta_indep (s * s) α β γ
  simp only [Mhn.gpAccept, eval_sub, eval_add, eval_mul, eval_neg, eval_div, eval_var, env4_0, env4_2, env4_3, hd]
  simp only [eval, Real.sqrt_mul_self hs0]
  set d := mhnDelta α β γ
  have hpos : 0 < β - d := sub_pos.mpr hδ
  norm_num
  rw [Real.sqrt_mul_self hs0, le_div_iff₀ (by positivity)]
  nlinarith [sq_nonneg (2 * (β - d) * s - γ)]

/-- **normal proposal: the coded bound vs. the bound of the published algorithm.**  The code has
`(α-1)·log X - log μ + …` where the algorithm has `(α-1)·log(X/μ) + …`; the difference is the constant
`(α-2)·log μ`. -/
theorem mhn_normal_bound_excess (x α β γ : ℝ) (hx : 0 < x) (hμ : 0 < mhnMu α β γ) :
    eval (env4 x α β γ) (Mhn.npAccept (var 1) (var 2) (var 3) (var 0))
      = ((α - 1) * Real.log (x / mhnMu α β γ) + (2 * β * mhnMu α β γ - γ) * (mhnMu α β γ - x))
        + (α - 2) * Real.log (mhnMu α β γ) := by
  have hm := mu_indep x α β γ
  simp only [Mhn.npAccept, eval_sub, eval_add, eval_mul, eval_neg, eval_div, eval_var, env4_0, env4_1, env4_2, env4_3, hm]
  simp only [eval, hm]
  rw [Real.log_div hx.ne' hμ.ne']
  norm_num
  ring

/-- **normal proposal, rejection identity for the published bound**: `N(μ, 1/(2β))` density
`∝ exp(-β(x-μ)²)` times `exp((α-1) log(x/μ) + (2βμ-γ)(μ-x))` is a constant times the MHN density. -/
theorem mhn_normal_proposal_identity (x α β γ μ : ℝ) (hx : 0 < x) (hμ : 0 < μ) :
    Real.exp (-β * (x - μ) ^ 2) * Real.exp ((α - 1) * Real.log (x / μ) + (2 * β * μ - γ) * (μ - x))
      = Real.exp (β * μ ^ 2 - γ * μ - (α - 1) * Real.log μ) * (x ^ (α - 1) * Real.exp (-β * x ^ 2 + γ * x)) := by
  rw [Real.rpow_def_of_pos hx, ← Real.exp_add, ← Real.exp_add, ← Real.exp_add, Real.log_div hx.ne' hμ.ne']
  congr 1
  ring

/-- **Known finding (latent): the coded normal-proposal bound is positive at the matching point**:
at `X = μ` it equals `(α-2)·log μ`, which is `> 0` whenever `α > 2` and `μ > 1` — the "acceptance
probability" `exp(bound)` exceeds 1 there, so the accepted draws follow `proposal·min(1, ratio)`. -/
theorem mhn_normal_bound_positive_counterexample (α β γ : ℝ) (hα : 2 < α) (hμ : 1 < mhnMu α β γ) :
    0 < eval (env4 (mhnMu α β γ) α β γ) (Mhn.npAccept (var 1) (var 2) (var 3) (var 0)) := by
  have h0 : 0 < mhnMu α β γ := by linarith
  rw [mhn_normal_bound_excess _ α β γ h0 h0, div_self h0.ne', Real.log_one]
  have : 0 < Real.log (mhnMu α β γ) := Real.log_pos hμ
  have : 0 < (α - 2) * Real.log (mhnMu α β γ) := mul_pos (by linarith) this
  nlinarith

/-- the hypotheses of the counterexample are satisfiable: `α = 3, β = 1, γ = 4` gives `μ = 1 + √2 > 1` -/
theorem mhn_normal_bound_positive_instance : 1 < mhnMu 3 1 4 := by
  simp only [mhnMu, Mhn.mu, eval_div, eval_add, eval_mul, eval_sub, eval_var, env4_1, env4_2, env4_3]
  simp only [eval]
  norm_num
  have h : (4:ℝ) < √32 := by
    rw [show (4:ℝ) = √16 by rw [show (16:ℝ) = 4 ^ 2 by norm_num, Real.sqrt_sq (by norm_num)]]
    exact Real.sqrt_lt_sqrt (by norm_num) (by norm_num)
  linarith

/-- **Algorithm 3 (`γ ≤ 0`), rejection identity**: with `X = m·T^{v₁}` the factor `exp(-v₂ T)` of the gamma
proposal times `exp` of the coded bound `v₂ T - β X² + γ X` is exactly `exp(-β X² + γ X)`. -/
theorem mhn_neg_gamma_identity (t m β γ : ℝ) :
    let ρ := env4 t m β γ
    Real.exp (-(eval ρ (Mhn.ngVal2 (var 2) (var 3) (var 1))) * t)
        * Real.exp (eval ρ (Mhn.ngAccept (var 2) (var 3) (var 1) (var 0)))
      = Real.exp (-β * (eval ρ (Mhn.ngX (var 2) (var 3) (var 1) (var 0))) ^ 2
                  + γ * eval ρ (Mhn.ngX (var 2) (var 3) (var 1) (var 0))) := by
  intro ρ
  rw [← Real.exp_add]
  congr 1
  simp only [Mhn.ngAccept, eval_sub, eval_add, eval_mul, eval_var]
  simp only [ρ, env4_0, env4_2, env4_3]
  ring


/-! ## non-vacuity of the hypotheses -/
example := neumann_eig_bound 2 (1 / 67108864) (by norm_num) (by norm_num)
example := normal_plumbing_eq_density (1 / 2) 1 2 (by norm_num)
example := gauss1_plumbing_eq_density (1 / 2) 1 2 (by norm_num)
example := laplace_plumbing_eq_density 0 1 2 (by norm_num)
example := uniform_plumbing_eq_density 1 3 (by norm_num)
example := cauchy_plumbing_eq_density 0 1 2 (by norm_num)
example := gamma_plumbing_eq_density 2 4 1 (by norm_num) (by norm_num) (by norm_num)
example := mhn_gamma_proposal_identity 1 2 2 2 (by norm_num)
example := mhn_normal_proposal_identity 1 3 1 4 2 (by norm_num) (by norm_num)
example := mhn_normal_bound_positive_counterexample 3 1 4 (by norm_num) mhn_normal_bound_positive_instance
example := wrap_single_draw .gaussian 5 (by simp) (by simp)
example := wrap_many_draws .gmrfNeumann 5 3 (by norm_num) (by simp)
example : (!![2] : Matrix (Fin 1) (Fin 1) ℚ) * !![1 / 2] = 1 ∧ (!![2] : Matrix (Fin 1) (Fin 1) ℚ)ᵀ * !![2] = !![4] ∧ (1 / 2 : ℚ) * (1 / 2) * 4 = 1 := by
  refine ⟨?_, ?_, by norm_num⟩ <;> (ext i j; fin_cases i; fin_cases j; simp [Matrix.mul_apply]; try norm_num)
example : plumb .gamma [[2], [4]] 1 3 = some ⟨"gamma", [[2], [1 / 4]], (3, 1)⟩ := by decide +kernel

end CuqiVerif.C05
