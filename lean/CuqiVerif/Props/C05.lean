import CuqiVerif.Model.C05
import Mathlib.Data.Matrix.Basic
import Mathlib.LinearAlgebra.Matrix.NonsingularInverse

/-!
# C05 — direct samples follow the density and the given random stream
-/
namespace CuqiVerif.C05

open Matrix

/-- **Covariance of a Gaussian draw.**  If the perturbation is `B e` with `R B = 1` (what any of the
three solvers computes), then `B Bᵀ` is the inverse of the precision `Rᵀ R` the log-density uses —
for every square `R`, symmetric or not, triangular or not. -/
theorem gauss_cov_eq_inv_precision {n : Type*} [Fintype n] [DecidableEq n] {K : Type*} [Field K]
    (R B : Matrix n n K) (h : R * B = 1) : (B * Bᵀ) * (Rᵀ * R) = 1 ∧ (Rᵀ * R) * (B * Bᵀ) = 1 := by
  have h' : B * R = 1 := mul_eq_one_comm.mp h
  have ht : Bᵀ * Rᵀ = 1 := by rw [← transpose_mul, h, transpose_one]
  have ht' : Rᵀ * Bᵀ = 1 := by rw [← transpose_mul, h', transpose_one]
  constructor
  · calc B * Bᵀ * (Rᵀ * R) = B * (Bᵀ * Rᵀ) * R := by simp only [Matrix.mul_assoc]
      _ = 1 := by rw [ht, Matrix.mul_one, h']
  · calc Rᵀ * R * (B * Bᵀ) = Rᵀ * (R * B) * Bᵀ := by simp only [Matrix.mul_assoc]
      _ = 1 := by rw [h, Matrix.mul_one, ht']

end CuqiVerif.C05
