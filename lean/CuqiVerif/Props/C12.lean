import CuqiVerif.Model.C12
import Mathlib.Tactic.Ring
import Mathlib.Analysis.InnerProductSpace.Basic
import Mathlib.Analysis.InnerProductSpace.LinearMap
import Mathlib.Analysis.Calculus.FDeriv.Comp
import Mathlib.Analysis.Calculus.FDeriv.Linear

/-!
# C12 — property theorems

All statements are about the definitions of `Model/C12.lean` that the driver executes
(`applyOne`, `applyFunc`, `forward`, `gradientOne`, `checkGradient`, `vecMat`, …), for an arbitrary
carrier of numbers, arbitrary geometry maps and an arbitrary forward function; the analytic
statement (`gradient_chain_rule_*`) instantiates the carrier with real inner-product spaces.

Hypotheses that exclude an input class on which the code misbehaves are spelled out, the theorem
is then called `…_partial`, and a `…_counterexample` shows the misbehaviour on a concrete instance.
-/

namespace CuqiVerif.C12

variable {α β : Type}

/-! ## vocabulary -/

/-- A user callable of one argument acts on the numbers by `F₀` and, like every numpy expression,
    returns either a plain array or an array that inherits the subclass attributes of its argument. -/
def FuncLike (func : Val α → Except Err (Val β)) (F₀ : α → β) : Prop :=
  ∀ v, ∃ t, func v = .ok ⟨F₀ v.data, t⟩ ∧ (t = none ∨ t = v.tag)

/-- Same for a callable of two arguments (`gradient(direction, wrt)`). -/
def GradLike (gf : Val β → Val α → Except Err (Val α)) (g₀ : β → α → α) : Prop :=
  ∀ a b, ∃ t, gf a b = .ok ⟨g₀ a.data b.data, t⟩ ∧ (t = none ∨ t = a.tag ∨ t = b.tag)

/-- The geometry compared with itself is equal (never raises), with its own maps. -/
def SelfOK (G : Geom α) : Prop := ∀ b, geomEq ⟨b, G.gid⟩ G = .ok (some G.maps)

/-- Comparing the geometry object `g` with `G` does not raise, and if they compare equal then
    `g`'s `fun2par` is `G`'s.  (False for `Discrete(4)` vs `Discrete(3)` — raises — and for the
    default geometry vs an expansion geometry on the same grid — equal with different maps.) -/
def CrossOK (g : Nat) (G : Geom α) : Prop :=
  ∃ o, (∀ b, geomEq ⟨b, g⟩ G = .ok o) ∧ ∀ m, o = some m → m.f2p = G.f2p

/-- what `forward` must return for the numbers `w` produced by the forward function:
    `fun2par` of the range geometry, with the given wrapping -/
def outOf (R : Geom β) (w : β) (tag : Option Tag) : Except Err (Val β) :=
  R.f2p w >>= fun p => pure ⟨p, tag⟩

@[simp] lemma ok_bind {γ δ : Type} (a : γ) (f : γ → Except Err δ) : (Except.ok a >>= f) = f a := rfl
@[simp] lemma error_bind {γ δ : Type} (e : Err) (f : γ → Except Err δ) : (Except.error e >>= f) = Except.error e := rfl
@[simp] lemma pure_eq_ok {γ : Type} (a : γ) : (pure a : Except Err γ) = Except.ok a := rfl
@[simp] lemma throw_eq_error {γ : Type} (e : Err) : (throw e : Except Err γ) = Except.error e := rfl

lemma bind_eq_ok {γ δ : Type} {x : Except Err γ} {f : γ → Except Err δ} {y : δ}
    (h : (x >>= f) = .ok y) : ∃ a, x = .ok a ∧ f a = .ok y := by
  cases x with
  | error e => cases h
  | ok a => exact ⟨a, rfl, h⟩

theorem selfOK_of_noRaise (G : Geom α) (h : G.eqRaises.lookup G.gid = none) : SelfOK G := by
  intro b; simp [geomEq, h]

theorem crossOK_of_unrelated (g : Nat) (G : Geom α) (h1 : G.eqRaises.lookup g = none)
    (h2 : g ≠ G.gid) (h3 : G.eqTrue.lookup g = none) : CrossOK g G := by
  refine ⟨none, ?_, by intro m hm; cases hm⟩
  intro b; simp [geomEq, h1, h2, h3]

/-! ## 1. forward: every representation of the input gives the same output -/

private lemma toPar_plain (R : Geom β) (w : β) :
    toPar R ⟨w, none⟩ false false = outOf R w none := by
  simp only [toPar, outOf, Bool.not_false, if_true, Bool.false_eq_true, if_false, bind_assoc, pure_bind]

private lemma toPar_tagged (R : Geom β) (w : β) (g : Nat) (hc : CrossOK g R) (t : Option Tag)
    (ht : t = none ∨ t = some ⟨false, g⟩) :
    toPar R ⟨w, t⟩ true false = outOf R w (some ⟨true, R.gid⟩) := by
  obtain ⟨o, ho, hm⟩ := hc
  rcases ht with rfl | rfl
  · simp only [toPar, outOf, Bool.not_false, if_true, bind_assoc, pure_bind]
  · simp only [toPar, outOf, ho false, ok_bind]
    cases o with
    | none => simp [bind_assoc]
    | some m => simp [arrParameters, hm m rfl, bind_assoc]

lemma applyOne_plain_par (D : Geom α) (R : Geom β)
    (func : Val α → Except Err (Val β)) (F₀ : α → β) (hf : FuncLike func F₀) (x : α) :
    applyOne func R D ⟨x, none⟩ true = outOf R (F₀ (D.p2f x)) none := by
  obtain ⟨t, h, ht⟩ := hf ⟨D.p2f x, none⟩
  have : t = none := by rcases ht with h | h <;> exact h
  subst this
  have h1 : toFun D ⟨x, none⟩ true = .ok ⟨D.p2f x, none⟩ := by simp [toFun]
  simp only [applyOne, h1, ok_bind, h, Option.isSome_none]
  exact toPar_plain R _

/-- **Forward is representation-invariant.**  For a parameter vector `x` of the domain geometry the
    four single-array representations — `x` as plain parameters; `par2fun x` flagged `is_par=False`;
    a CUQIarray of the domain geometry holding `x` (parameters) or `par2fun x` (function values),
    whatever the `is_par` argument says — all return `fun2par_R (F (par2fun_D x))`, as a plain array
    for plain input and as a CUQIarray flagged parameters on the range geometry for CUQIarray
    input.  No round-trip property of the domain geometry is needed.
    `_partial`: the comparison of the domain geometry object with the range geometry must be well
    behaved (`CrossOK`), which the code does not guarantee (see the two counterexamples). -/
theorem forward_representation_invariant_partial (D : Geom α) (R : Geom β)
    (func : Val α → Except Err (Val β)) (F₀ : α → β) (hf : FuncLike func F₀)
    (hs : SelfOK D) (hc : CrossOK D.gid R) (x : α) :
    applyOne func R D ⟨x, none⟩ true = outOf R (F₀ (D.p2f x)) none
    ∧ applyOne func R D ⟨D.p2f x, none⟩ false = outOf R (F₀ (D.p2f x)) none
    ∧ (∀ b, applyOne func R D ⟨x, some ⟨true, D.gid⟩⟩ b = outOf R (F₀ (D.p2f x)) (some ⟨true, R.gid⟩))
    ∧ (∀ b, applyOne func R D ⟨D.p2f x, some ⟨false, D.gid⟩⟩ b
          = outOf R (F₀ (D.p2f x)) (some ⟨true, R.gid⟩)) := by
  refine ⟨?_, ?_, ?_, ?_⟩
  · obtain ⟨t, h, ht⟩ := hf ⟨D.p2f x, none⟩
    have : t = none := by rcases ht with h | h <;> exact h
    subst this
    have h1 : toFun D ⟨x, none⟩ true = .ok ⟨D.p2f x, none⟩ := by simp [toFun]
    simp only [applyOne, h1, ok_bind, h, Option.isSome_none]
    exact toPar_plain R _
  · obtain ⟨t, h, ht⟩ := hf ⟨D.p2f x, none⟩
    have : t = none := by rcases ht with h | h <;> exact h
    subst this
    have h1 : toFun D ⟨D.p2f x, none⟩ false = .ok ⟨D.p2f x, none⟩ := by simp [toFun]
    simp only [applyOne, h1, ok_bind, h, Option.isSome_none]
    exact toPar_plain R _
  · intro b
    obtain ⟨t, h, ht⟩ := hf ⟨D.p2f x, some ⟨false, D.gid⟩⟩
    have h1 : toFun D ⟨x, some ⟨true, D.gid⟩⟩ b = .ok ⟨D.p2f x, some ⟨false, D.gid⟩⟩ := by
      simp [toFun, hs true, arrFunvals, Geom.maps]
    simp only [applyOne, h1, ok_bind, h, Option.isSome_some]
    exact toPar_tagged R _ D.gid hc t ht
  · intro b
    obtain ⟨t, h, ht⟩ := hf ⟨D.p2f x, some ⟨false, D.gid⟩⟩
    have h1 : toFun D ⟨D.p2f x, some ⟨false, D.gid⟩⟩ b = .ok ⟨D.p2f x, some ⟨false, D.gid⟩⟩ := by
      simp [toFun, hs false, arrFunvals, Geom.maps]
    simp only [applyOne, h1, ok_bind, h, Option.isSome_some]
    exact toPar_tagged R _ D.gid hc t ht

/-- non-vacuity: an identity-like domain, a scaling range geometry, a tag-propagating `F` -/
example :
    let D : Geom Int := { gid := 0, p2f := fun p => p + 1, f2p := fun f => pure (f - 1), identityType := false, grad := none, parDim := 1 }
    let R : Geom Int := { gid := 1, p2f := fun p => 2 * p, f2p := fun f => pure (f / 2), identityType := false, grad := none, parDim := 1 }
    applyOne (fun v => pure (lift1 true (fun f => 4 * f) v)) R D ⟨3, some ⟨true, 0⟩⟩ false
      = .ok ⟨8, some ⟨true, 1⟩⟩ := by rfl

/-- **Sample collections are mapped column by column**, each column exactly as the plain parameter
    vector it holds, and the result is a `Samples` object on the range geometry.  (The flag of the
    collection and the `is_par` argument do not occur on the right-hand side: they are ignored —
    correct for parameter samples, see `forward_samples_flag_ignored_counterexample`.) -/
theorem forward_samples_columnwise (D : Geom α) (R : Geom β)
    (func : Val α → Except Err (Val β)) (F₀ : α → β) (hf : FuncLike func F₀)
    (cols : List α) (flag : Bool) (g : Nat) (b : Bool) :
    applyFunc func R D (.samples cols flag g) b
      = (cols.mapM (fun c => R.f2p (F₀ (D.p2f c)))) >>= fun outs => pure (.samples outs R.gid) := by
  have hcol : ∀ c, (applyOne func R D (Val.plain c) true >>= fun p => pure p.data)
      = R.f2p (F₀ (D.p2f c)) := by
    intro c
    rw [Val.plain, applyOne_plain_par D R func F₀ hf c, outOf]
    cases R.f2p (F₀ (D.p2f c)) <;> rfl
  simp only [applyFunc]
  congr 1
  exact congrArg (fun f => List.mapM f cols) (funext hcol)

/-- each column of the output is the output of the corresponding parameter vector -/
theorem forward_samples_column (D : Geom α) (R : Geom β)
    (func : Val α → Except Err (Val β)) (F₀ : α → β) (hf : FuncLike func F₀)
    (hf2p : ∀ w, ∃ p, R.f2p w = .ok p)
    (cols : List α) (flag : Bool) (g : Nat) (b : Bool) :
    ∃ outs, applyFunc func R D (.samples cols flag g) b = .ok (.samples outs R.gid)
      ∧ outs.length = cols.length
      ∧ ∀ j (hj : j < cols.length) (hj' : j < outs.length),
          applyOne func R D ⟨cols[j], none⟩ true = .ok ⟨outs[j], none⟩ := by
  rw [forward_samples_columnwise D R func F₀ hf]
  have key : ∀ cs : List α, ∃ outs, cs.mapM (fun c => R.f2p (F₀ (D.p2f c))) = .ok outs
      ∧ outs.length = cs.length
      ∧ ∀ j (hj : j < cs.length) (hj' : j < outs.length), R.f2p (F₀ (D.p2f cs[j])) = .ok outs[j] := by
    intro cs
    induction cs with
    | nil => exact ⟨[], by simp, rfl, by intro j hj; simp at hj⟩
    | cons c cs ih =>
      obtain ⟨outs, h1, h2, h3⟩ := ih
      obtain ⟨p, hp⟩ := hf2p (F₀ (D.p2f c))
      refine ⟨p :: outs, by simp [List.mapM_cons, hp, h1], by simp [h2], ?_⟩
      intro j hj hj'
      cases j with
      | zero => simpa using hp
      | succ k => simpa using h3 k (by simpa using hj) (by simpa using hj')
  obtain ⟨outs, h1, h2, h3⟩ := key cols
  refine ⟨outs, by simp [h1], h2, ?_⟩
  intro j hj hj'
  rw [applyOne_plain_par D R func F₀ hf, outOf, h3 j hj hj']
  rfl

example : applyFunc (fun v => pure (lift1 true (fun f : Int => 4 * f) v))
      { gid := 1, p2f := fun p => 2 * p, f2p := fun f => pure (f / 2), identityType := false, grad := none, parDim := 1 }
      { gid := 0, p2f := fun p => p + 1, f2p := fun f => pure (f - 1), identityType := false, grad := none, parDim := 1 }
      (.samples [3, 0] true 0) true = .ok (.samples [8, 2] 1) := by rfl

/-- **Wrapped like the input**, for *every* array input (also arrays carrying a foreign geometry):
    whenever `forward` returns, the result is a CUQIarray iff the input was one, and then it is
    flagged parameters and carries the range geometry. -/
theorem wrap_like_input (D : Geom α) (R : Geom β)
    (func : Val α → Except Err (Val β)) (F₀ : α → β) (hf : FuncLike func F₀)
    (x : Val α) (b : Bool) (y : Val β) (h : applyOne func R D x b = .ok y) :
    y.tag = if x.tag.isSome then some ⟨true, R.gid⟩ else none := by
  unfold applyOne at h
  cases hx : toFun D x b with
  | error e => rw [hx] at h; cases h
  | ok xf =>
    rw [hx, ok_bind] at h
    obtain ⟨t, hfx, ht⟩ := hf xf
    rw [hfx, ok_bind] at h
    cases hxt : x.tag with
    | some tg =>
      simp only [hxt, Option.isSome_some, if_true] at h ⊢
      unfold toPar at h
      obtain ⟨r, -, hr⟩ := bind_eq_ok h
      simp at hr
      rw [← hr]
    | none =>
      have hxf : xf.tag = none := by
        unfold toFun at hx
        simp only [hxt] at hx
        split at hx
        · simp at hx; rw [← hx]
        · simp at hx; rw [← hx]; exact hxt
      have : t = none := by rcases ht with h' | h' <;> simp [h', hxf]
      subst this
      simp only [hxt, Option.isSome_none, Bool.false_eq_true, if_false, toPar_plain, outOf] at h ⊢
      obtain ⟨p, -, hp⟩ := bind_eq_ok h
      simp at hp
      rw [← hp]

/-! ### the three input classes on which `forward` departs from the property -/

/-- **Defect (Samples flag ignored).**  A collection flagged `is_par=False` holding the function
    value `4 = par2fun 2` is treated as the *parameter* 4 (output `16`), whereas the same function
    value passed as an array with `is_par=False` gives the output `8` of the parameter `2`. -/
theorem forward_samples_flag_ignored_counterexample :
    let D : Geom Int := { gid := 0, p2f := fun p => 2 * p, f2p := fun f => pure (f / 2), identityType := false, grad := none, parDim := 1 }
    let R : Geom Int := { gid := 1, p2f := id, f2p := pure, identityType := true, grad := none, parDim := 1 }
    let func : Val Int → Except Err (Val Int) := fun v => pure (lift1 true (fun f => 2 * f) v)
    applyFunc func R D (.samples [4] false 0) false = .ok (.samples [16] 1)
    ∧ applyOne func R D ⟨4, none⟩ false = .ok ⟨8, none⟩
    ∧ applyOne func R D ⟨2, none⟩ true = .ok ⟨8, none⟩ := by
  refine ⟨by rfl, by rfl, by rfl⟩

/-- **Defect (geometry comparison raises).**  When evaluating `domain_geometry == range_geometry`
    raises (`Discrete(4)` vs `Discrete(3)`), a CUQIarray input makes `forward` raise although the
    plain array works. -/
theorem forward_geometry_eq_raises_counterexample :
    let D : Geom Int := { gid := 0, p2f := id, f2p := pure, identityType := true, grad := none, parDim := 1 }
    let R : Geom Int := { gid := 1, p2f := id, f2p := pure, identityType := true, grad := none, parDim := 1,
                          eqRaises := [(0, Err.indexError)] }
    let func : Val Int → Except Err (Val Int) := fun v => pure (lift1 true (fun f => 2 * f) v)
    applyOne func R D ⟨3, none⟩ true = .ok ⟨6, none⟩
    ∧ applyOne func R D ⟨3, some ⟨true, 0⟩⟩ true = .error Err.indexError := by
  refine ⟨by rfl, by rfl⟩

/-- **Defect (loose geometry equality).**  When the domain geometry compares equal to a range
    geometry with a different `fun2par` (default geometry vs an expansion on the same grid), a
    CUQIarray input is converted with the *domain* geometry's `fun2par` (here the identity:
    output `6`), a plain array with the range geometry's (output `3`). -/
theorem forward_loose_eq_counterexample :
    let D : Geom Int := { gid := 0, p2f := id, f2p := pure, identityType := true, grad := none, parDim := 1 }
    let R : Geom Int := { gid := 1, p2f := fun p => 2 * p, f2p := fun f => pure (f / 2), identityType := false, grad := none, parDim := 1,
                          eqTrue := [(0, D.maps)] }
    let func : Val Int → Except Err (Val Int) := fun v => pure (lift1 true (fun f => 2 * f) v)
    applyOne func R D ⟨3, none⟩ true = .ok ⟨3, none⟩
    ∧ applyOne func R D ⟨3, some ⟨true, 0⟩⟩ true = .ok ⟨6, some ⟨true, 1⟩⟩ := by
  refine ⟨by rfl, by rfl⟩

/-! ## 2. a distribution only renames the input -/

/-- **`forward(distribution)` only renames.**  It succeeds exactly when the arguments parse and the
    dimension matches, and then the new object has `_non_default_args = [name]` and every other
    attribute (functions, geometries, subclass attributes) unchanged; the model is a value, so the
    original is untouched by construction. -/
theorem rename_only_renames (m : ModelObj α β) (nPos : Nat) (kw : List String) (dim : Nat)
    (name : String) (b : Bool) :
    (∀ m', forward m nPos kw (.dist dim name) b = .ok (.model m') →
        m'.nonDefaultArgs = [name] ∧ m'.forwardFunc = m.forwardFunc ∧ m'.gradientFunc = m.gradientFunc
        ∧ m'.rangeGeom = m.rangeGeom ∧ m'.domainGeom = m.domainGeom ∧ m'.extra = m.extra)
    ∧ ((∃ m', forward m nPos kw (.dist dim name) b = .ok (.model m'))
        ↔ (∃ ks, parseArgs m.nonDefaultArgs nPos kw = .ok ks) ∧ dim = m.domainGeom.parDim)
    ∧ (∀ y, forward m nPos kw (.dist dim name) b ≠ .ok (.data y)) := by
  unfold forward
  cases hp : parseArgs m.nonDefaultArgs nPos kw with
  | error e => simp
  | ok ks =>
    by_cases hd : dim = m.domainGeom.parDim
    · simp [hd]
    · simp [hd]

/-- after renaming, data passed under the new keyword is treated exactly as the original model
    treats data passed positionally -/
theorem rename_then_forward (m : ModelObj α β) (a name : String) (hm : m.nonDefaultArgs = [a])
    (x : Input α) (b : Bool) :
    forward { m with nonDefaultArgs := [name] } 0 [name] (.data x) b = forward m 1 [] (.data x) b := by
  simp [forward, parseArgs, sameNameSet, hm]

example : parseArgs ["x"] 0 ["y"] = .error Err.valueError := by rfl
example : parseArgs ["x"] 1 ["x"] = .error Err.valueError := by rfl
example : parseArgs ["x"] 1 [] = .ok ["x"] := by rfl

/-! ## 3. gradient: refusal -/

/-- every ingredient of the gradient exists: a gradient (or Jacobian) function, an identity-like
    range geometry, and a domain geometry that is identity-like or provides `gradient` -/
def Formable (m : ModelObj α β) : Prop :=
  m.gradientFunc.isSome = true ∧ m.rangeGeom.identityType = true
    ∧ (m.domainGeom.grad.isSome = true ∨ m.domainGeom.identityType = true)

/-- the check passes exactly for formable configurations and array (non-`Samples`) arguments -/
theorem checkGradient_ok_iff (m : ModelObj α β) (ds ws : Bool) :
    checkGradient m ds ws = .ok () ↔ Formable m ∧ ds = false ∧ ws = false := by
  unfold checkGradient Formable
  cases m.gradientFunc.isNone.eq_false_or_eq_true with
  | inl h1 =>
    have h1' : m.gradientFunc.isSome = false := by
      cases hg : m.gradientFunc <;> simp_all
    simp [h1, h1']
  | inr h1 =>
    have h1' : m.gradientFunc.isSome = true := by
      cases hg : m.gradientFunc <;> simp_all
    cases ds <;> cases ws <;> cases h2 : m.rangeGeom.identityType <;>
      cases h3 : m.domainGeom.grad <;> cases h4 : m.domainGeom.identityType <;> simp [h1, h1']

/-- **Refusal, part 1.**  Outside the formable configurations `gradient` never returns a value,
    whatever the representations of direction and linearisation point. -/
theorem gradient_refused_not_formable (m : ModelObj α β) (h : ¬ Formable m) (dir : Val β) (wrt : Val α)
    (idp iwp : Bool) (v : Val α) : gradientOne m dir wrt idp iwp ≠ .ok v := by
  intro hv
  unfold gradientOne at hv
  obtain ⟨wp, -, h1⟩ := bind_eq_ok hv
  obtain ⟨u, h2, -⟩ := bind_eq_ok h1
  exact h ((checkGradient_ok_iff m false false).1 h2).1

/-- **Refusal, part 2.**  A `Samples` object as direction or linearisation point is refused. -/
theorem gradient_refused_samples (m : ModelObj α β) (dir : GArg β) (wrt : GArg α) (idp iwp : Bool)
    (hs : dir = .samples ∨ wrt = .samples) (r : Except Err (Val α)) (v : Val α)
    (h : gradient m dir wrt idp iwp = some r) : r ≠ .ok v := by
  intro hv
  subst hv
  cases dir with
  | samples =>
    cases wrt with
    | samples =>
      simp only [gradient] at h
      split at h
      · simp at h
        obtain ⟨u, h2, h3⟩ := bind_eq_ok h
        cases h3
      · cases h
    | one w =>
      simp only [gradient] at h
      simp at h
      obtain ⟨wp, -, h1⟩ := bind_eq_ok h
      obtain ⟨u, h2, h3⟩ := bind_eq_ok h1
      cases h3
  | one d =>
    rcases hs with hs | hs
    · cases hs
    · subst hs
      simp only [gradient] at h
      split at h
      · simp at h
        obtain ⟨u, h2, h3⟩ := bind_eq_ok h
        cases h3
      · cases h

/-- **Refusal, part 3.**  A linearisation point given as function values that the domain geometry
    cannot convert to parameters (`fun2par` raises `e`) is refused with the same class. -/
theorem gradient_refused_no_fun2par (m : ModelObj α β) (dir : Val β) (f : α) (idp : Bool) (e : Err)
    (he : m.domainGeom.f2p f = .error e) : gradientOne m dir ⟨f, none⟩ idp false = .error e := by
  simp [gradientOne, toPar, he]

example :
    let G : Geom Int := { gid := 1, p2f := id, f2p := pure, identityType := true, grad := none, parDim := 1 }
    let m : ModelObj Int Int := { forwardFunc := fun v => pure v, gradientFunc := none, rangeGeom := G,
                                  domainGeom := G, nonDefaultArgs := ["x"] }
    checkGradient m false false = .error Err.notImplemented := by rfl

/-! ## 4. gradient: value -/

/-- the user attribute `gradient(direction, wrt_par)` of a geometry acts on the numbers by `gg₀`;
    its result is plain or inherits the subclass of one of its arguments -/
def GeomGradLike (gg : Val α → Val α → Val α) (gg₀ : α → α → α) : Prop :=
  ∀ a b, (gg a b).data = gg₀ a.data b.data ∧ ((gg a b).tag = none ∨ (gg a b).tag = a.tag ∨ (gg a b).tag = b.tag)

/-- … and never inherits from its *first* argument (the function-space gradient) -/
def GeomGradSafe (gg : Val α → Val α → Val α) (gg₀ : α → α → α) : Prop :=
  ∀ a b, (gg a b).data = gg₀ a.data b.data ∧ ((gg a b).tag = none ∨ (gg a b).tag = b.tag)

/-- the numbers `gradient` must return for direction `d` (parameters of the range geometry) at the
    parameter `x`: `fun2par_D (g₀ (par2fun_R d) (par2fun_D x))` for an identity-like domain, and
    `gg₀ (g₀ (par2fun_R d) (par2fun_D x)) x` when the domain geometry provides `gradient` -/
def gradData (D : Geom α) (R : Geom β) (g₀ : β → α → α) (gg₀ : Option (α → α → α)) (d : β) (x : α) :
    Except Err α :=
  match gg₀ with
  | none => D.f2p (g₀ (R.p2f d) (D.p2f x))
  | some gg₀ => pure (gg₀ (g₀ (R.p2f d) (D.p2f x)) x)

/-- `gradient` once the checks have passed -/
lemma gradientOne_formable (m : ModelObj α β) (gf : Val β → Val α → Except Err (Val α))
    (hgf : m.gradientFunc = some gf) (hF : Formable m) (dir : Val β) (wrt : Val α) (idp iwp : Bool) :
    gradientOne m dir wrt idp iwp =
      (toPar m.domainGeom wrt false iwp >>= fun wrtPar =>
       toFun m.domainGeom wrt iwp >>= fun wrtF =>
       toFun m.rangeGeom dir idp >>= fun dirF =>
       gf dirF wrtF >>= fun g =>
       match m.domainGeom.grad with
       | some gg => toPar m.domainGeom (gg g wrtPar) dir.tag.isSome true
       | none => toPar m.domainGeom g dir.tag.isSome false) := by
  unfold gradientOne
  rw [(checkGradient_ok_iff m false false).2 ⟨hF, rfl, rfl⟩]
  simp only [ok_bind, hgf]
  rfl

private lemma toPar_final_none (D : Geom α) (hs : SelfOK D) (w : α) (t : Option Tag)
    (ht : t = none ∨ t = some ⟨false, D.gid⟩) :
    (toPar D ⟨w, t⟩ false false >>= fun v => pure v.data) = D.f2p w := by
  rcases ht with rfl | rfl
  · simp only [toPar_plain, outOf]
    cases D.f2p w <;> rfl
  · simp only [toPar, hs false, ok_bind, arrParameters, Geom.maps, Bool.false_eq_true, if_false]
    cases D.f2p w <;> rfl

private lemma toPar_final_some (D : Geom α) (hs : SelfOK D) (w : α) (t : Option Tag)
    (ht : t = none ∨ t = some ⟨true, D.gid⟩) :
    (toPar D ⟨w, t⟩ false true >>= fun v => pure v.data) = .ok w := by
  rcases ht with rfl | rfl
  · simp [toPar]
  · simp [toPar, hs true, arrParameters]

/-- **Value of the gradient, and its invariance under the representation of the linearisation
    point.**  In a formable configuration, for a plain direction `d` and the four representations
    of the parameter `x` (plain parameters; plain function values with `is_wrt_par=False`;
    CUQIarray of the domain geometry flagged parameters / function values) the numbers returned are
    `gradData` — the user's direction-Jacobian product evaluated at `par2fun_D x`, followed by the
    geometry's `gradient` at the parameter `x` if it has one, else by `fun2par_D`.
    Hypotheses: `fun2par_D (par2fun_D x) = x` (only used by the two function-value forms);
    `_partial`: the geometry's `gradient` must not hand down the subclass attributes of its first
    argument (`GeomGradSafe`), otherwise the code applies `fun2par` to the parameter-space gradient
    (`gradient_stale_flag_counterexample`). -/
theorem gradient_representation_invariant_partial (m : ModelObj α β)
    (gf : Val β → Val α → Except Err (Val α)) (g₀ : β → α → α)
    (hgf : m.gradientFunc = some gf) (hG : GradLike gf g₀) (hF : Formable m)
    (gg₀ : Option (α → α → α))
    (hgg : match m.domainGeom.grad, gg₀ with
           | some gg, some gg₀ => GeomGradSafe gg gg₀
           | none, none => True
           | _, _ => False)
    (hs : SelfOK m.domainGeom) (d : β) (x : α)
    (hrt : m.domainGeom.f2p (m.domainGeom.p2f x) = .ok x) :
    let D := m.domainGeom
    let want := gradData D m.rangeGeom g₀ gg₀ d x
    (gradientOne m ⟨d, none⟩ ⟨x, none⟩ true true >>= fun v => pure v.data) = want
    ∧ (gradientOne m ⟨d, none⟩ ⟨D.p2f x, none⟩ true false >>= fun v => pure v.data) = want
    ∧ (∀ b, (gradientOne m ⟨d, none⟩ ⟨x, some ⟨true, D.gid⟩⟩ true b >>= fun v => pure v.data) = want)
    ∧ (∀ b, (gradientOne m ⟨d, none⟩ ⟨D.p2f x, some ⟨false, D.gid⟩⟩ true b >>= fun v => pure v.data) = want) := by
  intro D want
  have hdir : toFun m.rangeGeom ⟨d, none⟩ true = .ok ⟨m.rangeGeom.p2f d, none⟩ := by simp [toFun]
  -- the four (wrt_par, wrt funvals) pairs
  have p1 : toPar D ⟨x, none⟩ false true = .ok ⟨x, none⟩ := by simp [toPar]
  have f1 : toFun D ⟨x, none⟩ true = .ok ⟨D.p2f x, none⟩ := by simp [toFun]
  have p2 : toPar D ⟨D.p2f x, none⟩ false false = .ok ⟨x, none⟩ := by simp [toPar, D, hrt]
  have f2 : toFun D ⟨D.p2f x, none⟩ false = .ok ⟨D.p2f x, none⟩ := by simp [toFun]
  have p3 : ∀ b, toPar D ⟨x, some ⟨true, D.gid⟩⟩ false b = .ok ⟨x, some ⟨true, D.gid⟩⟩ := by
    intro b; simp [toPar, hs true, D, arrParameters]
  have f3 : ∀ b, toFun D ⟨x, some ⟨true, D.gid⟩⟩ b = .ok ⟨D.p2f x, some ⟨false, D.gid⟩⟩ := by
    intro b; simp [toFun, hs true, D, arrFunvals, Geom.maps]
  have p4 : ∀ b, toPar D ⟨D.p2f x, some ⟨false, D.gid⟩⟩ false b = .ok ⟨x, some ⟨true, D.gid⟩⟩ := by
    intro b; simp [toPar, hs false, D, arrParameters, Geom.maps, hrt]
  have f4 : ∀ b, toFun D ⟨D.p2f x, some ⟨false, D.gid⟩⟩ b = .ok ⟨D.p2f x, some ⟨false, D.gid⟩⟩ := by
    intro b; simp [toFun, hs false, D, arrFunvals, Geom.maps]
  -- common tail: given wrt_par = ⟨x, tp⟩ and wrt funvals = ⟨p2f x, tf⟩ with harmless tags
  have tail : ∀ (tp tf : Option Tag), (tp = none ∨ tp = some ⟨true, D.gid⟩) →
      (tf = none ∨ tf = some ⟨false, D.gid⟩) →
      ((gf ⟨m.rangeGeom.p2f d, none⟩ ⟨D.p2f x, tf⟩ >>= fun g =>
        match m.domainGeom.grad with
        | some gg => toPar m.domainGeom (gg g ⟨x, tp⟩) false true
        | none => toPar m.domainGeom g false false) >>= fun v => pure v.data) = want := by
    intro tp tf htp htf
    obtain ⟨t, hg, ht⟩ := hG ⟨m.rangeGeom.p2f d, none⟩ ⟨D.p2f x, tf⟩
    change gf _ _ = .ok ⟨g₀ (m.rangeGeom.p2f d) (D.p2f x), t⟩ at hg
    change t = none ∨ t = none ∨ t = tf at ht
    rw [hg, ok_bind]
    have ht' : t = none ∨ t = some ⟨false, D.gid⟩ := by
      rcases ht with h | h | h
      · exact Or.inl h
      · exact Or.inl h
      · rcases htf with h' | h' <;> simp_all
    cases hgr : m.domainGeom.grad with
    | none =>
      cases gg₀ with
      | some _ => simp [hgr] at hgg
      | none => simpa [want, gradData] using toPar_final_none D hs _ t ht'
    | some gg =>
      cases gg₀ with
      | none => simp [hgr] at hgg
      | some gg₀ =>
        simp only [hgr] at hgg
        obtain ⟨hd, htag⟩ := hgg ⟨g₀ (m.rangeGeom.p2f d) (D.p2f x), t⟩ ⟨x, tp⟩
        dsimp only at hd htag ⊢
        generalize gg ⟨g₀ (m.rangeGeom.p2f d) (D.p2f x), t⟩ ⟨x, tp⟩ = v at hd htag ⊢
        obtain ⟨vd, vt⟩ := v
        dsimp only at hd htag
        subst hd
        have htag' : vt = none ∨ vt = some ⟨true, D.gid⟩ := by
          rcases htag with h | h
          · exact Or.inl h
          · rcases htp with h' | h' <;> simp_all
        simpa [want, gradData] using toPar_final_some D hs _ _ htag'
  refine ⟨?_, ?_, ?_, ?_⟩
  · rw [gradientOne_formable m gf hgf hF, p1, ok_bind, f1, ok_bind, hdir, ok_bind]
    exact tail none none (Or.inl rfl) (Or.inl rfl)
  · rw [gradientOne_formable m gf hgf hF, p2, ok_bind, f2, ok_bind, hdir, ok_bind]
    exact tail none none (Or.inl rfl) (Or.inl rfl)
  · intro b
    rw [gradientOne_formable m gf hgf hF, p3 b, ok_bind, f3 b, ok_bind, hdir, ok_bind]
    exact tail _ _ (Or.inr rfl) (Or.inr rfl)
  · intro b
    rw [gradientOne_formable m gf hgf hF, p4 b, ok_bind, f4 b, ok_bind, hdir, ok_bind]
    exact tail _ _ (Or.inr rfl) (Or.inr rfl)

/-- **Defect (stale `is_par` flag).**  Domain geometry `par2fun p = 2p`, `fun2par f = f/2`, with the
    correct `gradient(g, x) = 2g` written so that the result inherits the subclass of `g`; `F = id`
    with a gradient function whose result inherits the subclass of `wrt`.  For the plain parameter
    the gradient of direction `6` is `12`; for the same parameter held in a CUQIarray of the domain
    geometry the code returns `fun2par 12 = 6`. -/
theorem gradient_stale_flag_counterexample :
    let D : Geom Int := { gid := 0, p2f := fun p => 2 * p, f2p := fun f => pure (f / 2), identityType := false,
                          grad := some (lift2 .arg1 (fun g _ => 2 * g)), parDim := 1 }
    let R : Geom Int := { gid := 1, p2f := id, f2p := pure, identityType := true, grad := none, parDim := 1 }
    let m : ModelObj Int Int := { forwardFunc := fun v => pure v,
                                  gradientFunc := some (fun d w => pure (lift2 .arg2 (fun d _ => d) d w)),
                                  rangeGeom := R, domainGeom := D, nonDefaultArgs := ["x"] }
    gradientOne m ⟨6, none⟩ ⟨5, none⟩ true true = .ok ⟨12, none⟩
    ∧ gradientOne m ⟨6, none⟩ ⟨5, some ⟨true, 0⟩⟩ true true = .ok ⟨6, some ⟨true, 0⟩⟩ := by
  refine ⟨by rfl, by rfl⟩

/-- `gradient` for a plain direction and a plain parameter vector -/
lemma gradientOne_plain (m : ModelObj α β) (gf : Val β → Val α → Except Err (Val α)) (g₀ : β → α → α)
    (hgf : m.gradientFunc = some gf) (hG : GradLike gf g₀) (hF : Formable m) (d : β) (x : α) :
    gradientOne m ⟨d, none⟩ ⟨x, none⟩ true true =
      match m.domainGeom.grad with
      | some gg => toPar m.domainGeom (gg ⟨g₀ (m.rangeGeom.p2f d) (m.domainGeom.p2f x), none⟩ ⟨x, none⟩) false true
      | none => m.domainGeom.f2p (g₀ (m.rangeGeom.p2f d) (m.domainGeom.p2f x)) >>= fun p => pure ⟨p, none⟩ := by
  rw [gradientOne_formable m gf hgf hF]
  have p1 : toPar m.domainGeom ⟨x, none⟩ false true = .ok ⟨x, none⟩ := by simp [toPar]
  have f1 : toFun m.domainGeom ⟨x, none⟩ true = .ok ⟨m.domainGeom.p2f x, none⟩ := by simp [toFun]
  have hdir : toFun m.rangeGeom ⟨d, none⟩ true = .ok ⟨m.rangeGeom.p2f d, none⟩ := by simp [toFun]
  obtain ⟨t, hg, ht⟩ := hG ⟨m.rangeGeom.p2f d, none⟩ ⟨m.domainGeom.p2f x, none⟩
  change gf _ _ = .ok ⟨g₀ (m.rangeGeom.p2f d) (m.domainGeom.p2f x), t⟩ at hg
  change t = none ∨ t = none ∨ t = none at ht
  have : t = none := by rcases ht with h | h | h <;> exact h
  subst this
  rw [p1, ok_bind, f1, ok_bind, hdir, ok_bind, hg, ok_bind]
  cases m.domainGeom.grad with
  | some gg => rfl
  | none => exact toPar_plain _ _

/-! ## 5. gradient = transposed Jacobian of the parameter-to-output map (analysis) -/

section analytic
open scoped RealInnerProductSpace

variable {V W : Type} [NormedAddCommGroup V] [InnerProductSpace ℝ V]
  [NormedAddCommGroup W] [InnerProductSpace ℝ W]

/-- **Chain rule, domain geometry with `gradient`.**  Let the range geometry be identity-like
    (`par2fun_R` a linear isometry `eR`, `fun2par_R` its inverse), let the forward function `F₀` be
    differentiable at `par2fun_D x` with derivative `F'` and the domain geometry's `par2fun_D` at
    `x` with derivative `G'`, let the user's gradient function be the direction-Jacobian product of
    `F₀` (`⟪g₀ d f, w⟫ = ⟪d, F' w⟫`) and the geometry's `gradient` the direction-Jacobian product of
    `par2fun_D` (`⟪gg₀ g x, v⟫ = ⟪g, G' v⟫`).  Then `forward` computes
    `x ↦ eR⁻¹ (F₀ (par2fun_D x))` on parameters, that map has derivative `eR⁻¹ ∘ F' ∘ G'` at `x`, and
    `gradient(d, x)` returns a plain array `r` with `⟪r, v⟫ = ⟪d, (eR⁻¹ ∘ F' ∘ G') v⟫` for all `v`,
    i.e. `r` is the transposed Jacobian of the parameter-to-output map applied to `d`. -/
theorem gradient_chain_rule_geometry_gradient (m : ModelObj V W)
    (F₀ : V → W) (hfw : FuncLike m.forwardFunc F₀)
    (gf : Val W → Val V → Except Err (Val V)) (g₀ : W → V → V)
    (hgf : m.gradientFunc = some gf) (hG : GradLike gf g₀)
    (gg : Val V → Val V → Val V) (gg₀ : V → V → V)
    (hgrad : m.domainGeom.grad = some gg) (hGG : GeomGradLike gg gg₀)
    (eR : W ≃ₗᵢ[ℝ] W) (hRp : m.rangeGeom.p2f = eR) (hRf : m.rangeGeom.f2p = fun w => .ok (eR.symm w))
    (hRi : m.rangeGeom.identityType = true)
    (x : V) (F' : V →L[ℝ] W) (G' : V →L[ℝ] V)
    (hF : HasFDerivAt F₀ F' (m.domainGeom.p2f x)) (hP : HasFDerivAt m.domainGeom.p2f G' x)
    (hVJP : ∀ d w, ⟪g₀ d (m.domainGeom.p2f x), w⟫ = ⟪d, F' w⟫)
    (hGVJP : ∀ g v, ⟪gg₀ g x, v⟫ = ⟪g, G' v⟫) (d : W) :
    (∀ y, applyOne m.forwardFunc m.rangeGeom m.domainGeom ⟨y, none⟩ true
            = .ok ⟨eR.symm (F₀ (m.domainGeom.p2f y)), none⟩)
    ∧ HasFDerivAt (fun y => eR.symm (F₀ (m.domainGeom.p2f y)))
        ((eR.symm.toContinuousLinearEquiv : W →L[ℝ] W).comp (F'.comp G')) x
    ∧ ∃ r, gradientOne m ⟨d, none⟩ ⟨x, none⟩ true true = .ok ⟨r, none⟩
        ∧ ∀ v, ⟪r, v⟫ = ⟪d, eR.symm (F' (G' v))⟫ := by
  have hForm : Formable m := ⟨by simp [hgf], hRi, Or.inl (by simp [hgrad])⟩
  refine ⟨?_, ?_, ?_⟩
  · intro y
    rw [applyOne_plain_par _ _ _ F₀ hfw, outOf, hRf]; rfl
  · exact ((eR.symm.toContinuousLinearEquiv : W →L[ℝ] W).hasFDerivAt).comp x (hF.comp x hP)
  · obtain ⟨hd, htag⟩ := hGG ⟨g₀ (m.rangeGeom.p2f d) (m.domainGeom.p2f x), none⟩ ⟨x, none⟩
    have htag' : (gg ⟨g₀ (m.rangeGeom.p2f d) (m.domainGeom.p2f x), none⟩ ⟨x, none⟩).tag = none := by
      rcases htag with h | h | h <;> exact h
    refine ⟨gg₀ (g₀ (m.rangeGeom.p2f d) (m.domainGeom.p2f x)) x, ?_, ?_⟩
    · rw [gradientOne_plain m gf g₀ hgf hG hForm, hgrad]
      dsimp only at hd htag' ⊢
      generalize gg ⟨g₀ (m.rangeGeom.p2f d) (m.domainGeom.p2f x), none⟩ ⟨x, none⟩ = v at hd htag' ⊢
      obtain ⟨vd, vt⟩ := v
      dsimp only at hd htag'
      subst hd htag'
      simp [toPar]
    · intro v
      rw [hGVJP, hVJP, hRp, LinearIsometryEquiv.inner_map_eq_flip]

/-- **Chain rule, identity-like domain geometry** (`par2fun_D` a linear isometry `eD` — identity or
    reshaping — with `fun2par_D` its inverse, no `gradient` attribute): `gradient(d, x)` returns
    `r = eD⁻¹ (g₀ (eR d) (eD x))` and `⟪r, v⟫ = ⟪d, (eR⁻¹ ∘ F' ∘ eD) v⟫`, the transposed Jacobian of
    `x ↦ eR⁻¹ (F₀ (eD x))` applied to `d`. -/
theorem gradient_chain_rule_identity_like (m : ModelObj V W)
    (F₀ : V → W) (hfw : FuncLike m.forwardFunc F₀)
    (gf : Val W → Val V → Except Err (Val V)) (g₀ : W → V → V)
    (hgf : m.gradientFunc = some gf) (hG : GradLike gf g₀)
    (hgrad : m.domainGeom.grad = none) (hDi : m.domainGeom.identityType = true)
    (eD : V ≃ₗᵢ[ℝ] V) (hDp : m.domainGeom.p2f = eD) (hDf : m.domainGeom.f2p = fun f => .ok (eD.symm f))
    (eR : W ≃ₗᵢ[ℝ] W) (hRp : m.rangeGeom.p2f = eR) (hRf : m.rangeGeom.f2p = fun w => .ok (eR.symm w))
    (hRi : m.rangeGeom.identityType = true)
    (x : V) (F' : V →L[ℝ] W) (hF : HasFDerivAt F₀ F' (eD x))
    (hVJP : ∀ d w, ⟪g₀ d (eD x), w⟫ = ⟪d, F' w⟫) (d : W) :
    (∀ y, applyOne m.forwardFunc m.rangeGeom m.domainGeom ⟨y, none⟩ true
            = .ok ⟨eR.symm (F₀ (eD y)), none⟩)
    ∧ HasFDerivAt (fun y => eR.symm (F₀ (eD y)))
        ((eR.symm.toContinuousLinearEquiv : W →L[ℝ] W).comp (F'.comp (eD.toContinuousLinearEquiv : V →L[ℝ] V))) x
    ∧ ∃ r, gradientOne m ⟨d, none⟩ ⟨x, none⟩ true true = .ok ⟨r, none⟩
        ∧ ∀ v, ⟪r, v⟫ = ⟪d, eR.symm (F' (eD v))⟫ := by
  have hForm : Formable m := ⟨by simp [hgf], hRi, Or.inr hDi⟩
  refine ⟨?_, ?_, ?_⟩
  · intro y
    rw [applyOne_plain_par _ _ _ F₀ hfw, outOf, hRf, hDp]; rfl
  · exact ((eR.symm.toContinuousLinearEquiv : W →L[ℝ] W).hasFDerivAt).comp x
      (hF.comp x ((eD.toContinuousLinearEquiv : V →L[ℝ] V).hasFDerivAt))
  · refine ⟨eD.symm (g₀ (eR d) (eD x)), ?_, ?_⟩
    · rw [gradientOne_plain m gf g₀ hgf hG hForm, hgrad]
      simp only [hDf, hDp, hRp, ok_bind]
      rfl
    · intro v
      rw [LinearIsometryEquiv.inner_map_eq_flip eD.symm, LinearIsometryEquiv.symm_symm, hVJP,
        LinearIsometryEquiv.inner_map_eq_flip eR]

/-- non-vacuity on `ℝ`: `F₀ f = f²`, identity geometries, gradient function `g₀ d f = 2 f d` -/
example (x d v : ℝ) : ⟪(2 * x * d : ℝ), v⟫ = ⟪d, (2 * x) * v⟫ := by
  simp only [Real.inner_apply]; ring

end analytic

/-! ## 6. the `jacobian=` wrapper and the matrix-backed linear model compute transposed products -/

section linalg
variable {K : Type} [CommSemiring K]

lemma dot_nil_left (v : List K) : dot ([] : List K) v = 0 := by simp [dot]
lemma dot_nil_right (a : List K) : dot a ([] : List K) = 0 := by cases a <;> simp [dot]

lemma vadd_length (a b : List K) (h : a.length = b.length) : (vadd a b).length = a.length := by
  induction a generalizing b with
  | nil => simp [vadd]
  | cons x xs ih =>
    cases b with
    | nil => simp at h
    | cons y ys => simp [vadd, ih ys (by simpa using h)]

lemma dot_vadd (a b v : List K) (h : a.length = b.length) :
    dot (vadd a b) v = dot a v + dot b v := by
  induction a generalizing b v with
  | nil =>
    cases b with
    | nil => simp [vadd, dot]
    | cons y ys => simp at h
  | cons x xs ih =>
    cases b with
    | nil => simp at h
    | cons y ys =>
      cases v with
      | nil => simp [vadd, dot]
      | cons z zs =>
        simp only [vadd, dot, ih ys zs (by simpa using h)]
        ring

lemma dot_vscale (c : K) (a v : List K) : dot (vscale c a) v = c * dot a v := by
  induction a generalizing v with
  | nil => simp [vscale, dot]
  | cons x xs ih =>
    cases v with
    | nil => simp [vscale, dot]
    | cons z zs =>
      have := ih zs
      simp only [vscale, List.map_cons, dot] at this ⊢
      rw [this]; ring

lemma dot_vzero (n : ℕ) (v : List K) : dot (vzero n : List K) v = 0 := by
  induction n generalizing v with
  | zero => simp [vzero, dot]
  | succ k ih =>
    cases v with
    | nil => simp [vzero, List.replicate_succ, dot]
    | cons z zs =>
      have := ih zs
      simp only [vzero, List.replicate_succ, dot] at this ⊢
      rw [this]; simp

lemma vecMat_length (n : ℕ) (d : List K) (J : List (List K)) (hJ : ∀ r ∈ J, r.length = n) :
    (vecMat n d J).length = n := by
  induction d generalizing J with
  | nil => simp [vecMat, vzero]
  | cons x xs ih =>
    cases J with
    | nil => simp [vecMat, vzero]
    | cons r rs =>
      have hr : r.length = n := hJ r (by simp)
      have hrs : ∀ r' ∈ rs, r'.length = n := fun r' h' => hJ r' (by simp [h'])
      simp only [vecMat]
      rw [vadd_length _ _ (by simp [vscale, hr, ih rs hrs])]
      simp [vscale, hr]

/-- **`direction @ jacobian(wrt)` is the transposed-Jacobian product**: for every matrix `J` with
    rows of length `n` and all vectors `d`, `v`: `⟨d J, v⟩ = ⟨d, J v⟩` (the defining relation of
    `Jᵀ d`), for the list implementation the driver executes, over every commutative semiring. -/
theorem vecMat_vjp (n : ℕ) (d : List K) (J : List (List K)) (hJ : ∀ r ∈ J, r.length = n) (v : List K) :
    dot (vecMat n d J) v = dot d (mulVec J v) := by
  induction d generalizing J with
  | nil => simp [vecMat, dot_vzero, dot_nil_left]
  | cons x xs ih =>
    cases J with
    | nil => simp [vecMat, dot_vzero, mulVec, dot_nil_right]
    | cons r rs =>
      have hr : r.length = n := hJ r (by simp)
      have hrs : ∀ r' ∈ rs, r'.length = n := fun r' h' => hJ r' (by simp [h'])
      simp only [vecMat, mulVec, List.map_cons, dot]
      rw [dot_vadd _ _ _ (by simp [vscale, hr, vecMat_length n xs rs hrs]), dot_vscale, ih rs hrs]
      rfl

/-- **The `jacobian=` wrapper of `Model.__init__`**: the gradient function it installs returns
    `direction @ jacobian(wrt)` — a CUQIarray iff `direction` is one — which is the transposed
    Jacobian applied to the direction. -/
theorem jacobian_wrapper (n : ℕ) (jac : List K → List (List K)) (d w : Val (List K))
    (hJ : ∀ r ∈ jac w.data, r.length = n) :
    (jacobianWrapper n jac d w).tag = d.tag
    ∧ ∀ v, dot (jacobianWrapper n jac d w).data v = dot d.data (mulVec (jac w.data) v) :=
  ⟨rfl, fun v => vecMat_vjp n d.data (jac w.data) hJ v⟩

example : vecMat 2 [1, 2] [[1, 2], [3, 4]] = ([7, 10] : List ℤ) := by rfl

/-- **Matrix-backed `LinearModel`**: its gradient function ignores the linearisation point and
    applies the stored transpose to the direction; if `At` is the transpose (`At v' = v' A`), it
    satisfies the direction-Jacobian relation `⟨At d, v⟩ = ⟨d, A v⟩` required by the chain rule. -/
theorem linear_model_gradient (n : ℕ) (A At : List (List K)) (R D : Geom (List K))
    (hA : ∀ r ∈ A, r.length = n) (hT : ∀ d, mulVec At d = vecMat n d A) (d w : Val (List K)) :
    ∃ g, (linearFromMatrix A At R D).gradientFunc = some g
      ∧ ∃ r, g d w = .ok r ∧ r.tag = d.tag ∧ ∀ v, dot r.data v = dot d.data (mulVec A v) := by
  refine ⟨_, rfl, _, rfl, rfl, fun v => ?_⟩
  show dot (mulVec At d.data) v = _
  rw [hT, vecMat_vjp n _ _ hA]

end linalg

end CuqiVerif.C12
