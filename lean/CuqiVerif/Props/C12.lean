import CuqiVerif.Model.C12

namespace CuqiVerif.C12

/-- placeholder while the harness is brought up -/
theorem lift1_data {α β : Type} (k : Bool) (f : α → β) (v : Val α) : (lift1 k f v).data = f v.data := rfl

end CuqiVerif.C12
