import CuqiVerif.Proofs.C08_orbit

/-!
# C08 — orbit-level theorems about NUTS on the integer line

Positions of one trajectory are indexed by `ℤ` (`z_k = Φ^k z_0`, `Φ` the leapfrog map).

1. which index interval `J` doublings visit, and that every start of a block reaches it with the
   same probability `2^{-J}` through the same nested sub-blocks (`doubling_*`);
2. the model's `loop` visits exactly these intervals and `Loop.n` counts their in-slice indices;
3. the selection kernel of one doubling is reversible w.r.t. the uniform distribution (`one_doubling_*`);
4. the whole orbit-level transition `Orb.P` (random directions, biased progressive sampling,
   block-wise stopping rule, depth bound, guard) satisfies detailed balance
   (`nuts_orbit_reversible`), is stochastic and leaves the uniform distribution on the admissible
   indices invariant (`nuts_orbit_invariant`);
5. the deterministic part of `Orb.P` is tied to the executable model (`buildTree_s_eq_good`,
   `loopBody_matches_orbit_body`, `loop_skeleton`, `top_accept_iff`).
The remaining gap is described in the comment block at the end of the file.
Definitions and helper lemmas: `Proofs/C08_orbit.lean`.
-/

namespace CuqiVerif.C08
open Finset

/-! ## (1) orbit indexing: which index interval do `J` doublings visit? -/

/-- **Visited interval after `J` doublings.**  Starting at index `i`, after `J` doublings with
    direction bits `d 0 … d (J-1)` (`true` = direction `−1`) the sampler has visited exactly the
    indices `[lo, lo + 2^J)` with `lo = i − Σ_{k<J, d k = −1} 2^k`; the start index lies inside.
    (`visited` appends a block of `2^j` points on the chosen side at doubling `j`, as `loopBody`
    does with `zminus`/`zplus`.) -/
theorem doubling_interval (d : ℕ → Bool) (i : ℤ) (J : ℕ) :
    let lo : ℤ := i - ∑ k ∈ range J, (if d k then (2 : ℤ) ^ k else 0)
    visited d i J = (lo, lo + 2 ^ J - 1) ∧ lo ≤ i ∧ i < lo + 2 ^ J := by
  intro lo
  have hlo : lo = i - (bsum d J : ℤ) := by
    simp only [lo, bsum_eq_sum]; push_cast
    congr 1
  have hlt := bsum_lt d J
  refine ⟨by rw [visited_eq, hlo], by rw [hlo]; omega, ?_⟩
  rw [hlo]
  have : ((bsum d J : ℕ) : ℤ) < 2 ^ J := by exact_mod_cast hlt
  linarith

example : visited (fun k => k = 0 ∨ k = 2) 0 3 = (-5, 2) := by decide

/-- **Exactly one direction sequence per start.**  For every target interval `B = [a, a + 2^J)`
    and every start index `i ∈ B`, the bits `d 0 … d (J-1)` produce `B` if and only if
    `d k = −1` exactly when the `k`-th binary digit of the offset `i − a` is `1`. -/
theorem doubling_symmetric (d : ℕ → Bool) (a i : ℤ) (J : ℕ) (h1 : a ≤ i) (h2 : i < a + 2 ^ J) :
    (visited d i J).1 = a ↔ ∀ k < J, d k = (i - a).toNat.testBit k := by
  have hm : (i - a).toNat < 2 ^ J := by
    have : ((i - a).toNat : ℤ) < 2 ^ J := by rw [Int.toNat_of_nonneg (by linarith)]; linarith
    exact_mod_cast this
  rw [← bsum_eq_iff d J _ hm, visited_eq]
  simp only
  constructor
  · intro h; omega
  · intro h; rw [h]; omega

example : (visited (fun k => (5 : ℕ).testBit k) 0 3).1 = -5 := by decide

/-- **Every start index of `B` produces `B` with the same probability `2^{-J}`**: among the `2^J`
    equally likely direction sequences of length `J` exactly one produces `B = [a, a + 2^J)` from
    the start `i ∈ B`. -/
theorem doubling_probability (a i : ℤ) (J : ℕ) (h1 : a ≤ i) (h2 : i < a + 2 ^ J) :
    ((univ.filter (fun d : Fin J → Bool => (visited (extBits d) i J).1 = a)).card : ℚ)
      / (univ : Finset (Fin J → Bool)).card = 1 / 2 ^ J := by
  have hcard : (univ.filter (fun d : Fin J → Bool => (visited (extBits d) i J).1 = a)).card = 1 := by
    rw [Finset.card_eq_one]
    refine ⟨fun k => (i - a).toNat.testBit k, ?_⟩
    ext d
    simp only [mem_filter, mem_univ, true_and, mem_singleton]
    rw [doubling_symmetric _ a i J h1 h2]
    constructor
    · intro h; funext k; simpa [extBits] using h k k.2
    · rintro rfl k hk; simp [extBits, hk]
  rw [hcard]; simp

/-- **The intermediate intervals are the aligned dyadic blocks of `B` containing `i`.**  If the
    bits produce `B = [a, a + 2^J)` from `i`, then after `j ≤ J` doublings the visited interval is
    `[a + 2^j · q, a + 2^j · (q+1))` with `q = ⌊(i − a) / 2^j⌋`. -/
theorem doubling_intermediate (d : ℕ → Bool) (a i : ℤ) (J j : ℕ) (h1 : a ≤ i) (h2 : i < a + 2 ^ J)
    (hB : (visited d i J).1 = a) (hj : j ≤ J) :
    visited d i j = (a + 2 ^ j * ((i - a) / 2 ^ j), a + 2 ^ j * ((i - a) / 2 ^ j + 1) - 1) := by
  have hbits := (doubling_symmetric d a i J h1 h2).mp hB
  have hb : bsum d j = (i - a).toNat % 2 ^ j := by
    rw [← bsum_of_testBit]
    exact bsum_congr _ _ _ (fun k hk => hbits k (by omega))
  rw [visited_eq, hb]
  have hnn : 0 ≤ i - a := by linarith
  have hcast : (((i - a).toNat % 2 ^ j : ℕ) : ℤ) = (i - a) % 2 ^ j := by
    push_cast; rw [Int.toNat_of_nonneg hnn]
  rw [hcast]
  have hdm := Int.emod_add_mul_ediv (i - a) (2 ^ j)
  ext <;> simp only <;> linarith

example : visited (fun k => (5 : ℕ).testBit k) 0 2 = (-5 + 2 ^ 2 * ((0 - (-5)) / 2 ^ 2), -5 + 2 ^ 2 * ((0 - (-5)) / 2 ^ 2 + 1) - 1) := by
  decide

/-! ## (3) the selection kernel of one doubling is reversible w.r.t. the uniform distribution -/

/-- **Move probability of one doubling.**  From an in-slice start `i` in the old half `A` the
    sampler ends the doubling at a *given* in-slice point `k` of the new half `N` with probability
    `min(1, n_N/n_A) · 1/n_N = min(1/n_A, 1/n_N)` — an expression symmetric in the two halves. -/
theorem one_doubling_move (S : ℤ → Bool) (A N : Finset ℤ) (hd : Disjoint A N) (i k : ℤ)
    (hi : i ∈ A) (hSi : S i = true) (hk : k ∈ N) (hSk : S k = true) :
    stepKernel S A N i k = min (1 / (nS S A : ℚ)) (1 / (nS S N : ℚ)) := by
  have hne : k ≠ i := fun h => (Finset.disjoint_left.mp hd hi) (h ▸ hk)
  have hA : (0 : ℚ) < nS S A := by exact_mod_cast nS_pos S A i hi hSi
  have hN : (0 : ℚ) < nS S N := by exact_mod_cast nS_pos S N k hk hSk
  simp only [stepKernel, hk, hSk, and_self, if_true, hne, if_false, add_zero]
  exact min_one_div_mul _ _ hA hN

example : stepKernel (fun x => x ≠ 1) {0, 1} {2, 3} 0 3 = 1 / 2 := by
  rw [one_doubling_move _ _ _ (by decide) _ _ (by decide) (by decide) (by decide) (by decide)]
  simp [nS]; decide +kernel

/-- **Stay probability of one doubling**: `1 − min(1, n_N/n_A)`. -/
theorem one_doubling_stay (S : ℤ → Bool) (A N : Finset ℤ) (hd : Disjoint A N) (i : ℤ) (hi : i ∈ A) :
    stepKernel S A N i i = 1 - min 1 ((nS S N : ℚ) / nS S A) := by
  have hiN : i ∉ N := Finset.disjoint_left.mp hd hi
  simp [stepKernel, hiN]

/-- **The one-doubling kernel is a probability distribution** over the points of the doubled
    interval (all mass on in-slice points of the new half and on the start). -/
theorem one_doubling_stochastic (S : ℤ → Bool) (A N : Finset ℤ) (i : ℤ) (hi : i ∈ A) :
    ∑ k ∈ A ∪ N, stepKernel S A N i k = 1 := by
  unfold stepKernel
  rw [Finset.sum_add_distrib, ← Finset.sum_filter, Finset.sum_const, Finset.sum_ite_eq']
  have hf : (A ∪ N).filter (fun k => k ∈ N ∧ S k = true) = N.filter (fun x => S x = true) := by
    ext x; simp only [mem_filter, mem_union]; tauto
  rw [hf, if_pos (Finset.mem_union_left _ hi)]
  change (nS S N) • _ + _ = _
  rw [nsmul_eq_mul]
  rcases Nat.eq_zero_or_pos (nS S N) with h0 | hpos
  · rw [h0]; simp
  · have : (nS S N : ℚ) ≠ 0 := by exact_mod_cast (ne_of_gt hpos)
    field_simp; ring

/-- **Detailed balance of one doubling w.r.t. the uniform distribution on the in-slice points of
    `A ∪ N`.**  `doublingKernel` takes as old half the half containing the start (from a start in
    `N` the roles of `A` and `N` swap — by `doubling_symmetric` both situations arise with the same
    probability).  For in-slice `i, k` of the union: `T(i → k) = T(k → i)`. -/
theorem one_doubling_reversible (S : ℤ → Bool) (A N : Finset ℤ) (hd : Disjoint A N) (i k : ℤ)
    (hi : i ∈ A ∪ N) (hk : k ∈ A ∪ N) (hSi : S i = true) (hSk : S k = true) :
    doublingKernel S A N i k = doublingKernel S A N k i := by
  have hd' : Disjoint N A := hd.symm
  rcases Finset.mem_union.mp hi with hiA | hiN <;> rcases Finset.mem_union.mp hk with hkA | hkN
  · have h1 : i ∉ N := Finset.disjoint_left.mp hd hiA
    have h2 : k ∉ N := Finset.disjoint_left.mp hd hkA
    simp only [doublingKernel, hiA, hkA, if_true, stepKernel, h1, h2, false_and, if_false, zero_add]
    by_cases h : k = i
    · subst h; rfl
    · rw [if_neg h, if_neg (Ne.symm h)]
  · have h1 : k ∉ A := Finset.disjoint_left.mp hd' hkN
    simp only [doublingKernel, hiA, h1, if_true, if_false]
    rw [one_doubling_move S A N hd i k hiA hSi hkN hSk, one_doubling_move S N A hd' k i hkN hSk hiA hSi,
      min_comm]
  · have h1 : i ∉ A := Finset.disjoint_left.mp hd' hiN
    simp only [doublingKernel, hkA, h1, if_true, if_false]
    rw [one_doubling_move S A N hd k i hkA hSk hiN hSi, one_doubling_move S N A hd' i k hiN hSi hkA hSk,
      min_comm]
  · have h1 : i ∉ A := Finset.disjoint_left.mp hd' hiN
    have h2 : k ∉ A := Finset.disjoint_left.mp hd' hkN
    simp only [doublingKernel, h1, h2, if_false, stepKernel, false_and, zero_add]
    by_cases h : k = i
    · subst h; rfl
    · rw [if_neg h, if_neg (Ne.symm h)]

/-- **One doubling leaves the uniform distribution on the in-slice points of `A ∪ N` invariant**:
    with weight `1/n` on each of the `n` in-slice points, the total weight arriving at an in-slice
    point `k` is again `1/n` (stated after cancelling the common factor `1/n`). -/
theorem one_doubling_invariant (S : ℤ → Bool) (A N : Finset ℤ) (hd : Disjoint A N) (k : ℤ)
    (hk : k ∈ A ∪ N) (hSk : S k = true) :
    ∑ i ∈ (A ∪ N).filter (fun x => S x = true), doublingKernel S A N i k = 1 := by
  have h1 : ∑ i ∈ (A ∪ N).filter (fun x => S x = true), doublingKernel S A N i k
      = ∑ i ∈ (A ∪ N).filter (fun x => S x = true), doublingKernel S A N k i := by
    apply Finset.sum_congr rfl
    intro i hi
    rw [Finset.mem_filter] at hi
    exact one_doubling_reversible S A N hd i k hi.1 hk hi.2 hSk
  rw [h1, Finset.sum_filter]
  have h2 : ∀ i ∈ A ∪ N, (if S i = true then doublingKernel S A N k i else 0) = doublingKernel S A N k i := by
    intro i _
    by_cases hS : S i = true
    · rw [if_pos hS]
    · rw [if_neg hS]
      have hne : i ≠ k := fun h => hS (h ▸ hSk)
      unfold doublingKernel stepKernel
      split <;> simp [hS]
  rw [Finset.sum_congr rfl h2]
  unfold doublingKernel
  rcases Finset.mem_union.mp hk with hkA | hkN
  · simp only [hkA, if_true]; exact one_doubling_stochastic S A N k hkA
  · have : k ∉ A := Finset.disjoint_left.mp hd.symm hkN
    simp only [this, if_false]
    rw [Finset.union_comm]; exact one_doubling_stochastic S N A k hkN

example : ∑ i ∈ ({0, 1} ∪ {2, 3} : Finset ℤ).filter (fun x => (fun x : ℤ => decide (x ≠ 1)) x = true),
    doublingKernel (fun x => decide (x ≠ 1)) {0, 1} {2, 3} i 3 = 1 :=
  one_doubling_invariant _ _ _ (by decide) 3 (by decide) (by decide)

/-! ## (2) link to the model: the doubling loop visits index intervals -/
section Link
variable {Z : Type}

/-- **One iteration of the doubling loop extends the visited index interval by one block.**
    If the loop state has visited exactly the indices `[lo, hi]` (`LoopInv`: ends are the orbit
    points `z_lo`, `z_hi`; `Loop.n` = number of in-slice indices; `hi − lo + 1 = 2^j`), then after
    `loopBody` with a full new sub-tree (`s = 1`) it has visited exactly
    `extend (direction bit) j (lo, hi)` — the block of `2^j` indices appended on the chosen side —
    and `Loop.n` is again the number of in-slice indices of the interval. -/
theorem loopBody_visits_interval (c : Ctx Z) (hinv : StepInverse c) (guard : Z → Bool) (z0 : Z)
    (st : Loop Z) (lo hi : ℤ) (I : LoopInv c z0 st lo hi) (hs : st.s = true)
    (hs' : (loopBody c guard st).s = true) :
    LoopInv c z0 (loopBody c guard st) (extend (dirBit st) st.j (lo, hi)).1
      (extend (dirBit st) st.j (lo, hi)).2 := by
  obtain ⟨len, _, _, hfull, I'⟩ := loopBody_inv c hinv guard z0 st lo hi I hs
  have hl : (len : ℤ) = 2 ^ st.j := by rw [hfull hs']; push_cast; rfl
  rw [hl] at I'
  unfold extend
  by_cases hb : dirBit st = true
  · simpa [hb] using I'
  · simpa [hb] using I'

/-- **After `J` completed doublings without stop the loop has visited the interval of
    `doubling_interval`**, `[lo, lo + 2^J)` with `lo = −Σ_{k<J, d_k = −1} 2^k` (start index `0`,
    `d_k` the direction drawn in iteration `k`), and `Loop.n` is the number of in-slice indices in it. -/
theorem loop_visits_interval (c : Ctx Z) (hinv : StepInverse c) (guard : Z → Bool) (z0 : Z)
    (us : List Rat) (h0 : inSlice c z0 = true) (J : ℕ)
    (hs : ∀ t ≤ J, ((loopBody c guard)^[t] (loopInit z0 us)).s = true) :
    let d : ℕ → Bool := fun t => dirBit ((loopBody c guard)^[t] (loopInit z0 us))
    let st := (loopBody c guard)^[J] (loopInit z0 us)
    LoopInv c z0 st (visited d 0 J).1 (visited d 0 J).2 ∧ st.j = J ∧
      (visited d 0 J).2 = (visited d 0 J).1 + 2 ^ J - 1 ∧
      st.n = cnt (sliceAt c z0) (visited d 0 J).1 (2 ^ J) := by
  intro d st
  have key : LoopInv c z0 st (visited d 0 J).1 (visited d 0 J).2 ∧ st.j = J := by
    induction J with
    | zero => exact ⟨loopInit_inv c z0 us h0, rfl⟩
    | succ J ih =>
      obtain ⟨I, hj⟩ := ih (fun t ht => hs t (by omega))
      have e : st = loopBody c guard ((loopBody c guard)^[J] (loopInit z0 us)) :=
        Function.iterate_succ_apply' _ _ _
      rw [e]
      refine ⟨?_, by rw [loopBody_j, hj]⟩
      have := loopBody_visits_interval c hinv guard z0 _ _ _ I (hs J (by omega)) (by rw [← e]; exact hs (J + 1) (le_refl _))
      rw [hj] at this
      exact this
  refine ⟨key.1, key.2, ?_, ?_⟩
  · rw [visited_eq]
  · rw [key.1.count]
    congr 1
    rw [visited_eq]; simp only
    have : ((2 : ℤ) ^ J).toNat = 2 ^ J := by
      have : ((2 : ℤ) ^ J) = ((2 ^ J : ℕ) : ℤ) := by push_cast; rfl
      rw [this, Int.toNat_natCast]
    rw [← this]; congr 1; ring

/-- **The loop of `nutsStep` is a finite iteration of `loopBody`**: it performs `m ≤ maxDepth + 1`
    doublings, every one of them entered with `s = 1`. -/
theorem nutsStep_eq_iterate (c : Ctx Z) (guard : Z → Bool) (md : ℕ) (z0 : Z) (us : List Rat) :
    ∃ m ≤ md + 1, nutsStep c guard md z0 us = (loopBody c guard)^[m] (loopInit z0 us) ∧
      ∀ t < m, ((loopBody c guard)^[t] (loopInit z0 us)).s = true :=
  loop_eq_iterate c guard md (md + 1) (loopInit z0 us)

/-- **At the end of a transition the visited indices form an interval `[lo, hi] ∋ 0`** (also when
    the last doubling was cut short by a stop), its ends are `zminus = z_lo`, `zplus = z_hi`, and
    `Loop.n` is the number of in-slice indices visited. -/
theorem nutsStep_visits_interval (c : Ctx Z) (hinv : StepInverse c) (guard : Z → Bool) (md : ℕ)
    (z0 : Z) (us : List Rat) (h0 : inSlice c z0 = true) :
    ∃ lo hi, LoopInv c z0 (nutsStep c guard md z0 us) lo hi :=
  loop_inv c hinv guard z0 md (md + 1) _ 0 0 (loopInit_inv c z0 us h0)

/-- a concrete reversible context: translation on `ℤ`, slice = even points of `[-6, 6]` -/
def exCtx : Ctx ℤ where
  step := fun v z => z + v
  ham := fun z => if z % 2 = 0 ∧ -6 ≤ z ∧ z ≤ 6 then XR.fin 0 else XR.fin (-5)
  noUturn := fun a b => decide (b - a < 6)
  logu := -1
  ham0 := 0

example : StepInverse exCtx := ⟨fun z => by simp [exCtx], fun z => by simp [exCtx]⟩

example : LoopInv exCtx 0 (loopInit 0 []) 0 0 :=
  loopInit_inv exCtx 0 [] (by simp [inSlice, exCtx, XR.geRat])

end Link

/-! ## (4) the orbit-level NUTS transition is reversible w.r.t. the uniform distribution on the slice -/

/-- a small trajectory: in-slice = indices in `[-3, 4]` other than `1`; a U-turn is reported for
    every block of `8` points whose lower end is below `-5` or above `-2`; no guard -/
def exOrb : Orb where
  S := fun k => decide (-3 ≤ k ∧ k ≤ 4 ∧ k ≠ 1)
  nd := fun k => decide (-6 ≤ k ∧ k ≤ 7)
  ut := fun j a => decide (j < 3 ∨ (-5 ≤ a ∧ a ≤ -2))
  g := fun _ => true

/-- **Whether the loop is still running depends on the visited block only, not on the start.**
    From any non-diverged start `i`, along any direction bits `m`: "all of `s_0 … s_J` are `1`"
    (the loop performed `J` doublings and will perform another one) holds iff the block
    `[i − m mod 2^J, … + 2^J)` visited after `J` doublings is `good` — a property of the block.
    So all starts of a block agree on whether the trajectory stops there. -/
theorem stopping_depends_on_block_only (o : Orb) (m J : ℕ) (i : ℤ) (hnd : o.nd i = true) :
    (o.al m J (oinit i) && (o.fwd m J (oinit i)).s) = o.good J (i - ((m % 2 ^ J : ℕ) : ℤ)) :=
  o.alive_good m J i hnd

example : (exOrb.al 5 3 (oinit 0) && (exOrb.fwd 5 3 (oinit 0)).s) = exOrb.good 3 (-5) :=
  stopping_depends_on_block_only exOrb 5 3 0 (by decide)

/-- **Closed form of the orbit-level transition.**  `Orb.P M i k` is defined operationally
    (`Orb.walk`: while `s = 1` and fewer than `M` doublings were made, toss a fair coin for the
    direction, build the new half, accept its uniformly drawn in-slice candidate with probability
    `min(1, n_new/n_old)` if the new half reports `s' = 1`, update `s`).  It equals the sum over
    the number `J` of doublings and over the `2^J` possible final blocks `[i − m, i − m + 2^J)`
    (one per direction sequence, `doubling_symmetric`), each weighted `2^{-J}`, of the weight `Orb.H`
    of stopping exactly with that block and being at `k`. -/
theorem nuts_orbit_closed_form (o : Orb) (M : ℕ) (i k : ℤ) (hnd : o.nd i = true) :
    o.P M i k = ∑ J ∈ range (M + 1), (1 / 2 : ℚ) ^ J * ∑ m ∈ range (2 ^ J), o.H M J (i - m) i k :=
  o.P_eq M i k hnd

/-- **Block weights are symmetric.**  For two admissible (in-slice, guard-passing) indices `i, k` of a
    block `[a, a + 2^J)`: the probability weight of "the loop performs the `J` doublings that lead
    from `i` to this block and is then at `k`" equals the one with `i` and `k` exchanged.  (Induction
    over the levels: in the half containing both the weight is the lower-level weight times the common
    stay factor; across the two halves it is `[both halves good] · min(1/n_L, 1/n_R)`, `swap_symmetric`.) -/
theorem nuts_block_symmetric (o : Orb) (hS : ∀ x, o.S x = true → o.nd x = true) (J : ℕ) (a i k : ℤ)
    (hi1 : a ≤ i) (hi2 : i < a + 2 ^ J) (hk1 : a ≤ k) (hk2 : k < a + 2 ^ J)
    (hSi : o.S i = true) (hgi : o.g i = true) (hSk : o.S k = true) (hgk : o.g k = true) :
    o.G J a i k = o.G J a k i :=
  o.G_sym hS J a i k hi1 hi2 hk1 hk2 hSi hgi hSk hgk

/-- **Detailed balance of the orbit-level NUTS transition.**  For every trajectory (`S` slice
    indicator, `nd` divergence indicator with `S ⊆ nd`, arbitrary block-wise U-turn verdicts `ut`,
    guard `g`), every depth bound `M` and all admissible indices `i, k`:
    `P(i → k) = P(k → i)`.  Hence the transition is reversible with respect to the uniform
    (counting) distribution on the admissible indices of the trajectory. -/
theorem nuts_orbit_reversible (o : Orb) (hS : ∀ x, o.S x = true → o.nd x = true) (M : ℕ) (i k : ℤ)
    (hSi : o.S i = true) (hgi : o.g i = true) (hSk : o.S k = true) (hgk : o.g k = true) :
    o.P M i k = o.P M k i :=
  o.P_sym hS M i k hSi hgi hSk hgk

example : exOrb.P 4 0 3 = exOrb.P 4 3 0 :=
  nuts_orbit_reversible exOrb (by intro x; simp only [exOrb, decide_eq_true_eq]; omega) 4 0 3
    (by decide) rfl (by decide) rfl

/-- **The orbit-level transition is a probability distribution**: over any index window containing
    the `2^(M+1) − 1` indices reachable with `M` doublings the probabilities `P(i → ·)` sum to `1`. -/
theorem nuts_orbit_stochastic (o : Orb) (M : ℕ) (i : ℤ) (W : Finset ℤ)
    (hW : Finset.Ico (i + 1 - 2 ^ M) (i + 2 ^ M) ⊆ W) : ∑ k ∈ W, o.P M i k = 1 :=
  o.P_mass M i W hW

/-- **The sampler only moves to admissible points**: an index other than the start that is outside
    the slice (or fails the guard) has transition probability `0` — the orbit-level counterpart of
    `selected_in_slice` / `nutsStep_coherent_finite`. -/
theorem nuts_orbit_support (o : Orb) (M : ℕ) (i k : ℤ) (hne : k ≠ i)
    (hk : ¬ (o.S k = true ∧ o.g k = true)) : o.P M i k = 0 :=
  o.P_zero_of M i k hne hk

/-- **The orbit-level NUTS transition leaves the uniform distribution on the admissible indices
    invariant.**  Put weight `w` on every in-slice, guard-passing index of the trajectory; after one
    transition every such index `k` again carries weight `w` (stated after cancelling `w`; the sum
    runs over any finite window `W` containing all indices from which `k` is reachable, so it also
    covers trajectories with infinitely many in-slice points). -/
theorem nuts_orbit_invariant (o : Orb) (hS : ∀ x, o.S x = true → o.nd x = true) (M : ℕ) (k : ℤ)
    (hSk : o.S k = true) (hgk : o.g k = true) (W : Finset ℤ)
    (hW : Finset.Ico (k + 1 - 2 ^ M) (k + 2 ^ M) ⊆ W) :
    ∑ i ∈ W.filter (fun i => o.S i = true ∧ o.g i = true), o.P M i k = 1 :=
  o.P_invariant hS M k hSk hgk W hW

example : ∑ i ∈ (Finset.Ico (-20 : ℤ) 20).filter (fun i => exOrb.S i = true ∧ exOrb.g i = true),
    exOrb.P 4 i 3 = 1 :=
  nuts_orbit_invariant exOrb (by intro x; simp only [exOrb, decide_eq_true_eq]; omega) 4 3
    (by decide) rfl _ (by apply Finset.Ico_subset_Ico <;> norm_num)

/-! ## link of the orbit-level transition to the executable model -/
section Link2
variable {Z : Type}

/-- **The flag `s'` of `_BuildTree` is a function of the index block only.**  For a reversible
    integrator, the tree of depth `j` built in direction `v = ±1` from the orbit point `z_k` reports
    `s' = Orb.good j a`, where `[a, a + 2^j)` is the block of indices it covers
    (`a = k + 1` forwards, `a = k − 2^j` backwards): all leaves not diverged and the no-U-turn test
    passed on every aligned sub-block — whatever the direction, the start and the uniform draws.
    If `s' = 1` the returned ends are `z_a` and `z_{a + 2^j − 1}`. -/
theorem buildTree_s_eq_good (c : Ctx Z) (hinv : StepInverse c) (guard : Z → Bool) (z0 : Z) (v : ℤ)
    (hv : v = 1 ∨ v = -1) (j : ℕ) (k : ℤ) (us : List Rat) :
    (buildTree c v j (pt c z0 k) us).1.s = (orbOf c guard z0).good j (blockLo v k j) ∧
    ((buildTree c v j (pt c z0 k) us).1.s = true →
      (buildTree c v j (pt c z0 k) us).1.zminus = pt c z0 (blockLo v k j) ∧
      (buildTree c v j (pt c z0 k) us).1.zplus = pt c z0 (blockLo v k j + 2 ^ j - 1)) :=
  buildTree_good c hinv guard z0 v hv j k us

/-- **The continuation flag of `loopBody` is the one of the orbit-level doubling `Orb.body`**:
    with visited interval `[lo, hi]`, `s = good j (new half) && ut (j+1) (doubled block)`. -/
theorem loopBody_matches_orbit_body (c : Ctx Z) (hinv : StepInverse c) (guard : Z → Bool) (z0 : Z)
    (st : Loop Z) (lo hi : ℤ) (I : LoopInv c z0 st lo hi) (hs : st.s = true) (dist : ℤ → ℚ) :
    (loopBody c guard st).s =
      ((orbOf c guard z0).body (dirBit st) { lo := lo, j := st.j, s := true, dist := dist }).s ∧
    (loopBody c guard st).j =
      ((orbOf c guard z0).body (dirBit st) { lo := lo, j := st.j, s := true, dist := dist }).j :=
  ⟨loopBody_s c hinv guard z0 st lo hi I hs dist, by rw [loopBody_j]; rfl⟩

/-- **Top-level acceptance probability.**  The event tested by `loopBody`,
    `rand() * n < n'  and  rand() < 1`, is the event `rand() < min(1, n'/n)`; under a uniform draw
    it has probability `min(1, n'/n)` — the factor used in `Orb.acc`. -/
theorem top_accept_iff (u : ℚ) (n n' : ℕ) (hn : 0 < n) :
    (decide (u * (n : ℚ) < (n' : ℚ)) && decide (u < 1)) = true ↔ u < min 1 ((n' : ℚ) / n) :=
  top_accept u n n' hn

example : (decide ((1 / 2 : ℚ) * (3 : ℕ) < (2 : ℕ)) && decide ((1 / 2 : ℚ) < 1)) = true :=
  (top_accept_iff (1 / 2) 3 2 (by norm_num)).mpr (by norm_num)

/-- **The deterministic skeleton of `loop` is `Orb.fwd`.**  Run the model's doubling loop on any
    draw script; let `d_t` be the direction drawn in iteration `t` and `m = Σ_{t<J, d_t = −1} 2^t`.
    As long as the loop performed `J` doublings, its state agrees with the orbit-level state
    `Orb.fwd m J (oinit 0)` of the trajectory through `z0`: same depth `j`, same continuation flag
    `s`, and (while `s = 1`) the visited indices are exactly that state's block `[lo, lo + 2^J)`
    with `Loop.n` its in-slice count.  What `Orb.walk` adds to this skeleton is only the
    probabilistic reading of the draws (fair coin for `d_t`, `top_accept_iff`, `progressive_uniform`). -/
theorem loop_skeleton (c : Ctx Z) (hinv : StepInverse c) (guard : Z → Bool) (z0 : Z)
    (us : List Rat) (h0 : inSlice c z0 = true) (J : ℕ)
    (hs : ∀ t < J, ((loopBody c guard)^[t] (loopInit z0 us)).s = true) :
    let d : ℕ → Bool := fun t => dirBit ((loopBody c guard)^[t] (loopInit z0 us))
    let st := (loopBody c guard)^[J] (loopInit z0 us)
    let ost := (orbOf c guard z0).fwd (bsum d J) J (oinit 0)
    st.s = ost.s ∧ st.j = ost.j ∧
      (st.s = true → LoopInv c z0 st ost.lo (ost.lo + 2 ^ J - 1)) := by
  intro d st ost
  have hj : ost.j = J := by simp only [ost, Orb.fwd_j, oinit]; omega
  have hlo : ost.lo = (visited d 0 J).1 := by
    simp only [ost]
    rw [Orb.fwd_lo, Nat.mod_eq_of_lt (bsum_lt d J), visited_eq]
  have hfullinv : st.s = true → LoopInv c z0 st ost.lo (ost.lo + 2 ^ J - 1) ∧ st.j = J := by
    intro hsJ
    have := loop_visits_interval c hinv guard z0 us h0 J (by
      intro t ht
      rcases Nat.lt_or_ge t J with h | h
      · exact hs t h
      · have : t = J := by omega
        subst this; exact hsJ)
    obtain ⟨I, hjj, hhi, _⟩ := this
    rw [hlo, ← hhi]; exact ⟨I, hjj⟩
  cases J with
  | zero => exact ⟨rfl, rfl, fun h => (hfullinv h).1⟩
  | succ J =>
    -- the state before the last doubling
    have hprev := loop_visits_interval c hinv guard z0 us h0 J (fun t ht => hs t (by omega))
    obtain ⟨I, hjj, _, _⟩ := hprev
    have e : st = loopBody c guard ((loopBody c guard)^[J] (loopInit z0 us)) :=
      Function.iterate_succ_apply' _ _ _
    have hsprev := hs J (by omega)
    have hm := loopBody_matches_orbit_body c hinv guard z0 _ _ _ I hsprev (fun _ => 0)
    have hbit : (bsum d (J + 1)).testBit J = d J := bsum_testBit d (J + 1) J (by omega)
    have hcong : (orbOf c guard z0).fwd (bsum d (J + 1)) J (oinit 0)
        = (orbOf c guard z0).fwd (bsum d J) J (oinit 0) := by
      apply Orb.fwd_congr
      intro t ht
      rw [bsum_testBit d (J + 1) t (by omega), bsum_testBit d J t ht]
    have hs_eq : st.s = ost.s := by
      rw [e, hm.1]
      simp only [ost, Orb.fwd, hbit, hcong]
      apply Orb.body_s_congr
      · simp only
        rw [Orb.fwd_lo, Nat.mod_eq_of_lt (bsum_lt d J), visited_eq]
      · simp only [Orb.fwd_j, oinit]; omega
    refine ⟨hs_eq, ?_, fun h => (hfullinv h).1⟩
    rw [hj, e, loopBody_j, hjj]


example : ((orbOf exCtx (fun _ => true) 0).fwd 1 1 (oinit 0)).lo = -1 := by
  rw [Orb.fwd_lo]; decide

end Link2

/-
  ## What is NOT proved here (the remaining gap)

  (a) `Orb.walk` is the law of the final state of `loop` under independent uniform draws.  The
      pieces are proved (`loopBody_visits_interval`, `loopBody_matches_orbit_body`,
      `buildTree_s_eq_good`, `loop_skeleton`, `top_accept_iff`, `progressive_uniform`,
      `count_eq_slice`), but the
      statement itself needs a probabilistic semantics of the draw script `us` (a PMF monad over
      the list of uniforms), which the model does not have: the identification of `Orb.body`'s
      update of `dist` with "accept the uniformly distributed candidate with probability
      `min(1, n'/n)`" is by inspection of `loopBody`.

  (b) From the orbit to phase space.  Statement (not formalised):
        for a measurable target density π on ℝⁿ, with momentum r ~ N(0, I) and slice variable
        u ~ U[0, π(x) e^{-|r|²/2}] redrawn at the start of every transition, the Markov kernel
        on x induced by `nutsStep` leaves π invariant.
      Proof outline: `leapfrog_volume` + `leapfrog_reversible` make z ↦ (orbit of z, index of z)
      a measure-preserving bijection between the slice {H ≥ log u} and (orbits × in-slice
      indices) with counting measure on the indices; `nuts_orbit_invariant` gives invariance
      of the counting measure on each orbit; integrate over orbits, u and r.  The obstacle is
      the disintegration of Lebesgue measure on the slice along the ℤ-action of the leapfrog
      map (a measurable fundamental domain), for which Mathlib has no ready-made statement.
-/

end CuqiVerif.C08
