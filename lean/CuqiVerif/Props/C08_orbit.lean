import CuqiVerif.Proofs.C08_orbit

/-!
# C08 — orbit-level theorems about NUTS on the integer line

Positions of one trajectory are indexed by `ℤ` (`z_k = Φ^k z_0`, `Φ` the leapfrog map).
-/

namespace CuqiVerif.C08
open Finset

/-! ## (1) orbit indexing: which index interval do `J` doublings visit? -/

/-- **Visited interval after `J` doublings.**  Starting at index `i`, after `J` doublings with
    direction bits `d 0 … d (J-1)` (`true` = direction `−1`) the sampler has visited exactly the
    indices `[lo, lo + 2^J)` with `lo = i − Σ_{k<J, d k = −1} 2^k`; the start index lies inside.
    (`visited` appends a block of `2^j` points on the chosen side at doubling `j`, as `loopBody`
    does with `zminus`/`zplus`.) -/
theorem doubling_interval (d : ℕ → Bool) (i : ℤ) (J : ℕ) :
    let lo : ℤ := i - ∑ k ∈ range J, (if d k then (2 : ℤ) ^ k else 0)
    visited d i J = (lo, lo + 2 ^ J - 1) ∧ lo ≤ i ∧ i < lo + 2 ^ J := by
  intro lo
  have hlo : lo = i - (bsum d J : ℤ) := by
    simp only [lo, bsum_eq_sum]; push_cast
    congr 1
  have hlt := bsum_lt d J
  refine ⟨by rw [visited_eq, hlo], by rw [hlo]; omega, ?_⟩
  rw [hlo]
  have : ((bsum d J : ℕ) : ℤ) < 2 ^ J := by exact_mod_cast hlt
  linarith

example : visited (fun k => k = 0 ∨ k = 2) 0 3 = (-5, 2) := by decide

/-- **Exactly one direction sequence per start.**  For every target interval `B = [a, a + 2^J)`
    and every start index `i ∈ B`, the bits `d 0 … d (J-1)` produce `B` if and only if
    `d k = −1` exactly when the `k`-th binary digit of the offset `i − a` is `1`. -/
theorem doubling_symmetric (d : ℕ → Bool) (a i : ℤ) (J : ℕ) (h1 : a ≤ i) (h2 : i < a + 2 ^ J) :
    (visited d i J).1 = a ↔ ∀ k < J, d k = (i - a).toNat.testBit k := by
  have hm : (i - a).toNat < 2 ^ J := by
    have : ((i - a).toNat : ℤ) < 2 ^ J := by rw [Int.toNat_of_nonneg (by linarith)]; linarith
    exact_mod_cast this
  rw [← bsum_eq_iff d J _ hm, visited_eq]
  simp only
  constructor
  · intro h; omega
  · intro h; rw [h]; omega

example : (visited (fun k => (5 : ℕ).testBit k) 0 3).1 = -5 := by decide

/-- **Every start index of `B` produces `B` with the same probability `2^{-J}`**: among the `2^J`
    equally likely direction sequences of length `J` exactly one produces `B = [a, a + 2^J)` from
    the start `i ∈ B`. -/
theorem doubling_probability (a i : ℤ) (J : ℕ) (h1 : a ≤ i) (h2 : i < a + 2 ^ J) :
    ((univ.filter (fun d : Fin J → Bool => (visited (extBits d) i J).1 = a)).card : ℚ)
      / (univ : Finset (Fin J → Bool)).card = 1 / 2 ^ J := by
  have hcard : (univ.filter (fun d : Fin J → Bool => (visited (extBits d) i J).1 = a)).card = 1 := by
    rw [Finset.card_eq_one]
    refine ⟨fun k => (i - a).toNat.testBit k, ?_⟩
    ext d
    simp only [mem_filter, mem_univ, true_and, mem_singleton]
    rw [doubling_symmetric _ a i J h1 h2]
    constructor
    · intro h; funext k; simpa [extBits] using h k k.2
    · rintro rfl k hk; simp [extBits, hk]
  rw [hcard]; simp

/-- **The intermediate intervals are the aligned dyadic blocks of `B` containing `i`.**  If the
    bits produce `B = [a, a + 2^J)` from `i`, then after `j ≤ J` doublings the visited interval is
    `[a + 2^j · q, a + 2^j · (q+1))` with `q = ⌊(i − a) / 2^j⌋`. -/
theorem doubling_intermediate (d : ℕ → Bool) (a i : ℤ) (J j : ℕ) (h1 : a ≤ i) (h2 : i < a + 2 ^ J)
    (hB : (visited d i J).1 = a) (hj : j ≤ J) :
    visited d i j = (a + 2 ^ j * ((i - a) / 2 ^ j), a + 2 ^ j * ((i - a) / 2 ^ j + 1) - 1) := by
  have hbits := (doubling_symmetric d a i J h1 h2).mp hB
  have hb : bsum d j = (i - a).toNat % 2 ^ j := by
    rw [← bsum_of_testBit]
    exact bsum_congr _ _ _ (fun k hk => hbits k (by omega))
  rw [visited_eq, hb]
  have hnn : 0 ≤ i - a := by linarith
  have hcast : (((i - a).toNat % 2 ^ j : ℕ) : ℤ) = (i - a) % 2 ^ j := by
    push_cast; rw [Int.toNat_of_nonneg hnn]
  rw [hcast]
  have hdm := Int.emod_add_mul_ediv (i - a) (2 ^ j)
  ext <;> simp only <;> linarith

example : visited (fun k => (5 : ℕ).testBit k) 0 2 = (-5 + 2 ^ 2 * ((0 - (-5)) / 2 ^ 2), -5 + 2 ^ 2 * ((0 - (-5)) / 2 ^ 2 + 1) - 1) := by
  decide

end CuqiVerif.C08
