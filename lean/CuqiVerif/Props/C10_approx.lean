import CuqiVerif.Model.C10_approx
import CuqiVerif.Proofs.C10
import Mathlib.Data.Nat.Sqrt
import Mathlib.Analysis.SpecialFunctions.Sqrt
import Mathlib.Data.Rat.Cast.Order
import Mathlib.Tactic.Positivity
import Mathlib.Tactic.FieldSimp
import Mathlib.Tactic.Linarith
import Mathlib.Tactic.NormNum

/-!
# C10 — `ConjugateApprox`: the rate the code computes in floating point lies in the model's rational interval
(session-3 extension)

`rate = Σ_k (Dx)_k² / √((Dx)_k² + 1e-5) + β` is irrational; `Model/C10_approx.lean` brackets every square root
between consecutive multiples of `2^-p` via the integer square root.  The theorems show that the bracket is correct
for the **real** square root, for every radicand and every precision, and hence that the real rate lies in
`[approxRateLo, approxRateHi]` for every difference vector `Dx`, every `β`, every `p ≥ 9`.
-/

namespace CuqiVerif.C10

lemma num_cast_toNat (x : ℚ) (hx : 0 ≤ x) : (x.num : ℚ) = (x.num.toNat : ℚ) := by
  have h0 : 0 ≤ x.num := Rat.num_nonneg.2 hx
  have h : (x.num.toNat : ℤ) = x.num := Int.toNat_of_nonneg h0
  calc (x.num : ℚ) = ((x.num.toNat : ℤ) : ℚ) := by rw [h]
    _ = (x.num.toNat : ℚ) := Int.cast_natCast _

lemma sum_map_cast_le (l : List ℚ) (f : ℚ → ℚ) (g : ℚ → ℝ) (h : ∀ d, ((f d : ℚ) : ℝ) ≤ g d) :
    (((l.map f).sum : ℚ) : ℝ) ≤ (l.map g).sum := by
  induction l with
  | nil => simp
  | cons d ds ih =>
    simp only [List.map_cons, List.sum_cons, Rat.cast_add]
    exact add_le_add (h d) ih

lemma sum_map_le_cast (l : List ℚ) (f : ℚ → ℚ) (g : ℚ → ℝ) (h : ∀ d, g d ≤ ((f d : ℚ) : ℝ)) :
    (l.map g).sum ≤ (((l.map f).sum : ℚ) : ℝ) := by
  induction l with
  | nil => simp
  | cons d ds ih =>
    simp only [List.map_cons, List.sum_cons, Rat.cast_add]
    exact add_le_add (h d) ih

/-- over ℚ: `sqrtLo² ≤ x < sqrtHi²` for every rational `x ≥ 0`, every precision `p` -/
theorem sqrt_bracket_sq (x : ℚ) (hx : 0 ≤ x) (p : ℕ) :
    (sqrtLo x p) ^ 2 ≤ x ∧ x < (sqrtHi x p) ^ 2 := by
  set a : ℕ := x.num.toNat with ha
  set b : ℕ := x.den with hb
  have hbpos : 0 < b := x.den_pos
  have hnum : (x.num : ℚ) = (a : ℚ) := num_cast_toNat x hx
  have hxeq : x = (a : ℚ) / (b : ℚ) := by
    rw [← hnum]; exact (Rat.num_div_den x).symm
  set N : ℕ := a * 4 ^ p / b with hN
  set m : ℕ := Nat.sqrt N with hm
  have h1 : m ^ 2 ≤ N := Nat.sqrt_le' N
  have h2 : N < (m + 1) ^ 2 := Nat.lt_succ_sqrt' N
  have h3 : N * b ≤ a * 4 ^ p := Nat.div_mul_le_self _ _
  have h4 : a * 4 ^ p < b * (N + 1) := Nat.lt_mul_div_succ _ hbpos
  have hbQ : (0 : ℚ) < (b : ℚ) := by exact_mod_cast hbpos
  have h4p : (0 : ℚ) < (4 : ℚ) ^ p := by positivity
  have hpow : ((2 : ℚ) ^ p) ^ 2 = (4 : ℚ) ^ p := by
    rw [← pow_mul, mul_comm, pow_mul]; norm_num
  have hlo : sqrtLo x p = (m : ℚ) / 2 ^ p := rfl
  have hhi : sqrtHi x p = ((m + 1 : ℕ) : ℚ) / 2 ^ p := rfl
  constructor
  · rw [hlo, div_pow, hpow, hxeq, div_le_div_iff₀ h4p hbQ]
    have : (m ^ 2 * b : ℕ) ≤ a * 4 ^ p := le_trans (Nat.mul_le_mul_right b h1) h3
    have hc : ((m ^ 2 * b : ℕ) : ℚ) ≤ ((a * 4 ^ p : ℕ) : ℚ) := by exact_mod_cast this
    push_cast at hc
    linarith
  · rw [hhi, div_pow, hpow, hxeq, div_lt_div_iff₀ hbQ h4p]
    have : a * 4 ^ p < (m + 1) ^ 2 * b := by
      calc a * 4 ^ p < b * (N + 1) := h4
        _ ≤ b * (m + 1) ^ 2 := Nat.mul_le_mul_left b h2
        _ = (m + 1) ^ 2 * b := Nat.mul_comm _ _
    have hc : ((a * 4 ^ p : ℕ) : ℚ) < (((m + 1) ^ 2 * b : ℕ) : ℚ) := by exact_mod_cast this
    push_cast at hc ⊢
    linarith

example : (sqrtLo 2 10) ^ 2 ≤ 2 ∧ (2 : ℚ) < (sqrtHi 2 10) ^ 2 := sqrt_bracket_sq 2 (by norm_num) 10

/-- the bracket has width exactly `2^-p` -/
theorem sqrt_bracket_width (x : ℚ) (p : ℕ) : sqrtHi x p - sqrtLo x p = 1 / 2 ^ p := by
  unfold sqrtHi sqrtLo
  push_cast
  ring

example : sqrtHi 2 10 - sqrtLo 2 10 = 1 / 2 ^ 10 := sqrt_bracket_width 2 10

/-- **The real square root lies in the bracket**, every rational radicand `x ≥ 0`, every `p`. -/
theorem sqrt_bracket_real (x : ℚ) (hx : 0 ≤ x) (p : ℕ) :
    ((sqrtLo x p : ℚ) : ℝ) ≤ Real.sqrt (x : ℝ) ∧ Real.sqrt (x : ℝ) ≤ ((sqrtHi x p : ℚ) : ℝ) := by
  obtain ⟨h1, h2⟩ := sqrt_bracket_sq x hx p
  have hxR : (0 : ℝ) ≤ (x : ℝ) := by exact_mod_cast hx
  have hlo0 : (0 : ℝ) ≤ ((sqrtLo x p : ℚ) : ℝ) := by
    have : (0 : ℚ) ≤ sqrtLo x p := by unfold sqrtLo; positivity
    exact_mod_cast this
  have hhi0 : (0 : ℝ) ≤ ((sqrtHi x p : ℚ) : ℝ) := by
    have : (0 : ℚ) ≤ sqrtHi x p := by unfold sqrtHi; positivity
    exact_mod_cast this
  constructor
  · apply Real.le_sqrt_of_sq_le
    have : ((sqrtLo x p ^ 2 : ℚ) : ℝ) ≤ (x : ℝ) := by exact_mod_cast h1
    simpa using this
  · rw [Real.sqrt_le_left hhi0]
    have : ((x : ℚ) : ℝ) ≤ ((sqrtHi x p ^ 2 : ℚ) : ℝ) := by exact_mod_cast h2.le
    simpa using this

example : ((sqrtLo 2 10 : ℚ) : ℝ) ≤ Real.sqrt ((2 : ℚ) : ℝ) := (sqrt_bracket_real 2 (by norm_num) 10).1

/-- the lower end of the bracket is positive as soon as `x · 4^p ≥ 1` (for `x ≥ 1e-5`: `p ≥ 9`) -/
theorem sqrtLo_pos (x : ℚ) (hx : 0 ≤ x) (p : ℕ) (h : 1 ≤ x * 4 ^ p) : 0 < sqrtLo x p := by
  unfold sqrtLo sqrtFloorScaled
  have hbpos : 0 < x.den := x.den_pos
  have hnum : (x.num : ℚ) = (x.num.toNat : ℚ) := num_cast_toNat x hx
  have hxeq : x = (x.num.toNat : ℚ) / (x.den : ℚ) := by
    rw [← hnum]; exact (Rat.num_div_den x).symm
  have hbQ : (0 : ℚ) < (x.den : ℚ) := by exact_mod_cast hbpos
  have hge : x.den ≤ x.num.toNat * 4 ^ p := by
    have : (x.den : ℚ) ≤ (x.num.toNat : ℚ) * 4 ^ p := by
      have h' : 1 ≤ (x.num.toNat : ℚ) / (x.den : ℚ) * 4 ^ p := by rw [← hxeq]; exact h
      rw [div_mul_eq_mul_div, le_div_iff₀ hbQ] at h'
      linarith
    exact_mod_cast this
  have hN : 1 ≤ x.num.toNat * 4 ^ p / x.den := (Nat.one_le_div_iff hbpos).2 hge
  have hm : 1 ≤ Nat.sqrt (x.num.toNat * 4 ^ p / x.den) := by
    rw [Nat.one_le_iff_ne_zero, Ne, Nat.sqrt_eq_zero]
    omega
  have : (0 : ℚ) < (Nat.sqrt (x.num.toNat * 4 ^ p / x.den) : ℚ) := by exact_mod_cast hm
  positivity

example : 0 < sqrtLo approxEps 9 := sqrtLo_pos approxEps (by norm_num [approxEps]) 9 (by norm_num [approxEps])

lemma approxEps_pos : 0 < approxEps := by norm_num [approxEps]

lemma radicand_scaled (d : ℚ) (p : ℕ) (hp : 9 ≤ p) : 1 ≤ (d * d + approxEps) * 4 ^ p := by
  have h9 : (4 : ℚ) ^ 9 ≤ 4 ^ p := pow_le_pow_right₀ (by norm_num) hp
  have hd : 0 ≤ d * d := mul_self_nonneg d
  have he : (1 : ℚ) ≤ approxEps * 4 ^ 9 := by norm_num [approxEps]
  have h4 : (0 : ℚ) < 4 ^ p := by positivity
  nlinarith [mul_nonneg hd h4.le, approxEps_pos]

/-- one term: `d²/√(d²+1e-5)` (real) between the model's rational bounds -/
theorem approxTerm_enclosure (d : ℚ) (p : ℕ) (hp : 9 ≤ p) :
    ((approxTermLo d p : ℚ) : ℝ) ≤ (d : ℝ) ^ 2 / Real.sqrt ((d : ℝ) ^ 2 + (approxEps : ℝ)) ∧
    (d : ℝ) ^ 2 / Real.sqrt ((d : ℝ) ^ 2 + (approxEps : ℝ)) ≤ ((approxTermHi d p : ℚ) : ℝ) := by
  have hx : 0 ≤ d * d + approxEps := by have := mul_self_nonneg d; have := approxEps_pos; linarith
  have hxpos : 0 < d * d + approxEps := by have := mul_self_nonneg d; have := approxEps_pos; linarith
  obtain ⟨h1, h2⟩ := sqrt_bracket_real (d * d + approxEps) hx p
  have hlo : 0 < sqrtLo (d * d + approxEps) p := sqrtLo_pos _ hx p (radicand_scaled d p hp)
  have hloR : (0 : ℝ) < ((sqrtLo (d * d + approxEps) p : ℚ) : ℝ) := by exact_mod_cast hlo
  have hcast : (((d * d + approxEps : ℚ)) : ℝ) = (d : ℝ) ^ 2 + (approxEps : ℝ) := by push_cast; ring
  rw [hcast] at h1 h2
  have hsq : (0 : ℝ) < Real.sqrt ((d : ℝ) ^ 2 + (approxEps : ℝ)) := by
    apply Real.sqrt_pos.2
    rw [← hcast]; exact_mod_cast hxpos
  have hd2 : (0 : ℝ) ≤ (d : ℝ) ^ 2 := sq_nonneg _
  constructor
  · unfold approxTermLo
    push_cast
    rw [← pow_two]
    exact div_le_div_of_nonneg_left hd2 hsq h2
  · unfold approxTermHi
    push_cast
    rw [← pow_two]
    exact div_le_div_of_nonneg_left hd2 hloR h1

example := approxTerm_enclosure (5 / 2) 20 (by norm_num)

/-- **The rate of `ConjugateApprox` lies in the model's interval:** for every vector `Dx` of rational differences,
    every prior rate `β`, every precision `p ≥ 9`, the real number
    `Σ_k (Dx)_k² / √((Dx)_k² + 1e-5) + β` (with `1e-5` the Python float, exactly) is between `approxRateLo` and
    `approxRateHi` — the two rationals the driver prints (`p = 80`) and the harness compares the captured rate with. -/
theorem approxRate_enclosure (dx : List ℚ) (β : ℚ) (p : ℕ) (hp : 9 ≤ p) :
    ((approxRateLo dx β p : ℚ) : ℝ)
        ≤ (dx.map (fun (d : ℚ) => (d : ℝ) ^ 2 / Real.sqrt ((d : ℝ) ^ 2 + (approxEps : ℝ)))).sum + (β : ℝ) ∧
    (dx.map (fun (d : ℚ) => (d : ℝ) ^ 2 / Real.sqrt ((d : ℝ) ^ 2 + (approxEps : ℝ)))).sum + (β : ℝ)
        ≤ ((approxRateHi dx β p : ℚ) : ℝ) := by
  unfold approxRateLo approxRateHi
  rw [Rat.cast_add, Rat.cast_add]
  have h1 := sum_map_cast_le dx (fun d => approxTermLo d p)
    (fun (d : ℚ) => (d : ℝ) ^ 2 / Real.sqrt ((d : ℝ) ^ 2 + (approxEps : ℝ))) fun d => (approxTerm_enclosure d p hp).1
  have h2 := sum_map_le_cast dx (fun d => approxTermHi d p)
    (fun (d : ℚ) => (d : ℝ) ^ 2 / Real.sqrt ((d : ℝ) ^ 2 + (approxEps : ℝ))) fun d => (approxTerm_enclosure d p hp).2
  exact ⟨by linarith, by linarith⟩

example := approxRate_enclosure [1, -1, 5 / 2] 3 80 (by norm_num)

end CuqiVerif.C10
