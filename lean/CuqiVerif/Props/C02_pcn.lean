import CuqiVerif.Props.C02_density
import CuqiVerif.Proofs.C02_pcn
import CuqiVerif.Props.C05_law
import Mathlib.Probability.Distributions.Gaussian.Fernique

/-!
# C02 — pCN in every dimension: the proposal kernel is reversible w.r.t. the Gaussian prior

`Props/C02_density.lean` reduced the correctness of pCN ("propose `x* = a·x + s·ξ`, `ξ ~ prior`,
accept with the LIKELIHOOD-only ratio", `pcnStep_accept_iff`) to one hypothesis: `hQ`, the
reversibility of the proposal kernel w.r.t. the prior (`mh_reversible_of_reversible_proposal`), and
proved `hQ` only on `ℝ` with unit variance (`pcn_1d_invariant`).  This file proves `hQ`

* on every separable Banach space `E` for every centred Gaussian measure `μ`
  (`pcnKernel_isReversible`; in particular every separable Hilbert space — function-space pCN),
* hence on `ℝⁿ = ι → ℝ` for the prior `N(0, B Bᵀ)` = law of `B ξ`, `ξ = rng.randn(n)`, ANY square
  `B` (singular covariances included): `pcn_proposal_isReversible`, and the full statement
  `pcn_invariant`: the pCN Metropolis kernel is Markov, reversible and invariant for the posterior
  `L • N(0, B Bᵀ)` for every measurable likelihood `L ≥ 0`, every dimension, every `a² + s² = 1`
  (`pcn_invariant_code_scale`: `a = √(1 − s²)`, `0 ≤ s ≤ 1`, the parameters of the code).

The proof is the one sketched in the task: with `(X, ξ) ~ μ ⊗ μ` and `Y = aX + sξ`, `ξ' = sX − aξ`
(the `ξ'` of `pcn_ratio`), `(Y, ξ')` is the image of `(X, ξ)` under a reflection of `E × E` which
preserves `μ ⊗ μ` (Mathlib's rotation invariance of centred Gaussian measures,
`IsGaussian.map_rotation_eq_self`, and their symmetry), and `aY + sξ' = X`; so `(X, Y)` and
`(Y, X)` have the same law (`pcn_joint_exchangeable`), which on rectangles is
`Kernel.IsReversible`.

Negative results at kernel level (the code's behaviour for a prior with mean `m ≠ 0`, known
finding `*PCN:prior-mean-nonzero`): the proposal `a·x + s·ξ`, `ξ ~ N(m, C)` does not even leave
`N(m, C)` invariant unless `a + s = 1` (`pcnKernel_not_invariant_of_mean_ne_zero`,
`pcn_not_reversible_of_mean_ne_zero`; `a + s ≠ 1` for every `0 < s < 1`,
`pcn_code_scale_sum_ne_one`), so with a flat likelihood the sampler as coded does not preserve its
own target.  The repaired proposal `m + a (x − m) + s (ξ − m)` IS reversible
(`pcn_mean_corrected_invariant`).

Definitions (`Proofs/C02_pcn.lean`): `pcnMove a s (x, ξ) = a•x + s•ξ` — the generic version of the
executable `pcnPropose` (`pcnPropose_eq_pcnMove`); `pcnKernel μ a s` = the Mathlib `Kernel` `x ↦ law
of pcnMove a s (x, ξ)`, `ξ ~ μ` (`pcnKernel_apply`); `gaussDrawLaw m B` (from `Proofs/C05_law.lean`) =
law of `m + B ξ`, `ξ ~ stdNormalVec ι` (independent `N(0,1)` components), which is Mathlib's
`multivariateGaussian m (B Bᵀ)` (`gauss_draw_law_eq_multivariateGaussian`).

Remaining gap: exact real arithmetic (`a² + s² = 1` exactly; the float `np.sqrt(1 − s²)` is
certified to `2⁻⁴⁰` relative by the tie only), the law of numpy's generator, and ergodicity.
-/

namespace CuqiVerif.C02

open MeasureTheory ProbabilityTheory Matrix WithLp
open scoped ENNReal
open CuqiVerif.C05

/-! ## separable Banach spaces, centred Gaussian prior -/

section banach
variable {E : Type*} [NormedAddCommGroup E] [NormedSpace ℝ E] [MeasurableSpace E] [BorelSpace E]
  [SecondCountableTopology E]

/-- **What the proposal kernel is.** `pcnKernel μ a s x` is the law of `a•x + s•ξ` for `ξ ~ μ`
    (`pcnPropose` with the noise drawn from the prior), and it is a Markov kernel. -/
theorem pcnKernel_law (μ : Measure E) [IsProbabilityMeasure μ] (a s : ℝ) (x : E) :
    pcnKernel μ a s x = μ.map (fun ξ => a • x + s • ξ) ∧ IsMarkovKernel (pcnKernel μ a s) :=
  ⟨pcnKernel_apply μ a s x, inferInstance⟩

variable [CompleteSpace E]

/-- **(state, proposal) is exchangeable.** For a centred Gaussian measure `μ` on a separable Banach
    space, independent `X ~ μ`, `ξ ~ μ` and `a² + s² = 1`, the pairs `(X, aX + sξ)` and
    `(aX + sξ, X)` have the same joint law on `E × E`, and that law is Gaussian (for
    `μ = N(0, C)` it is the centred Gaussian with block covariance `[[C, aC], [aC, C]]`, see
    `pcn_joint_cross_cov`). -/
theorem pcn_joint_exchangeable (μ : Measure E) [IsGaussian μ] (hμ : μ[id] = 0) (a s : ℝ)
    (h : a ^ 2 + s ^ 2 = 1) :
    (μ.prod μ).map (fun p => (p.1, a • p.1 + s • p.2))
      = (μ.prod μ).map (fun p => (a • p.1 + s • p.2, p.1)) ∧
    IsGaussian ((μ.prod μ).map (fun p : E × E => (p.1, a • p.1 + s • p.2))) := by
  constructor
  · have hsw := pcnPair_swap μ hμ a s h
    rw [Measure.map_map measurable_swap (measurable_pcnPair a s)] at hsw
    exact hsw.symm
  · exact isGaussian_map ((ContinuousLinearMap.fst ℝ E E).prod
      (a • ContinuousLinearMap.fst ℝ E E + s • ContinuousLinearMap.snd ℝ E E))

/-- **Covariance structure of (state, proposal).** Under `X ~ μ` (centred Gaussian), `ξ ~ μ`
    independent, `Y = aX + sξ`, `a² + s² = 1`: both marginals of `(X, Y)` are `μ` (the second one is
    the invariance of the prior under the proposal) and `cov(L₁ X, L₂ Y) = a · cov_μ(L₁, L₂)` for all
    continuous linear functionals — the block covariance `[[C, aC], [aC, C]]`, symmetric under the
    exchange of the two blocks. -/
theorem pcn_joint_cross_cov (μ : Measure E) [IsGaussian μ] (hμ : μ[id] = 0) (a s : ℝ)
    (h : a ^ 2 + s ^ 2 = 1) (L₁ L₂ : StrongDual ℝ E) :
    ((μ.prod μ).map (fun p : E × E => (p.1, a • p.1 + s • p.2))).map Prod.fst = μ ∧
    ((μ.prod μ).map (fun p : E × E => (p.1, a • p.1 + s • p.2))).map Prod.snd = μ ∧
    cov[fun p => L₁ p.1, fun p => L₂ p.2; (μ.prod μ).map (fun p : E × E => (p.1, a • p.1 + s • p.2))]
      = a * cov[L₁, L₂; μ] :=
  ⟨pcnPair_map_fst μ a s, pcnPair_map_snd μ hμ a s h, pcn_cross_cov μ a s L₁ L₂⟩

/-- **The pCN proposal kernel is reversible w.r.t. the prior** — the hypothesis `hQ` of
    `mh_reversible_of_reversible_proposal`, for EVERY centred Gaussian measure on a separable
    Banach space (finite-dimensional `N(0, C)` with any, possibly singular, covariance; Gaussian
    measures on separable Hilbert spaces) and every `a² + s² = 1`.  In particular the prior is
    invariant under the proposal. -/
theorem pcnKernel_isReversible (μ : Measure E) [IsGaussian μ] (hμ : μ[id] = 0) (a s : ℝ)
    (h : a ^ 2 + s ^ 2 = 1) :
    (pcnKernel μ a s).IsReversible μ ∧ (pcnKernel μ a s).Invariant μ := by
  have hrev := pcnKernel_isReversible_of_swap μ a s (pcnPair_swap μ hμ a s h)
  exact ⟨hrev, hrev.invariant⟩

/-- **pCN is a correct sampler on function space.** Prior `μ` = any centred Gaussian measure on a
    separable Banach space, `a² + s² = 1`, `L ≥ 0` any measurable likelihood: "propose
    `a•x + s•ξ`, `ξ ~ μ`; accept with probability `min(1, L(y)/L(x))`" is a Markov kernel,
    reversible w.r.t. the posterior `L • μ`, and leaves it invariant. -/
theorem pcn_invariant_banach (μ : Measure E) [IsGaussian μ] (hμ : μ[id] = 0) (a s : ℝ)
    (h : a ^ 2 + s ^ 2 = 1) (L : E → ℝ) (hL : Measurable L) (hL0 : ∀ x, 0 ≤ L x) :
    IsMarkovKernel (mhKernelR (pcnKernel μ a s) L (fun _ _ => 1)) ∧
    (mhKernelR (pcnKernel μ a s) L (fun _ _ => 1)).IsReversible (targetMeasure μ L) ∧
    (mhKernelR (pcnKernel μ a s) L (fun _ _ => 1)).Invariant (targetMeasure μ L) ∧
    ∀ x y, mhAlphaD L (fun _ _ => 1) x y = min 1 (L y / L x) :=
  mh_reversible_of_reversible_proposal μ (pcnKernel μ a s) (pcnKernel_isReversible μ hμ a s h).1 L hL hL0

/-- non-vacuity on `ℝ`: this is `pcn_1d_invariant` again, now as an instance -/
example : (pcnKernel (gaussianReal 0 1) (3/5) (4/5)).IsReversible (gaussianReal 0 1) :=
  (pcnKernel_isReversible (gaussianReal 0 1) (by simp) (3/5) (4/5) (by norm_num)).1

example := pcnKernel_law (gaussianReal 0 1) (3/5) (4/5) 2
example := pcn_joint_exchangeable (gaussianReal 0 1) (by simp) (3/5) (4/5) (by norm_num)
example := pcn_joint_cross_cov (gaussianReal 0 1) (by simp) (3/5) (4/5) (by norm_num)
  (ContinuousLinearMap.id ℝ ℝ) (ContinuousLinearMap.id ℝ ℝ)
example := pcn_invariant_banach (gaussianReal 0 1) (by simp) (3/5) (4/5) (by norm_num)
  (fun x => Real.exp (-(x - 1) ^ 2 / 2)) (by fun_prop) (fun x => (Real.exp_pos _).le)

end banach

/-! ## negative result: a noise law with non-zero mean -/

section negative
variable {E : Type*} [NormedAddCommGroup E] [NormedSpace ℝ E] [MeasurableSpace E] [BorelSpace E]
  [SecondCountableTopology E]

/-- **Non-zero mean breaks pCN at kernel level.** Let `μ` be ANY probability measure (the prior,
    from which the code also draws the noise `ξ`) with a non-zero mean in some direction
    (`∫ L dμ ≠ 0` for a continuous linear functional `L`).  Unless `a + s = 1`, the proposal
    `x ↦ law of a•x + s•ξ`, `ξ ~ μ` does not leave `μ` invariant — the mean moves from `μ[L]` to
    `(a + s) μ[L]` — so a fortiori it is not reversible w.r.t. `μ` and the hypothesis of
    `mh_reversible_of_reversible_proposal` fails (kernel form of `pcn_not_mh_of_mean_ne_zero`). -/
theorem pcnKernel_not_invariant_of_mean_ne_zero (μ : Measure E) [IsProbabilityMeasure μ] (a s : ℝ)
    (L : StrongDual ℝ E) (hL : μ[L] ≠ 0) (has : a + s ≠ 1) :
    ¬ (pcnKernel μ a s).Invariant μ ∧ ¬ (pcnKernel μ a s).IsReversible μ := by
  have hni : ¬ (pcnKernel μ a s).Invariant μ := by
    intro hinv
    have hint : Integrable L μ := by
      by_contra hn
      exact hL (integral_undef hn)
    have hb : (μ.prod μ).map (pcnMove a s) = μ := by
      rw [← bind_pcnKernel]; exact hinv
    have h1 := integral_dual_map_pcnMove μ a s L hint
    rw [hb] at h1
    have h2 : (a + s - 1) * ∫ x, L x ∂μ = 0 := by linarith
    rcases mul_eq_zero.1 h2 with h3 | h3
    · exact has (by linarith)
    · exact hL h3
  exact ⟨hni, fun hr => hni hr.invariant⟩

/-- for the code's parameters `a = √(1 − s²)`, `0 < s < 1`: `a² + s² = 1` but `a + s ≠ 1`
    (`(a + s)² = 1 + 2as > 1`), so the exception of `pcnKernel_not_invariant_of_mean_ne_zero`
    never applies; `s = 1` (`a = 0`) is the independence sampler, which is reversible for any prior. -/
theorem pcn_code_scale_sum_ne_one (s : ℝ) (h0 : 0 < s) (h1 : s < 1) :
    Real.sqrt (1 - s ^ 2) ^ 2 + s ^ 2 = 1 ∧ Real.sqrt (1 - s ^ 2) + s ≠ 1 := by
  have hpos : 0 < 1 - s ^ 2 := by nlinarith
  have hsq : Real.sqrt (1 - s ^ 2) ^ 2 = 1 - s ^ 2 := Real.sq_sqrt hpos.le
  refine ⟨by rw [hsq]; ring, fun h => ?_⟩
  have ha : 0 < Real.sqrt (1 - s ^ 2) := Real.sqrt_pos.2 hpos
  have : (Real.sqrt (1 - s ^ 2) + s) ^ 2 = 1 := by rw [h]; norm_num
  nlinarith [mul_pos ha h0]

example := pcn_code_scale_sum_ne_one (1/2) (by norm_num) (by norm_num)

/-- `N(1, 1)` on `ℝ`, `a = 3/5`, `s = 4/5`: the mean moves to `7/5` -/
example : ¬ (pcnKernel (gaussianReal 1 1) (3/5) (4/5)).Invariant (gaussianReal 1 1) :=
  (pcnKernel_not_invariant_of_mean_ne_zero (gaussianReal 1 1) (3/5) (4/5) (ContinuousLinearMap.id ℝ ℝ)
    (by simp) (by norm_num)).1

/-- `s = 1`: the independence sampler proposes from the prior whatever the state — reversible for
    every prior, whatever its mean (the one case `a + s = 1` with `s ≠ 0`) -/
example (μ : Measure E) [IsProbabilityMeasure μ] : (pcnKernel μ 0 1).IsReversible μ := by
  have : ∀ x, pcnKernel μ 0 1 x = μ := by
    intro x
    rw [pcnKernel_apply]
    simp
  intro A B _ _
  simp [this, mul_comm]

end negative

/-! ## the mean-corrected proposal -/

section corrected
variable {E : Type*} [NormedAddCommGroup E] [NormedSpace ℝ E] [MeasurableSpace E] [BorelSpace E]
  [SecondCountableTopology E] [CompleteSpace E]

/-- **The repaired proposal is reversible for any prior mean.** For a Gaussian prior `ν` with mean
    `m`, the proposal `x* = m + a (x − m) + s (ξ − m)`, `ξ ~ ν` (the `suggested_fix` of the known
    findings `expPCN/legPCN:prior-mean-nonzero`) is a Markov kernel reversible w.r.t. `ν`, hence
    the likelihood-only Metropolis kernel built on it is Markov, reversible and invariant for the
    posterior `L • ν`. -/
theorem pcn_mean_corrected_invariant (ν : Measure E) [IsGaussian ν] (m : E) (hm : ν[id] = m) (a s : ℝ)
    (h : a ^ 2 + s ^ 2 = 1) (L : E → ℝ) (hL : Measurable L) (hL0 : ∀ x, 0 ≤ L x) :
    (∀ x, pcnKernelMean ν m a s x = ν.map (fun ξ => m + a • (x - m) + s • (ξ - m))) ∧
    (pcnKernelMean ν m a s).IsReversible ν ∧
    IsMarkovKernel (mhKernelR (pcnKernelMean ν m a s) L (fun _ _ => 1)) ∧
    (mhKernelR (pcnKernelMean ν m a s) L (fun _ _ => 1)).IsReversible (targetMeasure ν L) ∧
    (mhKernelR (pcnKernelMean ν m a s) L (fun _ _ => 1)).Invariant (targetMeasure ν L) := by
  have hQ := pcnKernelMean_isReversible ν m hm a s h
  have hmh := mh_reversible_of_reversible_proposal ν (pcnKernelMean ν m a s) hQ L hL hL0
  exact ⟨pcnKernelMean_apply ν m a s, hQ, hmh.1, hmh.2.1, hmh.2.2.1⟩

end corrected

/-! ## `ℝⁿ`: prior `N(0, B Bᵀ)` = law of `B ξ`, `ξ = rng.randn(n)` — the instance the code runs -/

section euclid
variable {ι : Type*} [Fintype ι] [DecidableEq ι]

/-- **The objects are the textbook ones.** The prior `gaussDrawLaw 0 B` (law of `B ξ`,
    `ξ ~ N(0, I)`) is Mathlib's `multivariateGaussian 0 (B Bᵀ)`; the proposal kernel at `x` is the law
    of `a•x + s•(B ξ)` — what `pcnPropose` computes from the state and a prior draw — i.e.
    `N(a x, s² B Bᵀ)`. -/
theorem pcn_proposal_law (B : Matrix ι ι ℝ) (a s : ℝ) (x : ι → ℝ) :
    (gaussDrawLaw 0 B).map (toLp 2) = multivariateGaussian 0 (B * Bᵀ) ∧
    pcnKernel (gaussDrawLaw 0 B) a s x = (stdNormalVec ι).map (fun ξ => a • x + s • (B *ᵥ ξ)) ∧
    (pcnKernel (gaussDrawLaw 0 B) a s x).map (toLp 2)
      = multivariateGaussian (toLp 2 (a • x)) (s ^ 2 • (B * Bᵀ)) := by
  refine ⟨?_, ?_, ?_⟩
  · simpa using gauss_draw_law_eq_multivariateGaussian (0 : ι → ℝ) B
  · rw [pcnKernel_apply, gaussDrawLaw, Measure.map_map (by fun_prop) (measurable_affine 0 B)]
    congr 1
    ext ξ i
    simp
  · rw [pcnKernel_gaussDrawLaw, gauss_draw_law_eq_multivariateGaussian]
    congr 2
    · simp
    · rw [transpose_smul, Matrix.smul_mul, Matrix.mul_smul, smul_smul, sq]

example := pcn_proposal_law (ι := Fin 2) !![1, 0; -1, 1] (3/5) (4/5) ![1, 2]

/-- **The joint law of (state, proposal) in coordinates**: for the prior `N(0, C)`, `C = B Bᵀ`, the
    pair `(X, aX + sξ)` has covariance blocks `cov(Xᵢ, Xⱼ) = Cᵢⱼ`, `cov(Xᵢ, Yⱼ) = a Cᵢⱼ`,
    `cov(Yᵢ, Yⱼ) = Cᵢⱼ` — the centred Gaussian on `ℝ²ⁿ` with covariance `[[C, aC], [aC, C]]`
    (Gaussian by `pcn_joint_exchangeable`), which is invariant under swapping the blocks. -/
theorem pcn_joint_block_cov (B : Matrix ι ι ℝ) (a s : ℝ) (h : a ^ 2 + s ^ 2 = 1) (i j : ι) :
    let J := ((gaussDrawLaw 0 B).prod (gaussDrawLaw 0 B)).map
      (fun p : (ι → ℝ) × (ι → ℝ) => (p.1, a • p.1 + s • p.2))
    cov[fun p => p.1 i, fun p => p.1 j; J] = (B * Bᵀ) i j ∧
    cov[fun p => p.1 i, fun p => p.2 j; J] = a * (B * Bᵀ) i j ∧
    cov[fun p => p.2 i, fun p => p.2 j; J] = (B * Bᵀ) i j := by
  intro J
  have hc : (gaussDrawLaw (0 : ι → ℝ) B)[id] = 0 := by simpa using integral_id_gaussDrawLaw (0 : ι → ℝ) B
  have hJ : J = ((gaussDrawLaw 0 B).prod (gaussDrawLaw 0 B)).map (pcnPair a s) := rfl
  refine ⟨?_, ?_, ?_⟩
  · have h1 := covariance_map (μ := J) (Z := Prod.fst) (X := fun x : ι → ℝ => x i) (Y := fun x => x j)
      (measurable_pi_apply i).aestronglyMeasurable (measurable_pi_apply j).aestronglyMeasurable
      measurable_fst.aemeasurable
    rw [hJ, pcnPair_map_fst, gauss_draw_cov_entry] at h1
    rw [h1, hJ]; rfl
  · have h2 := pcn_cross_cov (gaussDrawLaw (0 : ι → ℝ) B) a s
      (ContinuousLinearMap.proj (R := ℝ) (φ := fun _ : ι => ℝ) i)
      (ContinuousLinearMap.proj (R := ℝ) (φ := fun _ : ι => ℝ) j)
    have h3 := gauss_draw_cov_entry (0 : ι → ℝ) B i j
    rw [hJ, ← h3]
    exact h2
  · have h1 := covariance_map (μ := J) (Z := Prod.snd) (X := fun x : ι → ℝ => x i) (Y := fun x => x j)
      (measurable_pi_apply i).aestronglyMeasurable (measurable_pi_apply j).aestronglyMeasurable
      measurable_snd.aemeasurable
    rw [hJ, pcnPair_map_snd _ hc a s h, gauss_draw_cov_entry] at h1
    rw [h1, hJ]; rfl

example := pcn_joint_block_cov (ι := Fin 2) !![1, 0; -1, 1] (3/5) (4/5) (by norm_num) 0 1

/-- **`hQ` in every dimension, every covariance.** The pCN proposal kernel
    `Q(x, ·) = N(a x, s² B Bᵀ)` is reversible w.r.t. the prior `N(0, B Bᵀ)` whenever `a² + s² = 1`:
    any finite index type `ι` (dimension), any square `B` (no invertibility, symmetry or
    triangularity).  This discharges the hypothesis that `Props/C02_density.lean` left open. -/
theorem pcn_proposal_isReversible (B : Matrix ι ι ℝ) (a s : ℝ) (h : a ^ 2 + s ^ 2 = 1) :
    (pcnKernel (gaussDrawLaw 0 B) a s).IsReversible (gaussDrawLaw 0 B) :=
  (pcnKernel_isReversible (gaussDrawLaw 0 B)
    (by simpa using integral_id_gaussDrawLaw (0 : ι → ℝ) B) a s h).1

example := pcn_proposal_isReversible (ι := Fin 3) !![1, 0, 0; -1, 1, 0; 2, 0, 0] (3/5) (4/5) (by norm_num)

/-- **pCN is a correct sampler in every dimension.** Prior `μ0 = N(0, B Bᵀ)` on `ℝ^ι`, `a² + s² = 1`,
    ANY measurable likelihood `L ≥ 0` (zeros allowed): the kernel "propose `x* = a x + s ξ`,
    `ξ ~ μ0`; accept iff `log u ≤ min(0, log L(x*) − log L(x))`" — `pcnStep` with the
    likelihood-only ratio of `pcnStep_accept_iff`, acceptance probability `min(1, L(y)/L(x))`
    (`accept_measure`) — is a Markov kernel, reversible w.r.t. the posterior `L • μ0`, and leaves
    it invariant. -/
theorem pcn_invariant (B : Matrix ι ι ℝ) (a s : ℝ) (h : a ^ 2 + s ^ 2 = 1)
    (L : (ι → ℝ) → ℝ) (hL : Measurable L) (hL0 : ∀ x, 0 ≤ L x) :
    IsMarkovKernel (mhKernelR (pcnKernel (gaussDrawLaw 0 B) a s) L (fun _ _ => 1)) ∧
    (mhKernelR (pcnKernel (gaussDrawLaw 0 B) a s) L (fun _ _ => 1)).IsReversible
      (targetMeasure (gaussDrawLaw 0 B) L) ∧
    (mhKernelR (pcnKernel (gaussDrawLaw 0 B) a s) L (fun _ _ => 1)).Invariant
      (targetMeasure (gaussDrawLaw 0 B) L) ∧
    ∀ x y, mhAlphaD L (fun _ _ => 1) x y = min 1 (L y / L x) :=
  mh_reversible_of_reversible_proposal (gaussDrawLaw 0 B) _ (pcn_proposal_isReversible B a s h) L hL hL0

/-- … with the code's parametrisation: scale `s ∈ [0, 1]`, `a = √(1 − s²)`. -/
theorem pcn_invariant_code_scale (B : Matrix ι ι ℝ) (s : ℝ) (hs0 : 0 ≤ s) (hs1 : s ≤ 1)
    (L : (ι → ℝ) → ℝ) (hL : Measurable L) (hL0 : ∀ x, 0 ≤ L x) :
    (mhKernelR (pcnKernel (gaussDrawLaw 0 B) (Real.sqrt (1 - s ^ 2)) s) L (fun _ _ => 1)).Invariant
      (targetMeasure (gaussDrawLaw 0 B) L) := by
  have h : Real.sqrt (1 - s ^ 2) ^ 2 + s ^ 2 = 1 := by
    rw [Real.sq_sqrt (by nlinarith)]; ring
  exact (pcn_invariant B _ s h L hL hL0).2.2.1

/-- non-vacuity: dimension 2, non-symmetric lower-triangular `B` (covariance `[[1,-1],[-1,2]]`),
    `a = 3/5`, `s = 4/5`, Gaussian likelihood of the observation `(1, -2)` -/
example : (mhKernelR (pcnKernel (gaussDrawLaw (0 : Fin 2 → ℝ) !![1, 0; -1, 1]) (3/5) (4/5))
      (fun x => Real.exp (-((x 0 - 1) ^ 2 + (x 1 + 2) ^ 2) / 2)) (fun _ _ => 1)).Invariant
    (targetMeasure (gaussDrawLaw (0 : Fin 2 → ℝ) !![1, 0; -1, 1])
      (fun x => Real.exp (-((x 0 - 1) ^ 2 + (x 1 + 2) ^ 2) / 2))) :=
  (pcn_invariant !![1, 0; -1, 1] (3/5) (4/5) (by norm_num) _ (by fun_prop)
    (fun x => (Real.exp_pos _).le)).2.2.1

/-- non-vacuity: a singular covariance (rank 1) and an indicator likelihood (support constraint) -/
example : (mhKernelR (pcnKernel (gaussDrawLaw (0 : Fin 2 → ℝ) !![1, 0; 1, 0]) (Real.sqrt (1 - (1/2) ^ 2)) (1/2))
      (fun x => if 0 ≤ x 0 then 1 else 0) (fun _ _ => 1)).Invariant
    (targetMeasure (gaussDrawLaw (0 : Fin 2 → ℝ) !![1, 0; 1, 0]) (fun x => if 0 ≤ x 0 then 1 else 0)) :=
  pcn_invariant_code_scale _ (1/2) (by norm_num) (by norm_num) _
    (Measurable.ite (measurableSet_le measurable_const (measurable_pi_apply 0)) measurable_const
      measurable_const) (fun x => by positivity)

/-- **The code with a non-zero prior mean, at kernel level.** Prior `N(m, B Bᵀ)` with `m ≠ 0`, noise
    drawn from the prior as `PCN.step` / `pCN.single_update` do (`xi = prior.sample(1)`),
    `a + s ≠ 1` (every `0 < s < 1`: `pcn_code_scale_sum_ne_one`): the proposal kernel
    `Q(x, ·) = N(a x + s m, s² B Bᵀ)` is neither invariant nor reversible for the prior, and with a
    flat likelihood `L ≡ 1` — where the likelihood-only rule accepts every proposal, so the sampler
    IS `Q` and its target `L • prior` IS the prior — the sampler does not leave its target invariant. -/
theorem pcn_not_reversible_of_mean_ne_zero (m : ι → ℝ) (hm : m ≠ 0) (B : Matrix ι ι ℝ) (a s : ℝ)
    (has : a + s ≠ 1) :
    (∀ x, pcnKernel (gaussDrawLaw m B) a s x = gaussDrawLaw (a • x + s • m) (s • B)) ∧
    ¬ (pcnKernel (gaussDrawLaw m B) a s).Invariant (gaussDrawLaw m B) ∧
    ¬ (pcnKernel (gaussDrawLaw m B) a s).IsReversible (gaussDrawLaw m B) ∧
    ¬ (mhKernelR (pcnKernel (gaussDrawLaw m B) a s) (fun _ => 1) (fun _ _ => 1)).Invariant
        (targetMeasure (gaussDrawLaw m B) (fun _ => 1)) := by
  obtain ⟨i, hi⟩ : ∃ i, m i ≠ 0 := by
    by_contra hcon
    exact hm (funext fun i => by_contra fun hi => hcon ⟨i, hi⟩)
  have hLi : (gaussDrawLaw m B)[ContinuousLinearMap.proj (R := ℝ) (φ := fun _ : ι => ℝ) i] ≠ 0 := by
    have : ∫ x, (ContinuousLinearMap.proj (R := ℝ) (φ := fun _ : ι => ℝ) i) x ∂(gaussDrawLaw m B) = m i := by
      simpa using gauss_draw_mean m B i
    rw [this]; exact hi
  have hneg := pcnKernel_not_invariant_of_mean_ne_zero (gaussDrawLaw m B) a s _ hLi has
  refine ⟨pcnKernel_gaussDrawLaw m B a s, hneg.1, hneg.2, ?_⟩
  rw [mhKernelR_flat, targetMeasure_one]
  exact hneg.1

/-- the 1-D witness of `pcn_not_mh_of_mean_ne_zero` (`m = 1`, `a = 3/5`, `s = 4/5`) as a kernel -/
example : ¬ (pcnKernel (gaussDrawLaw (fun _ : Fin 1 => (1:ℝ)) 1) (3/5) (4/5)).IsReversible
    (gaussDrawLaw (fun _ : Fin 1 => (1:ℝ)) 1) :=
  (pcn_not_reversible_of_mean_ne_zero _ (fun h => one_ne_zero (congrFun h 0)) 1 (3/5) (4/5)
    (by norm_num)).2.2.1

/-- the repaired proposal for `N(m, B Bᵀ)`: reversible, any mean -/
example (m : ι → ℝ) (B : Matrix ι ι ℝ) :
    (pcnKernelMean (gaussDrawLaw m B) m (3/5) (4/5)).IsReversible (gaussDrawLaw m B) :=
  (pcn_mean_corrected_invariant (gaussDrawLaw m B) m (integral_id_gaussDrawLaw m B) (3/5) (4/5)
    (by norm_num) (fun _ => 1) measurable_const (fun _ => zero_le_one)).2.1

end euclid

/-! ## tie to the executable model -/

/-- **`pcnMove` is the generic version of the model's `pcnPropose`**: componentwise, the rational
    proposal the driver computes (`lin c x s xi`, `s = scalar st`) cast to `ℝ` is
    `pcnMove c s (x, ξ) = c•x + s•ξ`, the map whose push-forward defines `pcnKernel`. -/
theorem pcnPropose_eq_pcnMove (st : St) (c : Rat) (xi : Vec) (n : ℕ) (hx : st.x.length = n)
    (hxi : xi.length = n) :
    (pcnPropose st c xi).length = n ∧
    (fun i : Fin n => (((pcnPropose st c xi).getD i 0 : ℚ) : ℝ))
      = pcnMove (c : ℝ) ((scalar st : ℚ) : ℝ)
          ((fun i : Fin n => ((st.x.getD i 0 : ℚ) : ℝ)), (fun i : Fin n => ((xi.getD i 0 : ℚ) : ℝ))) := by
  constructor
  · simp [pcnPropose, lin, hx, hxi]
  · ext i
    have h1 : (i : ℕ) < st.x.length := hx ▸ i.2
    have h2 : (i : ℕ) < xi.length := hxi ▸ i.2
    unfold pcnPropose lin pcnMove
    simp [List.getD_eq_getElem?_getD, h1, h2]

example : (pcnPropose ⟨[1, 2], .fin 0, [], [4/5]⟩ (3/5) [1/2, -1]).length = 2 :=
  (pcnPropose_eq_pcnMove ⟨[1, 2], .fin 0, [], [4/5]⟩ (3/5) [1/2, -1] 2 rfl rfl).1

end CuqiVerif.C02
