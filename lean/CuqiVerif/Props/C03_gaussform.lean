import CuqiVerif.Model.C03_gaussform
import CuqiVerif.Proofs.C03
import Mathlib.Algebra.Field.Rat

/-!
# C03 — every Gaussian parameterisation: the gradient uses the precision the density uses

Statements about `gaussFormF` / `gaussGradOut` of `Model/C03_gaussform.lean` (what the driver op `gauss` runs).
-/
open Finset
namespace CuqiVerif.C03
open CuqiVerif

lemma entry_diag (v : List Rat) (i j : ℕ) (hi : i < v.length) (hj : j < v.length) :
    QMat.entry (QMat.diag v) i j = if i = j then v.getD i 0 else 0 := by
  simp [QMat.entry, QMat.diag, hi, hj]

lemma isDiagonal_entry (M : QMat.Mat) (h : isDiagonal M = true) (i j : ℕ) (hi : i < M.length)
    (hj : j < M.length) (hij : i ≠ j) : QMat.entry M i j = 0 := by
  simp only [isDiagonal, List.all_eq_true, List.mem_range] at h
  have := h i hi j hj
  simpa [hij] using this

/-- `gaussGrad` only reads the entries `P i j`, `i j < n` -/
lemma gaussGrad_congr (n : ℕ) (P Q : ℕ → ℕ → Rat) (x μ : ℕ → Rat) (i : ℕ) (hi : i < n)
    (h : ∀ a b, a < n → b < n → P a b = Q a b) : gaussGrad n P x μ i = gaussGrad n Q x μ i := by
  rw [gaussGrad_eq, gaussGrad_eq]
  congr 1
  apply Finset.sum_congr rfl
  intro b hb
  rw [h i b hi (Finset.mem_range.mp hb)]

lemma shapeOf_matrix (n : ℕ) (M C : QMat.Mat) (h : shapeOf n M = .matrix C) : C = M ∧ M.length = n := by
  unfold shapeOf at h
  split at h
  · cases h
  · split at h <;> cases h
  · split at h
    · rename_i hc
      simp only [Bool.and_eq_true, decide_eq_true_eq] at hc
      cases h
      exact ⟨rfl, hc.1⟩
    · cases h

/-- **The matrix `_gradient` multiplies with is the matrix of the log-density** (all forms, sizes, inputs):
    whenever a Gaussian form stores an `n × n` precision `self.prec = P`, every entry of `P` equals the entry of
    `sqrtprecᵀ sqrtprec` the log-density uses. -/
theorem gaussFormF_mat_entries (f : GForm) (n : ℕ) (M Plog P : QMat.Mat)
    (h : gaussFormF f n M = some (Plog, .mat P)) (i j : ℕ) (hi : i < n) (hj : j < n) :
    QMat.entry P i j = QMat.entry Plog i j := by
  unfold gaussFormF at h
  split at h
  all_goals try (simp at h; done)
  all_goals try (split at h <;> simp at h <;> (try (obtain ⟨h1, h2⟩ := h; subst h1; subst h2; rfl)); done)
  · repeat' split at h
    all_goals first | (simp at h; done) | (simp at h; obtain ⟨h1, h2⟩ := h; subst h1; subst h2; rfl) | (simp at h; obtain ⟨_, h1, h2⟩ := h; subst h1; subst h2; rfl)
  · rename_i C heq
    obtain ⟨hC, hlen⟩ := shapeOf_matrix n M _ heq
    split at h
    · rename_i hd
      dsimp only at h
      split at h
      · simp at h
      · simp at h
        obtain ⟨h1, h2⟩ := h
        subst h1; subst h2
        have hl : (diagOf n C).length = n := by simp [diagOf]
        rw [dgMap, List.map_id, entry_diag _ i j (by omega) (by omega)]
        by_cases hij : i = j
        · subst hij
          simp [diagOf, hi]
        · simp only [hij, if_false]
          exact isDiagonal_entry _ hd i j (by rw [hC]; omega) (by rw [hC]; omega) hij
    · split at h
      · simp at h
      · simp at h
        obtain ⟨h1, h2⟩ := h
        subst h1; subst h2; rfl
  · repeat' split at h
    all_goals first | (simp at h; done) | (simp at h; obtain ⟨h1, h2⟩ := h; subst h1; subst h2; rfl) | (simp at h; obtain ⟨_, h1, h2⟩ := h; subst h1; subst h2; rfl)

example : gaussFormF .prec 2 [[2, 0], [0, 3]] = some (QMat.diag [2, 3], .mat [[2, 0], [0, 3]]) := by decide +kernel

lemma gaussFormF_scalar11 (f : GForm) (n : ℕ) (M Plog : QMat.Mat) (p : Rat)
    (h : gaussFormF f n M = some (Plog, .scalar11 p)) : Plog = dgMap (fun _ => p) (List.replicate n 0) := by
  unfold gaussFormF at h
  split at h
  all_goals try (simp at h; done)
  all_goals try (repeat' split at h)
  all_goals first | (simp at h; done) | (simp at h; obtain ⟨h1, h2⟩ := h; subst h1; subst h2; rfl)

/-- **Whenever `Gaussian._gradient` returns a vector, it is `-(P_logpdf (x - mean))`** — for every form
    (`cov | prec | sqrtcov | sqrtprec`), every shape of the parameter (scalar, 1-D, diagonal matrix, dense matrix),
    every dimension and point: the vector is computed with the precision `sqrtprecᵀ sqrtprec` of the log-density,
    to which `gauss_grad_eq_deriv` / `gauss_prior_sqrtprec_hasGradientAt` apply. -/
theorem gauss_value_uses_logpdf_precision (f : GForm) (n : ℕ) (M Plog : QMat.Mat) (attr : PrecAttr)
    (x : List Rat) (μ : ℕ → Rat) (g : List Rat)
    (h : gaussFormF f n M = some (Plog, attr)) (hg : gaussGradOut n attr x μ = .value g) :
    g = (List.range n).map fun i => gaussGrad n (fn2 Plog) (fn x) μ i := by
  cases attr with
  | unavailable => simp [gaussGradOut] at hg
  | vec p => simp [gaussGradOut] at hg
  | mat P =>
    simp only [gaussGradOut, GaussOut.value.injEq] at hg
    subst hg
    apply List.map_congr_left
    intro i hi
    have hi' : i < n := List.mem_range.mp hi
    exact gaussGrad_congr n _ _ _ _ i hi' (fun a b ha hb => gaussFormF_mat_entries f n M Plog P h a b ha hb)
  | scalar11 p =>
    have hP := gaussFormF_scalar11 f n M Plog p h
    subst hP
    simp only [gaussGradOut] at hg
    split at hg
    · rename_i hn
      subst hn
      simp only [GaussOut.value.injEq] at hg
      subst hg
      simp [gaussGrad, matVec, sumTo, fn2, fn, dgMap, QMat.diag]
    · cases hg

/-- `self.prec` is unavailable (the call raises) exactly for the `sqrtprec` forms -/
theorem gaussFormF_unavailable_iff (f : GForm) (n : ℕ) (M Plog : QMat.Mat) (attr : PrecAttr)
    (h : gaussFormF f n M = some (Plog, attr)) : (attr matches .unavailable) = true ↔ f = .sqrtprec := by
  unfold gaussFormF at h
  split at h
  all_goals try (simp at h; done)
  all_goals try (repeat' split at h)
  all_goals first | (simp at h; done) | (simp at h; obtain ⟨h1, h2⟩ := h; subst h1; subst h2; simp) | (simp at h; obtain ⟨_, h1, h2⟩ := h; subst h1; subst h2; simp)

/-- a raw `(1,1)` or 1-D `self.prec` (the rows behind the known finding `Gaussian:prec-vector`) only arises for
    the form `prec` -/
theorem gaussFormF_raw_prec_only_prec (f : GForm) (n : ℕ) (M Plog : QMat.Mat) (attr : PrecAttr)
    (h : gaussFormF f n M = some (Plog, attr))
    (hraw : (match attr with | .vec _ => true | .scalar11 _ => true | _ => false) = true) : f = .prec := by
  unfold gaussFormF at h
  split at h
  all_goals try (simp at h; done)
  all_goals try (repeat' split at h)
  all_goals first | (simp at h; done) | rfl | (simp at h; obtain ⟨h1, h2⟩ := h; subst h1; subst h2; simp at hraw) | (simp at h; obtain ⟨_, h1, h2⟩ := h; subst h1; subst h2; simp at hraw)

example : gaussGradOut 2 (.mat [[2, 0], [0, 3]]) [1, 2] (fun _ => 0) = .value [-2, -6] := by decide +kernel

end CuqiVerif.C03
