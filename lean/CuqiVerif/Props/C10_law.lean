import CuqiVerif.Props.C10
import CuqiVerif.Proofs.C10_law
import CuqiVerif.Props.C05_law
import Mathlib.Probability.Distributions.Gamma
import Mathlib.Probability.Independence.Basic
import Mathlib.Probability.HasLawExists

/-!
# C10 — law theorems: the conjugate sampler draws from the exact conditional *law*

`Props/C10.lean` proves that the density of the Gamma the samplers draw from is *proportional* to the
target's kernel.  This file upgrades that to statements about probability **measures**
(`ProbabilityTheory.gammaMeasure`, Mathlib) and closes the gaps listed in `docs/C10.md`:

1. `hyperPosterior K r q α β` — the measure on `(0,∞)` with density `likelihood(data | s) · gammaPDF α β s`
   divided by its integral — **equals** `gammaMeasure (r/2+α) (q/2+β)`; its normalising integral is
   finite and positive for all data, dimensions and prior parameters; for every outcome of the
   executable model: the law drawn from is the exact conditional **iff** the model's `exact` flag
   is `true`; Gaussian (both wirings) and zero-bc GMRF instances; the `np.random.gamma(shape, 1/rate)`
   push-forward (C05's `gamma_draw_law`).
2. the negative direction at law level: `gammaMeasure` is injective in (shape, rate); for every
   periodic / Neumann GMRF the exact conditional is `Gamma((dim-1)/2+α, qₜ/2+β)`, a different measure
   from the one the sampler uses.
3. the power family with **real** exponents (`Real.rpow`): what passes the probes has `|p∓1|` and
   `|c-1|` inside an explicit band — and the band is not empty: `s^(1+10⁻⁶)` passes (counterexample
   to "only `p = 1`").
4. Direct: if the target's draw stream is i.i.d. with law `μ`, the stored chain has joint law `μ^⊗N`.

Definitions (`hyperPosterior`, `hyperNormConst`, `allcloseR`, `identityProbeR`, …) are in
`Proofs/C10_law.lean` with docstrings.
-/

open MeasureTheory ProbabilityTheory Real Set
open scoped ENNReal

namespace CuqiVerif.C10
open CuqiVerif.C20 (BC FMat)

/-! ## 1. The exact conditional law is the Gamma measure -/

/-- **Finiteness and positivity of the normalising integral, with its value.**  For every constant
    `K > 0` of the likelihood, every reported rank `r ≥ 0`, every misfit `q ≥ 0` (all data), every
    Gamma prior `α, β > 0`:
    `∫_{(0,∞)} K s^{r/2} e^{-sq/2} · gammaPDF α β s ds = K · β^α/Γ(α) · Γ(r/2+α)/(q/2+β)^{r/2+α} ∈ (0, ∞)`.
    So the conditional posterior of the hyper-parameter is always a proper distribution. -/
theorem hyperNormConst_pos_finite {K r q α β : ℝ} (hK : 0 < K) (hα : 0 < α) (hβ : 0 < β) (hr : 0 ≤ r)
    (hq : 0 ≤ q) :
    hyperNormConst K r q α β = ENNReal.ofReal (hyperConst K r q α β) ∧
    0 < hyperNormConst K r q α β ∧ hyperNormConst K r q α β < ∞ ∧ 0 < hyperConst K r q α β := by
  have hC := hyperConst_pos hK hα hβ hr hq
  rw [hyperNormConst_eq hK hα hβ hr hq]
  exact ⟨rfl, by simpa using hC, ENNReal.ofReal_lt_top, hC⟩

example : 0 < hyperNormConst 1 3 6 2 3 ∧ hyperNormConst 1 3 6 2 3 < ∞ :=
  let h := hyperNormConst_pos_finite (K := 1) (r := 3) (q := 6) (α := 2) (β := 3)
    (by norm_num) (by norm_num) (by norm_num) (by norm_num) (by norm_num)
  ⟨h.2.1, h.2.2.1⟩

/-- **`conj_posterior_is_gamma`, real level (the law upgrade of `posterior_kernel`).**  The
    normalised conditional posterior of the hyper-parameter — density `K s^{r/2} e^{-sq/2}`
    (likelihood of a Gaussian / GMRF with precision `s·P₁`, reported rank `r`, misfit `q`) times the
    `Gamma(α, β)` prior density, divided by its integral over `(0, ∞)` — **is** Mathlib's
    `gammaMeasure (r/2 + α) (q/2 + β)`, as measures on `ℝ`. -/
theorem hyperPosterior_eq_gammaMeasure {K r q α β : ℝ} (hK : 0 < K) (hα : 0 < α) (hβ : 0 < β)
    (hr : 0 ≤ r) (hq : 0 ≤ q) :
    hyperPosterior K r q α β = gammaMeasure (r / 2 + α) (q / 2 + β) :=
  hyperPosterior_eq hK hα hβ hr hq

example : hyperPosterior 7 3 6 2 3 = gammaMeasure (3 / 2 + 2) (6 / 2 + 3) :=
  hyperPosterior_eq_gammaMeasure (by norm_num) (by norm_num) (by norm_num) (by norm_num) (by norm_num)

/-- the exact conditional is a probability measure, and does not depend on the likelihood's constant -/
theorem hyperPosterior_isProbabilityMeasure {K r q α β : ℝ} (hK : 0 < K) (hα : 0 < α) (hβ : 0 < β)
    (hr : 0 ≤ r) (hq : 0 ≤ q) :
    IsProbabilityMeasure (hyperPosterior K r q α β) ∧ hyperPosterior K r q α β = hyperPosterior 1 r q α β := by
  rw [hyperPosterior_eq hK hα hβ hr hq, hyperPosterior_eq one_pos hα hβ hr hq]
  exact ⟨isProbabilityMeasure_gammaMeasure (by positivity) (by positivity), rfl⟩

example : IsProbabilityMeasure (hyperPosterior 7 3 6 2 3) :=
  (hyperPosterior_isProbabilityMeasure (by norm_num) (by norm_num) (by norm_num) (by norm_num) (by norm_num)).1

/-- **`gammaMeasure` is injective in (shape, rate):** two Gamma laws with different shapes, or
    different rates, are different measures (their densities are continuous on `(0,∞)`, a.e. equal
    hence equal, and `conj_proportional_iff` separates the parameters). -/
theorem gammaMeasure_injective {a r a' r' : ℝ} (ha : 0 < a) (hr : 0 < r) (ha' : 0 < a') (hr' : 0 < r') :
    gammaMeasure a r = gammaMeasure a' r' ↔ (a = a' ∧ r = r') :=
  ⟨gammaMeasure_inj ha hr ha' hr', by rintro ⟨rfl, rfl⟩; rfl⟩

example : gammaMeasure (9 / 2) 21 ≠ gammaMeasure 4 21 := by
  rw [Ne, gammaMeasure_injective (by norm_num) (by norm_num) (by norm_num) (by norm_num)]
  norm_num

/-- **`conj_posterior_is_gamma` for the executable model, both directions.**  For every outcome the
    driver can compute (any likelihood contribution `Q` with non-negative quadratic forms, any data,
    any Gamma prior `α, β > 0`, any likelihood constant `K > 0`): the Gamma *measure* the sampler
    draws from, `gammaMeasure shape rate` with `(shape, rate) = conjGamma m α β q_used`, **is the
    exact conditional law** `hyperPosterior K r qₜ α β` of the target **iff** the model's `exact`
    flag is `true` (iff `m = r ∧ q_used = qₜ`, `outcome_exact_iff`). -/
theorem conj_law_exact_iff (reg : Bool) (Q : Quad) (b : List ℚ) (α β : ℚ) (K : ℝ) (hK : 0 < K)
    (hα : 0 < α) (hβ : 0 < β) (ht : 0 ≤ Q.target) (hu : 0 ≤ Q.used) :
    hyperPosterior K (Q.rank : ℝ) (Q.target : ℝ) (α : ℝ) (β : ℝ)
        = gammaMeasure ((outcome reg Q b α β).gamma.shape : ℝ) ((outcome reg Q b α β).gamma.rate : ℝ)
      ↔ (outcome reg Q b α β).exact = true := by
  have hαR : (0 : ℝ) < (α : ℝ) := by exact_mod_cast hα
  have hβR : (0 : ℝ) < (β : ℝ) := by exact_mod_cast hβ
  have htR : (0 : ℝ) ≤ (Q.target : ℝ) := by exact_mod_cast ht
  have huR : (0 : ℝ) ≤ (Q.used : ℝ) := by exact_mod_cast hu
  have hrR : (0 : ℝ) ≤ (Q.rank : ℝ) := Nat.cast_nonneg _
  have hmR : (0 : ℝ) ≤ ((mOf reg b : ℕ) : ℝ) := Nat.cast_nonneg _
  have hshape : ((outcome reg Q b α β).gamma.shape : ℝ) = ((mOf reg b : ℕ) : ℝ) / 2 + (α : ℝ) := by
    simp [outcome, conjGamma]
  have hrate : ((outcome reg Q b α β).gamma.rate : ℝ) = (Q.used : ℝ) / 2 + (β : ℝ) := by
    simp [outcome, conjGamma]
  rw [hyperPosterior_eq hK hαR hβR hrR htR, hshape, hrate,
    gammaMeasure_injective (by positivity) (by positivity) (by positivity) (by positivity),
    outcome_exact_iff]
  constructor
  · rintro ⟨h1, h2⟩
    have h1' : ((Q.rank : ℕ) : ℝ) = ((mOf reg b : ℕ) : ℝ) := by linarith
    have h2' : (Q.target : ℝ) = (Q.used : ℝ) := by linarith
    exact ⟨(by exact_mod_cast h1'.symm), (by exact_mod_cast h2'.symm)⟩
  · rintro ⟨h1, h2⟩
    rw [h1, h2]
    exact ⟨rfl, rfl⟩

example : hyperPosterior 1 ((⟨6, 6, 3⟩ : Quad).rank : ℝ) ((⟨6, 6, 3⟩ : Quad).target : ℝ) ((2 : ℚ) : ℝ) ((3 : ℚ) : ℝ)
    = gammaMeasure ((outcome false ⟨6, 6, 3⟩ [1, 2, 3] 2 3).gamma.shape : ℝ)
        ((outcome false ⟨6, 6, 3⟩ [1, 2, 3] 2 3).gamma.rate : ℝ) :=
  (conj_law_exact_iff false ⟨6, 6, 3⟩ [1, 2, 3] 2 3 1 one_pos (by norm_num) (by norm_num)
    (by norm_num) (by norm_num)).2 ((outcome_exact_iff _ _ _ _ _).2 ⟨rfl, rfl⟩)

/-- **`conj_posterior_is_gamma`.**  Whenever the model's flag is `true`, the measure the conjugate
    sampler draws from is the exact conditional law of the hyper-parameter given the data. -/
theorem conj_posterior_is_gamma (reg : Bool) (Q : Quad) (b : List ℚ) (α β : ℚ) (K : ℝ) (hK : 0 < K)
    (hα : 0 < α) (hβ : 0 < β) (ht : 0 ≤ Q.target) (hex : (outcome reg Q b α β).exact = true) :
    hyperPosterior K (Q.rank : ℝ) (Q.target : ℝ) (α : ℝ) (β : ℝ)
      = gammaMeasure ((outcome reg Q b α β).gamma.shape : ℝ) ((outcome reg Q b α β).gamma.rate : ℝ) := by
  have hu : 0 ≤ Q.used := by rw [((outcome_exact_iff _ _ _ _ _).1 hex).2]; exact ht
  exact (conj_law_exact_iff reg Q b α β K hK hα hβ ht hu).2 hex

/-- **Gaussian likelihood, covariance `f(s) = 1/s` or precision `f(s) = s` (any callable value
    `f(1)` with non-negative unit precision), every dimension `n`, forward-model output `Ax`, data
    `b` of length `n`, prior `α, β > 0`: the law the sampler draws from IS the exact conditional**
    `∝ K s^{n/2} e^{-s c₁‖Ax-b‖²/2} · gammaPDF α β s`, namely `Gamma(n/2 + α, c₁‖Ax-b‖²/2 + β)`. -/
theorem gauss_conj_posterior_is_gamma (w : Wiring) (f1 : ℚ) (n : ℕ) (ax b : List ℚ) (α β : ℚ) (K : ℝ)
    (hK : 0 < K) (hα : 0 < α) (hβ : 0 < β) (hc : 0 ≤ unitPrec w f1) (hb : b.length = n) :
    hyperPosterior K (n : ℝ) ((unitPrec w f1 * normSq n (dev ax b) : ℚ) : ℝ) (α : ℝ) (β : ℝ)
      = gammaMeasure ((outcome false (gaussQuad n (unitPrec w f1) ax b) b α β).gamma.shape : ℝ)
          ((outcome false (gaussQuad n (unitPrec w f1) ax b) b α β).gamma.rate : ℝ) ∧
    ((outcome false (gaussQuad n (unitPrec w f1) ax b) b α β).gamma.shape : ℝ) = (n : ℝ) / 2 + (α : ℝ) ∧
    ((outcome false (gaussQuad n (unitPrec w f1) ax b) b α β).gamma.rate : ℝ)
      = ((unitPrec w f1 * normSq n (dev ax b) : ℚ) : ℝ) / 2 + (β : ℝ) := by
  refine ⟨?_, by simp [outcome, conjGamma, mOf, hb], by simp [outcome, conjGamma, gaussQuad]⟩
  exact conj_posterior_is_gamma false (gaussQuad n (unitPrec w f1) ax b) b α β K hK hα hβ
    (mul_nonneg hc (normSq_nonneg _ _)) (gauss_exact n _ ax b α β hb)

example := gauss_conj_posterior_is_gamma .cov 1 3 [0, 1, 2] [1, 1, 5] 2 3 1 one_pos (by norm_num) (by norm_num)
  (by norm_num [unitPrec]) rfl

/-- **GMRF with zero boundary condition and precision `d`, every order, 1-D / 2-D, every size, mean,
    point, prior: the law the sampler draws from IS the exact conditional.** -/
theorem gmrf_zero_conj_posterior_is_gamma (order pd n : ℕ) (c1 : ℚ) (mean b : List ℚ) (α β : ℚ) (K : ℝ)
    (hK : 0 < K) (hα : 0 < α) (hβ : 0 < β) (hc : 0 ≤ c1) (hb : b.length = gmrfDim pd n) :
    hyperPosterior K ((gmrfQuad order .zero pd n c1 mean b).rank : ℝ)
        ((gmrfQuad order .zero pd n c1 mean b).target : ℝ) (α : ℝ) (β : ℝ)
      = gammaMeasure ((outcome false (gmrfQuad order .zero pd n c1 mean b) b α β).gamma.shape : ℝ)
          ((outcome false (gmrfQuad order .zero pd n c1 mean b) b α β).gamma.rate : ℝ) ∧
    (gmrfQuad order .zero pd n c1 mean b).rank = gmrfDim pd n :=
  ⟨conj_posterior_is_gamma false _ b α β K hK hα hβ (mul_nonneg hc (normSqD_nonneg _ _))
      (gmrf_zero_exact order pd n c1 mean b α β hb),
    by simp [gmrfQuad, C20.declaredRank]⟩

example := gmrf_zero_conj_posterior_is_gamma 2 1 4 1 [0, 0, 0, 0] [1, 2, 0, 5] 2 3 1 one_pos
  (by norm_num) (by norm_num) (by norm_num) rfl

/-- **What `np.random.gamma(shape, scale = 1/rate)` returns has the exact conditional law.**  numpy
    draws `G ~ Gamma(shape, 1)` and returns `scale · G`; by C05's `gamma_draw_law` the push-forward is
    `gammaMeasure shape rate`, which by `conj_posterior_is_gamma` is the conditional posterior.
    (Trusted: that numpy's standard-gamma generator has law `gammaMeasure shape 1`.) -/
theorem conj_draw_is_exact_conditional (reg : Bool) (Q : Quad) (b : List ℚ) (α β : ℚ) (K : ℝ) (hK : 0 < K)
    (hα : 0 < α) (hβ : 0 < β) (ht : 0 ≤ Q.target) (hex : (outcome reg Q b α β).exact = true) :
    (gammaMeasure ((outcome reg Q b α β).gamma.shape : ℝ) 1).map
        (fun z => (1 / ((outcome reg Q b α β).gamma.rate : ℝ)) * z)
      = hyperPosterior K (Q.rank : ℝ) (Q.target : ℝ) (α : ℝ) (β : ℝ) := by
  have hrate : (0 : ℝ) < ((outcome reg Q b α β).gamma.rate : ℝ) := by
    have hu : 0 ≤ Q.used := by rw [((outcome_exact_iff _ _ _ _ _).1 hex).2]; exact ht
    have : (0 : ℚ) < (outcome reg Q b α β).gamma.rate := by
      simp only [outcome, conjGamma]; positivity
    exact_mod_cast this
  rw [CuqiVerif.C05.gamma_draw_law _ _ hrate, conj_posterior_is_gamma reg Q b α β K hK hα hβ ht hex]

example := conj_draw_is_exact_conditional false (gaussQuad 3 1 [0, 1, 2] [1, 1, 5]) [1, 1, 5] 2 3 1 one_pos
  (by norm_num) (by norm_num) (mul_nonneg (by norm_num) (normSq_nonneg _ _)) (gauss_exact 3 1 _ _ 2 3 rfl)

/-- **Both wirings give the same likelihood in `s`:** the density of `n` i.i.d. Gaussian
    components with variance `σ² = 1/(c₁ s)` (covariance wiring `cov = 1/s`, or precision wiring
    `prec = s`, `c₁` the unit precision) at squared distance `d = ‖Ax-b‖²` is
    `K · s^{n/2} · e^{-s (c₁ d)/2}` with `K = (2π/c₁)^{-n/2}` independent of `s` — the form
    `hyperPostPDFReal` assumes, with `r = n`, `q = c₁ d`. -/
theorem gauss_likelihood_in_hyperparameter {n c1 d s : ℝ} (hc : 0 < c1) (hs : 0 < s) :
    (2 * π * (1 / (c1 * s))) ^ (-(n / 2)) * Real.exp (-(d / (2 * (1 / (c1 * s)))))
      = (2 * π / c1) ^ (-(n / 2)) * (s ^ (n / 2) * Real.exp (-(s * (c1 * d) / 2))) := by
  have hpi : 0 < 2 * π / c1 := by positivity
  have e1 : 2 * π * (1 / (c1 * s)) = (2 * π / c1) * s⁻¹ := by field_simp
  have e2 : d / (2 * (1 / (c1 * s))) = s * (c1 * d) / 2 := by field_simp
  rw [e1, e2, Real.mul_rpow hpi.le (inv_nonneg.2 hs.le), Real.inv_rpow hs.le, ← Real.rpow_neg hs.le, neg_neg]
  ring

example : (2 * π * (1 / (3 * 2))) ^ (-((5 : ℝ) / 2)) * Real.exp (-(7 / (2 * (1 / (3 * 2)))))
    = (2 * π / 3) ^ (-((5 : ℝ) / 2)) * ((2 : ℝ) ^ ((5 : ℝ) / 2) * Real.exp (-(2 * (3 * 7) / 2))) :=
  gauss_likelihood_in_hyperparameter (by norm_num) (by norm_num)


/-! ## 2. The negative direction, at law level -/

/-- **A sampler that counts `m ≠ r` draws from the wrong law, whatever its rate:** the exact
    conditional `Gamma(r/2+α, ·)` and `Gamma(m/2+α, ·)` are different measures. -/
theorem gammaMeasure_ne_of_count_ne {m r : ℕ} {α b b' : ℝ} (hα : 0 < α) (hb : 0 < b) (hb' : 0 < b')
    (hmr : m ≠ r) : gammaMeasure ((r : ℝ) / 2 + α) b ≠ gammaMeasure ((m : ℝ) / 2 + α) b' := by
  rw [Ne, gammaMeasure_injective (by positivity) hb (by positivity) hb']
  rintro ⟨h, -⟩
  have : (r : ℝ) = (m : ℝ) := by linarith
  exact hmr (by exact_mod_cast this.symm)

example : gammaMeasure ((4 : ℕ) / 2 + 2) 21 ≠ gammaMeasure ((5 : ℕ) / 2 + 2) (21 + 1 / 10) :=
  gammaMeasure_ne_of_count_ne (by norm_num) (by norm_num) (by norm_num) (by norm_num)

lemma gmrfReg_nonneg (bc : BC) : 0 ≤ gmrfReg bc := by
  cases bc <;> simp [gmrfReg, sqrtEps]

/-- **Expected finding (DESIGN §5 no. 18) at law level, for all orders, sizes, data, priors.**  For a
    GMRF with periodic or Neumann boundary condition the *exact* conditional law of the precision is
    `Gamma((dim-1)/2 + α, qₜ/2 + β)` (the rank the GMRF's own log-density reports), and it is **not**
    the measure `Gamma(dim/2 + α, q_used/2 + β)` the conjugate sampler draws from. -/
theorem gmrf_nonzero_bc_law_ne (order : ℕ) (bc : BC) (pd n : ℕ) (c1 : ℚ) (mean b : List ℚ) (α β : ℚ)
    (K : ℝ) (hK : 0 < K) (hα : 0 < α) (hβ : 0 < β) (hc : 0 ≤ c1)
    (hbc : bc ≠ .zero) (hb : b.length = gmrfDim pd n) (hd : 0 < gmrfDim pd n) :
    hyperPosterior K ((gmrfQuad order bc pd n c1 mean b).rank : ℝ)
        ((gmrfQuad order bc pd n c1 mean b).target : ℝ) (α : ℝ) (β : ℝ)
      = gammaMeasure (((gmrfDim pd n : ℝ) - 1) / 2 + (α : ℝ))
          (((gmrfQuad order bc pd n c1 mean b).target : ℝ) / 2 + (β : ℝ)) ∧
    hyperPosterior K ((gmrfQuad order bc pd n c1 mean b).rank : ℝ)
        ((gmrfQuad order bc pd n c1 mean b).target : ℝ) (α : ℝ) (β : ℝ)
      ≠ gammaMeasure ((outcome false (gmrfQuad order bc pd n c1 mean b) b α β).gamma.shape : ℝ)
          ((outcome false (gmrfQuad order bc pd n c1 mean b) b α β).gamma.rate : ℝ) := by
  have hαR : (0 : ℝ) < (α : ℝ) := by exact_mod_cast hα
  have hβR : (0 : ℝ) < (β : ℝ) := by exact_mod_cast hβ
  have ht : 0 ≤ (gmrfQuad order bc pd n c1 mean b).target := mul_nonneg hc (normSqD_nonneg _ _)
  have hu : 0 ≤ (gmrfQuad order bc pd n c1 mean b).used :=
    mul_nonneg hc (add_nonneg (normSqD_nonneg _ _) (mul_nonneg (gmrfReg_nonneg bc) (normSq_nonneg _ _)))
  have hr : (gmrfQuad order bc pd n c1 mean b).rank = gmrfDim pd n - 1 := by
    cases bc <;> simp_all [gmrfQuad, C20.declaredRank]
  constructor
  · rw [hyperPosterior_eq hK hαR hβR (Nat.cast_nonneg _) (by exact_mod_cast ht), hr,
      Nat.cast_sub (Nat.succ_le_of_lt hd), Nat.cast_one]
  · rw [Ne, conj_law_exact_iff false _ b α β K hK hα hβ ht hu,
      gmrf_nonzero_bc_not_exact order bc pd n c1 mean b α β hbc hb hd]
    exact Bool.false_ne_true

example := gmrf_nonzero_bc_law_ne 1 .periodic 1 5 1 [0, 0, 0, 0, 0] [0, 1, 2, 3, 4] 2 3 1 one_pos
  (by norm_num) (by norm_num) (by norm_num) (by decide) rfl (by decide)


/-- **The two laws have different means: the sampler's draws are biased.**  Mean of the exact
    conditional: `(r/2+α)/(qₜ/2+β)`; mean of what the sampler draws: `(m/2+α)/(q_used/2+β)`.  For a
    periodic / Neumann GMRF `m = r + 1`: the precision is over-estimated by about `1/(2·rate)` per draw. -/
theorem conj_means (reg : Bool) (Q : Quad) (b : List ℚ) (α β : ℚ) (K : ℝ) (hK : 0 < K)
    (hα : 0 < α) (hβ : 0 < β) (ht : 0 ≤ Q.target) (hu : 0 ≤ Q.used) :
    ∫ s, s ∂(hyperPosterior K (Q.rank : ℝ) (Q.target : ℝ) (α : ℝ) (β : ℝ))
      = ((Q.rank : ℝ) / 2 + (α : ℝ)) / ((Q.target : ℝ) / 2 + (β : ℝ)) ∧
    ∫ s, s ∂(gammaMeasure ((outcome reg Q b α β).gamma.shape : ℝ) ((outcome reg Q b α β).gamma.rate : ℝ))
      = (((mOf reg b : ℕ) : ℝ) / 2 + (α : ℝ)) / ((Q.used : ℝ) / 2 + (β : ℝ)) := by
  have hαR : (0 : ℝ) < (α : ℝ) := by exact_mod_cast hα
  have hβR : (0 : ℝ) < (β : ℝ) := by exact_mod_cast hβ
  have htR : (0 : ℝ) ≤ (Q.target : ℝ) := by exact_mod_cast ht
  have huR : (0 : ℝ) ≤ (Q.used : ℝ) := by exact_mod_cast hu
  have hrR : (0 : ℝ) ≤ (Q.rank : ℝ) := Nat.cast_nonneg _
  have hmR : (0 : ℝ) ≤ ((mOf reg b : ℕ) : ℝ) := Nat.cast_nonneg _
  have hshape : ((outcome reg Q b α β).gamma.shape : ℝ) = ((mOf reg b : ℕ) : ℝ) / 2 + (α : ℝ) := by
    simp [outcome, conjGamma]
  have hrate : ((outcome reg Q b α β).gamma.rate : ℝ) = (Q.used : ℝ) / 2 + (β : ℝ) := by
    simp [outcome, conjGamma]
  rw [hyperPosterior_eq hK hαR hβR hrR htR, hshape, hrate,
    gammaMeasure_mean (by positivity) (by positivity), gammaMeasure_mean (by positivity) (by positivity)]
  exact ⟨rfl, rfl⟩

example := conj_means false (gmrfQuad 1 .periodic 1 5 1 [0, 0, 0, 0, 0] [0, 1, 2, 3, 4]) [0, 1, 2, 3, 4] 2 3 1
  one_pos (by norm_num) (by norm_num) (mul_nonneg (by norm_num) (normSqD_nonneg _ _))
  (mul_nonneg (by norm_num) (add_nonneg (normSqD_nonneg _ _) (mul_nonneg (gmrfReg_nonneg _) (normSq_nonneg _ _))))


/-! ## 3. The power family with real exponents

The full-strength statement asked for — *"among `s ↦ c·s^p` with real `p`, `c > 0`, only `p = 1`
(resp. `-1`) passes the three probes"* —

    theorem identityProbe_real_power_family (c p : ℝ) (hc : 0 < c)
        (h : identityProbeR (fun s => c * s ^ p)) : p = 1 ∧ |c - 1| ≤ 1.001 / 100000

is **false**: the probes are tolerance tests, so a whole band of real exponents around 1 passes
(`identityProbe_real_exponent_counterexample`: `s^(1+t)`, `0 ≤ t ≤ 10⁻⁶`; this is the listed finding
`exp:probe-only-validation`, `s**1.000001`).  What is true, and proved below, is the band:
`|p - 1| ≤ 10⁻⁵` (resp. `|p + 1| ≤ 10⁻⁹`) — every exponent outside it (`√s`, `s^{3/2}`, `s²`, `s^{0.9999}`,
`s^{-1/2}`, …) is rejected.  Nothing else is missing. -/

/-- bridge: the model's identity probes on scalar (rational) probe values are the `ℚ` instance of the
    real tolerance tests -/
theorem identityCheck_scalar_iff_real (v1 v10 v100 : ℚ) :
    identityCheck [[v1], [v10], [v100]] = true
      ↔ (allcloseR (v1 : ℝ) 1 ∧ allcloseR (v10 : ℝ) 10 ∧ allcloseR (v100 : ℝ) 100) := by
  rw [identityCheck_three, allcloseTol_iff_real, allcloseTol_iff_real, allcloseTol_iff_real]
  norm_num

/-- bridge for the reciprocal probes -/
theorem reciprocalCheck_scalar_iff_real (v1 v10 v100 : ℚ) :
    reciprocalCheck (probePoints.zip [[v1], [v10], [v100]]) = .ok
      ↔ (iscloseR (v1 : ℝ) (1 / 1) ∧ iscloseR (v10 : ℝ) (1 / 10) ∧ iscloseR (v100 : ℝ) (1 / 100)) := by
  rw [reciprocalCheck_three, iscloseTol_iff_real, iscloseTol_iff_real, iscloseTol_iff_real]
  norm_num

/-- **Power family, real exponent, precision key (exact real arithmetic).**  If `s ↦ c·s^p`
    (`c > 0`, `p ∈ ℝ`, `Real.rpow`) passes the identity probes at 1, 10, 100 then
    `|p - 1| ≤ 10⁻⁵` and `|c - 1| ≤ 1.002·10⁻⁵`. -/
theorem identityProbe_real_power_family_partial (c p : ℝ) (hc : 0 < c)
    (h : identityProbeR (fun s => c * s ^ p)) : |p - 1| ≤ 1 / 100000 ∧ |c - 1| ≤ 1.002 / 100000 := by
  obtain ⟨h1, h10, -⟩ := h
  simp only [Real.one_rpow, mul_one] at h1
  exact identity_band (η := 0) hc (by norm_num) (by simp) (by simp) h1 h10

/-- `√s`, `s^{3/2}`, `s²`, `s^{0.9999}` and `1/s` as precision are rejected -/
example : ¬ identityProbeR (fun s => 1 * s ^ ((1 : ℝ) / 2)) ∧ ¬ identityProbeR (fun s => 1 * s ^ ((3 : ℝ) / 2)) ∧
    ¬ identityProbeR (fun s => 1 * s ^ (2 : ℝ)) ∧ ¬ identityProbeR (fun s => 1 * s ^ (0.9999 : ℝ)) ∧
    ¬ identityProbeR (fun s => 1 * s ^ (-1 : ℝ)) := by
  refine ⟨fun h => ?_, fun h => ?_, fun h => ?_, fun h => ?_, fun h => ?_⟩ <;>
  · have := (identityProbe_real_power_family_partial 1 _ one_pos h).1
    rw [abs_le] at this
    norm_num at this

/-- **The same for the model's `identityCheck` on the (rational) probe values the code actually
    computes**, allowing a relative evaluation error `η ≤ 10⁻⁹` of `c·x^p` at each probe (floating-point
    `pow`): acceptance forces `|p - 1| ≤ 10⁻⁵`, `|c - 1| ≤ 1.002·10⁻⁵`. -/
theorem identityCheck_real_power_family_partial (c p η : ℝ) (v1 v10 v100 : ℚ) (hc : 0 < c)
    (hη : η ≤ 1 / 1000000000)
    (e1 : |(v1 : ℝ) - c * (1 : ℝ) ^ p| ≤ η * (c * (1 : ℝ) ^ p))
    (e10 : |(v10 : ℝ) - c * (10 : ℝ) ^ p| ≤ η * (c * (10 : ℝ) ^ p))
    (h : identityCheck [[v1], [v10], [v100]] = true) :
    |p - 1| ≤ 1 / 100000 ∧ |c - 1| ≤ 1.002 / 100000 := by
  rw [identityCheck_scalar_iff_real] at h
  simp only [Real.one_rpow, mul_one] at e1
  exact identity_band hc hη e1 e10 h.1 h.2.1

example : |(1 : ℝ) - 1| ≤ 1 / 100000 ∧ |(1 : ℝ) - 1| ≤ 1.002 / 100000 :=
  identityCheck_real_power_family_partial 1 1 0 1 10 100 one_pos (by norm_num) (by simp) (by simp)
    (by simpa using identityCheck_accepts_scaled_identity 1 (by norm_num))

/-- **Power family, real exponent, covariance key.**  If `s ↦ c·s^p` passes the reciprocal probes
    (`math.isclose`, relative `10⁻⁹`) then `|p + 1| ≤ 10⁻⁹` and `|c - 1| ≤ 1.002·10⁻⁹`. -/
theorem reciprocalProbe_real_power_family_partial (c p : ℝ) (hc : 0 < c)
    (h : reciprocalProbeR (fun s => c * s ^ p)) :
    |p + 1| ≤ 1 / 1000000000 ∧ |c - 1| ≤ 1.002 / 1000000000 := by
  obtain ⟨h1, h10, -⟩ := h
  simp only [Real.one_rpow, mul_one] at h1
  exact reciprocal_band (η := 0) hc (by norm_num) (by simp) (by simp) h1 h10

/-- `1/√s`, `1/s²`, `s` and constants as covariance are rejected -/
example : ¬ reciprocalProbeR (fun s => 1 * s ^ (-(1 : ℝ) / 2)) ∧ ¬ reciprocalProbeR (fun s => 1 * s ^ (-2 : ℝ)) ∧
    ¬ reciprocalProbeR (fun s => 1 * s ^ (1 : ℝ)) ∧ ¬ reciprocalProbeR (fun s => 1 * s ^ (0 : ℝ)) := by
  refine ⟨fun h => ?_, fun h => ?_, fun h => ?_, fun h => ?_⟩ <;>
  · have := (reciprocalProbe_real_power_family_partial 1 _ one_pos h).1
    rw [abs_le] at this
    norm_num at this

/-- the same for the model's `reciprocalCheck` on rational probe values with relative evaluation
    error `η ≤ 10⁻¹²` -/
theorem reciprocalCheck_real_power_family_partial (c p η : ℝ) (v1 v10 v100 : ℚ) (hc : 0 < c)
    (hη : η ≤ 1 / 1000000000000)
    (e1 : |(v1 : ℝ) - c * (1 : ℝ) ^ p| ≤ η * (c * (1 : ℝ) ^ p))
    (e10 : |(v10 : ℝ) - c * (10 : ℝ) ^ p| ≤ η * (c * (10 : ℝ) ^ p))
    (h : reciprocalCheck (probePoints.zip [[v1], [v10], [v100]]) = .ok) :
    |p + 1| ≤ 1 / 1000000000 ∧ |c - 1| ≤ 1.002 / 1000000000 := by
  rw [reciprocalCheck_scalar_iff_real] at h
  simp only [Real.one_rpow, mul_one] at e1
  exact reciprocal_band hc hη e1 e10 h.1 h.2.1

example : |(-1 : ℝ) + 1| ≤ 1 / 1000000000 ∧ |(1 : ℝ) - 1| ≤ 1.002 / 1000000000 :=
  reciprocalCheck_real_power_family_partial 1 (-1) 0 (1 / 1) (1 / 10) (1 / 100) one_pos (by norm_num)
    (by simp) (by rw [Real.rpow_neg_one]; norm_num) reciprocalCheck_accepts_reciprocal

/-- **Counterexample to "only `p = 1` passes" for real exponents:** every `s ↦ s^(1+t)` with
    `0 ≤ t ≤ 10⁻⁶` passes all three identity probes, although for `t > 0` it is not the identity
    (`2^(1+t) ≠ 2`).  The three-point tolerance probe cannot pin a real exponent. -/
theorem identityProbe_real_exponent_counterexample (t : ℝ) (ht0 : 0 ≤ t) (ht : t ≤ 1 / 1000000) :
    identityProbeR (fun s => 1 * s ^ (1 + t)) ∧ (0 < t → (2 : ℝ) ^ (1 + t) ≠ 2) := by
  obtain ⟨x1, x2⟩ := ten_rpow_small ht0 (by linarith)
  have e10 : (10 : ℝ) ^ (1 + t) = 10 * (10 : ℝ) ^ t := by
    rw [Real.rpow_add (by norm_num), Real.rpow_one]
  have e100 : (100 : ℝ) ^ (1 + t) = (10 * (10 : ℝ) ^ t) * (10 * (10 : ℝ) ^ t) := by
    rw [show (100 : ℝ) = 10 * 10 by norm_num, Real.mul_rpow (by norm_num) (by norm_num), e10]
  refine ⟨⟨?_, ?_, ?_⟩, fun htp h2 => ?_⟩
  · unfold allcloseR; simp only [Real.one_rpow, mul_one, sub_self, abs_zero]; norm_num
  · unfold allcloseR
    beta_reduce
    rw [one_mul, e10, show |(10 : ℝ)| = 10 by norm_num, abs_of_nonneg (by linarith)]
    nlinarith
  · unfold allcloseR
    beta_reduce
    rw [one_mul, e100, show |(100 : ℝ)| = 100 by norm_num, abs_of_nonneg (by nlinarith)]
    nlinarith
  · have : (1 : ℝ) < (2 : ℝ) ^ t := Real.one_lt_rpow (by norm_num) htp
    rw [Real.rpow_add (by norm_num), Real.rpow_one] at h2
    linarith

example : identityProbeR (fun s => 1 * s ^ (1 + (1 : ℝ) / 1000000)) :=
  (identityProbe_real_exponent_counterexample _ (by norm_num) le_rfl).1


/-- **The same for the covariance key:** every `s ↦ s^(-1-t)` with `0 ≤ t ≤ 10⁻¹⁰` passes the three
    reciprocal probes although for `t > 0` it is not `1/s` (`2^(-1-t) ≠ 1/2`). -/
theorem reciprocalProbe_real_exponent_counterexample (t : ℝ) (ht0 : 0 ≤ t) (ht : t ≤ 1 / 10000000000) :
    reciprocalProbeR (fun s => 1 * s ^ (-1 - t)) ∧ (0 < t → (2 : ℝ) ^ (-1 - t) ≠ 1 / 2) := by
  have y1 := ten_rpow_ge (-t)
  have y2 : (10 : ℝ) ^ (-t) ≤ 1 := Real.rpow_le_one_of_one_le_of_nonpos (by norm_num) (by linarith)
  have hl := log_ten_lt
  have hg := log_ten_gt
  have hY : 1 - 2.78 / 10000000000 ≤ (10 : ℝ) ^ (-t) := by nlinarith
  have e10 : (10 : ℝ) ^ (-1 - t) = 1 / 10 * (10 : ℝ) ^ (-t) := by
    rw [show (-1 - t) = -1 + -t by ring, Real.rpow_add (by norm_num), Real.rpow_neg_one]; norm_num
  have e100 : (100 : ℝ) ^ (-1 - t) = (1 / 10 * (10 : ℝ) ^ (-t)) * (1 / 10 * (10 : ℝ) ^ (-t)) := by
    rw [show (100 : ℝ) = 10 * 10 by norm_num, Real.mul_rpow (by norm_num) (by norm_num), e10]
  have key : ∀ v b : ℝ, v ≤ b → b - v ≤ 1 / 1000000000 * b → iscloseR v b := by
    intro v b hvb h
    unfold iscloseR
    rw [abs_of_nonpos (by linarith)]
    have : b ≤ max |v| |b| := (le_abs_self b).trans (le_max_right _ _)
    nlinarith
  refine ⟨⟨?_, ?_, ?_⟩, fun htp h2 => ?_⟩
  · beta_reduce
    rw [Real.one_rpow]
    exact key _ _ (by norm_num) (by norm_num)
  · beta_reduce
    rw [one_mul, e10]
    exact key _ _ (by nlinarith) (by nlinarith)
  · beta_reduce
    rw [one_mul, e100]
    exact key _ _ (by nlinarith) (by nlinarith)
  · have : (2 : ℝ) ^ (-t) < 1 := Real.rpow_lt_one_of_one_lt_of_neg (by norm_num) (by linarith)
    rw [show (-1 - t) = -1 + -t by ring, Real.rpow_add (by norm_num), Real.rpow_neg_one] at h2
    nlinarith

example : reciprocalProbeR (fun s => 1 * s ^ (-1 - (1 : ℝ) / 10000000000)) :=
  (reciprocalProbe_real_exponent_counterexample _ (by norm_num) le_rfl).1


/-! ## 4. Direct: an i.i.d. draw stream gives an i.i.d. chain -/

/-- the `j`-th stored state of a Direct run of `N` steps after `k` target assignments, as a function
    of the target's draw stream -/
def directState {E : Type} (draws : ℕ → E) (k N : ℕ) (x0 : E) (j : ℕ) : E :=
  ((directRun draws N (directValidateN k (chainInit 0 x0))).samples).getD j x0

/-- each stored state is the next element of the target's draw stream (`direct_is_target_sample`) -/
theorem directState_eq {E : Type} (draws : ℕ → E) (k N : ℕ) (x0 : E) (j : ℕ) (hj : j < N) :
    directState draws k N x0 j = draws (k + j) := by
  unfold directState
  rw [(direct_is_target_sample draws k N x0).1]
  simp [List.getD_eq_getElem?_getD, hj]

example : directState (fun i => 10 * i) 1 3 0 2 = 30 := directState_eq _ 1 3 0 2 (by norm_num)

/-- **Direct: the chain is an i.i.d. sequence from the target's own sampling law.**  If the
    target's successive `sample()` results `draws 0, draws 1, …` are independent random variables
    with common law `μ` (the target's sampling law; for a Gamma target `μ = gammaMeasure a r`), then
    the `N` states stored by `Direct` (after any number `k` of target assignments) have joint law
    `μ ⊗ … ⊗ μ`: they are independent and each has law `μ`. -/
theorem direct_chain_iid {Ω E : Type} [MeasurableSpace Ω] [MeasurableSpace E] (P : Measure Ω)
    [IsProbabilityMeasure P] (μ : Measure E) (draws : ℕ → Ω → E) (hm : ∀ i, Measurable (draws i))
    (hind : iIndepFun draws P) (hlaw : ∀ i, P.map (draws i) = μ) (k N : ℕ) (x0 : E) :
    P.map (fun ω (j : Fin N) => directState (fun i => draws i ω) k N x0 j)
      = Measure.pi (fun _ : Fin N => μ) := by
  have hfun : (fun ω (j : Fin N) => directState (fun i => draws i ω) k N x0 j)
      = (fun ω (j : Fin N) => draws (k + j) ω) := by
    funext ω j
    exact directState_eq _ k N x0 j j.2
  have hinj : Function.Injective (fun j : Fin N => k + (j : ℕ)) := fun a b h => by
    apply Fin.ext; simpa using h
  have hind' : iIndepFun (fun (j : Fin N) => draws (k + (j : ℕ))) P := hind.precomp hinj
  rw [hfun, (iIndepFun_iff_map_fun_eq_pi_map (fun j => (hm _).aemeasurable)).1 hind']
  congr 1
  funext j
  exact hlaw _

/-- corollary: the states are independent and every state has the target's sampling law -/
theorem direct_states_indep_identDistrib {Ω E : Type} [MeasurableSpace Ω] [MeasurableSpace E]
    (P : Measure Ω) [IsProbabilityMeasure P] (μ : Measure E) (draws : ℕ → Ω → E)
    (hind : iIndepFun draws P) (hlaw : ∀ i, P.map (draws i) = μ)
    (k N : ℕ) (x0 : E) :
    iIndepFun (fun (j : Fin N) ω => directState (fun i => draws i ω) k N x0 j) P ∧
    ∀ j : Fin N, P.map (fun ω => directState (fun i => draws i ω) k N x0 j) = μ := by
  have hfun : ∀ j : Fin N, (fun ω => directState (fun i => draws i ω) k N x0 j) = draws (k + (j : ℕ)) :=
    fun j => funext fun ω => directState_eq _ k N x0 j j.2
  have hinj : Function.Injective (fun j : Fin N => k + (j : ℕ)) := fun a b h => by
    apply Fin.ext; simpa using h
  refine ⟨?_, fun j => by rw [hfun j]; exact hlaw _⟩
  have : (fun (j : Fin N) ω => directState (fun i => draws i ω) k N x0 j)
      = (fun (j : Fin N) => draws (k + (j : ℕ))) := funext hfun
  rw [this]
  exact hind.precomp hinj

/-- non-vacuity: an i.i.d. stream with law `Gamma(2, 3)` exists, and Direct's chain of 5 states
    then has law `Gamma(2,3)^{⊗5}` -/
example : ∃ (Ω : Type) (_ : MeasurableSpace Ω) (P : Measure Ω) (draws : ℕ → Ω → ℝ),
    P.map (fun ω (j : Fin 5) => directState (fun i => draws i ω) 1 5 0 j)
      = Measure.pi (fun _ : Fin 5 => gammaMeasure 2 3) := by
  have : IsProbabilityMeasure (gammaMeasure 2 3) :=
    isProbabilityMeasure_gammaMeasure (by norm_num) (by norm_num)
  obtain ⟨Ω, mΩ, P, X, hX, hlaw, hind, hP⟩ := exists_iid ℕ (gammaMeasure 2 3)
  exact ⟨Ω, mΩ, P, X, direct_chain_iid P _ X hX hind (fun i => (hlaw i).map_eq) 1 5 0⟩

end CuqiVerif.C10
