import CuqiVerif.Model.C18_shapes
import CuqiVerif.Props.C18

/-!
# C18 — numpy broadcasting and shape refusals inside `TimeDependentLinearPDE.solve`

Theorems about the executable definitions of `CuqiVerif/Model/C18_shapes.lean` (driver op `timeb`,
tied to the real `solve()` on every shape class × n ∈ {1,2,3} × both methods on every run).
-/

set_option linter.unusedSectionVars false
set_option linter.unusedVariables false

namespace CuqiVerif.C18

variable {R : Type} [CommRing R]

/-- **solveTimeShapes_full.**  Conservative extension: when the form hands back an `(n,n)` operator, an
    `(n,)` source and an `(n,)` initial condition at every time, `solve()` is exactly the `solveTime` of
    `Model/C18.lean` (all theorems about the recurrences apply), with `n = len(initial_condition)`. -/
theorem solveTimeShapes_full {I : Type} (n : ℕ) (m : Method) (A : R → Mat R) (b ic : R → Vec R)
    (solver : Mat R → Vec R → SolverRet (Vec R) I) (t0 : R) (rest : List R) :
    solveTimeShapes m (fun t => { op := .mat n (A t), src := .vec n (b t), ic := .vec n (ic t) }) solver (t0 :: rest)
      = (solveTime n m (fun t => { op := A t, src := b t, ic := ic t0 }) solver (t0 :: rest)).map fun r => (n, r.1, r.2) := by
  have hop : ∀ t, bcOp n (OpArg.mat n (A t)) = .ok (A t) := fun t => by simp [bcOp]
  have hsrc : ∀ t, bcSrc n m (SrcArg.vec n (b t)) = .ok (b t) := fun t => by simp [bcSrc]
  have hm : ∀ l : List R, l.mapM (fun t => (Except.ok (A t) : Except Err (Mat R)).bind fun M =>
        (Except.ok (b t) : Except Err (Vec R)).map fun v => (M, v))
      = (.ok (l.map fun t => (A t, b t)) : Except Err _) := by
    intro l
    induction l with
    | nil => rfl
    | cons a l ih =>
      rw [List.mapM_cons, ih]
      rfl
  unfold solveTimeShapes
  simp only [bcIc, hop, hsrc, hm]

/-- **scalar_source_is_constant_vector.**  A scalar (or 0-d, or one-element) source is the same value at
    every node, for both methods and every `n`. -/
theorem scalar_source_is_constant_vector (n : ℕ) (m : Method) (c : R) :
    bcSrc n m (.scalar c) = .ok (fun _ => c) ∧ bcSrc n m (.vec n (fun _ => c)) = .ok (fun _ => c)
      ∧ (n ≠ 1 → bcSrc n m (.vec 1 (fun _ => c)) = .ok (fun _ => c)) := by
  refine ⟨rfl, by simp [bcSrc], fun hn => ?_⟩
  have : ¬ (1 = n) := fun h => hn h.symm
  simp [bcSrc, this]

/-- **scalar_operator_is_full_matrix.**  A scalar operator `c` is NOT `c·I`: numpy adds `dt·c` to every
    entry of `np.eye(n)`, i.e. the operator used is the full matrix of `c`s (they coincide only for
    `n = 1`). -/
theorem scalar_operator_is_full_matrix (n : ℕ) (c : R) :
    ∃ A, bcOp n (.scalar c) = .ok A ∧ ∀ i j, A i j = c :=
  ⟨fun _ _ => c, rfl, fun _ _ => rfl⟩

/-- the off-diagonal entry witnesses the difference from `c·I` -/
theorem scalar_operator_counterexample :
    ∃ A : Mat ℚ, bcOp 2 (.scalar (1 : ℚ)) = .ok A ∧ A 0 1 = 1 ∧ (1 : ℚ) * eye (R := ℚ) 0 1 = 0 :=
  ⟨fun _ _ => 1, rfl, rfl, by simp [eye]⟩

/-- **vector_operator_is_repeated_rows.**  An `(n,)` operator `d` is used as the matrix whose every row
    is `d` (not `diag(d)`). -/
theorem vector_operator_is_repeated_rows (n : ℕ) (d : Vec R) :
    ∃ A, bcOp n (.vec n d) = .ok A ∧ ∀ i j, A i j = d j :=
  ⟨fun _ j => d j, by simp [bcOp], fun _ _ => rfl⟩

/-- **shape_refusals.**  What `solve()` refuses: a scalar initial condition; an operator or a 1-D source
    whose size is neither `n` nor 1; an `(k,1)` column source or initial condition with `k > 1`. -/
theorem shape_refusals (n k : ℕ) (m : Method) (hk : k ≠ n) (hk1 : k ≠ 1) (c : R) (A : Mat R) (v : Vec R) :
    bcIc (.scalar c) = (.error .valueError : Except Err (ℕ × Vec R))
    ∧ bcOp n (.mat k A) = .error .valueError ∧ bcOp n (.vec k v) = .error .valueError
    ∧ bcSrc n m (.vec k v) = .error .valueError ∧ bcSrc n m (.col k v) = .error .valueError
    ∧ bcIc (.col k v) = .error .valueError := by
  refine ⟨rfl, ?_, ?_, ?_, ?_, ?_⟩ <;> simp [bcOp, bcSrc, bcIc, hk, hk1]

/-- **row_source_is_method_dependent.**  A `(1,n)` source with `n > 1` is accepted by forward Euler (as
    the vector) and refused by backward Euler (`scipy.linalg.solve` with a `(1,n)` right-hand side). -/
theorem row_source_is_method_dependent (n : ℕ) (hn : 1 < n) (b : Vec R) :
    bcSrc n .forward (.row n b) = .ok b ∧ bcSrc n .backward (.row n b) = .error .valueError := by
  have h1 : ¬ (n = 1) := by omega
  constructor <;> simp [bcSrc, h1]

/-- **solveTimeShapes_n_is_len_ic.**  The number of rows of the returned array is `len(initial_condition)`. -/
theorem solveTimeShapes_n_is_len_ic {I : Type} (m : Method) (raw : R → RawForm R)
    (solver : Mat R → Vec R → SolverRet (Vec R) I) (t0 : R) (rest : List R) (n : ℕ) (levels : List (Array R))
    (info : Option (List I)) (h : solveTimeShapes m raw solver (t0 :: rest) = .ok (n, levels, info)) :
    ∃ v, bcIc (raw t0).ic = .ok (n, v) := by
  unfold solveTimeShapes at h
  simp only at h
  split at h
  · cases h
  · rename_i n' ic0 hic
    split at h
    · cases h
    · cases hs : solveTime n' m _ solver (t0 :: rest) with
      | error e => rw [hs] at h; cases h
      | ok r =>
        rw [hs] at h
        simp only [Except.map, Except.ok.injEq, Prod.mk.injEq] at h
        exact ⟨ic0, by rw [hic, h.1]⟩

example : ((solveTimeShapes (I := ℚ) .forward (fun _ => { op := .scalar (-1 : ℚ), src := .scalar 2, ic := .vec 2 (fun _ => 1) })
    (fun _ _ => .raised) [0, 1/2]).toOption.map (fun r => r.1)) = some 2 := by decide +kernel

end CuqiVerif.C18
