import CuqiVerif.Model.C08_config
import Mathlib.Tactic.Linarith
import Mathlib.Tactic.NormNum
import Mathlib.Data.Rat.Defs
import Mathlib.Algebra.Order.Field.Basic

/-!
# C08 — what the argument validation guarantees to a transition (`Model/C08_config.lean`)

The transition theorems assume a depth bound `max_depth : ℕ` (so the doubling loop runs at least once and the
statistic is assigned, `nutsStep_alpha_stat`), and the adaptation theorems a target rate in `[0,1]`
(`hbar_bounded`).  These are what the setters of the experimental interface enforce; the legacy interface
validates nothing and dispatches on `adapt_step_size` by `==`.
-/
namespace CuqiVerif.C08

/-- **An accepted `max_depth` is a natural number**: `None ↦ 15`, `True/False ↦ 1/0`, a non-negative `int` itself;
    everything else (floats, numpy integers, negative ints) is rejected. -/
theorem maxDepth_accepted_nonneg (v : PyVal) (n : Int) (h : setMaxDepth v = .ok n) : 0 ≤ n := by
  cases v <;> simp [setMaxDepth] at h
  · omega
  · rename_i b; cases b <;> simp at h <;> omega
  · rename_i m; split at h <;> simp at h; omega

example : setMaxDepth (.int 4) = .ok 4 := by decide
example : setMaxDepth (.npint 4) = .typeError := by decide

/-- **An accepted `step_size` is `None`, NaN, `+inf` or a strictly positive number**; bools, zero, negative
    numbers, `-inf`, complex numbers and non-numbers are rejected (NaN and `+inf` slip through `value <= 0`:
    the transition then never moves — identity kernel). -/
theorem stepSize_accepted_pos (v w : PyVal) (h : setStepSize v = .ok w) :
    w = v ∧ (v = .none ∨ v = .nan ∨ v = .pinf ∨
      (∃ n : Int, 0 < n ∧ (v = .int n ∨ v = .npint n)) ∨ ∃ q : Rat, 0 < q ∧ v = .float q) := by
  cases v with
  | none => simp [setStepSize] at h; exact ⟨h.symm, Or.inl rfl⟩
  | bool b => simp [setStepSize] at h
  | str => simp [setStepSize] at h
  | complex => simp [setStepSize] at h
  | nan => simp [setStepSize, PyVal.num, Num.le0] at h; exact ⟨h.symm, Or.inr (Or.inl rfl)⟩
  | pinf => simp [setStepSize, PyVal.num, Num.le0] at h; exact ⟨h.symm, Or.inr (Or.inr (Or.inl rfl))⟩
  | ninf => simp [setStepSize, PyVal.num, Num.le0] at h
  | int n =>
    simp only [setStepSize, PyVal.num] at h
    by_cases hc : (Num.fin ((n : Int) : Rat)).le0 = true
    · rw [if_pos hc] at h; cases h
    · rw [if_neg hc] at h
      simp only [Num.le0, decide_eq_true_eq, not_le] at hc
      have hn : 0 < n := by exact_mod_cast hc
      cases h
      exact ⟨rfl, Or.inr (Or.inr (Or.inr (Or.inl ⟨n, hn, Or.inl rfl⟩)))⟩
  | npint n =>
    simp only [setStepSize, PyVal.num] at h
    by_cases hc : (Num.fin ((n : Int) : Rat)).le0 = true
    · rw [if_pos hc] at h; cases h
    · rw [if_neg hc] at h
      simp only [Num.le0, decide_eq_true_eq, not_le] at hc
      have hn : 0 < n := by exact_mod_cast hc
      cases h
      exact ⟨rfl, Or.inr (Or.inr (Or.inr (Or.inl ⟨n, hn, Or.inr rfl⟩)))⟩
  | float q =>
    simp only [setStepSize, PyVal.num] at h
    by_cases hc : (Num.fin q).le0 = true
    · rw [if_pos hc] at h; cases h
    · rw [if_neg hc] at h
      simp only [Num.le0, decide_eq_true_eq, not_le] at hc
      cases h
      exact ⟨rfl, Or.inr (Or.inr (Or.inr (Or.inr ⟨q, hc, rfl⟩)))⟩

example : setStepSize (.float (1/4)) = .ok (.float (1/4)) := by decide +kernel
example : setStepSize (.bool true) = .typeError := by decide

/-- **An accepted finite `opt_acc_rate` lies strictly between 0 and 1** (the hypothesis `hd` of `hbar_bounded`);
    the only other accepted value is NaN. -/
theorem optAcc_accepted_unit (v w : PyVal) (h : setOptAcc v = .ok w) :
    w = v ∧ (v = .nan ∨ ∃ q : Rat, 0 < q ∧ q < 1 ∧ v = .float q) := by
  cases v with
  | none => simp [setOptAcc] at h
  | str => simp [setOptAcc] at h
  | complex => simp [setOptAcc] at h
  | bool b => cases b <;> simp [setOptAcc, PyVal.num, Num.le0, Num.ge1] at h
  | nan => simp [setOptAcc, PyVal.num, Num.le0, Num.ge1] at h; exact ⟨h.symm, Or.inl rfl⟩
  | pinf => simp [setOptAcc, PyVal.num, Num.le0, Num.ge1] at h
  | ninf => simp [setOptAcc, PyVal.num, Num.le0, Num.ge1] at h
  | int n =>
    simp only [setOptAcc, PyVal.num] at h
    by_cases hc : ((Num.fin ((n : Int) : Rat)).le0 || (Num.fin ((n : Int) : Rat)).ge1) = true
    · rw [if_pos hc] at h; cases h
    · rw [if_neg hc] at h
      simp only [Num.le0, Num.ge1, Bool.or_eq_true, decide_eq_true_eq, not_or, not_le, ge_iff_le] at hc
      have a' : 0 < n := by exact_mod_cast hc.1
      have b' : n < 1 := by exact_mod_cast hc.2
      omega
  | npint n =>
    simp only [setOptAcc, PyVal.num] at h
    by_cases hc : ((Num.fin ((n : Int) : Rat)).le0 || (Num.fin ((n : Int) : Rat)).ge1) = true
    · rw [if_pos hc] at h; cases h
    · rw [if_neg hc] at h
      simp only [Num.le0, Num.ge1, Bool.or_eq_true, decide_eq_true_eq, not_or, not_le, ge_iff_le] at hc
      have a' : 0 < n := by exact_mod_cast hc.1
      have b' : n < 1 := by exact_mod_cast hc.2
      omega
  | float q =>
    simp only [setOptAcc, PyVal.num] at h
    by_cases hc : ((Num.fin q).le0 || (Num.fin q).ge1) = true
    · rw [if_pos hc] at h; cases h
    · rw [if_neg hc] at h
      simp only [Num.le0, Num.ge1, Bool.or_eq_true, decide_eq_true_eq, not_or, not_le, ge_iff_le] at hc
      cases h
      exact ⟨rfl, Or.inr ⟨q, hc.1, hc.2, rfl⟩⟩

example : setOptAcc (.float (3/5)) = .ok (.float (3/5)) := by decide +kernel

/-- **Legacy dispatch**: only the object `True` with `Nb = 0` is refused; `1`, `1.0`, numpy `1` switch adaptation ON
    (`== True`) — also with `Nb = 0` —, `0`, `0.0` mean "find a step size, do not adapt", every other value is
    taken as the step size without any validation (negative numbers, NaN, `None` included). -/
theorem legacy_dispatch (a : PyVal) (nb : Nat) :
    (legacyMode a nb = .valueError ↔ (a = .bool true ∧ nb = 0)) ∧
    (legacyMode (.float 1) nb = .adaptive) ∧ (legacyMode (.int 1) 0 = .adaptive) ∧
    (legacyMode (.float 0) nb = .findOnly) ∧
    (∀ q : Rat, q ≠ 0 → q ≠ 1 → legacyMode (.float q) nb = .fixed (.float q)) := by
  refine ⟨?_, ?_, ?_, ?_, ?_⟩
  · constructor
    · intro h
      simp only [legacyMode] at h
      split at h
      · rename_i hc; exact hc
      · split at h
        · cases h
        · split at h <;> cases h
    · rintro ⟨rfl, rfl⟩; simp [legacyMode]
  · simp [legacyMode, eqTrue]
  · simp [legacyMode, eqTrue]
  · simp [legacyMode, eqTrue, eqFalse]
  · intro q h0 h1
    simp [legacyMode, eqTrue, eqFalse, h0, h1]

example : legacyMode (.float (-1/4)) 3 = .fixed (.float (-1/4)) := by
  have := (legacy_dispatch (.float (-1/4)) 3).2.2.2.2 (-1/4) (by norm_num) (by norm_num)
  exact this

end CuqiVerif.C08
