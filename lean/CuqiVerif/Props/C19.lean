import CuqiVerif.Model.C19
import CuqiVerif.Proofs.C19
import Mathlib.Tactic.Ring
import Mathlib.Tactic.Linarith
import Mathlib.Data.List.Basic
import Mathlib.Data.List.Nodup
import Mathlib.Algebra.BigOperators.Group.List.Basic
import Mathlib.Algebra.Order.BigOperators.Group.List

/-!
# C19 — property theorems

All theorems are about the executable definitions of `CuqiVerif/Model/C19.lean` that the driver
runs (`pySlice`, `Samples.burnthin/funvals/vector/parameters/stat/computeCi/ciWidth/toArviz/
rhatInput`, `jointBurnthin`, `mean/variance/median/percentile`).  They hold for every list length,
every dimension and every rational sample value.  `natSlice xs b t` (Proofs/C19) is the
closed-form slice used to state them; `pySlice_eq_natSlice` ties it to the model.
-/
namespace CuqiVerif.C19

/-! ## burn-in / thinning -/

/-- The model's Python slice `[b::t]`, for a burn-in count `b ≥ 0` and a thinning `t ≥ 1`, is the
    closed-form slice. -/
theorem pySlice_eq_natSlice {α : Type} (xs : List α) (b t : ℕ) (ht : 1 ≤ t) :
    pySlice xs (b : ℤ) (t : ℤ) = some (natSlice xs b t) := pySlice_nat xs b t ht

/-- **burnthin_get**: element `i` of the slice is the stored element `b + i·t` (and there is no
    element `i` exactly when there is no stored element `b + i·t`) — for every list, `b`, `t ≥ 1`, `i`. -/
theorem burnthin_get {α : Type} (xs : List α) (b t : ℕ) (ht : 1 ≤ t) (i : ℕ) :
    (natSlice xs b t)[i]? = xs[b + i * t]? := natSlice_getElem? xs b t ht i

/-- **burnthin_length**: `⌈(N − b)/t⌉` samples remain. -/
theorem burnthin_length {α : Type} (xs : List α) (b t : ℕ) (ht : 1 ≤ t) :
    (natSlice xs b t).length = (xs.length - b + t - 1) / t := natSlice_length xs b t ht

example : natSlice [10, 11, 12, 13, 14, 15, 16] 2 3 = [12, 15] := by decide

/-- `Samples.burnthin` with `0 ≤ b < Ns`, `t ≥ 1` succeeds and slices the sample axis. -/
theorem burnthin_ok (s : Samples) (b t : ℕ) (ht : 1 ≤ t) (hb : b < s.Ns) :
    s.burnthin b t = .ok { s with cols := natSlice s.cols b t } := by
  unfold Samples.burnthin
  have : ¬ ((b : ℤ) ≥ (s.Ns : ℤ)) := by omega
  rw [if_neg this, pySlice_nat _ _ _ ht]

/-- **burnthin_refuses_iff**: with `t ≥ 1` the call raises exactly when `b ≥ Ns`. -/
theorem burnthin_refuses_iff (s : Samples) (b t : ℕ) (ht : 1 ≤ t) :
    (∃ e, s.burnthin b t = .error e) ↔ s.Ns ≤ b := by
  constructor
  · rintro ⟨e, he⟩
    by_contra hlt
    rw [burnthin_ok s b t ht (by omega)] at he
    cases he
  · intro h
    refine ⟨"ValueError", ?_⟩
    unfold Samples.burnthin
    have : (b : ℤ) ≥ (s.Ns : ℤ) := by omega
    rw [if_pos this]

/-- **flags_preserved**: whatever `burnthin` returns (any integers `b`, `t`, negative ones
    included) has the geometry, the representation flags and the coordinate shape of its source. -/
theorem burnthin_flags_preserved (s s' : Samples) (b t : ℤ) (h : s.burnthin b t = .ok s') :
    s'.geom = s.geom ∧ s'.isPar = s.isPar ∧ s'.isVec = s.isVec ∧ s'.shape = s.shape := by
  unfold Samples.burnthin at h
  split at h
  · cases h
  · split at h
    · cases h
    · cases h; exact ⟨rfl, rfl, rfl, rfl⟩

/-- Every coordinate's chain is thinned in the same way: the chain of coordinate `k` after
    `burnthin` is the slice of the chain of coordinate `k` before. -/
theorem burnthin_chain (s s' : Samples) (b t : ℕ) (ht : 1 ≤ t) (h : s.burnthin b t = .ok s') (k : ℕ) :
    s'.chain k = natSlice (s.chain k) b t := by
  by_cases hb : b < s.Ns
  · rw [burnthin_ok s b t ht hb] at h
    cases h
    unfold Samples.chain
    rw [natSlice_map _ _ _ _ ht]
  · have := (burnthin_refuses_iff s b t ht).mpr (by omega)
    obtain ⟨e, he⟩ := this
    rw [he] at h; cases h

/-- **burnthin_compose** (including refusals): thinning a thinned chain is one thinning with
    burn-in `b₁ + b₂·t₁` and step `t₁·t₂`. -/
theorem burnthin_compose (s s₁ : Samples) (b₁ t₁ b₂ t₂ : ℕ) (h₁ : 1 ≤ t₁) (h₂ : 1 ≤ t₂)
    (h : s.burnthin b₁ t₁ = .ok s₁) :
    s₁.burnthin b₂ t₂ = s.burnthin ((b₁ + b₂ * t₁ : ℕ) : ℤ) ((t₁ * t₂ : ℕ) : ℤ) := by
  have h12 : 1 ≤ t₁ * t₂ := Nat.one_le_iff_ne_zero.mpr (Nat.mul_ne_zero (by omega) (by omega))
  by_cases hb : b₁ < s.Ns
  · rw [burnthin_ok s b₁ t₁ h₁ hb] at h
    cases h
    set s₁ : Samples := { s with cols := natSlice s.cols b₁ t₁ } with hs₁
    have hN : s₁.Ns = (s.Ns - b₁ + t₁ - 1) / t₁ := natSlice_length s.cols b₁ t₁ h₁
    by_cases hb₂ : b₂ < s₁.Ns
    · have hlt : b₂ * t₁ < s.Ns - b₁ := (lt_ceilDiv_iff _ _ _ h₁).mp (hN ▸ hb₂)
      rw [burnthin_ok s₁ b₂ t₂ h₂ hb₂, burnthin_ok s _ _ h12 (by omega)]
      simp only [hs₁, natSlice_compose _ _ _ _ _ h₁ h₂]
    · have hge : ¬ (b₂ * t₁ < s.Ns - b₁) := fun hh => hb₂ (hN ▸ (lt_ceilDiv_iff _ _ _ h₁).mpr hh)
      unfold Samples.burnthin
      have e1 : (b₂ : ℤ) ≥ (s₁.Ns : ℤ) := by omega
      have e2 : ((b₁ + b₂ * t₁ : ℕ) : ℤ) ≥ (s.Ns : ℤ) := by
        have : s.Ns ≤ b₁ + b₂ * t₁ := by omega
        exact_mod_cast this
      rw [if_pos e1, if_pos e2]
  · obtain ⟨e, he⟩ := (burnthin_refuses_iff s b₁ t₁ h₁).mpr (by omega)
    rw [he] at h; cases h

/-- a concrete non-trivial instance for the `example`s: 5 samples of a 2-vector -/
def exGeom : Geometry :=
  { tag := "ex", parDim := 2, funShape := [2], funvecDim := 2, varNames := ["v0", "v1"],
    par2fun := fun v => .ok (v.map (fun x => 2 * x + 1)), fun2par := fun v => .ok (v.map (fun x => (x - 1) / 2)),
    fun2vec := .ok, vec2fun := .ok }
def exS : Samples :=
  { cols := [[0, 10], [1, 11], [2, 12], [3, 13], [4, 14]], shape := [2], geom := exGeom, isPar := true, isVec := true }

example : ∃ s₁, exS.burnthin 1 2 = .ok s₁ ∧ s₁.cols = [[1, 11], [3, 13]] :=
  ⟨_, burnthin_ok exS 1 2 (by norm_num) (by decide), by decide⟩

/-! ## JointSamples -/

/-- **joint_is_memberwise**: `JointSamples.burnthin` succeeds exactly when every member's
    `burnthin` does, keeps the keys in order and holds each member's own result. -/
theorem joint_is_memberwise (js js' : List (String × Samples)) (b t : ℤ) :
    jointBurnthin js b t = .ok js' ↔
      List.Forall₂ (fun kv kv' => kv'.1 = kv.1 ∧ kv.2.burnthin b t = .ok kv'.2) js js' := by
  unfold jointBurnthin
  rw [mapE_ok_iff_map]
  induction js generalizing js' with
  | nil => cases js' <;> simp
  | cons kv js ih =>
    cases js' with
    | nil => simp
    | cons kv' js' =>
      simp only [List.map_cons, List.cons.injEq, List.forall₂_cons]
      rw [ih]
      constructor
      · rintro ⟨h1, h2⟩
        refine ⟨?_, h2⟩
        cases hb : kv.2.burnthin b t with
        | error e => rw [hb] at h1; cases h1
        | ok s' =>
          rw [hb] at h1
          have : (kv.1, s') = kv' := Except.ok.inj h1
          subst this
          exact ⟨rfl, rfl⟩
      · rintro ⟨⟨h1, h2⟩, h3⟩
        refine ⟨?_, h3⟩
        rw [h2]
        obtain ⟨k', s'⟩ := kv'
        simp only at h1
        subst h1
        rfl

/-- a joint burn-in refuses as soon as one member has no more samples than the burn-in -/
theorem joint_refuses_of_member (js : List (String × Samples)) (b t : ℕ) (ht : 1 ≤ t)
    (h : ∃ kv ∈ js, kv.2.Ns ≤ b) : ∃ e, jointBurnthin js b t = .error e := by
  have hall : ∀ (l l' : List (String × Samples)),
      List.Forall₂ (fun kv kv' => kv'.1 = kv.1 ∧ kv.2.burnthin (b : ℤ) (t : ℤ) = .ok kv'.2) l l' →
      ∀ kv ∈ l, ∃ s', kv.2.burnthin (b : ℤ) (t : ℤ) = .ok s' := by
    intro l l' hf
    induction hf with
    | nil => intro kv hkv; cases hkv
    | cons hhead _ ih =>
      intro kv hkv
      rcases List.mem_cons.mp hkv with rfl | hmem
      · exact ⟨_, hhead.2⟩
      · exact ih kv hmem
  cases hj : jointBurnthin js b t with
  | error e => exact ⟨e, rfl⟩
  | ok js' =>
    exfalso
    obtain ⟨kv, hkv, hN⟩ := h
    have hf := (joint_is_memberwise js js' b t).mp hj
    obtain ⟨s', h2⟩ := hall js js' hf kv hkv
    obtain ⟨e, he⟩ := (burnthin_refuses_iff _ b t ht).mpr hN
    rw [he] at h2; cases h2



/-! ## conversions between representations -/

/-- function values that are already function values are returned as they are -/
theorem funvals_identity (s : Samples) (h1 : s.isPar = false) (h2 : s.isVec = false) : s.funvals = .ok s := by
  unfold Samples.funvals; simp [h1, h2]

/-- **funvals is column-wise**: sample `i` of the result is the geometry's map (`par2fun` for
    parameters, `vec2fun` for vector-form function values) of stored sample `i`, in order; the
    geometry is kept, `is_par` is cleared, `is_vec` holds iff the function values are 1-D. -/
theorem funvals_columns (s f : Samples) (hconv : s.isPar = true ∨ s.isVec = true)
    (h : s.funvals = .ok f) :
    s.cols.map (if s.isPar then s.geom.par2fun else s.geom.vec2fun) = f.cols.map Except.ok
      ∧ f.geom = s.geom ∧ f.isPar = false ∧ f.shape = s.geom.funShape
      ∧ (f.isVec = true ↔ s.geom.funShape.length ≤ 1) := by
  unfold Samples.funvals at h
  have hc : (!s.isPar && !s.isVec) = false := by
    rcases hconv with h | h <;> simp [h]
  rw [hc] at h
  simp only [Bool.false_eq_true, if_false] at h
  cases hm : mapE (if s.isPar = true then s.geom.par2fun else s.geom.vec2fun) s.cols with
  | error e => rw [hm] at h; cases h
  | ok cs =>
    rw [hm] at h
    cases h
    refine ⟨(mapE_ok_iff_map _ _ _).mp hm, rfl, rfl, rfl, ?_⟩
    simp

example : ∃ f, exS.funvals = .ok f ∧ f.cols = [[1, 21], [3, 23], [5, 25], [7, 27], [9, 29]] :=
  ⟨_, rfl, by norm_num [exS, exGeom]⟩

/-- **burn-in/thinning commutes with conversion** (hence every sequence of `burnthin` / `funvals`
    calls can be normalised): thinning the converted samples equals converting the thinned
    samples, refusals included. -/
theorem burnthin_funvals_commute (s f : Samples) (b t : ℕ) (ht : 1 ≤ t) (h : s.funvals = .ok f) :
    (s.burnthin b t >>= Samples.funvals) = f.burnthin b t := by
  by_cases hrep : s.isPar = false ∧ s.isVec = false
  · -- already function values: `funvals` is the identity
    rw [funvals_identity s hrep.1 hrep.2] at h
    cases h
    cases hb : s.burnthin b t with
    | error e => rfl
    | ok s' =>
      obtain ⟨-, h1, h2, -⟩ := burnthin_flags_preserved s s' b t hb
      show s'.funvals = _
      rw [funvals_identity s' (h1 ▸ hrep.1) (h2 ▸ hrep.2)]
  · have hconv : s.isPar = true ∨ s.isVec = true := by
      cases hp : s.isPar <;> cases hv : s.isVec <;> simp_all
    obtain ⟨hcols, hg, hp, hsh, hv⟩ := funvals_columns s f hconv h
    have hN : f.Ns = s.Ns := by
      have := congrArg List.length hcols
      simpa [Samples.Ns] using this.symm
    by_cases hb : b < s.Ns
    · rw [burnthin_ok s b t ht hb, burnthin_ok f b t ht (hN ▸ hb)]
      show Samples.funvals { s with cols := natSlice s.cols b t } = _
      unfold Samples.funvals
      have hc : (!s.isPar && !s.isVec) = false := by
        rcases hconv with h | h <;> simp [h]
      simp only [hc, Bool.false_eq_true, if_false]
      have hm : mapE (if s.isPar = true then s.geom.par2fun else s.geom.vec2fun) (natSlice s.cols b t)
          = .ok (natSlice f.cols b t) := by
        rw [mapE_ok_iff_map, ← natSlice_map _ _ _ _ ht, ← natSlice_map _ _ _ _ ht, hcols]
      rw [hm]
      -- the remaining fields do not depend on the samples
      unfold Samples.funvals at h
      simp only [hc, Bool.false_eq_true, if_false] at h
      cases hm' : mapE (if s.isPar = true then s.geom.par2fun else s.geom.vec2fun) s.cols with
      | error e => rw [hm'] at h; cases h
      | ok cs => rw [hm'] at h; cases h; rfl
    · obtain ⟨e, he⟩ := (burnthin_refuses_iff s b t ht).mpr (by omega)
      unfold Samples.burnthin
      have e1 : (b : ℤ) ≥ (s.Ns : ℤ) := by omega
      have e2 : (b : ℤ) ≥ (f.Ns : ℤ) := by omega
      rw [if_pos e1, if_pos e2]
      rfl





lemma mapE_length {α β : Type} (f : α → Except String β) (xs : List α) (ys : List β)
    (h : mapE f xs = .ok ys) : ys.length = xs.length := by
  have := congrArg List.length ((mapE_ok_iff_map f xs ys).mp h)
  simpa using this.symm

lemma mapE_natSlice {α β : Type} (f : α → Except String β) (xs : List α) (ys : List β) (b t : ℕ)
    (ht : 1 ≤ t) (h : mapE f xs = .ok ys) : mapE f (natSlice xs b t) = .ok (natSlice ys b t) := by
  rw [mapE_ok_iff_map, ← natSlice_map _ _ _ _ ht, ← natSlice_map _ _ _ _ ht, (mapE_ok_iff_map f xs ys).mp h]

lemma burnthin_error_of_ge (s : Samples) (b t : ℤ) (h : b ≥ (s.Ns : ℤ)) :
    s.burnthin b t = .error "ValueError" := by
  unfold Samples.burnthin; rw [if_pos h]

/-- **burn-in/thinning commutes with `vector`** (refusals included) -/
theorem burnthin_vector_commute (s v : Samples) (b t : ℕ) (ht : 1 ≤ t) (h : s.vector = .ok v) :
    (s.burnthin b t >>= Samples.vector) = v.burnthin b t := by
  by_cases hrep : (s.isVec || s.isPar) = true
  · have hid : ∀ s' : Samples, s'.isPar = s.isPar → s'.isVec = s.isVec → s'.vector = .ok s' := by
      intro s' h1 h2; unfold Samples.vector; rw [h1, h2, if_pos hrep]
    rw [hid s rfl rfl] at h
    cases h
    cases hb : s.burnthin b t with
    | error e => rfl
    | ok s' =>
      obtain ⟨-, h1, h2, -⟩ := burnthin_flags_preserved s s' b t hb
      exact hid s' h1 h2
  · unfold Samples.vector at h
    rw [if_neg hrep] at h
    cases hm : mapE s.geom.fun2vec s.cols with
    | error e => rw [hm] at h; cases h
    | ok cs =>
      rw [hm] at h
      cases h
      by_cases hb : b < s.Ns
      · rw [burnthin_ok s b t ht hb, burnthin_ok _ b t ht (by simpa [Samples.Ns, mapE_length _ _ _ hm] using hb)]
        show Samples.vector { s with cols := natSlice s.cols b t } = _
        unfold Samples.vector
        simp only [if_neg hrep]
        rw [mapE_natSlice _ _ _ b t ht hm]
        rfl
      · have e1 : (b : ℤ) ≥ (s.Ns : ℤ) := by omega
        rw [burnthin_error_of_ge s b t e1, burnthin_error_of_ge _ b t (by
          show (b : ℤ) ≥ ((cs.length : ℕ) : ℤ)
          rw [mapE_length _ _ _ hm]; exact e1)]
        rfl

/-- **burn-in/thinning commutes with `parameters`** (refusals included) -/
theorem burnthin_parameters_commute (s v : Samples) (b t : ℕ) (ht : 1 ≤ t) (h : s.parameters = .ok v) :
    (s.burnthin b t >>= Samples.parameters) = v.burnthin b t := by
  by_cases hrep : s.isPar = true
  · have hid : ∀ s' : Samples, s'.isPar = s.isPar → s'.parameters = .ok s' := by
      intro s' h1; unfold Samples.parameters; rw [h1, if_pos hrep]
    rw [hid s rfl] at h
    cases h
    cases hb : s.burnthin b t with
    | error e => rfl
    | ok s' =>
      obtain ⟨-, h1, -, -⟩ := burnthin_flags_preserved s s' b t hb
      exact hid s' h1
  · unfold Samples.parameters at h
    rw [if_neg hrep] at h
    simp only at h
    generalize hconv : (if (!s.isVec) = true then s.geom.fun2par
      else fun v => do let f ← s.geom.vec2fun v; s.geom.fun2par f) = conv at h
    cases hm : mapE conv s.cols with
    | error e => rw [hm] at h; cases h
    | ok cs =>
      rw [hm] at h
      cases h
      by_cases hb : b < s.Ns
      · rw [burnthin_ok s b t ht hb, burnthin_ok _ b t ht (by simpa [Samples.Ns, mapE_length _ _ _ hm] using hb)]
        show Samples.parameters { s with cols := natSlice s.cols b t } = _
        unfold Samples.parameters
        simp only [if_neg hrep, hconv]
        rw [mapE_natSlice _ _ _ b t ht hm]
        rfl
      · have e1 : (b : ℤ) ≥ (s.Ns : ℤ) := by omega
        rw [burnthin_error_of_ge s b t e1, burnthin_error_of_ge _ b t (by
          show (b : ℤ) ≥ ((cs.length : ℕ) : ℤ)
          rw [mapE_length _ _ _ hm]; exact e1)]
        rfl


/-! ## statistics -/

/-- **stats_are_per_coordinate**: a reduction over the sample axis has one entry per flattened
    coordinate `k < prod shape`, and that entry is the statistic of coordinate `k`'s chain;
    entry `i` of that chain is coordinate `k` of stored sample `i`. -/
theorem stats_are_per_coordinate (f : List ℚ → ℚ) (s : Samples) :
    (s.stat f).length = s.dim ∧
    (∀ k, k < s.dim → (s.stat f)[k]? = some (f (s.chain k))) ∧
    (∀ k i : ℕ, (s.chain k)[i]? = (s.cols[i]?).map (fun c : List ℚ => c.getD k 0)) := by
  refine ⟨by simp [Samples.stat], ?_, ?_⟩
  · intro k hk
    simp [Samples.stat, hk]
  · intro k i
    simp [Samples.chain]

/-- **percentile_monotone**: numpy's linear-interpolation percentile of a chain is monotone in the
    level on `[0, 100]` — every chain, every pair of levels. -/
theorem percentile_monotone (xs : List ℚ) (q₁ q₂ : ℚ) (h0 : 0 ≤ q₁) (h12 : q₁ ≤ q₂) (h100 : q₂ ≤ 100) :
    percentile xs q₁ ≤ percentile xs q₂ := by
  unfold percentile
  have hc : (0 : ℚ) ≤ (((sorted xs).length - 1 : ℕ) : ℚ) := Nat.cast_nonneg _
  apply interp_mono _ (sorted_pairwise xs)
  · exact mul_nonneg hc (by linarith)
  · exact mul_le_mul_of_nonneg_left (by linarith) hc
  · calc (((sorted xs).length - 1 : ℕ) : ℚ) * (q₂ / 100)
        ≤ (((sorted xs).length - 1 : ℕ) : ℚ) * 1 := mul_le_mul_of_nonneg_left (by linarith) hc
      _ = _ := mul_one _

example : percentile [3, 1, 2, 7] (5 / 2) ≤ percentile [3, 1, 2, 7] (195 / 2) :=
  percentile_monotone _ _ _ (by norm_num) (by norm_num) (by norm_num)

/-- the median (`np.median`: middle element / mean of the two middle elements) is the 50-th percentile -/
theorem median_eq_percentile_50 (xs : List ℚ) (hne : xs ≠ []) : median xs = percentile xs 50 := by
  unfold median percentile
  have : sorted xs ≠ [] := by
    intro h
    have := congrArg List.length h
    rw [sorted_length] at this
    exact hne (List.length_eq_zero_iff.mp this)
  exact median_eq_interp (sorted xs) this

/-- `compute_ci` accepts every credibility level in `[0, 100]`; the two percentile levels are
    `(100−p)/2 ∈ [0, 50]` and `100 − (100−p)/2 ∈ [50, 100]`. -/
theorem ciLevels_ok (p : ℚ) (h0 : 0 ≤ p) (h100 : p ≤ 100) :
    ciLevels p = .ok ((100 - p) / 2, 100 - (100 - p) / 2) := by
  unfold ciLevels
  have : 0 ≤ (100 - p) / 2 ∧ (100 - p) / 2 ≤ 100 ∧ 0 ≤ 100 - (100 - p) / 2 ∧ 100 - (100 - p) / 2 ≤ 100 := by
    refine ⟨?_, ?_, ?_, ?_⟩ <;> linarith
  simp only [this, and_self, if_true]

/-- exactly the levels outside `[-100, 100]` are refused (the model transcribes the code: a
    *negative* level in `[-100, 0)` is accepted and yields lower > upper; outside the property's domain) -/
theorem ciLevels_refuses_iff (p : ℚ) : (∃ e, ciLevels p = .error e) ↔ (p < -100 ∨ 100 < p) := by
  unfold ciLevels
  constructor
  · rintro ⟨e, he⟩
    by_contra hcon
    rw [not_or, not_lt, not_lt] at hcon
    have : 0 ≤ (100 - p) / 2 ∧ (100 - p) / 2 ≤ 100 ∧ 0 ≤ 100 - (100 - p) / 2 ∧ 100 - (100 - p) / 2 ≤ 100 := by
      refine ⟨?_, ?_, ?_, ?_⟩ <;> linarith [hcon.1, hcon.2]
    simp only [this, and_self, if_true] at he
    cases he
  · intro h
    refine ⟨"ValueError", ?_⟩
    have : ¬ (0 ≤ (100 - p) / 2 ∧ (100 - p) / 2 ≤ 100 ∧ 0 ≤ 100 - (100 - p) / 2 ∧ 100 - (100 - p) / 2 ≤ 100) := by
      rintro ⟨a, b, c, d⟩
      rcases h with h | h <;> linarith
    simp only [this, if_false]

/-- **lower ≤ median ≤ upper** for every chain with at least one sample and every level in `[0, 100]` -/
theorem ci_brackets_median (xs : List ℚ) (hne : xs ≠ []) (p : ℚ) (h0 : 0 ≤ p) (h100 : p ≤ 100) :
    percentile xs ((100 - p) / 2) ≤ median xs ∧ median xs ≤ percentile xs (100 - (100 - p) / 2) := by
  rw [median_eq_percentile_50 xs hne]
  constructor
  · apply percentile_monotone <;> linarith
  · apply percentile_monotone <;> linarith

example : percentile [3, 1, 2, 7] ((100 - 95) / 2) ≤ median [3, 1, 2, 7] :=
  (ci_brackets_median [3, 1, 2, 7] (by simp) 95 (by norm_num) (by norm_num)).1

/-- **compute_ci / ci_width on a Samples object**: for every level in `[0,100]` the call succeeds,
    the bounds are the per-coordinate percentiles, `lower ≤ median ≤ upper` holds at every
    coordinate, and `ci_width` is `upper − lower` (hence non-negative) at every coordinate. -/
theorem computeCi_spec (s : Samples) (hN : s.cols ≠ []) (p : ℚ) (h0 : 0 ≤ p) (h100 : p ≤ 100) :
    ∃ lo up w, s.computeCi p = .ok (lo, up) ∧ s.ciWidth p = .ok w ∧
      lo = s.stat (percentile · ((100 - p) / 2)) ∧ up = s.stat (percentile · (100 - (100 - p) / 2)) ∧
      ∀ k, k < s.dim → ∃ l m u, lo[k]? = some l ∧ (s.stat median)[k]? = some m ∧ up[k]? = some u ∧
        l ≤ m ∧ m ≤ u ∧ w[k]? = some (u - l) ∧ 0 ≤ u - l := by
  refine ⟨s.stat (percentile · ((100 - p) / 2)), s.stat (percentile · (100 - (100 - p) / 2)),
    List.zipWith (· - ·) (s.stat (percentile · (100 - (100 - p) / 2))) (s.stat (percentile · ((100 - p) / 2))),
    ?_, ?_, rfl, rfl, ?_⟩
  · unfold Samples.computeCi; rw [ciLevels_ok p h0 h100]; rfl
  · unfold Samples.ciWidth Samples.computeCi; rw [ciLevels_ok p h0 h100]; rfl
  · intro k hk
    have hne : s.chain k ≠ [] := by
      unfold Samples.chain
      intro h
      exact hN (List.map_eq_nil_iff.mp h)
    obtain ⟨h1, h2⟩ := ci_brackets_median (s.chain k) hne p h0 h100
    refine ⟨_, _, _, (stats_are_per_coordinate _ s).2.1 k hk, (stats_are_per_coordinate _ s).2.1 k hk,
      (stats_are_per_coordinate _ s).2.1 k hk, h1, h2, ?_, by linarith⟩
    rw [List.getElem?_zipWith, (stats_are_per_coordinate _ s).2.1 k hk, (stats_are_per_coordinate _ s).2.1 k hk]

lemma sum_sq_dev (xs : List ℚ) (c : ℚ) :
    (xs.map (fun x => (x - c) * (x - c))).sum
      = (xs.map (fun x => x * x)).sum - 2 * c * xs.sum + (xs.length : ℚ) * (c * c) := by
  induction xs with
  | nil => simp
  | cons x xs ih => simp only [List.map_cons, List.sum_cons, List.length_cons, Nat.cast_succ, ih]; ring

/-- `np.var` (two-pass, ddof = 0) is the mean of squares minus the squared mean, and it is ≥ 0 -/
theorem variance_eq (xs : List ℚ) (hne : xs ≠ []) :
    variance xs = mean (xs.map (fun x => x * x)) - mean xs * mean xs ∧ 0 ≤ variance xs := by
  have hn : (0 : ℚ) < (xs.length : ℚ) := by
    have := List.length_pos_iff.mpr hne
    exact_mod_cast this
  constructor
  · unfold variance
    unfold mean
    rw [sum_sq_dev, List.length_map, List.length_map]
    field_simp
    ring
  · unfold variance
    unfold mean
    apply div_nonneg _ (by positivity)
    apply List.sum_nonneg
    intro y hy
    simp only [List.mem_map] at hy
    obtain ⟨x, -, rfl⟩ := hy
    exact mul_self_nonneg _




/-! ## the variable ↦ chain dictionaries handed to arviz -/

lemma dictInsert_fresh {β : Type} (d : List (String × β)) (k : String) (v : β)
    (h : ∀ kv ∈ d, kv.1 ≠ k) : dictInsert d k v = d ++ [(k, v)] := by
  unfold dictInsert
  have : d.any (fun kv => kv.1 == k) = false := by
    rw [List.any_eq_false]
    intro kv hkv
    simpa using h kv hkv
  rw [this]; simp

lemma foldl_dictInsert_nodup {β : Type} :
    ∀ (ks : List String) (vs : List β) (acc : List (String × β)), ks.Nodup →
      (∀ k ∈ ks, ∀ kv ∈ acc, kv.1 ≠ k) →
      (ks.zip vs).foldl (fun d kv => dictInsert d kv.1 kv.2) acc = acc ++ ks.zip vs
  | [], vs, acc, _, _ => by simp
  | k :: ks, [], acc, _, _ => by simp
  | k :: ks, v :: vs, acc, hnd, hfr => by
    simp only [List.zip_cons_cons, List.foldl_cons]
    rw [dictInsert_fresh acc k v (hfr k (by simp))]
    rw [foldl_dictInsert_nodup ks vs _ (List.nodup_cons.mp hnd).2]
    · simp
    · intro k' hk' kv hkv
      rcases List.mem_append.mp hkv with h | h
      · exact hfr k' (by simp [hk']) kv h
      · simp only [List.mem_singleton] at h
        subst h
        intro heq
        simp only at heq
        subst heq
        exact (List.nodup_cons.mp hnd).1 hk'

/-- **names_to_rows**: with pairwise distinct variable names `dict(zip(names, rows))` keeps every
    pair, in order — variable `i`'s entry is row `i`. -/
theorem dictOfZip_nodup {β : Type} (ks : List String) (vs : List β) (h : ks.Nodup) :
    dictOfZip ks vs = ks.zip vs := by
  unfold dictOfZip
  rw [foldl_dictInsert_nodup ks vs [] h (by simp)]
  simp

/-- negation witness: a repeated name loses the earlier variable's row (Python dict semantics) -/
theorem dictOfZip_duplicate_counterexample :
    dictOfZip ["a", "a", "b"] [0, 1, 2] = [("a", 1), ("b", 2)] := by decide

lemma names_eq_range_map (names : List String) :
    (List.range names.length).map (fun i => names.getD i "") = names := by
  apply List.ext_getElem
  · simp
  · intro i h1 h2
    simp at h1
    simp [h1]

lemma nodup_range_map_getD (names : List String) (h : names.Nodup) (d : ℕ) (hd : d ≤ names.length) :
    ((List.range d).map (fun i => names.getD i "")).Nodup := by
  apply List.Nodup.map_on _ List.nodup_range
  intro i hi j hj hij
  rw [List.mem_range] at hi hj
  rw [List.getD_eq_getElem names "" (by omega), List.getD_eq_getElem names "" (by omega)] at hij
  exact (List.Nodup.getElem_inj_iff h).mp hij

/-- **ESS receives each variable's chain unpermuted** (`_partial`: needs pairwise distinct variable
    names and as many names as rows — both can fail in the code, see the counterexamples):
    item `k` of the dictionary handed to `arviz.ess` is `(name k, chain of coordinate k)`. -/
theorem essInput_each_variable_partial (s : Samples) (hv : s.isVec = true)
    (hnd : s.geom.varNames.Nodup) (hd : s.geometryDim = s.dim) (hlen : s.dim ≤ s.geom.varNames.length) :
    s.essInput = .ok ((List.range s.dim).map (fun k => (s.geom.varNames.getD k "", s.chain k))) := by
  unfold Samples.essInput Samples.toArviz
  simp only [hv, Bool.not_true, Bool.false_eq_true, if_false, Option.getD_none, hd]
  have h1 : (List.range s.dim).any (fun i => decide (i ≥ s.geom.varNames.length)) = false := by
    rw [List.any_eq_false]; intro i hi; rw [List.mem_range] at hi; simp; omega
  have h2 : (List.range s.dim).any (fun i => decide (i ≥ s.dim)) = false := by
    rw [List.any_eq_false]; intro i hi; rw [List.mem_range] at hi; simp; omega
  rw [h1, h2]
  simp only [Bool.false_eq_true, if_false]
  rw [dictOfZip_nodup _ _ (nodup_range_map_getD _ hnd _ hlen), List.zip_map']

/-- **R-hat receives each variable's chains unpermuted** (`_partial`, same hypotheses): item `k`
    is `(name k, [chain k of self, chain k of every other Samples object, in order])`, and entry
    `k` of the returned array is written from item `k`. -/
theorem rhatInput_each_variable_partial (s : Samples) (chains : List Samples)
    (hgeom : ∀ c ∈ chains, c.geom.tag = s.geom.tag) (hsh : s.shape.length = 1)
    (hch : ∀ c ∈ chains, c.shape = s.shape ∧ c.Ns = s.Ns)
    (hnd : s.geom.varNames.Nodup) (hd : s.geometryDim = s.dim) (hlen : s.geom.varNames.length = s.dim) :
    s.rhatInput chains = .ok
      ((List.range s.dim).map (fun k => (s.geom.varNames.getD k "", s.chain k :: chains.map (fun c => c.chain k))),
       (List.range s.dim).map some) := by
  unfold Samples.rhatInput
  have h1 : chains.any (fun c => c.geom.tag != s.geom.tag) = false := by
    rw [List.any_eq_false]; intro c hc; simp [hgeom c hc]
  have h2 : (s.shape.length != 1) = false := by simp [hsh]
  have h3 : chains.any (fun c => c.shape != s.shape || c.Ns != s.Ns) = false := by
    rw [List.any_eq_false]; intro c hc; simp [(hch c hc).1, (hch c hc).2]
  simp only [h1, h2, h3, Bool.false_eq_true, if_false]
  have hz : dictOfZip s.geom.varNames
      ((List.range s.dim).map (fun k => s.chain k :: chains.map (fun c => c.chain k)))
      = (List.range s.dim).map (fun k => (s.geom.varNames.getD k "", s.chain k :: chains.map (fun c => c.chain k))) := by
    rw [dictOfZip_nodup _ _ hnd]
    conv_lhs => rw [← names_eq_range_map s.geom.varNames, hlen]
    rw [List.zip_map']
  rw [hz, hd]
  simp only [List.length_map, List.length_range, lt_irrefl, if_false]
  congr 2
  apply List.map_congr_left
  intro i hi
  rw [List.mem_range] at hi
  simp [hi]

def exDup : Samples :=
  { cols := [[1, 2, 3], [4, 5, 6]], shape := [3],
    geom := { exGeom with parDim := 3, funShape := [3], funvecDim := 3, varNames := ["a", "a", "b"] },
    isPar := true, isVec := true }

/-- negation witness (known finding `ess:dup-names`): with `Discrete(['a','a','b'])` the chain
    `[1,4]` of variable 0 never reaches arviz and only two items are produced for three variables -/
theorem essInput_duplicate_names_counterexample :
    exDup.essInput = .ok [("a", [2, 5]), ("b", [3, 6])] := by decide

/-- negation witness (known finding `rhat:dup-names`): the R-hat of variable 1 lands in entry 0,
    that of variable 2 in entry 1, entry 2 of the result is never written -/
theorem rhatInput_duplicate_names_counterexample :
    exDup.rhatInput [exDup] =
      .ok ([("a", [[2, 5], [2, 5]]), ("b", [[3, 6], [3, 6]])], [some 0, some 1, none]) := by decide

def exTrunc : Samples :=
  { cols := [[1, 1, 2, 2], [5, 5, 6, 6]], shape := [4],
    geom := { exGeom with funShape := [4], funvecDim := 4 }, isPar := false, isVec := true }

/-- negation witness (known finding `rhat:funvec-ne-par`): vector-form function values of a geometry
    with `funvec_dim = 4 ≠ par_dim = 2`: only the first two rows reach arviz, entries 2 and 3 of the
    result are never written -/
theorem rhatInput_truncation_counterexample :
    exTrunc.rhatInput [] =
      .ok ([("v0", [[1, 5]]), ("v1", [[1, 5]])], [some 0, some 1, none, none]) := by decide


end CuqiVerif.C19
