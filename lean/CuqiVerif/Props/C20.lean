import CuqiVerif.Model.C20
import Mathlib.Algebra.BigOperators.Group.Finset.Basic
import Mathlib.Algebra.BigOperators.Ring.Finset
import Mathlib.Algebra.Order.BigOperators.Ring.Finset
import Mathlib.Algebra.Order.Field.Basic
import Mathlib.Tactic.Ring
import Mathlib.Tactic.Linarith
import Mathlib.Tactic.Positivity

/-!
# C20 — property theorems

`apply M x i = Σ_{j < cols} M.e i j · x j` is the action of a model matrix on a vector
`x : ℕ → R` (only indices `< cols` are read).  The theorems hold for every size `n`.
-/
open Finset

namespace CuqiVerif.C20

variable {R : Type*} [CommRing R]

/-- action of a model matrix on a vector -/
def apply (M : FMat) (x : ℕ → R) (i : ℕ) : R := ∑ j ∈ range M.cols, (M.e i j : R) * x j

lemma sum_delta (n k : ℕ) (x : ℕ → R) :
    ∑ j ∈ range n, (if j = k then (1:R) else 0) * x j = if k < n then x k else 0 := by
  simp [ite_mul, Finset.sum_ite_eq']

lemma sum_delta_shift (n k d : ℕ) (x : ℕ → R) :
    ∑ j ∈ range n, (if j + d = k then (1:R) else 0) * x j
      = if d ≤ k ∧ k - d < n then x (k - d) else 0 := by
  by_cases h : d ≤ k
  · have : ∀ j, (j + d = k) ↔ (j = k - d) := fun j => by omega
    simp only [this, h, true_and]
    exact sum_delta n (k - d) x
  · have : ∀ j, ¬ (j + d = k) := fun j => by omega
    simp [this, h]

/-- entries of the zero-boundary first-order operator -/
lemma firstOrder_zero_entry (n i j : ℕ) :
    (firstOrder .zero n).e i j = (if j = i then 1 else 0) - (if j + 1 = i then 1 else 0) := by
  simp only [firstOrder, spdiags, List.foldl]
  split_ifs <;> omega

/-- **Stencil, zero boundary, every n and every row (boundary rows included):**
    `(D x)_i = x_i - x_{i-1}` with `x_{-1} = x_n = 0`. -/
theorem firstOrder_zero_apply (n : ℕ) (x : ℕ → R) (i : ℕ) :
    apply (firstOrder .zero n) x i
      = (if i < n then x i else 0) - (if 1 ≤ i ∧ i - 1 < n then x (i - 1) else 0) := by
  unfold apply
  have hc : (firstOrder .zero n).cols = n := rfl
  rw [hc]
  simp only [firstOrder_zero_entry]
  push_cast
  simp only [sub_mul, Finset.sum_sub_distrib]
  rw [sum_delta, sum_delta_shift]

/-- **Null space, zero boundary: trivial for every n.** -/
theorem firstOrder_zero_null {K : Type*} [Field K] (n : ℕ) (x : ℕ → K)
    (h : ∀ i, i < n + 1 → apply (firstOrder .zero n) x i = 0) : ∀ i, i < n → x i = 0 := by
  intro i
  induction i with
  | zero =>
    intro hi
    have := h 0 (by omega)
    rw [firstOrder_zero_apply] at this
    simpa [hi] using this
  | succ k ih =>
    intro hi
    have h1 := h (k + 1) (by omega)
    rw [firstOrder_zero_apply] at h1
    have hk : x k = 0 := ih (by omega)
    have : k + 1 - 1 = k := by omega
    simp [hi, this, hk, show k < n by omega] at h1
    exact h1

example : apply (firstOrder .zero 3) (fun j => ((j : ℤ) + 1) ^ 2) 2 = 5 := by
  rw [firstOrder_zero_apply]; norm_num

end CuqiVerif.C20
