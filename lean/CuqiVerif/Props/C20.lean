import CuqiVerif.Model.C20
import Mathlib.Algebra.BigOperators.Group.Finset.Basic
import Mathlib.Tactic.Ring
import Mathlib.Tactic.Linarith

namespace CuqiVerif.C20

theorem eye_entry (n i j : Nat) : (eye n).e i j = if i = j then 1 else 0 := rfl

end CuqiVerif.C20
