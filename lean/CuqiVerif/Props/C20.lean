import CuqiVerif.Proofs.C20
import Mathlib.Tactic.LinearCombination

/-!
# C20 — property theorems

`apply M x i = Σ_{j < cols} M.e i j · x j` (defined in `Proofs/C20.lean`) is the action of a model
matrix on a vector `x : ℕ → R` (only indices `< cols` are read).  The theorems hold for every
size `n`; they are about the very definitions the driver executes (`Model/C20.lean`), whose
integer entries are cast into the ring `R`.
-/
open Finset

namespace CuqiVerif.C20

variable {R : Type*} [CommRing R]

/-- replace the entries of row `i` (columns `< cols` only) by a closed form -/
lemma apply_congr (M : FMat) (x : ℕ → R) (i : ℕ) (f : ℕ → ℤ)
    (h : ∀ j, j < M.cols → M.e i j = f j) :
    apply M x i = ∑ j ∈ range M.cols, (f j : R) * x j :=
  Finset.sum_congr rfl fun j hj => by rw [h j (mem_range.1 hj)]

/-- **`apply` determines the matrix:** acting on the `j`-th unit vector returns entry `(i, j)`;
    hence each `*_apply` theorem below fixes every entry of every row of the model matrix
    (the entry-by-entry forms are the `*_entry` lemmas of `Proofs/C20.lean`). -/
theorem apply_basis (M : FMat) (i j : ℕ) (hj : j < M.cols) :
    apply M (fun k => if k = j then (1 : R) else 0) i = (M.e i j : R) := by
  unfold apply
  rw [Finset.sum_eq_single j]
  · dsimp only; rw [if_pos rfl, mul_one]
  · intro k _ hk; dsimp only; rw [if_neg hk, mul_zero]
  · intro h; exact absurd (mem_range.2 hj) h

example : apply (firstOrder .periodic 4) (fun k => if k = 3 then (1 : ℤ) else 0) 0 = -1 := by
  rw [apply_basis _ _ _ (by decide)]; decide

/-! ## 1. Stencils: the action of every 1-D operator, every row, every size -/

/-- **Stencil, zero boundary, every n and every row (boundary rows included):**
    `(D x)_i = x_i - x_{i-1}` with `x_{-1} = x_n = 0`. -/
theorem firstOrder_zero_apply (n : ℕ) (x : ℕ → R) (i : ℕ) :
    apply (firstOrder .zero n) x i
      = (if i < n then x i else 0) - (if 1 ≤ i ∧ i - 1 < n then x (i - 1) else 0) := by
  rw [apply_congr _ x i _ (fun j _ => firstOrder_zero_entry n i j)]
  rw [show (firstOrder .zero n).cols = n from rfl]
  push_cast
  simp only [sub_mul, Finset.sum_sub_distrib]
  rw [sum_delta, sum_delta_shift]

example : apply (firstOrder .zero 3) (fun j => ((j : ℤ) + 1) ^ 2) 2 = 5 := by
  rw [firstOrder_zero_apply]; norm_num

/-- **Stencil, periodic boundary (`n ≥ 2`), all `n+1` rows:** `(D x)_i = x_{i mod n} - x_{(i-1) mod n}`;
    the wrap-around rows `0` and `n` both equal `x_0 - x_{n-1}` (the code's patches
    `Dmat[-1,0] = 1`, `Dmat[0,-1] = -1`). -/
theorem firstOrder_periodic_apply (n : ℕ) (hn : 2 ≤ n) (x : ℕ → R) (i : ℕ) (hi : i ≤ n) :
    apply (firstOrder .periodic n) x i = x (i % n) - x ((i + n - 1) % n) := by
  rw [apply_congr _ x i _ (fun j hj => firstOrder_periodic_entry n i j hn hi hj)]
  rw [show (firstOrder .periodic n).cols = n from rfl]
  push_cast
  simp only [sub_mul, Finset.sum_sub_distrib]
  have h1 : (if i = n then 0 else i) = i % n := by
    split_ifs with h
    · subst h; simp
    · rw [Nat.mod_eq_of_lt (by omega)]
  have h2 : (if i = 0 ∨ i = n then n - 1 else i - 1) = (i + n - 1) % n := by
    split_ifs with h
    · rcases h with h | h
      · subst h; rw [Nat.zero_add, Nat.mod_eq_of_lt (by omega)]
      · subst h
        rw [show i + i - 1 = (i - 1) + i by omega, Nat.add_mod_right, Nat.mod_eq_of_lt (by omega)]
    · rw [show i + n - 1 = (i - 1) + n by omega, Nat.add_mod_right, Nat.mod_eq_of_lt (by omega)]
  rw [h1, h2, sum_delta_lt (Nat.mod_lt _ (by omega)), sum_delta_lt (Nat.mod_lt _ (by omega))]

example : apply (firstOrder .periodic 3) (fun j => ((j : ℤ) + 1) ^ 2) 0 = -8 := by
  rw [firstOrder_periodic_apply 3 (by norm_num) _ 0 (by norm_num)]; norm_num

/-- **Stencil, Neumann boundary, all `n-1` rows:** `(D x)_i = x_{i+1} - x_i` (forward difference,
    no boundary row at all). -/
theorem firstOrder_neumann_apply (n : ℕ) (x : ℕ → R) (i : ℕ) :
    apply (firstOrder .neumann n) x i
      = (if i + 1 < n then x (i + 1) else 0) - (if i < n then x i else 0) := by
  rw [apply_congr _ x i _ (fun j _ => firstOrder_neumann_entry n i j)]
  rw [show (firstOrder .neumann n).cols = n from rfl]
  push_cast
  simp only [sub_mul, Finset.sum_sub_distrib]
  rw [sum_delta, sum_delta]

example : apply (firstOrder .neumann 3) (fun j => ((j : ℤ) + 1) ^ 2) 1 = 5 := by
  rw [firstOrder_neumann_apply]; norm_num

/-- **Stencil, `backward` boundary, all `n` rows:** row 0 is `x_0` (the patch `Dmat[0,0] = 1`),
    row `i ≥ 1` is `x_{i-1} - x_i`. -/
theorem firstOrder_backward_apply (n : ℕ) (x : ℕ → R) (i : ℕ) :
    apply (firstOrder .backward n) x i
      = if i = 0 then (if 0 < n then x 0 else 0)
        else (if i - 1 < n then x (i - 1) else 0) - (if i < n then x i else 0) := by
  cases i with
  | zero =>
    rw [apply_congr _ x 0 _ (fun j _ => firstOrder_backward_entry_zero n j)]
    rw [show (firstOrder .backward n).cols = n from rfl]
    push_cast
    rw [sum_delta]
  | succ k =>
    rw [apply_congr _ x (k + 1) _ (fun j _ => firstOrder_backward_entry_succ n k j)]
    rw [show (firstOrder .backward n).cols = n from rfl]
    push_cast
    simp only [sub_mul, Finset.sum_sub_distrib]
    rw [sum_delta, sum_delta]

example : apply (firstOrder .backward 3) (fun j => ((j : ℤ) + 1) ^ 2) 2 = -5 := by
  rw [firstOrder_backward_apply]; norm_num

/-- **Stencil, `none`: the identity** (also the order-0 operator of `PrecisionFiniteDifference`). -/
theorem firstOrder_none_apply (n : ℕ) (x : ℕ → R) (i : ℕ) :
    apply (firstOrder .none n) x i = if i < n then x i else 0 := by
  rw [apply_congr _ x i _ (fun j _ => firstOrder_none_entry n i j)]
  rw [show (firstOrder .none n).cols = n from rfl]
  push_cast
  rw [sum_delta]

example : apply (firstOrder .none 3) (fun j => ((j : ℤ) + 1) ^ 2) 2 = 9 := by
  rw [firstOrder_none_apply]; norm_num

/-- **Second-order stencil, zero boundary, all `n+2` rows:**
    `(D x)_i = -x_{i-2} + 2 x_{i-1} - x_i` with every out-of-range value `0`. -/
theorem secondOrder_zero_apply (n : ℕ) (x : ℕ → R) (i : ℕ) :
    apply (secondOrder .zero n) x i
      = -(if 2 ≤ i ∧ i - 2 < n then x (i - 2) else 0)
        + 2 * (if 1 ≤ i ∧ i - 1 < n then x (i - 1) else 0) - (if i < n then x i else 0) := by
  rw [apply_congr _ x i _ (fun j _ => secondOrder_zero_entry n i j)]
  rw [show (secondOrder .zero n).cols = n from rfl]
  push_cast
  simp only [sub_mul, add_mul, neg_mul, mul_assoc, Finset.sum_sub_distrib, Finset.sum_add_distrib,
    Finset.sum_neg_distrib, ← Finset.mul_sum]
  rw [sum_delta, sum_delta_shift, sum_delta_shift]

example : apply (secondOrder .zero 3) (fun j => ((j : ℤ) + 1) ^ 2) 2 = -2 := by
  rw [secondOrder_zero_apply]; norm_num

/-- **Second-order stencil, Neumann boundary, all `n-2` rows:**
    `(D x)_i = -x_i + 2 x_{i+1} - x_{i+2}` (interior rows only). -/
theorem secondOrder_neumann_apply (n : ℕ) (x : ℕ → R) (i : ℕ) :
    apply (secondOrder .neumann n) x i
      = -(if i < n then x i else 0) + 2 * (if i + 1 < n then x (i + 1) else 0)
        - (if i + 2 < n then x (i + 2) else 0) := by
  rw [apply_congr _ x i _ (fun j _ => secondOrder_neumann_entry n i j)]
  rw [show (secondOrder .neumann n).cols = n from rfl]
  push_cast
  simp only [sub_mul, add_mul, neg_mul, mul_assoc, Finset.sum_sub_distrib, Finset.sum_add_distrib,
    Finset.sum_neg_distrib, ← Finset.mul_sum]
  rw [sum_delta, sum_delta, sum_delta]

example : apply (secondOrder .neumann 4) (fun j => ((j : ℤ) + 1) ^ 2) 1 = -2 := by
  rw [secondOrder_neumann_apply]; norm_num

/-- a row with entries `-[j=a] + 2[j=b] - [j=c]` acts as `-x_a + 2 x_b - x_c` -/
lemma apply_three (M : FMat) (x : ℕ → R) (i a b c : ℕ) (ha : a < M.cols) (hb : b < M.cols)
    (hc : c < M.cols)
    (h : ∀ j, j < M.cols → M.e i j
      = -(if j = a then 1 else 0) + 2 * (if j = b then 1 else 0) - (if j = c then 1 else 0)) :
    apply M x i = -x a + 2 * x b - x c := by
  rw [apply_congr M x i _ h]
  push_cast
  simp only [sub_mul, add_mul, neg_mul, mul_assoc, Finset.sum_sub_distrib, Finset.sum_add_distrib,
    Finset.sum_neg_distrib, ← Finset.mul_sum]
  rw [sum_delta_lt ha, sum_delta_lt hb, sum_delta_lt hc]

lemma mod_wrap {n a r : ℕ} (h : a = r + n + n ∨ a = r + n ∨ a = r) (hr : r < n) : a % n = r := by
  rcases h with h | h | h
  · rw [h, Nat.add_mod_right, Nat.add_mod_right, Nat.mod_eq_of_lt hr]
  · rw [h, Nat.add_mod_right, Nat.mod_eq_of_lt hr]
  · rw [h, Nat.mod_eq_of_lt hr]

/-- **Second-order stencil, periodic boundary (`n ≥ 3`), all `n+2` rows:**
    `(D x)_i = -x_{(i-2) mod n} + 2 x_{(i-1) mod n} - x_{i mod n}` — the six patched entries of
    the code (`Dmat[0,-2]`, `Dmat[0:2,-1]`, `Dmat[-2,0]`, `Dmat[-1,0:2]`) are exactly the
    wrap-around of the stencil; rows `n, n+1` repeat rows `0, 1`. -/
theorem secondOrder_periodic_apply (n : ℕ) (hn : 3 ≤ n) (x : ℕ → R) (i : ℕ) (hi : i ≤ n + 1) :
    apply (secondOrder .periodic n) x i
      = -x ((i + n - 2) % n) + 2 * x ((i + n - 1) % n) - x (i % n) := by
  have lt : ∀ a, a < n → a < (secondOrder .periodic n).cols := fun _ h => h
  have h5 : i = 0 ∨ i = 1 ∨ (2 ≤ i ∧ i < n) ∨ i = n ∨ i = n + 1 := by omega
  rcases h5 with h | h | h | h | h
  · rw [mod_wrap (r := n - 2) (by omega) (by omega), mod_wrap (r := n - 1) (by omega) (by omega),
      mod_wrap (r := 0) (by omega) (by omega)]
    subst h
    exact apply_three _ x 0 _ _ _ (lt _ (by omega)) (lt _ (by omega)) (lt _ (by omega))
      (fun j _ => secondOrder_periodic_entry_row0 n j hn)
  · rw [mod_wrap (r := n - 1) (by omega) (by omega), mod_wrap (r := 0) (by omega) (by omega),
      mod_wrap (r := 1) (by omega) (by omega)]
    subst h
    exact apply_three _ x 1 _ _ _ (lt _ (by omega)) (lt _ (by omega)) (lt _ (by omega))
      (fun j _ => secondOrder_periodic_entry_row1 n j hn)
  · rw [mod_wrap (r := i - 2) (by omega) (by omega), mod_wrap (r := i - 1) (by omega) (by omega),
      mod_wrap (r := i) (by omega) (by omega)]
    exact apply_three _ x i _ _ _ (lt _ (by omega)) (lt _ (by omega)) (lt _ (by omega))
      (fun j _ => secondOrder_periodic_entry_mid n i j h.1 h.2)
  · rw [mod_wrap (r := n - 2) (by omega) (by omega), mod_wrap (r := n - 1) (by omega) (by omega),
      mod_wrap (r := 0) (by omega) (by omega)]
    exact apply_three _ x i _ _ _ (lt _ (by omega)) (lt _ (by omega)) (lt _ (by omega))
      (fun j hj => secondOrder_periodic_entry_rown n i j hn h hj)
  · rw [mod_wrap (r := n - 1) (by omega) (by omega), mod_wrap (r := 0) (by omega) (by omega),
      mod_wrap (r := 1) (by omega) (by omega)]
    exact apply_three _ x i _ _ _ (lt _ (by omega)) (lt _ (by omega)) (lt _ (by omega))
      (fun j hj => secondOrder_periodic_entry_rown1 n i j hn h hj)

example : apply (secondOrder .periodic 4) (fun j => ((j : ℤ) + 1) ^ 2) 5 = -18 := by
  rw [secondOrder_periodic_apply 4 (by norm_num) _ 5 (by norm_num)]; norm_num

/-! ## 2. The precision `P = Dᵀ D` (`PrecisionFiniteDifference`): symmetric, PSD, same null space -/

/-- **`gram D` is `Dᵀ D`:** the `List.range … foldl` accumulation of the model is the finite sum
    `(Dᵀ D)_{ij} = Σ_k D_{ki} D_{kj}`. -/
theorem gram_entry (D : FMat) (i j : ℕ) :
    (gram D).e i j = ∑ k ∈ range D.rows, D.e k i * D.e k j :=
  foldl_range_eq_sum _ _

example : (gram (firstOrder .neumann 3)).e 1 1 = 2 := by decide

/-- **The precision matrix is symmetric** (any operator `D`, any shape). -/
theorem gram_symm (D : FMat) (i j : ℕ) : (gram D).e i j = (gram D).e j i := by
  rw [gram_entry, gram_entry]
  exact Finset.sum_congr rfl fun k _ => mul_comm _ _

example : (gram (secondOrder .periodic 4)).e 0 3 = (gram (secondOrder .periodic 4)).e 3 0 :=
  gram_symm _ _ _

/-- **`P x = Dᵀ (D x)`:** applying the precision is applying `D` and then its transpose. -/
theorem gram_apply (D : FMat) (x : ℕ → R) (i : ℕ) :
    apply (gram D) x i = ∑ k ∈ range D.rows, (D.e k i : R) * apply D x k := by
  unfold apply
  rw [show (gram D).cols = D.cols from rfl]
  simp only [gram_entry]
  push_cast
  simp only [Finset.sum_mul, Finset.mul_sum]
  rw [Finset.sum_comm]
  exact Finset.sum_congr rfl fun k _ => Finset.sum_congr rfl fun j _ => by ring

/-- **`xᵀ P x = ‖D x‖²`** for every operator and every vector (over any commutative ring). -/
theorem gram_quadratic_form (D : FMat) (x : ℕ → R) :
    ∑ i ∈ range D.cols, x i * apply (gram D) x i = ∑ k ∈ range D.rows, (apply D x k) ^ 2 := by
  calc ∑ i ∈ range D.cols, x i * apply (gram D) x i
      = ∑ i ∈ range D.cols, ∑ k ∈ range D.rows, x i * ((D.e k i : R) * apply D x k) :=
        Finset.sum_congr rfl fun i _ => by rw [gram_apply, Finset.mul_sum]
    _ = ∑ k ∈ range D.rows, ∑ i ∈ range D.cols, x i * ((D.e k i : R) * apply D x k) :=
        Finset.sum_comm
    _ = ∑ k ∈ range D.rows, (apply D x k) ^ 2 := by
        refine Finset.sum_congr rfl fun k _ => ?_
        rw [pow_two]
        calc ∑ i ∈ range D.cols, x i * ((D.e k i : R) * apply D x k)
            = (∑ i ∈ range D.cols, (D.e k i : R) * x i) * apply D x k := by
              rw [Finset.sum_mul]
              exact Finset.sum_congr rfl fun i _ => by ring
          _ = apply D x k * apply D x k := rfl

example : ∑ i ∈ range 3, (fun j => ((j : ℤ) + 1) ^ 2) i
      * apply (gram (firstOrder .neumann 3)) (fun j => ((j : ℤ) + 1) ^ 2) i = 3 ^ 2 + 5 ^ 2 :=
  (gram_quadratic_form (firstOrder .neumann 3) _).trans (by
    simp [Finset.sum_range_succ, firstOrder_neumann_apply,
      show (firstOrder .neumann 3).rows = 2 from rfl])

section ordered
variable {K : Type*} [CommRing K] [LinearOrder K] [IsStrictOrderedRing K]

/-- **The precision is positive semidefinite:** `xᵀ P x ≥ 0` (ordered ring, e.g. `ℚ`, `ℝ`). -/
theorem gram_psd (D : FMat) (x : ℕ → K) :
    0 ≤ ∑ i ∈ range D.cols, x i * apply (gram D) x i := by
  rw [gram_quadratic_form]
  exact Finset.sum_nonneg fun k _ => sq_nonneg _

/-- **The precision has exactly the null space of the operator:** `P x = 0 ↔ D x = 0`
    (so `rank P = rank D = n - nullity D`, which is what GMRF's `_rank` should report). -/
theorem gram_null_iff (D : FMat) (x : ℕ → K) :
    (∀ i, i < D.cols → apply (gram D) x i = 0) ↔ (∀ k, k < D.rows → apply D x k = 0) := by
  constructor
  · intro h k hk
    have hq : ∑ k ∈ range D.rows, (apply D x k) ^ 2 = 0 := by
      rw [← gram_quadratic_form]
      exact Finset.sum_eq_zero fun i hi => by rw [h i (mem_range.1 hi), mul_zero]
    have := (Finset.sum_eq_zero_iff_of_nonneg (fun k _ => sq_nonneg (apply D x k))).1 hq k
      (mem_range.2 hk)
    exact pow_eq_zero_iff (two_ne_zero) |>.1 this
  · intro h i _
    rw [gram_apply]
    exact Finset.sum_eq_zero fun k hk => by rw [h k (mem_range.1 hk), mul_zero]

example : ∀ i, i < 3 → apply (gram (firstOrder .neumann 3)) (fun _ => (7 : ℚ)) i = 0 :=
  (gram_null_iff (firstOrder .neumann 3) _).2 (fun k hk => by
    have hk : k < 2 := hk
    rw [firstOrder_neumann_apply, if_pos (by omega), if_pos (by omega), sub_self])

end ordered

/-! ## 3. Null spaces of the 1-D operators, every size -/

/-- a sequence with vanishing forward differences is constant -/
lemma const_of_step {A : Type*} (n : ℕ) (x : ℕ → A) (h : ∀ i, i + 1 < n → x (i + 1) = x i) :
    ∀ i, i < n → x i = x 0 := by
  intro i
  induction i with
  | zero => intro _; rfl
  | succ k ih => intro hk; rw [h k hk, ih (by omega)]

/-- a sequence with vanishing second differences is affine -/
lemma affine_of_step (n : ℕ) (x : ℕ → R)
    (h : ∀ i, i + 2 < n → x (i + 2) = 2 * x (i + 1) - x i) :
    ∀ i, i < n → x i = x 0 + (i : R) * (x 1 - x 0) := by
  intro i
  induction i using Nat.strong_induction_on with
  | _ i ih =>
    intro hi
    match i, ih, hi with
    | 0, _, _ => simp
    | 1, _, _ => simp
    | k + 2, ih, hi =>
      rw [h k hi, ih (k + 1) (by omega) (by omega), ih k (by omega) (by omega)]
      push_cast; ring

/-- **Null space, first order, zero boundary: trivial for every n** (`D x = 0 ↔ x = 0`). -/
theorem firstOrder_zero_null_iff (n : ℕ) (x : ℕ → R) :
    (∀ i, i < (firstOrder .zero n).rows → apply (firstOrder .zero n) x i = 0)
      ↔ ∀ i, i < n → x i = 0 := by
  have hr : (firstOrder .zero n).rows = n + 1 := rfl
  rw [hr]
  constructor
  · intro h i
    induction i with
    | zero =>
      intro hi
      have := h 0 (by omega)
      rw [firstOrder_zero_apply] at this
      simpa [hi] using this
    | succ k ih =>
      intro hi
      have h1 := h (k + 1) (by omega)
      rw [firstOrder_zero_apply, if_pos hi, if_pos (by omega), Nat.add_sub_cancel,
        ih (by omega), sub_zero] at h1
      exact h1
  · intro h i _
    rw [firstOrder_zero_apply]
    have a : (if i < n then x i else 0) = 0 := by split_ifs with c; exacts [h i c, rfl]
    have b : (if 1 ≤ i ∧ i - 1 < n then x (i - 1) else 0) = 0 := by
      split_ifs with c; exacts [h _ c.2, rfl]
    rw [a, b, sub_zero]

example : ∀ i, i < 3 → (fun _ => (0 : ℚ)) i = 0 :=
  (firstOrder_zero_null_iff 3 _).1 (fun i _ => by rw [firstOrder_zero_apply]; simp)

/-- **Null space, first order, periodic boundary (`n ≥ 2`): exactly the constants.** -/
theorem firstOrder_periodic_null_iff (n : ℕ) (hn : 2 ≤ n) (x : ℕ → R) :
    (∀ i, i < (firstOrder .periodic n).rows → apply (firstOrder .periodic n) x i = 0)
      ↔ ∀ i, i < n → x i = x 0 := by
  have hr : (firstOrder .periodic n).rows = n + 1 := rfl
  rw [hr]
  constructor
  · intro h
    refine const_of_step n x fun i hi => ?_
    have h1 := h (i + 1) (by omega)
    rw [firstOrder_periodic_apply n hn x (i + 1) (by omega),
      mod_wrap (r := i + 1) (by omega) (by omega), mod_wrap (r := i) (by omega) (by omega)] at h1
    exact sub_eq_zero.1 h1
  · intro h i hi
    rw [firstOrder_periodic_apply n hn x i (by omega), h _ (Nat.mod_lt _ (by omega)),
      h _ (Nat.mod_lt _ (by omega)), sub_self]

example : ∀ i, i < 4 → apply (firstOrder .periodic 3) (fun _ => (7 : ℚ)) i = 0 :=
  (firstOrder_periodic_null_iff 3 (by norm_num) _).2 (fun _ _ => rfl)

/-- **Null space, first order, Neumann boundary: exactly the constants, every n.** -/
theorem firstOrder_neumann_null_iff (n : ℕ) (x : ℕ → R) :
    (∀ i, i < (firstOrder .neumann n).rows → apply (firstOrder .neumann n) x i = 0)
      ↔ ∀ i, i < n → x i = x 0 := by
  have hr : (firstOrder .neumann n).rows = n - 1 := rfl
  rw [hr]
  constructor
  · intro h
    refine const_of_step n x fun i hi => ?_
    have h1 := h i (by omega)
    rw [firstOrder_neumann_apply, if_pos hi, if_pos (by omega)] at h1
    exact sub_eq_zero.1 h1
  · intro h i hi
    rw [firstOrder_neumann_apply, if_pos (by omega), if_pos (by omega), h _ (by omega),
      h i (by omega), sub_self]

example : ∀ i, i < 2 → apply (firstOrder .neumann 3) (fun _ => (7 : ℚ)) i = 0 :=
  (firstOrder_neumann_null_iff 3 _).2 (fun _ _ => rfl)

/-- **Null space, first order, `backward`: trivial for every n.** -/
theorem firstOrder_backward_null_iff (n : ℕ) (x : ℕ → R) :
    (∀ i, i < (firstOrder .backward n).rows → apply (firstOrder .backward n) x i = 0)
      ↔ ∀ i, i < n → x i = 0 := by
  have hr : (firstOrder .backward n).rows = n := rfl
  rw [hr]
  constructor
  · intro h i
    induction i with
    | zero =>
      intro hi
      have := h 0 hi
      rw [firstOrder_backward_apply, if_pos rfl, if_pos hi] at this
      exact this
    | succ k ih =>
      intro hi
      have h1 := h (k + 1) hi
      rw [firstOrder_backward_apply, if_neg (by omega), if_pos (by omega), if_pos hi,
        Nat.add_sub_cancel, ih (by omega), zero_sub, neg_eq_zero] at h1
      exact h1
  · intro h i hi
    rw [firstOrder_backward_apply]
    by_cases c : i = 0
    · rw [if_pos c, if_pos (by omega), h 0 (by omega)]
    · rw [if_neg c, if_pos (by omega), if_pos hi, h _ (by omega), h i hi, sub_self]

example : ∀ i, i < 3 → (fun _ => (0 : ℚ)) i = 0 :=
  (firstOrder_backward_null_iff 3 _).1 (fun i _ => by rw [firstOrder_backward_apply]; simp)

/-- **Null space, `none` (identity; also every order-0 precision): trivial for every n.** -/
theorem firstOrder_none_null_iff (n : ℕ) (x : ℕ → R) :
    (∀ i, i < (firstOrder .none n).rows → apply (firstOrder .none n) x i = 0)
      ↔ ∀ i, i < n → x i = 0 := by
  have hr : (firstOrder .none n).rows = n := rfl
  rw [hr]
  constructor
  · intro h i hi
    have := h i hi
    rwa [firstOrder_none_apply, if_pos hi] at this
  · intro h i hi
    rw [firstOrder_none_apply, if_pos hi, h i hi]

example : ∀ i, i < 3 → (fun _ => (0 : ℚ)) i = 0 :=
  (firstOrder_none_null_iff 3 _).1 (fun i _ => by rw [firstOrder_none_apply]; simp)

/-- **Null space, second order, zero boundary: trivial for every n.** -/
theorem secondOrder_zero_null_iff (n : ℕ) (x : ℕ → R) :
    (∀ i, i < (secondOrder .zero n).rows → apply (secondOrder .zero n) x i = 0)
      ↔ ∀ i, i < n → x i = 0 := by
  have hr : (secondOrder .zero n).rows = n + 2 := rfl
  rw [hr]
  constructor
  · intro h i
    induction i using Nat.strong_induction_on with
    | _ i ih =>
      intro hi
      have h1 := h i (by omega)
      have a : (if 2 ≤ i ∧ i - 2 < n then x (i - 2) else 0) = 0 := by
        split_ifs with c; exacts [ih _ (by omega) c.2, rfl]
      have b : (if 1 ≤ i ∧ i - 1 < n then x (i - 1) else 0) = 0 := by
        split_ifs with c; exacts [ih _ (by omega) c.2, rfl]
      rw [secondOrder_zero_apply, a, b, if_pos hi, neg_zero, mul_zero, zero_add, zero_sub,
        neg_eq_zero] at h1
      exact h1
  · intro h i _
    have a : (if 2 ≤ i ∧ i - 2 < n then x (i - 2) else 0) = 0 := by
      split_ifs with c; exacts [h _ c.2, rfl]
    have b : (if 1 ≤ i ∧ i - 1 < n then x (i - 1) else 0) = 0 := by
      split_ifs with c; exacts [h _ c.2, rfl]
    have c : (if i < n then x i else 0) = 0 := by split_ifs with c; exacts [h i c, rfl]
    rw [secondOrder_zero_apply, a, b, c]; ring

example : ∀ i, i < 3 → (fun _ => (0 : ℚ)) i = 0 :=
  (secondOrder_zero_null_iff 3 _).1 (fun i _ => by rw [secondOrder_zero_apply]; simp)

/-- **Null space, second order, Neumann boundary: exactly the affine sequences
    `x_i = x_0 + i (x_1 - x_0)`, every n** — a two-parameter family (for `n ≥ 2`), so the
    precision `DᵀD` has rank `n - 2`, not the `n - 1` GMRF declares. -/
theorem secondOrder_neumann_null_iff (n : ℕ) (x : ℕ → R) :
    (∀ i, i < (secondOrder .neumann n).rows → apply (secondOrder .neumann n) x i = 0)
      ↔ ∀ i, i < n → x i = x 0 + (i : R) * (x 1 - x 0) := by
  have hr : (secondOrder .neumann n).rows = n - 2 := rfl
  rw [hr]
  constructor
  · intro h
    refine affine_of_step n x fun i hi => ?_
    have h1 := h i (by omega)
    rw [secondOrder_neumann_apply, if_pos (by omega), if_pos (by omega), if_pos hi] at h1
    linear_combination (-1 : R) * h1
  · intro h i hi
    rw [secondOrder_neumann_apply, if_pos (by omega), if_pos (by omega), if_pos (by omega),
      h i (by omega), h (i + 1) (by omega), h (i + 2) (by omega)]
    push_cast; ring

example : ∀ i, i < 2 → apply (secondOrder .neumann 4) (fun j => (5 : ℚ) + 3 * j) i = 0 :=
  (secondOrder_neumann_null_iff 4 _).2 (fun i _ => by simp; ring)

/-- **Null space, second order, periodic boundary (`n ≥ 3`): exactly the constants**
    (over a domain of characteristic zero: `ℤ`, `ℚ`, `ℝ`). -/
theorem secondOrder_periodic_null_iff {K : Type*} [CommRing K] [IsDomain K] [CharZero K]
    (n : ℕ) (hn : 3 ≤ n) (x : ℕ → K) :
    (∀ i, i < (secondOrder .periodic n).rows → apply (secondOrder .periodic n) x i = 0)
      ↔ ∀ i, i < n → x i = x 0 := by
  have hr : (secondOrder .periodic n).rows = n + 2 := rfl
  rw [hr]
  constructor
  · intro h
    have haff := affine_of_step n x fun i hi => by
      have h1 := h (i + 2) (by omega)
      rw [secondOrder_periodic_apply n hn x (i + 2) (by omega),
        mod_wrap (r := i) (by omega) (by omega), mod_wrap (r := i + 1) (by omega) (by omega),
        mod_wrap (r := i + 2) (by omega) (by omega)] at h1
      linear_combination (-1 : K) * h1
    have h1 := h 1 (by omega)
    obtain ⟨m, rfl⟩ : ∃ m, n = m + 1 := ⟨n - 1, by omega⟩
    rw [secondOrder_periodic_apply (m + 1) hn x 1 (by omega),
      mod_wrap (r := m) (by omega) (by omega), mod_wrap (r := 0) (by omega) (by omega),
      mod_wrap (r := 1) (by omega) (by omega), haff m (by omega)] at h1
    have h2 : ((m + 1 : ℕ) : K) * (x 1 - x 0) = 0 := by
      push_cast; linear_combination (-1 : K) * h1
    have hd : x 1 - x 0 = 0 := by
      rcases mul_eq_zero.1 h2 with h3 | h3
      · exact absurd h3 (Nat.cast_ne_zero.2 (by omega))
      · exact h3
    intro i hi
    rw [haff i hi, hd, mul_zero, add_zero]
  · intro h i hi
    rw [secondOrder_periodic_apply n hn x i (by omega), h _ (Nat.mod_lt _ (by omega)),
      h _ (Nat.mod_lt _ (by omega)), h _ (Nat.mod_lt _ (by omega))]
    ring

example : ∀ i, i < 6 → apply (secondOrder .periodic 4) (fun _ => (7 : ℚ)) i = 0 :=
  (secondOrder_periodic_null_iff 4 (by norm_num) _).2 (fun _ _ => rfl)

/-! ## 4. The 2-D operator: `vstack([kron(I, D), kron(D, I)])` acts slice by slice -/

lemma div_block {m a r : ℕ} (hr : r < m) : (a * m + r) / m = a := by
  rw [Nat.add_comm, Nat.add_mul_div_right _ _ (by omega), Nat.div_eq_of_lt hr, Nat.zero_add]

lemma mod_block {m a r : ℕ} (hr : r < m) : (a * m + r) % m = r := by
  rw [Nat.add_comm, Nat.add_mul_mod_self_right, Nat.mod_eq_of_lt hr]

/-- **`kron(I_n, D)` applies `D` to each of the `n` consecutive blocks of the image vector:**
    row `a·rows + r` reads block `a` (`x_{a·cols + c}`, `c < cols`) through row `r` of `D`. -/
theorem kron_eye_left_apply (D : FMat) (n : ℕ) (x : ℕ → R) (a r : ℕ) (ha : a < n)
    (hr : r < D.rows) :
    apply (kron (eye n) D) x (a * D.rows + r) = apply D (fun c => x (a * D.cols + c)) r := by
  have e : ∀ a' c, c < D.cols → (kron (eye n) D).e (a * D.rows + r) (a' * D.cols + c)
      = (if a = a' then 1 else 0) * D.e r c := by
    intro a' c hc
    simp only [kron]
    rw [div_block hr, mod_block hr, div_block hc, mod_block hc]
    rfl
  unfold apply
  rw [show (kron (eye n) D).cols = n * D.cols from rfl, sum_range_mul_block,
    Finset.sum_eq_single a]
  · refine Finset.sum_congr rfl fun c hc => ?_
    rw [e a c (mem_range.1 hc), if_pos rfl, one_mul]
  · intro a' _ hne
    refine Finset.sum_eq_zero fun c hc => ?_
    rw [e a' c (mem_range.1 hc), if_neg (Ne.symm hne), zero_mul, Int.cast_zero, zero_mul]
  · intro h; exact absurd (mem_range.2 ha) h

example : apply (kron (eye 2) (firstOrder .neumann 3)) (fun j => ((j : ℤ) + 1) ^ 2) (1 * 2 + 1)
    = 6 ^ 2 - 5 ^ 2 := by
  rw [show (1 * 2 + 1 : ℕ) = 1 * (firstOrder .neumann 3).rows + 1 from rfl,
    kron_eye_left_apply _ _ _ _ _ (by norm_num) (by decide), firstOrder_neumann_apply]
  norm_num [show (firstOrder .neumann 3).cols = 3 from rfl]

/-- **`kron(D, I_n)` applies `D` across the blocks:** row `r·n + b` reads the strided slice
    `x_{c·n + b}` (`c < cols`) through row `r` of `D`. -/
theorem kron_eye_right_apply (D : FMat) (n : ℕ) (x : ℕ → R) (r b : ℕ) (hb : b < n) :
    apply (kron D (eye n)) x (r * n + b) = apply D (fun c => x (c * n + b)) r := by
  have e : ∀ c b', b' < n → (kron D (eye n)).e (r * n + b) (c * n + b')
      = D.e r c * (if b = b' then 1 else 0) := by
    intro c b' hb'
    simp only [kron]
    rw [show (eye n).rows = n from rfl, show (eye n).cols = n from rfl,
      div_block hb, mod_block hb, div_block hb', mod_block hb']
    rfl
  unfold apply
  rw [show (kron D (eye n)).cols = D.cols * n from rfl, sum_range_mul_block]
  refine Finset.sum_congr rfl fun c _ => ?_
  rw [Finset.sum_eq_single b]
  · rw [e c b hb, if_pos rfl, mul_one]
  · intro b' hb' hne
    rw [e c b' (mem_range.1 hb'), if_neg (Ne.symm hne), mul_zero, Int.cast_zero, zero_mul]
  · intro h; exact absurd (mem_range.2 hb) h

example : apply (kron (firstOrder .neumann 3) (eye 2)) (fun j => ((j : ℤ) + 1) ^ 2) (1 * 2 + 1)
    = 6 ^ 2 - 4 ^ 2 := by
  rw [kron_eye_right_apply _ _ _ _ _ (by norm_num), firstOrder_neumann_apply]
  norm_num

/-- **Shape of the 2-D operator:** `n·rows(D)` rows of `kron(I,D)` stacked on `rows(D)·n` rows of
    `kron(D,I)`, acting on images with `n·cols(D)` pixels. -/
theorem lift2D_shape (D : FMat) (n : ℕ) :
    (lift2D D n).rows = n * D.rows + D.rows * n ∧ (lift2D D n).cols = n * D.cols :=
  ⟨rfl, rfl⟩

/-- **Row split of the 2-D operator (`vstack`):** the first `n·rows(D)` rows are those of
    `kron(I, D)`, the remaining ones those of `kron(D, I)`. -/
theorem lift2D_apply (D : FMat) (n : ℕ) (x : ℕ → R) (i : ℕ) :
    apply (lift2D D n) x i
      = if i < n * D.rows then apply (kron (eye n) D) x i
        else apply (kron D (eye n)) x (i - n * D.rows) := by
  unfold apply
  rw [show (lift2D D n).cols = n * D.cols from rfl]
  have he : ∀ j, (lift2D D n).e i j
      = if i < n * D.rows then (kron (eye n) D).e i j else (kron D (eye n)).e (i - n * D.rows) j :=
    fun _ => rfl
  split_ifs with h
  · rw [show (kron (eye n) D).cols = n * D.cols from rfl]
    exact Finset.sum_congr rfl fun j _ => by rw [he, if_pos h]
  · rw [show (kron D (eye n)).cols = D.cols * n from rfl, Nat.mul_comm D.cols n]
    exact Finset.sum_congr rfl fun j _ => by rw [he, if_neg h]

/-- **Top half of the 2-D operator:** differences *within* block `a` of the image. -/
theorem lift2D_apply_top (D : FMat) (n : ℕ) (x : ℕ → R) (a r : ℕ) (ha : a < n)
    (hr : r < D.rows) :
    apply (lift2D D n) x (a * D.rows + r) = apply D (fun c => x (a * D.cols + c)) r := by
  have hlt : a * D.rows + r < n * D.rows :=
    calc a * D.rows + r < a * D.rows + D.rows := by omega
      _ = (a + 1) * D.rows := (Nat.succ_mul _ _).symm
      _ ≤ n * D.rows := Nat.mul_le_mul_right _ ha
  rw [lift2D_apply, if_pos hlt, kron_eye_left_apply D n x a r ha hr]

/-- **Bottom half of the 2-D operator:** differences *across* blocks, at fixed offset `b`. -/
theorem lift2D_apply_bottom (D : FMat) (n : ℕ) (x : ℕ → R) (r b : ℕ) (hb : b < n) :
    apply (lift2D D n) x (n * D.rows + (r * n + b)) = apply D (fun c => x (c * n + b)) r := by
  rw [lift2D_apply, if_neg (by omega), Nat.add_sub_cancel_left, kron_eye_right_apply D n x r b hb]

example : apply (lift2D (firstOrder .neumann 3) 3) (fun j => ((j : ℤ) + 1) ^ 2) (3 * 2 + (1 * 3 + 2))
    = 9 ^ 2 - 6 ^ 2 := by
  rw [show (3 * 2 + (1 * 3 + 2) : ℕ) = 3 * (firstOrder .neumann 3).rows + (1 * 3 + 2) from rfl,
    lift2D_apply_bottom _ _ _ _ _ (by norm_num), firstOrder_neumann_apply]
  norm_num

/-- **Null space of the 2-D operator, any `D`:** an image is annihilated iff every block
    (`x_{a·cols + ·}`) and every strided slice (`x_{·n + b}`) is annihilated by the 1-D operator. -/
theorem lift2D_null_iff (D : FMat) (n : ℕ) (x : ℕ → R) :
    (∀ i, i < (lift2D D n).rows → apply (lift2D D n) x i = 0)
      ↔ (∀ a, a < n → ∀ r, r < D.rows → apply D (fun c => x (a * D.cols + c)) r = 0)
        ∧ (∀ b, b < n → ∀ r, r < D.rows → apply D (fun c => x (c * n + b)) r = 0) := by
  rw [show (lift2D D n).rows = n * D.rows + D.rows * n from rfl]
  constructor
  · intro h
    refine ⟨fun a ha r hr => ?_, fun b hb r hr => ?_⟩
    · rw [← lift2D_apply_top D n x a r ha hr]
      have hlt : a * D.rows + r < n * D.rows :=
        calc a * D.rows + r < a * D.rows + D.rows := by omega
          _ = (a + 1) * D.rows := (Nat.succ_mul _ _).symm
          _ ≤ n * D.rows := Nat.mul_le_mul_right _ ha
      exact h _ (by omega)
    · rw [← lift2D_apply_bottom D n x r b hb]
      have hlt : r * n + b < D.rows * n :=
        calc r * n + b < r * n + n := by omega
          _ = (r + 1) * n := (Nat.succ_mul _ _).symm
          _ ≤ D.rows * n := Nat.mul_le_mul_right _ hr
      exact h _ (by omega)
  · rintro ⟨h1, h2⟩ i hi
    by_cases c : i < n * D.rows
    · have hpos : 0 < D.rows := by
        rcases Nat.eq_zero_or_pos D.rows with h0 | h0
        · rw [h0, Nat.mul_zero] at c; omega
        · exact h0
      have hi' : i = (i / D.rows) * D.rows + i % D.rows := by
        rw [Nat.mul_comm]; exact (Nat.div_add_mod i D.rows).symm
      have ha : i / D.rows < n := (Nat.div_lt_iff_lt_mul hpos).2 c
      rw [hi', lift2D_apply_top D n x _ _ ha (Nat.mod_lt _ hpos)]
      exact h1 _ ha _ (Nat.mod_lt _ hpos)
    · have hj : i - n * D.rows < D.rows * n := by omega
      have hpos : 0 < n := by
        rcases Nat.eq_zero_or_pos n with h0 | h0
        · rw [h0, Nat.mul_zero] at hj; omega
        · exact h0
      have hi' : i = n * D.rows + ((i - n * D.rows) / n * n + (i - n * D.rows) % n) := by
        rw [Nat.mul_comm _ n, Nat.div_add_mod]; omega
      have hr : (i - n * D.rows) / n < D.rows := (Nat.div_lt_iff_lt_mul hpos).2 hj
      rw [hi', lift2D_apply_bottom D n x _ _ (Nat.mod_lt _ hpos)]
      exact h2 _ (Nat.mod_lt _ hpos) _ hr

/-- if the 1-D null space is the constants, so is the 2-D one -/
lemma lift2D_null_const (D : FMat) (n : ℕ) (hc : D.cols = n)
    (hD : ∀ y : ℕ → R, (∀ r, r < D.rows → apply D y r = 0) ↔ ∀ i, i < n → y i = y 0)
    (x : ℕ → R) :
    (∀ i, i < (lift2D D n).rows → apply (lift2D D n) x i = 0)
      ↔ ∀ a, a < n → ∀ c, c < n → x (a * n + c) = x 0 := by
  rw [lift2D_null_iff, hc]
  constructor
  · rintro ⟨h1, h2⟩ a ha c hc'
    have t1 := (hD _).1 (h1 a ha) c hc'
    have t2 := (hD _).1 (h2 0 (by omega)) a ha
    simp only [Nat.add_zero, Nat.zero_mul] at t1 t2
    rw [t1, t2]
  · intro h
    refine ⟨fun a ha => (hD _).2 fun c hc' => ?_, fun b hb => (hD _).2 fun c hc' => ?_⟩
    · show x (a * n + c) = x (a * n + 0)
      rw [h a ha c hc', h a ha 0 (by omega)]
    · show x (c * n + b) = x (0 * n + b)
      rw [h c hc' b hb, h 0 (by omega) b hb]

/-- if the 1-D null space is trivial, so is the 2-D one -/
lemma lift2D_null_trivial (D : FMat) (n : ℕ) (hc : D.cols = n)
    (hD : ∀ y : ℕ → R, (∀ r, r < D.rows → apply D y r = 0) ↔ ∀ i, i < n → y i = 0)
    (x : ℕ → R) :
    (∀ i, i < (lift2D D n).rows → apply (lift2D D n) x i = 0)
      ↔ ∀ a, a < n → ∀ c, c < n → x (a * n + c) = 0 := by
  rw [lift2D_null_iff, hc]
  constructor
  · rintro ⟨h1, _⟩ a ha c hc'
    exact (hD _).1 (h1 a ha) c hc'
  · intro h
    exact ⟨fun a ha => (hD _).2 fun c hc' => h a ha c hc',
      fun b hb => (hD _).2 fun c hc' => h c hc' b hb⟩

/-- **2-D null space, order 1, Neumann: exactly the constant images** (every `n × n`). -/
theorem diffOp2D_order1_neumann_null_iff (n : ℕ) (x : ℕ → R) :
    (∀ i, i < (diffOp2D 1 .neumann n).rows → apply (diffOp2D 1 .neumann n) x i = 0)
      ↔ ∀ a, a < n → ∀ c, c < n → x (a * n + c) = x 0 :=
  lift2D_null_const (firstOrder .neumann n) n rfl (firstOrder_neumann_null_iff n) x

/-- **2-D null space, order 1, periodic (`n ≥ 2`): exactly the constant images.** -/
theorem diffOp2D_order1_periodic_null_iff (n : ℕ) (hn : 2 ≤ n) (x : ℕ → R) :
    (∀ i, i < (diffOp2D 1 .periodic n).rows → apply (diffOp2D 1 .periodic n) x i = 0)
      ↔ ∀ a, a < n → ∀ c, c < n → x (a * n + c) = x 0 :=
  lift2D_null_const (firstOrder .periodic n) n rfl (firstOrder_periodic_null_iff n hn) x

/-- **2-D null space, order 2, periodic (`n ≥ 3`): exactly the constant images.** -/
theorem diffOp2D_order2_periodic_null_iff {K : Type*} [CommRing K] [IsDomain K] [CharZero K]
    (n : ℕ) (hn : 3 ≤ n) (x : ℕ → K) :
    (∀ i, i < (diffOp2D 2 .periodic n).rows → apply (diffOp2D 2 .periodic n) x i = 0)
      ↔ ∀ a, a < n → ∀ c, c < n → x (a * n + c) = x 0 :=
  lift2D_null_const (secondOrder .periodic n) n rfl (secondOrder_periodic_null_iff n hn) x

/-- **2-D null space, zero boundary, order 1 and 2: trivial** (every `n × n`). -/
theorem diffOp2D_zero_null_iff (n : ℕ) (x : ℕ → R) :
    ((∀ i, i < (diffOp2D 1 .zero n).rows → apply (diffOp2D 1 .zero n) x i = 0)
      ↔ ∀ a, a < n → ∀ c, c < n → x (a * n + c) = 0)
    ∧ ((∀ i, i < (diffOp2D 2 .zero n).rows → apply (diffOp2D 2 .zero n) x i = 0)
      ↔ ∀ a, a < n → ∀ c, c < n → x (a * n + c) = 0) :=
  ⟨lift2D_null_trivial (firstOrder .zero n) n rfl (firstOrder_zero_null_iff n) x,
   lift2D_null_trivial (secondOrder .zero n) n rfl (secondOrder_zero_null_iff n) x⟩

/-- **2-D null space, order 0 (identity ⊗ identity stacked twice): trivial for every `bc`.** -/
theorem diffOp2D_order0_null_iff (bc : BC) (n : ℕ) (x : ℕ → R) :
    (∀ i, i < (diffOp2D 0 bc n).rows → apply (diffOp2D 0 bc n) x i = 0)
      ↔ ∀ a, a < n → ∀ c, c < n → x (a * n + c) = 0 :=
  lift2D_null_trivial (firstOrder .none n) n rfl (firstOrder_none_null_iff n) x

example : ∀ i, i < 12 → apply (diffOp2D 1 .neumann 3) (fun _ => (7 : ℚ)) i = 0 :=
  (diffOp2D_order1_neumann_null_iff 3 _).2 (fun _ _ _ _ => rfl)

/-! ## 5. Null space of the precision `DᵀD` GMRF uses, and the rank GMRF declares

`gram (diffOp order bc n)` is exactly what the driver prints for `prec1` and what
`PrecisionFiniteDifference(n, bc_type=bc, order=order)` is compared with.  Combining
`gram_null_iff` with the 1-D null spaces gives the null space — hence the rank `n - nullity` —
of every precision.  `nullity1D` is the number of free parameters of these null spaces. -/

section precision
variable {K : Type*} [Field K] [LinearOrder K] [IsStrictOrderedRing K]

/-- **Order 0 (`P = I`), every `bc`: the precision is nonsingular.** -/
theorem precision_order0_null_iff (bc : BC) (n : ℕ) (x : ℕ → K) :
    (∀ i, i < n → apply (gram (diffOp 0 bc n)) x i = 0) ↔ ∀ i, i < n → x i = 0 :=
  (gram_null_iff (firstOrder .none n) x).trans (firstOrder_none_null_iff n x)

/-- **Order 1, zero boundary: nonsingular.** -/
theorem precision_order1_zero_null_iff (n : ℕ) (x : ℕ → K) :
    (∀ i, i < n → apply (gram (diffOp 1 .zero n)) x i = 0) ↔ ∀ i, i < n → x i = 0 :=
  (gram_null_iff (firstOrder .zero n) x).trans (firstOrder_zero_null_iff n x)

/-- **Order 1, periodic (`n ≥ 2`): null space = constants (nullity 1).** -/
theorem precision_order1_periodic_null_iff (n : ℕ) (hn : 2 ≤ n) (x : ℕ → K) :
    (∀ i, i < n → apply (gram (diffOp 1 .periodic n)) x i = 0) ↔ ∀ i, i < n → x i = x 0 :=
  (gram_null_iff (firstOrder .periodic n) x).trans (firstOrder_periodic_null_iff n hn x)

/-- **Order 1, Neumann: null space = constants (nullity 1).** -/
theorem precision_order1_neumann_null_iff (n : ℕ) (x : ℕ → K) :
    (∀ i, i < n → apply (gram (diffOp 1 .neumann n)) x i = 0) ↔ ∀ i, i < n → x i = x 0 :=
  (gram_null_iff (firstOrder .neumann n) x).trans (firstOrder_neumann_null_iff n x)

/-- **Order 2, zero boundary: nonsingular.** -/
theorem precision_order2_zero_null_iff (n : ℕ) (x : ℕ → K) :
    (∀ i, i < n → apply (gram (diffOp 2 .zero n)) x i = 0) ↔ ∀ i, i < n → x i = 0 :=
  (gram_null_iff (secondOrder .zero n) x).trans (secondOrder_zero_null_iff n x)

/-- **Order 2, periodic (`n ≥ 3`): null space = constants (nullity 1).** -/
theorem precision_order2_periodic_null_iff (n : ℕ) (hn : 3 ≤ n) (x : ℕ → K) :
    (∀ i, i < n → apply (gram (diffOp 2 .periodic n)) x i = 0) ↔ ∀ i, i < n → x i = x 0 :=
  (gram_null_iff (secondOrder .periodic n) x).trans (secondOrder_periodic_null_iff n hn x)

/-- **Order 2, Neumann: null space = affine sequences (nullity 2 for `n ≥ 2`).** -/
theorem precision_order2_neumann_null_iff (n : ℕ) (x : ℕ → K) :
    (∀ i, i < n → apply (gram (diffOp 2 .neumann n)) x i = 0)
      ↔ ∀ i, i < n → x i = x 0 + (i : K) * (x 1 - x 0) :=
  (gram_null_iff (secondOrder .neumann n) x).trans (secondOrder_neumann_null_iff n x)

example : ∀ i, i < 5 → apply (gram (diffOp 2 .neumann 5)) (fun j => (2 : ℚ) - 3 * j) i = 0 :=
  (precision_order2_neumann_null_iff 5 _).2 (fun i _ => by simp; ring)

end precision

/-- **When does GMRF's declared rank equal the true rank `n - nullity`?**  For `n ≥ 2`, exactly
    for: zero boundary (any order), order 1 with periodic/Neumann, order ≥ 2 with periodic.
    Every other combination — in particular order 0 with periodic/Neumann and order 2 with
    Neumann — declares a wrong rank (the known findings). -/
theorem declaredRank_eq_iff (order : ℕ) (bc : BC) (n : ℕ) (hn : 2 ≤ n) :
    declaredRank bc n = n - nullity1D order bc
      ↔ (bc = .zero ∨ (order = 1 ∧ (bc = .periodic ∨ bc = .neumann))
          ∨ (2 ≤ order ∧ bc = .periodic)) := by
  match order with
  | 0 => cases bc <;> simp [declaredRank, nullity1D] <;> omega
  | 1 => cases bc <;> simp [declaredRank, nullity1D] <;> omega
  | k + 2 => cases bc <;> simp [declaredRank, nullity1D] <;> omega

example : declaredRank .neumann 7 = 7 - nullity1D 1 .neumann :=
  (declaredRank_eq_iff 1 .neumann 7 (by norm_num)).2 (by simp)

/-- **Negative witness, order 0 with periodic or Neumann `bc`, every `n ≥ 1`:** the precision is
    the identity — nonsingular, rank `n` — yet GMRF declares rank `n - 1 < n`
    (so `logpdf` uses a wrong normalising constant). -/
theorem declaredRank_wrong_order0 (bc : BC) (hbc : bc = .periodic ∨ bc = .neumann)
    (n : ℕ) (hn : 1 ≤ n) :
    (∀ x : ℕ → ℚ, (∀ i, i < n → apply (gram (diffOp 0 bc n)) x i = 0) → ∀ i, i < n → x i = 0)
      ∧ declaredRank bc n = n - 1 ∧ declaredRank bc n < n - nullity1D 0 bc := by
  refine ⟨fun x => (precision_order0_null_iff bc n x).1, ?_, ?_⟩
  · rcases hbc with h | h <;> subst h <;> rfl
  · rcases hbc with h | h <;> subst h <;> simp [declaredRank, nullity1D] <;> omega

/-- the same at `n = 3`, on the matrix the driver prints: `P = I₃` but declared rank `2` -/
theorem declaredRank_wrong_order0_n3 :
    (gram (diffOp 0 .periodic 3)).toList = [[1, 0, 0], [0, 1, 0], [0, 0, 1]]
      ∧ (gram (diffOp 0 .neumann 3)).toList = [[1, 0, 0], [0, 1, 0], [0, 0, 1]]
      ∧ declaredRank .periodic 3 = 2 ∧ declaredRank .neumann 3 = 2 := by
  decide

/-- **Negative witness, order 2 with Neumann `bc`, every `n ≥ 2`:** the precision annihilates
    both the constant vector and the ramp `x_i = i` (two independent null vectors, true rank
    `n - 2`), yet GMRF declares rank `n - 1`. -/
theorem declaredRank_wrong_order2_neumann (n : ℕ) (hn : 2 ≤ n) :
    (∀ i, i < n → apply (gram (diffOp 2 .neumann n)) (fun _ => (1 : ℚ)) i = 0)
      ∧ (∀ i, i < n → apply (gram (diffOp 2 .neumann n)) (fun j => (j : ℚ)) i = 0)
      ∧ declaredRank .neumann n = n - 1 ∧ n - nullity1D 2 .neumann < declaredRank .neumann n := by
  refine ⟨(precision_order2_neumann_null_iff n _).2 fun i _ => by simp,
    (precision_order2_neumann_null_iff n _).2 fun i _ => by simp, rfl, ?_⟩
  simp [declaredRank, nullity1D]; omega

/-- the same at `n = 3`, on the matrix the driver prints: `P·(1,1,1) = P·(0,1,2) = 0`
    (rank 1) but declared rank `2` -/
theorem declaredRank_wrong_order2_neumann_n3 :
    (gram (diffOp 2 .neumann 3)).toList = [[1, -2, 1], [-2, 4, -2], [1, -2, 1]]
      ∧ declaredRank .neumann 3 = 2 ∧ 3 - nullity1D 2 .neumann = 1 := by
  decide

/-- **Degenerate size `n = 2`, order 2, periodic:** the code's boundary patches overwrite each other
    (`Dmat[0,-2]` *is* `Dmat[0,0]`), the precision is `[[10,-8],[-8,10]]` with determinant `36`
    (nonsingular, rank 2) while GMRF declares rank `1`; `secondOrder_periodic_null_iff` needs
    `n ≥ 3` for exactly this reason. -/
theorem secondOrder_periodic_n2_counterexample :
    (secondOrder .periodic 2).toList = [[-1, 2], [2, -1], [-1, 2], [2, -1]]
      ∧ (gram (diffOp 2 .periodic 2)).toList = [[10, -8], [-8, 10]]
      ∧ (10 : ℤ) * 10 - (-8) * (-8) = 36 ∧ declaredRank .periodic 2 = 1 := by
  decide

/-! ## 6. 2-D: order 2 Neumann (bilinear images, nullity 4) and the 2-D precisions -/

/-- **2-D null space, order 2, Neumann: exactly the bilinear images**
    `x_{a,c} = x_{00} + c (x_{01} - x_{00}) + a (x_{10} - x_{00}) + a c (x_{11} - x_{10} - x_{01} + x_{00})`
    — a four-parameter family for `n ≥ 2` (true rank `n² - 4`, GMRF declares `n² - 1`). -/
theorem diffOp2D_order2_neumann_null_iff (n : ℕ) (x : ℕ → R) :
    (∀ i, i < (diffOp2D 2 .neumann n).rows → apply (diffOp2D 2 .neumann n) x i = 0)
      ↔ ∀ a, a < n → ∀ c, c < n → x (a * n + c)
          = x 0 + (c : R) * (x 1 - x 0) + (a : R) * (x n - x 0)
            + (a : R) * (c : R) * (x (n + 1) - x n - x 1 + x 0) := by
  show (∀ i, i < (lift2D (secondOrder .neumann n) n).rows →
      apply (lift2D (secondOrder .neumann n) n) x i = 0) ↔ _
  rw [lift2D_null_iff, show (secondOrder .neumann n).cols = n from rfl]
  simp only [secondOrder_neumann_null_iff]
  constructor
  · rintro ⟨h1, h2⟩ a ha c hc
    have r := h1 a ha c hc
    have c0 := h2 0 (by omega) a ha
    simp only [Nat.add_zero, Nat.zero_mul, Nat.one_mul] at r c0
    by_cases hn : 1 < n
    · have c1 := h2 1 hn a ha
      simp only [Nat.zero_mul, Nat.one_mul, Nat.zero_add] at c1
      rw [r, c0, c1]; ring
    · have hc0 : c = 0 := by omega
      subst hc0
      rw [Nat.add_zero, c0]; push_cast; ring
  · intro h
    by_cases hn : 1 < n
    · refine ⟨fun a ha c hc => ?_, fun b hb a ha => ?_⟩
      · show x (a * n + c) = x (a * n + 0) + (c : R) * (x (a * n + 1) - x (a * n + 0))
        rw [h a ha c hc, h a ha 0 (by omega), h a ha 1 hn]; push_cast; ring
      · show x (a * n + b) = x (0 * n + b) + (a : R) * (x (1 * n + b) - x (0 * n + b))
        rw [h a ha b hb, h 0 (by omega) b hb, h 1 hn b hb]; push_cast; ring
    · refine ⟨fun a ha c hc => ?_, fun b hb a ha => ?_⟩
      · have hc0 : c = 0 := by omega
        subst hc0; show x (a * n + 0) = x (a * n + 0) + ((0 : ℕ) : R) * _
        push_cast; ring
      · have ha0 : a = 0 := by omega
        subst ha0; show x (0 * n + b) = x (0 * n + b) + ((0 : ℕ) : R) * _
        push_cast; ring

example : ∀ i, i < 6 → apply (diffOp2D 2 .neumann 3) (fun j => ((j / 3 : ℕ) : ℚ) * ((j % 3 : ℕ) : ℚ)) i = 0 := by
  refine (diffOp2D_order2_neumann_null_iff 3 _).2 fun a ha c hc => ?_
  have e1 : (a * 3 + c) / 3 = a := by omega
  have e2 : (a * 3 + c) % 3 = c := by omega
  simp only [e1, e2]; norm_num

section precision2D
variable {K : Type*} [Field K] [LinearOrder K] [IsStrictOrderedRing K]

/-- **2-D precisions with the constants as null space (nullity 1, declared rank `n² - 1` correct):**
    order 1 Neumann (every n), order 1 periodic (`n ≥ 2`), order 2 periodic (`n ≥ 3`). -/
theorem precision2D_const_null_iff (n : ℕ) (x : ℕ → K) :
    ((∀ i, i < n * n → apply (gram (diffOp2D 1 .neumann n)) x i = 0)
        ↔ ∀ a, a < n → ∀ c, c < n → x (a * n + c) = x 0)
    ∧ (2 ≤ n → ((∀ i, i < n * n → apply (gram (diffOp2D 1 .periodic n)) x i = 0)
        ↔ ∀ a, a < n → ∀ c, c < n → x (a * n + c) = x 0))
    ∧ (3 ≤ n → ((∀ i, i < n * n → apply (gram (diffOp2D 2 .periodic n)) x i = 0)
        ↔ ∀ a, a < n → ∀ c, c < n → x (a * n + c) = x 0)) :=
  ⟨(gram_null_iff (diffOp2D 1 .neumann n) x).trans (diffOp2D_order1_neumann_null_iff n x),
   fun hn => (gram_null_iff (diffOp2D 1 .periodic n) x).trans
     (diffOp2D_order1_periodic_null_iff n hn x),
   fun hn => (gram_null_iff (diffOp2D 2 .periodic n) x).trans
     (diffOp2D_order2_periodic_null_iff n hn x)⟩

/-- **2-D precisions that are nonsingular:** zero boundary (orders 1, 2) and order 0 with *any*
    `bc` — for which GMRF nevertheless declares rank `n² - 1` when `bc` is periodic/Neumann. -/
theorem precision2D_trivial_null_iff (bc : BC) (n : ℕ) (x : ℕ → K) :
    ((∀ i, i < n * n → apply (gram (diffOp2D 1 .zero n)) x i = 0)
        ↔ ∀ a, a < n → ∀ c, c < n → x (a * n + c) = 0)
    ∧ ((∀ i, i < n * n → apply (gram (diffOp2D 2 .zero n)) x i = 0)
        ↔ ∀ a, a < n → ∀ c, c < n → x (a * n + c) = 0)
    ∧ ((∀ i, i < n * n → apply (gram (diffOp2D 0 bc n)) x i = 0)
        ↔ ∀ a, a < n → ∀ c, c < n → x (a * n + c) = 0) :=
  ⟨(gram_null_iff (diffOp2D 1 .zero n) x).trans (diffOp2D_zero_null_iff n x).1,
   (gram_null_iff (diffOp2D 2 .zero n) x).trans (diffOp2D_zero_null_iff n x).2,
   (gram_null_iff (diffOp2D 0 bc n) x).trans (diffOp2D_order0_null_iff bc n x)⟩

/-- **2-D precision, order 2 Neumann: null space = bilinear images (nullity 4 for `n ≥ 2`).** -/
theorem precision2D_order2_neumann_null_iff (n : ℕ) (x : ℕ → K) :
    (∀ i, i < n * n → apply (gram (diffOp2D 2 .neumann n)) x i = 0)
      ↔ ∀ a, a < n → ∀ c, c < n → x (a * n + c)
          = x 0 + (c : K) * (x 1 - x 0) + (a : K) * (x n - x 0)
            + (a : K) * (c : K) * (x (n + 1) - x n - x 1 + x 0) :=
  (gram_null_iff (diffOp2D 2 .neumann n) x).trans (diffOp2D_order2_neumann_null_iff n x)

example : ∀ i, i < 3 * 3 → apply (gram (diffOp2D 1 .neumann 3)) (fun _ => (7 : ℚ)) i = 0 :=
  (precision2D_const_null_iff 3 _).1.2 (fun _ _ _ _ => rfl)

end precision2D

/-- **Negative witness in 2-D, order 2 Neumann, every `n ≥ 2`:** all four parameters of the
    bilinear family are free — `p + q·a + r·c + s·a·c` (pixel `j = a·n + c`) is annihilated by the
    precision for every `p q r s` — so its rank is `n² - 4`, while GMRF declares `n² - 1`. -/
theorem declaredRank_wrong_order2_neumann_2D (n : ℕ) (hn : 2 ≤ n) (p q r s : ℚ) :
    (∀ i, i < n * n → apply (gram (diffOp2D 2 .neumann n))
        (fun j => p + q * ((j / n : ℕ) : ℚ) + r * ((j % n : ℕ) : ℚ)
          + s * ((j / n : ℕ) : ℚ) * ((j % n : ℕ) : ℚ)) i = 0)
      ∧ declaredRank .neumann (n * n) = n * n - 1 := by
  refine ⟨(precision2D_order2_neumann_null_iff n _).2 fun a ha c hc => ?_, rfl⟩
  have e1 : (a * n + c) / n = a := div_block hc
  have e2 : (a * n + c) % n = c := mod_block hc
  have e3 : 1 / n = 0 := Nat.div_eq_of_lt (by omega)
  have e4 : 1 % n = 1 := Nat.mod_eq_of_lt (by omega)
  have e5 : n / n = 1 := Nat.div_self (by omega)
  have e6 : (n + 1) / n = 1 := by
    have := div_block (m := n) (a := 1) (r := 1) (by omega); rwa [Nat.one_mul] at this
  have e7 : (n + 1) % n = 1 := by
    have := mod_block (m := n) (a := 1) (r := 1) (by omega); rwa [Nat.one_mul] at this
  simp only [e1, e2, e3, e4, e5, e6, e7, Nat.zero_div, Nat.zero_mod, Nat.mod_self]
  push_cast; ring

example : apply (gram (diffOp2D 2 .neumann 3))
    (fun j => (1 : ℚ) + 2 * ((j / 3 : ℕ) : ℚ) + 3 * ((j % 3 : ℕ) : ℚ)
      + 4 * ((j / 3 : ℕ) : ℚ) * ((j % 3 : ℕ) : ℚ)) 4 = 0 :=
  (declaredRank_wrong_order2_neumann_2D 3 (by norm_num) 1 2 3 4).1 4 (by norm_num)

end CuqiVerif.C20
