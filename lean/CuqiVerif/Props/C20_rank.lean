import CuqiVerif.Proofs.C20_rank
import Mathlib.Data.Real.Basic

/-!
# C20 — rank theorems: the null spaces as linear-algebra invariants

`toMatrix M : Matrix (Fin M.rows) (Fin M.cols) K` (defined in `Proofs/C20_rank.lean`) is the model
matrix `M : FMat` of `Model/C20.lean` — the very definition the driver executes — with its integer
entries cast into the field `K` (`ℚ`, `ℝ`, …).  The theorems of `Props/C20.lean` describe null
spaces by explicit parametrisations of vectors `ℕ → K`; here they are restated with Mathlib's
`LinearMap.ker`, `Submodule.span`, `Module.finrank` and `Matrix.rank`, with an explicit basis of
each kernel, and the rank GMRF declares is compared with `Matrix.rank` of the precision.

Classes (defined in `Proofs/C20_rank.lean`): `KerTrivial order bc` — order 0 (any bc), order 1 with
zero/backward/none, order ≥ 2 with zero; `KerConst order bc n` — order 1 periodic (`n ≥ 2`), order 1
Neumann, order ≥ 2 periodic (`n ≥ 3`); `KerAffine order bc` — order ≥ 2 Neumann.
Generators: `genConst m = ![1]`, `genAffine m = ![1, i ↦ i]`,
`genBilinear n m = ![1, j ↦ j % n, j ↦ j / n, j ↦ (j / n)·(j % n)]`.
-/
open Finset

namespace CuqiVerif.C20

/-! ## 0. The bridge to Mathlib matrices -/

section bridge
variable {K : Type*} [Field K]

/-- **`mulVec` of the Mathlib matrix is the `apply` of `Props/C20.lean`:** all stencil theorems
    (`*_apply`) are statements about `(toMatrix M).mulVec`, the zero-extension `ext0 v` of a
    `Fin`-indexed vector being what `apply` reads. -/
theorem toMatrix_mulVec (M : FMat) (v : Fin M.cols → K) (i : Fin M.rows) :
    (toMatrix M).mulVec v i = apply M (ext0 v) i :=
  toMatrix_mulVec_apply M v i

example : (toMatrix (K := ℚ) (firstOrder .neumann 3)).mulVec
    (restr _ fun j => ((j : ℚ) + 1) ^ 2) ⟨1, by decide⟩ = 5 := by
  have h3 : (firstOrder .neumann 3).cols = 3 := rfl
  rw [toMatrix_mulVec, firstOrder_neumann_apply, if_pos (by norm_num), if_pos (by norm_num),
    ext0_restr _ (by rw [h3]; norm_num), ext0_restr _ (by rw [h3]; norm_num)]
  norm_num

/-- **The precision as a Mathlib matrix is `Dᵀ D`** (`PrecisionFiniteDifference._create_prec_matrix`:
    `self._diff_op.T @ self._diff_op`): the model's `gram` (a `List.range … foldl`) cast to
    `Matrix` is the Mathlib product of the transpose with the matrix. -/
theorem toMatrix_gram (D : FMat) :
    (precMatrix D : Matrix (Fin D.cols) (Fin D.cols) K) = toMatrix (gram D)
      ∧ (precMatrix D : Matrix (Fin D.cols) (Fin D.cols) K)
          = (toMatrix D).transpose * toMatrix D := by
  refine ⟨rfl, ?_⟩
  ext i j
  rw [Matrix.mul_apply]
  simp only [precMatrix, toMatrix, Matrix.transpose_apply, gram_entry]
  push_cast
  exact (Fin.sum_univ_eq_sum_range (fun k => ((D.e k i : ℤ) : K) * ((D.e k j : ℤ) : K)) D.rows).symm

example : (precMatrix (secondOrder .periodic 5) : Matrix (Fin 5) (Fin 5) ℚ)
    = (toMatrix (secondOrder .periodic 5)).transpose * toMatrix (secondOrder .periodic 5) :=
  (toMatrix_gram _).2

end bridge

section ordered
variable {K : Type*} [Field K] [LinearOrder K] [IsStrictOrderedRing K]

/-- **The precision and the operator have the same kernel** (as submodules of `Kⁿ`), any `D`. -/
theorem ker_precision_eq (D : FMat) :
    LinearMap.ker (precMatrix (K := K) D).mulVecLin
      = LinearMap.ker (toMatrix (K := K) D).mulVecLin := by
  rw [(toMatrix_gram D).2, Matrix.ker_mulVecLin_transpose_mul_self]

/-- **`rank (DᵀD) = rank D`:** the rank of the precision GMRF uses is the rank of its difference
    operator (any `D`, any shape). -/
theorem rank_precision_eq (D : FMat) :
    (precMatrix (K := K) D).rank = (toMatrix (K := K) D).rank := by
  rw [(toMatrix_gram D).2, Matrix.rank_transpose_mul_self]

example : (precMatrix (K := ℚ) (diffOp2D 2 .neumann 4)).rank
    = (toMatrix (K := ℚ) (diffOp2D 2 .neumann 4)).rank :=
  rank_precision_eq _

end ordered

/-! ## 1. 1-D: kernel, explicit basis, rank — every size `n` -/

section kernels
variable {K : Type*} [Field K] [CharZero K]

omit [CharZero K] in
/-- **The generators are linearly independent** (so each family below is a *basis* of the kernel it
    spans): the constant vector for `m ≥ 1`; constant and ramp for `m ≥ 2`; `1, c, a, a·c` on the
    `n × n` image for `n ≥ 2`. -/
theorem generators_linearIndependent :
    (∀ m, 1 ≤ m → LinearIndependent K (genConst (K := K) m))
      ∧ (∀ m, 2 ≤ m → LinearIndependent K (genAffine (K := K) m))
      ∧ (∀ n, 2 ≤ n → LinearIndependent K (genBilinear (K := K) n (n * n))) :=
  ⟨fun _ h => genConst_li h, fun _ h => genAffine_li h, fun _ h => genBilinear_li h⟩

example : LinearIndependent ℚ (genAffine (K := ℚ) 5) :=
  generators_linearIndependent.2.1 5 (by norm_num)

omit [CharZero K] in
/-- **Kernel, trivial class** (order 0 with any `bc`; order 1 with zero/backward/none; order ≥ 2 with
    zero), every `n`: `ker D = ⊥`. -/
theorem ker_diffOp_trivial {order : ℕ} {bc : BC} (h : KerTrivial order bc) (n : ℕ) :
    LinearMap.ker (toMatrix (K := K) (diffOp order bc n)).mulVecLin = ⊥ :=
  ker_eq_bot_of_null _ (diffOp_null_trivial h n)

example : LinearMap.ker (toMatrix (K := ℚ) (diffOp 2 .zero 7)).mulVecLin = ⊥ :=
  ker_diffOp_trivial (Or.inr (Or.inr ⟨le_refl 2, rfl⟩)) 7

/-- **Kernel, constants class** (order 1 periodic `n ≥ 2`; order 1 Neumann; order ≥ 2 periodic
    `n ≥ 3`): `ker D = span {1}`. -/
theorem ker_diffOp_const {order : ℕ} {bc : BC} {n : ℕ} (h : KerConst order bc n) :
    LinearMap.ker (toMatrix (K := K) (diffOp order bc n)).mulVecLin
      = Submodule.span K (Set.range (genConst (K := K) (diffOp order bc n).cols)) :=
  ker_eq_span_const_of_null _ (diffOp_null_const h)

example : LinearMap.ker (toMatrix (K := ℚ) (diffOp 2 .periodic 7)).mulVecLin
    = Submodule.span ℚ (Set.range (genConst (K := ℚ) 7)) :=
  ker_diffOp_const (Or.inr (Or.inr ⟨le_refl 2, rfl, by norm_num⟩))

omit [CharZero K] in
/-- **Kernel, affine class** (order ≥ 2 Neumann), every `n`: `ker D = span {1, i ↦ i}` — two
    independent null vectors for `n ≥ 2`, where GMRF assumes one. -/
theorem ker_diffOp_affine {order : ℕ} {bc : BC} (h : KerAffine order bc) (n : ℕ) :
    LinearMap.ker (toMatrix (K := K) (diffOp order bc n)).mulVecLin
      = Submodule.span K (Set.range (genAffine (K := K) (diffOp order bc n).cols)) :=
  ker_eq_span_affine_of_null _ (diffOp_null_affine h n)

example : LinearMap.ker (toMatrix (K := ℚ) (diffOp 2 .neumann 7)).mulVecLin
    = Submodule.span ℚ (Set.range (genAffine (K := ℚ) 7)) :=
  ker_diffOp_affine ⟨le_refl 2, rfl⟩ 7

/-- **Rank of every 1-D operator, every size:** `rank D = n - nullity1D order bc`, for every
    combination the code accepts (`SecondOrderFiniteDifference` raises for backward/none) and, for
    periodic, the sizes where the boundary patches do not collide (`n ≥ 2` / `n ≥ 3`). -/
theorem rank_diffOp_1D (order : ℕ) (bc : BC) (n : ℕ)
    (hacc : order ≤ 1 ∨ secondOrderAccepts bc = true)
    (hper : bc = .periodic → (order = 1 → 2 ≤ n) ∧ (2 ≤ order → 3 ≤ n)) :
    (toMatrix (K := K) (diffOp order bc n)).rank = n - nullity1D order bc := by
  have hcls := class_of_accepted hacc hper
  have hcols := diffOp_cols_of_class hcls
  rcases hcls with h | h | h
  · have := rank_of_ker_bot _ (ker_diffOp_trivial (K := K) h n)
    rw [(nullity1D_of_class (n := n)).1 h, Nat.sub_zero, this, hcols]
  · rw [(nullity1D_of_class (n := n)).2.1 h]
    rcases Nat.lt_or_ge n 1 with hn | hn
    · have := Matrix.rank_le_width (toMatrix (K := K) (diffOp order bc n))
      omega
    · have := rank_add_of_ker_span _ _ (genConst_li (K := K) (by rw [hcols]; exact hn)) (ker_diffOp_const h)
      omega
  · rw [(nullity1D_of_class (n := n)).2.2 h]
    rcases Nat.lt_or_ge n 2 with hn | hn
    · have hr : (diffOp order bc n).rows = 0 := by
        obtain ⟨h2, rfl⟩ := h
        obtain ⟨k, rfl⟩ : ∃ k, order = k + 2 := ⟨order - 2, by omega⟩
        show n - 2 = 0
        omega
      have := Matrix.rank_le_height (toMatrix (K := K) (diffOp order bc n))
      omega
    · have := rank_add_of_ker_span _ _ (genAffine_li (K := K) (by rw [hcols]; exact hn)) (ker_diffOp_affine h n)
      omega

example : (toMatrix (K := ℚ) (diffOp 2 .neumann 9)).rank = 7 :=
  rank_diffOp_1D 2 .neumann 9 (Or.inr rfl) (by simp)

end kernels

section precision1D
variable {K : Type*} [Field K] [LinearOrder K] [IsStrictOrderedRing K]

/-- **Rank of every 1-D precision, every size:** `rank (DᵀD) = n - nullity1D order bc` — the value
    GMRF's `_rank` has to equal for its `logpdf` normalisation to be that of its precision. -/
theorem rank_precision_1D (order : ℕ) (bc : BC) (n : ℕ)
    (hacc : order ≤ 1 ∨ secondOrderAccepts bc = true)
    (hper : bc = .periodic → (order = 1 → 2 ≤ n) ∧ (2 ≤ order → 3 ≤ n)) :
    (precMatrix (K := K) (diffOp order bc n)).rank
      = n - nullity1D order bc := by
  rw [rank_precision_eq, rank_diffOp_1D order bc n hacc hper]

example : (precMatrix (K := ℝ) (diffOp 1 .periodic 6)).rank = 5 :=
  rank_precision_1D 1 .periodic 6 (Or.inl (le_refl 1)) (by simp)

/-- **Nullity of every 1-D precision (`n ≥ 2`):** `dim ker (DᵀD) = nullity1D order bc`, with the
    explicit bases of `ker_diffOp_*` (rank–nullity: `rank + nullity = n`). -/
theorem finrank_ker_precision_1D (order : ℕ) (bc : BC) (n : ℕ) (hn : 2 ≤ n)
    (hacc : order ≤ 1 ∨ secondOrderAccepts bc = true)
    (hper : bc = .periodic → (order = 1 → 2 ≤ n) ∧ (2 ≤ order → 3 ≤ n)) :
    Module.finrank K (LinearMap.ker (precMatrix (K := K) (diffOp order bc n)).mulVecLin)
      = nullity1D order bc := by
  have hcols := diffOp_cols_of_class (class_of_accepted hacc hper)
  have h1 := LinearMap.finrank_range_add_finrank_ker (precMatrix (K := K) (diffOp order bc n)).mulVecLin
  have h2 := rank_precision_1D (K := K) order bc n hacc hper
  unfold Matrix.rank at h2
  rw [h2, Module.finrank_fin_fun] at h1
  have h3 : nullity1D order bc ≤ 2 := by
    unfold nullity1D; split <;> omega
  omega

example : Module.finrank ℚ (LinearMap.ker
    (precMatrix (K := ℚ) (diffOp 2 .neumann 6)).mulVecLin) = 2 :=
  finrank_ker_precision_1D 2 .neumann 6 (by norm_num) (Or.inr rfl) (by simp)

/-- **GMRF's declared rank versus `Matrix.rank` of its precision (1-D, `n ≥ 3`):**
    `declaredRank bc n = rank P` holds **exactly** for zero bc (any order), order 1 with
    periodic/Neumann, and order ≥ 2 with periodic; every other accepted combination declares a wrong
    rank. -/
theorem declaredRank_eq_rank_iff (order : ℕ) (bc : BC) (n : ℕ) (hn : 3 ≤ n)
    (hacc : order ≤ 1 ∨ secondOrderAccepts bc = true) :
    declaredRank bc n = (precMatrix (K := K) (diffOp order bc n)).rank
      ↔ (bc = .zero ∨ (order = 1 ∧ (bc = .periodic ∨ bc = .neumann))
          ∨ (2 ≤ order ∧ bc = .periodic)) := by
  rw [rank_precision_1D order bc n hacc (fun _ => ⟨fun _ => by omega, fun _ => hn⟩)]
  exact declaredRank_eq_iff order bc n (by omega)

example : declaredRank .neumann 8
    = (precMatrix (K := ℝ) (diffOp 1 .neumann 8)).rank :=
  (declaredRank_eq_rank_iff 1 .neumann 8 (by norm_num) (Or.inl (le_refl 1))).2 (by simp)

/-- **Known finding, order 0 with periodic/Neumann, every `n ≥ 1`, as a rank statement:** the
    precision has full rank `n`, one more than GMRF declares. -/
theorem declaredRank_deficit_order0 (bc : BC) (hbc : bc = .periodic ∨ bc = .neumann)
    (n : ℕ) (hn : 1 ≤ n) :
    (precMatrix (K := K) (diffOp 0 bc n)).rank = n
      ∧ (precMatrix (K := K) (diffOp 0 bc n)).rank
          = declaredRank bc n + 1 := by
  have h := rank_precision_1D (K := K) 0 bc n (Or.inl (Nat.zero_le 1))
    (fun _ => ⟨fun h => absurd h (by decide), fun h => absurd h (by decide)⟩)
  have h0 : nullity1D 0 bc = 0 := by cases bc <;> rfl
  rw [h0, Nat.sub_zero] at h
  refine ⟨h, ?_⟩
  rw [h]
  rcases hbc with rfl | rfl <;> simp [declaredRank] <;> omega

example : (precMatrix (K := ℝ) (diffOp 0 .periodic 5)).rank
    = declaredRank .periodic 5 + 1 :=
  (declaredRank_deficit_order0 .periodic (Or.inl rfl) 5 (by norm_num)).2

/-- **Known finding, order 2 with Neumann, every `n ≥ 2`, as a rank statement:** the precision has
    rank `n - 2`, one less than GMRF declares (so `_logdet` sums the log of a zero eigenvalue). -/
theorem declaredRank_excess_order2_neumann (n : ℕ) (hn : 2 ≤ n) :
    (precMatrix (K := K) (diffOp 2 .neumann n)).rank = n - 2
      ∧ declaredRank .neumann n
          = (precMatrix (K := K) (diffOp 2 .neumann n)).rank + 1 := by
  have h := rank_precision_1D (K := K) 2 .neumann n (Or.inr rfl) (by simp)
  have h0 : nullity1D 2 .neumann = 2 := rfl
  rw [h0] at h
  refine ⟨h, ?_⟩
  rw [h]; simp [declaredRank]; omega

example : declaredRank .neumann 6
    = (precMatrix (K := ℝ) (diffOp 2 .neumann 6)).rank + 1 :=
  (declaredRank_excess_order2_neumann 6 (by norm_num)).2

end precision1D

end CuqiVerif.C20
