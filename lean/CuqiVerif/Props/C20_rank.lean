import CuqiVerif.Proofs.C20_rank
import Mathlib.Data.Real.Basic
import Mathlib.Analysis.Matrix.PosDef
import Mathlib.Algebra.Order.Star.Real
import Mathlib.Analysis.SpecialFunctions.Log.Basic
import Mathlib.Analysis.SpecialFunctions.Trigonometric.Basic

/-!
# C20 — rank theorems: the null spaces as linear-algebra invariants

`toMatrix M : Matrix (Fin M.rows) (Fin M.cols) K` (defined in `Proofs/C20_rank.lean`) is the model
matrix `M : FMat` of `Model/C20.lean` — the very definition the driver executes — with its integer
entries cast into the field `K` (`ℚ`, `ℝ`, …).  The theorems of `Props/C20.lean` describe null
spaces by explicit parametrisations of vectors `ℕ → K`; here they are restated with Mathlib's
`LinearMap.ker`, `Submodule.span`, `Module.finrank` and `Matrix.rank`, with an explicit basis of
each kernel, and the rank GMRF declares is compared with `Matrix.rank` of the precision.

Classes (defined in `Proofs/C20_rank.lean`): `KerTrivial order bc` — order 0 (any bc), order 1 with
zero/backward/none, order ≥ 2 with zero; `KerConst order bc n` — order 1 periodic (`n ≥ 2`), order 1
Neumann, order ≥ 2 periodic (`n ≥ 3`); `KerAffine order bc` — order ≥ 2 Neumann.
Generators: `genConst m = ![1]`, `genAffine m = ![1, i ↦ i]`,
`genBilinear n m = ![1, j ↦ j % n, j ↦ j / n, j ↦ (j / n)·(j % n)]`.
-/
open Finset

namespace CuqiVerif.C20

/-! ## 0. The bridge to Mathlib matrices -/

section bridge
variable {K : Type*} [Field K]

/-- **`mulVec` of the Mathlib matrix is the `apply` of `Props/C20.lean`:** all stencil theorems
    (`*_apply`) are statements about `(toMatrix M).mulVec`, the zero-extension `ext0 v` of a
    `Fin`-indexed vector being what `apply` reads. -/
theorem toMatrix_mulVec (M : FMat) (v : Fin M.cols → K) (i : Fin M.rows) :
    (toMatrix M).mulVec v i = apply M (ext0 v) i :=
  toMatrix_mulVec_apply M v i

example : (toMatrix (K := ℚ) (firstOrder .neumann 3)).mulVec
    (restr _ fun j => ((j : ℚ) + 1) ^ 2) ⟨1, by decide⟩ = 5 := by
  have h3 : (firstOrder .neumann 3).cols = 3 := rfl
  rw [toMatrix_mulVec, firstOrder_neumann_apply, if_pos (by norm_num), if_pos (by norm_num),
    ext0_restr _ (by rw [h3]; norm_num), ext0_restr _ (by rw [h3]; norm_num)]
  norm_num

/-- **The precision as a Mathlib matrix is `Dᵀ D`** (`PrecisionFiniteDifference._create_prec_matrix`:
    `self._diff_op.T @ self._diff_op`): the model's `gram` (a `List.range … foldl`) cast to
    `Matrix` is the Mathlib product of the transpose with the matrix. -/
theorem toMatrix_gram (D : FMat) :
    (precMatrix D : Matrix (Fin D.cols) (Fin D.cols) K) = toMatrix (gram D)
      ∧ (precMatrix D : Matrix (Fin D.cols) (Fin D.cols) K)
          = (toMatrix D).transpose * toMatrix D := by
  refine ⟨rfl, ?_⟩
  ext i j
  rw [Matrix.mul_apply]
  simp only [precMatrix, toMatrix, Matrix.transpose_apply, gram_entry]
  push_cast
  exact (Fin.sum_univ_eq_sum_range (fun k => ((D.e k i : ℤ) : K) * ((D.e k j : ℤ) : K)) D.rows).symm

example : (precMatrix (secondOrder .periodic 5) : Matrix (Fin 5) (Fin 5) ℚ)
    = (toMatrix (secondOrder .periodic 5)).transpose * toMatrix (secondOrder .periodic 5) :=
  (toMatrix_gram _).2

end bridge

section ordered
variable {K : Type*} [Field K] [LinearOrder K] [IsStrictOrderedRing K]

/-- **The precision and the operator have the same kernel** (as submodules of `Kⁿ`), any `D`. -/
theorem ker_precision_eq (D : FMat) :
    LinearMap.ker (precMatrix (K := K) D).mulVecLin
      = LinearMap.ker (toMatrix (K := K) D).mulVecLin := by
  rw [(toMatrix_gram D).2, Matrix.ker_mulVecLin_transpose_mul_self]

example : LinearMap.ker (precMatrix (K := ℚ) (diffOp 2 .neumann 6)).mulVecLin
    = LinearMap.ker (toMatrix (K := ℚ) (diffOp 2 .neumann 6)).mulVecLin :=
  ker_precision_eq _

/-- **`rank (DᵀD) = rank D`:** the rank of the precision GMRF uses is the rank of its difference
    operator (any `D`, any shape). -/
theorem rank_precision_eq (D : FMat) :
    (precMatrix (K := K) D).rank = (toMatrix (K := K) D).rank := by
  rw [(toMatrix_gram D).2, Matrix.rank_transpose_mul_self]

example : (precMatrix (K := ℚ) (diffOp2D 2 .neumann 4)).rank
    = (toMatrix (K := ℚ) (diffOp2D 2 .neumann 4)).rank :=
  rank_precision_eq _

end ordered

/-! ## 1. 1-D: kernel, explicit basis, rank — every size `n` -/

section kernels
variable {K : Type*} [Field K] [CharZero K]

omit [CharZero K] in
/-- **The generators are linearly independent** (so each family below is a *basis* of the kernel it
    spans): the constant vector for `m ≥ 1`; constant and ramp for `m ≥ 2`; `1, c, a, a·c` on the
    `n × n` image for `n ≥ 2`. -/
theorem generators_linearIndependent :
    (∀ m, 1 ≤ m → LinearIndependent K (genConst (K := K) m))
      ∧ (∀ m, 2 ≤ m → LinearIndependent K (genAffine (K := K) m))
      ∧ (∀ n, 2 ≤ n → LinearIndependent K (genBilinear (K := K) n (n * n))) :=
  ⟨fun _ h => genConst_li h, fun _ h => genAffine_li h, fun _ h => genBilinear_li h⟩

example : LinearIndependent ℚ (genAffine (K := ℚ) 5) :=
  generators_linearIndependent.2.1 5 (by norm_num)

omit [CharZero K] in
/-- **Kernel, trivial class** (order 0 with any `bc`; order 1 with zero/backward/none; order ≥ 2 with
    zero), every `n`: `ker D = ⊥`. -/
theorem ker_diffOp_trivial {order : ℕ} {bc : BC} (h : KerTrivial order bc) (n : ℕ) :
    LinearMap.ker (toMatrix (K := K) (diffOp order bc n)).mulVecLin = ⊥ :=
  ker_eq_bot_of_null _ (diffOp_null_trivial h n)

example : LinearMap.ker (toMatrix (K := ℚ) (diffOp 2 .zero 7)).mulVecLin = ⊥ :=
  ker_diffOp_trivial (Or.inr (Or.inr ⟨le_refl 2, rfl⟩)) 7

/-- **Kernel, constants class** (order 1 periodic `n ≥ 2`; order 1 Neumann; order ≥ 2 periodic
    `n ≥ 3`): `ker D = span {1}`. -/
theorem ker_diffOp_const {order : ℕ} {bc : BC} {n : ℕ} (h : KerConst order bc n) :
    LinearMap.ker (toMatrix (K := K) (diffOp order bc n)).mulVecLin
      = Submodule.span K (Set.range (genConst (K := K) (diffOp order bc n).cols)) :=
  ker_eq_span_const_of_null _ (diffOp_null_const h)

example : LinearMap.ker (toMatrix (K := ℚ) (diffOp 2 .periodic 7)).mulVecLin
    = Submodule.span ℚ (Set.range (genConst (K := ℚ) 7)) :=
  ker_diffOp_const (Or.inr (Or.inr ⟨le_refl 2, rfl, by norm_num⟩))

omit [CharZero K] in
/-- **Kernel, affine class** (order ≥ 2 Neumann), every `n`: `ker D = span {1, i ↦ i}` — two
    independent null vectors for `n ≥ 2`, where GMRF assumes one. -/
theorem ker_diffOp_affine {order : ℕ} {bc : BC} (h : KerAffine order bc) (n : ℕ) :
    LinearMap.ker (toMatrix (K := K) (diffOp order bc n)).mulVecLin
      = Submodule.span K (Set.range (genAffine (K := K) (diffOp order bc n).cols)) :=
  ker_eq_span_affine_of_null _ (diffOp_null_affine h n)

example : LinearMap.ker (toMatrix (K := ℚ) (diffOp 2 .neumann 7)).mulVecLin
    = Submodule.span ℚ (Set.range (genAffine (K := ℚ) 7)) :=
  ker_diffOp_affine ⟨le_refl 2, rfl⟩ 7

/-- the kernel of the precision GMRF uses, as a span of explicit vectors -/
example : LinearMap.ker (precMatrix (K := ℚ) (diffOp 2 .neumann 6)).mulVecLin
    = Submodule.span ℚ (Set.range (genAffine (K := ℚ) 6)) :=
  (ker_precision_eq _).trans (ker_diffOp_affine ⟨le_refl 2, rfl⟩ 6)

/-- **Rank of every 1-D operator, every size:** `rank D = n - nullity1D order bc`, for every
    combination the code accepts (`SecondOrderFiniteDifference` raises for backward/none) and, for
    periodic, the sizes where the boundary patches do not collide (`n ≥ 2` / `n ≥ 3`). -/
theorem rank_diffOp_1D (order : ℕ) (bc : BC) (n : ℕ)
    (hacc : order ≤ 1 ∨ secondOrderAccepts bc = true)
    (hper : bc = .periodic → (order = 1 → 2 ≤ n) ∧ (2 ≤ order → 3 ≤ n)) :
    (toMatrix (K := K) (diffOp order bc n)).rank = n - nullity1D order bc := by
  have hcls := class_of_accepted hacc hper
  have hcols := diffOp_cols_of_class hcls
  rcases hcls with h | h | h
  · have := rank_of_ker_bot _ (ker_diffOp_trivial (K := K) h n)
    rw [(nullity1D_of_class (n := n)).1 h, Nat.sub_zero, this, hcols]
  · rw [(nullity1D_of_class (n := n)).2.1 h]
    rcases Nat.lt_or_ge n 1 with hn | hn
    · have := Matrix.rank_le_width (toMatrix (K := K) (diffOp order bc n))
      omega
    · have := rank_add_of_ker_span _ _ (genConst_li (K := K) (by rw [hcols]; exact hn)) (ker_diffOp_const h)
      omega
  · rw [(nullity1D_of_class (n := n)).2.2 h]
    rcases Nat.lt_or_ge n 2 with hn | hn
    · have hr : (diffOp order bc n).rows = 0 := by
        obtain ⟨h2, rfl⟩ := h
        obtain ⟨k, rfl⟩ : ∃ k, order = k + 2 := ⟨order - 2, by omega⟩
        show n - 2 = 0
        omega
      have := Matrix.rank_le_height (toMatrix (K := K) (diffOp order bc n))
      omega
    · have := rank_add_of_ker_span _ _ (genAffine_li (K := K) (by rw [hcols]; exact hn)) (ker_diffOp_affine h n)
      omega

example : (toMatrix (K := ℚ) (diffOp 2 .neumann 9)).rank = 7 :=
  rank_diffOp_1D 2 .neumann 9 (Or.inr rfl) (by simp)

end kernels

section precision1D
variable {K : Type*} [Field K] [LinearOrder K] [IsStrictOrderedRing K]

/-- **Rank of every 1-D precision, every size:** `rank (DᵀD) = n - nullity1D order bc` — the value
    GMRF's `_rank` has to equal for its `logpdf` normalisation to be that of its precision. -/
theorem rank_precision_1D (order : ℕ) (bc : BC) (n : ℕ)
    (hacc : order ≤ 1 ∨ secondOrderAccepts bc = true)
    (hper : bc = .periodic → (order = 1 → 2 ≤ n) ∧ (2 ≤ order → 3 ≤ n)) :
    (precMatrix (K := K) (diffOp order bc n)).rank
      = n - nullity1D order bc := by
  rw [rank_precision_eq, rank_diffOp_1D order bc n hacc hper]

example : (precMatrix (K := ℝ) (diffOp 1 .periodic 6)).rank = 5 :=
  rank_precision_1D 1 .periodic 6 (Or.inl (le_refl 1)) (by simp)

/-- **Nullity of every 1-D precision (`n ≥ 2`):** `dim ker (DᵀD) = nullity1D order bc`, with the
    explicit bases of `ker_diffOp_*` (rank–nullity: `rank + nullity = n`). -/
theorem finrank_ker_precision_1D (order : ℕ) (bc : BC) (n : ℕ) (hn : 2 ≤ n)
    (hacc : order ≤ 1 ∨ secondOrderAccepts bc = true)
    (hper : bc = .periodic → (order = 1 → 2 ≤ n) ∧ (2 ≤ order → 3 ≤ n)) :
    Module.finrank K (LinearMap.ker (precMatrix (K := K) (diffOp order bc n)).mulVecLin)
      = nullity1D order bc := by
  have hcols := diffOp_cols_of_class (class_of_accepted hacc hper)
  have h1 := LinearMap.finrank_range_add_finrank_ker (precMatrix (K := K) (diffOp order bc n)).mulVecLin
  have h2 := rank_precision_1D (K := K) order bc n hacc hper
  unfold Matrix.rank at h2
  rw [h2, Module.finrank_fin_fun] at h1
  have h3 : nullity1D order bc ≤ 2 := by
    unfold nullity1D; split <;> omega
  omega

example : Module.finrank ℚ (LinearMap.ker
    (precMatrix (K := ℚ) (diffOp 2 .neumann 6)).mulVecLin) = 2 :=
  finrank_ker_precision_1D 2 .neumann 6 (by norm_num) (Or.inr rfl) (by simp)

/-- **GMRF's declared rank versus `Matrix.rank` of its precision (1-D, `n ≥ 2`; `n ≥ 3` for
    periodic of order ≥ 2, cf. `rank_precision_periodic_n2`):**
    `declaredRank bc n = rank P` holds **exactly** for zero bc (any order), order 1 with
    periodic/Neumann, and order ≥ 2 with periodic; every other accepted combination declares a wrong
    rank. -/
theorem declaredRank_eq_rank_iff (order : ℕ) (bc : BC) (n : ℕ) (hn : 2 ≤ n)
    (hacc : order ≤ 1 ∨ secondOrderAccepts bc = true)
    (hn3 : 2 ≤ order → bc = .periodic → 3 ≤ n) :
    declaredRank bc n = (precMatrix (K := K) (diffOp order bc n)).rank
      ↔ (bc = .zero ∨ (order = 1 ∧ (bc = .periodic ∨ bc = .neumann))
          ∨ (2 ≤ order ∧ bc = .periodic)) := by
  rw [rank_precision_1D order bc n hacc (fun hb => ⟨fun _ => hn, fun ho => hn3 ho hb⟩)]
  exact declaredRank_eq_iff order bc n hn

example : declaredRank .neumann 8
    = (precMatrix (K := ℝ) (diffOp 1 .neumann 8)).rank :=
  (declaredRank_eq_rank_iff 1 .neumann 8 (by norm_num) (Or.inl (le_refl 1)) (by simp)).2 (by simp)

/-- **Known finding, order 0 with periodic/Neumann, every `n ≥ 1`, as a rank statement:** the
    precision has full rank `n`, one more than GMRF declares. -/
theorem declaredRank_deficit_order0 (bc : BC) (hbc : bc = .periodic ∨ bc = .neumann)
    (n : ℕ) (hn : 1 ≤ n) :
    (precMatrix (K := K) (diffOp 0 bc n)).rank = n
      ∧ (precMatrix (K := K) (diffOp 0 bc n)).rank
          = declaredRank bc n + 1 := by
  have h := rank_precision_1D (K := K) 0 bc n (Or.inl (Nat.zero_le 1))
    (fun _ => ⟨fun h => absurd h (by decide), fun h => absurd h (by decide)⟩)
  have h0 : nullity1D 0 bc = 0 := by cases bc <;> rfl
  rw [h0, Nat.sub_zero] at h
  refine ⟨h, ?_⟩
  rw [h]
  rcases hbc with rfl | rfl <;> simp [declaredRank] <;> omega

example : (precMatrix (K := ℝ) (diffOp 0 .periodic 5)).rank
    = declaredRank .periodic 5 + 1 :=
  (declaredRank_deficit_order0 .periodic (Or.inl rfl) 5 (by norm_num)).2

/-- **Known finding, order 2 with Neumann, every `n ≥ 2`, as a rank statement:** the precision has
    rank `n - 2`, one less than GMRF declares (so `_logdet` sums the log of a zero eigenvalue). -/
theorem declaredRank_excess_order2_neumann (n : ℕ) (hn : 2 ≤ n) :
    (precMatrix (K := K) (diffOp 2 .neumann n)).rank = n - 2
      ∧ declaredRank .neumann n
          = (precMatrix (K := K) (diffOp 2 .neumann n)).rank + 1 := by
  have h := rank_precision_1D (K := K) 2 .neumann n (Or.inr rfl) (by simp)
  have h0 : nullity1D 2 .neumann = 2 := rfl
  rw [h0] at h
  refine ⟨h, ?_⟩
  rw [h]; simp [declaredRank]; omega

example : declaredRank .neumann 6
    = (precMatrix (K := ℝ) (diffOp 2 .neumann 6)).rank + 1 :=
  (declaredRank_excess_order2_neumann 6 (by norm_num)).2

/-- **Known finding, order 2 periodic at the degenerate size `n = 2`, as a rank statement:** the
    boundary patches overwrite each other, the precision is `[[10,-8],[-8,10]]` (determinant 36) and
    has full rank 2, while GMRF declares rank 1 (`rank_precision_1D` needs `n ≥ 3` for exactly this
    reason). -/
theorem rank_precision_periodic_n2 :
    (precMatrix (K := K) (diffOp 2 .periodic 2)) = !![10, -8; -8, 10]
      ∧ (precMatrix (K := K) (diffOp 2 .periodic 2)).rank = 2
      ∧ declaredRank .periodic 2 = 1 := by
  have hM : (precMatrix (K := K) (diffOp 2 .periodic 2)) = !![10, -8; -8, 10] := by
    ext i j
    fin_cases i <;> fin_cases j
    · show (((gram (diffOp 2 .periodic 2)).e 0 0 : ℤ) : K) = 10
      rw [show (gram (diffOp 2 .periodic 2)).e 0 0 = 10 by decide]; norm_num
    · show (((gram (diffOp 2 .periodic 2)).e 0 1 : ℤ) : K) = -8
      rw [show (gram (diffOp 2 .periodic 2)).e 0 1 = -8 by decide]; norm_num
    · show (((gram (diffOp 2 .periodic 2)).e 1 0 : ℤ) : K) = -8
      rw [show (gram (diffOp 2 .periodic 2)).e 1 0 = -8 by decide]; norm_num
    · show (((gram (diffOp 2 .periodic 2)).e 1 1 : ℤ) : K) = 10
      rw [show (gram (diffOp 2 .periodic 2)).e 1 1 = 10 by decide]; norm_num
  have hdet : (!![10, -8; -8, 10] : Matrix (Fin 2) (Fin 2) K).det ≠ 0 := by
    rw [Matrix.det_fin_two_of]; norm_num
  have hr : (!![10, -8; -8, 10] : Matrix (Fin 2) (Fin 2) K).rank = 2 := by
    rw [Matrix.rank_of_det_ne_zero hdet, Fintype.card_fin]
  exact ⟨hM, (congrArg Matrix.rank hM).trans hr, rfl⟩

example : (precMatrix (K := ℝ) (diffOp 2 .periodic 2)).rank = declaredRank .periodic 2 + 1 := by
  rw [(rank_precision_periodic_n2 (K := ℝ)).2.1, (rank_precision_periodic_n2 (K := ℝ)).2.2]

end precision1D

/-! ## 2. 2-D (`n × n` images, `n²` pixels `j = a·n + c`): kernel, explicit basis, rank -/

section kernels2D
variable {K : Type*} [Field K] [CharZero K]

omit [CharZero K] in
/-- **2-D kernel, trivial class** (zero bc of any order ≥ 1; order 0 with any bc; also 2-D
    backward/none of order 1): `ker = ⊥`, every `n`. -/
theorem ker_diffOp2D_trivial {order : ℕ} {bc : BC} (h : KerTrivial order bc) (n : ℕ) :
    LinearMap.ker (toMatrix (K := K) (diffOp2D order bc n)).mulVecLin = ⊥ :=
  ker_eq_bot_of_null _ (diffOp2D_null_trivial h n)

example : LinearMap.ker (toMatrix (K := ℚ) (diffOp2D 1 .zero 5)).mulVecLin = ⊥ :=
  ker_diffOp2D_trivial (Or.inr (Or.inl ⟨rfl, Or.inl rfl⟩)) 5

/-- **2-D kernel, constants class** (order 1 Neumann; order 1 periodic `n ≥ 2`; order ≥ 2 periodic
    `n ≥ 3`): `ker = span {1}` — the constant images. -/
theorem ker_diffOp2D_const {order : ℕ} {bc : BC} {n : ℕ} (h : KerConst order bc n) :
    LinearMap.ker (toMatrix (K := K) (diffOp2D order bc n)).mulVecLin
      = Submodule.span K (Set.range (genConst (K := K) (diffOp2D order bc n).cols)) :=
  ker_eq_span_const_of_null _ (diffOp2D_null_const h)

example : LinearMap.ker (toMatrix (K := ℚ) (diffOp2D 1 .neumann 5)).mulVecLin
    = Submodule.span ℚ (Set.range (genConst (K := ℚ) (5 * 5))) :=
  ker_diffOp2D_const (Or.inr (Or.inl ⟨rfl, rfl⟩))

omit [CharZero K] in
/-- **2-D kernel, order ≥ 2 Neumann (`n ≥ 2`):** `ker = span {1, c, a, a·c}` — the bilinear images,
    four independent null vectors where GMRF assumes one. -/
theorem ker_diffOp2D_bilinear {order : ℕ} {bc : BC} (h : KerAffine order bc) (n : ℕ) (hn : 2 ≤ n) :
    LinearMap.ker (toMatrix (K := K) (diffOp2D order bc n)).mulVecLin
      = Submodule.span K (Set.range (genBilinear (K := K) n (diffOp2D order bc n).cols)) :=
  ker_eq_span_bilinear_of_null _ n hn (diffOp2D_cols_of_class (Or.inr (Or.inr h)))
    (diffOp2D_null_bilinear h n)

example : LinearMap.ker (toMatrix (K := ℚ) (diffOp2D 2 .neumann 5)).mulVecLin
    = Submodule.span ℚ (Set.range (genBilinear (K := ℚ) 5 (5 * 5))) :=
  ker_diffOp2D_bilinear ⟨le_refl 2, rfl⟩ 5 (by norm_num)

/-- **Rank of every 2-D operator, every `n × n`:** `rank D₂ = n² - (nullity1D order bc)²`
    (constants: nullity 1; order 2 Neumann: nullity 4; zero bc / order 0: full rank). -/
theorem rank_diffOp2D (order : ℕ) (bc : BC) (n : ℕ)
    (hacc : order ≤ 1 ∨ secondOrderAccepts bc = true)
    (hper : bc = .periodic → (order = 1 → 2 ≤ n) ∧ (2 ≤ order → 3 ≤ n)) :
    (toMatrix (K := K) (diffOp2D order bc n)).rank = n * n - nullity1D order bc ^ 2 := by
  have hcls := class_of_accepted hacc hper
  have hcols := diffOp2D_cols_of_class hcls
  rcases hcls with h | h | h
  · have := rank_of_ker_bot _ (ker_diffOp2D_trivial (K := K) h n)
    rw [(nullity1D_of_class (n := n)).1 h, this, hcols]; rfl
  · rw [(nullity1D_of_class (n := n)).2.1 h]
    rcases Nat.lt_or_ge n 1 with hn | hn
    · have := Matrix.rank_le_width (toMatrix (K := K) (diffOp2D order bc n))
      have h0 : n = 0 := by omega
      subst h0
      omega
    · have hnn : 1 ≤ n * n := Nat.mul_le_mul hn hn
      have := rank_add_of_ker_span _ _ (genConst_li (K := K) (by rw [hcols]; exact hnn))
        (ker_diffOp2D_const h)
      omega
  · rw [(nullity1D_of_class (n := n)).2.2 h]
    rcases Nat.lt_or_ge n 2 with hn | hn
    · have hr : (diffOp2D order bc n).rows = 0 := by
        obtain ⟨h2, rfl⟩ := h
        obtain ⟨k, rfl⟩ : ∃ k, order = k + 2 := ⟨order - 2, by omega⟩
        show n * (n - 2) + (n - 2) * n = 0
        have : n - 2 = 0 := by omega
        rw [this]; simp
      have := Matrix.rank_le_height (toMatrix (K := K) (diffOp2D order bc n))
      have hnn : n * n ≤ 1 := by
        have : n = 0 ∨ n = 1 := by omega
        rcases this with rfl | rfl <;> norm_num
      omega
    · have := rank_add_of_ker_span _ _
        (show LinearIndependent K (genBilinear (K := K) n (diffOp2D order bc n).cols) by
          rw [hcols]; exact genBilinear_li hn)
        (ker_diffOp2D_bilinear h n hn)
      omega

example : (toMatrix (K := ℚ) (diffOp2D 2 .neumann 5)).rank = 21 :=
  rank_diffOp2D 2 .neumann 5 (Or.inr rfl) (by simp)

end kernels2D

section precision2D
variable {K : Type*} [Field K] [LinearOrder K] [IsStrictOrderedRing K]

/-- **Rank of every 2-D precision:** `rank (D₂ᵀD₂) = n² - (nullity1D order bc)²`. -/
theorem rank_precision2D (order : ℕ) (bc : BC) (n : ℕ)
    (hacc : order ≤ 1 ∨ secondOrderAccepts bc = true)
    (hper : bc = .periodic → (order = 1 → 2 ≤ n) ∧ (2 ≤ order → 3 ≤ n)) :
    (precMatrix (K := K) (diffOp2D order bc n)).rank = n * n - nullity1D order bc ^ 2 := by
  rw [rank_precision_eq, rank_diffOp2D order bc n hacc hper]

example : (precMatrix (K := ℝ) (diffOp2D 1 .periodic 4)).rank = 15 :=
  rank_precision2D 1 .periodic 4 (Or.inl (le_refl 1)) (by simp)

/-- **Nullity of every 2-D precision (`n ≥ 2`):** `dim ker (D₂ᵀD₂) = (nullity1D order bc)²` —
    `0`, `1` (constant images) or `4` (bilinear images), with the bases of `ker_diffOp2D_*`. -/
theorem finrank_ker_precision2D (order : ℕ) (bc : BC) (n : ℕ) (hn : 2 ≤ n)
    (hacc : order ≤ 1 ∨ secondOrderAccepts bc = true)
    (hper : bc = .periodic → (order = 1 → 2 ≤ n) ∧ (2 ≤ order → 3 ≤ n)) :
    Module.finrank K (LinearMap.ker (precMatrix (K := K) (diffOp2D order bc n)).mulVecLin)
      = nullity1D order bc ^ 2 := by
  have hcols := diffOp2D_cols_of_class (class_of_accepted hacc hper)
  have h1 := LinearMap.finrank_range_add_finrank_ker
    (precMatrix (K := K) (diffOp2D order bc n)).mulVecLin
  have h2 := rank_precision2D (K := K) order bc n hacc hper
  unfold Matrix.rank at h2
  rw [h2, Module.finrank_fin_fun] at h1
  have h3 : nullity1D order bc ≤ 2 := by
    unfold nullity1D; split <;> omega
  have h4 : nullity1D order bc ^ 2 ≤ 2 ^ 2 := Nat.pow_le_pow_left h3 2
  have hnn : 4 ≤ n * n := Nat.mul_le_mul hn hn
  omega

example : Module.finrank ℚ (LinearMap.ker
    (precMatrix (K := ℚ) (diffOp2D 2 .neumann 5)).mulVecLin) = 4 :=
  finrank_ker_precision2D 2 .neumann 5 (by norm_num) (Or.inr rfl) (by simp)

/-- **GMRF's declared rank versus `Matrix.rank` of its 2-D precision (`n ≥ 2`; `n ≥ 3` for periodic
    of order ≥ 2):**
    `declaredRank bc n² = rank P₂` holds **exactly** for the same combinations as in 1-D: zero bc,
    order 1 periodic/Neumann, order ≥ 2 periodic. -/
theorem declaredRank_eq_rank2D_iff (order : ℕ) (bc : BC) (n : ℕ) (hn : 2 ≤ n)
    (hacc : order ≤ 1 ∨ secondOrderAccepts bc = true)
    (hn3 : 2 ≤ order → bc = .periodic → 3 ≤ n) :
    declaredRank bc (n * n) = (precMatrix (K := K) (diffOp2D order bc n)).rank
      ↔ (bc = .zero ∨ (order = 1 ∧ (bc = .periodic ∨ bc = .neumann))
          ∨ (2 ≤ order ∧ bc = .periodic)) := by
  rw [rank_precision2D order bc n hacc (fun hb => ⟨fun _ => hn, fun ho => hn3 ho hb⟩)]
  have hnn : 4 ≤ n * n := Nat.mul_le_mul hn hn
  match order with
  | 0 => cases bc <;> simp [declaredRank, nullity1D] <;> omega
  | 1 => cases bc <;> simp [declaredRank, nullity1D] <;> omega
  | k + 2 => cases bc <;> simp [declaredRank, nullity1D] <;> omega

example : declaredRank .periodic (4 * 4) = (precMatrix (K := ℝ) (diffOp2D 2 .periodic 4)).rank :=
  (declaredRank_eq_rank2D_iff 2 .periodic 4 (by norm_num) (Or.inr rfl) (by simp)).2 (by simp)

/-- **Known findings in 2-D as rank statements:** order 0 with periodic/Neumann (`n ≥ 1`): full
    rank `n²`, one more than declared; order 2 Neumann (`n ≥ 2`): rank `n² - 4`, three less than
    the declared `n² - 1`. -/
theorem declaredRank_wrong_2D (n : ℕ) :
    (∀ bc, bc = BC.periodic ∨ bc = BC.neumann → 1 ≤ n →
        (precMatrix (K := K) (diffOp2D 0 bc n)).rank = declaredRank bc (n * n) + 1)
      ∧ (2 ≤ n → (precMatrix (K := K) (diffOp2D 2 .neumann n)).rank = n * n - 4
          ∧ declaredRank .neumann (n * n)
              = (precMatrix (K := K) (diffOp2D 2 .neumann n)).rank + 3) := by
  constructor
  · intro bc hbc hn
    have hnn : 1 ≤ n * n := Nat.mul_le_mul hn hn
    rw [rank_precision2D 0 bc n (Or.inl (Nat.zero_le 1))
      (fun _ => ⟨fun h => absurd h (by decide), fun h => absurd h (by decide)⟩)]
    rcases hbc with rfl | rfl <;> simp [declaredRank, nullity1D] <;> omega
  · intro hn
    have hnn : 4 ≤ n * n := Nat.mul_le_mul hn hn
    rw [rank_precision2D 2 .neumann n (Or.inr rfl) (by simp)]
    simp [declaredRank, nullity1D]; omega

example : declaredRank .neumann (3 * 3)
    = (precMatrix (K := ℝ) (diffOp2D 2 .neumann 3)).rank + 3 :=
  ((declaredRank_wrong_2D 3).2 (by norm_num)).2

end precision2D

/-! ## 3. Division by the grid spacing (`Dmat/self._dx`, `Dmat/self._dx**2`)

The model file holds the integer stencils; the 1-D operators of the code divide them entrywise by
`dx` (order 1) or `dx²` (order 2).  `scaledMatrix M s` is that entrywise quotient over a field. -/

section scaling
variable {K : Type*} [Field K]

/-- `Dmat / s`, entrywise -/
def scaledMatrix (M : FMat) (s : K) : Matrix (Fin M.rows) (Fin M.cols) K :=
  fun i j => (M.e i j : K) / s

/-- `FirstOrderFiniteDifference(n, bc_type=bc, dx=dx)._matrix` in 1-D: `Dmat/self._dx` -/
def firstOrderScaled (bc : BC) (n : ℕ) (dx : K) : Matrix (Fin (firstOrder bc n).rows) (Fin (firstOrder bc n).cols) K :=
  scaledMatrix (firstOrder bc n) dx

/-- `SecondOrderFiniteDifference(n, bc_type=bc, dx=dx)._matrix` in 1-D: `Dmat/self._dx**2` -/
def secondOrderScaled (bc : BC) (n : ℕ) (dx : K) : Matrix (Fin (secondOrder bc n).rows) (Fin (secondOrder bc n).cols) K :=
  scaledMatrix (secondOrder bc n) (dx ^ 2)

/-- **The scaled operator is `s⁻¹ ·` the integer stencil matrix**, and for spacing 1 (the code's
    default `dx=None`) it is the stencil matrix itself. -/
theorem scaledMatrix_eq_smul (M : FMat) (s : K) :
    scaledMatrix M s = s⁻¹ • toMatrix (K := K) M ∧ scaledMatrix M (1 : K) = toMatrix M := by
  constructor
  · ext i j
    simp only [scaledMatrix, toMatrix, Matrix.smul_apply, smul_eq_mul]
    rw [div_eq_inv_mul]
  · ext i j
    simp only [scaledMatrix, toMatrix, div_one]

example : firstOrderScaled .zero 4 (1 : ℚ) = toMatrix (firstOrder .zero 4) :=
  (scaledMatrix_eq_smul _ (1 : ℚ)).2

/-- **Action of the scaled operator = stencil divided by the spacing factor**, every row. -/
theorem scaledMatrix_mulVec (M : FMat) (s : K) (v : Fin M.cols → K) (i : Fin M.rows) :
    (scaledMatrix M s).mulVec v i = apply M (ext0 v) i / s := by
  rw [(scaledMatrix_eq_smul M s).1, Matrix.smul_mulVec, Pi.smul_apply, toMatrix_mulVec,
    smul_eq_mul, div_eq_inv_mul]

example (v : Fin (firstOrder .none 3).cols → ℚ) (i : Fin (firstOrder .none 3).rows) :
    (scaledMatrix (firstOrder .none 3) (4 : ℚ)).mulVec v i = ext0 v i / 4 := by
  have hi : (i : ℕ) < 3 := i.2
  rw [scaledMatrix_mulVec, firstOrder_none_apply, if_pos hi]

/-- **`FirstOrderFiniteDifference` with spacing `dx`: `(D x)_i = stencil_i(x) / dx`** for every
    boundary condition, size and row (the stencils are the `firstOrder_*_apply` theorems). -/
theorem firstOrderScaled_mulVec (bc : BC) (n : ℕ) (dx : K) (v : Fin (firstOrder bc n).cols → K)
    (i : Fin (firstOrder bc n).rows) :
    (firstOrderScaled bc n dx).mulVec v i = apply (firstOrder bc n) (ext0 v) i / dx :=
  scaledMatrix_mulVec _ _ _ _

example (dx : ℚ) (v : Fin (firstOrder .neumann 5).cols → ℚ) (i : Fin (firstOrder .neumann 5).rows) :
    (firstOrderScaled .neumann 5 dx).mulVec v i = (ext0 v (i + 1) - ext0 v i) / dx := by
  have hi : (i : ℕ) < 4 := i.2
  rw [firstOrderScaled_mulVec, firstOrder_neumann_apply, if_pos (by omega), if_pos (by omega)]

/-- **`SecondOrderFiniteDifference` with spacing `dx`: `(D x)_i = stencil_i(x) / dx²`.** -/
theorem secondOrderScaled_mulVec (bc : BC) (n : ℕ) (dx : K) (v : Fin (secondOrder bc n).cols → K)
    (i : Fin (secondOrder bc n).rows) :
    (secondOrderScaled bc n dx).mulVec v i = apply (secondOrder bc n) (ext0 v) i / dx ^ 2 :=
  scaledMatrix_mulVec _ _ _ _

example (dx : ℚ) (v : Fin (secondOrder .neumann 5).cols → ℚ) (i : Fin (secondOrder .neumann 5).rows) :
    (secondOrderScaled .neumann 5 dx).mulVec v i
      = (-ext0 v i + 2 * ext0 v (i + 1) - ext0 v (i + 2)) / dx ^ 2 := by
  have hi : (i : ℕ) < 3 := i.2
  rw [secondOrderScaled_mulVec, secondOrder_neumann_apply, if_pos (by omega), if_pos (by omega),
    if_pos (by omega)]

/-- **The null space does not depend on the spacing** (`s ≠ 0`): the scaled operator has exactly
    the kernel of the integer stencil matrix. -/
theorem ker_scaledMatrix (M : FMat) {s : K} (hs : s ≠ 0) :
    LinearMap.ker (scaledMatrix M s).mulVecLin = LinearMap.ker (toMatrix (K := K) M).mulVecLin := by
  ext v
  simp only [LinearMap.mem_ker, Matrix.mulVecLin_apply]
  rw [(scaledMatrix_eq_smul M s).1, Matrix.smul_mulVec]
  exact smul_eq_zero_iff_right (inv_ne_zero hs)

example : LinearMap.ker (firstOrderScaled .neumann 6 (3 / 10 : ℚ)).mulVecLin
    = Submodule.span ℚ (Set.range (genConst (K := ℚ) 6)) :=
  (ker_scaledMatrix _ (by norm_num)).trans (ker_diffOp_const (order := 1) (Or.inr (Or.inl ⟨rfl, rfl⟩)))

/-- **The rank does not depend on the spacing** (`s ≠ 0`). -/
theorem rank_scaledMatrix (M : FMat) {s : K} (hs : s ≠ 0) :
    (scaledMatrix M s).rank = (toMatrix (K := K) M).rank := by
  rw [(scaledMatrix_eq_smul M s).1]
  exact Matrix.rank_smul_of_mem_nonZeroDivisors _ (mem_nonZeroDivisors_of_ne_zero (inv_ne_zero hs))

example : (scaledMatrix (diffOp2D 1 .zero 3) (7 : ℚ)).rank = (toMatrix (K := ℚ) (diffOp2D 1 .zero 3)).rank :=
  rank_scaledMatrix _ (by norm_num)

/-- **Rank of the 1-D operators with any spacing `dx ≠ 0`, every size:** as for `dx = 1`,
    `n - nullity1D order bc`. -/
theorem rank_scaled_1D [CharZero K] (bc : BC) (n : ℕ) {dx : K} (hdx : dx ≠ 0) :
    ((bc = .periodic → 2 ≤ n) → (firstOrderScaled bc n dx).rank = n - nullity1D 1 bc)
      ∧ (secondOrderAccepts bc = true → (bc = .periodic → 3 ≤ n) →
          (secondOrderScaled bc n dx).rank = n - nullity1D 2 bc) := by
  constructor
  · intro hper
    rw [firstOrderScaled, rank_scaledMatrix _ hdx]
    exact rank_diffOp_1D 1 bc n (Or.inl (le_refl 1))
      (fun h => ⟨fun _ => hper h, fun h2 => absurd h2 (by decide)⟩)
  · intro hacc hper
    rw [secondOrderScaled, rank_scaledMatrix _ (pow_ne_zero 2 hdx)]
    exact rank_diffOp_1D 2 bc n (Or.inr hacc)
      (fun h => ⟨fun h1 => absurd h1 (by decide), fun _ => hper h⟩)

example : (secondOrderScaled .neumann 8 (1 / 2 : ℚ)).rank = 6 :=
  (rank_scaled_1D .neumann 8 (by norm_num)).2 rfl (by simp)

/-- **Precision built from a scaled operator:** `(D/s)ᵀ(D/s) = s⁻² · DᵀD`. -/
theorem scaledMatrix_gram (D : FMat) (s : K) :
    (scaledMatrix D s).transpose * scaledMatrix D s = (s ^ 2)⁻¹ • precMatrix (K := K) D := by
  rw [(scaledMatrix_eq_smul D s).1, (toMatrix_gram D).2, Matrix.transpose_smul, Matrix.smul_mul,
    Matrix.mul_smul, smul_smul, pow_two, mul_inv]

example : (scaledMatrix (firstOrder .neumann 4) (2 : ℚ)).transpose
      * scaledMatrix (firstOrder .neumann 4) (2 : ℚ)
    = ((2 : ℚ) ^ 2)⁻¹ • precMatrix (firstOrder .neumann 4) :=
  scaledMatrix_gram _ _

end scaling

/-! ## 4. GMRF / LMRF / CMRF over `ℝ`

The evaluation code of the distributions is transcribed here (not in the model file):
`GMRF.logpdf` (`_gmrf.py`), `LMRF.logpdf` (`_lmrf.py`), `CMRF.logpdf` (`_cmrf.py`), with
`self._diff_op` / `self._prec_op` the model's operators. -/

section gmrf
open Matrix

/-- `xᵀ(AᵀA)x = (Ax)·(Ax)` -/
lemma quad_transpose_mul_self {m n : ℕ} (A : Matrix (Fin m) (Fin n) ℝ) (x : Fin n → ℝ) :
    x ⬝ᵥ ((Aᵀ * A).mulVec x) = (A.mulVec x) ⬝ᵥ (A.mulVec x) := by
  rw [← Matrix.mulVec_mulVec, Matrix.dotProduct_mulVec, Matrix.vecMul_transpose]

/-- **`xᵀ P x = ‖D x‖²` in Mathlib terms** (the precision is the one the driver prints). -/
theorem precMatrix_quadratic_form (D : FMat) (x : Fin D.cols → ℝ) :
    x ⬝ᵥ ((precMatrix D).mulVec x) = ∑ k, ((toMatrix D).mulVec x k) ^ 2 := by
  rw [(toMatrix_gram D).2, quad_transpose_mul_self]
  exact Finset.sum_congr rfl fun k _ => (pow_two _).symm

example : (restr _ fun j => ((j : ℝ) + 1) ^ 2) ⬝ᵥ
      ((precMatrix (firstOrder .neumann 3)).mulVec (restr _ fun j => ((j : ℝ) + 1) ^ 2))
    = ∑ k, ((toMatrix (firstOrder .neumann 3)).mulVec (restr _ fun j => ((j : ℝ) + 1) ^ 2) k) ^ 2 :=
  precMatrix_quadratic_form _ _

/-- **Certificate for `GMRF.sqrtprec` (`gmrf_sqrtprec_cert`):** for *any* matrix `R` with
    `RᵀR = δ·P` — the identity the harness checks on the implementation's `sqrtprec` —
    `xᵀ(δP)x = ‖Rx‖² = δ‖Dx‖²`: `R` whitens exactly the Gaussian with precision `δ·DᵀD`. -/
theorem gmrf_sqrtprec_cert (D : FMat) {r : ℕ} (R : Matrix (Fin r) (Fin D.cols) ℝ) (δ : ℝ)
    (hR : Rᵀ * R = δ • precMatrix D) (x : Fin D.cols → ℝ) :
    x ⬝ᵥ ((δ • precMatrix D).mulVec x) = (R.mulVec x) ⬝ᵥ (R.mulVec x)
      ∧ (R.mulVec x) ⬝ᵥ (R.mulVec x) = δ * ∑ k, ((toMatrix D).mulVec x k) ^ 2 := by
  have h1 : x ⬝ᵥ ((δ • precMatrix D).mulVec x) = (R.mulVec x) ⬝ᵥ (R.mulVec x) := by
    rw [← hR, quad_transpose_mul_self]
  refine ⟨h1, ?_⟩
  rw [← h1, Matrix.smul_mulVec, dotProduct_smul, smul_eq_mul, precMatrix_quadratic_form]

example (x : Fin (firstOrder .neumann 3).cols → ℝ) :
    (((2 : ℝ) • toMatrix (firstOrder .neumann 3)).mulVec x)
        ⬝ᵥ (((2 : ℝ) • toMatrix (firstOrder .neumann 3)).mulVec x)
      = 4 * ∑ k, ((toMatrix (firstOrder .neumann 3)).mulVec x k) ^ 2 := by
  refine (gmrf_sqrtprec_cert (firstOrder .neumann 3) _ 4 ?_ x).2
  rw [(toMatrix_gram _).2, Matrix.transpose_smul, Matrix.smul_mul, Matrix.mul_smul, smul_smul]
  norm_num

/-- `GMRF.logpdf(x)`:
    `0.5*(rank*(log(prec) - log(2π)) + logdet) - 0.5*(prec*((x-mean).T @ (P @ (x-mean))))`
    with `rank = self._rank`, `logdet = self._logdet`, `P = self._prec_op` (the model's `gram D`). -/
noncomputable def gmrfLogpdf (D : FMat) (rank : ℕ) (logdet δ : ℝ) (mean x : Fin D.cols → ℝ) : ℝ :=
  0.5 * ((rank : ℝ) * (Real.log δ - Real.log (2 * Real.pi)) + logdet)
    - 0.5 * (δ * ((x - mean) ⬝ᵥ ((precMatrix D).mulVec (x - mean))))

/-- `LMRF.logpdf(x)`: `len(Dx)*(-(log 2 + log scale)) - ‖Dx‖₁/scale`, `Dx = D @ (x - location)`. -/
noncomputable def lmrfLogpdf (D : FMat) (scale : ℝ) (loc x : Fin D.cols → ℝ) : ℝ :=
  (D.rows : ℝ) * (-(Real.log 2 + Real.log scale))
    - (∑ k, |(toMatrix D).mulVec (x - loc) k|) / scale

/-- `CMRF.logpdf(x)`: `-len(Dx)*log π + Σ (log scale - log(Dx² + scale²))`, `Dx = D @ (x - location)`. -/
noncomputable def cmrfLogpdf (D : FMat) (scale : ℝ) (loc x : Fin D.cols → ℝ) : ℝ :=
  -(D.rows : ℝ) * Real.log Real.pi
    + ∑ k, (Real.log scale - Real.log (((toMatrix D).mulVec (x - loc) k) ^ 2 + scale ^ 2))

/-- **`GMRF.logpdf` in terms of the operator (`mrf_uses_operator`, Gaussian part):**
    `logpdf(x) - logpdf(mean) = -δ/2 · ‖D (x - mean)‖²` for every operator of the model, every
    declared `rank`/`logdet` (they only enter the constant). -/
theorem gmrf_logpdf_sub_mean (D : FMat) (rank : ℕ) (logdet δ : ℝ) (mean x : Fin D.cols → ℝ) :
    gmrfLogpdf D rank logdet δ mean x - gmrfLogpdf D rank logdet δ mean mean
      = -δ / 2 * ∑ k, ((toMatrix D).mulVec (x - mean) k) ^ 2 := by
  unfold gmrfLogpdf
  rw [precMatrix_quadratic_form, precMatrix_quadratic_form, sub_self]
  simp only [Matrix.mulVec_zero, Pi.zero_apply]
  have h0 : ∑ _k : Fin D.rows, (0 : ℝ) ^ 2 = 0 := by simp
  rw [h0]; ring

example (x : Fin 4 → ℝ) :
    gmrfLogpdf (diffOp 1 .zero 4) 4 0 3 0 x - gmrfLogpdf (diffOp 1 .zero 4) 4 0 3 0 0
      = -3 / 2 * ∑ k, ((toMatrix (diffOp 1 .zero 4)).mulVec (x - 0) k) ^ 2 :=
  gmrf_logpdf_sub_mean _ _ _ _ _ _

/-- **The three Markov-random-field priors see `x` only through `D (x - location)`
    (`mrf_uses_operator`):** if `D(x - loc) = D(x' - loc)` then `GMRF`, `LMRF` and `CMRF` assign
    `x` and `x'` the same log-density. -/
theorem mrf_uses_operator (D : FMat) (loc x x' : Fin D.cols → ℝ)
    (h : (toMatrix D).mulVec (x - loc) = (toMatrix D).mulVec (x' - loc))
    (rank : ℕ) (logdet δ scale : ℝ) :
    gmrfLogpdf D rank logdet δ loc x = gmrfLogpdf D rank logdet δ loc x'
      ∧ lmrfLogpdf D scale loc x = lmrfLogpdf D scale loc x'
      ∧ cmrfLogpdf D scale loc x = cmrfLogpdf D scale loc x' := by
  refine ⟨?_, ?_, ?_⟩
  · unfold gmrfLogpdf; rw [precMatrix_quadratic_form, precMatrix_quadratic_form, h]
  · unfold lmrfLogpdf; rw [h]
  · unfold cmrfLogpdf; rw [h]

example (x : Fin (diffOp 0 .zero 3).cols → ℝ) :
    cmrfLogpdf (diffOp 0 .zero 3) 2 0 x = cmrfLogpdf (diffOp 0 .zero 3) 2 0 x :=
  (mrf_uses_operator _ 0 x x rfl 0 0 0 2).2.2

/-- **Invariance under the null space:** adding a null vector of `D` (a constant for
    periodic/Neumann order 1, an affine ramp for Neumann order 2, …) changes none of the three
    log-densities — these priors are improper exactly along `ker D`. -/
theorem mrf_logpdf_add_ker (D : FMat) (loc x w : Fin D.cols → ℝ)
    (hw : w ∈ LinearMap.ker (toMatrix (K := ℝ) D).mulVecLin)
    (rank : ℕ) (logdet δ scale : ℝ) :
    gmrfLogpdf D rank logdet δ loc (x + w) = gmrfLogpdf D rank logdet δ loc x
      ∧ lmrfLogpdf D scale loc (x + w) = lmrfLogpdf D scale loc x
      ∧ cmrfLogpdf D scale loc (x + w) = cmrfLogpdf D scale loc x := by
  refine mrf_uses_operator D loc (x + w) x ?_ rank logdet δ scale
  have hw' : (toMatrix (K := ℝ) D).mulVec w = 0 := hw
  rw [show x + w - loc = (x - loc) + w by abel, Matrix.mulVec_add, hw', add_zero]

example (x : Fin (diffOp 1 .neumann 6).cols → ℝ) (c scale : ℝ) :
    lmrfLogpdf (diffOp 1 .neumann 6) scale 0 (x + c • restr _ (fun _ => 1))
      = lmrfLogpdf (diffOp 1 .neumann 6) scale 0 x := by
  refine (mrf_logpdf_add_ker _ 0 x _ ?_ 0 0 0 scale).2.1
  rw [ker_diffOp_const (Or.inr (Or.inl ⟨rfl, rfl⟩))]
  refine Submodule.smul_mem _ _ (Submodule.subset_span ⟨0, ?_⟩)
  simp [genConst]

/-- **Positive definiteness:** whenever `D` has trivial kernel, the precision `DᵀD` is positive
    definite over `ℝ`; its determinant is positive (so `log det` exists) and its rank is the
    dimension. -/
theorem precMatrix_posDef_of_ker_bot (D : FMat)
    (h : LinearMap.ker (toMatrix (K := ℝ) D).mulVecLin = ⊥) :
    (precMatrix (K := ℝ) D).PosDef ∧ 0 < (precMatrix (K := ℝ) D).det
      ∧ (precMatrix (K := ℝ) D).rank = D.cols := by
  have hinj : Function.Injective (toMatrix (K := ℝ) D).mulVec := by
    have := LinearMap.ker_eq_bot.1 h
    rwa [Matrix.coe_mulVecLin] at this
  have hpd : (precMatrix (K := ℝ) D).PosDef := by
    rw [(toMatrix_gram D).2, ← Matrix.conjTranspose_eq_transpose_of_trivial]
    exact Matrix.PosDef.conjTranspose_mul_self _ hinj
  refine ⟨hpd, hpd.det_pos, ?_⟩
  rw [rank_precision_eq, rank_of_ker_bot _ h]

example : 0 < (precMatrix (K := ℝ) (diffOp 1 .backward 5)).det :=
  (precMatrix_posDef_of_ker_bot _
    (ker_diffOp_trivial (Or.inr (Or.inl ⟨rfl, Or.inr (Or.inl rfl)⟩)) 5)).2.1

/-- **Zero boundary condition (any order ≥ 0), 1-D and 2-D, and order 0 with any bc: the GMRF
    precision is positive definite**, `det P > 0`, `rank P = dim` — the `(rank, logdet)` GMRF derives
    from the Cholesky factor in its `bc_type == 'zero'` branch are those of a genuine SPD matrix. -/
theorem precision_zero_posDef {order : ℕ} {bc : BC} (h : KerTrivial order bc) (n : ℕ) :
    ((precMatrix (K := ℝ) (diffOp order bc n)).PosDef
        ∧ 0 < (precMatrix (K := ℝ) (diffOp order bc n)).det
        ∧ (precMatrix (K := ℝ) (diffOp order bc n)).rank = n)
      ∧ ((precMatrix (K := ℝ) (diffOp2D order bc n)).PosDef
        ∧ 0 < (precMatrix (K := ℝ) (diffOp2D order bc n)).det
        ∧ (precMatrix (K := ℝ) (diffOp2D order bc n)).rank = n * n) := by
  have h1 := precMatrix_posDef_of_ker_bot _ (ker_diffOp_trivial (K := ℝ) h n)
  have h2 := precMatrix_posDef_of_ker_bot _ (ker_diffOp2D_trivial (K := ℝ) h n)
  obtain ⟨a1, b1, c1⟩ := h1
  obtain ⟨a2, b2, c2⟩ := h2
  exact ⟨⟨a1, b1, c1.trans (diffOp_cols_of_class (Or.inl h))⟩,
    ⟨a2, b2, c2.trans (diffOp2D_cols_of_class (Or.inl h))⟩⟩

example : (precMatrix (K := ℝ) (diffOp 2 .zero 6)).PosDef :=
  (precision_zero_posDef (Or.inr (Or.inr ⟨le_refl 2, rfl⟩)) 6).1.1

/-- **Certificate for `GMRF._logdet` in the zero-bc branch (`gmrf_logdet_rank_eq`):** for *any*
    upper-triangular `U` with positive diagonal and `UᵀU = P` (what `sparse_cholesky` returns),
    `2·Σ log U_ii = log det P` — the value the code stores as `_logdet`. -/
theorem gmrf_logdet_cert (D : FMat) (U : Matrix (Fin D.cols) (Fin D.cols) ℝ)
    (htri : U.IsUpperTriangular) (hpos : ∀ i, 0 < U i i) (hU : Uᵀ * U = precMatrix D) :
    2 * ∑ i, Real.log (U i i) = Real.log (precMatrix (K := ℝ) D).det := by
  rw [← hU, Matrix.det_mul, Matrix.det_transpose, Matrix.det_of_isUpperTriangular htri,
    Real.log_mul, Real.log_prod]
  · ring
  · exact fun i _ => (hpos i).ne'
  · exact (Finset.prod_pos fun i _ => hpos i).ne'
  · exact (Finset.prod_pos fun i _ => hpos i).ne'

/-- **Order 0: the precision is the identity matrix** for every `bc` and `n` (so `U = I` is its
    Cholesky factor and `log det P = 0`), although GMRF declares rank `n - 1` for
    periodic/Neumann. -/
theorem precMatrix_order0 (bc : BC) (n : ℕ) :
    precMatrix (K := ℝ) (diffOp 0 bc n) = 1 := by
  ext i j
  show (((gram (firstOrder .none n)).e i j : ℤ) : ℝ) = (1 : Matrix _ _ ℝ) i j
  rw [gram_entry, Matrix.one_apply]
  simp only [firstOrder_none_entry]
  have hi : (i : ℕ) < n := i.2
  rw [Finset.sum_eq_single (i : ℕ)]
  · by_cases hij : i = j
    · subst hij; simp
    · have : (j : ℕ) ≠ (i : ℕ) := fun h => hij (Fin.ext h.symm)
      simp [hij, this]
  · intro k _ hk; simp [Ne.symm hk]
  · intro h; exact absurd (Finset.mem_range.2 hi) h

example : 2 * ∑ i : Fin (diffOp 0 .periodic 5).cols, Real.log ((1 : Matrix _ _ ℝ) i i)
    = Real.log (precMatrix (K := ℝ) (diffOp 0 .periodic 5)).det :=
  gmrf_logdet_cert _ 1 Matrix.blockTriangular_one (fun i => by simp)
    (by rw [precMatrix_order0]; simp)

end gmrf

end CuqiVerif.C20


