import CuqiVerif.Model.C02
import Mathlib.Tactic.Ring
import Mathlib.Tactic.Linarith
import Mathlib.Tactic.FieldSimp
import Mathlib.Tactic.Positivity
import Mathlib.Algebra.Order.Field.Basic
import Mathlib.Algebra.BigOperators.Group.Finset.Basic
import Mathlib.Algebra.BigOperators.Ring.Finset
import Mathlib.Algebra.Order.BigOperators.Ring.Finset
import Mathlib.LinearAlgebra.BilinearForm.Basic
import Mathlib.MeasureTheory.Measure.Lebesgue.Basic
import Mathlib.Analysis.SpecialFunctions.Log.Basic
import Mathlib.Probability.Kernel.Invariance
import Mathlib.MeasureTheory.Integral.Lebesgue.Countable
import Mathlib.Analysis.SpecialFunctions.Trigonometric.Basic

/-!
# C02 — property theorems (Metropolis-type kernels)

Part A is about the executable definitions of `CuqiVerif.Model.C02` (the ones the driver runs):
the accept decision, the frame (what a transition may change), NaN / ±inf handling, and the
component-wise loop for every dimension.  Part B supplies the probability content over ℝ / an
ordered field: the measure of the acceptance region, detailed balance, and reversibility +
invariance of the Metropolis–Hastings matrix on an arbitrary finite state space.  Part C is the
algebra that makes the ratios used by pCN and MALA the MH ratios of their proposal mechanisms,
with the code-faithful negative results.
-/

namespace CuqiVerif.C02

open XVal

/-! ## Part A — the executable model -/

/-- **Frame.** Every kernel's common tail either installs exactly the proposal and the values
    recorded at it, or leaves point, cached log-density, cached gradient and scale untouched. -/
theorem metropolis_frame (k : Kernel) (st : St) (xs : Vec) (t : XVal) (gs : Vec) (ratio ell : XVal) :
    ((metropolis k st xs t gs ratio ell).2 = false ∧ (metropolis k st xs t gs ratio ell).1 = st) ∨
    ((metropolis k st xs t gs ratio ell).2 = true ∧
      (metropolis k st xs t gs ratio ell).1 = { st with x := xs, logd := t, grad := gs }) := by
  unfold metropolis
  split <;> simp

/-- The accept bit of the common tail is the accept expression. -/
theorem metropolis_acc (k : Kernel) (st : St) (xs : Vec) (t : XVal) (gs : Vec) (ratio ell : XVal) :
    (metropolis k st xs t gs ratio ell).2 = accepts k ell ratio t := by
  unfold metropolis
  split <;> simp_all

/-- Python's `min(0, r)` on a finite `r` is the rational `min 0 r`. -/
theorem pyMin0_fin (r : Rat) : pyMin0 (fin r) = fin (min 0 r) := by
  unfold pyMin0 lt
  by_cases h : r < 0
  · simp [h, min_eq_right (le_of_lt h)]
  · simp [h, min_eq_left (not_lt.mp h)]

/-- **Accept iff (finite values, all eight kernels):** with finite `log u = l`, finite log-ratio
    `r` and a finite value at the proposal the kernel accepts iff `l ≤ min 0 r`. -/
theorem accepts_fin_iff (k : Kernel) (l r t : Rat) :
    accepts k (fin l) (fin r) (fin t) = true ↔ l ≤ min 0 r := by
  unfold accepts acceptsG
  rw [pyMin0_fin]
  simp [le, isNan, isInf]

/-- **Accept iff (kernels with both guards, any IEEE values):** MH, CWMH, PCN/pCN in both
    interfaces and experimental MALA accept iff `log u ≤ min(0, ratio)` (IEEE/Python semantics)
    and the value at the proposal is finite. -/
theorem accepts_guarded_iff (k : Kernel) (hn : k.guardNan = true) (hi : k.guardInf = true)
    (ell ratio t : XVal) :
    accepts k ell ratio t = true ↔ (le ell (pyMin0 ratio) = true ∧ t.isFinite = true) := by
  unfold accepts acceptsG
  cases t <;> simp [hn, hi, isNan, isInf, isFinite]

/-- **A NaN or ±inf proposal is never accepted by the guarded kernels**, whatever the uniform
    draw, the cached value and the ratio. -/
theorem guarded_never_accepts_nonfinite (k : Kernel) (hn : k.guardNan = true) (hi : k.guardInf = true)
    (ell ratio t : XVal) (ht : t.isFinite = false) : accepts k ell ratio t = false := by
  have := accepts_guarded_iff k hn hi ell ratio t
  cases h : accepts k ell ratio t
  · rfl
  · rw [h] at this; simp [ht] at this

/-- the kernels carrying both guards: all but legacy MALA -/
def fullyGuarded (k : Kernel) : Bool := k.guardNan && k.guardInf

example : ∀ k : Kernel, fullyGuarded k = true ↔ k ≠ .legMALA := by intro k; cases k <;> decide

/-- **A proposal whose log-density is NaN or ±inf is never accepted** by MH, CWMH, PCN/pCN
    (both interfaces) and experimental MALA — every uniform draw (u = 0 included), every cached
    value (NaN / ±inf included), every ratio. -/
theorem never_accepts_nonfinite (k : Kernel) (hk : k ≠ .legMALA) (ell ratio t : XVal)
    (ht : t.isFinite = false) : accepts k ell ratio t = false := by
  have h : k.guardNan = true ∧ k.guardInf = true := by cases k <;> simp_all [Kernel.guardNan, Kernel.guardInf]
  exact guarded_never_accepts_nonfinite k h.1 h.2 ell ratio t ht

/-- Every kernel (legacy MALA included: `np.isnan(..) == False`) never accepts a NaN proposal. -/
theorem never_accepts_nan (k : Kernel) (ell ratio : XVal) : accepts k ell ratio nan = false := by
  unfold accepts acceptsG; cases k <;> simp [Kernel.guardNan, isNan]

/-- Abstract fact about an accept test WITHOUT guards (no longer a statement about CUQIpy since
    /repo commit d1cc7b3; it is why the guards are needed): a NaN proposal passes for every
    `u ∈ [0,1]` because `value − cached = NaN` and Python's `min(0, NaN) = 0`. -/
lemma unguarded_test_accepts_nan (ell cached : XVal) (hu : le ell (fin 0) = true) :
    acceptsG false false ell (nan.sub cached) nan = true := by
  unfold acceptsG
  have : nan.sub cached = nan := by cases cached <;> rfl
  rw [this]
  simpa [pyMin0, lt] using hu

/-- **Code-faithful negative result (legacy MALA, the only kernel left without the inf guard):**
    a `-inf` proposal is accepted when `u = 0` (`log u = -inf`), from any finite state … -/
theorem unguarded_accepts_neginf (k : Kernel) (hi : k.guardInf = false) (c : Rat) :
    accepts k neginf (neginf.sub (fin c)) neginf = true := by
  unfold accepts acceptsG
  cases k <;> simp_all [Kernel.guardInf, Kernel.guardNan, pyMin0, lt, le, sub, neg, add, isNan, isInf]

example : Kernel.legMALA.guardInf = false := rfl

/-- … and, from a `-inf` cached value, for ANY uniform draw `u ∈ (0,1]` (ratio = NaN,
    `min(0, NaN) = 0`). -/
theorem legMALA_accepts_neginf (l : Rat) (hl : l ≤ 0) (logq : Rat) :
    accepts .legMALA (fin l) ((neginf.sub neginf).add (fin logq)) neginf = true := by
  simp [accepts, acceptsG, Kernel.guardInf, Kernel.guardNan, pyMin0, lt, le, sub, neg, add, isNan, hl]

/-- **Partial positive result (needed for legacy MALA only):** from a finite cached value and a
    non-zero uniform draw (`log u` finite) a `-inf` proposal is rejected by every kernel, with or
    without the inf guard. -/
theorem rejects_neginf_partial (k : Kernel) (l c : Rat) :
    accepts k (fin l) (neginf.sub (fin c)) neginf = false := by
  unfold accepts acceptsG
  simp [pyMin0, lt, le, sub, neg, add]

/-! ### the four single-proposal step functions -/

/-- MH (both interfaces): accept iff `log u ≤ min 0 (π(x*) − cached)`, finite values. -/
theorem mhStep_accept_iff (k : Kernel) (logd : Vec → XVal) (st : St) (xi : Vec) (l a b : Rat)
    (hb : st.logd = fin b) (ha : logd (mhPropose st xi) = fin a) :
    (mhStep k logd st xi (fin l)).2 = true ↔ l ≤ min 0 (a - b) := by
  unfold mhStep
  simp only [metropolis_acc, ha, hb]
  have : (fin a).sub (fin b) = fin (a - b) := by simp [sub, neg, add, sub_eq_add_neg]
  rw [this, accepts_fin_iff]

/-- pCN (both interfaces): accept iff `log u ≤ min 0 (loglik(x*) − cached loglik)`. -/
theorem pcnStep_accept_iff (k : Kernel) (loglik : Vec → XVal) (c : Rat) (st : St) (xi : Vec) (l a b : Rat)
    (hb : st.logd = fin b) (ha : loglik (pcnPropose st c xi) = fin a) :
    (pcnStep k loglik c st xi (fin l)).2 = true ↔ l ≤ min 0 (a - b) := by
  unfold pcnStep
  simp only [metropolis_acc, ha, hb]
  have : (fin a).sub (fin b) = fin (a - b) := by simp [sub, neg, add, sub_eq_add_neg]
  rw [this, accepts_fin_iff]

/-- MALA (both interfaces): accept iff
    `log u ≤ min 0 (π(x*) − cached + logq(x | x*) − logq(x* | x))` with the code's `_log_proposal`. -/
theorem malaStep_accept_iff (k : Kernel) (logd : Vec → XVal) (gradf : Vec → Vec) (sigma : Rat) (st : St)
    (z : Vec) (l a b : Rat) (hb : st.logd = fin b) (ha : logd (malaPropose st sigma z) = fin a) :
    (malaStep k logd gradf sigma st z (fin l)).2 = true ↔
      l ≤ min 0 (a - b + (logProposal (scalar st) st.x (malaPropose st sigma z) (gradf (malaPropose st sigma z))
                          - logProposal (scalar st) (malaPropose st sigma z) st.x st.grad)) := by
  unfold malaStep
  simp only [metropolis_acc, ha, hb]
  have : ∀ q : Rat, ((fin a).sub (fin b)).add (fin q) = fin (a - b + q) := by
    intro q; simp [sub, neg, add, sub_eq_add_neg]
  rw [this, accepts_fin_iff]

/-- **Frame of the step functions:** on rejection the whole state (point, cached log-density,
    cached gradient, scale) is returned unchanged; on acceptance point and caches are the proposal
    and the target's values AT the proposal, the scale is unchanged. -/
theorem mhStep_frame (k : Kernel) (logd : Vec → XVal) (st : St) (xi : Vec) (ell : XVal) :
    ((mhStep k logd st xi ell).2 = false ∧ (mhStep k logd st xi ell).1 = st) ∨
    ((mhStep k logd st xi ell).2 = true ∧ (mhStep k logd st xi ell).1 =
        { st with x := mhPropose st xi, logd := logd (mhPropose st xi) }) := by
  unfold mhStep
  exact metropolis_frame ..

theorem pcnStep_frame (k : Kernel) (loglik : Vec → XVal) (c : Rat) (st : St) (xi : Vec) (ell : XVal) :
    ((pcnStep k loglik c st xi ell).2 = false ∧ (pcnStep k loglik c st xi ell).1 = st) ∨
    ((pcnStep k loglik c st xi ell).2 = true ∧ (pcnStep k loglik c st xi ell).1 =
        { st with x := pcnPropose st c xi, logd := loglik (pcnPropose st c xi) }) := by
  unfold pcnStep
  exact metropolis_frame ..

theorem malaStep_frame (k : Kernel) (logd : Vec → XVal) (gradf : Vec → Vec) (sigma : Rat) (st : St)
    (z : Vec) (ell : XVal) :
    ((malaStep k logd gradf sigma st z ell).2 = false ∧ (malaStep k logd gradf sigma st z ell).1 = st) ∨
    ((malaStep k logd gradf sigma st z ell).2 = true ∧ (malaStep k logd gradf sigma st z ell).1 =
        { st with x := malaPropose st sigma z, logd := logd (malaPropose st sigma z),
                  grad := gradf (malaPropose st sigma z) }) := by
  unfold malaStep
  exact metropolis_frame ..

/-- **MH and pCN (both interfaces) and experimental MALA never move to a point whose
    log-density (log-likelihood for pCN) is NaN or ±inf** — any state, scale, draw. -/
theorem mhStep_accept_finite (k : Kernel) (hk : k ≠ .legMALA) (logd : Vec → XVal) (st : St) (xi : Vec)
    (ell : XVal) (h : (mhStep k logd st xi ell).2 = true) : (logd (mhPropose st xi)).isFinite = true := by
  unfold mhStep at h
  rw [metropolis_acc] at h
  cases hf : (logd (mhPropose st xi)).isFinite
  · rw [never_accepts_nonfinite k hk _ _ _ hf] at h; exact absurd h (by simp)
  · rfl

theorem pcnStep_accept_finite (k : Kernel) (hk : k ≠ .legMALA) (loglik : Vec → XVal) (c : Rat) (st : St)
    (xi : Vec) (ell : XVal) (h : (pcnStep k loglik c st xi ell).2 = true) :
    (loglik (pcnPropose st c xi)).isFinite = true := by
  unfold pcnStep at h
  rw [metropolis_acc] at h
  cases hf : (loglik (pcnPropose st c xi)).isFinite
  · rw [never_accepts_nonfinite k hk _ _ _ hf] at h; exact absurd h (by simp)
  · rfl

theorem expMALA_accept_finite (logd : Vec → XVal) (gradf : Vec → Vec) (sigma : Rat) (st : St) (z : Vec)
    (ell : XVal) (h : (malaStep .expMALA logd gradf sigma st z ell).2 = true) :
    (logd (malaPropose st sigma z)).isFinite = true := by
  unfold malaStep at h
  rw [metropolis_acc] at h
  exact ((accepts_guarded_iff .expMALA rfl rfl _ _ _).1 h).2

/-- legacy MALA never moves to a NaN point (it may move to `-inf`: `legMALA_accepts_neginf`). -/
theorem legMALA_accept_not_nan (logd : Vec → XVal) (gradf : Vec → Vec) (sigma : Rat) (st : St) (z : Vec)
    (ell : XVal) (h : (malaStep .legMALA logd gradf sigma st z ell).2 = true) :
    (logd (malaPropose st sigma z)).isNan = false := by
  unfold malaStep at h
  rw [metropolis_acc] at h
  cases hv : logd (malaPropose st sigma z) <;> simp_all [isNan, never_accepts_nan]

example : (mhStep .expMH (fun _ => fin (-2)) ⟨[1, 2], fin (-3), [], [1/2]⟩ [1, 1] (fin (-1/2))).2 = true := by
  decide +kernel

example : (mhStep .legMH (fun _ => nan) ⟨[1, 2], fin (-3), [], [1/2]⟩ [1, 1] (fin (-1/2))).2 = false := by
  decide +kernel

/-! ### the component-wise loop, every dimension -/

/-- One coordinate update as a plain Metropolis step on `(x_t, target_eval_t)`:
    propose `x_t` with coordinate `j` replaced, accept with the kernel's accept expression. -/
def cwSimple (k : Kernel) (logd : Nat → Vec → XVal) (xall : Vec) (ells : List XVal)
    (s : Vec × XVal) (j : Nat) : Vec × XVal :=
  let qpt := s.1.set j (xall.getD j 0)
  let t := logd j qpt
  if accepts k (ells.getD j nan) (t.sub s.2) t then (qpt, t) else s

/-- `cwSimple` is the common Metropolis tail applied to the one-coordinate proposal. -/
theorem cwSimple_is_metropolis (k : Kernel) (logd : Nat → Vec → XVal) (xall : Vec) (ells : List XVal)
    (s : Vec × XVal) (j : Nat) (sc : Vec) :
    let qpt := s.1.set j (xall.getD j 0)
    let r := metropolis k ⟨s.1, s.2, [], sc⟩ qpt (logd j qpt) [] ((logd j qpt).sub s.2) (ells.getD j nan)
    cwSimple k logd xall ells s j = (r.1.x, r.1.logd) := by
  unfold cwSimple metropolis
  simp only
  split <;> simp

/-- **`cwmh_component` (all dimensions, by induction over the loop):** the code's loop with its
    two work vectors (`x_t`, `x_star` and the `x_star = x_t.copy()` resets) keeps `x_star = x_t`
    between iterations, so iteration `j` evaluates the target at `x_t` with ONLY coordinate `j`
    replaced, and the loop is the composition of one-coordinate Metropolis steps. -/
theorem cwmh_component (k : Kernel) (logd : Nat → Vec → XVal) (xall : Vec) (ells : List XVal)
    (js : List Nat) (L : CWLoop) (h : L.xstar = L.xt) :
    (js.foldl (cwBody k logd xall ells) L).xstar = (js.foldl (cwBody k logd xall ells) L).xt ∧
    ((js.foldl (cwBody k logd xall ells) L).xt, (js.foldl (cwBody k logd xall ells) L).evalT)
      = js.foldl (cwSimple k logd xall ells) (L.xt, L.evalT) := by
  induction js generalizing L with
  | nil => simp [h]
  | cons j js ih =>
    simp only [List.foldl_cons]
    have hstep : (cwBody k logd xall ells L j).xstar = (cwBody k logd xall ells L j).xt ∧
        ((cwBody k logd xall ells L j).xt, (cwBody k logd xall ells L j).evalT)
          = cwSimple k logd xall ells (L.xt, L.evalT) j := by
      unfold cwBody cwSimple
      simp only [h]
      split <;> simp
    obtain ⟨h1, h2⟩ := hstep
    have := ih (cwBody k logd xall ells L j) h1
    rw [h2] at this
    exact this

/-- The state returned by `cwStep` is the composition of the one-coordinate steps over
    `0, …, dim−1` (proposal coordinates as stored by the work vectors: unchanged for float64,
    truncated for an integer dtype); the scale and gradient cache are untouched. -/
theorem cwStep_eq_fold (k : Kernel) (logd : Nat → Vec → XVal) (st : St) (z : Vec) (ells : List XVal)
    (intDtype : Bool) :
    let r := (List.range st.x.length).foldl
      (cwSimple k logd ((cwPropose st z).map (coerce intDtype)) ells) (st.x, st.logd)
    (cwStep k logd st z ells intDtype).1 = { st with x := r.1, logd := r.2 } := by
  unfold cwStep
  simp only
  have := (cwmh_component k logd ((cwPropose st z).map (coerce intDtype)) ells (List.range st.x.length)
    { xt := st.x, xstar := st.x, evalT := st.logd, acc := [], queries := [] } rfl).2
  simp only at this
  rw [← this]

/-- with float64 work vectors the proposal coordinates are used as drawn -/
theorem coerce_float (v : Vec) : v.map (coerce false) = v := by
  have : coerce false = id := by funext q; rfl
  rw [this, List.map_id]

/-- **Code-faithful negative result (experimental CWMH, integer `initial_point`):** the work
    vectors inherit the integer dtype, every proposal coordinate is truncated toward zero before it
    is evaluated and stored — e.g. the draw `5/2` becomes `2`, so the chain lives on the integer
    lattice and the proposal `trunc(x_j + s z)` is not the symmetric random walk. -/
theorem cw_int_truncates :
    (cwStep .expCWMH (fun _ _ => fin 0) ⟨[0, 0], fin 0, [], [1]⟩ [5/2, -5/2] [fin (-1), fin (-1)] true).1.x = [2, -2]
    ∧ (cwStep .expCWMH (fun _ _ => fin 0) ⟨[0, 0], fin 0, [], [1]⟩ [5/2, -5/2] [fin (-1), fin (-1)] false).1.x
        = [5/2, -5/2] := by
  constructor <;> decide +kernel

/-- One-coordinate step of CWMH (both interfaces; any kernel with both guards) never installs a
    non-finite value. -/
theorem cwmh_component_finite (k : Kernel) (hn : k.guardNan = true) (hi : k.guardInf = true)
    (logd : Nat → Vec → XVal) (xall : Vec) (ells : List XVal)
    (s : Vec × XVal) (j : Nat) (h : cwSimple k logd xall ells s j ≠ s) :
    (cwSimple k logd xall ells s j).2.isFinite = true := by
  unfold cwSimple at h ⊢
  simp only at h ⊢
  split at h
  · next hacc => rw [if_pos hacc]; exact ((accepts_guarded_iff k hn hi _ _ _).1 hacc).2
  · exact absurd rfl h

example : (cwStep .expCWMH (fun j _ => [fin (-1/4), fin (-5)].getD j nan) ⟨[0, 0], fin 0, [], [1]⟩ [1, 2]
    [fin (-1/2), fin (-1/2)]).2.1 = [true, false] := by decide +kernel

/-! ## Part B — probability content -/

section measure
open MeasureTheory Set

/-- **Acceptance probability.** For a uniform `u` on `(0, 1]` the event tested by the code,
    `log u ≤ min(0, a)`, has Lebesgue measure `min(1, exp a)` — the Metropolis–Hastings
    probability for log-ratio `a`. -/
theorem accept_measure (a : ℝ) :
    volume {u : ℝ | u ∈ Ioc (0:ℝ) 1 ∧ Real.log u ≤ min 0 a} = ENNReal.ofReal (min 1 (Real.exp a)) := by
  have hset : {u : ℝ | u ∈ Ioc (0:ℝ) 1 ∧ Real.log u ≤ min 0 a} = Ioc 0 (min 1 (Real.exp a)) := by
    ext u
    simp only [mem_ofPred_eq, mem_Ioc]
    constructor
    · rintro ⟨⟨h0, h1⟩, hl⟩
      exact ⟨h0, le_min h1 ((Real.log_le_iff_le_exp h0).1 (le_trans hl (min_le_right _ _)))⟩
    · rintro ⟨h0, hm⟩
      have h1 : u ≤ 1 := le_trans hm (min_le_left _ _)
      have he : u ≤ Real.exp a := le_trans hm (min_le_right _ _)
      exact ⟨⟨h0, h1⟩, le_min (Real.log_nonpos h0.le h1) ((Real.log_le_iff_le_exp h0).2 he)⟩
  rw [hset, Real.volume_Ioc, sub_zero]

end measure

section balance
variable {K : Type*} [Field K] [LinearOrder K] [IsStrictOrderedRing K]

/-- probability flow `a · min(1, b/a)` is `min a b` (also when `a = 0` or `b = 0`) -/
lemma flow_eq_min (a b : K) (ha : 0 ≤ a) (hb : 0 ≤ b) : a * min 1 (b / a) = min a b := by
  rcases ha.eq_or_lt with h | h
  · subst h; simp [hb]
  · rw [mul_min_of_nonneg _ _ h.le, mul_one, mul_div_cancel₀ _ h.ne']

/-- **Detailed balance** of the Metropolis–Hastings acceptance probability: for non-negative
    densities, `π(x) q(x,y) min(1, π(y)q(y,x)/(π(x)q(x,y))) = π(y) q(y,x) min(1, π(x)q(x,y)/(π(y)q(y,x)))`. -/
theorem detailed_balance (px py qxy qyx : K) (hx : 0 ≤ px) (hy : 0 ≤ py) (hxy : 0 ≤ qxy) (hyx : 0 ≤ qyx) :
    px * qxy * min 1 (py * qyx / (px * qxy)) = py * qyx * min 1 (px * qxy / (py * qyx)) := by
  rw [flow_eq_min _ _ (mul_nonneg hx hxy) (mul_nonneg hy hyx),
      flow_eq_min _ _ (mul_nonneg hy hyx) (mul_nonneg hx hxy), min_comm]

example : (2:ℚ) * 3 * min 1 (1 * 4 / (2 * 3)) = 1 * 4 * min 1 (2 * 3 / (1 * 4)) := by norm_num

open Finset

variable {α : Type*} [Fintype α] [DecidableEq α]

/-- MH acceptance probability for target weights `π` and proposal matrix `q`. -/
def mhAlpha (π : α → K) (q : α → α → K) (x y : α) : K := min 1 (π y * q y x / (π x * q x y))

/-- MH transition matrix: move with `q·α`, stay with the remaining mass. -/
def mhMatrix (π : α → K) (q : α → α → K) (x y : α) : K :=
  if x = y then 1 - ∑ z ∈ univ.erase x, q x z * mhAlpha π q x z else q x y * mhAlpha π q x y

/-- **Reversibility on an arbitrary finite state space:** `π(x) P(x,y) = π(y) P(y,x)`. -/
theorem mh_reversible_fintype (π : α → K) (q : α → α → K) (hπ : ∀ x, 0 ≤ π x) (hq : ∀ x y, 0 ≤ q x y)
    (x y : α) : π x * mhMatrix π q x y = π y * mhMatrix π q y x := by
  by_cases h : x = y
  · subst h; rfl
  · have h' : ¬ y = x := fun e => h e.symm
    simp only [mhMatrix, h, h', if_false, mhAlpha]
    have := detailed_balance (π x) (π y) (q x y) (q y x) (hπ x) (hπ y) (hq x y) (hq y x)
    linarith [this]

omit [IsStrictOrderedRing K] in
/-- rows of the MH matrix sum to one -/
lemma mhMatrix_row_sum (π : α → K) (q : α → α → K) (x : α) : ∑ y, mhMatrix π q x y = 1 := by
  rw [← Finset.add_sum_erase univ _ (mem_univ x)]
  have : ∑ y ∈ univ.erase x, mhMatrix π q x y = ∑ y ∈ univ.erase x, q x y * mhAlpha π q x y := by
    apply Finset.sum_congr rfl
    intro y hy
    have : ¬ x = y := fun e => (Finset.ne_of_mem_erase hy) e.symm
    simp [mhMatrix, this]
  rw [this]
  simp [mhMatrix]

/-- **Invariance on an arbitrary finite state space:** `Σ_x π(x) P(x,y) = π(y)`. -/
theorem mh_invariant_fintype (π : α → K) (q : α → α → K) (hπ : ∀ x, 0 ≤ π x) (hq : ∀ x y, 0 ≤ q x y)
    (y : α) : ∑ x, π x * mhMatrix π q x y = π y := by
  calc ∑ x, π x * mhMatrix π q x y = ∑ x, π y * mhMatrix π q y x :=
        Finset.sum_congr rfl (fun x _ => mh_reversible_fintype π q hπ hq x y)
    _ = π y * ∑ x, mhMatrix π q y x := by rw [Finset.mul_sum]
    _ = π y := by rw [mhMatrix_row_sum, mul_one]

/-- entries of the MH matrix are probabilities when `q` is a stochastic matrix -/
theorem mhMatrix_nonneg (π : α → K) (q : α → α → K) (hπ : ∀ x, 0 ≤ π x) (hq : ∀ x y, 0 ≤ q x y)
    (hrow : ∀ x, ∑ y, q x y = 1) (x y : α) : 0 ≤ mhMatrix π q x y := by
  have hα0 : ∀ u v, 0 ≤ mhAlpha π q u v := fun u v =>
    le_min zero_le_one (div_nonneg (mul_nonneg (hπ v) (hq v u)) (mul_nonneg (hπ u) (hq u v)))
  have hα1 : ∀ u v, mhAlpha π q u v ≤ 1 := fun u v => min_le_left _ _
  unfold mhMatrix
  split
  · have h1 : ∑ z ∈ univ.erase x, q x z * mhAlpha π q x z ≤ ∑ z ∈ univ.erase x, q x z :=
      Finset.sum_le_sum (fun z _ => mul_le_of_le_one_right (hq x z) (hα1 x z))
    have h2 : ∑ z ∈ univ.erase x, q x z ≤ ∑ z, q x z :=
      Finset.sum_le_sum_of_subset_of_nonneg (Finset.erase_subset _ _) (fun z _ _ => hq x z)
    rw [hrow] at h2
    linarith
  · exact mul_nonneg (hq x y) (hα0 x y)

end balance

/-! ## Part C — the ratios used by pCN and MALA are the MH ratios of their proposals -/

section pcn
variable {K : Type*} [Field K] {V : Type*} [AddCommGroup V] [Module K V]

/-- **pCN ratio.** `B` = any symmetric bilinear form (the prior precision `C⁻¹`), prior mean 0,
    `a² + s² = 1`.  With `y = a x + s ξ` the reverse move uses `ξ' = (x − a y)/s`, and
    `B(x,x) + B(ξ,ξ) = B(y,y) + B(ξ',ξ')`, i.e. `prior(x) q(y|x) = prior(y) q(x|y)`: the prior and
    proposal terms cancel in the MH ratio and the likelihood ratio that the code uses is the MH
    ratio of the mechanism. -/
theorem pcn_ratio (B : LinearMap.BilinForm K V) (hB : ∀ u v, B u v = B v u) (a s : K)
    (h : a ^ 2 + s ^ 2 = 1) (hs : s ≠ 0) (x ξ : V) :
    B x x + B ξ ξ = B (a • x + s • ξ) (a • x + s • ξ)
      + B (s⁻¹ • (x - a • (a • x + s • ξ))) (s⁻¹ • (x - a • (a • x + s • ξ))) := by
  have hξ' : s⁻¹ • (x - a • (a • x + s • ξ)) = s • x - a • ξ := by
    have h1 : (1 - a ^ 2) = s ^ 2 := by rw [← h]; ring
    have : x - a • (a • x + s • ξ) = (s ^ 2) • x - (a * s) • ξ := by
      rw [← h1]; simp only [smul_add, smul_smul, sub_smul, one_smul]; rw [pow_two]; abel
    rw [this, smul_sub, smul_smul, smul_smul]
    congr 1
    · congr 1; field_simp
    · congr 1; field_simp
  rw [hξ']
  simp only [map_add, map_sub, map_smul, LinearMap.add_apply, LinearMap.sub_apply, LinearMap.smul_apply,
    smul_eq_mul]
  rw [hB ξ x]
  have : B x x + B ξ ξ = (a ^ 2 + s ^ 2) * (B x x + B ξ ξ) := by rw [h, one_mul]
  rw [this]; ring

end pcn


/-- log-density of `N(μ, ε·Iₙ)` at a point whose squared distance to `μ` is `d2` -/
noncomputable def gaussLogPdf (ε : ℝ) (n : ℕ) (d2 : ℝ) : ℝ :=
  -(n / 2) * Real.log (2 * Real.pi * ε) - d2 / (2 * ε)

/-- **MALA proposal density.** The code's `_log_proposal(θ*, θ, g)` (the executable `logProposal`)
    is the log-density of `N(θ + (ε/2) g, ε I)` at `θ*` up to the constant `(n/2) log(2πε)`, which
    does not depend on the points; here `d2 = |θ* − (θ + (ε/2) g)|²` is the model's own misfit. -/
theorem mala_logq (ε : ℚ) (thetaStar theta g : Vec) (n : ℕ) :
    ((logProposal ε thetaStar theta g : ℚ) : ℝ)
      = gaussLogPdf ε n ((sqNorm (lin 1 thetaStar (-1) (lin 1 theta (ε / 2) g)) : ℚ) : ℝ)
        + (n / 2) * Real.log (2 * Real.pi * ε) := by
  unfold logProposal gaussLogPdf
  push_cast
  ring

/-- Hence the difference the code adds to the log target ratio is the true log proposal ratio
    `log q(x | x*) − log q(x* | x)` of the Langevin proposal (the constants cancel). -/
theorem mala_ratio_is_mh (ε : ℚ) (x xs g gs : Vec) (n : ℕ) :
    ((logProposal ε x xs gs - logProposal ε xs x g : ℚ) : ℝ)
      = gaussLogPdf ε n ((sqNorm (lin 1 x (-1) (lin 1 xs (ε / 2) gs)) : ℚ) : ℝ)
        - gaussLogPdf ε n ((sqNorm (lin 1 xs (-1) (lin 1 x (ε / 2) g)) : ℚ) : ℝ) := by
  rw [Rat.cast_sub, mala_logq ε x xs gs n, mala_logq ε xs x g n]
  ring

/-- the misfit of the model, componentwise: `θ*_i − (θ_i + (ε/2) g_i)` -/
theorem lin_misfit_cons (ε a b c : ℚ) (as bs cs : Vec) :
    lin 1 (a :: as) (-1) (lin 1 (b :: bs) (ε / 2) (c :: cs))
      = (a - (b + ε / 2 * c)) :: lin 1 as (-1) (lin 1 bs (ε / 2) cs) := by
  simp [lin]; ring

example : logProposal (1/4) [11/8] [1] [-1] = -1/2 := by decide +kernel

/-- **Code-faithful negative result (`pcn_ratio` needs prior mean 0).**  1-D, prior `N(m,1)` with
    `m = 1`, `a = 3/5`, `s = 4/5`, `x = 0`, `y = 1`: the exponents of `prior(x) q(y|x)` and
    `prior(y) q(x|y)` (with `q(y|x) = N(a x + s m, s²)`) differ, so the likelihood-only ratio used
    by `PCN.step` / `pCN.single_update` is not the MH ratio of the mechanism. -/
theorem pcn_not_mh_of_mean_ne_zero :
    let m : ℚ := 1; let a : ℚ := 3/5; let s : ℚ := 4/5; let x : ℚ := 0; let y : ℚ := 1
    a ^ 2 + s ^ 2 = 1 ∧
    (x - m) ^ 2 + (y - a * x - s * m) ^ 2 / s ^ 2 ≠ (y - m) ^ 2 + (x - a * y - s * m) ^ 2 / s ^ 2 := by
  norm_num

/-- **Code-faithful negative result (random-walk MH with a "symmetric" proposal of mean `m ≠ 0`).**
    `x* = x + s ξ`, `ξ ~ N(m, 1)` has density `N(x + s m, s²)`, which is not symmetric in `(x, x*)`:
    witness `m = 2`, `s = 1/4`, `x = -1/2`, `x* = -9/16` (the input replayed by the check). -/
theorem shifted_rw_not_symmetric :
    let m : ℚ := 2; let s : ℚ := 1/4; let x : ℚ := -1/2; let y : ℚ := -9/16
    (y - x - s * m) ^ 2 ≠ (x - y - s * m) ^ 2 := by
  norm_num

/-- with mean zero the random-walk proposal IS symmetric (any field, any scale) -/
theorem rw_symmetric {K : Type*} [Field K] (s x y : K) : (y - x - s * 0) ^ 2 = (x - y - s * 0) ^ 2 := by
  ring

/-! ## Part B' — the same in Mathlib's kernel language (finite state spaces) -/

section kernel
open MeasureTheory ProbabilityTheory Finset

/-- On a finite measurable space with measurable singletons, pointwise detailed balance
    `π{x} κ(x,{y}) = π{y} κ(y,{x})` is Mathlib's `Kernel.IsReversible`. -/
theorem isReversible_of_pointwise {α : Type*} [Fintype α] [MeasurableSpace α] [MeasurableSingletonClass α]
    (κ : ProbabilityTheory.Kernel α α) (π : Measure α) (h : ∀ x y, π {x} * κ x {y} = π {y} * κ y {x}) :
    κ.IsReversible π := by
  classical
  have key : ∀ (S T : Finset α),
      ∫⁻ x in (S : Set α), κ x (T : Set α) ∂π = ∑ x ∈ S, ∑ y ∈ T, π {x} * κ x {y} := by
    intro S T
    rw [lintegral_finset]
    refine Finset.sum_congr rfl (fun x _ => ?_)
    rw [← sum_measure_singleton (μ := κ x) (s := T), Finset.sum_mul]
    exact Finset.sum_congr rfl (fun y _ => mul_comm _ _)
  intro A B _ _
  rw [← (Set.toFinite A).coe_toFinset, ← (Set.toFinite B).coe_toFinset, key, key, Finset.sum_comm]
  exact Finset.sum_congr rfl (fun y _ => Finset.sum_congr rfl (fun x _ => h x y))

variable {α : Type*} [Fintype α] [DecidableEq α] [MeasurableSpace α] [MeasurableSingletonClass α]

/-- the measure with weights `w` on a finite space -/
noncomputable def weightMeasure (w : α → ℝ) : Measure α := ∑ x, ENNReal.ofReal (w x) • Measure.dirac x

lemma weightMeasure_singleton (w : α → ℝ) (y : α) : weightMeasure w {y} = ENNReal.ofReal (w y) := by
  unfold weightMeasure
  rw [Measure.finsetSum_apply]
  simp only [Measure.smul_apply, smul_eq_mul, Measure.dirac_apply, Set.indicator_apply, Set.mem_singleton_iff,
    Pi.one_apply]
  rw [Finset.sum_eq_single y]
  · simp
  · intro b _ hb; simp [hb]
  · intro hy; exact absurd (Finset.mem_univ y) hy

/-- the Metropolis–Hastings kernel on a finite state space (rows of `mhMatrix` as measures) -/
noncomputable def mhKernel (π : α → ℝ) (q : α → α → ℝ) : ProbabilityTheory.Kernel α α :=
  ProbabilityTheory.Kernel.ofFunOfCountable (fun x => weightMeasure (mhMatrix π q x))

/-- **`mh_reversible_fintype` in Mathlib's terms:** the MH kernel is `Kernel.IsReversible`
    w.r.t. the target measure, for every finite state space, target weights and proposal matrix. -/
theorem mhKernel_isReversible (π : α → ℝ) (q : α → α → ℝ) (hπ : ∀ x, 0 ≤ π x) (hq : ∀ x y, 0 ≤ q x y)
    : (mhKernel π q).IsReversible (weightMeasure π) := by
  apply isReversible_of_pointwise
  intro x y
  have hk : ∀ u v, mhKernel π q u {v} = ENNReal.ofReal (mhMatrix π q u v) := fun u v =>
    weightMeasure_singleton _ v
  rw [hk, hk, weightMeasure_singleton, weightMeasure_singleton,
    ← ENNReal.ofReal_mul (hπ x), ← ENNReal.ofReal_mul (hπ y), mh_reversible_fintype π q hπ hq x y]

omit [DecidableEq α] [MeasurableSingletonClass α] in
lemma weightMeasure_univ (w : α → ℝ) (hw : ∀ x, 0 ≤ w x) :
    weightMeasure w Set.univ = ENNReal.ofReal (∑ x, w x) := by
  unfold weightMeasure
  rw [Measure.finsetSum_apply, ENNReal.ofReal_sum_of_nonneg (fun x _ => hw x)]
  simp

/-- the MH kernel is a Markov kernel when `q` is a stochastic matrix -/
theorem mhKernel_isMarkov (π : α → ℝ) (q : α → α → ℝ) (hπ : ∀ x, 0 ≤ π x) (hq : ∀ x y, 0 ≤ q x y)
    (hrow : ∀ x, ∑ y, q x y = 1) : IsMarkovKernel (mhKernel π q) :=
  ⟨fun x => ⟨by
    show weightMeasure (mhMatrix π q x) Set.univ = 1
    rw [weightMeasure_univ _ (mhMatrix_nonneg π q hπ hq hrow x), mhMatrix_row_sum]; simp⟩⟩

/-- **Invariance (Mathlib `Kernel.Invariant`):** the target measure is invariant under the MH
    kernel on every finite state space — obtained from reversibility by `IsReversible.invariant`. -/
theorem mhKernel_invariant (π : α → ℝ) (q : α → α → ℝ) (hπ : ∀ x, 0 ≤ π x) (hq : ∀ x y, 0 ≤ q x y)
    (hrow : ∀ x, ∑ y, q x y = 1) : (mhKernel π q).Invariant (weightMeasure π) := by
  have := mhKernel_isMarkov π q hπ hq hrow
  exact (mhKernel_isReversible π q hπ hq).invariant

/-- sweeps / compositions of kernels that each leave the target invariant leave it invariant
    (Mathlib `Invariant.comp`): e.g. MH steps with different proposals or scales (before / after
    tuning) composed in any order. -/
theorem mhKernel_comp_invariant (π : α → ℝ) (q₁ q₂ : α → α → ℝ) (hπ : ∀ x, 0 ≤ π x)
    (hq₁ : ∀ x y, 0 ≤ q₁ x y) (hq₂ : ∀ x y, 0 ≤ q₂ x y)
    (h₁ : ∀ x, ∑ y, q₁ x y = 1) (h₂ : ∀ x, ∑ y, q₂ x y = 1) :
    ((mhKernel π q₁) ∘ₖ (mhKernel π q₂)).Invariant (weightMeasure π) :=
  (mhKernel_invariant π q₁ hπ hq₁ h₁).comp (mhKernel_invariant π q₂ hπ hq₂ h₂)

end kernel

end CuqiVerif.C02
