import CuqiVerif.Props.C12_full
import CuqiVerif.Model.C12_linear
import CuqiVerif.Proofs.C12_linear

/-!
# C12 — the `LinearModel` object: `adjoint`, `@`, `get_matrix` and `T` (session 3)

Statements about the definitions of `Model/C12_linear.lean` that the driver op `lin` executes
(`LinObj.forward`, `LinObj.adjoint`, `LinObj.matmul`, `LinObj.getMatrix`, `LinObj.T`), for every carrier
`K`, all geometry maps, all user callables (which may raise) and all call histories.

1. `adjoint_representation_invariant`, `adjoint_samples_columnwise`, `matmul_is_forward` — `adjoint` acts on the
   four representations of a vector of the *range* geometry like `forward` does on the domain side.
2. `getMatrix_cached`, `getMatrix_idempotent`, `history_independent`, `getMatrix_columns` — the cache `_matrix`:
   after any number of `get_matrix()` calls `forward` / `adjoint` / `@` / `gradient` are the same functions;
   the assembled matrix consists of the outputs of `forward` on the plain unit vectors.
3. `transpose_forward_array`, `transpose_forward_plain`, `transpose_representations_agree_iff`,
   `transpose_representation_invariant_partial`, `transpose_representation_counterexample` — the model `A.T` is built
   from the bound methods: a CUQIarray is converted once (and `A.T` acts like `A.adjoint`), a plain array
   twice.  `A.T` is representation-invariant exactly when the doubled maps agree with the single ones.
-/

namespace CuqiVerif.C12

set_option linter.unusedSectionVars false

variable {K : Type} [Add K] [Mul K] [OfNat K 0] [OfNat K 1]

/-! ## 1. `adjoint` and `@` -/

/-- **`adjoint` is representation-invariant.**  For every in-scope representation `k` of a parameter
    vector `y` of the *range* geometry (plain parameters; plain `par2fun_R y` with `is_par=False`;
    CUQIarray of the range geometry in either form with any `is_par` argument) and every adjoint
    callable (it may raise), `A.adjoint` returns `B₀ (par2fun_R y)` followed by `fun2par_D`, wrapped like
    the input (CUQIarray flagged parameters on the **domain** geometry iff the input was a CUQIarray).
    The comparison conditions are needed for CUQIarray inputs only. -/
theorem adjoint_representation_invariant (m : LinObj K) (B₀ : List K → Except Err (List K))
    (hf : FuncLikeE m.adj B₀) (k : RepKind) (hs : k.isArr = true → SelfOK m.R)
    (hc : k.isArr = true → CrossOK m.R.gid m.D) (y : List K) :
    m.adjoint (.one (k.val m.R y)) k.flag
      = (B₀ (m.R.p2f y) >>= fun w => outOf m.D w (wrapTag k.isArr m.D.gid)) >>= fun p => pure (.one p) := by
  simp only [LinObj.adjoint, applyFunc]
  rw [forward_representation_invariant m.R m.D m.adj B₀ hf k hs hc y]

example : FuncLikeE (LinObj.ofMatrix [[1, 2], [3, 4]] [[1, 3], [2, 4]]
      ({ gid := 1, p2f := id, f2p := pure, identityType := true, grad := none, parDim := 2 } : Geom (List Int))
      { gid := 0, p2f := id, f2p := pure, identityType := true, grad := none, parDim := 2 }).adj
    (fun y => .ok (mulVec [[1, 3], [2, 4]] y)) :=
  fun v => Or.inr ⟨_, v.tag, rfl, rfl, Or.inr rfl⟩

/-- **`adjoint` maps sample collections column by column** (each column as the plain parameter
    vector of the range geometry it holds), giving `Samples` on the domain geometry. -/
theorem adjoint_samples_columnwise (m : LinObj K) (B₀ : List K → List K) (hf : FuncLike m.adj B₀)
    (cols : List (List K)) (flag : Bool) (g : Nat) (b : Bool) :
    m.adjoint (.samples cols flag g) b
      = (cols.mapM (fun c => m.D.f2p (B₀ (m.R.p2f c)))) >>= fun outs => pure (.samples outs m.D.gid) := by
  simp only [LinObj.adjoint]
  exact forward_samples_columnwise m.R m.D m.adj B₀ hf cols flag g b

example : FuncLike (LinObj.ofMatrix [[1, 2], [3, 4]] [[1, 3], [2, 4]]
      ({ gid := 1, p2f := id, f2p := pure, identityType := true, grad := none, parDim := 2 } : Geom (List Int))
      { gid := 0, p2f := id, f2p := pure, identityType := true, grad := none, parDim := 2 }).adj
    (mulVec [[1, 3], [2, 4]]) :=
  fun v => ⟨v.tag, rfl, Or.inr rfl⟩

/-- **`A @ x` is `A.forward(x)`** (one positional argument, `is_par=True`), which for a one-argument
    model is `_apply_func` on `x` — arrays and `Samples` alike. -/
theorem matmul_is_forward (m : LinObj K) (a : String) (ha : m.args = [a]) (x : Input (List K)) :
    m.matmul x = applyFunc m.fwd m.R m.D x true := by
  simp only [LinObj.matmul, m.forward_pos a ha]

example : (LinObj.ofMatrix [[1, 2], [3, 4]] [[1, 3], [2, 4]]
      ({ gid := 1, p2f := id, f2p := pure, identityType := true, grad := none, parDim := 2 } : Geom (List Int))
      { gid := 0, p2f := id, f2p := pure, identityType := true, grad := none, parDim := 2 }).args = ["x"] := rfl

/-! ## 2. `get_matrix` and its cache -/

/-- a stored matrix is returned as it is, and the object is unchanged -/
theorem getMatrix_cached (m : LinObj K) (M : List (List K)) (h : m.matrix = some M) :
    m.getMatrix = .ok (M, m) := by
  simp [LinObj.getMatrix, h]

/-- **`get_matrix` is idempotent**: a second call returns the same matrix and changes nothing. -/
theorem getMatrix_idempotent (m m' : LinObj K) (M : List (List K)) (h : m.getMatrix = .ok (M, m')) :
    m'.getMatrix = .ok (M, m') :=
  getMatrix_cached m' M (m.getMatrix_fields m' M h).2.2.2.2.2

/-- **Call histories do not matter.**  `get_matrix()` is the only call of the class that changes the
    object (`.T`, `forward`, `adjoint`, `gradient`, `@` do not assign to `self`), and after any number
    `n` of such calls — succeeded or failed — `forward`, `adjoint`, `@` and `gradient` are the very same
    functions of their arguments as on the fresh object, for arrays and `Samples`, every `is_par`. -/
theorem history_independent (m : LinObj K) (n : Nat) :
    (LinObj.afterGetMatrix^[n] m).forward = m.forward
    ∧ (LinObj.afterGetMatrix^[n] m).adjoint = m.adjoint
    ∧ (LinObj.afterGetMatrix^[n] m).matmul = m.matmul
    ∧ (LinObj.afterGetMatrix^[n] m).gradient = m.gradient := by
  obtain ⟨h1, h2, h3, h4, h5⟩ := m.iterate_afterGetMatrix_fields n
  have hf := LinObj.forward_congr m _ h1 h3 h4 h5
  refine ⟨hf, LinObj.adjoint_congr m _ h2 h3 h4, ?_, LinObj.gradient_congr m _ h2 h3 h4⟩
  funext x
  simp only [LinObj.matmul, hf]

example : (LinObj.afterGetMatrix^[2] (LinObj.ofFuncs (fun v => pure (lift1 false (mulVec [[1, 2], [3, 4]]) v))
      (fun v => pure (lift1 false (mulVec [[1, 3], [2, 4]]) v))
      ({ gid := 1, p2f := id, f2p := pure, identityType := true, grad := none, parDim := 2 } : Geom (List Int))
      { gid := 0, p2f := id, f2p := pure, identityType := true, grad := none, parDim := 2 } "x")).matrix
    = some [[1, 2], [3, 4]] := by rfl

/-- **The assembled matrix consists of forward outputs.**  When no matrix is stored and `get_matrix`
    returns `M`, there are `domain_dim` columns, column `i` is exactly what `forward` returns for the
    plain unit vector `e_i` (its numbers; parameters in, parameters out: through both geometries), each of length
    `range_dim`, `M` is these columns side by side, and it is what the object stores afterwards. -/
theorem getMatrix_columns (m m' : LinObj K) (M : List (List K)) (hn : m.matrix = none)
    (h : m.getMatrix = .ok (M, m')) :
    ∃ cols : List (List K), cols.length = m.D.parDim ∧ M = colsToRows m.R.parDim cols ∧ m'.matrix = some M
      ∧ ∀ i (hi : i < cols.length), ∃ v : Val (List K),
          m.forward 1 [] (.one (Val.plain (unitVec m.D.parDim i))) true = .ok (.one v)
          ∧ v.data = cols[i] ∧ cols[i].length = m.R.parDim := by
  have hfields := m.getMatrix_fields m' M h
  unfold LinObj.getMatrix at h
  simp only [hn] at h
  obtain ⟨cols, hcols, h⟩ := bind_eq_ok h
  simp only [pure_eq_ok, Except.ok.injEq, Prod.mk.injEq] at h
  obtain ⟨hM, _⟩ := h
  obtain ⟨hlen, hcol⟩ := mapM_ok_spec m.matrixColumn _ _ hcols
  refine ⟨cols, by simpa using hlen, hM.symm, hfields.2.2.2.2.2, ?_⟩
  intro i hi
  have hi' : i < (List.range m.D.parDim).length := by rw [← hlen]; exact hi
  have := hcol i hi' hi
  simp only [List.getElem_range] at this
  unfold LinObj.matrixColumn at this
  obtain ⟨out, hout, hrest⟩ := bind_eq_ok this
  cases out with
  | samples c g => simp at hrest
  | one v =>
    simp only at hrest
    split at hrest
    · rename_i hl
      simp only [pure_eq_ok, Except.ok.injEq] at hrest
      exact ⟨v, hout, hrest, by rw [← hrest]; exact hl⟩
    · simp at hrest

example : (LinObj.ofFuncs (fun v => pure (lift1 false (mulVec [[1, 2], [3, 4]]) v))
      (fun v => pure (lift1 false (mulVec [[1, 3], [2, 4]]) v))
      ({ gid := 1, p2f := id, f2p := pure, identityType := true, grad := none, parDim := 2 } : Geom (List Int))
      { gid := 0, p2f := List.map (2 * ·), f2p := pure, identityType := false, grad := none, parDim := 2 } "x").getMatrix.toOption.map Prod.fst
    = some [[2, 4], [6, 8]] := by rfl

/-! ## 3. `T` -/

/-- the transposed object: geometries change roles, the argument is called `y` (signature of
    `adjoint`), a stored matrix is transposed, and `T` does not touch the original -/
theorem transpose_fields (m : LinObj K) :
    m.T.R = m.D ∧ m.T.D = m.R ∧ m.T.args = ["y"] ∧ m.T.matrix = m.matrix.map transposeRows
      ∧ m.T.T.R = m.R ∧ m.T.T.D = m.D := ⟨rfl, rfl, rfl, rfl, rfl, rfl⟩

/-- **`A.T` on a CUQIarray acts like `A.adjoint`**: for a CUQIarray of `A`'s range geometry holding
    `y` as parameters or `par2fun_R y` as function values (any `is_par` argument),
    `A.T.forward` returns `B₀ (par2fun_R y)` followed by **one** `fun2par_D`, as a CUQIarray flagged
    parameters on `A`'s domain geometry (`.funvals` / `.parameters` of arrays that already are in
    the requested form do not convert again). -/
theorem transpose_forward_array (m : LinObj K) (B₀ : List K → Except Err (List K)) (hf : FuncLikeE m.adj B₀)
    (hsR : SelfOK m.R) (hsD : SelfOK m.D) (hc : CrossOK m.R.gid m.D) (k : RepKind) (hk : k.isArr = true)
    (y : List K) :
    applyOne m.T.fwd m.T.R m.T.D (k.val m.R y) k.flag
      = B₀ (m.R.p2f y) >>= fun w => outOf m.D w (some ⟨true, m.D.gid⟩) := by
  have h1 := toFun_rep m.R y k (fun _ => hsR)
  simp only [hk, funTag, if_true] at h1
  show (toFun m.R (k.val m.R y) k.flag >>= fun xf => m.adjointBound xf >>= fun out =>
      toPar m.D out (k.val m.R y).tag.isSome false) = _
  rw [h1, ok_bind, m.adjointBound_funarr B₀ hf hsR hc y, rep_isSome, hk]
  cases hB : B₀ (m.R.p2f y) with
  | error e => rfl
  | ok w =>
    simp only [ok_bind, outOf]
    cases hw : m.D.f2p w with
    | error e => rfl
    | ok p =>
      simp only [ok_bind, pure_eq_ok]
      simp [toPar, hsD true, arrParameters]

/-- **`A.T` on a plain array converts twice**: for a plain parameter vector `y` (and likewise for plain
    function values with `is_par=False`, and hence for every column of a `Samples` object) the transposed
    model applies `par2fun_R` itself and hands a plain array to the bound method `A.adjoint`, which
    applies `par2fun_R` again; on the way out `fun2par_D` is applied by `A.adjoint` and again by `A.T`. -/
theorem transpose_forward_plain (m : LinObj K) (B₀ : List K → Except Err (List K)) (hf : FuncLikeE m.adj B₀)
    (y : List K) :
    (applyOne m.T.fwd m.T.R m.T.D ⟨y, none⟩ true
      = (B₀ (m.R.p2f (m.R.p2f y)) >>= m.D.f2p >>= m.D.f2p) >>= fun p => pure ⟨p, none⟩)
    ∧ (applyOne m.T.fwd m.T.R m.T.D ⟨m.R.p2f y, none⟩ false
      = (B₀ (m.R.p2f (m.R.p2f y)) >>= m.D.f2p >>= m.D.f2p) >>= fun p => pure ⟨p, none⟩) := by
  have key : (m.adjointBound ⟨m.R.p2f y, none⟩ >>= fun out => toPar m.D out false false)
      = (B₀ (m.R.p2f (m.R.p2f y)) >>= m.D.f2p >>= m.D.f2p) >>= fun p => pure ⟨p, none⟩ := by
    rw [m.adjointBound_plain B₀ hf]
    cases hB : B₀ (m.R.p2f (m.R.p2f y)) with
    | error e => rfl
    | ok w =>
      simp only [ok_bind, outOf]
      cases hw : m.D.f2p w with
      | error e => rfl
      | ok p =>
        simp only [ok_bind, pure_eq_ok]
        simp only [toPar, Bool.not_false, if_true, Bool.false_eq_true, if_false]
        cases m.D.f2p p <;> rfl
  constructor
  · show (toFun m.R ⟨y, none⟩ true >>= fun xf => m.adjointBound xf >>= fun out => toPar m.D out false false) = _
    simp only [toFun, if_true, pure_eq_ok, ok_bind]
    exact key
  · show (toFun m.R ⟨m.R.p2f y, none⟩ false >>= fun xf => m.adjointBound xf >>= fun out => toPar m.D out false false) = _
    simp only [toFun, Bool.false_eq_true, if_false, pure_eq_ok, ok_bind]
    exact key

/-- **Exactly when is `A.T` representation-invariant?**  The numbers returned for a plain parameter
    vector and for the CUQIarray holding it coincide (and the same exception is raised) iff applying
    `par2fun_R` twice before and `fun2par_D` twice after the adjoint callable gives what applying them
    once gives. -/
theorem transpose_representations_agree_iff (m : LinObj K) (B₀ : List K → Except Err (List K))
    (hf : FuncLikeE m.adj B₀) (hsR : SelfOK m.R) (hsD : SelfOK m.D) (hc : CrossOK m.R.gid m.D) (y : List K) (b : Bool) :
    ((applyOne m.T.fwd m.T.R m.T.D ⟨y, none⟩ true).map Val.data
        = (applyOne m.T.fwd m.T.R m.T.D ⟨y, some ⟨true, m.R.gid⟩⟩ b).map Val.data)
    ↔ (B₀ (m.R.p2f (m.R.p2f y)) >>= m.D.f2p >>= m.D.f2p) = (B₀ (m.R.p2f y) >>= m.D.f2p) := by
  rw [(transpose_forward_plain m B₀ hf y).1]
  have := transpose_forward_array m B₀ hf hsR hsD hc (.arrPar b) rfl y
  simp only [RepKind.val, RepKind.flag] at this
  rw [this]
  have e1 : ∀ z : Except Err (List K), ((z >>= fun p => pure (⟨p, none⟩ : Val (List K))).map Val.data) = z := by
    intro z; cases z <;> rfl
  have e2 : ((B₀ (m.R.p2f y) >>= fun w => outOf m.D w (some ⟨true, m.D.gid⟩)).map Val.data)
      = (B₀ (m.R.p2f y) >>= m.D.f2p) := by
    cases B₀ (m.R.p2f y) with
    | error e => rfl
    | ok w =>
      simp only [ok_bind, outOf]
      cases m.D.f2p w <;> rfl
  rw [e1, e2]

/-- **`A.T` is representation-invariant when the maps are idempotent** — in particular for the
    identity-like geometries, where `par2fun` and `fun2par` only reshape: all four in-scope
    representations of `y` then give `B₀ (par2fun_R y)` followed by `fun2par_D`, wrapped like the input.
    `_partial`: the idempotence hypotheses, which `MappedGeometry` and the expansions violate
    (`transpose_representation_counterexample`).

    Full statement (false of the code):
    `∀ k y, applyOne m.T.fwd m.T.R m.T.D (k.val m.R y) k.flag = B₀ (m.R.p2f y) >>= fun w => outOf m.D w (wrapTag k.isArr m.D.gid)`. -/
theorem transpose_representation_invariant_partial (m : LinObj K) (B₀ : List K → Except Err (List K))
    (hf : FuncLikeE m.adj B₀) (hsR : SelfOK m.R) (hsD : SelfOK m.D) (hc : CrossOK m.R.gid m.D)
    (hp : ∀ y, m.R.p2f (m.R.p2f y) = m.R.p2f y) (hq : ∀ w p, m.D.f2p w = .ok p → m.D.f2p p = .ok p)
    (k : RepKind) (y : List K) :
    applyOne m.T.fwd m.T.R m.T.D (k.val m.R y) k.flag
      = B₀ (m.R.p2f y) >>= fun w => outOf m.D w (wrapTag k.isArr m.D.gid) := by
  have hplain : (B₀ (m.R.p2f (m.R.p2f y)) >>= m.D.f2p >>= m.D.f2p) >>= (fun p => pure (⟨p, none⟩ : Val (List K)))
      = B₀ (m.R.p2f y) >>= fun w => outOf m.D w none := by
    rw [hp y]
    cases B₀ (m.R.p2f y) with
    | error e => rfl
    | ok w =>
      simp only [ok_bind, outOf]
      cases hw : m.D.f2p w with
      | error e => rfl
      | ok p => simp only [ok_bind, hq w p hw]
  cases k with
  | plainPar => simpa [RepKind.val, RepKind.flag, RepKind.isArr, wrapTag] using (transpose_forward_plain m B₀ hf y).1.trans hplain
  | plainFun => simpa [RepKind.val, RepKind.flag, RepKind.isArr, wrapTag] using (transpose_forward_plain m B₀ hf y).2.trans hplain
  | arrPar b => simpa [RepKind.isArr, wrapTag] using transpose_forward_array m B₀ hf hsR hsD hc (.arrPar b) rfl y
  | arrFun b => simpa [RepKind.isArr, wrapTag] using transpose_forward_array m B₀ hf hsR hsD hc (.arrFun b) rfl y

example : ∀ y : List Int, (id (id y) : List Int) = id y := fun _ => rfl

/-- **`A.T` is not representation-invariant in general** (negation of the full statement; reproduced
    on the code): `A = LinearModel(2·)` on a one-point grid with the range geometry
    `MappedGeometry(map = 3·, imap = ·/3)` and an identity domain.  `A.T` applied to the plain parameter
    `y = 1` returns `18` (`par2fun_R` twice), applied to the CUQIarray holding the same parameter it
    returns `6 = A.adjoint(y)`. -/
theorem transpose_representation_counterexample :
    let R : Geom (List Int) := { gid := 1, p2f := List.map (3 * ·), f2p := fun f => pure (f.map (· / 3)),
                                 identityType := false, grad := none, parDim := 1 }
    let D : Geom (List Int) := { gid := 0, p2f := id, f2p := pure, identityType := true, grad := none, parDim := 1 }
    let A := LinObj.ofMatrix [[2]] [[2]] R D
    A.T.forward 1 [] (.one ⟨[1], none⟩) true = .ok (.one ⟨[18], none⟩)
    ∧ A.T.forward 1 [] (.one ⟨[1], some ⟨true, 1⟩⟩) true = .ok (.one ⟨[6], some ⟨true, 0⟩⟩)
    ∧ A.adjoint (.one ⟨[1], none⟩) true = .ok (.one ⟨[6], none⟩) := by
  refine ⟨by rfl, by rfl, by rfl⟩

end CuqiVerif.C12
