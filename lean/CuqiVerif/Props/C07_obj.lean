import CuqiVerif.Model.C07_obj
import CuqiVerif.Proofs.C07_obj
import CuqiVerif.Props.C07

/-!
# C07 — a `LinearModel` as an object with state: `get_matrix()` caching, re-assigned geometries, `T` (session 3)

Theorems about the executable state machine of `CuqiVerif/Model/C07_obj.lean` (driver op `hist`), for EVERY
history (list of operations `get_matrix()`, `domain_geometry = g`, `range_geometry = g`), every size and
every commutative ring.  `Obj.Inv o`: the stored matrix, if any, is the column-by-column matrix of the current
forward map.
-/
set_option linter.unusedSectionVars false
set_option linter.unusedVariables false

namespace CuqiVerif.C07

variable {R : Type} [CommRing R]

/-- **Frame.**  No history changes the callables or the kind of the model: only geometries and the cache move. -/
theorem history_frame (o : Obj R) (ops : List (Op R)) :
    (o.run ops).M.A = o.M.A ∧ (o.run ops).M.B = o.M.B ∧ (o.run ops).M.matrixBacked = o.M.matrixBacked :=
  run_frame_aux ops o

/-- the example object: a function-backed 4×4 identity operator on `Continuous1D(4)` geometries -/
def exObj : Obj ℤ :=
  Obj.fresh { A := LMat.identity 4, B := LMat.identity 4, dom := Geom.ident 4, rng := Geom.ident 4, matrixBacked := false }

example : (exObj.run [.getMatrix, .setDom (Geom.image 2 2 true)]).M.A = exObj.M.A := (history_frame _ _).1

/-- **Cache invariant over all safe histories.**  Starting from an object whose cache is consistent (in particular a
    fresh one), after ANY history in which no geometry is re-assigned once `get_matrix()` has been called
    (`safeFrom`), the stored matrix — if there is one — is still the matrix of the current forward map. -/
theorem cache_invariant_history (o : Obj R) (h : o.Inv) (ops : List (Op R))
    (hs : safeFrom o.cache.isSome ops = true) : (o.run ops).Inv :=
  inv_history_aux ops o o.cache.isSome h (fun hh => hh) hs

example : (exObj.run [.setDom (Geom.image 2 2 true), .getMatrix, .getMatrix]).Inv :=
  cache_invariant_history exObj (Or.inl rfl) _ (by decide)

/-- **`get_matrix()` after any safe history reproduces the forward map column by column** (function-backed
    model): whatever was cached on the way, the matrix returned at the end has shape
    `(range_dim, domain_dim)` of the CURRENT geometries and column `j` is the current `forward(e_j)`. -/
theorem getMatrix_after_safe_history (M : LinModel R) (hfn : M.matrixBacked = false) (ops : List (Op R))
    (hs : safeFrom false ops = true) (i j : ℕ) :
    let o := (Obj.fresh M).run ops
    o.getMatrixOut.rows = o.M.rng.parDim ∧ o.getMatrixOut.cols = o.M.dom.parDim ∧
    o.getMatrixOut.e i j = o.M.fwdPar (unit j) i := by
  intro o
  have hinv : o.Inv := cache_invariant_history (Obj.fresh M) (Or.inl rfl) ops hs
  have hfn' : o.M.matrixBacked = false := by
    have := (history_frame (Obj.fresh M) ops).2.2
    rw [this]; exact hfn
  rw [getMatrixOut_of_inv o hinv hfn']
  exact ⟨rfl, rfl, rfl⟩

example : (exObj.run [.setDom (Geom.image 2 2 true), .getMatrix]).getMatrixOut.e 1 2
    = (exObj.run [.setDom (Geom.image 2 2 true), .getMatrix]).M.fwdPar (unit 2) 1 :=
  (getMatrix_after_safe_history exObj.M rfl _ (by decide) 1 2).2.2

/-- **`get_matrix()` is idempotent on the state**: a second call returns the stored object and changes nothing. -/
theorem getMatrix_idempotent (o : Obj R) :
    (o.step .getMatrix).step .getMatrix = o.step .getMatrix ∧
    (o.step .getMatrix).getMatrixOut = o.getMatrixOut := by
  by_cases hc : (o.M.matrixBacked || !o.getMatrixOk) = true
  · have h1 : o.step .getMatrix = o := by rw [step_getMatrix_eq, if_pos hc]
    rw [h1]; exact ⟨h1, rfl⟩
  · have h1 : o.step .getMatrix = { o with cache := some o.getMatrixOut } := by
      rw [step_getMatrix_eq, if_neg hc]
    have hfn : o.M.matrixBacked = false := by
      cases hm : o.M.matrixBacked <;> simp_all
    have hout : ({ o with cache := some o.getMatrixOut } : Obj R).getMatrixOut = o.getMatrixOut := by
      simp [Obj.getMatrixOut, hfn]
    rw [h1]
    refine ⟨?_, hout⟩
    rw [step_getMatrix_eq]
    have hok : ({ o with cache := some o.getMatrixOut } : Obj R).getMatrixOk = true := by
      simp [Obj.getMatrixOk]
    simp only [hok, hfn, Bool.not_true, Bool.or_false, Bool.false_eq_true, if_false, hout]

example : (exObj.step .getMatrix).step .getMatrix = exObj.step .getMatrix := (getMatrix_idempotent exObj).1

/-- **Negative result (known finding `LinearModel:get_matrix:fn:*@history:geometry-reassigned-after-get_matrix`).**
    `M.get_matrix(); M.domain_geometry = Image2D((2,2), order="F")`: the stored matrix is returned unchanged although
    `forward` now permutes its input — entry (1,1) of `get_matrix()` is 1, `forward(e_1)[1]` is 0. -/
theorem cache_stale_counterexample :
    (exObj.run [.getMatrix, .setDom (Geom.image 2 2 true)]).getMatrixOut.e 1 1
      ≠ (exObj.run [.getMatrix, .setDom (Geom.image 2 2 true)]).M.fwdPar (unit 1) 1 := by
  decide

/-- **`T.get_matrix()` does not depend on the history for adjoint pairs on reshaping geometries.**  If the cache is
    consistent (`Inv`), the geometries only reshape, and the matrix of `adjoint` is the transpose of the matrix of
    `forward`, then `M.T.get_matrix()` — the copied `self._matrix.T` when a matrix was cached, else the columns
    `T.forward(e_i)` — has entries `T.forward(e_i)[j]` either way. -/
theorem tGetMatrix_history_independent (o : Obj R) (hinv : o.Inv) (hs : o.M.WellShaped)
    (hfn : o.M.matrixBacked = false) (hD : o.M.dom.reshapeLike = true) (hR : o.M.rng.reshapeLike = true)
    (hadj : ∀ i j, i < o.M.rng.parDim → j < o.M.dom.parDim → o.M.adjMat.e j i = o.M.fwdMat.e i j)
    (i j : ℕ) (hi : i < o.M.rng.parDim) (hj : j < o.M.dom.parDim) :
    o.tGetMatrixOut.e j i = o.M.tFwdPar (unit i) j := by
  unfold Obj.tGetMatrixOut
  rw [hfn]
  rcases hinv with h | h
  · simp only [h, Bool.false_eq_true, if_false]; rfl
  · simp only [h, Bool.false_eq_true, if_false]
    show o.M.fwdPar (unit j) i = _
    rw [(transpose_swaps_partial o.M hD hR (unit 0) (unit i)).2.1, adjPar_eq, fwdPar_eq, matrix_columns, matrix_columns,
      hadj i j hi hj]
    · show i < o.M.rng.E.cols
      rw [hs.rngE_cols]; exact hi
    · show j < o.M.dom.E.cols
      rw [hs.domE_cols]; exact hj

example : (exObj.step .getMatrix).tGetMatrixOut.e 1 1 = (exObj.step .getMatrix).M.tFwdPar (unit 1) 1 := by decide

/-- a function pair that is NOT an adjoint pair: forward `[[1]]`, "adjoint" `[[2]]` -/
def exWrong : Obj ℤ :=
  Obj.fresh { A := LMat.ofRows 1 1 #[#[1]], B := LMat.ofRows 1 1 #[#[2]], dom := Geom.ident 1, rng := Geom.ident 1, matrixBacked := false }

/-- **Negative result.**  For a function pair that is not an adjoint pair `T.get_matrix()` DOES depend on the
    history: `[[2]]` (columns of `T.forward`) on a fresh object, `[[1]]` (the copied cache) after `get_matrix()`. -/
theorem tGetMatrix_history_dependent_counterexample :
    exWrong.tGetMatrixOut.e 0 0 ≠ (exWrong.step .getMatrix).tGetMatrixOut.e 0 0 := by
  decide

/-! ## a transposed model kept across later operations on its parent -/

/-- `T` used right away is the `T` of `Model/C07.lean`: `takeT` followed by `T.forward` / `T.adjoint` are `tFwdPar` / `tAdjPar`,
    and a history `T, op₁, …, opₙ` leaves the kept `T` untouched while the parent runs `op₁ … opₙ`. -/
theorem keptT_fresh (o : Obj R) (post : List (Op R)) (x y : ℕ → R) :
    o.takeT.fwdPar o y = o.M.tFwdPar y ∧ o.takeT.adjPar o x = o.M.tAdjPar x ∧
    ({ o := o, t := none } : HState R).run (HOp.takeT :: post.map HOp.base) = { o := o.run post, t := some o.takeT } :=
  ⟨rfl, rfl, hstate_run_base post _⟩

example : exObj.takeT.fwdPar exObj (unit 1) = exObj.M.tFwdPar (unit 1) := (keptT_fresh exObj [] (unit 0) (unit 1)).1

/-- **A kept `T` follows its parent as long as the RANGE geometry is not re-assigned** (reshaping geometries): after `T = M.T` and
    ANY later history of `get_matrix()` / `domain_geometry = g` on the parent, `T.forward` is the parent's current `adjoint`.
    Symmetrically `T.adjoint` is the parent's current `forward` as long as the DOMAIN geometry is not re-assigned. -/
theorem keptT_follows_parent (o : Obj R) (post : List (Op R)) (hD0 : o.M.dom.reshapeLike = true)
    (hR0 : o.M.rng.reshapeLike = true) (x y : ℕ → R) :
    ((∀ op ∈ post, ∀ g, op ≠ Op.setRng g) → o.takeT.fwdPar (o.run post) y = (o.run post).M.adjPar y) ∧
    ((∀ op ∈ post, ∀ g, op ≠ Op.setDom g) → o.takeT.adjPar (o.run post) x = (o.run post).M.fwdPar x) := by
  constructor
  · intro h
    have hr := run_rng_of_noSetRng post o h
    simp only [TObj.fwdPar, Obj.takeT, LinModel.adjPar, Geom.reE, Geom.reF, hD0, hr, hR0, if_true]
  · intro h
    have hd := run_dom_of_noSetDom post o h
    simp only [TObj.adjPar, Obj.takeT, LinModel.fwdPar, Geom.reE, Geom.reF, hR0, hd, hD0, if_true]

/-- the 4×4 identity operator on `Image2D((2,2))` (order C) geometries -/
def exImg : Obj ℤ :=
  Obj.fresh { A := LMat.identity 4, B := LMat.identity 4, dom := Geom.image 2 2 false, rng := Geom.image 2 2 false, matrixBacked := false }

example : exImg.takeT.fwdPar (exImg.run [.getMatrix, .setDom (Geom.image 2 2 true)]) (unit 1)
    = (exImg.run [.getMatrix, .setDom (Geom.image 2 2 true)]).M.adjPar (unit 1) :=
  (keptT_follows_parent exImg _ rfl rfl (unit 0) (unit 1)).1 (by
    intro op hm g
    simp only [List.mem_cons, List.not_mem_nil, or_false] at hm
    rcases hm with rfl | rfl <;> exact fun h => by cases h)

/-- **Negative result (proposed known finding `LinearModel:T-kept:*@history:geometry-reassigned-after-T`).**
    `T = M.T; M.domain_geometry = Image2D((2,2), order="F")`: the kept `T` computes `T.forward` through the parent's NEW domain
    geometry but `T.adjoint` through the OLD one (its own `range_geometry`), so `T` is no longer a linear model whose adjoint is
    the transpose of its forward: `T.forward(e_1)[1] = 0`, `T.adjoint(e_1)[1] = 1`. -/
theorem keptT_stale_counterexample :
    exImg.takeT.fwdPar (exImg.run [.setDom (Geom.image 2 2 true)]) (unit 1) 1
      ≠ exImg.takeT.adjPar (exImg.run [.setDom (Geom.image 2 2 true)]) (unit 1) 1 := by
  decide

end CuqiVerif.C07
