import CuqiVerif.Model.C17_psf
import CuqiVerif.Props.C17
import Mathlib.Algebra.Order.Field.Basic
import Mathlib.Algebra.Order.BigOperators.Ring.Finset
import Mathlib.Tactic.Positivity
import Mathlib.Tactic.Ring
import Mathlib.Tactic.FieldSimp
import Mathlib.Tactic.NormNum
import Mathlib.Tactic.Linarith

/-!
# C17 — the named point-spread functions (`Model/C17_psf.lean`): property theorems

`_createPSF_1D` / `_GaussPSF_1D` / `_MoffatPSF_1D` / `_DefocusPSF_1D` / `_MoffatPSF` / `_DefocusPSF`
and the option glue of `_getConvolutionOperator`.  The driver runs the same definitions at `Rat`;
the theorems hold in every linearly ordered field, for every size and parameter.
-/
open Finset

set_option linter.unusedSectionVars false
set_option linter.unusedVariables false
set_option linter.unusedSimpArgs false

namespace CuqiVerif.C17
open CuqiVerif.C07

section field
variable {K : Type} [Field K]

/-- **createPSF1_normalised.**  `PSF /= PSF.sum()`: whatever the profile, the PSF `_createPSF_1D`
    returns sums to one (provided the raw profile does not sum to zero — otherwise the code divides by
    zero and the model reports `nan`). -/
theorem createPSF1_normalised (size : ℕ) (f : ℤ → K) (h : ∑ j ∈ range size, f (psfOffset size j) ≠ 0) :
    ∑ k ∈ range size, createPSF1 size f k = 1 := by
  simp only [createPSF1, sumTo_eq_sum]
  rw [← Finset.sum_div, div_self h]

example : ∑ j ∈ range 3, (fun x : ℤ => (1 : ℚ) / (1 + x * x)) (psfOffset 3 j) ≠ 0 := by
  simp [Finset.sum_range_succ, psfOffset]; norm_num

/-- **createPSF1_symmetric.**  The grid `arange(-fix(size/2), ceil(size/2))` puts offset 0 on entry
    `size/2`; for an even profile (`Gauss`, `Moffat`: functions of `x²`) two entries at opposite offsets
    carry the same weight.  In particular for odd `size = 2c+1` the whole array is reversal-symmetric,
    `P[2c − a] = P[a]` — the hypothesis of `deconv1d_assembled_eq_documented_partial`. -/
theorem createPSF1_symmetric (size : ℕ) (f : ℤ → K) (hf : ∀ x, f (-x) = f x) :
    (∀ k j, psfOffset size k = - psfOffset size j → createPSF1 size f k = createPSF1 size f j) ∧
    (∀ c a, size = 2 * c + 1 → a < 2 * c + 1 → createPSF1 size f (2 * c + 1 - 1 - a) = createPSF1 size f a) := by
  have h1 : ∀ k j, psfOffset size k = - psfOffset size j → createPSF1 size f k = createPSF1 size f j := by
    intro k j h
    simp only [createPSF1]
    rw [h, hf]
  refine ⟨h1, ?_⟩
  intro c a hs ha
  apply h1
  subst hs
  simp only [psfOffset]
  have : (2 * c + 1) / 2 = c := by omega
  rw [this]
  have h2 : ((2 * c + 1 - 1 - a : ℕ) : ℤ) = 2 * (c : ℤ) - a := by omega
  rw [h2]; ring

example : ∀ x : ℤ, (fun x : ℤ => (1 : ℚ) / (1 + x * x)) (-x) = (fun x : ℤ => (1 : ℚ) / (1 + x * x)) x := by
  intro x; simp

/-- **deconv1d_named_symmetric_eq_documented.**  A positive statement for the shipped named PSFs:
    for `PSF='Gauss'` or `'Moffat'` (any even profile), an ODD `PSF_size = 2c+1` and the periodic or zero
    boundary condition, the matrix `Deconvolution1D` stores, applied to any signal, IS the documented
    convolution of the boundary-extended signal with the normalised named PSF (the transposition defect
    is invisible exactly here). -/
theorem deconv1d_named_symmetric_eq_documented (m : Ext) (hm : m = .wrap ∨ m = .constant) (c n : ℕ) (hn : 0 < n)
    (f : ℤ → K) (hf : ∀ x, f (-x) = f x) (x : ℕ → K) (u : ℕ) (hu : u < n) :
    (deconv1dMatrix m (2 * c + 1) (createPSF1 (2 * c + 1) f) n).apply x u
      = docConv1 m (2 * c + 1) (createPSF1 (2 * c + 1) f) n x u :=
  deconv1d_assembled_eq_documented_partial m hm c n hn _ x
    (fun a ha => (createPSF1_symmetric (2 * c + 1) f hf).2 c a rfl ha) u hu

example : ∀ x : ℤ, (fun x : ℤ => (1 : ℚ) / (1 + x * x)) (-x) = (fun x : ℤ => (1 : ℚ) / (1 + x * x)) x ∧ (0 : ℕ) < 5 := by
  intro x; simp

/-- **createPSF2_normalised.**  The 2-D builders (`_GaussPSF`, `_MoffatPSF`): the array sums to one. -/
theorem createPSF2_normalised (size : ℕ) (f : ℤ → ℤ → K)
    (h : ∑ a ∈ range size, ∑ b ∈ range size, f (psfOffset size b) (psfOffset size a) ≠ 0) :
    ∑ i ∈ range size, ∑ j ∈ range size, createPSF2 size f i j = 1 := by
  simp only [createPSF2, sumTo_eq_sum]
  simp_rw [← Finset.sum_div]
  exact div_self h

example : ∑ a ∈ range 1, ∑ b ∈ range 1, (fun _ _ : ℤ => (2 : ℚ)) (psfOffset 1 b) (psfOffset 1 a) ≠ 0 := by simp

/-- **createPSF2_symmetric.**  An even 2-D profile gives a PSF invariant under the flip of both axes
    about pixel `(size/2, size/2)` and (if `f x y = f y x`) under transposition. -/
theorem createPSF2_symmetric (size : ℕ) (f : ℤ → ℤ → K) (hf : ∀ x y, f (-x) (-y) = f x y) (i j i' j' : ℕ)
    (hi : psfOffset size i' = - psfOffset size i) (hj : psfOffset size j' = - psfOffset size j) :
    createPSF2 size f i' j' = createPSF2 size f i j := by
  simp only [createPSF2]
  rw [hi, hj, hf]

example : psfOffset 5 4 = - psfOffset 5 0 := by decide

end field

section ordered
variable {K : Type} [Field K] [LinearOrder K] [IsStrictOrderedRing K]

/-- **argmaxFirst_spec.**  `np.where(v == v.max())[0][0]`: the index returned is inside the array,
    carries a maximal entry, and every earlier entry is strictly smaller. -/
theorem argmaxFirst_spec (v : ℕ → K) (n : ℕ) (hn : 0 < n) :
    argmaxFirst n v < n ∧ (∀ k, k < n → v k ≤ v (argmaxFirst n v)) ∧ (∀ k, k < argmaxFirst n v → v k < v (argmaxFirst n v)) := by
  have hstep : ∀ n, argmaxFirst (n + 1) v = (if v (argmaxFirst n v) < v n then n else argmaxFirst n v) := by
    intro n
    unfold argmaxFirst
    rw [List.range_succ, List.foldl_append]
    rfl
  obtain ⟨m, rfl⟩ : ∃ m, n = m + 1 := ⟨n - 1, by omega⟩
  clear hn
  induction m with
  | zero =>
    have h0 : argmaxFirst 1 v = 0 := by
      rw [hstep 0]; simp [argmaxFirst]
    rw [h0]
    refine ⟨by omega, ?_, ?_⟩
    · intro k hk; have : k = 0 := by omega
      subst this; exact le_refl _
    · intro k hk; omega
  | succ m ih =>
    obtain ⟨h1, h2, h3⟩ := ih
    rw [hstep (m + 1)]
    by_cases hc : v (argmaxFirst (m + 1) v) < v (m + 1)
    · rw [if_pos hc]
      refine ⟨by omega, ?_, ?_⟩
      · intro k hk
        by_cases hk' : k < m + 1
        · exact le_of_lt (lt_of_le_of_lt (h2 k hk') hc)
        · have : k = m + 1 := by omega
          subst this; exact le_refl _
      · intro k hk
        exact lt_of_le_of_lt (h2 k hk) hc
    · rw [if_neg hc]
      refine ⟨by omega, ?_, h3⟩
      intro k hk
      by_cases hk' : k < m + 1
      · exact h2 k hk'
      · have : k = m + 1 := by omega
        subst this; exact not_lt.mp hc

example : argmaxFirst 3 (fun k => if k = 1 then (2 : ℚ) else 1) = 1 := by
  simp [argmaxFirst, List.range_succ]

/-- **createPSF1_centre.**  For a profile that is positive and strictly largest at offset 0 (Gauss,
    Moffat), the PSF is non-negative, its unique peak sits on entry `size/2`, and the `center` that
    `_createPSF_1D` reports is exactly `size/2` — the entry on which `scipy.ndimage.convolve1d` centres
    the kernel (`docConv1`), for odd and even `size`. -/
theorem createPSF1_centre (size : ℕ) (hs : 0 < size) (f : ℤ → K) (hpos : ∀ x, 0 < f x)
    (hpeak : ∀ x, x ≠ 0 → f x < f 0) :
    (∀ k, 0 ≤ createPSF1 size f k) ∧
    (∀ k, k ≠ size / 2 → createPSF1 size f k < createPSF1 size f (size / 2)) ∧
    argmaxFirst size (createPSF1 size f) = size / 2 := by
  have hsum : 0 < ∑ j ∈ range size, f (psfOffset size j) :=
    Finset.sum_pos (fun j _ => hpos _) ⟨0, mem_range.mpr hs⟩
  have hc0 : psfOffset size (size / 2) = 0 := by simp [psfOffset]
  have hlt : ∀ k, k ≠ size / 2 → createPSF1 size f k < createPSF1 size f (size / 2) := by
    intro k hk
    simp only [createPSF1, sumTo_eq_sum]
    rw [hc0]
    apply div_lt_div_of_pos_right _ hsum
    apply hpeak
    simp only [psfOffset]
    omega
  refine ⟨fun k => ?_, hlt, ?_⟩
  · simp only [createPSF1, sumTo_eq_sum]
    exact div_nonneg (le_of_lt (hpos _)) (le_of_lt hsum)
  · obtain ⟨h1, h2, _⟩ := argmaxFirst_spec (createPSF1 size f) size hs
    by_contra hne
    have hc : size / 2 < size := Nat.div_lt_self hs (by norm_num)
    exact absurd (h2 (size / 2) hc) (not_le.mpr (hlt _ hne))

example : (∀ x : ℤ, (0 : ℚ) < (fun x : ℤ => (1 : ℚ) / (1 + x * x)) x) := by
  intro x; have : (0 : ℚ) ≤ (x : ℚ) * x := mul_self_nonneg _; simp only; positivity

/-- the Moffat profile `1/(1 + x²/p²)` is even, positive and strictly peaked at 0 -/
lemma moffat_profile (p : K) (hp : p ≠ 0) :
    (∀ x, moffatProfile p (-x) = moffatProfile p x) ∧ (∀ x, 0 < moffatProfile p x) ∧
    (∀ x, x ≠ 0 → moffatProfile p x < moffatProfile p 0) := by
  have hpp : 0 < p * p := mul_self_pos.mpr hp
  have hq : ∀ x : ℤ, 0 ≤ ((x * x : ℤ) : K) / (p * p) := fun x =>
    div_nonneg (by exact_mod_cast mul_self_nonneg x) (le_of_lt hpp)
  refine ⟨fun x => by simp [moffatProfile], fun x => ?_, fun x hx => ?_⟩
  · simp only [moffatProfile]
    have := hq x
    positivity
  · simp only [moffatProfile]
    have hxx : (0 : K) < ((x * x : ℤ) : K) := by exact_mod_cast mul_self_pos.mpr hx
    have h1 : 0 < ((x * x : ℤ) : K) / (p * p) := div_pos hxx hpp
    have h0 : ((0 * 0 : ℤ) : K) / (p * p) = 0 := by simp
    rw [h0, add_zero]
    apply div_lt_div_of_pos_left one_pos one_pos
    linarith

/-- **moffat1_centred_normalised_symmetric.**  `_MoffatPSF_1D(size, p)` for every `size ≥ 1` and
    `p ≠ 0`: the builder returns an array (no `nan`, no exception) whose reported centre is `size/2`,
    which sums to 1, is non-negative, has its unique peak on entry `size/2`, is symmetric about that
    entry, and whose entries are proportional to the documented Moffat profile `1/(1 + (k−size/2)²/p²)`
    — the clauses of the harness oracle `…:PSF:moffat:structure/formula`, for all sizes. -/
theorem moffat1_centred_normalised_symmetric (size : ℕ) (hs : 0 < size) (p : K) (hp : p ≠ 0) :
    ∃ P, namedPSF1 size (moffatProfile p) = .ok P (size / 2) ∧
      ∑ k ∈ range size, P k = 1 ∧ (∀ k, 0 ≤ P k) ∧ (∀ k, k ≠ size / 2 → P k < P (size / 2)) ∧
      (∀ k j, psfOffset size k = - psfOffset size j → P k = P j) ∧
      (∀ k, P k * (1 + (((psfOffset size k) * (psfOffset size k) : ℤ) : K) / (p * p)) = P (size / 2)) := by
  obtain ⟨hev, hpos, hpk⟩ := moffat_profile p hp
  have hsum : 0 < ∑ j ∈ range size, moffatProfile p (psfOffset size j) :=
    Finset.sum_pos (fun j _ => hpos _) ⟨0, mem_range.mpr hs⟩
  obtain ⟨c1, c2, c3⟩ := createPSF1_centre size hs (moffatProfile p) hpos hpk
  refine ⟨createPSF1 size (moffatProfile p), ?_, createPSF1_normalised size _ (ne_of_gt hsum), c1, c2,
    (createPSF1_symmetric size _ hev).1, ?_⟩
  · simp only [namedPSF1, sumTo_eq_sum]
    rw [if_neg (ne_of_gt hsum), c3]
  · intro k
    have hc0 : psfOffset size (size / 2) = 0 := by simp [psfOffset]
    simp only [createPSF1, sumTo_eq_sum, hc0]
    have hpp : 0 < p * p := mul_self_pos.mpr hp
    have hq : 0 ≤ (((psfOffset size k) * (psfOffset size k) : ℤ) : K) / (p * p) :=
      div_nonneg (by exact_mod_cast mul_self_nonneg _) (le_of_lt hpp)
    have hd : (1 + (((psfOffset size k) * (psfOffset size k) : ℤ) : K) / (p * p)) ≠ 0 := by positivity
    simp only [moffatProfile]
    have h0 : ((0 * 0 : ℤ) : K) / (p * p) = 0 := by simp
    rw [h0, add_zero, div_mul_eq_mul_div, one_div_mul_cancel hd, div_one]

example : (2 : ℚ) ≠ 0 := by norm_num

/-! ### Defocus -/

/-- **defocus1_shifted_disc.**  The support test of `_DefocusPSF_1D` mixes the 1-based
    `k = arange(1, size+1)` with the 0-based centre: array entry `k` is kept iff entry `k+1` belongs to
    the DOCUMENTED closed disc of radius `PSF_param` about the kernel centre `size/2`.  The coded PSF is
    the documented blur shifted by one sample — for every size and radius (known finding
    `Deconvolution1D:PSF:defocus:off-centre`); the same in 2-D along both axes. -/
theorem defocus1_shifted_disc (size : ℕ) (p : K) (k : ℕ) :
    defocusOut1 size p k = !docDiscIn1 (size / 2) p ((k : ℤ) + 1) := by
  simp [defocusOut1, docDiscIn1]

example : defocusOut1 7 (1 : ℚ) 2 = false ∧ docDiscIn1 3 (1 : ℚ) 3 = true := by
  constructor <;> simp [defocusOut1, docDiscIn1]

/-- **defocus2_shifted_disc.**  The same in 2-D (`_DefocusPSF`): pixel `(i, j)` is kept iff pixel
    `(i+1, j+1)` lies in the documented closed disc about the kernel centre `(size/2, size/2)` — the coded
    PSF is the documented blur shifted by one pixel along both axes (known finding
    `Deconvolution2D:PSF:defocus:off-centre`). -/
theorem defocus2_shifted_disc (size : ℕ) (p : K) (i j : ℕ) :
    defocusOut2 size p i j = !docDiscIn2 (size / 2) p ((i : ℤ) + 1) ((j : ℤ) + 1) := by
  simp [defocusOut2, docDiscIn2]

/-- **Negative witness (known findings `…:PSF:defocus:off-centre`).**  `PSF_size = 7`, `PSF_param = 1`:
    the code keeps entry 1 (distance 2 from the kernel centre 3) and zeroes entry 4 (distance 1), the
    documented disc does the opposite; in 2-D pixel `(1,2)` likewise. -/
theorem defocus_off_centre_counterexample :
    defocusOut1 7 (1 : ℚ) 1 = false ∧ docDiscIn1 3 (1 : ℚ) 1 = false ∧
    defocusOut1 7 (1 : ℚ) 4 = true ∧ docDiscIn1 3 (1 : ℚ) 4 = true ∧
    defocusOut2 7 (1 : ℚ) 1 2 = false ∧ docDiscIn2 3 (1 : ℚ) 1 2 = false := by
  refine ⟨?_, ?_, ?_, ?_, ?_, ?_⟩ <;> simp [defocusOut1, docDiscIn1, defocusOut2, docDiscIn2]

/-- **defocus1_uniform.**  `_DefocusPSF_1D` for `PSF_param ≠ 0`: whatever value is used for `π`, the
    result is the UNIFORM distribution on the kept entries — weight `1/N` on each of the `N` kept entries,
    0 elsewhere (so it sums to one); with no kept entry (`N = 0`, e.g. `PSF_size = 1`, `PSF_param < 1`,
    a consequence of the off-centre test) the code divides `0/0` and the model reports `nan`; the
    reported centre is `size/2`. -/
theorem defocus1_uniform (piV : K) (hpi : piV ≠ 0) (size : ℕ) (p : K) (hp : p ≠ 0) :
    let N : ℕ := ((range size).filter (fun k => defocusOut1 size p k = false)).card
    (N = 0 → defocusPSF1 piV size p = .nan (size / 2)) ∧
    (N ≠ 0 → ∃ P, defocusPSF1 piV size p = .ok P (size / 2) ∧
      (∀ k, P k = if defocusOut1 size p k then 0 else 1 / (N : K)) ∧ ∑ k ∈ range size, P k = 1) := by
  intro N
  have hpp : p * p ≠ 0 := mul_ne_zero hp hp
  have hc : piV * (p * p) ≠ 0 := mul_ne_zero hpi hpp
  have hsum : sumTo size (defocusRaw1 piV size p) = (N : K) * (1 / (piV * (p * p))) := by
    rw [sumTo_eq_sum]
    have : ∀ k, defocusRaw1 piV size p k = if defocusOut1 size p k = false then 1 / (piV * (p * p)) else 0 := by
      intro k; simp only [defocusRaw1]; cases defocusOut1 size p k <;> simp
    simp_rw [this]
    rw [← Finset.sum_filter, Finset.sum_const, nsmul_eq_mul]
  refine ⟨fun h0 => ?_, fun hN => ?_⟩
  · simp only [defocusPSF1, if_neg hp, hsum, h0]
    simp
  · have hNK : (N : K) ≠ 0 := by exact_mod_cast hN
    have hs0 : (N : K) * (1 / (piV * (p * p))) ≠ 0 := mul_ne_zero hNK (one_div_ne_zero hc)
    have hP : ∀ k, defocusRaw1 piV size p k / ((N : K) * (1 / (piV * (p * p)))) = if defocusOut1 size p k then 0 else 1 / (N : K) := by
      intro k
      simp only [defocusRaw1]
      cases defocusOut1 size p k
      · simp only [Bool.false_eq_true, if_false]; field_simp
      · simp
    refine ⟨fun k => defocusRaw1 piV size p k / ((N : K) * (1 / (piV * (p * p)))), ?_, hP, ?_⟩
    · simp only [defocusPSF1, if_neg hp, hsum, if_neg hs0]
    · rw [← Finset.sum_div, ← sumTo_eq_sum, hsum, div_self hs0]

example : ((range 3).filter (fun k => defocusOut1 3 (1 : ℚ) k = false)).card ≠ 0 := by
  simp [Finset.filter, defocusOut1, Finset.range]

/-- **Negative witness (known findings `…:PSF:defocus:param0`).**  `PSF_param = 0`: the branch announced
    as "the PSF is a delta function" indexes the array with a float and raises — 1-D and 2-D, every size. -/
theorem defocus_param0_raises_counterexample (piV : K) (size : ℕ) :
    defocusPSF1 piV size 0 = .raises "IndexError" ∧ defocusPSF2 piV size 0 = .raises "IndexError" := by
  simp [defocusPSF1, defocusPSF2]

end ordered

/-! ### option glue -/

/-- **namedPSF1D_defaults.**  `_getConvolutionOperator`: `PSF_size=None` means `dim`, `PSF_param=None`
    means 10 — omitting the options and passing the defaults give the same PSF, for every name; an
    explicit value is used as given. -/
theorem namedPSF1D_defaults (g : Rat → Rat) (piV : Rat) (dim : ℕ) (name : String) :
    namedPSF1D g piV dim name none none = namedPSF1D g piV dim name (some 10) (some dim) ∧
    (∀ p s, psfParam1 (some p) (10 : Rat) = p ∧ psfSize1 dim (some s) = s) := by
  exact ⟨rfl, fun _ _ => ⟨rfl, rfl⟩⟩

example : psfSize1 8 none = 8 := rfl

end CuqiVerif.C17
