import CuqiVerif.Props.C11_frame
import CuqiVerif.Model.C11_gibbs

/-!
# C11 — the conditioning stream the Gibbs samplers actually issue (`Model/C11_gibbs.lean`)

`s.samplerRun orig init sweeps val` is everything `cuqi.sampler.Gibbs` (`init = 0`) and
`cuqi.experimental.mcmc.HybridGibbs` (`init = 1`: `_set_targets` at construction) do to densities:
`target()` on the object they are given, then `init + sweeps` sweeps in which, for every block `p`
in `get_parameter_names()` order, the STORED target is conditioned on the values `val k p q` of all
other variables — the stream the tie records from the running samplers (receiver, block, keyword
names, chain index of every value).  Number of sweeps, values and heap are arbitrary.
-/
namespace CuqiVerif.C11

lemma samplerRun_eq_runAll (s : St) (orig init sweeps : Nat) (val : Nat → Nat → Nat → Int) :
    ∃ ops, (s.samplerRun orig init sweeps val).1 = s.runAll (.cond orig [] :: ops) := by
  unfold St.samplerRun
  split
  · next s1 t heq =>
    refine ⟨streamOps t (s1.targetParNames t) val (init + sweeps), ?_⟩
    show _ = (s.run (.cond orig [])).1.runAll _
    rw [heq]
  · next s1 r _ heq =>
    refine ⟨[], ?_⟩
    show _ = (s.run (.cond orig [])).1.runAll []
    rw [heq]; rfl

/-- **sampler_stream_frame.**  Constructing a Gibbs sampler (legacy or hybrid) on `orig` and running it
    for any number of warm-up and sampling sweeps with any values leaves the observable object graph of
    every object that existed before — the joint / posterior handed to the sampler and everything it
    refers to — unchanged. -/
theorem sampler_stream_frame (s : St) (orig init sweeps : Nat) (val : Nat → Nat → Nat → Int) (fuel a : Nat) :
    fp s.size fuel (s.samplerRun orig init sweeps val).1 a = fp s.size fuel s a := by
  obtain ⟨ops, h⟩ := samplerRun_eq_runAll s orig init sweeps val
  rw [h]
  exact fingerprint_preserved_partial s _ fuel a

/-- the two samplers, any `Nb`, `Ns` (thousands of sweeps included) -/
theorem legacy_and_hybrid_gibbs_frame (s : St) (orig Nb Ns : Nat) (val : Nat → Nat → Nat → Int) (fuel a : Nat) :
    fp s.size fuel (s.legacyGibbs orig Nb Ns val).1 a = fp s.size fuel s a ∧
    fp s.size fuel (s.hybridGibbs orig Nb Ns val).1 a = fp s.size fuel s a :=
  ⟨sampler_stream_frame s orig 0 (Nb + Ns) val fuel a, sampler_stream_frame s orig 1 (Nb + Ns) val fuel a⟩

example (Nb Ns : Nat) (fuel a : Nat) :
    fp exJoint.size fuel (exJoint.hybridGibbs 2 Nb Ns (fun k _ q => (k : Int) + q)).1 a = fp exJoint.size fuel exJoint a :=
  (legacy_and_hybrid_gibbs_frame exJoint 2 Nb Ns _ fuel a).2

/-- **sampler_never_alters_originals (`_partial`: the side condition of the known `_constant +=` finding).**
    Attribute-wise: no non-benign attribute of any pre-existing object changes, array content included. -/
theorem sampler_never_alters_originals_partial (s : St) (harr : ArrFresh s.size s) (orig init sweeps : Nat)
    (val : Nat → Nat → Nat → Int) (a : Nat) (f : Fld) (ha : a < s.size) (hf : f.benign = false) :
    (s.samplerRun orig init sweeps val).1.get a f = s.get a f := by
  obtain ⟨ops, h⟩ := samplerRun_eq_runAll s orig init sweeps val
  rw [h]
  exact (originals_never_altered_partial s.size s (Nat.le_refl _) harr _).2.1 a f ha hf

example (Nb Ns : Nat) (f : Fld) (hf : f.benign = false) :
    (exJoint.samplerRun 2 1 (Nb + Ns) (fun k _ q => (k : Int) + q)).1.get 0 f = exJoint.get 0 f :=
  sampler_never_alters_originals_partial exJoint (scalar_constants_suffice _ (by decide) _) 2 1 _ _ 0 f (by decide) hf

/-- **stored_target_fresh.**  The target a sampler stores is an object allocated by its constructor — never the
    object it was given (exception of the code: an `EvaluatedDensity` conditions to itself; samplers refuse it). -/
theorem stored_target_fresh (s : St) (orig init sweeps : Nat) (val : Nat → Nat → Nat → Int) (t : Nat)
    (h : (s.samplerRun orig init sweeps val).2 = some t) : s.size ≤ t ∨ s.cls orig = .eval := by
  unfold St.samplerRun at h
  split at h
  · next s1 t' heq =>
    simp only [Option.some.injEq] at h
    subst h
    have hr : (s.run (.cond orig [])).2 = .obj t' := by rw [heq]
    rcases (run_result_fresh s _ t' hr).2 with h1 | ⟨kw, he, hc⟩
    · exact Or.inl h1
    · right
      have : orig = t' := by injection he
      rw [this]; exact hc
  · simp at h

example : (exJoint.legacyGibbs 2 1 1 (fun _ _ _ => 0)).2 = some 4 ∧ exJoint.size = 3 := by decide

/-- **stored_target_unchanged.**  The re-conditioning stream leaves the STORED target (and everything else that
    exists once the constructor has run) as it was right after construction: every block update starts from the
    same joint. -/
theorem stored_target_unchanged (s : St) (orig init sweeps : Nat) (val : Nat → Nat → Nat → Int) (t fuel b : Nat)
    (ht : (s.run (.cond orig [])).2 = .obj t) :
    fp (s.run (.cond orig [])).1.size fuel (s.samplerRun orig init sweeps val).1 b
      = fp (s.run (.cond orig [])).1.size fuel (s.run (.cond orig [])).1 b := by
  unfold St.samplerRun
  cases hrun : s.run (.cond orig []) with
  | mk s1 r =>
    rw [hrun] at ht
    simp only at ht
    subst ht
    exact fingerprint_preserved_partial s1 _ fuel b

lemma mem_streamOps (t : Nat) (pars : List Nat) (val : Nat → Nat → Nat → Int) (n : Nat) (op : Op)
    (h : op ∈ streamOps t pars val n) :
    ∃ k p, k < n ∧ p ∈ pars ∧ op = .cond t ((pars.filter (· ≠ p)).map (fun q => (q, val k p q))) := by
  induction n with
  | zero => simp [streamOps] at h
  | succ n ih =>
    simp only [streamOps, List.mem_append] at h
    rcases h with h | h
    · obtain ⟨k, p, hk, hp, he⟩ := ih h
      exact ⟨k, p, Nat.lt_succ_of_lt hk, hp, he⟩
    · simp only [sweepOps, List.mem_map] at h
      obtain ⟨p, hp, he⟩ := h
      exact ⟨n, p, Nat.lt_succ_self _, hp, he.symm⟩

/-- **stream_shape.**  The stream consists of exactly `sweeps × #parameters` conditioning calls, each with the
    stored target as receiver and exactly the other parameters as keywords — what the tie observes on the running
    samplers (no call on the original, no positional arguments, no other receivers). -/
theorem stream_shape (t : Nat) (pars : List Nat) (val : Nat → Nat → Nat → Int) (n : Nat) :
    (streamOps t pars val n).length = n * pars.length ∧
    ∀ op ∈ streamOps t pars val n,
      ∃ k p, k < n ∧ p ∈ pars ∧ op = .cond t ((pars.filter (· ≠ p)).map (fun q => (q, val k p q))) := by
  refine ⟨?_, mem_streamOps t pars val n⟩
  induction n with
  | zero => simp [streamOps]
  | succ n ih => simp only [streamOps, List.length_append, ih, sweepOps, List.length_map]; rw [Nat.succ_mul]

example : (streamOps 4 [0, 1, 2] (fun k _ q => (k : Int) + q) 1000).length = 3000 := (stream_shape _ _ _ _).1

/-- `gibbsOps` of `Model/C11.lean` is the special case of values that do not depend on the block: the earlier
    theorems `gibbs_stream_frame`, `gibbs_never_alters_originals_partial` are instances of the ones above. -/
theorem gibbsOps_is_stream (t : Nat) (pars : List Nat) (vals : Nat → Nat → Int) (n : Nat) :
    gibbsOps t pars vals n = streamOps t pars (fun k _ q => vals k q) n := by
  induction n with
  | zero => rfl
  | succ n ih => simp only [gibbsOps, streamOps, sweepOps, ih]

/-- **versions_gauss_seidel.**  The chain index passed for variable `q` when block `p` is updated in sweep `k` is the
    draw of this sweep if `q` precedes `p`, else the previous one — never older, never from the future; the
    construction sweep of `HybridGibbs` passes initial points only. -/
theorem versions_gauss_seidel (pars : List Nat) (k p q : Nat) :
    (k ≤ versionLegacy pars k p q ∧ versionLegacy pars k p q ≤ k + 1 ∧
      (versionLegacy pars k p q = k + 1 ↔ pars.idxOf q < pars.idxOf p)) ∧
    versionHybrid pars 0 p q = 0 ∧ versionHybrid pars (k + 1) p q = versionLegacy pars k p q := by
  unfold versionLegacy versionHybrid
  refine ⟨?_, rfl, ?_⟩
  · split <;> omega
  · simp

end CuqiVerif.C11
