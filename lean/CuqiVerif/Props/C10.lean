import CuqiVerif.Model.C10
import Mathlib.Probability.Distributions.Gamma
import Mathlib.Analysis.SpecialFunctions.Pow.Real
import Mathlib.Analysis.SpecialFunctions.Log.Basic
import Mathlib.Tactic.Ring
import Mathlib.Tactic.Linarith
import Mathlib.Tactic.Positivity
import Mathlib.Tactic.NormNum

open ProbabilityTheory Real

namespace CuqiVerif.C10

/-- log of a density kernel `s^a e^{-b s}` along the hyper-parameter -/
noncomputable def logKernel (a b s : ℝ) : ℝ := a * Real.log s - b * s

/-- **Log-density of the Gamma the samplers draw from** (Mathlib's `gammaPDFReal`, shape `a`,
    rate `r`): `log f(s) = a log r - log Γ(a) + (a-1) log s - r s` for every `s > 0`. -/
theorem log_gammaPDFReal {a r s : ℝ} (ha : 0 < a) (hr : 0 < r) (hs : 0 < s) :
    Real.log (gammaPDFReal a r s) = (a * Real.log r - Real.log (Real.Gamma a)) + logKernel (a - 1) r s := by
  unfold gammaPDFReal logKernel
  rw [if_pos hs.le]
  have h1 : 0 < r ^ a := Real.rpow_pos_of_pos hr a
  have h2 : 0 < Real.Gamma a := Real.Gamma_pos_of_pos ha
  have h3 : 0 < s ^ (a - 1) := Real.rpow_pos_of_pos hs _
  rw [Real.log_mul (by positivity) (by positivity), Real.log_mul (by positivity) (by positivity),
    Real.log_div h1.ne' h2.ne', Real.log_rpow hr, Real.log_rpow hs, Real.log_exp]
  ring

end CuqiVerif.C10
