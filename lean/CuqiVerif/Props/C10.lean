import CuqiVerif.Proofs.C10
import Mathlib.Probability.Distributions.Gamma
import Mathlib.Analysis.SpecialFunctions.Pow.Real
import Mathlib.Analysis.SpecialFunctions.Log.Basic
import Mathlib.Tactic.Ring
import Mathlib.Tactic.Linarith
import Mathlib.Tactic.Positivity
import Mathlib.Tactic.NormNum
import Mathlib.Tactic.FieldSimp
import Mathlib.Tactic.IntervalCases

/-!
# C10 — conjugate and direct samplers draw from the exact conditional: property theorems

All statements are about the executable definitions of `Model/C10.lean` (the ones the driver runs;
rationals are cast into `ℝ` where analysis is needed) or about generic real/ring statements that
they instantiate.  `gammaPDFReal` is Mathlib's Gamma density (`Mathlib.Probability.Distributions.Gamma`).

1. analysis: log-density of the Gamma, proportionality of kernels (`conj_proportional_iff`);
2. the model's exactness flag, Gaussian / GMRF instances, the periodic/Neumann finding;
3. the target's kernel and the quadratic forms (any square-root factor, regularised factor);
4. the validators' decision procedures (soundness, power family, probe incompleteness, legacy);
5. Direct: the chain is the target's own draw stream;
6. a dependence outside the structure can never be sampled exactly.
-/

open ProbabilityTheory Real

namespace CuqiVerif.C10
open CuqiVerif.C20 (BC FMat)

/-! ## 1. Analysis -/

/-- log of a density kernel `s^a e^{-b s}` along the hyper-parameter -/
noncomputable def logKernel (a b s : ℝ) : ℝ := a * Real.log s - b * s

/-- **Log-density of the Gamma the samplers draw from** (Mathlib's `gammaPDFReal`, shape `a`, rate
    `r`): `log f(s) = a log r - log Γ(a) + (a-1) log s - r s` for every `s > 0`. -/
theorem log_gammaPDFReal {a r s : ℝ} (ha : 0 < a) (hr : 0 < r) (hs : 0 < s) :
    Real.log (gammaPDFReal a r s) = (a * Real.log r - Real.log (Real.Gamma a)) + logKernel (a - 1) r s := by
  unfold gammaPDFReal logKernel
  rw [if_pos hs.le]
  have h1 : 0 < r ^ a := Real.rpow_pos_of_pos hr a
  have h2 : 0 < Real.Gamma a := Real.Gamma_pos_of_pos ha
  have h3 : 0 < s ^ (a - 1) := Real.rpow_pos_of_pos hs _
  rw [Real.log_mul (by positivity) (by positivity), Real.log_mul (by positivity) (by positivity),
    Real.log_div h1.ne' h2.ne', Real.log_rpow hr, Real.log_rpow hs, Real.log_exp]
  ring

example : Real.log (gammaPDFReal 2 3 1) = (2 * Real.log 3 - Real.log (Real.Gamma 2)) + logKernel (2 - 1) 3 1 :=
  log_gammaPDFReal (by norm_num) (by norm_num) (by norm_num)

/-- **Two kernels `s^a e^{-bs}`, `s^{a'} e^{-b's}` are proportional on `s > 0` iff `a = a'` and
    `b = b'`** (both directions; `log 2 ≠ 0` separates the `log s` and the `s` parts). -/
theorem logKernel_gap_const_iff (a b a' b' : ℝ) :
    (∃ C, ∀ s : ℝ, 0 < s → logKernel a b s - logKernel a' b' s = C) ↔ (a = a' ∧ b = b') := by
  constructor
  · rintro ⟨C, h⟩
    have h1 := h 1 one_pos
    have h2 := h 2 two_pos
    have h4 := h 4 (by norm_num)
    have l4 : Real.log 4 = 2 * Real.log 2 := by
      rw [show (4 : ℝ) = 2 ^ 2 by norm_num, Real.log_pow]; norm_num
    have l2 : 0 < Real.log 2 := Real.log_pos (by norm_num)
    unfold logKernel at h1 h2 h4
    rw [Real.log_one] at h1
    rw [l4] at h4
    have hy : b = b' := by nlinarith
    have hx : (a - a') * Real.log 2 = 0 := by nlinarith
    rcases mul_eq_zero.1 hx with h0 | h0
    · exact ⟨by linarith, hy⟩
    · exact absurd h0 l2.ne'
  · rintro ⟨rfl, rfl⟩
    exact ⟨0, fun s _ => sub_self _⟩

example : ¬ ∃ C, ∀ s : ℝ, 0 < s → logKernel (9 / 2) 5 s - logKernel 4 5 s = C := by
  rw [logKernel_gap_const_iff]; norm_num

/-- **`conj_proportional` (real level).** The density of `Gamma(shape, rate)` is proportional on
    `s > 0` to a target whose log-density along the hyper-parameter is `a log s - b s + const`
    **iff** `shape - 1 = a` and `rate = b`.  ⇐ is the property; ⇒ says nothing else can be exact. -/
theorem conj_proportional_iff {shape rate : ℝ} (hsh : 0 < shape) (hr : 0 < rate) (a b : ℝ) :
    (∃ C, ∀ s : ℝ, 0 < s → Real.log (gammaPDFReal shape rate s) - logKernel a b s = C)
      ↔ (shape - 1 = a ∧ rate = b) := by
  rw [← logKernel_gap_const_iff]
  constructor
  · rintro ⟨C, h⟩
    refine ⟨C - (shape * Real.log rate - Real.log (Real.Gamma shape)), fun s hs => ?_⟩
    have := h s hs
    rw [log_gammaPDFReal hsh hr hs] at this
    linarith
  · rintro ⟨C, h⟩
    refine ⟨C + (shape * Real.log rate - Real.log (Real.Gamma shape)), fun s hs => ?_⟩
    rw [log_gammaPDFReal hsh hr hs]
    have := h s hs
    linarith

example : ∃ C, ∀ s : ℝ, 0 < s → Real.log (gammaPDFReal (9 / 2) 5 s) - logKernel (7 / 2) 5 s = C :=
  (conj_proportional_iff (by norm_num) (by norm_num) _ _).2 ⟨by norm_num, rfl⟩


/-! ## 2. Exactness of the sampler's Gamma, decided on the model -/

/-- **The model's exactness flag (what the driver prints) is `m = r` and `q_used = q_target`:**
    the Gamma built by `sample()`/`step()` matches the target's own kernel iff the count `m` the
    sampler uses equals the rank the likelihood reports and the quadratic form it evaluates is the
    one in the likelihood's log-density.  Any likelihood (`Quad`), any data, any `α β`. -/
theorem outcome_exact_iff (reg : Bool) (Q : Quad) (b : List ℚ) (α β : ℚ) :
    (outcome reg Q b α β).exact = true ↔ (mOf reg b = Q.rank ∧ Q.used = Q.target) := by
  unfold Outcome.exact outcome conjGamma
  simp only [Bool.and_eq_true, beq_iff_eq]
  constructor
  · rintro ⟨h1, h2⟩
    refine ⟨?_, by linarith⟩
    have : ((mOf reg b : ℕ) : ℚ) = (Q.rank : ℚ) := by linarith
    exact_mod_cast this
  · rintro ⟨h1, h2⟩
    rw [h1, h2]
    exact ⟨by ring, rfl⟩

example : (outcome false ⟨6, 6, 3⟩ [1, 2, 3] 2 3).exact = true :=
  (outcome_exact_iff _ _ _ _ _).2 ⟨rfl, rfl⟩

/-- **`conj_proportional` for the executable model.**  For every outcome the driver can compute
    (positive shape and rate): the density of the Gamma drawn from is proportional on `s > 0` to
    the target kernel `s^tLog e^{-tLin s}` **iff** the model's `exact` flag is `true`. -/
theorem sampler_exact_iff (o : Outcome) (hsh : 0 < o.gamma.shape) (hr : 0 < o.gamma.rate) :
    (∃ C, ∀ s : ℝ, 0 < s →
        Real.log (gammaPDFReal (o.gamma.shape : ℝ) (o.gamma.rate : ℝ) s)
          - logKernel (o.tLog : ℝ) (o.tLin : ℝ) s = C)
      ↔ o.exact = true := by
  rw [conj_proportional_iff (by exact_mod_cast hsh) (by exact_mod_cast hr)]
  unfold Outcome.exact
  simp only [Bool.and_eq_true, beq_iff_eq]
  constructor
  · rintro ⟨h1, h2⟩
    exact ⟨by exact_mod_cast h1, by exact_mod_cast h2⟩
  · rintro ⟨h1, h2⟩
    exact ⟨by exact_mod_cast congrArg (fun x : ℚ => (x : ℝ)) h1, by exact_mod_cast h2⟩

example : ∃ C, ∀ s : ℝ, 0 < s →
    Real.log (gammaPDFReal ((outcome false ⟨6, 6, 3⟩ [1, 2, 3] 2 3).gamma.shape : ℝ)
      ((outcome false ⟨6, 6, 3⟩ [1, 2, 3] 2 3).gamma.rate : ℝ) s)
      - logKernel ((outcome false ⟨6, 6, 3⟩ [1, 2, 3] 2 3).tLog : ℝ) ((outcome false ⟨6, 6, 3⟩ [1, 2, 3] 2 3).tLin : ℝ) s = C :=
  (sampler_exact_iff _ (by simp [outcome, conjGamma, mOf]; norm_num) (by simp [outcome, conjGamma]; norm_num)).2
    ((outcome_exact_iff _ _ _ _ _).2 ⟨rfl, rfl⟩)

/-- **Proportionality in density form:** when the flag is `true`, `gammaPDFReal shape rate s =
    C · s^tLog · e^{-tLin s}` on `s > 0` with the explicit constant `C = rate^shape / Γ(shape) > 0`. -/
theorem density_proportional (o : Outcome) (hsh : 0 < o.gamma.shape) (hr : 0 < o.gamma.rate)
    (hex : o.exact = true) :
    ∃ C : ℝ, 0 < C ∧ ∀ s : ℝ, 0 < s →
      gammaPDFReal (o.gamma.shape : ℝ) (o.gamma.rate : ℝ) s
        = C * (s ^ (o.tLog : ℝ) * Real.exp (-((o.tLin : ℝ) * s))) := by
  unfold Outcome.exact at hex
  simp only [Bool.and_eq_true, beq_iff_eq] at hex
  obtain ⟨h1, h2⟩ := hex
  have hshR : (0 : ℝ) < (o.gamma.shape : ℝ) := by exact_mod_cast hsh
  have hrR : (0 : ℝ) < (o.gamma.rate : ℝ) := by exact_mod_cast hr
  refine ⟨(o.gamma.rate : ℝ) ^ (o.gamma.shape : ℝ) / Real.Gamma (o.gamma.shape : ℝ), ?_, fun s hs => ?_⟩
  · exact div_pos (Real.rpow_pos_of_pos hrR _) (Real.Gamma_pos_of_pos hshR)
  · unfold gammaPDFReal
    rw [if_pos hs.le, ← h1, ← h2]
    push_cast
    ring

/-- **Gaussian likelihood (covariance `1/s` or precision `s`, any dimension `n`, any forward-model
    output `Ax`, any data vector of length `n`, any `c1`, `α`, `β`): the sampler is exact.** -/
theorem gauss_exact (n : ℕ) (c1 : ℚ) (ax b : List ℚ) (α β : ℚ) (hb : b.length = n) :
    (outcome false (gaussQuad n c1 ax b) b α β).exact = true := by
  rw [outcome_exact_iff]
  exact ⟨by simp [mOf, gaussQuad, hb], rfl⟩

example : (outcome false (gaussQuad 3 1 [0, 1, 2] [1, 1, 5]) [1, 1, 5] 2 3).exact = true :=
  gauss_exact 3 1 _ _ 2 3 rfl

/-- **GMRF with zero boundary condition, every order, 1-D and 2-D, every size: exact.** -/
theorem gmrf_zero_exact (order pd n : ℕ) (c1 : ℚ) (mean b : List ℚ) (α β : ℚ)
    (hb : b.length = gmrfDim pd n) :
    (outcome false (gmrfQuad order .zero pd n c1 mean b) b α β).exact = true := by
  rw [outcome_exact_iff]
  refine ⟨by simp [mOf, gmrfQuad, C20.declaredRank, hb], ?_⟩
  simp [gmrfQuad, gmrfReg]

example : (outcome false (gmrfQuad 2 .zero 1 4 1 [0, 0, 0, 0] [1, 2, 0, 5]) [1, 2, 0, 5] 2 3).exact = true :=
  gmrf_zero_exact 2 1 4 1 _ _ 2 3 rfl

/-- **Expected finding (DESIGN §5 no. 18), for all orders, sizes, data:** with periodic or Neumann
    boundary conditions the GMRF reports rank `dim - 1` while the sampler counts `m = len(b) = dim`:
    the Gamma drawn from is *never* proportional to the posterior (by `sampler_exact_iff`). -/
theorem gmrf_nonzero_bc_not_exact (order : ℕ) (bc : BC) (pd n : ℕ) (c1 : ℚ) (mean b : List ℚ) (α β : ℚ)
    (hbc : bc ≠ .zero) (hb : b.length = gmrfDim pd n) (hd : 0 < gmrfDim pd n) :
    (outcome false (gmrfQuad order bc pd n c1 mean b) b α β).exact = false := by
  rw [Bool.eq_false_iff, Ne, outcome_exact_iff]
  rintro ⟨h, -⟩
  have hr : (gmrfQuad order bc pd n c1 mean b).rank = gmrfDim pd n - 1 := by
    cases bc <;> simp_all [gmrfQuad, C20.declaredRank]
  rw [hr] at h
  simp only [mOf, Bool.false_eq_true, if_false] at h
  omega

example : (outcome false (gmrfQuad 1 .periodic 1 5 1 [0, 0, 0, 0, 0] [0, 1, 2, 3, 4]) [0, 1, 2, 3, 4] 2 3).exact = false :=
  gmrf_nonzero_bc_not_exact 1 .periodic 1 5 1 _ _ 2 3 (by decide) rfl (by decide)

/-- **Size of the rate defect:** the quadratic form the sampler evaluates exceeds the one in the
    GMRF's own density by `c1 · reg · ‖x - mean‖²`, `reg = 0` (zero bc) or `2⁻²⁶` (periodic/Neumann). -/
theorem gmrf_used_eq_target_add (order : ℕ) (bc : BC) (pd n : ℕ) (c1 : ℚ) (mean b : List ℚ) :
    (gmrfQuad order bc pd n c1 mean b).used
      = (gmrfQuad order bc pd n c1 mean b).target
        + c1 * (gmrfReg bc * normSq (gmrfDim pd n) (dev mean b)) := by
  simp only [gmrfQuad]; ring


/-! ## 3. The target's own kernel, and the quadratic forms -/

/-- **Where `tLog`, `tLin` come from:** the likelihood kernel of a Gaussian with precision `s·P₁`
    and reported rank `r` (`s^{r/2} e^{-s q/2}`, `q = vᵀP₁v`) times the `Gamma(α, β)` prior density
    has log `(r/2 + α - 1) log s - (q/2 + β) s + const` on `s > 0`. -/
theorem posterior_kernel {r q α β s : ℝ} (hα : 0 < α) (hβ : 0 < β) (hs : 0 < s) :
    Real.log (s ^ (r / 2) * Real.exp (-(s * q / 2)) * gammaPDFReal α β s)
      = logKernel (r / 2 + α - 1) (q / 2 + β) s + (α * Real.log β - Real.log (Real.Gamma α)) := by
  have h1 : 0 < s ^ (r / 2) := Real.rpow_pos_of_pos hs _
  have h3 : 0 < gammaPDFReal α β s := gammaPDFReal_pos hα hβ hs
  rw [Real.log_mul (by positivity) h3.ne', Real.log_mul h1.ne' (Real.exp_pos _).ne',
    Real.log_rpow hs, Real.log_exp, log_gammaPDFReal hα hβ hs]
  unfold logKernel
  ring

example : Real.log ((2 : ℝ) ^ ((3 : ℝ) / 2) * Real.exp (-(2 * 6 / 2)) * gammaPDFReal 2 3 2)
    = logKernel (3 / 2 + 2 - 1) (6 / 2 + 3) 2 + (2 * Real.log 3 - Real.log (Real.Gamma 2)) :=
  posterior_kernel (by norm_num) (by norm_num) (by norm_num)

/-- the model's outcome is exactly: target kernel `(r/2 + α - 1, qₜ/2 + β)` and the code's
    `Gamma(m/2 + α, q/2 + β)` -/
theorem outcome_kernel (reg : Bool) (Q : Quad) (b : List ℚ) (α β : ℚ) :
    (outcome reg Q b α β).tLog = (Q.rank : ℚ) / 2 + α - 1 ∧ (outcome reg Q b α β).tLin = Q.target / 2 + β ∧
    (outcome reg Q b α β).gamma = conjGamma (mOf reg b) α β Q.used := ⟨rfl, rfl, rfl⟩

section quad
variable {R : Type*} [CommRing R]

/-- **`‖L v‖² = vᵀ P v` for *any* factor with `LᵀL = P`** (any commutative ring, any shape): the
    model evaluates the rational right-hand side; the code evaluates the left-hand side with whatever
    Cholesky factor `sqrtprec` returns. -/
theorem sqrt_factor_quadratic (m n : ℕ) (L P : ℕ → ℕ → R) (v : ℕ → R)
    (hP : ∀ i j, i < n → j < n → P i j = ∑ k ∈ Finset.range m, L k i * L k j) :
    ∑ k ∈ Finset.range m, (∑ j ∈ Finset.range n, L k j * v j) ^ 2
      = ∑ i ∈ Finset.range n, v i * ∑ j ∈ Finset.range n, P i j * v j := by
  have rhs : ∑ i ∈ Finset.range n, v i * ∑ j ∈ Finset.range n, P i j * v j
      = ∑ i ∈ Finset.range n, ∑ j ∈ Finset.range n, ∑ k ∈ Finset.range m, v i * (L k i * L k j * v j) := by
    refine Finset.sum_congr rfl fun i hi => ?_
    rw [Finset.mul_sum]
    refine Finset.sum_congr rfl fun j hj => ?_
    rw [hP i j (Finset.mem_range.1 hi) (Finset.mem_range.1 hj), Finset.sum_mul, Finset.mul_sum]
  rw [rhs]
  have lhs : ∀ k, (∑ j ∈ Finset.range n, L k j * v j) ^ 2
      = ∑ i ∈ Finset.range n, ∑ j ∈ Finset.range n, v i * (L k i * L k j * v j) := by
    intro k
    rw [pow_two, Finset.sum_mul_sum]
    exact Finset.sum_congr rfl fun i _ => Finset.sum_congr rfl fun j _ => by ring
  simp only [lhs]
  rw [Finset.sum_comm]
  refine Finset.sum_congr rfl fun i _ => ?_
  rw [Finset.sum_comm]

example : ∑ k ∈ Finset.range 1, (∑ j ∈ Finset.range 2, (fun _ j => ((j : ℤ) + 1)) k j * (fun j => (j : ℤ) + 3) j) ^ 2
    = ∑ i ∈ Finset.range 2, (fun j => (j : ℤ) + 3) i *
        ∑ j ∈ Finset.range 2, (fun i j => ((i : ℤ) + 1) * ((j : ℤ) + 1)) i j * (fun j => (j : ℤ) + 3) j :=
  sqrt_factor_quadratic 1 2 _ _ _ (fun i j _ _ => by simp)

/-- `vᵀ(P + εI)v = vᵀPv + ε‖v‖²` — the regularised factor of periodic/Neumann GMRFs. -/
theorem regularised_quadratic (n : ℕ) (P : ℕ → ℕ → R) (ε : R) (v : ℕ → R) :
    ∑ i ∈ Finset.range n, v i * ∑ j ∈ Finset.range n, (P i j + if i = j then ε else 0) * v j
      = ∑ i ∈ Finset.range n, v i * ∑ j ∈ Finset.range n, P i j * v j + ε * ∑ i ∈ Finset.range n, v i ^ 2 := by
  rw [Finset.mul_sum, ← Finset.sum_add_distrib]
  refine Finset.sum_congr rfl fun i hi => ?_
  simp only [add_mul, Finset.sum_add_distrib, ite_mul, zero_mul]
  rw [Finset.sum_ite_eq, if_pos hi]
  ring

end quad

/-- the model's `‖D v‖²` is the quadratic form of the precision `DᵀD` of C20 (`gram`) -/
theorem normSqD_eq_gram_form (D : FMat) (v : ℕ → ℚ) :
    normSqD D v = ∑ i ∈ Finset.range D.cols, v i * C20.apply (C20.gram D) v i := by
  rw [normSqD_eq, C20.gram_quadratic_form]

/-- the GMRF operator of every supported order / boundary condition acts on `dim` components -/
theorem gmrfOp_cols (order : ℕ) (bc : BC) (pd n : ℕ) (ho : order ≤ 2)
    (hbc : bc = .zero ∨ bc = .periodic ∨ bc = .neumann) :
    (gmrfOp order bc pd n).cols = gmrfDim pd n := by
  have h1 : (C20.diffOp order bc n).cols = n := by
    rcases hbc with rfl | rfl | rfl <;> interval_cases order <;> rfl
  unfold gmrfOp gmrfDim
  split_ifs
  · show n * (C20.diffOp order bc n).cols = n * n
    rw [h1]
  · exact h1

/-- **GMRF quadratic forms of the model, as forms of the C20 precision:** the sampler's `q` is
    `c1 · vᵀ(DᵀD + reg·I)v`, the density's is `c1 · vᵀ DᵀD v` (every order, bc, 1-D/2-D, size). -/
theorem gmrf_used_is_regularised_form (order : ℕ) (bc : BC) (pd n : ℕ) (c1 : ℚ) (mean b : List ℚ)
    (ho : order ≤ 2) (hbc : bc = .zero ∨ bc = .periodic ∨ bc = .neumann) :
    (gmrfQuad order bc pd n c1 mean b).used
      = c1 * ∑ i ∈ Finset.range (gmrfDim pd n), dev mean b i *
          (C20.apply (C20.gram (gmrfOp order bc pd n)) (dev mean b) i + gmrfReg bc * dev mean b i) ∧
    (gmrfQuad order bc pd n c1 mean b).target
      = c1 * ∑ i ∈ Finset.range (gmrfDim pd n), dev mean b i *
          C20.apply (C20.gram (gmrfOp order bc pd n)) (dev mean b) i := by
  have hc := gmrfOp_cols order bc pd n ho hbc
  simp only [gmrfQuad]
  rw [normSqD_eq_gram_form, hc, normSq_eq]
  refine ⟨?_, rfl⟩
  congr 1
  rw [Finset.mul_sum, ← Finset.sum_add_distrib]
  exact Finset.sum_congr rfl fun i _ => by ring


/-! ## 4. Validation -/

lemma checkParameter_ok_imp (vars : List MutVar) (h : checkParameter vars ["cov", "prec"] = .ok) :
    ∃ v, vars.filter (fun v => v.callable && v.hasPar) = [v] ∧
      ((v.key = "prec" ∧ identityCheck v.probes = true) ∨
       (v.key = "cov" ∧ reciprocalCheck (probePoints.zip v.probes) = .ok)) := by
  unfold checkParameter at h
  split at h
  · exact absurd h (by decide)
  · next v hv =>
    refine ⟨v, hv, ?_⟩
    split_ifs at h with h1 h2 h3
    · exact Or.inl ⟨h1.1, h2⟩
    · have : v.key = "cov" ∨ v.key = "prec" := by simpa using h3
      rcases this with hk | hk
      · exact Or.inr ⟨hk, h⟩
      · exact absurd ⟨hk, by decide⟩ h1
  · exact absurd h (by decide)

/-- **`validate_rejects` (soundness of the experimental validator's decision procedure).**
    Whatever is accepted is a Posterior with a *scalar Gamma* prior, a Gaussian/GMRF-type likelihood,
    *exactly one* mutable variable depending on the hyper-parameter, under key `prec` passing the
    identity probes or under key `cov` passing the reciprocal probes.  Everything else raises. -/
theorem validateExp_ok_imp (t : Target) (h : validateExp t = .ok) :
    t.isPosterior = true ∧ t.priorGamma = true ∧ t.priorDim = 1 ∧
    (t.lik = .gaussian ∨ t.lik = .gmrf ∨ t.lik = .regGaussian ∨ t.lik = .regGMRF) ∧
    ∃ v, t.vars.filter (fun v => v.callable && v.hasPar) = [v] ∧
      ((v.key = "prec" ∧ identityCheck v.probes = true) ∨
       (v.key = "cov" ∧ reciprocalCheck (probePoints.zip v.probes) = .ok)) := by
  rcases t with ⟨isP, lik, pg, pdim, preset, loc, vars⟩
  by_cases hd : pdim = 1
  · subst hd
    cases isP <;> cases pg <;> cases preset <;> cases lik <;>
      simp [validateExp] at h ⊢ <;> exact checkParameter_ok_imp _ h
  · cases isP <;> cases pg <;> cases preset <;> cases lik <;> simp [validateExp, hd] at h

/-- non-scalar Gamma ⇒ rejected -/
theorem validateExp_rejects_nonscalar_gamma (t : Target) (h : t.priorDim ≠ 1) : validateExp t ≠ .ok :=
  fun hok => h (validateExp_ok_imp t hok).2.2.1

/-- several occurrences of the hyper-parameter ⇒ rejected -/
theorem validateExp_rejects_multiple (t : Target)
    (h : 2 ≤ (t.vars.filter (fun v => v.callable && v.hasPar)).length) : validateExp t ≠ .ok := by
  intro hok
  obtain ⟨v, hv, -⟩ := (validateExp_ok_imp t hok).2.2.2.2
  rw [hv] at h
  simp at h

/-- dependence through any key other than `cov` / `prec` (`sqrtprec`, `sqrtcov`, `mean`) ⇒ rejected -/
theorem validateExp_rejects_other_key (t : Target) (v : MutVar)
    (hv : t.vars.filter (fun v => v.callable && v.hasPar) = [v]) (hk : v.key ≠ "cov" ∧ v.key ≠ "prec") :
    validateExp t ≠ .ok := by
  intro hok
  obtain ⟨w, hw, hkey⟩ := (validateExp_ok_imp t hok).2.2.2.2
  rw [hv] at hw
  obtain rfl : v = w := by simpa using hw
  rcases hkey with ⟨h, -⟩ | ⟨h, -⟩
  · exact hk.2 h
  · exact hk.1 h

/-- LMRF / other likelihoods are not sampled approximately by the exact sampler ⇒ rejected -/
theorem validateExp_rejects_other_likelihood (t : Target) (h : t.lik = .lmrf ∨ t.lik = .other) :
    validateExp t ≠ .ok := by
  intro hok
  have := (validateExp_ok_imp t hok).2.2.2.1
  rcases h with h | h <;> simp [h] at this


lemma identityCheck_three (a b c : ℚ) :
    identityCheck [[a], [b], [c]] = true ↔
      (allcloseTol a 1 = true ∧ allcloseTol b 10 = true ∧ allcloseTol c 100 = true) := by
  simp [identityCheck, probePoints]

lemma reciprocalCheck_three (a b c : ℚ) :
    reciprocalCheck (probePoints.zip [[a], [b], [c]]) = .ok ↔
      (iscloseTol a (1 / 1) = true ∧ iscloseTol b (1 / 10) = true ∧ iscloseTol c (1 / 100) = true) := by
  simp only [probePoints, List.zip_cons_cons, List.zip_nil_right, reciprocalCheck]
  split_ifs with h1 h2 h3 <;> simp_all

/-- **`validate_sound_on_power_family`, precision key.**  Among `s ↦ c·s^p` (`p ∈ ℤ`, `c ∈ ℚ`) only
    `p = 1` with `|c - 1| ≤ 1.001·10⁻⁵` passes the probes (`2s`, `s²`, `1/s`, `1/s²`, constants are
    rejected).  Factors `c` inside the band are harmless: `c` enters `q` through `L` at `s = 1`. -/
theorem identityCheck_power_family (c : ℚ) (p : ℤ)
    (h : identityCheck [[c], [c * 10 ^ p], [c * 100 ^ p]] = true) :
    p = 1 ∧ |c - 1| ≤ 1 / 100000 + 1 / 100000000 := by
  rw [identityCheck_three] at h
  obtain ⟨h1, h10, -⟩ := h
  rw [allcloseTol_iff] at h1 h10
  have a1 : |(1 : ℚ)| = 1 := abs_one
  have a10 : |(10 : ℚ)| = 10 := by norm_num
  rw [a1] at h1
  rw [a10] at h10
  obtain ⟨l1, u1⟩ := abs_le.1 h1
  obtain ⟨l10, u10⟩ := abs_le.1 h10
  refine ⟨?_, by linarith⟩
  by_contra hp
  rcases lt_or_gt_of_ne hp with hlt | hgt
  · have hz : (10 : ℚ) ^ p ≤ 1 := zpow_le_one_of_nonpos₀ (by norm_num) (by omega)
    have hpos : (0 : ℚ) < 10 ^ p := by positivity
    nlinarith
  · have hz : (10 : ℚ) ^ (2 : ℤ) ≤ 10 ^ p := zpow_le_zpow_right₀ (by norm_num) (by omega)
    have h100 : (10 : ℚ) ^ (2 : ℤ) = 100 := by norm_num
    rw [h100] at hz
    nlinarith

example : identityCheck [[2 * 1], [2 * 10], [2 * 100]] = false := by
  rw [Bool.eq_false_iff]; intro h
  have := (identityCheck_power_family 2 1 (by simpa using h)).2
  norm_num at this

/-- **`validate_sound_on_power_family`, covariance key:** only `p = -1`, `|c - 1| ≤ 2·10⁻⁹`. -/
theorem reciprocalCheck_power_family (c : ℚ) (p : ℤ)
    (h : reciprocalCheck (probePoints.zip [[c], [c * 10 ^ p], [c * 100 ^ p]]) = .ok) :
    p = -1 ∧ |c - 1| ≤ 2 / 1000000000 := by
  rw [reciprocalCheck_three] at h
  obtain ⟨h1, h10, -⟩ := h
  rw [iscloseTol_iff] at h1 h10
  have m1 : max |c| |(1 : ℚ) / 1| ≤ |c - 1| + 1 := by
    rw [div_one, abs_one]
    refine max_le ?_ (by linarith [abs_nonneg (c - 1)])
    calc |c| = |(c - 1) + 1| := by ring_nf
      _ ≤ |c - 1| + |(1 : ℚ)| := abs_add_le _ _
      _ = |c - 1| + 1 := by rw [abs_one]
  rw [div_one] at h1
  have hc : |c - 1| ≤ 2 / 1000000000 := by
    have := mul_le_mul_of_nonneg_left m1 (show (0 : ℚ) ≤ 1 / 1000000000 by norm_num)
    rw [div_one] at this
    linarith
  refine ⟨?_, hc⟩
  obtain ⟨lc, uc⟩ := abs_le.1 hc
  have hpos : (0 : ℚ) < 10 ^ p := by positivity
  have hx : 0 < c * 10 ^ p := mul_pos (by linarith) hpos
  have m10 : max |c * 10 ^ p| |(1 : ℚ) / 10| ≤ c * 10 ^ p + 1 / 10 := by
    rw [abs_of_pos hx, abs_of_pos (by norm_num : (0 : ℚ) < 1 / 10)]
    exact max_le (by linarith) (by linarith)
  have h10' : |c * 10 ^ p - 1 / 10| ≤ 1 / 1000000000 * (c * 10 ^ p + 1 / 10) :=
    h10.trans (mul_le_mul_of_nonneg_left m10 (by norm_num))
  obtain ⟨l10, u10⟩ := abs_le.1 h10'
  by_contra hp
  rcases lt_or_gt_of_ne hp with hlt | hgt
  · have hz : (10 : ℚ) ^ p ≤ 10 ^ (-2 : ℤ) := zpow_le_zpow_right₀ (by norm_num) (by omega)
    have h100 : (10 : ℚ) ^ (-2 : ℤ) = 1 / 100 := by norm_num
    rw [h100] at hz
    nlinarith
  · have hz : (1 : ℚ) ≤ 10 ^ p := one_le_zpow₀ (by norm_num) (by omega)
    nlinarith

/-- the supported form (and scalings within `10⁻⁵`) passes the identity probes -/
theorem identityCheck_accepts_scaled_identity (c : ℚ) (hc : |c - 1| ≤ 1 / 100000) :
    identityCheck [[c * 1], [c * 10], [c * 100]] = true := by
  rw [identityCheck_three, allcloseTol_iff, allcloseTol_iff, allcloseTol_iff]
  have e1 : c * 1 - 1 = (c - 1) * 1 := by ring
  have e10 : c * 10 - 10 = (c - 1) * 10 := by ring
  have e100 : c * 100 - 100 = (c - 1) * 100 := by ring
  rw [e1, e10, e100, abs_mul, abs_mul, abs_mul]
  have a1 : |(1 : ℚ)| = 1 := abs_one
  have a10 : |(10 : ℚ)| = 10 := by norm_num
  have a100 : |(100 : ℚ)| = 100 := by norm_num
  rw [a1, a10, a100]
  refine ⟨by linarith, by linarith, by linarith⟩

/-- non-vacuity of `validateExp_ok_imp`: a conforming GMRF target is accepted -/
example : validateExp ⟨true, .gmrf, true, 1, true, true,
    [⟨"mean", false, false, []⟩, ⟨"prec", true, true, [[1], [10], [100]]⟩]⟩ = .ok := by
  have hid : identityCheck [[1], [10], [100]] = true := by
    simpa using identityCheck_accepts_scaled_identity 1 (by norm_num)
  simp [validateExp, checkParameter, hid]

/-- the supported form `1/s` passes the reciprocal probes -/
theorem reciprocalCheck_accepts_reciprocal :
    reciprocalCheck (probePoints.zip [[1 / 1], [1 / 10], [1 / 100]]) = .ok := by
  rw [reciprocalCheck_three, iscloseTol_iff, iscloseTol_iff, iscloseTol_iff]
  simp only [sub_self, abs_zero]
  refine ⟨by positivity, by positivity, by positivity⟩


/-- the adversarial dependence `s ↦ s (1 + ((s-1)(s-10)(s-100))² / 10⁶)` -/
def interpolant (s : ℚ) : ℚ := s * (1 + ((s - 1) * (s - 10) * (s - 100)) ^ 2 / 1000000)

/-- **The universal claim "every non-conforming callable is rejected" is false for a three-point
    probe:** `s(1 + ((s-1)(s-10)(s-100))²/10⁶)` is not the identity (value at 2) yet is accepted. -/
theorem identityCheck_interpolant_counterexample :
    interpolant 2 ≠ 2 ∧
    validateExp ⟨true, .gaussian, true, 1, true, true,
      [⟨"mean", false, false, []⟩,
       ⟨"prec", true, true, [[interpolant 1], [interpolant 10], [interpolant 100]]⟩]⟩ = .ok := by
  have e1 : interpolant 1 = 1 := by unfold interpolant; norm_num
  have e10 : interpolant 10 = 10 := by unfold interpolant; norm_num
  have e100 : interpolant 100 = 100 := by unfold interpolant; norm_num
  refine ⟨by unfold interpolant; norm_num, ?_⟩
  have hid : identityCheck [[interpolant 1], [interpolant 10], [interpolant 100]] = true := by
    rw [e1, e10, e100]
    have := identityCheck_accepts_scaled_identity 1 (by norm_num)
    simpa using this
  simp [validateExp, checkParameter, hid]

/-- **Expected negative result (DESIGN §5 no. 19):** the legacy validator does not look at the
    dependence on the hyper-parameter at all. -/
theorem validateLegacy_ignores_vars (t : Target) (vs : List MutVar) :
    validateLegacy { t with vars := vs } = validateLegacy t := rfl

/-- `prec = s²` is accepted by the legacy constructor (rejected by the experimental one) and the
    Gamma it then draws from (`m = 1, α = β = 1, q = 2`) is not proportional to that posterior. -/
theorem legacy_accepts_square_counterexample :
    let t : Target := ⟨true, .gaussian, true, 1, true, true,
      [⟨"mean", false, false, []⟩, ⟨"prec", true, true, [[1], [100], [10000]]⟩]⟩
    validateLegacy t = .ok ∧ validateExp t = .notIdentity ∧
    ¬ ∃ C, ∀ s : ℝ, 0 < s →
      Real.log (gammaPDFReal ((conjGamma 1 1 1 2).shape : ℝ) ((conjGamma 1 1 1 2).rate : ℝ) s)
        - (((1 : ℝ) / 2) * Real.log (s ^ 2) - s ^ 2 * 2 / 2 + logKernel (1 - 1) 1 s) = C := by
  refine ⟨rfl, ?_, ?_⟩
  · have hid : identityCheck [[1], [100], [10000]] = false := by
      rw [Bool.eq_false_iff, Ne, identityCheck_three, allcloseTol_iff, allcloseTol_iff, allcloseTol_iff]
      rintro ⟨-, h, -⟩
      norm_num at h
    simp [validateExp, checkParameter, hid]
  · rintro ⟨C, h⟩
    have hsh : (0 : ℝ) < ((conjGamma 1 1 1 2).shape : ℝ) := by simp [conjGamma]; norm_num
    have hr : (0 : ℝ) < ((conjGamma 1 1 1 2).rate : ℝ) := by simp [conjGamma]
    have h1 := h 1 one_pos
    have h2 := h 2 two_pos
    rw [log_gammaPDFReal hsh hr one_pos] at h1
    rw [log_gammaPDFReal hsh hr two_pos] at h2
    have hs : ((conjGamma 1 1 1 2).shape : ℝ) = 3 / 2 := by simp [conjGamma]; norm_num
    have hrr : ((conjGamma 1 1 1 2).rate : ℝ) = 2 := by simp [conjGamma]; norm_num
    rw [hs, hrr] at h1 h2
    have l4 : Real.log ((2 : ℝ) ^ 2) = 2 * Real.log 2 := by rw [Real.log_pow]; norm_num
    unfold logKernel at h1 h2
    rw [l4] at h2
    simp only [one_pow, Real.log_one] at h1
    have lt : Real.log 2 < 1 := by
      have := Real.log_lt_sub_one_of_pos (show (0 : ℝ) < 2 by norm_num) (by norm_num); linarith
    nlinarith

/-! ## 5. Direct: the chain is the target's own draw stream -/

lemma directValidateN_spec {α : Type} (k : ℕ) (st : Chain α) :
    directValidateN k st = { st with pos := st.pos + k } := by
  induction k generalizing st with
  | zero => rfl
  | succ k ih => rw [directValidateN, ih]; simp [directValidate]; omega

/-- **Direct, `n` steps from any state (induction on `n`):** the stored samples are the next `n`
    draws of the target, in order; every acceptance entry is 1; `n` draws are consumed. -/
theorem directRun_spec {α : Type} (draws : ℕ → α) (n : ℕ) (st : Chain α) :
    (directRun draws n st).samples = st.samples ++ (List.range n).map (fun i => draws (st.pos + i)) ∧
    (directRun draws n st).acc = st.acc ++ List.replicate n 1 ∧
    (directRun draws n st).pos = st.pos + n := by
  induction n generalizing st with
  | zero => simp [directRun]
  | succ n ih =>
    obtain ⟨h1, h2, h3⟩ := ih (directStep draws st)
    rw [directRun]
    refine ⟨?_, ?_, ?_⟩
    · rw [h1, List.range_succ_eq_map, List.map_cons, List.map_map]
      simp only [directStep, List.append_assoc, List.singleton_append, Nat.add_zero]
      congr 2
      apply List.map_congr_left
      intro i _
      simp only [Function.comp, Nat.succ_eq_add_one]
      congr 1; omega
    · rw [h2]; simp [directStep, List.replicate_succ]
    · rw [h3]; simp [directStep]; omega

example : (directRun (fun i => 10 * i) 3 (chainInit 1 0)).samples = [10, 20, 30] := by
  rw [(directRun_spec _ 3 _).1]; rfl

/-- **`direct_is_target_sample`:** after `k` assignments of the target (each spends one trial
    draw in `validate_target`) a run of `N` steps stores exactly the draws `k, …, k+N-1` of the
    target's own `sample` method. -/
theorem direct_is_target_sample {α : Type} (draws : ℕ → α) (k N : ℕ) (x0 : α) :
    (directRun draws N (directValidateN k (chainInit 0 x0))).samples
        = (List.range N).map (fun i => draws (k + i)) ∧
    (directRun draws N (directValidateN k (chainInit 0 x0))).acc = List.replicate (N + 1) 1 := by
  obtain ⟨h1, h2, -⟩ := directRun_spec draws N (directValidateN k (chainInit 0 x0))
  rw [h1, h2, directValidateN_spec]
  simp [chainInit, List.replicate_succ]

/-- no draw of the target is used twice -/
theorem direct_chain_indices_nodup (k N : ℕ) :
    ((directRun (fun i => i) N (directValidateN k (chainInit 0 0))).samples).Nodup := by
  rw [(direct_is_target_sample (fun i => i) k N 0).1]
  exact (List.nodup_range).map (fun a b h => by simpa using h)


/-! ## 6. Dependences outside the structure are never sampled exactly -/

/-- **Why rejection is necessary:** with precision `s²` (rank `r`, misfit `q ≠ 0`, any Gamma prior)
    *no* Gamma distribution is proportional to the posterior — so a sampler that accepts such a
    target (the legacy one) cannot be exact, whatever parameters it uses. -/
theorem square_dependence_never_proportional (shape rate r q α β : ℝ) (hsh : 0 < shape) (hr : 0 < rate)
    (hq : q ≠ 0) :
    ¬ ∃ C, ∀ s : ℝ, 0 < s →
      Real.log (gammaPDFReal shape rate s)
        - ((r / 2) * Real.log (s ^ 2) - s ^ 2 * q / 2 + logKernel (α - 1) β s) = C := by
  rintro ⟨C, h⟩
  have h1 := h 1 one_pos
  have h2 := h 2 two_pos
  have h4 := h 4 (by norm_num)
  have h8 := h 8 (by norm_num)
  rw [log_gammaPDFReal hsh hr one_pos] at h1
  rw [log_gammaPDFReal hsh hr two_pos] at h2
  rw [log_gammaPDFReal hsh hr (by norm_num)] at h4
  rw [log_gammaPDFReal hsh hr (by norm_num)] at h8
  have l4 : Real.log 4 = 2 * Real.log 2 := by
    rw [show (4 : ℝ) = 2 ^ 2 by norm_num, Real.log_pow]; norm_num
  have l8 : Real.log 8 = 3 * Real.log 2 := by
    rw [show (8 : ℝ) = 2 ^ 3 by norm_num, Real.log_pow]; norm_num
  unfold logKernel at h1 h2 h4 h8
  simp only [Real.log_pow, Real.log_one, l4, l8] at h1 h2 h4 h8
  apply hq
  push_cast at h1 h2 h4 h8
  linarith

example : ¬ ∃ C, ∀ s : ℝ, 0 < s → Real.log (gammaPDFReal (3 / 2) 2 s)
    - (((1 : ℝ) / 2) * Real.log (s ^ 2) - s ^ 2 * 2 / 2 + logKernel (1 - 1) 1 s) = C :=
  square_dependence_never_proportional _ _ 1 2 1 1 (by norm_num) (by norm_num) (by norm_num)

/-! ## 7. One Direct sampler, several targets: histories -/

/-- invariant of a history: every stored state is a draw its target has already served, and no
    (target, draw) pair is stored twice -/
def MChain.Fresh (st : MChain) : Prop :=
  (∀ p ∈ st.samples, p.2 < st.pos p.1) ∧ st.samples.Nodup

lemma bump_le (pos : ℕ → ℕ) (t u : ℕ) : pos u ≤ bump pos t u := by
  unfold bump; split_ifs <;> omega

lemma mStep_fresh (st : MChain) (op : DOp) (h : st.Fresh) : (mStep st op).Fresh := by
  obtain ⟨hb, hn⟩ := h
  cases op with
  | assign t => exact ⟨fun p hp => lt_of_lt_of_le (hb p hp) (bump_le _ _ _), hn⟩
  | reinit => exact ⟨fun p hp => by simp [mStep] at hp, by simp [mStep]⟩
  | step =>
    refine ⟨fun p hp => ?_, ?_⟩
    · simp only [mStep, List.mem_append, List.mem_singleton] at hp
      rcases hp with hp | rfl
      · exact lt_of_lt_of_le (hb p hp) (bump_le _ _ _)
      · simp [mStep, bump]
    · simp only [mStep]
      rw [List.nodup_append]
      refine ⟨hn, by simp, fun a ha b hb' => ?_⟩
      simp only [List.mem_singleton] at hb'
      subst hb'
      intro hab
      have := hb a ha
      rw [hab] at this
      exact lt_irrefl _ this

/-- **No draw of any target is ever stored twice, across re-assignments, steps and
    re-initialisations** (every history of operations, by induction on the history). -/
theorem mRun_fresh (ops : List DOp) (st : MChain) (h : st.Fresh) : (mRun st ops).Fresh := by
  induction ops generalizing st with
  | nil => exact h
  | cons op ops ih => exact ih _ (mStep_fresh st op h)

example : (mRun (mInit 0) [.step, .assign 1, .step, .reinit, .step, .assign 0, .step]).Fresh :=
  mRun_fresh _ _ ⟨fun p hp => by simp [mInit] at hp, by simp [mInit]⟩

/-- **A step after an assignment draws from the newly assigned target** — whatever happened
    before (`ops` arbitrary): the state stored is the first draw of `t` after its validation draw. -/
theorem mRun_step_after_assign (st : MChain) (ops : List DOp) (t : ℕ) :
    (mRun st (ops ++ [.assign t, .step])).samples
      = (mRun st ops).samples ++ [(t, (mRun st ops).pos t + 1)] ∧
    (mRun st (ops ++ [.assign t, .step])).cur = t := by
  unfold mRun
  rw [List.foldl_append]
  simp [mStep, bump]

example : (mRun (mInit 0) ([.step, .step] ++ [.assign 7, .step])).samples.getLast? = some (7, 1) := by
  rw [(mRun_step_after_assign _ _ _).1]; simp [mRun, mInit, mStep, bump]

/-- every step stores a draw of the *current* target and nothing else changes the stored chain
    except `reinitialize` (which empties it) -/
theorem mStep_samples (st : MChain) :
    (mStep st .step).samples = st.samples ++ [(st.cur, st.pos st.cur)] ∧
    (∀ t, (mStep st (.assign t)).samples = st.samples) ∧ (mStep st .reinit).samples = [] :=
  ⟨rfl, fun _ => rfl, rfl⟩

end CuqiVerif.C10
