import CuqiVerif.Model.C08_history
import CuqiVerif.Props.C08

/-!
# C08 — histories of a sampler object (`Model/C08_history.lean`)

The property quantifies over histories and says the cached log-density and gradient *always* belong to the
current point.  `runHistory` interprets arbitrary sequences of the operations a caller can perform on an
experimental NUTS object with a user step size: transitions (each starting from the CACHED triple, as `step`
does), `reinitialize()`, and the state round trip `get_state`/`set_state` (`save_checkpoint`/`load_checkpoint`)
into the same or another object.

* `history_coherent`: after every operation of every history the cached triple is coherent (all lengths, all
  draw scripts, all targets of the executable instance) — so each transition of the history starts from a state
  to which the transition theorems (`nutsStep_coherent_finite`, the invariance theorems) apply;
* `history_step_is_nutsStep`: a transition of a history, started from the cached values, is exactly the
  `nutsStep` transition of `Model/C08.lean` started from freshly evaluated values, with the step size and depth
  bound in force;
* `restore_invisible`: the round trip changes nothing a transition depends on;
* `reinit_resets_depth`: `reinitialize()` goes back to the object's initial point with fresh caches, the
  constructor's step size — and the DEFAULT depth bound 15 (quirk of the code: `max_depth` is a state key and the
  setter maps `None` to 15; every fixed depth bound is covered by the property, so this is not a violation).
-/
namespace CuqiVerif.C08

/-- the cached log-density and gradient belong to the current point -/
def HState.coherent (t : Target) (s : HState) : Prop := s.logd = t.logd s.x ∧ s.grad = t.grad s.x

/-- one operation keeps the cached triple coherent -/
lemma hApply_coherent (t : Target) (s : HState) (op : HOp) (h : s.coherent t) :
    (hApply t (fun z => z.logd.isFinite) s op).coherent t := by
  cases op with
  | step r e us =>
    simp only [hApply, hStepLoop]
    cases hl : s.logd with
    | fin l0 =>
      simp only
      have := nutsStep_coherent_finite t s.eps (l0 - (1/2) * dotQ r r - e) (l0 - (1/2) * dotQ r r) s.md
        { x := s.x, r := r, logd := s.logd, grad := s.grad } us ⟨h.1, h.2⟩ (by simp [hl, XR.isFinite])
      simp only [hl] at this
      exact this.1
    | nan => simpa [hl] using h
    | pinf => simpa [hl] using h
    | ninf => simpa [hl] using h
  | reinit => exact ⟨rfl, rfl⟩
  | restore o =>
    cases o with
    | none => exact h
    | some p => obtain ⟨x0', e0'⟩ := p; exact h

/-- **After every operation of every history the cached log-density and gradient belong to the current point.** -/
theorem history_coherent (t : Target) (ops : List HOp) (s : HState) (h : s.coherent t) :
    ∀ s' ∈ runHistory t (fun z => z.logd.isFinite) s ops, s'.coherent t := by
  induction ops generalizing s with
  | nil => intro s' hs; simp [runHistory] at hs
  | cons op ops ih =>
    intro s' hs
    simp only [runHistory, List.mem_cons] at hs
    have h1 := hApply_coherent t s op h
    rcases hs with rfl | hs
    · exact h1
    · exact ih _ h1 s' hs

/-- the start of every history is coherent (`_initialize` evaluates the target at the initial point) -/
example (t : Target) (md : Nat) (eps : Rat) (x0 : List Rat) : (hInit t md eps x0).coherent t := ⟨rfl, rfl⟩

/-- **A transition inside a history is the `nutsStep` transition from freshly evaluated values**: starting from
    the cached triple (as the code does) or from `(x, logd x, grad x)` is the same, with the step size `s.eps`
    and depth bound `s.md` in force. -/
theorem history_step_is_nutsStep (t : Target) (guard : PS → Bool) (s : HState) (h : s.coherent t)
    (r : List Rat) (e : Rat) (us : List Rat) (l0 : Rat) (hl : t.logd s.x = .fin l0) :
    let z0 : PS := { x := s.x, r := r, logd := t.logd s.x, grad := t.grad s.x }
    let ham0 := l0 - (1/2) * dotQ r r
    let st := nutsStep (psCtx t s.eps (ham0 - e) ham0) guard s.md z0 us
    hApply t guard s (.step r e us) = { s with x := st.cur.x, logd := st.cur.logd, grad := st.cur.grad } := by
  intro z0 ham0 st
  have h1 : s.logd = .fin l0 := by rw [h.1, hl]
  simp only [hApply, hStepLoop, h1]
  have hz : ({ x := s.x, r := r, logd := XR.fin l0, grad := s.grad } : PS) = z0 := by
    simp only [z0, hl, h.2]
  simp only [hz]
  rfl

example : (hInit { P := [[1]], b := [0], wall := none } 2 (1/2) [1]).coherent { P := [[1]], b := [0], wall := none } :=
  ⟨rfl, rfl⟩

/-- **The state round trip changes nothing a transition depends on** (triple, step size, depth bound). -/
theorem restore_invisible (t : Target) (guard : PS → Bool) (s : HState) (o : Option (List Rat × Rat)) :
    let s' := hApply t guard s (.restore o)
    s'.x = s.x ∧ s'.logd = s.logd ∧ s'.grad = s.grad ∧ s'.md = s.md ∧ s'.eps = s.eps := by
  cases o with
  | none => exact ⟨rfl, rfl, rfl, rfl, rfl⟩
  | some p => obtain ⟨a, b⟩ := p; exact ⟨rfl, rfl, rfl, rfl, rfl⟩

example : (hApply { P := [[1]], b := [0], wall := none } (fun _ => true)
    (hInit { P := [[1]], b := [0], wall := none } 2 (1/2) [1]) (.restore (some ([3], 1/4)))).md = 2 := rfl

/-- **`reinitialize()`**: back to the object's initial point with freshly evaluated caches and the constructor's step
    size; the depth bound becomes the default 15 whatever the user had set (quirk). -/
theorem reinit_resets_depth (t : Target) (guard : PS → Bool) (s : HState) :
    let s' := hApply t guard s .reinit
    s'.x = s.home ∧ s'.coherent t ∧ s'.eps = s.eps0 ∧ s'.md = 15 :=
  ⟨rfl, ⟨rfl, rfl⟩, rfl, rfl⟩

example : (hApply { P := [[1]], b := [0], wall := none } (fun _ => true)
    (hInit { P := [[1]], b := [0], wall := none } 2 (1/2) [1]) .reinit).md = 15 := rfl

/-- **Histories with target replacement** (`sampler.target = B`, optionally `initial_point = current_point`, then
    `reinitialize()` — what HybridGibbs does with a NUTS sampler in every sweep): after every operation the cached
    log-density and gradient belong to the current point UNDER THE TARGET THEN IN FORCE. -/
theorem history2_coherent (ops : List HOp2) (ts : Target × HState) (h : ts.2.coherent ts.1) :
    ∀ ts' ∈ runHistory2 (fun z => z.logd.isFinite) ts ops, ts'.2.coherent ts'.1 := by
  induction ops generalizing ts with
  | nil => intro ts' hs; simp [runHistory2] at hs
  | cons op ops ih =>
    intro ts' hs
    simp only [runHistory2, List.mem_cons] at hs
    have h1 : (hApply2 (fun z => z.logd.isFinite) ts op).2.coherent (hApply2 (fun z => z.logd.isFinite) ts op).1 := by
      cases op with
      | op o => exact hApply_coherent ts.1 ts.2 o h
      | retarget t' here => exact ⟨rfl, rfl⟩
    rcases hs with rfl | hs
    · exact h1
    · exact ih _ h1 ts' hs

/-- hypotheses satisfiable; after a re-target "here" the point is kept and the caches are those of the new target -/
example :
    let tA : Target := { P := [[1]], b := [0], wall := none }
    let tB : Target := { P := [[4]], b := [1], wall := none }
    let r := hApply2 (fun _ => true) (tA, hInit tA 2 (1/2) [1]) (.retarget tB true)
    r.2.x = [1] ∧ r.2.grad = tB.grad [1] ∧ r.2.md = 15 := ⟨rfl, rfl, rfl⟩

end CuqiVerif.C08
