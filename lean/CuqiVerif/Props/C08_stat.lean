import CuqiVerif.Proofs.C08_stat

/-!
# C08 — the reported acceptance statistic (`Model/C08_stat.lean`)

Property clause: *"the reported acceptance statistic is the mean Metropolis probability over the last doubling"*.

`buildTreeStat` / `loopBodyStat` / `nutsStepStat` transcribe `_BuildTree` and the doubling loop *with* the
accumulators `alpha_prime`, `n_alpha_prime` and the assignment `_current_alpha_ratio = alpha/n_alpha`
(experimental interface; the legacy interface reads the same locals `alpha`, `n_alpha` after its loop).  The
theorems below say, for every phase space, depth, direction, start and draw script:

* the transcription with accumulators computes the same tree / loop state as `Model/C08.lean` (so every theorem
  of `Props/C08*.lean` is about it as well) — `buildTreeStat_tree`, `nutsStepStat_state`;
* `alpha'` is the sum of the leaf weights over exactly the leaves the tree visited and `n_alpha'` their number,
  also when the tree was cut short by a divergence / U-turn — `alpha_stat`, `n_alpha_bounds`;
* after a transition the statistic is that of the sub-tree of the last doubling executed, which exists
  (`max_depth ≥ 0` is enforced by the setter) — `nutsStep_alpha_stat`;
* hence it is a mean of numbers in `[0,1]`, the hypothesis `ha` of `hbar_bounded` — `stat_mean_in_unit`;
* the leaf weight of the executable instance is `min(1, exp(H' - H))` — `xrWeight_metropolis`,
  `nutsStep_reports_mean_metropolis`; a NaN leaf makes the reported number NaN — `nan_leaf_poisons_stat`.
-/
namespace CuqiVerif.C08

section Generic
variable {Z A : Type}

/-- **The transcription with accumulators builds `buildTree`'s tree** and consumes the same draws: the
    statistic is bookkeeping on the side, it influences nothing. -/
theorem buildTreeStat_tree [AddMonoid A] (c : Ctx Z) (w : Z → A) (v : Int) (j : Nat) (z : Z) (us : List Rat) :
    (buildTreeStat c w v j z us).1 = (buildTree c v j z us).1 ∧
    (buildTreeStat c w v j z us).2.2 = (buildTree c v j z us).2 := by
  rw [buildTreeStat_eq]; exact ⟨rfl, rfl⟩

/-- **`alpha'` = Σ of the leaf weights over the visited leaves, `n_alpha'` = their number** — for every depth,
    also when the second half of some sub-tree was not built because the first half reported `s' = 0`
    (then neither its leaves nor its weights exist). -/
theorem alpha_stat [AddMonoid A] (c : Ctx Z) (w : Z → A) (v : Int) (j : Nat) (z : Z) (us : List Rat) :
    (buildTreeStat c w v j z us).2.1 =
      (((buildTree c v j z us).1.leaves.map w).sum, (buildTree c v j z us).1.leaves.length) := by
  rw [buildTreeStat_eq]

/-- `1 ≤ n_alpha' ≤ 2^j`, with equality on the right when the tree reports `s' = 1`; the leaves counted are the
    consecutive leapfrog iterates `orbit c v z n_alpha'`. -/
theorem n_alpha_bounds [AddMonoid A] (c : Ctx Z) (w : Z → A) (v : Int) (j : Nat) (z : Z) (us : List Rat) :
    let r := buildTreeStat c w v j z us
    1 ≤ r.2.1.2 ∧ r.2.1.2 ≤ 2 ^ j ∧ (r.1.s = true → r.2.1.2 = 2 ^ j) ∧ r.1.leaves = orbit c v z r.2.1.2 := by
  intro r
  have I := buildTree_inv c v j z us
  have h : r = _ := buildTreeStat_eq c w v j z us
  rw [h]
  exact ⟨I.len_pos, I.len_le, I.len_full, I.leaves_orbit⟩

/-- the loop with the statistic has the same state as `nutsStep` -/
theorem nutsStepStat_state [AddMonoid A] (c : Ctx Z) (w : Z → A) (guard : Z → Bool) (md : Nat) (z0 : Z)
    (us : List Rat) : (nutsStepStat c w guard md z0 us).1 = nutsStep c guard md z0 us := by
  simp only [nutsStepStat, nutsStep]
  exact loopStat_fst c w guard md (md + 1) _ _

/-- **After every transition the statistic is assigned, and it is `(Σ_{z ∈ last} w z, |last|)` where `last` are
    the leaves visited by the last doubling executed** (`Loop.last` of `nutsStep`, a non-empty list).  In
    particular the value of the previous transition never survives a `step`. -/
theorem nutsStep_alpha_stat [AddMonoid A] (c : Ctx Z) (w : Z → A) (guard : Z → Bool) (md : Nat) (z0 : Z)
    (us : List Rat) :
    (nutsStep c guard md z0 us).last ≠ [] ∧
    (nutsStepStat c w guard md z0 us).2 =
      some (((nutsStep c guard md z0 us).last.map w).sum, (nutsStep c guard md z0 us).last.length) := by
  rw [← nutsStepStat_state c w guard md z0 us]
  simp only [nutsStepStat, loopStat]
  have hc : (true && decide (0 ≤ md)) = true := by simp
  simp only [hc, if_true]
  rw [loopBodyStat_eq]
  exact loopStat_ok c w guard md md _ _ ⟨loopBody_last_ne_nil c guard _, rfl⟩

end Generic

/-- **A mean of leaf weights in `[0,1]` lies in `[0,1]`** — the hypothesis on the acceptance statistics under which
    `hbar_bounded` bounds the dual-averaging state. -/
theorem stat_mean_in_unit {Z : Type} (w : Z → ℚ) (l : List Z) (hl : l ≠ [])
    (hw : ∀ z ∈ l, 0 ≤ w z ∧ w z ≤ 1) :
    0 ≤ (l.map w).sum / (l.length : ℚ) ∧ (l.map w).sum / (l.length : ℚ) ≤ 1 := by
  have hpos : (0 : ℚ) < (l.length : ℚ) := by
    have : 0 < l.length := List.length_pos_iff.mpr hl
    exact_mod_cast this
  have h0 : 0 ≤ (l.map w).sum := by
    apply List.sum_nonneg
    intro x hx
    obtain ⟨z, hz, rfl⟩ := List.mem_map.mp hx
    exact (hw z hz).1
  have h1 : (l.map w).sum ≤ (l.length : ℚ) := by
    have := List.sum_le_card_nsmul (l.map w) 1 (by
      intro x hx
      obtain ⟨z, hz, rfl⟩ := List.mem_map.mp hx
      exact (hw z hz).2)
    simpa using this
  exact ⟨div_nonneg h0 hpos.le, (div_le_one hpos).mpr h1⟩

example : (0 : ℚ) ≤ (([1, 2, 3] : List ℕ).map (fun k => (1 : ℚ) / k)).sum / (([1, 2, 3] : List ℕ).length : ℚ) :=
  (stat_mean_in_unit (fun k : ℕ => (1 : ℚ) / k) [1, 2, 3] (by simp) (by
    intro z hz
    simp only [List.mem_cons, List.not_mem_nil, or_false] at hz
    rcases hz with rfl | rfl | rfl <;> norm_num)).1

/-! ## the executable instance -/

/-- the Metropolis probability `min(1, exp(H' - H))` of a leaf with IEEE energy difference `d`
    (`+inf ↦ 1`, `-inf ↦ 0`; NaN has none — reported as 0 here and excluded by hypothesis below) -/
noncomputable def metroXR (d : XR) : ℝ :=
  match d with
  | .fin q => min 1 (Real.exp (q : ℝ))
  | .pinf => 1
  | .ninf => 0
  | .nan => 0

/-- **The symbolic leaf weight is `1 if ΔH > 0 else exp(ΔH)` = `min(1, exp ΔH)`**, and it carries a NaN mark
    exactly for a NaN energy difference. -/
theorem xrWeight_metropolis (d : XR) :
    ((xrWeight d).nans = if d = .nan then 1 else 0) ∧ (d ≠ .nan → (xrWeight d).evalR = metroXR d) := by
  cases d with
  | fin q =>
    refine ⟨by simp [xrWeight]; split <;> rfl, fun _ => ?_⟩
    simp only [xrWeight, metroXR]
    by_cases hq : q > 0
    · simp only [hq, if_true, StatSum.evalR]
      have : (1 : ℝ) ≤ Real.exp (q : ℝ) := by
        have : (0 : ℝ) ≤ (q : ℝ) := by exact_mod_cast hq.le
        exact Real.one_le_exp this
      simp [min_eq_left this]
    · simp only [hq, if_false, StatSum.evalR]
      have hq' : (q : ℝ) ≤ 0 := by exact_mod_cast (not_lt.mp hq)
      have : Real.exp (q : ℝ) ≤ 1 := Real.exp_le_one_iff.mpr hq'
      simp [min_eq_right this]
  | nan => exact ⟨by simp [xrWeight], fun h => absurd rfl h⟩
  | pinf => exact ⟨by simp [xrWeight], fun _ => by simp [xrWeight, metroXR, StatSum.evalR]⟩
  | ninf => exact ⟨by simp [xrWeight], fun _ => by simp [xrWeight, metroXR, StatSum.evalR]⟩

example : (xrWeight (.fin (-1/2))).evalR = min 1 (Real.exp (((-1/2 : ℚ)) : ℝ)) :=
  (xrWeight_metropolis (.fin (-1/2))).2 (by simp)

/-- **The reported statistic is the mean Metropolis probability over the last doubling** (executable instance,
    any target / step size / slice level / depth bound / guard / draw script): if no leaf of the last doubling
    has a NaN energy, the symbolic sum `a` printed by the driver has no NaN mark and
    `a.evalR / n_alpha = (Σ_{z ∈ last} min(1, exp(H z - H₀))) / |last|`. -/
theorem nutsStep_reports_mean_metropolis (t : Target) (eps logu ham0 : Rat) (guard : PS → Bool) (md : Nat)
    (z0 : PS) (us : List Rat)
    (hfin : ∀ z ∈ (nutsStep (psCtx t eps logu ham0) guard md z0 us).last, psHam z ≠ .nan) :
    ∃ a m, (nutsStepStat (psCtx t eps logu ham0) (psWeight ham0) guard md z0 us).2 = some (a, m) ∧
      m = (nutsStep (psCtx t eps logu ham0) guard md z0 us).last.length ∧ 0 < m ∧ a.nans = 0 ∧
      a.evalR / m =
        (((nutsStep (psCtx t eps logu ham0) guard md z0 us).last.map
            (fun z => metroXR ((psHam z).subRat ham0))).sum) / m := by
  obtain ⟨hne, hst⟩ := nutsStep_alpha_stat (psCtx t eps logu ham0) (psWeight ham0) guard md z0 us
  refine ⟨_, _, hst, rfl, List.length_pos_iff.mpr hne, ?_, ?_⟩
  · rw [StatSum.nans_sum, List.map_map]
    apply List.sum_eq_zero
    intro x hx
    obtain ⟨z, hz, rfl⟩ := List.mem_map.mp hx
    have hn : (psHam z).subRat ham0 ≠ .nan := by
      have := hfin z hz
      cases h : psHam z <;> simp_all [XR.subRat]
    simp [psWeight, (xrWeight_metropolis _).1, hn]
  · congr 1
    rw [StatSum.evalR_sum, List.map_map]
    apply congrArg
    apply List.map_congr_left
    intro z hz
    have hn : (psHam z).subRat ham0 ≠ .nan := by
      have := hfin z hz
      cases h : psHam z <;> simp_all [XR.subRat]
    simp [psWeight, (xrWeight_metropolis _).2 hn]

/-- the hypothesis of `nutsStep_reports_mean_metropolis` is satisfiable: a wall-free quadratic target has no NaN energies -/
example (x r g : List Rat) (l : Rat) :
    psHam { x := x, r := r, logd := .fin l, grad := g } ≠ .nan := by
  simp [psHam, XR.subRat]

/-- **A NaN leaf in the last doubling makes the reported statistic NaN** (the code computes `exp(nan)`): the
    symbolic sum carries as many NaN marks as the last doubling has leaves with NaN energy.  Such a value fed to
    the dual averaging (`tune`) makes `H̄`, `ε` and `ε̄` NaN for the rest of the run — the chain then never moves
    again (still invariant, trivially); recorded as a quirk, see docs/C08.md. -/
theorem nan_leaf_poisons_stat (t : Target) (eps logu ham0 : Rat) (guard : PS → Bool) (md : Nat)
    (z0 : PS) (us : List Rat) :
    ∃ a m, (nutsStepStat (psCtx t eps logu ham0) (psWeight ham0) guard md z0 us).2 = some (a, m) ∧
      a.nans = ((nutsStep (psCtx t eps logu ham0) guard md z0 us).last.filter (fun z => decide (psHam z = .nan))).length := by
  obtain ⟨_, hst⟩ := nutsStep_alpha_stat (psCtx t eps logu ham0) (psWeight ham0) guard md z0 us
  refine ⟨_, _, hst, ?_⟩
  rw [StatSum.nans_sum, List.map_map]
  generalize (nutsStep (psCtx t eps logu ham0) guard md z0 us).last = l
  induction l with
  | nil => rfl
  | cons z l ih =>
    simp only [List.map_cons, List.sum_cons, List.filter_cons, ih, Function.comp]
    have h1 := (xrWeight_metropolis ((psHam z).subRat ham0)).1
    cases h : psHam z <;> simp_all [psWeight, XR.subRat] <;> omega

example : (xrWeight XR.nan).nans = 1 := by decide

end CuqiVerif.C08
