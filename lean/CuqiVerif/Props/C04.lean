import CuqiVerif.Proofs.C04
import Mathlib.Probability.Distributions.Gaussian.Real
import Mathlib.Probability.Distributions.Cauchy
import Mathlib.Probability.Distributions.Gamma
import Mathlib.Probability.Distributions.Beta
import Mathlib.MeasureTheory.Constructions.Pi
import Mathlib.MeasureTheory.Integral.IntervalIntegral.Basic
import Mathlib.LinearAlgebra.Matrix.NonsingularInverse
import Mathlib.Analysis.SpecialFunctions.Pow.Real
import Mathlib.Analysis.Matrix.Spectrum
import Mathlib.Analysis.Matrix.PosDef
import Mathlib.MeasureTheory.Integral.Pi
import Mathlib.Analysis.SpecialFunctions.ImproperIntegrals
import Mathlib.MeasureTheory.Measure.Lebesgue.Integral
import Mathlib.MeasureTheory.Group.Integral

/-!
# C04 — log-densities are the documented normalised densities in every parameterisation

All theorems are about the definitions of `Model/C04.lean` that the driver executes: the component
formulas (`normalLogpdf`, `gammaLogpdf`, … as `RExpr`, interpreted over ℝ by `RExpr.eval` where the
driver uses `RExpr.evalFloat`), the assembly functions (`iid`, `slCode`, `uniformVolCode`,
`cdfCombine`, `quadForm`, `normSqR`, `gramOf`, `canon`, … — generic in the scalar type, here at ℝ/ℚ).
`env4 x a b c` is the environment of one component (`var 0 = x`, parameters `var 1..3`).

Sections: 1 independence (product of component densities) · 2 per-family documented density and
normalisation · 3 code-faithful negative results (SmoothedLaplace scalar scale, MHN getters, Cauchy cdf) · 4 cdf combination rule · 5 Gaussian parameterisations ·
6 Markov random fields · 7 un-normalised vs normalised.
-/
open Finset MeasureTheory ProbabilityTheory Matrix
namespace CuqiVerif.C04
open CuqiVerif RExpr

/-! ## 1. independence -/

/-- **The i.i.d. log-density is the log of the product of the component densities**, for every
    component formula, every dimension and every broadcast pattern of the parameters. -/
theorem iid_exp_eq_prod (comp : RExpr) (x : List ℝ) (ps : List (List ℝ)) :
    Real.exp (iid eval 0 comp x ps)
      = ∏ j ∈ range (bcLen x ps), Real.exp (eval (env 0 x ps j) comp) := by
  unfold iid
  rw [exp_sumTo]

example : bcLen [(1:ℝ), 2, 3] [[0], [1, 2, 3]] = 3 := by decide

/-! ## 2. per-family: documented density, normalisation -/

theorem normal_exp_logpdf (x m s : ℝ) (hs : 0 < s) :
    Real.exp (eval (env4 x m s 0) (normalLogpdf (var 0) (var 1) (var 2)))
      = gaussianPDFReal m (Real.toNNReal (s ^ 2)) x := by
  simp only [normalLogpdf, gaussianPDFReal, eval_sub, eval_neg, eval_log, eval_mul, eval_sqrt, eval_pi,
    eval_ofNat, eval_div, eval_pow, eval_var, env4_0, env4_1, env4_2, Real.coe_toNNReal _ (sq_nonneg s),
    Nat.cast_ofNat, Nat.cast_one]
  have h2pi : (0:ℝ) < 2 * Real.pi := by positivity
  have hsq : Real.sqrt (2 * Real.pi * s ^ 2) = s * Real.sqrt (2 * Real.pi) := by
    rw [Real.sqrt_mul h2pi.le, Real.sqrt_sq hs.le]; ring
  rw [hsq, Real.exp_sub, Real.exp_neg, Real.exp_log (by positivity), div_eq_mul_inv, ← Real.exp_neg]
  congr 2
  field_simp

theorem normal_integral_eq_one (m s : ℝ) (hs : 0 < s) :
    ∫ x, Real.exp (eval (env4 x m s 0) (normalLogpdf (var 0) (var 1) (var 2))) = 1 := by
  simp_rw [normal_exp_logpdf _ m s hs]
  refine integral_gaussianPDFReal_eq_one m ?_
  simp only [ne_eq, Real.toNNReal_eq_zero, not_le]
  positivity

theorem normal_pdf_eq_exp_logpdf (x m s : ℝ) (hs : 0 < s) :
    eval (env4 x m s 0) (normalPdf (var 0) (var 1) (var 2))
      = Real.exp (eval (env4 x m s 0) (normalLogpdf (var 0) (var 1) (var 2))) := by
  simp only [normalLogpdf, normalPdf, eval_sub, eval_neg, eval_log, eval_mul, eval_sqrt, eval_pi, eval_exp,
    eval_ofNat, eval_div, eval_pow, eval_var, env4_0, env4_1, env4_2, Nat.cast_ofNat, Nat.cast_one]
  rw [Real.exp_sub, Real.exp_neg (Real.log _), Real.exp_log (by positivity), Real.exp_neg]
  field_simp

theorem laplace_exp_logpdf (x l s : ℝ) (hs : 0 < s) :
    Real.exp (eval (env4 x l s 0) (laplaceLogpdf (var 0) (var 1) (var 2)))
      = 1 / (2 * s) * Real.exp (-(|x - l| / s)) := by
  simp only [laplaceLogpdf, eval_sub, eval_log, eval_abs, eval_ofNat, eval_div, eval_var, env4_0, env4_1, env4_2,
    Nat.cast_ofNat, Nat.cast_one]
  rw [Real.exp_sub, Real.exp_log (by positivity), Real.exp_neg]
  field_simp

theorem cauchy_exp_logpdf (x l s : ℝ) (hs : 0 < s) :
    Real.exp (eval (env4 x l s 0) (cauchyLogpdf (var 0) (var 1) (var 2)))
      = cauchyPDFReal l (Real.toNNReal s) x := by
  simp only [cauchyLogpdf, cauchyPDFReal_def', eval_neg, eval_log, eval_mul, eval_pi, eval_add, eval_ofNat, eval_div,
    eval_pow, eval_sub, eval_var, env4_0, env4_1, env4_2, NNReal.coe_inv, Real.coe_toNNReal _ hs.le, Nat.cast_one]
  rw [Real.exp_neg, Real.exp_log (by positivity)]
  rw [mul_inv, mul_inv]

theorem cauchy_integral_eq_one (l s : ℝ) (hs : 0 < s) :
    ∫ x, Real.exp (eval (env4 x l s 0) (cauchyLogpdf (var 0) (var 1) (var 2))) = 1 := by
  simp_rw [cauchy_exp_logpdf _ l s hs]
  refine integral_cauchyPDFReal_eq_one l ?_
  simp only [ne_eq, Real.toNNReal_eq_zero, not_le]
  exact hs

theorem gamma_exp_logpdf (x a r : ℝ) (hx : 0 < x) (ha : 0 < a) (hr : 0 < r) :
    Real.exp (eval (env4 x a (1 / r) 0) (gammaLogpdf (var 0) (var 1) (var 2))) = gammaPDFReal a r x := by
  simp only [gammaLogpdf, gammaPDFReal, if_pos hx.le, eval_sub, eval_log, eval_mul, eval_lgamma, eval_ofNat, eval_div,
    eval_var, env4_0, env4_1, env4_2, Nat.cast_one]
  have hG := Real.Gamma_pos_of_pos ha
  have hrhs : 0 < r ^ a / Real.Gamma a * x ^ (a - 1) * Real.exp (-(r * x)) := by positivity
  have hl : Real.log (r ^ a / Real.Gamma a * x ^ (a - 1) * Real.exp (-(r * x)))
      = a * Real.log r - Real.log (Real.Gamma a) + (a - 1) * Real.log x - r * x := by
    rw [Real.log_mul (by positivity) (by positivity), Real.log_mul (by positivity) (by positivity),
      Real.log_div (by positivity) hG.ne', Real.log_rpow hr, Real.log_rpow hx, Real.log_exp]
    ring
  rw [← Real.exp_log hrhs, hl]
  congr 1
  have h1 : x / (1 / r) = x * r := by field_simp
  rw [h1, Real.log_mul hx.ne' hr.ne', one_div, Real.log_inv]
  ring

/-- the density `Gamma.logpdf` denotes: the guard of `gammaGuard` (`x < 0` ⇒ `-inf`, i.e. density 0)
    and the formula on `x > 0` -/
noncomputable def gammaDensity (a r x : ℝ) : ℝ :=
  if 0 < x then Real.exp (eval (env4 x a (1 / r) 0) (gammaLogpdf (var 0) (var 1) (var 2))) else 0

theorem gamma_lintegral_eq_one (a r : ℝ) (ha : 0 < a) (hr : 0 < r) :
    ∫⁻ x, ENNReal.ofReal (gammaDensity a r x) = 1 := by
  rw [← lintegral_gammaPDF_eq_one ha hr]
  apply lintegral_congr_ae
  have h0 : ∀ᵐ x : ℝ, x ≠ 0 := by
    rw [ae_iff]; simp
  filter_upwards [h0] with x hx
  rcases lt_or_gt_of_ne hx with hneg | hpos
  · simp [gammaDensity, gammaPDF, gammaPDFReal, not_lt.mpr hneg.le, not_le.mpr hneg]
  · simp only [gammaDensity, if_pos hpos, gammaPDF, gamma_exp_logpdf x a r hpos ha hr]

noncomputable def betaDensity (a b x : ℝ) : ℝ :=
  if 0 < x ∧ x < 1 then Real.exp (eval (env4 x a b 0) (betaLogpdf (var 0) (var 1) (var 2))) else 0

theorem beta_density_eq (x a b : ℝ) (ha : 0 < a) (hb : 0 < b) :
    betaDensity a b x = betaPDFReal a b x := by
  unfold betaDensity betaPDFReal
  split_ifs with h
  · obtain ⟨hx0, hx1⟩ := h
    have h1x : 0 < 1 - x := by linarith
    simp only [betaLogpdf, ProbabilityTheory.beta, eval_sub, eval_add, eval_log, eval_mul, eval_lgamma, eval_ofNat,
      eval_var, env4_0, env4_1, env4_2, Nat.cast_one]
    have hGa := Real.Gamma_pos_of_pos ha
    have hGb := Real.Gamma_pos_of_pos hb
    have hGab := Real.Gamma_pos_of_pos (add_pos ha hb)
    have hrhs : 0 < 1 / (Real.Gamma a * Real.Gamma b / Real.Gamma (a + b)) * x ^ (a - 1) * (1 - x) ^ (b - 1) := by
      positivity
    have hl : Real.log (1 / (Real.Gamma a * Real.Gamma b / Real.Gamma (a + b)) * x ^ (a - 1) * (1 - x) ^ (b - 1))
        = -(Real.log (Real.Gamma a) + Real.log (Real.Gamma b) - Real.log (Real.Gamma (a + b)))
          + (a - 1) * Real.log x + (b - 1) * Real.log (1 - x) := by
      rw [Real.log_mul (by positivity) (by positivity), Real.log_mul (by positivity) (by positivity),
        one_div, Real.log_inv, Real.log_div (by positivity) hGab.ne', Real.log_mul hGa.ne' hGb.ne',
        Real.log_rpow hx0, Real.log_rpow h1x]
    rw [← Real.exp_log hrhs, hl]
    congr 1
    ring
  · rfl

theorem beta_lintegral_eq_one (a b : ℝ) (ha : 0 < a) (hb : 0 < b) :
    ∫⁻ x, ENNReal.ofReal (betaDensity a b x) = 1 := by
  simp_rw [beta_density_eq _ a b ha hb]
  exact lintegral_betaPDF_eq_one ha hb

/-- documented InverseGamma density `(x-β)^(-α-1) exp(-γ/(x-β)) / (γ^(-α) Γ(α))` -/
theorem invgamma_exp_logpdf (x a loc sc : ℝ) (hx : loc < x) (ha : 0 < a) (hsc : 0 < sc) :
    Real.exp (eval (env4 x a loc sc) (invGammaLogpdf (var 0) (var 1) (var 2) (var 3)))
      = (x - loc) ^ (-a - 1) * Real.exp (-sc / (x - loc)) / (sc ^ (-a) * Real.Gamma a) := by
  have hy : 0 < x - loc := by linarith
  simp only [invGammaLogpdf, eval_sub, eval_add, eval_neg, eval_log, eval_mul, eval_lgamma, eval_ofNat, eval_div,
    eval_var, env4_0, env4_1, env4_2, env4_3, Nat.cast_one]
  have hG := Real.Gamma_pos_of_pos ha
  have hrhs : 0 < (x - loc) ^ (-a - 1) * Real.exp (-sc / (x - loc)) / (sc ^ (-a) * Real.Gamma a) := by positivity
  have hl : Real.log ((x - loc) ^ (-a - 1) * Real.exp (-sc / (x - loc)) / (sc ^ (-a) * Real.Gamma a))
      = (-a - 1) * Real.log (x - loc) + -sc / (x - loc) - (-a * Real.log sc + Real.log (Real.Gamma a)) := by
    rw [Real.log_div (by positivity) (by positivity), Real.log_mul (by positivity) (by positivity),
      Real.log_mul (by positivity) hG.ne', Real.log_rpow hy, Real.log_rpow hsc, Real.log_exp]
  rw [← Real.exp_log hrhs, hl]
  congr 1
  rw [Real.log_div hy.ne' hsc.ne']
  field_simp
  ring

/-- documented MHN kernel `x^(α-1) exp(-β x² + γ x)` -/
theorem mhn_exp_logpdf_kernel (x a b c : ℝ) (hx : 0 < x) :
    Real.exp (eval (env4 x a b c) (mhnLogpdf (var 0) (var 1) (var 2) (var 3)))
      = x ^ (a - 1) * Real.exp (-b * x ^ 2 + c * x) := by
  simp only [mhnLogpdf, eval_sub, eval_add, eval_log, eval_mul, eval_ofNat, eval_var, env4_0, env4_1, env4_2, env4_3,
    Nat.cast_one]
  rw [Real.rpow_def_of_pos hx, ← Real.exp_add]
  congr 1
  ring

/-! ## 2b. dimension n: product-measure lift (Normal, Cauchy, Laplace) -/

/-- generic lift: if every component density integrates to one, so does `exp` of the i.i.d. log-density -/
theorem iid_integral_eq_one (n : ℕ) (comp : RExpr) (a b : Fin n → ℝ) (f : Fin n → ℝ → ℝ)
    (hcomp : ∀ (x : Fin n → ℝ) (i : Fin n),
      Real.exp (eval (env 0 (List.ofFn x) [List.ofFn a, List.ofFn b] i) comp) = f i (x i))
    (hint : ∀ i, ∫ t, f i t = 1) :
    ∫ x : Fin n → ℝ, Real.exp (iid eval 0 comp (List.ofFn x) [List.ofFn a, List.ofFn b]) = 1 := by
  have hpt : ∀ x : Fin n → ℝ,
      Real.exp (iid eval 0 comp (List.ofFn x) [List.ofFn a, List.ofFn b]) = ∏ i : Fin n, f i (x i) := by
    intro x
    rw [iid_ofFn_eq_sum, Real.exp_sum]
    exact Finset.prod_congr rfl fun i _ => hcomp x i
  simp_rw [hpt]
  rw [integral_fintype_prod_volume_eq_prod f]
  exact Finset.prod_eq_one fun i _ => hint i

theorem cauchy_exp_logpdf' (ρ : ℕ → ℝ) (hs : 0 < ρ 2) :
    Real.exp (eval ρ (cauchyLogpdf (var 0) (var 1) (var 2))) = cauchyPDFReal (ρ 1) (Real.toNNReal (ρ 2)) (ρ 0) := by
  simp only [cauchyLogpdf, cauchyPDFReal_def', eval_neg, eval_log, eval_mul, eval_pi, eval_add, eval_ofNat, eval_div,
    eval_pow, eval_sub, eval_var, NNReal.coe_inv, Real.coe_toNNReal _ hs.le, Nat.cast_one]
  rw [Real.exp_neg, Real.exp_log (by positivity)]
  rw [mul_inv, mul_inv]

theorem cauchy_iid_integral_eq_one (n : ℕ) (l s : Fin n → ℝ) (hs : ∀ i, 0 < s i) :
    ∫ x : Fin n → ℝ, Real.exp (iid eval 0 (cauchyLogpdf (var 0) (var 1) (var 2)) (List.ofFn x) [List.ofFn l, List.ofFn s]) = 1 := by
  refine iid_integral_eq_one n _ l s (fun i t => cauchyPDFReal (l i) (Real.toNNReal (s i)) t) ?_ ?_
  · intro x i
    have h2 : env (0:ℝ) (List.ofFn x) [List.ofFn l, List.ofFn s] i 2 = s i := by simp [env, bc_ofFn]
    rw [cauchy_exp_logpdf' _ (by rw [h2]; exact hs i)]
    simp [env, bc_ofFn]
  · intro i
    refine integral_cauchyPDFReal_eq_one (l i) ?_
    simp only [ne_eq, Real.toNNReal_eq_zero, not_le]
    exact hs i

theorem laplace_exp_logpdf' (ρ : ℕ → ℝ) (hs : 0 < ρ 2) :
    Real.exp (eval ρ (laplaceLogpdf (var 0) (var 1) (var 2)))
      = 1 / (2 * ρ 2) * Real.exp (-(|ρ 0 - ρ 1| / ρ 2)) := by
  simp only [laplaceLogpdf, eval_sub, eval_log, eval_abs, eval_ofNat, eval_div, eval_var,
    Nat.cast_ofNat, Nat.cast_one]
  rw [Real.exp_sub, Real.exp_log (by positivity), Real.exp_neg]
  field_simp

theorem laplace_density_integral (l s : ℝ) (hs : 0 < s) :
    ∫ x : ℝ, 1 / (2 * s) * Real.exp (-(|x - l| / s)) = 1 := by
  have h1 : (∫ x : ℝ, 1 / (2 * s) * Real.exp (-(|x - l| / s)))
      = ∫ y : ℝ, 1 / (2 * s) * Real.exp (-(|y| / s)) :=
    integral_sub_right_eq_self (fun y : ℝ => 1 / (2 * s) * Real.exp (-(|y| / s))) l
  rw [h1, integral_comp_abs (f := fun t => 1 / (2 * s) * Real.exp (-(t / s)))]
  rw [integral_const_mul]
  have h2 : ∀ t : ℝ, Real.exp (-(t / s)) = Real.exp ((-1 / s) * t) := by
    intro t; congr 1; field_simp
  simp_rw [h2]
  rw [integral_exp_mul_Ioi (by rw [neg_div]; exact neg_neg_of_pos (by positivity)) 0]
  simp
  field_simp

/-- `Laplace.logpdf` as the code writes it (`dim*log(0.5/scale) - ‖x-location‖₁/scale`) is the i.i.d. sum
    of the component log-densities whenever `dim` is the length of the variable -/
theorem laplace_code_eq_iid (dim : ℕ) (x l : List ℝ) (s : ℝ) (hdim : dim = bcLen x [l]) (h1 : 1 ≤ bcLen x [l]) :
    laplaceCode eval 0 dim x l [s] = iid eval 0 (laplaceLogpdf (var 0) (var 1) (var 2)) x [l, [s]] := by
  have hL : bcLen x [l, [s]] = bcLen x [l] := by
    simp only [bcLen, List.map_cons, List.map_nil, List.foldl_cons, List.foldl_nil, List.length_singleton] at h1 ⊢
    omega
  unfold laplaceCode iid
  rw [sumTo_eq_sum, sumTo_eq_sum, sumTo_eq_sum, hL, ← hdim, ← Finset.sum_sub_distrib]
  refine Finset.sum_congr rfl fun j _ => ?_
  simp [laplaceLogpdf, slConst, env, bc]

theorem laplace_iid_integral_eq_one (n : ℕ) (l s : Fin n → ℝ) (hs : ∀ i, 0 < s i) :
    ∫ x : Fin n → ℝ, Real.exp (iid eval 0 (laplaceLogpdf (var 0) (var 1) (var 2)) (List.ofFn x) [List.ofFn l, List.ofFn s]) = 1 := by
  refine iid_integral_eq_one n _ l s (fun i t => 1 / (2 * s i) * Real.exp (-(|t - l i| / s i))) ?_ ?_
  · intro x i
    have h2 : env (0:ℝ) (List.ofFn x) [List.ofFn l, List.ofFn s] i 2 = s i := by simp [env, bc_ofFn]
    rw [laplace_exp_logpdf' _ (by rw [h2]; exact hs i)]
    simp [env, bc_ofFn]
  · intro i
    exact laplace_density_integral (l i) (s i) (hs i)

theorem normal_exp_logpdf' (ρ : ℕ → ℝ) (hs : 0 < ρ 2) :
    Real.exp (eval ρ (normalLogpdf (var 0) (var 1) (var 2)))
      = gaussianPDFReal (ρ 1) (Real.toNNReal (ρ 2 ^ 2)) (ρ 0) := by
  simp only [normalLogpdf, gaussianPDFReal, eval_sub, eval_neg, eval_log, eval_mul, eval_sqrt, eval_pi,
    eval_ofNat, eval_div, eval_pow, eval_var, Real.coe_toNNReal _ (sq_nonneg (ρ 2)),
    Nat.cast_ofNat, Nat.cast_one]
  have h2pi : (0:ℝ) < 2 * Real.pi := by positivity
  have hsq : Real.sqrt (2 * Real.pi * ρ 2 ^ 2) = ρ 2 * Real.sqrt (2 * Real.pi) := by
    rw [Real.sqrt_mul h2pi.le, Real.sqrt_sq hs.le]; ring
  rw [hsq, Real.exp_sub, Real.exp_neg, Real.exp_log (by positivity), div_eq_mul_inv, ← Real.exp_neg]
  congr 2
  field_simp

/-- **Normal, dimension n: the density `exp(logpdf)` integrates to one over ℝⁿ** (per-component means and
    standard deviations; product-measure lift of the one-dimensional statement). -/
theorem normal_iid_integral_eq_one (n : ℕ) (m s : Fin n → ℝ) (hs : ∀ i, 0 < s i) :
    ∫ x : Fin n → ℝ, Real.exp (iid eval 0 (normalLogpdf (var 0) (var 1) (var 2)) (List.ofFn x) [List.ofFn m, List.ofFn s]) = 1 := by
  have hpt : ∀ x : Fin n → ℝ,
      Real.exp (iid eval 0 (normalLogpdf (var 0) (var 1) (var 2)) (List.ofFn x) [List.ofFn m, List.ofFn s])
        = ∏ i : Fin n, gaussianPDFReal (m i) (Real.toNNReal (s i ^ 2)) (x i) := by
    intro x
    rw [iid_ofFn_eq_sum, Real.exp_sum]
    refine Finset.prod_congr rfl fun i _ => ?_
    have h2 : env (0:ℝ) (List.ofFn x) [List.ofFn m, List.ofFn s] i 2 = s i := by
      simp [env, bc_ofFn]
    rw [normal_exp_logpdf' _ (by rw [h2]; exact hs i)]
    simp [env, bc_ofFn]
  simp_rw [hpt]
  rw [integral_fintype_prod_volume_eq_prod (fun i t => gaussianPDFReal (m i) (Real.toNNReal (s i ^ 2)) t)]
  refine Finset.prod_eq_one fun i _ => ?_
  refine integral_gaussianPDFReal_eq_one (m i) ?_
  simp only [ne_eq, Real.toNNReal_eq_zero, not_le]
  have := hs i
  positivity

/-! ## 3./4. code-faithful negative results, cdf -/

theorem sl_doc_exp (x l s β : ℝ) (hs : 0 < s) :
    Real.exp (eval (env4 x l s β) (slConst (var 2) - slKernel (var 0) (var 1) (var 2) (var 3)))
      = 1 / (2 * s) * Real.exp (-(Real.sqrt ((x - l) ^ 2 + β) / s)) := by
  simp only [slConst, slKernel, eval_sub, eval_add, eval_log, eval_sqrt, eval_pow, eval_ofNat, eval_div, eval_var,
    env4_0, env4_1, env4_2, env4_3, Nat.cast_ofNat, Nat.cast_one]
  rw [Real.exp_sub, Real.exp_log (by positivity), Real.exp_neg]
  field_simp

theorem sl_code_eq_doc_partial (x l s b : List ℝ) (h : s.length = bcLen x [l, s, b]) :
    slCode eval 0 x l s b = slDoc eval 0 x l s b := by
  unfold slCode slDoc iid
  rw [sumTo_eq_sum, sumTo_eq_sum, sumTo_eq_sum, ← h, ← Finset.sum_sub_distrib]
  refine Finset.sum_congr rfl fun j hj => ?_
  have hj' : j < s.length := Finset.mem_range.mp hj
  have hb : bc (0:ℝ) s j = s.getD j 0 := by
    unfold bc
    split_ifs with h1
    · have : j = 0 := by omega
      rw [this]
    · rfl
  simp only [eval_sub, slConst, eval_log, eval_div, eval_ofNat, eval_var, env, List.getD_cons_succ,
    List.getD_cons_zero, hb]

theorem sl_scalar_scale_counterexample :
    slCode eval 0 [0, 0] [0] [1] [1] ≠ slDoc eval 0 [0, 0] [0] [1] [1] := by
  have hlog := Real.log_pos (by norm_num : (1:ℝ) < 2)
  simp [slCode, slDoc, iid, sumTo, bcLen, env, bc, slConst, slKernel, List.range_succ]
  intro h
  linarith


/-! Uniform -/
/-- **Uniform, bounds of length one (Python scalars or one-element arrays), every dimension:** the volume
    the code uses, `(high-low)^dim`, is the documented volume of the box. -/
theorem uniformVolCode_short_eq_doc (dim : ℕ) (lo hi : List ℚ) (h : max lo.length hi.length ≤ 1) :
    uniformVolCode dim lo hi = uniformVolDoc dim lo hi := by
  have hlo : lo.length ≤ 1 := le_trans (le_max_left _ _) h
  have hhi : hi.length ≤ 1 := le_trans (le_max_right _ _) h
  simp only [uniformVolCode, uniformVolDoc, if_pos h]
  induction dim with
  | zero => rfl
  | succ k ih =>
    rw [List.range_succ, List.foldl_append, ← ih]
    simp only [List.foldl_cons, List.foldl_nil, powRat, bc_short lo hlo k, bc_short hi hhi k]

theorem uniformVolCode_scalar_eq_doc (dim : ℕ) (l h : ℚ) :
    uniformVolCode dim [l] [h] = uniformVolDoc dim [l] [h] :=
  uniformVolCode_short_eq_doc dim [l] [h] (by simp)

theorem uniformVolCode_array_eq_doc (dim : ℕ) (lo hi : List ℚ) (h : max lo.length hi.length = dim) :
    uniformVolCode dim lo hi = uniformVolDoc dim lo hi := by
  by_cases h1 : max lo.length hi.length ≤ 1
  · exact uniformVolCode_short_eq_doc dim lo hi h1
  · subst h
    simp only [uniformVolCode, uniformVolDoc, if_neg h1]

/-- the former one-element-array defect is gone: volume `(2-0)^2 = 4` in dimension 2 -/
theorem uniform_len1_array_volume : uniformVolCode 2 [0] [2] = 4 ∧ uniformVolDoc 2 [0] [2] = 4 := by
  constructor
  · simp [uniformVolCode, bc, powRat]; norm_num
  · simp [uniformVolDoc, bc, List.range_succ]; norm_num

theorem uniformVolDoc_eq_prod (dim : ℕ) (lo hi : List ℚ) :
    uniformVolDoc dim lo hi = ∏ j ∈ range dim, (bc 0 hi j - bc 0 lo j) := by
  unfold uniformVolDoc
  induction dim with
  | zero => simp
  | succ k ih => rw [List.range_succ, List.foldl_append, ih, Finset.prod_range_succ]; rfl

theorem uniform_density_mul_volume (v : ℝ) (hv : 0 < v) :
    Real.exp (eval (fun _ => v) (uniformLogpdf (var 0))) * v = 1 := by
  simp only [uniformLogpdf, eval_log, eval_div, eval_ofNat, eval_var, Nat.cast_one]
  rw [Real.exp_log (by positivity)]
  field_simp

theorem uniform_integral_eq_one (l h : ℝ) (hlh : l < h) :
    ∫ _x in l..h, Real.exp (eval (fun _ => h - l) (uniformLogpdf (var 0))) = 1 := by
  rw [intervalIntegral.integral_const, smul_eq_mul, mul_comm]
  exact uniform_density_mul_volume (h - l) (by linarith)

/-! cdf -/
theorem cdf_product_rule {ι : Type} [Fintype ι] (μ : ι → Measure ℝ) [∀ i, SigmaFinite (μ i)] (x : ι → ℝ) :
    Measure.pi μ (Set.pi Set.univ fun i => Set.Iic (x i)) = ∏ i, μ i (Set.Iic (x i)) :=
  Measure.pi_pi μ _

theorem cdfCombine_product_eq_prod (n : ℕ) (F : ℕ → ℝ) :
    cdfCombine .product n F = ∏ j ∈ range n, F j := by
  simp [cdfCombine, prodTo_eq_prod]

/-- **Beta cdf at and beyond the right end of the support is 1** (what scipy returns for such a component) -/
theorem beta_cdf_eq_one_of_one_le (a b x : ℝ) (ha : 0 < a) (hb : 0 < b) (hx : 1 ≤ x) :
    betaMeasure a b (Set.Iic x) = 1 := by
  have := isProbabilityMeasureBeta ha hb
  have h0 : betaMeasure a b (Set.Iic x)ᶜ = 0 := by
    rw [Set.compl_Iic, betaMeasure, withDensity_apply _ measurableSet_Ioi]
    exact setLIntegral_eq_zero measurableSet_Ioi (fun y hy => betaPDF_eq_zero_of_one_le (le_trans hx (le_of_lt hy)))
  exact (prob_compl_eq_zero_iff measurableSet_Iic).mp h0

/-- **Beta cdf rule at full strength:** components with `x_j ≥ 1` carry the factor 1, so the product the
    code forms over all components is the product over the components inside `(0,1)`. -/
theorem beta_cdf_product_drops_ones (n : ℕ) (x F : ℕ → ℝ) (h1 : ∀ j, j < n → 1 ≤ x j → F j = 1) :
    cdfCombine .product n F = ∏ j ∈ (range n).filter (fun j => x j < 1), F j := by
  rw [show cdfCombine .product n F = prodTo n F from rfl, prodTo_eq_prod, Finset.prod_filter]
  refine Finset.prod_congr rfl fun j hj => ?_
  split_ifs with h
  · rfl
  · exact h1 j (Finset.mem_range.mp hj) (not_lt.mp h)

theorem cauchy_cdf_sum_counterexample :
    cdfRule "cauchy" = some .sum ∧ cdfCombine .sum 2 (fun _ => (1 / 2 : ℚ)) = 1
      ∧ cdfCombine .product 2 (fun _ => (1 / 2 : ℚ)) = 1 / 4 := by
  refine ⟨rfl, ?_, ?_⟩ <;> simp [cdfCombine, sumTo, prodTo, List.range_succ] <;> norm_num

/-! MHN -/
theorem mhn_code_eq_doc_partial (x a : ℝ) :
    eval (env4 x a a a) (mhnLogpdf (var 0) (var 1) (var 1) (var 1))
      = eval (env4 x a a a) (mhnLogpdf (var 0) (var 1) (var 2) (var 3)) := by
  simp [mhnLogpdf]

theorem mhn_getters_counterexample :
    eval (env4 2 1 0 0) (mhnLogpdf (var 0) (var 1) (var 1) (var 1))
        - eval (env4 1 1 0 0) (mhnLogpdf (var 0) (var 1) (var 1) (var 1))
      ≠ eval (env4 2 1 0 0) (mhnLogpdf (var 0) (var 1) (var 2) (var 3))
        - eval (env4 1 1 0 0) (mhnLogpdf (var 0) (var 1) (var 2) (var 3)) := by
  simp [mhnLogpdf]
  norm_num

/-! ## 5. Gaussian parameterisations -/

section alg
variable {R : Type} [CommRing R]

/-- `‖R z‖² = zᵀ (RᵀR) z` -/
theorem normSqR_eq_quadForm_gram (m n : ℕ) (Rm : ℕ → ℕ → R) (z : ℕ → R) :
    normSqR m n Rm z = quadForm n (gramOf m Rm) z := by
  rw [normSqR_eq, quadForm_eq]
  simp only [gramOf_eq]
  simp only [Finset.sum_mul, Finset.mul_sum]
  rw [Finset.sum_comm]
  refine Finset.sum_congr rfl fun i _ => ?_
  rw [Finset.sum_comm]
  refine Finset.sum_congr rfl fun j _ => ?_
  refine Finset.sum_congr rfl fun k _ => ?_
  ring

theorem quadForm_diag (n : ℕ) (p z : ℕ → R) :
    quadForm n (fun i j => if i = j then p i else 0) z = ∑ i ∈ range n, p i * z i ^ 2 := by
  rw [quadForm_eq]
  refine Finset.sum_congr rfl fun i hi => ?_
  rw [Finset.sum_eq_single i]
  · simp; ring
  · intro j _ hji; simp [Ne.symm hji]
  · intro h; exact absurd hi h

/-- the model's quadratic form is the matrix quadratic form -/
theorem quadForm_eq_dotProduct (n : ℕ) (P : ℕ → ℕ → R) (z : ℕ → R) :
    quadForm n P z
      = (fun i : Fin n => z i) ⬝ᵥ (Matrix.of (fun i j : Fin n => P i j) *ᵥ (fun j : Fin n => z j)) := by
  rw [quadForm_eq]
  simp only [dotProduct, mulVec, Matrix.of_apply]
  rw [Finset.sum_range]
  refine Finset.sum_congr rfl fun i _ => ?_
  rw [Finset.sum_range]

variable {n : Type} [Fintype n] [DecidableEq n]

/-- two precisions certified against the same covariance are equal -/
theorem precision_unique (C P P' : Matrix n n R) (h : C * P = 1) (h' : C * P' = 1) : P = P' := by
  have hPC : P * C = 1 := mul_eq_one_comm.mp h
  calc P = P * (C * P') := by rw [h', mul_one]
    _ = (P * C) * P' := by rw [Matrix.mul_assoc]
    _ = P' := by rw [hPC, one_mul]

/-- hence equal quadratic forms, i.e. equal un-normalised log-densities at every point -/
theorem gauss_forms_agree_quad (C P P' : Matrix n n R) (h : C * P = 1) (h' : C * P' = 1) (z : n → R) :
    z ⬝ᵥ (P *ᵥ z) = z ⬝ᵥ (P' *ᵥ z) := by
  rw [precision_unique C P P' h h']

theorem det_gram_comm (Rm : Matrix n n R) : (Rm * Rmᵀ).det = (Rmᵀ * Rm).det := by
  rw [det_mul, det_mul, mul_comm]

omit [DecidableEq n] in
theorem sqrtcov_sym_partial (Rm : Matrix n n R) (h : Rmᵀ = Rm) : Rm * Rmᵀ = Rmᵀ * Rm := by
  rw [h]

end alg

theorem det_cov_of_prec {n : Type} [Fintype n] [DecidableEq n] (C P : Matrix n n ℝ) (h : C * P = 1) :
    C.det = (P.det)⁻¹ := by
  have := congrArg Matrix.det h
  rw [det_mul, det_one] at this
  exact eq_inv_of_mul_eq_one_left this

theorem sqrtcov_counterexample :
    (!![1, 1; 0, 1] : Matrix (Fin 2) (Fin 2) ℚ) * (!![1, 1; 0, 1] : Matrix (Fin 2) (Fin 2) ℚ)ᵀ
      ≠ (!![1, 1; 0, 1] : Matrix (Fin 2) (Fin 2) ℚ)ᵀ * !![1, 1; 0, 1] := by
  intro h
  have := congrFun (congrFun h 0) 0
  simp [Matrix.mul_apply, Fin.sum_univ_two] at this

lemma foldl_mul_replicate (n : ℕ) (a v : ℚ) : List.foldl (· * ·) a (List.replicate n v) = a * v ^ n := by
  induction n generalizing a with
  | zero => simp
  | succ k ih => rw [List.replicate_succ, List.foldl_cons, ih]; ring

theorem prodList_replicate (n : ℕ) (v : ℚ) : prodList (List.replicate n v) = v ^ n := by
  unfold prodList
  rw [foldl_mul_replicate, one_mul]

theorem canon_scalar_eq_vector (form : Form) (dim : ℕ) (v : ℚ) :
    canon form .scalar dim [[v]] = canon form .vector dim [List.replicate dim v] := by
  simp [canon]

theorem canon_sqrtcov_forms_RRt :
    (match canon .sqrtcov .dense 2 [[1, 1], [0, 1]] with
      | .ok c => c.C == some [[2, 1], [1, 1]] && c.P == some [[1, -1], [-1, 2]]
      | _ => false) = true := by
  decide +kernel

/-- Lognormal, one component with variance `v`: `exp(logpdf) = N(log x; m, v) / x` -/
theorem lognormal_exp_logpdf_1d (ρ : ℕ → ℝ) (x m v : ℝ) (hx : 0 < x) (hv : 0 < v) (vq qq : ℚ)
    (hvq : (vq : ℝ) = v) (hq : (qq : ℝ) = (Real.log x - m) ^ 2 / v) :
    Real.exp (eval ρ (gaussLogpdf (const 1) (const vq) (const qq)) - Real.log x)
      = gaussianPDFReal m (Real.toNNReal v) (Real.log x) / x := by
  simp only [gaussLogpdf, gaussianPDFReal, eval_add, eval_neg, eval_mul, eval_log, eval_pi, eval_ofNat, eval_div,
    eval_const, Nat.cast_ofNat, Nat.cast_one, Rat.cast_one, hvq, hq, Real.coe_toNNReal _ hv.le]
  have h2pi : (0:ℝ) < 2 * Real.pi := by positivity
  rw [Real.exp_sub, Real.exp_log hx, Real.exp_add]
  congr 1
  congr 1
  · rw [Real.sqrt_eq_rpow, ← Real.rpow_neg (by positivity), Real.rpow_def_of_pos (by positivity),
      Real.log_mul (by positivity) hv.ne']
    congr 1
    ring
  · congr 1
    field_simp

/-! ## 6. mvn form, eigenvalue branch, Markov random fields -/

/-- `Gaussian.logpdf` is the log of the documented multivariate normal density
    `(2π)^(-d/2) |Σ|^(-1/2) exp(-½ (x-μ)ᵀΣ⁻¹(x-μ))` (`rank = d`, `detCov = |Σ|`, `quad` the Mahalanobis square) -/
theorem gauss_logpdf_eq_mvn (ρ : ℕ → ℝ) (d : ℕ) (detCov quad : ℚ) (hd : 0 < (detCov : ℝ)) :
    Real.exp (eval ρ (gaussLogpdf (const (d : ℚ)) (const detCov) (const quad)))
      = (2 * Real.pi) ^ (-(d : ℝ) / 2) * (detCov : ℝ) ^ (-(1 / 2 : ℝ)) * Real.exp (-(1 / 2) * (quad : ℝ)) := by
  simp only [gaussLogpdf, eval_add, eval_neg, eval_mul, eval_log, eval_pi, eval_ofNat, eval_div, eval_const,
    Nat.cast_ofNat, Nat.cast_one, Rat.cast_natCast]
  have h2pi : (0:ℝ) < 2 * Real.pi := by positivity
  rw [Real.rpow_def_of_pos h2pi, Real.rpow_def_of_pos hd, ← Real.exp_add, ← Real.exp_add]
  congr 1
  ring

/-- eigenvalue branch (dim > MIN_DIM_SPARSE): for a symmetric positive definite matrix the sum of the
    logs of the eigenvalues is the log of the determinant the dense branch computes -/
theorem eig_logdet_eq_log_det {n : Type} [Fintype n] [DecidableEq n] (A : Matrix n n ℝ) (hA : A.PosDef) :
    ∑ i, Real.log (hA.isHermitian.eigenvalues i) = Real.log A.det := by
  rw [hA.isHermitian.det_eq_prod_eigenvalues]
  simp only [RCLike.ofReal_real_eq_id, id]
  rw [Real.log_prod]
  intro i _
  exact (hA.eigenvalues_pos i).ne'

/-- and all eigenvalues pass the threshold test `s > eps` for `eps ≤ 0`… the rank it reports is the dimension -/
theorem eig_rank_eq_card {n : Type} [Fintype n] [DecidableEq n] (A : Matrix n n ℝ) (hA : A.PosDef) :
    (Finset.univ.filter fun i => 0 < hA.isHermitian.eigenvalues i).card = Fintype.card n := by
  rw [Finset.filter_true_of_mem (fun i _ => hA.eigenvalues_pos i), Finset.card_univ]

/-! MRFs -/
theorem lmrf_logpdf_eq_documented (m : ℕ) (u : ℕ → ℝ) (s : ℝ) :
    sumTo m (fun k => eval (env4 (u k) s 0 0) (lmrfComp (var 0) (var 1)))
      = (m : ℝ) * (-(Real.log 2 + Real.log s)) - (∑ k ∈ range m, |u k|) / s := by
  rw [sumTo_eq_sum]
  simp only [lmrfComp, eval_sub, eval_neg, eval_add, eval_log, eval_abs, eval_div, eval_ofNat, eval_var, env4_0, env4_1,
    Nat.cast_ofNat]
  rw [Finset.sum_sub_distrib, Finset.sum_const, card_range, nsmul_eq_mul, Finset.sum_div]

theorem lmrf_comp_exp (u s : ℝ) (hs : 0 < s) :
    Real.exp (eval (env4 u s 0 0) (lmrfComp (var 0) (var 1))) = 1 / (2 * s) * Real.exp (-(|u| / s)) := by
  simp only [lmrfComp, eval_sub, eval_neg, eval_add, eval_log, eval_abs, eval_div, eval_ofNat, eval_var, env4_0, env4_1,
    Nat.cast_ofNat]
  rw [Real.exp_sub, Real.exp_neg, ← Real.log_mul (by norm_num) hs.ne', Real.exp_log (by positivity), Real.exp_neg]
  field_simp

theorem cmrf_logpdf_eq_documented (m : ℕ) (u : ℕ → ℝ) (s : ℝ) :
    sumTo m (fun k => eval (env4 (u k) s 0 0) (cmrfComp (var 0) (var 1) - log pi))
      = -(m : ℝ) * Real.log Real.pi + ∑ k ∈ range m, (Real.log s - Real.log (u k ^ 2 + s ^ 2)) := by
  rw [sumTo_eq_sum]
  simp only [cmrfComp, eval_sub, eval_add, eval_log, eval_pow, eval_pi, eval_var, env4_0, env4_1]
  rw [Finset.sum_sub_distrib, Finset.sum_const, card_range, nsmul_eq_mul]
  ring

theorem cmrf_comp_exp (u s : ℝ) (hs : 0 < s) :
    Real.exp (eval (env4 u s 0 0) (cmrfComp (var 0) (var 1) - log pi)) = cauchyPDFReal 0 (Real.toNNReal s) u := by
  simp only [cmrfComp, cauchyPDFReal_def, eval_sub, eval_add, eval_log, eval_pow, eval_pi, eval_var, env4_0, env4_1,
    Real.coe_toNNReal _ hs.le, sub_zero]
  have hq : 0 < u ^ 2 + s ^ 2 := by positivity
  rw [Real.exp_sub, Real.exp_sub, Real.exp_log hs, Real.exp_log hq, Real.exp_log Real.pi_pos]
  field_simp

/-- GMRF with full declared rank `d` is the Gaussian with precision `δ·P`:
    `det Σ = 1/(δ^d det P)`, Mahalanobis square `δ·quad` -/
theorem gmrf_logpdf_eq_gauss (ρ : ℕ → ℝ) (d : ℕ) (δ pdet quad : ℚ) (hδ : 0 < (δ : ℝ)) (hp : 0 < (pdet : ℝ)) :
    eval ρ (gmrfLogpdf (const (d : ℚ)) (const δ) (const pdet) (const quad))
      = eval ρ (gaussLogpdf (const (d : ℚ)) (const (1 / (δ ^ d * pdet))) (const (δ * quad))) := by
  simp only [gmrfLogpdf, gaussLogpdf, eval_add, eval_sub, eval_neg, eval_mul, eval_log, eval_pi, eval_ofNat, eval_div,
    eval_const, Nat.cast_ofNat, Nat.cast_one, Rat.cast_natCast, Rat.cast_mul, Rat.cast_div, Rat.cast_pow, Rat.cast_one]
  have h2pi : (0:ℝ) < 2 * Real.pi := by positivity
  rw [Real.log_div one_ne_zero (by positivity), Real.log_one, Real.log_mul (by positivity) hp.ne', Real.log_pow]
  ring

theorem det_smul_prec {n : Type} [Fintype n] [DecidableEq n] (δ : ℝ) (P : Matrix n n ℝ) :
    (δ • P).det = δ ^ Fintype.card n * P.det := Matrix.det_smul P δ

/-- order 0 with periodic/neumann boundary: identity structure matrix (rank 3), declared rank 2 -/
theorem gmrf_order0_rank_counterexample :
    (C20.gram (C20.diffOp 0 .periodic 3)).toList = [[1, 0, 0], [0, 1, 0], [0, 0, 1]]
      ∧ C20.declaredRank .periodic 3 = 2 ∧ C20.declaredRank .neumann 3 = 2 := by
  decide

/-! ## 7. un-normalised vs normalised -/

/-- **Un-normalised vs normalised Gaussian log-density differ by a constant in the variable**
    (`Gaussian._logupdf` vs `Gaussian.logpdf`; the constant does not contain the quadratic form). -/
theorem gauss_logpdf_sub_logupdf (ρ : ℕ → ℝ) (r d q : RExpr) :
    eval ρ (gaussLogpdf r d q) - eval ρ (gaussLogupdf q)
      = -(1 / 2 * (eval ρ r * Real.log (2 * Real.pi) + Real.log (eval ρ d))) := by
  simp [gaussLogpdf, gaussLogupdf]

example : eval (fun _ => 0) (gaussLogupdf (const 4)) = -2 := by simp [gaussLogupdf]; norm_num

/-! ## Non-vacuity: the hypotheses of the theorems above are met by concrete, non-trivial instances -/

example : ∫ x, Real.exp (eval (env4 x 1 2 0) (normalLogpdf (var 0) (var 1) (var 2))) = 1 :=
  normal_integral_eq_one 1 2 (by norm_num)
example : ∫ x, Real.exp (eval (env4 x (-1) (1 / 2) 0) (cauchyLogpdf (var 0) (var 1) (var 2))) = 1 :=
  cauchy_integral_eq_one (-1) (1 / 2) (by norm_num)
example : ∫ x, Real.exp (eval (env4 x 3 (1 / 4) 0) (laplaceLogpdf (var 0) (var 1) (var 2))) = 1 := by
  simp_rw [laplace_exp_logpdf _ 3 (1 / 4) (by norm_num)]
  exact laplace_density_integral 3 (1 / 4) (by norm_num)
example : ∫⁻ x, ENNReal.ofReal (gammaDensity 2 3 x) = 1 := gamma_lintegral_eq_one 2 3 (by norm_num) (by norm_num)
example : ∫⁻ x, ENNReal.ofReal (betaDensity (1 / 2) 3 x) = 1 := beta_lintegral_eq_one (1 / 2) 3 (by norm_num) (by norm_num)
example := invgamma_exp_logpdf 2 (3 / 2) (1 / 2) 3 (by norm_num) (by norm_num) (by norm_num)
example := mhn_exp_logpdf_kernel (3 / 2) 2 3 4 (by norm_num)
example : ∫ x : Fin 3 → ℝ, Real.exp (iid eval 0 (normalLogpdf (var 0) (var 1) (var 2)) (List.ofFn x)
    [List.ofFn (fun i : Fin 3 => (i : ℝ)), List.ofFn (fun i : Fin 3 => (i : ℝ) + 1)]) = 1 :=
  normal_iid_integral_eq_one 3 _ _ (fun i => by positivity)
example : ∫ x : Fin 2 → ℝ, Real.exp (iid eval 0 (cauchyLogpdf (var 0) (var 1) (var 2)) (List.ofFn x)
    [List.ofFn (fun _ : Fin 2 => (0 : ℝ)), List.ofFn (fun _ : Fin 2 => (2 : ℝ))]) = 1 :=
  cauchy_iid_integral_eq_one 2 _ _ (fun _ => by norm_num)
example : slCode eval 0 [1, 2] [0] [1, 2] [1 / 2] = slDoc eval 0 [1, 2] [0] [1, 2] [1 / 2] :=
  sl_code_eq_doc_partial _ _ _ _ (by simp [bcLen])
example : laplaceCode eval 0 2 [1, 2] [0] [3] = iid eval 0 (laplaceLogpdf (var 0) (var 1) (var 2)) [1, 2] [[0], [3]] :=
  laplace_code_eq_iid 2 _ _ 3 (by simp [bcLen]) (by simp [bcLen])
example : uniformVolCode 3 [0] [2] = 8 := by
  rw [uniformVolCode_scalar_eq_doc]; simp [uniformVolDoc, bc, List.range_succ]; norm_num
example : ∫ _x in (0:ℝ)..2, Real.exp (eval (fun _ => 2 - 0) (uniformLogpdf (var 0))) = 1 :=
  uniform_integral_eq_one 0 2 (by norm_num)
example : (1 : Matrix (Fin 2) (Fin 2) ℝ).PosDef := Matrix.PosDef.one
example := gauss_logpdf_eq_mvn (fun _ => 0) 2 (7 / 4) 4 (by norm_num)
example := gmrf_logpdf_eq_gauss (fun _ => 0) 3 2 4 (11 / 2) (by norm_num) (by norm_num)
example : (!![2, 0; 0, 4] : Matrix (Fin 2) (Fin 2) ℚ) * !![1 / 2, 0; 0, 1 / 4] = 1 := by
  ext i j; fin_cases i <;> fin_cases j <;> simp [Matrix.mul_apply, Fin.sum_univ_two]
example := lognormal_exp_logpdf_1d (fun _ => 0) 1 0 2 (by norm_num) (by norm_num) 2 0 (by norm_num) (by simp)

example := beta_cdf_eq_one_of_one_le 2 3 (3 / 2) (by norm_num) (by norm_num) (by norm_num)
example : uniformVolCode 3 [0, 0, 0] [2, 2, 2] = uniformVolDoc 3 [0, 0, 0] [2, 2, 2] :=
  uniformVolCode_array_eq_doc 3 _ _ (by simp)

end CuqiVerif.C04
