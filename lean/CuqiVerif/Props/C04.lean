import CuqiVerif.Model.C04
import CuqiVerif.Proofs.RExpr
import Mathlib.Tactic.Ring

/-!
# C04 — property theorems (work in progress)
-/
namespace CuqiVerif.C04
open CuqiVerif RExpr

/-- **Un-normalised vs normalised Gaussian log-density differ by a constant in the variable.** -/
theorem gauss_logpdf_sub_logupdf (ρ : ℕ → ℝ) (r d q : RExpr) :
    eval ρ (gaussLogpdf r d q) - eval ρ (gaussLogupdf q)
      = -(1 / 2 * (eval ρ r * Real.log (2 * Real.pi) + Real.log (eval ρ d))) := by
  simp [gaussLogpdf, gaussLogupdf]

end CuqiVerif.C04
