import CuqiVerif.Model.C14
import CuqiVerif.Generated.C14Tables

namespace CuqiVerif.C14

/-- the sampling loop composes: `n + m` iterations are `n` iterations followed by `m` -/
theorem sampleLoop_add {D A : Type} (sp : Spec D A) (n m : Nat) (r : Run D A) :
    sampleLoop sp (n + m) r = sampleLoop sp m (sampleLoop sp n r) := by
  induction n generalizing r with
  | zero => simp [sampleLoop]
  | succ k ih =>
    have : k + 1 + m = (k + m) + 1 := by omega
    rw [this]
    simp only [sampleLoop]
    exact ih _

end CuqiVerif.C14
