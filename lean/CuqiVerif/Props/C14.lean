import CuqiVerif.Model.C14
import CuqiVerif.Proofs.C14
import CuqiVerif.Generated.C14Tables

/-!
# C14 — property theorems

Part 1: the record keeping of the stateful interface, for **every** sampler class (`Spec`), every
run, every `n`, `m`.  Part 2: checkpoint/resume and re-initialisation, under the read/write
hypotheses that Part 4 discharges per class over the tables generated from the Python AST.
Part 3: the stateless interface.  Part 5: the Gibbs samplers.
-/
namespace CuqiVerif.C14

/-! ## 1. stateful interface: continuity and record keeping -/

/-- the sampling loop composes: `n + m` iterations are `n` iterations followed by `m` -/
theorem sampleLoop_add {D A : Type} (sp : Spec D A) (n m : Nat) (r : Run D A) :
    sampleLoop sp (n + m) r = sampleLoop sp m (sampleLoop sp n r) := by
  induction n generalizing r with
  | zero => simp [sampleLoop]
  | succ k ih =>
    have : k + 1 + m = (k + m) + 1 := by omega
    rw [this]
    simp only [sampleLoop]
    exact ih _

/-- **Continuity** (`sample_append`): `sample(n+m)` and `sample(n); sample(m)` give the same
    attributes, stored samples, acceptance records, callback log and remaining random stream, for
    every sampler whose `_pre_sample` is idempotent along the run (`Inv` is established by
    `_pre_sample`, preserved by `step`, and makes `_pre_sample` a no-op — NUTS' `_epsilon_bar ≠ "unset"`). -/
theorem sample_append {D A : Type} (sp : Spec D A) (Inv : Obj → Prop)
    (hpre : ∀ o, Inv (sp.preSample o))
    (hstep : ∀ o ds, Inv o → Inv (sp.step o ds).1)
    (hfix : ∀ o, Inv o → sp.preSample o = o)
    (n m : Nat) (r : Run D A) :
    sample sp (n + m) r = sample sp m (sample sp n r) := by
  unfold sample
  simp only []
  rw [sampleLoop_add]
  have hinit : (sampleLoop sp n { ensureInit sp r with obj := sp.preSample (ensureInit sp r).obj }).initialized = true := by
    rw [sampleLoop_initialized]; exact ensureInit_initialized sp r
  rw [ensureInit_of_initialized sp _ hinit]
  have hinv : Inv (sampleLoop sp n { ensureInit sp r with obj := sp.preSample (ensureInit sp r).obj }).obj :=
    sampleLoop_inv sp Inv hstep n _ (hpre _)
  rw [hfix _ hinv]

/-- **Exact length**: `n` more stored states and `n` more acceptance records. -/
theorem length_exact {D A : Type} (sp : Spec D A) (n : Nat) (r : Run D A) :
    (sampleLoop sp n r).samples.length = r.samples.length + n ∧
    (sampleLoop sp n r).acc.length = r.acc.length + n := by
  induction n generalizing r with
  | zero => simp [sampleLoop]
  | succ k ih =>
    simp only [sampleLoop]
    obtain ⟨h1, h2⟩ := ih (oneStep sp r)
    rw [h1, h2]
    simp [oneStep]
    omega

/-- **Faithful recording** (`order_consecutive` + `history_immutable`): the stored samples after the
    loop are the old ones, untouched, followed by the points of the `n` consecutive transitions of
    the sampler object, in order; likewise the acceptance records. -/
theorem order_consecutive {D A : Type} (sp : Spec D A) (n : Nat) (r : Run D A) :
    (sampleLoop sp n r).samples = r.samples ++ (transitions sp.step n r.obj r.stream).map Prod.fst ∧
    (sampleLoop sp n r).acc = r.acc ++ (transitions sp.step n r.obj r.stream).map Prod.snd := by
  induction n generalizing r with
  | zero => simp [sampleLoop, transitions]
  | succ k ih =>
    simp only [sampleLoop, transitions]
    obtain ⟨h1, h2⟩ := ih (oneStep sp r)
    rw [h1, h2]
    simp [oneStep]

/-- **Earlier entries are never altered**: the history before the loop is a prefix of the history
    after it. -/
theorem history_immutable {D A : Type} (sp : Spec D A) (n : Nat) (r : Run D A) :
    r.samples <+: (sampleLoop sp n r).samples ∧ r.events <+: (sampleLoop sp n r).events := by
  induction n generalizing r with
  | zero => simp [sampleLoop]
  | succ k ih =>
    simp only [sampleLoop]
    obtain ⟨h1, h2⟩ := ih (oneStep sp r)
    constructor
    · exact List.IsPrefix.trans (by simp [oneStep]) h1
    · exact List.IsPrefix.trans (by simp [oneStep]) h2

/-- **Callback exactly once per transition, with that state and its index in the chain**: the new
    callback events are the new stored samples paired with their positions in `_samples`. -/
theorem callback_once {D A : Type} (sp : Spec D A) (n : Nat) (r : Run D A) :
    (sampleLoop sp n r).events =
      r.events ++ ((transitions sp.step n r.obj r.stream).map Prod.fst).zipIdx r.samples.length := by
  induction n generalizing r with
  | zero => simp [sampleLoop, transitions]
  | succ k ih =>
    simp only [sampleLoop, transitions]
    rw [ih (oneStep sp r)]
    simp [oneStep, List.zipIdx_cons]

/-- Warm-up: exact length, one callback per transition with its index (same bookkeeping). -/
theorem warmup_records {D A : Type} (sp : Spec D A) (ti : Nat) (k idx : Nat) (r : Run D A) :
    (warmLoop sp ti k idx r).samples.length = r.samples.length + k ∧
    (warmLoop sp ti k idx r).acc.length = r.acc.length + k ∧
    r.samples <+: (warmLoop sp ti k idx r).samples ∧
    ∃ new : List Val, new.length = k ∧ (warmLoop sp ti k idx r).samples = r.samples ++ new ∧
      (warmLoop sp ti k idx r).events = r.events ++ new.zipIdx r.samples.length := by
  induction k generalizing idx r with
  | zero => simp [warmLoop]
  | succ j ih =>
    simp only [warmLoop]
    obtain ⟨h1, h2, h3, new, hn, hs, he⟩ := ih (idx + 1) (warmStep sp ti idx r)
    have hlen : (warmStep sp ti idx r).samples.length = r.samples.length + 1 := by simp [warmStep]
    have hacc : (warmStep sp ti idx r).acc.length = r.acc.length + 1 := by simp [warmStep]
    refine ⟨by rw [h1, hlen]; omega, by rw [h2, hacc]; omega, ?_, ?_⟩
    · exact List.IsPrefix.trans (by simp [warmStep]) h3
    · refine ⟨(warmStep sp ti idx r).samples.getLast?.getD Val.none :: new, by simp [hn], ?_, ?_⟩
      · rw [hs]; simp [warmStep]
      · rw [he, hlen]; simp [warmStep, List.zipIdx_cons]

/-- **Batching is transparent**: `sample(n, batch_size=b)` leaves the sampler — attributes, stored
    samples, acceptance records, callback log (indices included), random stream — exactly as
    `sample(n)` does, for every `b`. -/
theorem batch_transparent {D A : Type} (sp : Spec D A) (b n : Nat) (r : Run D A)
    (bs : List Val × List (List Val)) :
    (batchLoop sp b n (r, bs)).1 = sampleLoop sp n r := by
  induction n generalizing r bs with
  | zero => rfl
  | succ k ih => simp only [batchLoop, sampleLoop]; exact ih _ _

theorem sampleBatched_run {D A : Type} (sp : Spec D A) (n b : Nat) (r : Run D A) :
    (sampleBatched sp n b r).1 = sample sp n r := by
  simp only [sampleBatched, sample]; exact batch_transparent sp b n _ _

theorem batchAdd_flatten (b : Nat) (p : Val) (st : List Val × List (List Val)) :
    (batchAdd b p st).2.flatten ++ (batchAdd b p st).1 = st.2.flatten ++ st.1 ++ [p] := by
  unfold batchAdd
  simp only []
  split <;> simp

/-- **Batch files hold the chain's slices**: the files written, concatenated in order, followed by
    the still unwritten current batch, are exactly the states of the transitions of this call. -/
theorem batch_files {D A : Type} (sp : Spec D A) (b n : Nat) (r : Run D A)
    (bs : List Val × List (List Val)) :
    (batchLoop sp b n (r, bs)).2.2.flatten ++ (batchLoop sp b n (r, bs)).2.1 =
      bs.2.flatten ++ bs.1 ++ (transitions sp.step n r.obj r.stream).map Prod.fst := by
  induction n generalizing r bs with
  | zero => simp [batchLoop, transitions]
  | succ k ih =>
    simp only [batchLoop, transitions]
    rw [ih, batchAdd_flatten]
    simp [oneStep]

/-! ## 2. checkpoint / resume and re-initialisation -/

/-- **Resume** (`resume_bisim`): let `step` read only the attributes `R` (its result on `W`, its
    acceptance record and its use of the stream are functions of them) and write only `W`.  If
    `R ⊆ S ∪ C` (`S` the state keys, containing `current_point`; `C` configuration attributes on
    which a fresh sampler of the same configuration agrees), then a fresh sampler after
    `set_state(get_state(orig))` makes, from the same stream, exactly the transitions `orig`
    would make — for every number of steps, i.e. for every checkpoint position. -/
theorem resume_bisim {D A : Type} (step : Obj → List D → Obj × A × List D) (R W S C : List String)
    (hdep : ∀ o o' ds, AgreeOn R o o' → (step o ds).2 = (step o' ds).2 ∧ AgreeOn W (step o ds).1 (step o' ds).1)
    (hframe : ∀ o ds k, k ∉ W → (step o ds).1.get k = o.get k)
    (hcover : ∀ k, k ∈ R → k ∈ S ∨ k ∈ C)
    (hpoint : "current_point" ∈ S)
    (orig fresh : Obj) (hcfg : AgreeOn C fresh orig) :
    ∃ o', setState S (getState S orig) fresh = some o' ∧
      ∀ n ds, transitions step n o' ds = transitions step n orig ds := by
  obtain ⟨o', hload, hS, hrest⟩ := setState_getState S orig fresh
  refine ⟨o', hload, ?_⟩
  -- invariant: agreement on S ∪ C
  have key : ∀ n (a b : Obj), (∀ k, k ∈ S ∨ k ∈ C → a.get k = b.get k) → ∀ ds,
      transitions step n a ds = transitions step n b ds := by
    intro n
    induction n with
    | zero => intros; rfl
    | succ j ih =>
      intro a b hab ds
      have hR : AgreeOn R a b := fun k hk => hab k (hcover k hk)
      obtain ⟨h2, hW⟩ := hdep a b ds hR
      have hnext : ∀ k, k ∈ S ∨ k ∈ C → (step a ds).1.get k = (step b ds).1.get k := by
        intro k hk
        by_cases hw : k ∈ W
        · exact hW k hw
        · rw [hframe a ds k hw, hframe b ds k hw]; exact hab k hk
      simp only [transitions]
      have hp : point (step a ds).1 = point (step b ds).1 := hnext _ (Or.inl hpoint)
      have hacc : (step a ds).2.1 = (step b ds).2.1 := by rw [h2]
      have hstream : (step a ds).2.2 = (step b ds).2.2 := by rw [h2]
      rw [hp, hacc, hstream, ih _ _ hnext]
  intro n ds
  apply key
  intro k hk
  by_cases hs : k ∈ S
  · exact hS k hs
  · rcases hk with h | h
    · exact absurd h hs
    · rw [hrest k hs]; exact hcfg k h

/-- The hypotheses of `resume_bisim` are satisfiable: the replay instance run by the driver. -/
example : ∃ o', setState replaySpec.stateKeys (getState replaySpec.stateKeys ((Obj.empty.set "current_point" (.int 7)))) Obj.empty = some o' ∧
    ∀ n ds, transitions replaySpec.step n o' ds = transitions replaySpec.step n (Obj.empty.set "current_point" (.int 7)) ds := by
  apply resume_bisim replaySpec.step ["current_point"] ["current_point"] replaySpec.stateKeys []
  · intro o o' ds hoo
    have hcp := hoo "current_point" (by simp)
    unfold replaySpec
    match ds with
    | [] => simp [AgreeOn, hcp]
    | [_] => simp [AgreeOn, hcp]
    | p :: a :: rest => simp [AgreeOn, get_set]
  · intro o ds k hk
    unfold replaySpec
    have hk' : k ≠ "current_point" := by simpa using hk
    match ds with
    | [] => rfl
    | [_] => rfl
    | p :: a :: rest => simp [get_set, hk']
  · intro k hk; left; simpa [replaySpec] using hk
  · simp [replaySpec]
  · intro k hk; simp at hk

/-- **Why the cover hypothesis is needed** (witness for `RegularizedLinearRTO._stepsize`): a step
    that reads an attribute which is neither a state key nor equal on the fresh sampler continues
    differently after `set_state(get_state(·))`. -/
theorem resume_counterexample :
    let step : Obj → List Int → Obj × Int × List Int :=
      fun o ds => (o.set "current_point" (.int (getInt (o.get "current_point") + getInt (o.get "_stepsize"))), 1, ds)
    let orig : Obj := (Obj.empty.set "current_point" (.int 0)).set "_stepsize" (.int 2)
    let fresh : Obj := (Obj.empty.set "current_point" (.int 5)).set "_stepsize" (.int 3)
    ∃ o', setState ["current_point"] (getState ["current_point"] orig) fresh = some o' ∧
      transitions step 1 o' [] ≠ transitions step 1 orig [] := by
  refine ⟨_, rfl, ?_⟩
  decide

/-- **Re-initialisation** (`reinitialize_restores_init`): if `initialize` computes the state keys
    and the initial acceptance record from configuration attributes `C` only, and no
    configuration attribute is a state key (so that clearing the state keys does not touch the
    configuration), then after *any* run `reinitialize` yields the state, empty history and flags
    of a freshly initialised sampler of that configuration. -/
theorem reinitialize_restores_init {D A : Type} (sp : Spec D A) (C : List String)
    (hinit : ∀ o o', AgreeOn C o o' → AgreeOn sp.stateKeys (sp.init o) (sp.init o') ∧ sp.initAcc o = sp.initAcc o')
    (hdisj : ∀ k, k ∈ C → k ∉ sp.stateKeys)
    (r : Run D A) (cfg : Obj) (ds : List D) (h : AgreeOn C r.obj cfg) :
    getState sp.stateKeys (reinitialize sp r).obj = getState sp.stateKeys (initializeRun sp (Run.fresh cfg ds)).obj ∧
    (reinitialize sp r).samples = [] ∧
    (reinitialize sp r).acc = (initializeRun sp (Run.fresh cfg ds)).acc ∧
    (reinitialize sp r).initialized = true := by
  have hc : AgreeOn C (r.obj.clear sp.stateKeys) cfg := by
    intro k hk
    rw [get_clear]
    simp [hdisj k hk, h k hk]
  obtain ⟨h1, h2⟩ := hinit _ _ hc
  refine ⟨?_, rfl, ?_, rfl⟩
  · simp only [reinitialize, initializeRun, Run.fresh, getState]
    apply List.map_congr_left
    intro k hk
    rw [h1 k hk]
  · simp only [reinitialize, initializeRun, Run.fresh]
    exact h2

/-- non-vacuity: the toy sampler class run by the driver satisfies the hypotheses -/
example (r : Run Int Int) (cfg : Obj) (h : AgreeOn ["initial_point", "initial_scale"] r.obj cfg) :
    (reinitialize toySpec r).samples = [] :=
  (reinitialize_restores_init toySpec ["initial_point", "initial_scale"]
    (by
      intro o o' hoo
      have h1 := hoo "initial_point" (by simp)
      have h2 := hoo "initial_scale" (by simp)
      refine ⟨?_, rfl⟩
      intro k hk
      have hk' : k = "current_point" ∨ k = "scale" ∨ k = "eps_bar" := by simpa [toySpec] using hk
      rcases hk' with h | h | h <;> simp [toySpec, get_set, h1, h2, h])
    (by intro k hk; simp [toySpec] at hk ⊢; rcases hk with h | h <;> simp [h])
    r cfg [] h).2.1

/-- **Witness for NUTS' `max_depth`**: when a constructor parameter is listed among the state keys
    and `initialize` does not set it, `reinitialize` loses the constructed value. -/
theorem reinitialize_counterexample :
    let sp : Spec Int Int :=
      { stateKeys := ["current_point", "max_depth"],
        init := fun o => o.set "current_point" (o.get "initial_point"),
        initAcc := fun _ => [1], step := fun o ds => (o, 1, ds), tune := fun o _ _ _ => o,
        preSample := id, preWarmup := id }
    let cfg : Obj := (Obj.empty.set "initial_point" (.int 0)).set "max_depth" (.int 3)
    let r : Run Int Int := initializeRun sp (Run.fresh cfg [])
    (reinitialize sp r).obj.get "max_depth" ≠ r.obj.get "max_depth" := by
  decide

/-! ## 3. stateless interface -/

/-- the loop never changes the number of columns -/
theorem legacyLoop_length {P : Type} (fl : LegacyFlags) (outs : List P) (s : Nat) (cols : List P) (ev : List (P × Nat)) :
    (legacyLoop fl s outs (cols, ev)).1.length = cols.length := by
  induction outs generalizing s cols ev with
  | nil => rfl
  | cons o rest ih =>
    simp only [legacyLoop]
    rw [ih]
    split <;> simp

/-- **Exact length** (stateless interface): whenever the run succeeds the returned chain has
    exactly `N` columns — for every class (both flags), every `N`, `Nb`. -/
theorem legacy_length {P : Type} (fl : LegacyFlags) (junk x0 : P) (outs : List P) (n nb : Nat)
    (chain : List P) (ev : List (P × Nat)) (h : legacySample fl junk x0 outs n nb = some (chain, ev)) :
    chain.length = n := by
  unfold legacySample at h
  split at h
  · cases h
  · split at h
    · cases h
    · rename_i h0 _
      simp only [Option.some.injEq, Prod.mk.injEq] at h
      rw [← h.1, List.length_drop, legacyLoop_length]
      simp [legacyAlloc]
      omega

/-- **Callback exactly once per transition with (state, index)**: if the loop calls the callback,
    the log is the produced states paired with the indices `s+1, s+2, …` in the stored chain. -/
theorem legacyLoop_events {P : Type} (v : Bool) (outs : List P) (s : Nat) (cols : List P) (ev : List (P × Nat)) :
    (legacyLoop ⟨v, true⟩ s outs (cols, ev)).2 = ev ++ outs.zipIdx (s + 1) := by
  induction outs generalizing s cols ev with
  | nil => simp [legacyLoop]
  | cons o rest ih =>
    simp only [legacyLoop]
    rw [ih]
    simp [List.zipIdx_cons]

theorem legacy_callback_once {P : Type} (v : Bool) (junk x0 : P) (outs : List P) (n nb : Nat)
    (chain : List P) (ev : List (P × Nat)) (h : legacySample ⟨v, true⟩ junk x0 outs n nb = some (chain, ev)) :
    ev = outs.zipIdx 1 := by
  unfold legacySample at h
  split at h
  · cases h
  · split at h
    · cases h
    · simp only [Option.some.injEq, Prod.mk.injEq] at h
      rw [← h.2, legacyLoop_events]
      simp

/-- a loop without the call never invokes the callback (the defect legacy `MH._sample_adapt` had) -/
theorem legacy_no_callback {P : Type} (v : Bool) (outs : List P) (s : Nat) (cols : List P) (ev : List (P × Nat)) :
    (legacyLoop ⟨v, false⟩ s outs (cols, ev)).2 = ev := by
  induction outs generalizing s cols ev with
  | nil => simp [legacyLoop]
  | cons o rest ih => simp only [legacyLoop]; rw [ih]; simp

/-- columns after the loop when `single_update` does not write through its argument -/
theorem legacyLoop_cols {P : Type} (cb : Bool) (outs : List P) :
    ∀ (s : Nat) (cols : List P) (ev : List (P × Nat)), s + outs.length < cols.length →
      ∀ j, (legacyLoop ⟨false, cb⟩ s outs (cols, ev)).1[j]? =
        if s < j ∧ j ≤ s + outs.length then outs[j - s - 1]? else cols[j]? := by
  induction outs with
  | nil => intro s cols ev _ j; simp [legacyLoop]; omega
  | cons o rest ih =>
    intro s cols ev hlen j
    simp only [legacyLoop, Bool.false_eq_true, if_false]
    have hlen' : s + 1 + rest.length < (cols.set (s + 1) o).length := by
      simp only [List.length_set]; simp only [List.length_cons] at hlen; omega
    rw [ih (s + 1) (cols.set (s + 1) o) _ hlen' j]
    simp only [List.length_cons] at hlen ⊢
    by_cases h1 : s + 1 < j ∧ j ≤ s + 1 + rest.length
    · have h2 : s < j ∧ j ≤ s + (rest.length + 1) := by omega
      rw [if_pos h1, if_pos h2]
      have : j - s - 1 = (j - (s + 1) - 1) + 1 := by omega
      rw [this, List.getElem?_cons_succ]
    · rw [if_neg h1, List.getElem?_set]
      by_cases h3 : s + 1 = j
      · have h2 : s < j ∧ j ≤ s + (rest.length + 1) := by omega
        have h4 : s + 1 < cols.length := by omega
        rw [if_pos h3, if_pos h4, if_pos h2]
        have : j - s - 1 = 0 := by omega
        rw [this]; rfl
      · have h2 : ¬ (s < j ∧ j ≤ s + (rest.length + 1)) := by omega
        rw [if_neg h3, if_neg h2]

/-- **Faithful stored chain** (`x0_first_legacy`, `order_consecutive`, `burnin_is_drop`,
    entries never altered): when `single_update` does not write through the view it is handed,
    the returned chain is exactly `drop Nb (x0 :: states produced by the transitions)`. -/
theorem legacy_faithful {P : Type} (cb : Bool) (junk x0 : P) (outs : List P) (n nb : Nat)
    (chain : List P) (ev : List (P × Nat)) (h : legacySample ⟨false, cb⟩ junk x0 outs n nb = some (chain, ev)) :
    chain = (x0 :: outs).drop nb := by
  unfold legacySample at h
  split at h
  · cases h
  · split at h
    · cases h
    · rename_i h0 h1
      simp only [Option.some.injEq, Prod.mk.injEq] at h
      rw [← h.1]
      congr 1
      have hl : outs.length = n + nb - 1 := by simpa using h1
      apply List.ext_getElem?
      intro j
      have hlen : 0 + outs.length < (legacyAlloc junk x0 (n + nb)).length := by
        simp [legacyAlloc]; omega
      rw [legacyLoop_cols cb outs 0 _ _ hlen j]
      by_cases hj : 0 < j ∧ j ≤ 0 + outs.length
      · rw [if_pos hj]
        obtain ⟨k, rfl⟩ : ∃ k, j = k + 1 := ⟨j - 1, by omega⟩
        simp
      · rw [if_neg hj]
        by_cases hz : j = 0
        · subst hz; simp [legacyAlloc]
        · have hbig : outs.length < j := by omega
          have e1 : (legacyAlloc junk x0 (n + nb))[j]? = none := by
            apply List.getElem?_eq_none; simp [legacyAlloc]; omega
          have e2 : (x0 :: outs)[j]? = none := by
            apply List.getElem?_eq_none; simp; omega
          rw [e1, e2]

/-- with no burn-in the stored chain begins with the initial point -/
theorem legacy_x0_first {P : Type} (cb : Bool) (junk x0 : P) (outs : List P) (n : Nat)
    (chain : List P) (ev : List (P × Nat)) (h : legacySample ⟨false, cb⟩ junk x0 outs n 0 = some (chain, ev)) :
    chain.head? = some x0 := by
  rw [legacy_faithful cb junk x0 outs n 0 chain ev h]; rfl

example : legacySample ⟨false, true⟩ (0 : Int) 10 [11, 12, 13] 2 2 = some ([12, 13], [(11, 1), (12, 2), (13, 3)]) := by decide

/-- **Witness for legacy `CWMH`**: a `single_update` that writes through the view shifts the stored
    chain by one — the initial point is lost, the last state is duplicated, and the stored entries
    differ from what the callback was given. -/
theorem legacy_view_counterexample :
    legacySample ⟨true, true⟩ (0 : Int) 10 [11, 12, 13] 4 0 = some ([11, 12, 13, 13], [(11, 1), (12, 2), (13, 3)]) ∧
    legacySample ⟨false, true⟩ (0 : Int) 10 [11, 12, 13] 4 0 = some ([10, 11, 12, 13], [(11, 1), (12, 2), (13, 3)]) := by
  decide

/-! ## 4. the per-class facts, over the tables generated from the current source -/

/-- every attribute `step` / `_pre_sample` reads before assigning it is a state key, or a
    configuration attribute (written by the constructor or by `initialize`) that is not derived
    from a random source and is never written by `step`, `tune`, `_pre_sample`, `_pre_warmup` -/
def resumeCover (t : Gen.ClassTable) : Bool :=
  (t.stepCarried ++ t.preSampleCarried).all fun k =>
    t.stateKeys.contains k ||
      ((t.ctorKeys ++ t.initKeys).contains k && !t.randomInitKeys.contains k &&
        !(t.stepWrites ++ t.tuneWrites ++ t.preSampleWrites ++ t.preWarmupWrites).contains k)

/-- classes for which the cover is known not to hold (KNOWN_FINDINGS: `_stepsize`) -/
def resumeGaps : List String := ["RegularizedLinearRTO"]

/-- **`keys_cover_*`**: the hypothesis `R ⊆ S ∪ C` of `resume_bisim`, for every sampler class of the
    stateful interface in the current source except the listed gap. -/
theorem keys_cover :
    (Gen.classes.all fun t => resumeGaps.contains t.name || resumeCover t) = true := by decide

/-- every state key is assigned by the constructor or by `initialize` (so `get_state` is total) -/
theorem state_keys_initialised :
    (Gen.classes.all fun t => t.stateKeys.all fun k => (t.ctorKeys ++ t.initKeys).contains k) = true := by decide

/-- `current_point` is always a state key and is written by `step` -/
theorem point_is_state :
    (Gen.classes.all fun t => t.stateKeys.contains "current_point" && t.stepWrites.contains "current_point") = true := by decide

/-- hypothesis `hdisj`/`hinit` of `reinitialize_restores_init`: `initialize` re-assigns every state
    key — for every class except NUTS (`max_depth`, KNOWN_FINDINGS) -/
theorem reinit_cover :
    (Gen.classes.all fun t => t.name == "NUTS" || t.stateKeys.all fun k => t.initKeys.contains k) = true := by decide

/-- `step` only rebinds: it never mutates in place the array held in `current_point`, nor touches
    `_samples` (hypothesis of `history_immutable` for the Python object graph) -/
theorem no_inplace_mutation :
    (Gen.classes.all fun t => !t.stepMutates.contains "current_point" && !t.stepMutates.contains "_samples"
        && !t.stepAppends.contains "_samples" && !t.stepWrites.contains "_samples") = true := by decide

/-- the loops of `Sampler.sample` / `Sampler.warmup` contain exactly one `step`, one append to
    `_samples`, one to `_acc` and one `_call_callback(self.current_point, len(self._samples)-1)` -/
theorem base_loops :
    Gen.base_sample = ⟨1, 1, 1, 1, true⟩ ∧ Gen.base_warmup = ⟨1, 1, 1, 1, true⟩ := ⟨rfl, rfl⟩

/-- stateless interface: every `_sample` and `_sample_adapt` loop calls the callback exactly once -/
theorem legacy_callbacks :
    (Gen.legacy.all fun t => t.samplePresent && t.adaptPresent && t.sampleCallbacks == 1 && t.adaptCallbacks == 1) = true := by decide

/-- stateless interface: no class except `CWMH` (KNOWN_FINDINGS) writes through the view of the
    previous column — the hypothesis `viewMutation = false` of `legacy_faithful` -/
theorem legacy_view_safe :
    (Gen.legacy.all fun t => t.name == "CWMH" ||
        !(t.updateStoresThroughArg && (t.samplePassesView || t.adaptPassesView))) = true := by decide

/-! ## 5. Gibbs samplers -/

/-- **Continuity of `HybridGibbs.sample`**: `n + m` sweeps are `n` sweeps followed by `m`, on the
    state, the stored chain and the stream. -/
theorem gibbs_sample_append {S P D : Type} (sweep : S → List D → S × P × List D) (n m : Nat)
    (st : S × List P × List D) :
    iterStore sweep (n + m) st = iterStore sweep m (iterStore sweep n st) := by
  induction n generalizing st with
  | zero => simp [iterStore]
  | succ k ih =>
    obtain ⟨s, rec, ds⟩ := st
    have : k + 1 + m = (k + m) + 1 := by omega
    rw [this]
    simp only [iterStore]
    exact ih _

/-- `HybridGibbs`: exact length, earlier entries untouched -/
theorem gibbs_records {S P D : Type} (sweep : S → List D → S × P × List D) (n : Nat)
    (st : S × List P × List D) :
    (iterStore sweep n st).2.1.length = st.2.1.length + n ∧ st.2.1 <+: (iterStore sweep n st).2.1 := by
  induction n generalizing st with
  | zero => simp [iterStore]
  | succ k ih =>
    obtain ⟨s, rec, ds⟩ := st
    simp only [iterStore]
    obtain ⟨h1, h2⟩ := ih ((sweep s ds).1, rec ++ [(sweep s ds).2.1], (sweep s ds).2.2)
    constructor
    · rw [h1]; simp; omega
    · exact List.IsPrefix.trans (by simp) h2

/-- legacy `Gibbs`: a run of `n ≥ 1` sweeps ends with its current state stored last, and
    `n + m` sweeps are `n` sweeps followed by `m` sweeps started from that stored state -/
theorem gibbsLegacyLoop_add {P D : Type} (sweep : P → List D → P × List D) (n : Nat) :
    ∀ (c : P) (rec : List P) (ds : List D), ∃ c',
      (gibbsLegacyLoop sweep (n + 1) c (rec, ds)).1.getLast? = some c' ∧
      ∀ m, gibbsLegacyLoop sweep (n + 1 + m) c (rec, ds) = gibbsLegacyLoop sweep m c' (gibbsLegacyLoop sweep (n + 1) c (rec, ds)) := by
  induction n with
  | zero =>
    intro c rec ds
    refine ⟨(sweep c ds).1, by simp [gibbsLegacyLoop], ?_⟩
    intro m
    have : 0 + 1 + m = m + 1 := by omega
    rw [this]
    simp [gibbsLegacyLoop]
  | succ k ih =>
    intro c rec ds
    obtain ⟨c', h1, h2⟩ := ih (sweep c ds).1 (rec ++ [(sweep c ds).1]) (sweep c ds).2
    refine ⟨c', ?_, ?_⟩
    · simpa [gibbsLegacyLoop] using h1
    · intro m
      have e : k + 1 + 1 + m = (k + 1 + m) + 1 := by omega
      rw [e]
      simp only [gibbsLegacyLoop] at h2 ⊢
      exact h2 m

/-- **Continuity of legacy `Gibbs.sample`** for every split position `n ≥ 1`. -/
theorem gibbsLegacy_append {P D : Type} (sweep : P → List D → P × List D) (init : P) (n m : Nat)
    (st : Bool × List P × List D) :
    gibbsLegacySample sweep init (n + 1 + m) st =
      (gibbsLegacySample sweep init (n + 1) st).bind (gibbsLegacySample sweep init m) := by
  obtain ⟨alloc, rec, ds⟩ := st
  unfold gibbsLegacySample
  simp only []
  cases hcur : (if alloc = true then rec.getLast? else some init) with
  | none => simp
  | some c =>
    obtain ⟨c', h1, h2⟩ := gibbsLegacyLoop_add sweep n c rec ds
    simp only [Option.bind_some, if_true, h1]
    rw [h2 m]

/-- **Witness for split position 0** of legacy `Gibbs`: `sample(0); sample(2)` raises (`none`),
    `sample(2)` succeeds. -/
theorem gibbsLegacy_split0_counterexample :
    let sweep : Int → List Int → Int × List Int := fun c ds => (c + 1, ds)
    (gibbsLegacySample sweep 0 0 (false, [], [])).bind (gibbsLegacySample sweep 0 2) = none ∧
    gibbsLegacySample sweep 0 2 (false, [], []) = some (true, [1, 2], []) := by
  decide

end CuqiVerif.C14
