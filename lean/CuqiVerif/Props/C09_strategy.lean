import CuqiVerif.Model.C09_strategy
import CuqiVerif.Proofs.C09
import Mathlib.Data.List.Basic
import Mathlib.Data.List.Induction
import Mathlib.Tactic.NormNum

/-!
# C09 — legacy `Gibbs`: each block is advanced by the sampler the strategy assigns to it

Theorems about the executable definitions of `Model/C09_strategy.lean` (`lparse`, `lassigned`,
`dictSet`, `dictGet`, `lsweepChecked` — the ones the driver op `ls` runs), for every strategy
dictionary (any mixture of plain and tuple keys, in any order), every list of parameter names, every
stream of transitions.
-/
namespace CuqiVerif.C09

set_option linter.unusedSectionVars false

variable {N V S : Type} [DecidableEq N]

lemma dictGet_dictSet (d : List (N × S)) (n m : N) (s : S) :
    dictGet (dictSet d n s) m = if m = n then some s else dictGet d m := by
  induction d with
  | nil =>
    by_cases h : m = n
    · subst h; simp [dictSet, dictGet]
    · have h' : ¬ n = m := fun e => h e.symm
      simp [dictSet, dictGet, h, h']
  | cons kv r ih =>
    obtain ⟨k, v⟩ := kv
    by_cases hk : k = n
    · subst hk
      by_cases h : m = k
      · subst h; simp [dictSet, dictGet]
      · have h' : ¬ k = m := fun e => h e.symm
        simp [dictSet, dictGet, h, h']
    · by_cases h : k = m
      · subst h
        have : ¬ k = n := hk
        simp [dictSet, dictGet, hk]
      · simp [dictSet, dictGet, hk, h, ih]

lemma dictGet_foldl_set (ns : List N) (d : List (N × S)) (s : S) (m : N) :
    dictGet (ns.foldl (fun a n => dictSet a n s) d) m = if m ∈ ns then some s else dictGet d m := by
  induction ns generalizing d with
  | nil => simp
  | cons a r ih =>
    rw [List.foldl_cons, ih, dictGet_dictSet]
    by_cases h1 : m ∈ r
    · simp [h1]
    · by_cases h2 : m = a
      · simp [h2]
      · simp [h1, h2]

/-- **lassigned_append** — adding one more key (plain or tuple) at the end of the strategy: the blocks
    it names are drawn by its sampler from now on (a later key overwrites an earlier one), every other
    block keeps the sampler it had. -/
theorem lassigned_append (strategy : List (SKey N × S)) (key : SKey N) (s : S) (m : N) :
    lassigned (strategy ++ [(key, s)]) m = if m ∈ key.names then some s else lassigned strategy m := by
  unfold lassigned lparse
  rw [List.foldl_append]
  simp only [List.foldl_cons, List.foldl_nil]
  exact dictGet_foldl_set _ _ _ _

/-- **lassigned_last_key_wins** — `self.samplers[m]` is the sampler of the LAST key of the strategy that
    names `m` (as a plain key or as a member of a tuple key); `KeyError` iff no key names it.  In
    particular keys that name no parameter never matter, and with keys naming every block exactly once
    each block is drawn by the sampler of its own key. -/
theorem lassigned_last_key_wins (strategy : List (SKey N × S)) (m : N) :
    lassigned strategy m = (strategy.reverse.find? (fun kv => decide (m ∈ kv.1.names))).map (·.2) := by
  induction strategy using List.reverseRecOn with
  | nil => rfl
  | append_singleton l kv ih =>
    obtain ⟨key, s⟩ := kv
    rw [lassigned_append, List.reverse_append, List.reverse_singleton, List.singleton_append, List.find?_cons]
    by_cases h : m ∈ key.names
    · simp [h]
    · simp [h, ih]

example : lassigned [(SKey.one "d", 0), (SKey.many ["d", "l"], 1), (SKey.one "q", 2)] "d" = some 1 ∧
    lassigned [(SKey.one "d", 0), (SKey.many ["d", "l"], 1), (SKey.one "q", 2)] "l" = some 1 ∧
    lassigned [(SKey.one "d", 0), (SKey.many ["d", "l"], 1), (SKey.one "q", 2)] "x" = none := by decide

/-- **lassigned_of_unique_key** — a strategy whose keys name block `m` exactly once (in the key at
    position `i`): `m` is drawn by that key's sampler, wherever the key stands in the dictionary and
    whatever the other keys are. -/
theorem lassigned_of_unique_key (pre post : List (SKey N × S)) (key : SKey N) (s : S) (m : N)
    (hm : m ∈ key.names) (hpost : ∀ kv ∈ post, m ∉ kv.1.names) :
    lassigned (pre ++ (key, s) :: post) m = some s := by
  rw [lassigned_last_key_wins, List.reverse_append, List.reverse_cons, List.append_assoc, List.find?_append]
  have : post.reverse.find? (fun kv => decide (m ∈ kv.1.names)) = none := by
    rw [List.find?_eq_none]
    intro kv hkv
    simpa using hpost kv (List.mem_reverse.1 hkv)
  simp [this, hm]

example : lassigned [(SKey.one "x", 7), (SKey.many ["d", "l"], 3)] "l" = some 3 :=
  lassigned_of_unique_key [(SKey.one "x", 7)] [] (SKey.many ["d", "l"]) 3 "l" (by decide) (by simp)

lemma lsweepChecked_error (has : N → Bool) (ds : Nat → V) (names l : List N) (e : LSt N V) :
    l.foldl (lstepChecked has ds names)
      (.error e : Except (LSt N V) (LSt N V)) = .error e := by
  induction l with
  | nil => rfl
  | cons a r ih => simpa [List.foldl_cons, lstepChecked] using ih

lemma lsweepChecked_prefix (has : N → Bool) (ds : Nat → V) (names l : List N) (st : LSt N V)
    (h : ∀ n ∈ l, has n = true) :
    l.foldl (lstepChecked has ds names)
      (.ok st : Except (LSt N V) (LSt N V)) = .ok (lsweepL ds names l st) := by
  induction l generalizing st with
  | nil => rfl
  | cons a r ih =>
    rw [List.foldl_cons]
    simp only [lstepChecked, h a (by simp), if_true]
    rw [ih _ (fun n hn => h n (by simp [hn]))]
    rfl

/-- **legacy_sweep_with_all_assigned** — when every block has a sampler the look-up never fails and the
    sweep is the `lsweep` of `Model/C09.lean` (to which all `legacy_*` theorems apply). -/
theorem legacy_sweep_with_all_assigned (has : N → Bool) (ds : Nat → V) (names : List N) (st : LSt N V)
    (h : ∀ n ∈ names, has n = true) :
    lsweepChecked has ds names st = .ok (lsweep ds names st) := by
  unfold lsweepChecked
  rw [lsweepChecked_prefix has ds names names st h]
  rfl

example (ds : Nat → Nat) (st : LSt Nat Nat) :=
  legacy_sweep_with_all_assigned (fun _ => true) ds [0, 1, 2] st (by simp)

/-- **legacy_sweep_fails_at_first_unassigned** — a block without sampler makes the sweep raise
    `KeyError` exactly when that block is reached: the blocks before it (and only those) have been
    advanced, each on the joint conditioned on the then-current values; nothing after it is visited. -/
theorem legacy_sweep_fails_at_first_unassigned (has : N → Bool) (ds : Nat → V) (pre post : List N) (n : N)
    (st : LSt N V) (hpre : ∀ m ∈ pre, has m = true) (hn : has n = false) :
    lsweepChecked has ds (pre ++ n :: post) st = .error (lsweepL ds (pre ++ n :: post) pre st) := by
  unfold lsweepChecked
  rw [List.foldl_append, lsweepChecked_prefix has ds _ pre st hpre, List.foldl_cons]
  simp only [lstepChecked, hn, Bool.false_eq_true, if_false]
  exact lsweepChecked_error has ds _ post _

example (ds : Nat → Nat) (st : LSt Nat Nat) :=
  legacy_sweep_fails_at_first_unassigned (fun n => decide (n ≠ 2)) ds [0, 1] [3] 2 st (by decide) (by decide)

end CuqiVerif.C09
