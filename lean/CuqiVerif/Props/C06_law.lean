import CuqiVerif.Props.C06
import CuqiVerif.Props.C05_law
import CuqiVerif.Props.C16_krylov
import CuqiVerif.Proofs.C06_law

/-!
# C06 — law theorems: a converged RTO step *is distributed as* the posterior, and CGLS converges

`Props/C06.lean` proves the algebra: a converged step is `m + B e` (`rto_affine`), `B Bᵀ = (MᵀM)⁻¹`
(`rto_cov`), the result does not depend on the current state (`step_independent_of_state`), and
`−2 log posterior(x) = (x−m)ᵀ MᵀM (x−m) + const` (`posterior_complete_square`).  Two steps were left in the
trusted base: "an affine image of a standard normal vector is Gaussian with covariance `B Bᵀ`" and "CGLS run
to convergence does return the solution of the normal equations".  This file closes both:

* §1 (measure theory, `ℝ`; uses `Props/C05_law.lean`): with `e ~ N(0, I_N)` (`stdNormalVec (Fin N)`, the law of
  `np.random.randn(N)`), the law of the converged step is Mathlib's `multivariateGaussian m ((MᵀM)⁻¹)`, it is
  Lebesgue measure with the density `(2π)^(-n/2) det(MᵀM)^(1/2) exp(−½ (x−m)ᵀ MᵀM (x−m))` (`gaussPrec`), and —
  for the stacked system of any list of matrix-backed likelihoods — it **is the posterior**: the normalisation
  of Lebesgue measure with density `exp(−½·neg2logpost)`.  The Markov kernel of the sampler is the constant
  kernel `x ↦ posterior`; consecutive draws are independent.
* §2 (any ordered field = exact arithmetic; uses `Props/C16_krylov.lean`): the `CGLS.solve` of `Model/C06.lean`
  (the code path the sampler calls; function handles `M(·,1)`, `M(·,2)`) with `tol = 0`, `maxit ≥ n` returns
  the exact solution of the normal equations from **any** initial guess; for the stacked operator of any
  list of likelihoods whose `adjoint` is the adjoint of `forward` (function handles, not only matrices).
* §3: both combined — the law of what `rtoStep` returns.
* §4: the same for UGLA's step under `D·location = 0`.

Vocabulary: `toV n x : Fin n → ℝ` are the leading `n` entries of a model vector, `ofFin e` reads a
`Fin N`-indexed vector as a model vector, `toM` likewise for matrices (`Proofs/C06.lean`);
`gaussPrec m H` is `N(m, H⁻¹)` given by its density (`Proofs/C06_law.lean`).  All theorems are about the
definitions of `Model/C06.lean` that the driver runs (`cgls`, `rtoStep`, `Mfwd`, `Madj`, `bTilde`, `Mmat`,
`Ugla.*`), instantiated at `ℝ` (§1, §3, §4) or any ordered field (§2); the driver's instance is `ℚ`.
-/
open MeasureTheory ProbabilityTheory Matrix WithLp CuqiVerif.C05
open scoped ENNReal

set_option linter.unusedSectionVars false
set_option linter.unusedVariables false

namespace CuqiVerif.C06

/-! ## 1. the law of a converged step -/

/-- **rto_draw_law.**  `M` any `N × n` matrix with `MᵀM` invertible (`C` its certified inverse), `b` any
    right-hand side; `step e` any solution of the normal equations for the perturbed right-hand side
    `b + e` (what the converged inner solver returns, §2).  If `e ~ N(0, I_N)`, the draw `step e` has law
    `N(m, (MᵀM)⁻¹)` with `m = C Mᵀ b` — Mathlib's `multivariateGaussian` on `EuclideanSpace ℝ (Fin n)`.
    (For the stacked operator `M = Mmat`, `b = bTilde` this is the posterior: `rto_draw_law_is_posterior`.) -/
theorem rto_draw_law (N n : ℕ) (M C : Mat ℝ) (b : Vec ℝ) (hC : IsInv n (gram N M) C)
    (step : (Fin N → ℝ) → Vec ℝ)
    (hstep : ∀ e, NormalEq N n M (fun i => b i + ofFin e i) (step e)) :
    ((stdNormalVec (Fin N)).map (fun e => toV n (step e))).map (toLp 2)
        = multivariateGaussian (toLp 2 (toV n (mulVec n C (tmulVec N M b)))) (toM n n C) ∧
      toM n n C = ((toM N n M)ᵀ * toM N n M)⁻¹ := by
  have hC' := hC
  rw [isInv_iff, toM_gram] at hC'
  refine ⟨?_, (Matrix.inv_eq_right_inv hC'.1).symm⟩
  rw [model_step_affine N n M C b hC step hstep, gauss_rect_draw_law_eq_multivariateGaussian,
    mat_cov _ _ hC'.1 hC'.2, toV_mulVec n n, toV_tmulVec]

/-- **rto_draw_law_density.**  … and that law is Lebesgue measure on `ℝⁿ` with density
    `(2π)^(-n/2) det(MᵀM)^(1/2) exp(−½ (x−m)ᵀ MᵀM (x−m))` (`gaussPrec m (MᵀM)`): every event has under the
    sampler exactly the probability this density gives it.  It is a probability measure. -/
theorem rto_draw_law_density (N n : ℕ) (M C : Mat ℝ) (b : Vec ℝ) (hC : IsInv n (gram N M) C)
    (step : (Fin N → ℝ) → Vec ℝ)
    (hstep : ∀ e, NormalEq N n M (fun i => b i + ofFin e i) (step e)) :
    (stdNormalVec (Fin N)).map (fun e => toV n (step e))
        = gaussPrec (toV n (mulVec n C (tmulVec N M b))) (toM n n (gram N M)) ∧
      IsProbabilityMeasure (gaussPrec (toV n (mulVec n C (tmulVec N M b))) (toM n n (gram N M))) := by
  refine ⟨?_, gaussPrec_model_isProbability N n M C hC _⟩
  have h := (rto_draw_law N n M C b hC step hstep).1
  have hC' := hC
  rw [isInv_iff] at hC'
  refine eq_gaussPrec_of_map_toLp _ _ _ (toM n n C) ?_ hC'.1 h
  rw [toM_gram]
  exact gram_posSemidef _

/-- a `2 × 1` instance: `M = (1, 2)ᵀ`, `(MᵀM)⁻¹ = 1/5` -/
def exM : Mat ℝ := fun i _ => if i = 0 then 1 else 2
noncomputable def exC : Mat ℝ := fun _ _ => 1 / 5
lemma exC_isInv : IsInv 1 (gram 2 exM) exC := by
  intro i j hi hj
  obtain rfl : i = 0 := by omega
  obtain rfl : j = 0 := by omega
  norm_num [mul, gram, ident, sumTo, exM, exC]

/-- the generic converged step: `e ↦ C Mᵀ (b + e)` satisfies the hypothesis `hstep` of the theorems -/
lemma exStep_spec (N n : ℕ) (M C : Mat ℝ) (b : Vec ℝ) (hC : IsInv n (gram N M) C) (e : Fin N → ℝ) :
    NormalEq N n M (fun i => b i + ofFin e i) (mulVec n C (tmulVec N M (fun i => b i + ofFin e i))) :=
  normalEq_of_inv N n M C _ hC

example := rto_draw_law 2 1 exM exC (fun i => i) exC_isInv _ (exStep_spec 2 1 exM exC _ exC_isInv)
example := rto_draw_law_density 2 1 exM exC (fun i => i) exC_isInv _ (exStep_spec 2 1 exM exC _ exC_isInv)

/-- **The posterior measure** of the linear-Gaussian problem: Lebesgue measure on `ℝⁿ` with density
    `exp(log posterior) = exp(−½·neg2logpost)` (likelihood precisions `Lam l`, prior precision `Pm`, prior
    mean `mu`; `neg2logpost` of `Props/C06.lean`), normalised to total mass one. -/
noncomputable def posteriorMeasure (n : ℕ) (liks : List (Lik ℝ)) (Lam : Lik ℝ → Mat ℝ) (Pm : Mat ℝ) (mu : Vec ℝ) :
    Measure (Fin n → ℝ) :=
  (∫⁻ x : Fin n → ℝ, ENNReal.ofReal (Real.exp (-(1 / 2) * neg2logpost n liks Lam Pm mu (ofFin x))))⁻¹ •
    (volume : Measure (Fin n → ℝ)).withDensity
      (fun x => ENNReal.ofReal (Real.exp (-(1 / 2) * neg2logpost n liks Lam Pm mu (ofFin x))))

/-- **rto_draw_law_is_posterior.**  Any number of matrix-backed likelihoods, any sizes, `MᵀM` invertible for
    the stacked `M = Mmat ls pr`: if the factors are square roots of the precisions (`LᵢᵀLᵢ = Λᵢ`,
    `L₂ᵀL₂ = P`) and `sqrtprecTimesMean = L₂ μ`, the converged RTO step with `e ~ N(0, I)` is distributed
    **exactly according to the posterior** `∝ Π N(Aᵢx; dᵢ, Λᵢ⁻¹) · N(x; μ, P⁻¹)`. -/
theorem rto_draw_law_is_posterior (n : ℕ) (ls : List (MatLik ℝ)) (pr : Prior ℝ)
    (Lam : Lik ℝ → Mat ℝ) (Pm : Mat ℝ) (mu : Vec ℝ)
    (hL : ∀ l ∈ (problemOf n ls pr).liks, ∀ i j, i < l.m → j < l.m → Lam l i j = gram l.m l.L i j)
    (hP : ∀ i j, i < n → j < n → Pm i j = gram pr.p pr.L2 i j)
    (hmu : ∀ i, i < pr.p → pr.L2mu i = mulVec n pr.L2 mu i)
    (C : Mat ℝ) (hC : IsInv n (gram (rowsM (problemOf n ls pr)) (Mmat ls pr)) C)
    (step : (Fin (rowsM (problemOf n ls pr)) → ℝ) → Vec ℝ)
    (hstep : ∀ e, NormalEq (rowsM (problemOf n ls pr)) n (Mmat ls pr)
      (fun i => bTilde (problemOf n ls pr) i + ofFin e i) (step e)) :
    (stdNormalVec (Fin (rowsM (problemOf n ls pr)))).map (fun e => toV n (step e))
      = posteriorMeasure n (problemOf n ls pr).liks Lam Pm mu := by
  obtain ⟨h1, hp⟩ := rto_draw_law_density _ n (Mmat ls pr) C (bTilde (problemOf n ls pr)) hC step hstep
  rw [h1]
  exact gaussPrec_model_eq_normalized _ n (Mmat ls pr) _ hp _ fun x =>
    posterior_complete_square n ls pr Lam Pm mu hL hP hmu _ (normalEq_of_inv _ n _ C _ hC) x

/-- a one-likelihood, one-unknown real instance: `A = 3`, `L = 2`, `d = 1`, prior `N(1, 1)` -/
def exLsR : List (MatLik ℝ) := [{ m := 1, L := fun _ _ => 2, A := fun _ _ => 3, d := fun _ => 1 }]
def exPrR : Prior ℝ := gaussPrior 1 (fun _ _ => 1) 1 (fun _ => 1)
lemma exR_isInv : IsInv 1 (gram (rowsM (problemOf 1 exLsR exPrR)) (Mmat exLsR exPrR)) (fun _ _ => 1 / 37) := by
  intro i j hi hj
  obtain rfl : i = 0 := by omega
  obtain rfl : j = 0 := by omega
  have hr : rowsM (problemOf 1 exLsR exPrR) = 2 := rfl
  rw [hr]
  norm_num [mul, gram, ident, sumTo, Mmat, exLsR, exPrR, gaussPrior, hcat]

example := rto_draw_law_is_posterior 1 exLsR exPrR (fun l => gram l.m l.L) (gram 1 (fun _ _ => 1)) (fun _ => 1)
  (fun _ _ _ _ _ _ => rfl) (fun _ _ _ _ => rfl) (fun i _ => gaussPrior_timesMean 1 _ 1 _ i)
  _ exR_isInv _ (exStep_spec _ 1 _ _ _ exR_isInv)

/-- **rto_step_kernel_const.**  Let `step cur e` be the converged step from the current state `cur` with normal
    draw `e` (any solution of the normal equations — `cur` is only the solver's initial guess).  The Markov
    kernel of the sampler, `x ↦ law of step x e under e ~ N(0, I)`, is the **constant kernel**
    `x ↦ N(m, (MᵀM)⁻¹)`.  Consequently, whatever the law `μ₀` of the current state, the next state has law
    `N(m, (MᵀM)⁻¹)` and is independent of the current one (joint law = product measure). -/
theorem rto_step_kernel_const (N n : ℕ) (M C : Mat ℝ) (b : Vec ℝ) (hC : IsInv n (gram N M) C)
    (step : Vec ℝ → (Fin N → ℝ) → Vec ℝ)
    (hstep : ∀ cur e, NormalEq N n M (fun i => b i + ofFin e i) (step cur e)) :
    ∃ κ : Kernel (Fin n → ℝ) (Fin n → ℝ),
      (∀ x, κ x = (stdNormalVec (Fin N)).map (fun e => toV n (step (ofFin x) e))) ∧
      κ = Kernel.const _ (gaussPrec (toV n (mulVec n C (tmulVec N M b))) (toM n n (gram N M))) ∧
      ∀ μ₀ : Measure (Fin n → ℝ), IsProbabilityMeasure μ₀ →
        κ ∘ₘ μ₀ = gaussPrec (toV n (mulVec n C (tmulVec N M b))) (toM n n (gram N M)) ∧
        μ₀ ⊗ₘ κ = μ₀.prod (gaussPrec (toV n (mulVec n C (tmulVec N M b))) (toM n n (gram N M))) := by
  have hp := gaussPrec_model_isProbability N n M C hC (toV n (mulVec n C (tmulVec N M b)))
  refine ⟨Kernel.const _ _, fun x => ?_, rfl, fun μ₀ hμ₀ => ⟨?_, ?_⟩⟩
  · rw [Kernel.const_apply]
    exact ((rto_draw_law_density N n M C b hC (step (ofFin x)) (hstep (ofFin x))).1).symm
  · rw [Measure.const_comp, measure_univ, one_smul]
  · exact Measure.compProd_const

example := rto_step_kernel_const 2 1 exM exC (fun i => i) exC_isInv
  (fun _ e => mulVec 1 exC (tmulVec 2 exM (fun i => (fun i : ℕ => (i : ℝ)) i + ofFin e i)))
  (fun _ e => exStep_spec 2 1 exM exC _ exC_isInv e)

/-- **rto_successive_draws_independent.**  Two consecutive steps of one chain — the second started from the
    result of the first — with independent normal draws `(e₁, e₂)`: the pair of states has the product law
    `N(m, (MᵀM)⁻¹) ⊗ N(m, (MᵀM)⁻¹)`, whatever the initial state `x₀`: consecutive RTO draws are independent
    exact draws. -/
theorem rto_successive_draws_independent (N n : ℕ) (M C : Mat ℝ) (b : Vec ℝ) (hC : IsInv n (gram N M) C)
    (step : Vec ℝ → (Fin N → ℝ) → Vec ℝ)
    (hstep : ∀ cur e, NormalEq N n M (fun i => b i + ofFin e i) (step cur e)) (x₀ : Vec ℝ) :
    ((stdNormalVec (Fin N)).prod (stdNormalVec (Fin N))).map
        (fun e => (toV n (step x₀ e.1), toV n (step (step x₀ e.1) e.2)))
      = (gaussPrec (toV n (mulVec n C (tmulVec N M b))) (toM n n (gram N M))).prod
          (gaussPrec (toV n (mulVec n C (tmulVec N M b))) (toM n n (gram N M))) := by
  have haff : ∀ cur e, toV n (step cur e)
      = toM n n C *ᵥ ((toM N n M)ᵀ *ᵥ toV N b) + (toM n n C * (toM N n M)ᵀ) *ᵥ e := fun cur e =>
    congrFun (model_step_affine N n M C b hC (step cur) (hstep cur)) e
  have hlaw := (rto_draw_law_density N n M C b hC (step x₀) (hstep x₀)).1
  rw [model_step_affine N n M C b hC (step x₀) (hstep x₀)] at hlaw
  rw [← hlaw, Measure.map_prod_map _ _ (measurable_rect_affine _ _) (measurable_rect_affine _ _)]
  congr 1
  funext e
  rw [haff, haff]
  rfl

example := rto_successive_draws_independent 2 1 exM exC (fun i => i) exC_isInv
  (fun _ e => mulVec 1 exC (tmulVec 2 exM (fun i => (fun i : ℕ => (i : ℝ)) i + ofFin e i)))
  (fun _ e => exStep_spec 2 1 exM exC _ exC_isInv e) (fun _ => 7)

/-! ## 2. the inner solver, run to convergence, returns the least-squares solution -/

section solver
variable {F : Type} [Field F] [LinearOrder F] [IsStrictOrderedRing F]

/-- **cgls_is_krylov_cgls.**  The `CGLS.solve` of `Model/C06.lean` (vectors `ℕ → F`, tabulated, norms squared,
    `xmax` carried) computes field by field what the `CGLS.solve` of `Model/C16.lean` computes on
    `Fin n → F`, `Fin N → F` with `shift = 0` — same iterate, residuals, direction, `gamma`, counter and
    flag — for every `tol ≥ 0` (`tol2 = tol²`), right-hand side, start, `maxit`, `eps`: the theorems of
    `Props/C16_krylov.lean` are theorems about the solver the sampler calls. -/
theorem cgls_is_krylov_cgls (N n : ℕ) (M : Mat F) (fwd adj : Vec F → Vec F)
    (hf : ∀ v i, i < N → fwd v i = mulVec n M v i) (ha : ∀ v j, j < n → adj v j = tmulVec N M v j)
    (b x0 : Vec F) (maxit : ℕ) (tol eps : F) (htol : 0 ≤ tol) :
    let a := cgls fwd adj N n b x0 maxit (tol * tol) eps
    let c := C16.cgls (dotOps n) (dotOps N) (Matrix.mulVecLin (toM N n M)) (Matrix.mulVecLin (toM N n M)ᵀ)
      (toV N b) 0 tol eps (toV n x0) maxit
    toV n a.x = c.x ∧ toV N a.r = c.r ∧ toV n a.s = c.s ∧ toV n a.p = c.p ∧ a.gamma = c.gamma ∧
      a.k = c.k ∧ a.flag = c.flag :=
  cgls_sim N n M fwd adj hf ha b x0 maxit tol eps htol

/-- **cgls_converges_exact.**  Exact arithmetic (any ordered field), operator given by its two actions
    `fwd = M·`, `adj = Mᵀ·` with `MᵀM` invertible: `CGLS.solve` with `tol = 0` and `maxit ≥ n` returns — from
    **any** initial guess `x0`, for any `eps` — the solution of the normal equations `MᵀM x = Mᵀ b`
    (= `C Mᵀ b`), after at most `max n 1` passes of the loop.  This is the hypothesis "converged" of
    `rto_affine`, `step_independent_of_state` and of §1, discharged (`C16.cgls_run_to_convergence_exact`
    composed with `cgls_is_krylov_cgls`). -/
theorem cgls_converges_exact (N n : ℕ) (M C : Mat F) (fwd adj : Vec F → Vec F)
    (hf : ∀ v i, i < N → fwd v i = mulVec n M v i) (ha : ∀ v j, j < n → adj v j = tmulVec N M v j)
    (hC : IsInv n (gram N M) C) (b x0 : Vec F) (maxit : ℕ) (hn : n ≤ maxit) (eps : F) :
    NormalEq N n M b (cgls fwd adj N n b x0 maxit 0 eps).x ∧
      (∀ j, j < n → (cgls fwd adj N n b x0 maxit 0 eps).x j = mulVec n C (tmulVec N M b) j) ∧
      (cgls fwd adj N n b x0 maxit 0 eps).k ≤ max n 1 := by
  have sim := cgls_sim N n M fwd adj hf ha b x0 maxit 0 eps le_rfl
  rw [mul_zero] at sim
  have hC' := hC
  rw [isInv_iff, toM_gram] at hC'
  have H := matSetting (toM N n M) (toM n n C) hC'.2
  have R := C16.cgls_run_to_convergence_exact (toV N b) eps H (toV n x0) maxit
    (by rw [Module.finrank_fin_fun]; exact hn) _ rfl
  rw [Module.finrank_fin_fun] at R
  have hne : NormalEq N n M b (cgls fwd adj N n b x0 maxit 0 eps).x := by
    rw [normalEq_iff, sim.1, ← Matrix.mulVec_mulVec]
    have := R.1
    rw [zero_smul, add_zero] at this
    exact this
  refine ⟨hne, ?_, ?_⟩
  · exact step_independent_of_state N n M C b _ _ hC hne (normalEq_of_inv N n M C b hC)
  · rw [sim.2.2.2.2.2.1]; exact R.2.2

/-- **cgls_exits_by_flag.**  For every `tol ≥ 0` and `maxit ≥ max n 1` the loop is left through the convergence
    flag after at most `max n 1` passes — the iteration limit is not what stops the solver. -/
theorem cgls_exits_by_flag (N n : ℕ) (M C : Mat F) (fwd adj : Vec F → Vec F)
    (hf : ∀ v i, i < N → fwd v i = mulVec n M v i) (ha : ∀ v j, j < n → adj v j = tmulVec N M v j)
    (hC : IsInv n (gram N M) C) (b x0 : Vec F) (maxit : ℕ) (hn : n ≤ maxit) (h1 : 1 ≤ maxit)
    (tol eps : F) (htol : 0 ≤ tol) :
    (cgls fwd adj N n b x0 maxit (tol * tol) eps).flag = true ∧
      (cgls fwd adj N n b x0 maxit (tol * tol) eps).k ≤ max n 1 := by
  have sim := cgls_sim N n M fwd adj hf ha b x0 maxit tol eps htol
  have hC' := hC
  rw [isInv_iff, toM_gram] at hC'
  have H := matSetting (toM N n M) (toM n n C) hC'.2
  have R := C16.cgls_finite_termination (toV N b) tol eps H htol (toV n x0) maxit
    (by rw [Module.finrank_fin_fun]; exact hn) h1 _ rfl
  rw [Module.finrank_fin_fun] at R
  rw [sim.2.2.2.2.2.1, sim.2.2.2.2.2.2]
  exact R

/-- the `2 × 1` instance over `ℚ` -/
def exMq : Mat ℚ := fun i _ => if i = 0 then 1 else 2
lemma exMq_isInv : IsInv 1 (gram 2 exMq) (fun _ _ => 1 / 5) := by
  intro i j hi hj
  obtain rfl : i = 0 := by omega
  obtain rfl : j = 0 := by omega
  norm_num [mul, gram, ident, sumTo, exMq]

example := cgls_converges_exact 2 1 exMq _ (mulVec 1 exMq) (tmulVec 2 exMq) (fun _ _ _ => rfl) (fun _ _ _ => rfl)
  exMq_isInv (fun i => if i = 0 then 1 else 2) (fun _ => 7) 3 (by norm_num) (1 / 2 ^ 52)
example := cgls_exits_by_flag 2 1 exMq _ (mulVec 1 exMq) (tmulVec 2 exMq) (fun _ _ _ => rfl) (fun _ _ _ => rfl)
  exMq_isInv (fun i => if i = 0 then 1 else 2) (fun _ => 7) 3 (by norm_num) (by norm_num) (1 / 1000) (1 / 2 ^ 52)
  (by norm_num)
example := cgls_is_krylov_cgls 2 1 exMq (mulVec 1 exMq) (tmulVec 2 exMq) (fun _ _ _ => rfl) (fun _ _ _ => rfl)
  (fun i => if i = 0 then 1 else 2) (fun _ => 7) 3 (1 / 1000) (1 / 2 ^ 52) (by norm_num)

/-- **stacked_operator_is_matrix.**  Function-handle form: if every likelihood model's `adjoint` is the adjoint of
    its `forward` (C07; no linearity or matrix assumed), the stacked `M(·,1)` acts on the leading entries as
    the matrix `opMat P` whose column `j` is `M(eⱼ, 1)`, and `M(·,2)` as its exact transpose — the hypotheses
    `hf`, `ha` of the CGLS theorems hold (consequence of `M_adjoint`); for matrix-backed models `opMat` is
    `Mmat` (cf. `rtoStep_operator`). -/
theorem stacked_operator_is_matrix {K : Type} [Field K] (P : Problem K)
    (hadj : ∀ l ∈ P.liks, ∀ u v : Vec K, dot l.m (l.fwd u) v = dot P.n u (l.adj v)) :
    (∀ v i, i < rowsM P → Mfwd P v i = mulVec P.n (opMat P) v i) ∧
    (∀ w j, j < P.n → Madj P w j = tmulVec (rowsM P) (opMat P) w j) ∧
    (∀ (n : ℕ) (ls : List (MatLik K)) (pr : Prior K) (i j : ℕ), j < n →
      opMat (problemOf n ls pr) i j = Mmat ls pr i j) :=
  ⟨(adjoint_pair_matrix _ _ _ _ (M_adjoint P hadj)).1, (adjoint_pair_matrix _ _ _ _ (M_adjoint P hadj)).2,
    fun n ls pr i j hj => opMat_problemOf n ls pr i j hj⟩

/-- **rto_inner_solver_exact.**  The step of `LinearRTO` as coded — `CGLS(M, b̃ + e, current, maxit, tol)` on the
    function-handle operator of any list of likelihoods (each `adjoint` the adjoint of its `forward`) — with
    `tol = 0`, `maxit ≥ n` in exact arithmetic: whatever the current state, the returned point solves the
    normal equations of the stacked system for `b̃ + e` and is `m + B e` with `m = C Mᵀ b̃`, `B = C Mᵀ`;
    at most `max n 1` passes are made.  "With its inner solver run to convergence" is discharged. -/
theorem rto_inner_solver_exact (P : Problem F)
    (hadj : ∀ l ∈ P.liks, ∀ u v : Vec F, dot l.m (l.fwd u) v = dot P.n u (l.adj v))
    (C : Mat F) (hC : IsInv P.n (gram (rowsM P) (opMat P)) C)
    (e current : Vec F) (maxit : ℕ) (hn : P.n ≤ maxit) (eps : F) :
    NormalEq (rowsM P) P.n (opMat P) (fun i => bTilde P i + e i) (rtoStep P e current maxit 0 eps).x ∧
      (∀ j, j < P.n → (rtoStep P e current maxit 0 eps).x j
        = mulVec P.n C (tmulVec (rowsM P) (opMat P) (bTilde P)) j
          + mulVec (rowsM P) (mul P.n C (tr (opMat P))) e j) ∧
      (rtoStep P e current maxit 0 eps).k ≤ max P.n 1 := by
  obtain ⟨hf, ha, _⟩ := stacked_operator_is_matrix P hadj
  obtain ⟨h1, _, h3⟩ := cgls_converges_exact (rowsM P) P.n (opMat P) C (Mfwd P) (Madj P) hf ha hC
    (fun i => bTilde P i + e i) current maxit hn eps
  exact ⟨h1, rto_affine _ _ _ C (bTilde P) e _ hC h1, h3⟩

/-- **rto_inner_solver_exact, matrix-backed models**: the same with the stacked matrix `Mmat ls pr` of the matrix
    branch (`rtoStep_operator` composed with `cgls_converges_exact`). -/
theorem rto_inner_solver_exact_matrix (n : ℕ) (ls : List (MatLik F)) (pr : Prior F)
    (C : Mat F) (hC : IsInv n (gram (rowsM (problemOf n ls pr)) (Mmat ls pr)) C)
    (e current : Vec F) (maxit : ℕ) (hn : n ≤ maxit) (eps : F) :
    NormalEq (rowsM (problemOf n ls pr)) n (Mmat ls pr) (fun i => bTilde (problemOf n ls pr) i + e i)
        (rtoStep (problemOf n ls pr) e current maxit 0 eps).x ∧
      (rtoStep (problemOf n ls pr) e current maxit 0 eps).k ≤ max n 1 := by
  obtain ⟨hf, ha⟩ := rtoStep_operator n ls pr
  obtain ⟨h1, _, h3⟩ := cgls_converges_exact (rowsM (problemOf n ls pr)) n (Mmat ls pr) C _ _ hf ha hC
    (fun i => bTilde (problemOf n ls pr) i + e i) current maxit hn eps
  exact ⟨h1, h3⟩

end solver

/-- the two-likelihood problem `exLs`, `exPr` of `Props/C06.lean` (5 rows, 2 unknowns): each model's adjoint
    is the adjoint of its forward map -/
lemma exLs_adjoint : ∀ l ∈ (problemOf 2 exLs exPr).liks, ∀ u v : Vec ℚ,
    dot l.m (l.fwd u) v = dot (problemOf 2 exLs exPr).n u (l.adj v) := by
  intro l hl u v
  simp only [problemOf, List.mem_map] at hl
  obtain ⟨ml, _, rfl⟩ := hl
  exact matLik_adjoint 2 ml u v

lemma exLs_isInv : IsInv 2 (gram (rowsM (problemOf 2 exLs exPr)) (opMat (problemOf 2 exLs exPr)))
    (fun i j => if i = 0 ∧ j = 0 then 426 / 667 else if i = 1 ∧ j = 1 then 36 / 667 else -100 / 667) := by
  have hr : rowsM (problemOf 2 exLs exPr) = 5 := by decide
  rw [hr]
  intro i j hi hj
  interval_cases i <;> interval_cases j <;>
    norm_num [mul, gram, ident, sumTo, opMat, Mfwd, problemOf, exLs, exPr, MatLik.toLik, gaussPrior, hcat,
      mulVec, unit]

example := stacked_operator_is_matrix (problemOf 2 exLs exPr) exLs_adjoint
/-- two likelihoods, function-handle operator, started at `(5, −7)`, `maxit = 2 = n` -/
example := rto_inner_solver_exact (problemOf 2 exLs exPr) exLs_adjoint _ exLs_isInv
  (fun i => (i : ℚ) - 2) (fun i => if i = 0 then 5 else -7) 2 le_rfl (1 / 2 ^ 52)
example := rto_inner_solver_exact_matrix 1 exLsR exPrR _ exR_isInv (fun i => (i : ℝ)) (fun _ => 7) 1 le_rfl (1 / 2 ^ 52)

/-! ## 3. the law of what the sampler's step returns -/

/-- **converged_cgls_step_law.**  `CGLS.solve` (exact arithmetic over `ℝ`, `tol = 0`, `maxit ≥ n`, any `eps`)
    applied to the right-hand side `b + e`, `e ~ N(0, I_N)`, from any initial guess `cur`: the returned point has
    law `N(C Mᵀ b, (MᵀM)⁻¹)`. -/
theorem converged_cgls_step_law (N n : ℕ) (M C : Mat ℝ) (fwd adj : Vec ℝ → Vec ℝ)
    (hf : ∀ v i, i < N → fwd v i = mulVec n M v i) (ha : ∀ v j, j < n → adj v j = tmulVec N M v j)
    (hC : IsInv n (gram N M) C) (b : Vec ℝ) (maxit : ℕ) (hn : n ≤ maxit) (eps : ℝ) (cur : Vec ℝ) :
    (stdNormalVec (Fin N)).map (fun e => toV n (cgls fwd adj N n (fun i => b i + ofFin e i) cur maxit 0 eps).x)
      = gaussPrec (toV n (mulVec n C (tmulVec N M b))) (toM n n (gram N M)) :=
  (rto_draw_law_density N n M C b hC _ fun e =>
    (cgls_converges_exact N n M C fwd adj hf ha hC _ cur maxit hn eps).1).1

/-- **rto_sampler_step_law.**  `LinearRTO.step` as coded (function-handle operator of any list of likelihoods with
    adjoint pairs, `y = b̃ + randn`, CGLS from the current state) with the inner solver run to convergence
    (`tol = 0`, `maxit ≥ n`): for **every** current state the new state has law `N(m, (MᵀM)⁻¹)`. -/
theorem rto_sampler_step_law (P : Problem ℝ)
    (hadj : ∀ l ∈ P.liks, ∀ u v : Vec ℝ, dot l.m (l.fwd u) v = dot P.n u (l.adj v))
    (C : Mat ℝ) (hC : IsInv P.n (gram (rowsM P) (opMat P)) C)
    (maxit : ℕ) (hn : P.n ≤ maxit) (eps : ℝ) (current : Vec ℝ) :
    (stdNormalVec (Fin (rowsM P))).map (fun e => toV P.n (rtoStep P (ofFin e) current maxit 0 eps).x)
      = gaussPrec (toV P.n (mulVec P.n C (tmulVec (rowsM P) (opMat P) (bTilde P))))
          (toM P.n P.n (gram (rowsM P) (opMat P))) :=
  converged_cgls_step_law (rowsM P) P.n (opMat P) C (Mfwd P) (Madj P)
    (stacked_operator_is_matrix P hadj).1 (stacked_operator_is_matrix P hadj).2.1 hC (bTilde P) maxit hn eps current

lemma exR_adjoint : ∀ l ∈ (problemOf 1 exLsR exPrR).liks, ∀ u v : Vec ℝ,
    dot l.m (l.fwd u) v = dot (problemOf 1 exLsR exPrR).n u (l.adj v) := by
  intro l hl u v
  simp only [problemOf, List.mem_map] at hl
  obtain ⟨ml, _, rfl⟩ := hl
  exact matLik_adjoint 1 ml u v

lemma exR_isInv_op : IsInv 1 (gram (rowsM (problemOf 1 exLsR exPrR)) (opMat (problemOf 1 exLsR exPrR)))
    (fun _ _ => 1 / 37) := by
  intro i j hi hj
  obtain rfl : i = 0 := by omega
  obtain rfl : j = 0 := by omega
  have hr : rowsM (problemOf 1 exLsR exPrR) = 2 := rfl
  rw [hr]
  norm_num [mul, gram, ident, sumTo, opMat, Mfwd, problemOf, exLsR, exPrR, MatLik.toLik, gaussPrior, hcat,
    mulVec, unit]

/-- **rto_sampler_step_is_posterior_draw.**  End to end, matrix-backed models, any number of likelihoods: one step
    of `LinearRTO` (`rtoStep`, i.e. `CGLS.solve` on `M(·,1)`, `M(·,2)`, `b̃ + randn`, started at the current
    state) with `tol = 0`, `maxit ≥ n`, in exact arithmetic, is distributed exactly according to the
    posterior — from every current state: the chain consists of exact, state-independent posterior draws. -/
theorem rto_sampler_step_is_posterior_draw (n : ℕ) (ls : List (MatLik ℝ)) (pr : Prior ℝ)
    (Lam : Lik ℝ → Mat ℝ) (Pm : Mat ℝ) (mu : Vec ℝ)
    (hL : ∀ l ∈ (problemOf n ls pr).liks, ∀ i j, i < l.m → j < l.m → Lam l i j = gram l.m l.L i j)
    (hP : ∀ i j, i < n → j < n → Pm i j = gram pr.p pr.L2 i j)
    (hmu : ∀ i, i < pr.p → pr.L2mu i = mulVec n pr.L2 mu i)
    (C : Mat ℝ) (hC : IsInv n (gram (rowsM (problemOf n ls pr)) (Mmat ls pr)) C)
    (maxit : ℕ) (hn : n ≤ maxit) (eps : ℝ) (current : Vec ℝ) :
    (stdNormalVec (Fin (rowsM (problemOf n ls pr)))).map
        (fun e => toV n (rtoStep (problemOf n ls pr) (ofFin e) current maxit 0 eps).x)
      = posteriorMeasure n (problemOf n ls pr).liks Lam Pm mu :=
  rto_draw_law_is_posterior n ls pr Lam Pm mu hL hP hmu C hC _ fun e =>
    (rto_inner_solver_exact_matrix n ls pr C hC (ofFin e) current maxit hn eps).1

/-- **rto_sampler_step_is_posterior_draw_handles.**  The same for models given by **function handles** (no matrix
    assumed: each `adjoint` the adjoint of its `forward`, C07), any number of likelihoods: `LinearRTO.step` with
    converged inner solver is an exact posterior draw from every current state.  (`opMat P` — column `j` is
    `M(eⱼ,1)` — only serves to express "`MᵀM` is invertible".) -/
theorem rto_sampler_step_is_posterior_draw_handles (P : Problem ℝ)
    (hadj : ∀ l ∈ P.liks, ∀ u v : Vec ℝ, dot l.m (l.fwd u) v = dot P.n u (l.adj v))
    (Lam : Lik ℝ → Mat ℝ) (Pm : Mat ℝ) (mu : Vec ℝ)
    (hL : ∀ l ∈ P.liks, ∀ i j, i < l.m → j < l.m → Lam l i j = gram l.m l.L i j)
    (hP : ∀ i j, i < P.n → j < P.n → Pm i j = gram P.prior.p P.prior.L2 i j)
    (hmu : ∀ i, i < P.prior.p → P.prior.L2mu i = mulVec P.n P.prior.L2 mu i)
    (C : Mat ℝ) (hC : IsInv P.n (gram (rowsM P) (opMat P)) C)
    (maxit : ℕ) (hn : P.n ≤ maxit) (eps : ℝ) (current : Vec ℝ) :
    (stdNormalVec (Fin (rowsM P))).map (fun e => toV P.n (rtoStep P (ofFin e) current maxit 0 eps).x)
      = posteriorMeasure P.n P.liks Lam Pm mu := by
  rw [rto_sampler_step_law P hadj C hC maxit hn eps current]
  have hp := gaussPrec_model_isProbability (rowsM P) P.n (opMat P) C hC
    (toV P.n (mulVec P.n C (tmulVec (rowsM P) (opMat P) (bTilde P))))
  have hf := (stacked_operator_is_matrix P hadj).1
  have hobj : ∀ x, neg2logpost P.n P.liks Lam Pm mu x
      = sumTo (rowsM P) (fun i => (mulVec P.n (opMat P) x i - bTilde P i) ^ 2) := by
    intro x
    rw [← rto_objective_is_posterior P Lam Pm mu hL hP hmu x]
    exact sumTo_congr _ _ _ fun i hi => by rw [hf x i hi]
  refine gaussPrec_model_eq_normalized (rowsM P) P.n (opMat P) _ hp _ fun x => ?_
  rw [hobj x, hobj]
  exact lsq_complete_square _ _ _ _ _ _ (normalEq_of_inv _ _ _ C _ hC)

example := rto_sampler_step_is_posterior_draw_handles (problemOf 1 exLsR exPrR) exR_adjoint
  (fun l => gram l.m l.L) (gram 1 (fun _ _ => 1)) (fun _ => 1)
  (fun _ _ _ _ _ _ => rfl) (fun _ _ _ _ => rfl) (fun i _ => gaussPrior_timesMean 1 _ 1 _ i)
  _ exR_isInv_op 1 le_rfl (1 / 2 ^ 52) (fun _ => 7)

/-- **rto_sampler_kernel_is_constant_posterior.**  The Markov kernel of `LinearRTO` with converged inner solver,
    `x ↦ law of rtoStep from x`, **is the constant kernel `x ↦ posterior`**: the chain forgets its state at every
    step; from any law `μ₀` of the current state the next state is posterior-distributed and independent of the
    current one. -/
theorem rto_sampler_kernel_is_constant_posterior (n : ℕ) (ls : List (MatLik ℝ)) (pr : Prior ℝ)
    (Lam : Lik ℝ → Mat ℝ) (Pm : Mat ℝ) (mu : Vec ℝ)
    (hL : ∀ l ∈ (problemOf n ls pr).liks, ∀ i j, i < l.m → j < l.m → Lam l i j = gram l.m l.L i j)
    (hP : ∀ i j, i < n → j < n → Pm i j = gram pr.p pr.L2 i j)
    (hmu : ∀ i, i < pr.p → pr.L2mu i = mulVec n pr.L2 mu i)
    (C : Mat ℝ) (hC : IsInv n (gram (rowsM (problemOf n ls pr)) (Mmat ls pr)) C)
    (maxit : ℕ) (hn : n ≤ maxit) (eps : ℝ) :
    ∃ κ : Kernel (Fin n → ℝ) (Fin n → ℝ),
      (∀ x, κ x = (stdNormalVec (Fin (rowsM (problemOf n ls pr)))).map
        (fun e => toV n (rtoStep (problemOf n ls pr) (ofFin e) (ofFin x) maxit 0 eps).x)) ∧
      κ = Kernel.const _ (posteriorMeasure n (problemOf n ls pr).liks Lam Pm mu) ∧
      IsProbabilityMeasure (posteriorMeasure n (problemOf n ls pr).liks Lam Pm mu) ∧
      ∀ μ₀ : Measure (Fin n → ℝ), IsProbabilityMeasure μ₀ →
        κ ∘ₘ μ₀ = posteriorMeasure n (problemOf n ls pr).liks Lam Pm mu ∧
        μ₀ ⊗ₘ κ = μ₀.prod (posteriorMeasure n (problemOf n ls pr).liks Lam Pm mu) := by
  have hlaw := fun x : Vec ℝ =>
    rto_sampler_step_is_posterior_draw n ls pr Lam Pm mu hL hP hmu C hC maxit hn eps x
  have hp : IsProbabilityMeasure (posteriorMeasure n (problemOf n ls pr).liks Lam Pm mu) := by
    rw [← hlaw (fun _ => 0)]
    refine Measure.isProbabilityMeasure_map (Measurable.aemeasurable ?_)
    have hstep := fun e : Fin (rowsM (problemOf n ls pr)) → ℝ =>
      (rto_inner_solver_exact_matrix n ls pr C hC (ofFin e) (fun _ => 0) maxit hn eps).1
    rw [model_step_affine _ n _ C _ hC _ hstep]
    exact measurable_rect_affine _ _
  refine ⟨Kernel.const _ _, fun x => ?_, rfl, hp, fun μ₀ hμ₀ => ⟨?_, ?_⟩⟩
  · rw [Kernel.const_apply]; exact (hlaw (ofFin x)).symm
  · rw [Measure.const_comp, measure_univ, one_smul]
  · exact Measure.compProd_const

example := rto_sampler_kernel_is_constant_posterior 1 exLsR exPrR (fun l => gram l.m l.L) (gram 1 (fun _ _ => 1))
  (fun _ => 1) (fun _ _ _ _ _ _ => rfl) (fun _ _ _ _ => rfl) (fun i _ => gaussPrior_timesMean 1 _ 1 _ i)
  _ exR_isInv 1 le_rfl (1 / 2 ^ 52)

example := rto_sampler_step_is_posterior_draw 1 exLsR exPrR (fun l => gram l.m l.L) (gram 1 (fun _ _ => 1))
  (fun _ => 1) (fun _ _ _ _ _ _ => rfl) (fun _ _ _ _ => rfl) (fun i _ => gaussPrior_timesMean 1 _ 1 _ i)
  _ exR_isInv 1 le_rfl (1 / 2 ^ 52) (fun _ => 7)

example := rto_sampler_step_law (problemOf 1 exLsR exPrR) exR_adjoint _ exR_isInv_op 1 le_rfl (1 / 2 ^ 52) (fun _ => 7)

example := converged_cgls_step_law 2 1 exM exC (mulVec 1 exM) (tmulVec 2 exM) (fun _ _ _ => rfl) (fun _ _ _ => rfl)
  exC_isInv (fun i => i) 1 le_rfl (1 / 2 ^ 52) (fun _ => 7)

/-! ## 4. UGLA -/

/-- **ugla_operator.**  UGLA's `M(·,1)`, `M(·,2)` are the actions of the stacked matrix `[L₁A ; s·W^{1/2}D]`
    (`Ugla.Mmat`) and of its transpose (all entries): the CGLS theorems apply to UGLA's inner solve. -/
theorem ugla_operator {K : Type} [Field K] (U : Ugla K) :
    (∀ v i, i < U.rows → U.Mfwd v i = mulVec U.n U.Mmat v i) ∧
    (∀ w j, j < U.n → U.Madj w j = tmulVec U.rows U.Mmat w j) :=
  ⟨fun v i _ => ugla_Mfwd_eq_mulVec U v i, fun w j _ => ugla_Madj_eq_tmulVec U w j⟩

/-- **The documented local Gaussian approximation at the state with weights `wdoc`**, as a measure: Lebesgue
    measure with density `exp(−½·docObjective)` — `N(Ax; d, Λ⁻¹) · N(x; location, (scale⁻¹ DᵀW D)⁻¹)` up to the
    constant — normalised. -/
noncomputable def uglaLocalGaussian (U : Ugla ℝ) (invScale : ℝ) (wdoc : Vec ℝ) : Measure (Fin U.n → ℝ) :=
  (∫⁻ x : Fin U.n → ℝ, ENNReal.ofReal (Real.exp (-(1 / 2) * U.docObjective invScale wdoc (ofFin x))))⁻¹ •
    (volume : Measure (Fin U.n → ℝ)).withDensity
      (fun x => ENNReal.ofReal (Real.exp (-(1 / 2) * U.docObjective invScale wdoc (ofFin x))))

/-- **ugla_draw_law_partial.**  UGLA's step at a state `x_k` (whose weights are the leaf data `U.w`) with the inner
    solver run to convergence (`CGLS.solve` on `Ugla.Mfwd`/`Ugla.Madj`, right-hand side `b̃ + randn`, `tol = 0`,
    `maxit ≥ n`, any initial guess), under the hypothesis the code forces — `D·location = 0`, with
    `s² = 1/scale` and documented weights = squares of the leaf weights: the draw has law
    `N(local mean, (local precision)⁻¹)`, local precision `MᵀM = AᵀΛA + scale⁻¹ DᵀW(x_k)D`, local mean
    `C Mᵀ b̃`, and this law **is** the documented local Gaussian approximation (density `∝ exp(−½ docObjective)`).
    Missing for the full statement (any location): see `ugla_location_counterexample` — the code's objective is
    not the documented one when `D·location ≠ 0` (known finding). -/
theorem ugla_draw_law_partial (U : Ugla ℝ) (C : Mat ℝ) (hC : IsInv U.n (gram U.rows U.Mmat) C)
    (invScale : ℝ) (wdoc : Vec ℝ)
    (hs : U.s * U.s = invScale) (hw : ∀ i, i < U.p → wdoc i = U.w i * U.w i)
    (hloc : ∀ i, i < U.p → mulVec U.n U.D U.loc i = 0)
    (maxit : ℕ) (hn : U.n ≤ maxit) (eps : ℝ) (cur : Vec ℝ) :
    (stdNormalVec (Fin U.rows)).map
        (fun e => toV U.n (cgls U.Mfwd U.Madj U.rows U.n (fun i => U.bTilde i + ofFin e i) cur maxit 0 eps).x)
      = gaussPrec (toV U.n (mulVec U.n C (tmulVec U.rows U.Mmat U.bTilde))) (toM U.n U.n (gram U.rows U.Mmat)) ∧
    gaussPrec (toV U.n (mulVec U.n C (tmulVec U.rows U.Mmat U.bTilde))) (toM U.n U.n (gram U.rows U.Mmat))
      = uglaLocalGaussian U invScale wdoc := by
  obtain ⟨hf, ha⟩ := ugla_operator U
  refine ⟨converged_cgls_step_law U.rows U.n U.Mmat C U.Mfwd U.Madj hf ha hC U.bTilde maxit hn eps cur, ?_⟩
  have hp := gaussPrec_model_isProbability U.rows U.n U.Mmat C hC
    (toV U.n (mulVec U.n C (tmulVec U.rows U.Mmat U.bTilde)))
  refine gaussPrec_model_eq_normalized U.rows U.n U.Mmat _ hp _ fun x => ?_
  rw [← ugla_step_is_local_gaussian_partial U invScale wdoc hs hw hloc x,
    ← ugla_step_is_local_gaussian_partial U invScale wdoc hs hw hloc _]
  simp only [ugla_Mfwd_eq_mulVec]
  exact lsq_complete_square _ _ _ _ _ _ (normalEq_of_inv _ _ _ C _ hC)

/-- a real UGLA instance with `D·location = 0`: `A = L = I₂`, `d = (1, 2)`, periodic-type differences
    `D = [[1, −1]]`, constant location `3/4`, `scale = 1/4` (`s = 2`), leaf weight `1/2` -/
noncomputable def exUglaR : Ugla ℝ :=
  { n := 2, lik := { m := 2, L := fun i j => if i = j then 1 else 0, A := fun i j => if i = j then 1 else 0,
                     d := fun i => i + 1 },
    p := 1, D := fun _ j => if j = 0 then 1 else -1, loc := fun _ => 3 / 4, s := 2, w := fun _ => 1 / 2 }

lemma exUglaR_isInv : IsInv 2 (gram exUglaR.rows exUglaR.Mmat)
    (fun i j => if i = j then 2 / 3 else 1 / 3) := by
  have hr : exUglaR.rows = 3 := rfl
  rw [hr]
  intro i j hi hj
  interval_cases i <;> interval_cases j <;>
    norm_num [mul, gram, ident, sumTo, Ugla.Mmat, Ugla.L2, exUglaR, hcat]

example := ugla_draw_law_partial exUglaR _ exUglaR_isInv 4 (fun _ => 1 / 4) (by norm_num [exUglaR])
  (fun _ _ => by norm_num [exUglaR])
  (fun i hi => by
    have : i = 0 := by have : exUglaR.p = 1 := rfl; omega
    subst this; norm_num [exUglaR, mulVec, sumTo])
  2 le_rfl (1 / 2 ^ 52) (fun _ => 0)

end CuqiVerif.C06
