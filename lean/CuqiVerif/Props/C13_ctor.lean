import CuqiVerif.Model.C13_ctor
import CuqiVerif.Props.C13
import CuqiVerif.Proofs.C13_shapes

/-!
# C13 (ctor) — from the constructor arguments to the geometry the map theorems are about

`Model/C13_ctor.lean` transcribes `_create_dimension`, the `Continuous1D/2D` grid setters,
`Image2D.__init__`, the `variables` setter / `Discrete` and the default geometries of `Samples` /
`CUQIarray`.  The theorems here state, for **every** admissible argument (all sizes), which shapes and
dimensions the constructed object reports and that it *is* the `Geom` of `Model/C13.lean` with those
sizes — so the round-trip / column-wise theorems (`image_roundtrip`, `image_par2fun_batch_columnwise`,
`cont2D_roundtrip_partial`, `maps_mutually_inverse_*`, …) are consequences of the transcribed
constructor instead of assuming "an `a × b` image".
-/

namespace CuqiVerif.C13

/-! ## `_create_dimension` -/

lemma arangeQ_length (n : ℤ) : (arangeQ n).length = n.toNat := by simp [arangeQ]

lemma arangeQ_get (n : ℤ) (i : ℕ) (h : i < n.toNat) : lget (arangeQ n) i = (i : ℚ) := by
  simp [lget, arangeQ, List.getD_eq_getElem?_getD, h]

/-- **Exactly which grid arguments are accepted, and what grid results**: `None` gives no grid; an
    int `n` (bare or in a 1-tuple) the nodes `0,1,…,n-1` (none for `n ≤ 0`); a list / 1-D array (bare or
    in a 1-tuple) itself; everything else (`None` or a tuple inside a tuple, tuples of other lengths,
    arrays that are not 1-D, floats, strings) is refused. -/
theorem createDimension_spec (a : DimArg) :
    createDimension a =
      match a with
      | .none => some none
      | .int n => some (some (arangeQ n))
      | .list xs => some (some xs)
      | .tuple1 (.int n) => some (some (arangeQ n))
      | .tuple1 (.list xs) => some (some xs)
      | _ => none := by
  cases a with
  | tuple1 b => cases b <;> rfl
  | _ => rfl

example : createDimension (.tuple1 (.int 3)) = some (some [0, 1, 2]) := by
  rw [createDimension_spec]; simp [arangeQ, List.range, List.range.loop]

/-- the default grid of `n` nodes: `n` nodes (for every int, `0` nodes when negative), node `i` at `i` -/
theorem createDimension_int (n : ℤ) :
    createDimension (.int n) = some (some (arangeQ n)) ∧ (arangeQ n).length = n.toNat ∧
    ∀ i, i < n.toNat → lget (arangeQ n) i = (i : ℚ) :=
  ⟨rfl, arangeQ_length n, arangeQ_get n⟩

example : (arangeQ 5).length = 5 := (createDimension_int 5).2.1

/-! ## Continuous1D / default 1-D geometry -/

/-- **Continuous1D (and `_DefaultGeometry1D`, same constructor), every accepted grid argument**: with a
    grid of `n` nodes the object reports `par_shape = fun_shape = (n,)`, `par_dim = fun_dim = n`, it is
    `Geom.cont1D n`, whose reported shapes are the same and whose maps are the identity on every array
    (so mutually inverse and trivially column-wise); without a grid everything reported is `None`. -/
theorem cont1D_ctor_shapes (a : DimArg) (g : Option (List ℚ)) (h : cont1DCtor a = some g) :
    (g = none → cont1DShapes g = ⟨none, none, none, none⟩ ∧ cont1DGeom g = none) ∧
    (∀ l, g = some l →
      cont1DShapes g = ⟨some [l.length], some l.length, some [l.length], some l.length⟩ ∧
      cont1DGeom g = some (Geom.cont1D l.length) ∧
      (Geom.cont1D l.length).parShape = [l.length] ∧ (Geom.cont1D l.length).funShape = some [l.length] ∧
      ∀ x, (Geom.cont1D l.length).par2fun x = some x ∧ (Geom.cont1D l.length).fun2par x = .ok x) := by
  constructor
  · rintro rfl; exact ⟨rfl, rfl⟩
  · rintro l rfl
    refine ⟨by simp [cont1DShapes, prod], rfl, rfl, rfl, fun x => ⟨rfl, rfl⟩⟩

example : cont1DShapes (some (arangeQ 4)) = ⟨some [4], some 4, some [4], some 4⟩ := by
  have := ((cont1D_ctor_shapes (.int 4) (some (arangeQ 4)) rfl).2 _ rfl).1
  simpa [arangeQ_length] using this

/-- number of nodes for each accepted argument form (int: `n.toNat`; list: its length) -/
theorem cont1D_ctor_node_count (n : ℤ) (xs : List ℚ) :
    cont1DCtor (.int n) = some (some (arangeQ n)) ∧ (arangeQ n).length = n.toNat ∧
    cont1DCtor (.tuple1 (.int n)) = some (some (arangeQ n)) ∧
    cont1DCtor (.list xs) = some (some xs) ∧ cont1DCtor (.tuple1 (.list xs)) = some (some xs) :=
  ⟨rfl, arangeQ_length n, rfl, rfl, rfl⟩

example : cont1DCtor (.tuple1 (.list [1, 2])) = some (some [1, 2]) := (cont1D_ctor_node_count 0 [1, 2]).2.2.2.2

/-! ## Continuous2D -/

/-- **The `Continuous2D` grid setter, every argument**: refused unless `None` or a pair of acceptable
    components; a pair is stored component-wise (a `None` component is stored as `None`, and then every
    shape property raises). -/
theorem cont2D_ctor_spec (a b : DimArg) :
    cont2DCtor .none = some none ∧ cont2DCtor .wrongLen = none ∧ cont2DCtor .noLen = none ∧
    (cont2DCtor (.pair a b) = none ↔ createDimension a = none ∨ createDimension b = none) ∧
    (∀ g1, cont2DShapes (some (none, g1)) = none) ∧ (∀ g0, cont2DShapes (some (g0, none)) = none) := by
  refine ⟨rfl, rfl, rfl, ?_, fun g1 => rfl, fun g0 => by cases g0 <;> rfl⟩
  unfold cont2DCtor
  cases ha : createDimension a <;> cases hb : createDimension b <;> simp only [ha, hb] <;> simp

example : cont2DCtor (.pair (.int 2) (.tupleN 2)) = none :=
  ((cont2D_ctor_spec (.int 2) (.tupleN 2)).2.2.2.1).2 (Or.inr rfl)

/-- **Continuous2D with two grids of `a` and `b` nodes (any accepted argument forms, all sizes)**:
    reports `fun_shape = (a, b)`, `par_shape = (a·b,)`, `par_dim = fun_dim = a·b`; it is `Geom.cont2D a b`,
    which reports the same; and — derived from the constructed object, for `a, b ≠ 1`, `a·b ≠ 0` —
    `par2fun` of a vector of `par_shape` has `fun_shape` and `fun2par` returns the vector. -/
theorem cont2D_ctor_shapes (arg : Grid2Arg) (g0 g1 : List ℚ) (_h : cont2DCtor arg = some (some (some g0, some g1))) :
    cont2DShapes (some (some g0, some g1)) =
      some ⟨some [g0.length * g1.length], some (g0.length * g1.length), some [g0.length, g1.length],
            some (g0.length * g1.length)⟩ ∧
    cont2DGeom (some (some g0, some g1)) = some (Geom.cont2D g0.length g1.length) ∧
    (Geom.cont2D g0.length g1.length).parShape = [g0.length * g1.length] ∧
    (Geom.cont2D g0.length g1.length).funShape = some [g0.length, g1.length] ∧
    (g0.length * g1.length ≠ 0 → g0.length ≠ 1 → g1.length ≠ 1 → ∀ x : Arr, x.shape = [g0.length * g1.length] →
      ∃ y z, (Geom.cont2D g0.length g1.length).par2fun x = some y ∧ y.shape = [g0.length, g1.length] ∧
        (Geom.cont2D g0.length g1.length).fun2par y = .ok z ∧ z.shape = [g0.length * g1.length] ∧
        ∀ m, z.get m = x.get m) := by
  refine ⟨by simp [cont2DShapes, prod], rfl, rfl, rfl, ?_⟩
  intro hab ha hb x hx
  exact cont2D_roundtrip_partial _ _ x hx hab ha hb

example : cont2DCtor (.pair (.int 2) (.tuple1 (.int 3))) = some (some (some (arangeQ 2), some (arangeQ 3))) := rfl

/-! ## Image2D -/

/-- **`Image2D.__init__`, every `im_shape` tuple, order string and `visual_only`**: refused only for the
    empty tuple; otherwise `par_shape = (∏ im_shape,)`, `par_dim = fun_dim = ∏ im_shape`, and `fun_shape`
    is `im_shape` (or `par_shape` when `visual_only`). -/
theorem image_ctor_shapes (sh : List ℕ) (order : String) (v : Bool) :
    (sh = [] → imageCtor sh order v = none) ∧
    (sh ≠ [] → ∃ ob, imageCtor sh order v = some ob ∧ ob.imShape = sh ∧ ob.visual = v ∧
      ob.order = orderOfString order ∧
      ob.shapes.parShape = some [prod sh] ∧ ob.shapes.parDim = some (prod sh) ∧
      ob.shapes.funShape = some (if v then [prod sh] else sh) ∧ ob.shapes.funDim = some (prod sh)) := by
  constructor
  · rintro rfl; rfl
  · intro h
    refine ⟨⟨sh, orderOfString order, ravelOrderOfString order, v⟩, by simp [imageCtor, h], rfl, rfl, rfl, rfl, by simp [ImageObj.shapes, prod], rfl, ?_⟩
    cases v <;> simp [ImageObj.shapes, prod]

example : ∃ ob, imageCtor [2, 3, 4] "F" false = some ob ∧ ob.shapes.parDim = some 24 := by
  obtain ⟨ob, h, _, _, _, _, hd, _⟩ := (image_ctor_shapes [2, 3, 4] "F" false).2 (by simp)
  exact ⟨ob, h, by simpa [prod] using hd⟩

/-- **A two-axis image with order 'C' or 'F' is the `Geom.image` of the map theorems**: the constructed
    object's maps are literally those of `Geom.image a b f visual_only` (reported shapes included). -/
theorem image_ctor_is_geom (a b : ℕ) (f v : Bool) :
    ∃ ob, imageCtor [a, b] (if f then "F" else "C") v = some ob ∧
      ob.geom = some (Geom.image a b f v) ∧
      ob.shapes.parShape = some (Geom.image a b f v).parShape ∧
      ob.shapes.funShape = (Geom.image a b f v).funShape ∧
      (∀ x, ob.par2fun x = (Geom.image a b f v).par2fun x) ∧
      (∀ x, (Geom.image a b f v).fun2par x = match ob.fun2par x with | some y => .ok y | none => .error "raise") := by
  have ho : orderOfString (if f then "F" else "C") = some f := by cases f <;> decide +kernel
  have hr : ravelOrderOfString (if f then "F" else "C") = some f := by cases f <;> decide +kernel
  refine ⟨⟨[a, b], some f, some f, v⟩, by simp [imageCtor, ho, hr], rfl, ?_, ?_, ?_, ?_⟩
  · simp [ImageObj.shapes, Geom.parShape, prod]
  · cases v <;> simp [ImageObj.shapes, Geom.funShape, prod]
  · intro x; cases v <;> simp [ImageObj.par2fun, ImageObj.vectorToImage, Geom.par2fun]
  · intro x; cases v <;> simp [ImageObj.fun2par, Geom.fun2par]

/-- **Round trip and column-wise action derived from the constructor**: for `Image2D((a, b), order)`,
    both orders, all `a·b ≠ 0`: a vector of `par_shape` is mapped to an `(a, b)` image and back to itself;
    a batch `(a·b, ns)`, `ns ≥ 2`, is mapped to `(a, b, ns)` whose slice `k` is `par2fun` of column `k`. -/
theorem image_ctor_roundtrip_columnwise (a b : ℕ) (f : Bool) (hab : a * b ≠ 0) :
    ∃ ob, imageCtor [a, b] (if f then "F" else "C") false = some ob ∧
      (∀ x : Arr, x.shape = [a * b] → ∃ y z, ob.par2fun x = some y ∧ y.shape = [a, b] ∧
        ob.fun2par y = some z ∧ z.shape = [a * b] ∧ ∀ m, m < a * b → z.get m = x.get m) ∧
      (∀ (ns : ℕ) (x : Arr), x.shape = [a * b, ns] → 2 ≤ ns → ∃ y, ob.par2fun x = some y ∧ y.shape = [a, b, ns] ∧
        ∀ k, k < ns → ∃ yk, ob.par2fun (x.col ns k) = some yk ∧ yk.shape = [a, b] ∧
          ∀ r, (y.col ns k).get r = yk.get r) := by
  obtain ⟨ob, hc, _, _, _, hp, hf⟩ := image_ctor_is_geom a b f false
  refine ⟨ob, hc, ?_, ?_⟩
  · intro x hx
    obtain ⟨y, z, h1, h2, h3, h4, h5⟩ := image_roundtrip a b f x hx hab
    refine ⟨y, z, by rw [hp, h1], h2, ?_, h4, h5⟩
    have := hf y
    rw [h3] at this
    cases hz : ob.fun2par y with
    | none => rw [hz] at this; cases this
    | some z' => rw [hz] at this; cases this; rfl
  · intro ns x hx hns
    obtain ⟨y, h1, h2, h3⟩ := image_par2fun_batch_columnwise a b ns f x hx hab hns
    refine ⟨y, by rw [hp, h1], h2, ?_⟩
    intro k hk
    obtain ⟨yk, g1, g2, g3⟩ := h3 k hk
    exact ⟨yk, by rw [hp, g1], g2, g3⟩

example : ∃ ob, imageCtor [2, 3] "F" false = some ob ∧
    ∀ x : Arr, x.shape = [2 * 3] → ∃ y z, ob.par2fun x = some y ∧ y.shape = [2, 3] ∧
      ob.fun2par y = some z ∧ z.shape = [2 * 3] ∧ ∀ m, m < 2 * 3 → z.get m = x.get m := by
  obtain ⟨ob, h, hr, _⟩ := image_ctor_roundtrip_columnwise 2 3 true (by norm_num)
  exact ⟨ob, h, hr⟩

/-- **Misuse is refused by the maps, not by the constructor**: an `im_shape` with fewer than two axes, or
    an order string other than 'C'/'F', is accepted by `__init__` (shapes are reported) but `par2fun` of a
    non-visual geometry raises on every input. -/
theorem image_ctor_misuse_refused_late (sh : List ℕ) (order : String) (ob : ImageObj)
    (h : imageCtor sh order false = some ob) (hbad : sh.length ≤ 1 ∨ orderOfString order = none) (x : Arr) :
    ob.par2fun x = none := by
  unfold imageCtor at h
  split at h
  · cases h
  · cases h
    simp only [ImageObj.par2fun, Bool.false_eq_true, if_false, ImageObj.vectorToImage]
    cases ho : orderOfString order with
    | none => rfl
    | some f =>
      rcases hbad with hl | hn
      · match sh, hl with
        | [], _ => simp_all
        | [d], _ =>
          simp only [List.cons_append, List.nil_append, List.length_cons, List.length_nil]
          split <;> simp
      · rw [ho] at hn; cases hn

example : ∀ ob, imageCtor [6] "C" false = some ob → ∀ x, ob.par2fun x = none :=
  fun ob h x => image_ctor_misuse_refused_late [6] "C" ob h (Or.inl (by simp)) x

/-- **numpy's other order letters**: the order string is case-insensitive; 'A' behaves as 'C' (on the
    C-contiguous arrays of the model); with 'K' `par2fun` raises on every input (reshape refuses it) while
    `fun2par` ravels in C order. -/
theorem image_ctor_other_orders (sh : List ℕ) (hsh : sh ≠ []) (x : Arr) :
    imageCtor sh "a" false = imageCtor sh "C" false ∧ imageCtor sh "A" false = imageCtor sh "C" false ∧
    imageCtor sh "c" false = imageCtor sh "C" false ∧ imageCtor sh "f" false = imageCtor sh "F" false ∧
    (∀ ob, imageCtor sh "K" false = some ob → ob.par2fun x = none ∧ ob.fun2par x = some (imageRavel false x)) := by
  have e1 : orderOfString "a" = orderOfString "C" := by decide +kernel
  have e2 : orderOfString "A" = orderOfString "C" := by decide +kernel
  have e3 : orderOfString "c" = orderOfString "C" := by decide +kernel
  have e4 : orderOfString "f" = orderOfString "F" := by decide +kernel
  have r1 : ravelOrderOfString "a" = ravelOrderOfString "C" := by decide +kernel
  have r2 : ravelOrderOfString "A" = ravelOrderOfString "C" := by decide +kernel
  have r3 : ravelOrderOfString "c" = ravelOrderOfString "C" := by decide +kernel
  have r4 : ravelOrderOfString "f" = ravelOrderOfString "F" := by decide +kernel
  have k1 : orderOfString "K" = none := by decide +kernel
  have k2 : ravelOrderOfString "K" = some false := by decide +kernel
  refine ⟨by simp [imageCtor, e1, r1], by simp [imageCtor, e2, r2], by simp [imageCtor, e3, r3],
    by simp [imageCtor, e4, r4], ?_⟩
  intro ob h
  simp only [imageCtor, hsh, if_false, k1, k2, Option.some.injEq] at h
  subst h
  simp [ImageObj.par2fun, ImageObj.vectorToImage, ImageObj.fun2par]

example : ∀ ob, imageCtor [2, 3] "K" false = some ob → ob.par2fun (ones 6) = none :=
  fun ob h => ((image_ctor_other_orders [2, 3] (by simp) (ones 6)).2.2.2.2 ob h).1

/-- **`variables` of a geometry whose variables were never set**: `par_dim` generated names (`v` alone for
    one parameter), as many as `par_dim`; without a grid (`par_dim is None`) the property raises.  A bool
    argument is an int in Python: `True`/`False` act as `1`/`0` in `_create_dimension` and in the setter. -/
theorem default_variables_count (n : ℕ) :
    (∃ vs, defaultVariables (some n) = some vs ∧ vs.length = n) ∧ defaultVariables none = none ∧
    createDimension (.int 1) = some (some [0]) ∧ createDimension (.int 0) = some (some []) ∧
    variablesOf (.int 1) = some ["v"] ∧ variablesOf (.int 0) = some [] := by
  refine ⟨?_, rfl, by simp [createDimension, createDimCore, arangeQ, List.range, List.range.loop], by simp [createDimension, createDimCore, arangeQ], rfl, rfl⟩
  by_cases h1 : (n : ℤ) = 1
  · have : n = 1 := by exact_mod_cast h1
    subst this
    exact ⟨["v"], rfl, rfl⟩
  · exact ⟨(List.range n).map fun i => "v" ++ toString i, by simp [defaultVariables, variablesOf, h1], by simp⟩

example : ∃ vs, defaultVariables (some 4) = some vs ∧ vs.length = 4 := (default_variables_count 4).1

/-! ## Discrete and the default geometries -/

/-- **`Discrete(variables)`**: an int `n` gives `n` generated names (`0` for `n ≤ 0`), a list of `k`
    strings gives `k`; both reported shapes are `(len,)`, both dimensions `len`; a list with a non-string
    or any other type is refused. -/
theorem discrete_ctor_shapes (n : ℤ) (names : List String) :
    (∃ vs, variablesOf (.int n) = some vs ∧ vs.length = n.toNat ∧
      discreteShapes vs = ⟨some [n.toNat], some n.toNat, some [n.toNat], some n.toNat⟩) ∧
    (variablesOf (.strs names) = some names ∧
      discreteShapes names = ⟨some [names.length], some names.length, some [names.length], some names.length⟩) ∧
    variablesOf .listOther = none ∧ variablesOf .other = none := by
  refine ⟨?_, ⟨rfl, by simp [discreteShapes, prod]⟩, rfl, rfl⟩
  by_cases h1 : n = 1
  · subst h1
    exact ⟨["v"], rfl, rfl, by simp [discreteShapes, prod]⟩
  · refine ⟨(List.range n.toNat).map fun i => "v" ++ toString i, by simp [variablesOf, h1], by simp,
      by simp [discreteShapes, prod]⟩

example : ∃ vs, variablesOf (.int 3) = some vs ∧ vs.length = 3 := by
  obtain ⟨vs, h, hl, _⟩ := (discrete_ctor_shapes 3 []).1
  exact ⟨vs, h, hl⟩

/-- **Default geometries**: a `Samples` array of shape `d₁ × … × d_k × Ns` with `k ≥ 1` gets a default
    1-D geometry with `∏ dᵢ` nodes (parameters of that dimension); a bare 1-D samples array gets none
    (`np.prod(())` is a float, refused by `_create_dimension`); a 1-D `CUQIarray` of length `d` gets `d`
    nodes, a 0-d one is refused. -/
theorem default_geometry_dims (sh : List ℕ) (d : ℕ) :
    (sh.dropLast ≠ [] → ∃ g, cont1DCtor (samplesDefaultArg sh) = some (some g) ∧ g.length = prod sh.dropLast) ∧
    (sh.dropLast = [] → cont1DCtor (samplesDefaultArg sh) = none) ∧
    (∃ a g, carrDefaultArg [d] = some a ∧ cont1DCtor a = some (some g) ∧ g.length = d) ∧
    carrDefaultArg [] = none := by
  refine ⟨?_, ?_, ⟨_, _, rfl, rfl, by simp [arangeQ_length]⟩, rfl⟩
  · intro h
    refine ⟨arangeQ (prod sh.dropLast), by simp [samplesDefaultArg, h, cont1DCtor, createDimension, createDimCore], by simp [arangeQ_length]⟩
  · intro h
    simp [samplesDefaultArg, h, cont1DCtor, createDimension, createDimCore]

example : ∃ g, cont1DCtor (samplesDefaultArg [2, 3, 5]) = some (some g) ∧ g.length = 6 := by
  obtain ⟨g, h, hl⟩ := (default_geometry_dims [2, 3, 5] 0).1 (by simp)
  exact ⟨g, h, by simpa [prod] using hl⟩

end CuqiVerif.C13
