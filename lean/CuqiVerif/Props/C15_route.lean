import CuqiVerif.Model.C15_route
import Mathlib.Tactic.Basic

/-!
# C15, the decision table of `MAP` / `ML` / `_solve_max_point` (session-3, second pass)

About `estimateCall` / `solveMaxPoint` of `Model/C15_route.lean` (tied to the code on generated problem classes
with recording solver classes, probes measured on the implementation).
-/
set_option linter.unusedVariables false

namespace CuqiVerif.C15

/-- the part-1 problem with its single gradient flag read off the probe at zeros -/
def withProbe (p : Problem) (c : CallInputs) : Problem := { p with hasGradient := c.probeZeros = .ok }

def routeOfSolver : Option SolverClass → MapRoute
  | none => .direct | some .lbfgsb => .lbfgsb | some .minimize => .minimize

/-- **estimateCall_refines_route.**  Whenever `MAP`/`ML` does not raise from a gradient probe, the route it
    takes is the one of the part-1 table (`mapRoute` / `mlRoute`, with `hasGradient` = "the posterior's gradient
    at zeros is available"): closed form ⇔ Gaussian/Gaussian/linear/small (MAP only), `L_BFGS_B` ⇔ CMRF prior with
    that gradient, `minimize` otherwise — independently of `disp`, of the user's `x0` and of the probe at the
    start point. -/
theorem estimateCall_refines_route (p : Problem) (c : CallInputs) (o : CallOutcome)
    (h : estimateCall p c = some o) :
    routeOfSolver o.solver = (match c.which with | .map => mapRoute (withProbe p c) | .ml => mlRoute (withProbe p c)) := by
  have hdo : (withProbe p c).directOk = p.directOk := rfl
  have hpr : (withProbe p c).prior = p.prior := rfl
  have hg : (withProbe p c).hasGradient = decide (c.probeZeros = .ok) := rfl
  obtain ⟨w, disp, ux, ps, pz⟩ := c
  cases w <;> simp only [mapRoute, mlRoute, hdo, hpr, hg] <;> cases hd : p.directOk <;> cases ps <;> cases pz <;>
    cases hc : (p.prior == PriorKind.cmrf) <;>
    simp [estimateCall, solveMaxPoint, hd, hc] at h ⊢ <;> (subst h; simp [routeOfSolver])

example : (estimateCall ⟨.cmrf, .gaussian, .linear, 3, 4, true, true, 2000⟩ ⟨.map, false, true, .ok, .ok⟩).map (·.solver)
    = some (some .lbfgsb) := by decide

/-- **estimateCall_raises_iff.**  `ML` raises from the decision logic exactly when one of the two gradient probes
    raises an exception other than `NotImplementedError`/`AttributeError`; `MAP` likewise unless it takes the
    closed form (which evaluates no probe). -/
theorem estimateCall_raises_iff (p : Problem) (c : CallInputs) :
    estimateCall p c = none ↔
      (c.which = .ml ∨ p.directOk = false) ∧ (c.probeStart = .other ∨ c.probeZeros = .other) := by
  obtain ⟨w, disp, ux, ps, pz⟩ := c
  cases w <;> cases hd : p.directOk <;> cases ps <;> cases pz <;> simp [estimateCall, solveMaxPoint, hd]

example : estimateCall ⟨.gaussian, .gaussian, .nonlinear, 3, 3, true, true, 2000⟩ ⟨.map, true, false, .ok, .other⟩ = none := by
  decide

/-- **estimateCall_gradfunc_and_start.**  On the optimisation route a gradient function is handed to the solver
    iff the probe *at the start point* succeeded (not the probe at zeros that selects the solver); the start point
    is the caller's `x0` iff one was passed; the returned array carries the posterior's geometry for `MAP`, the
    likelihood's for `ML`; the `info["solver"]` label is `"L-BFGS-B"` whichever solver ran (`"direct"` for the
    closed form). -/
theorem estimateCall_gradfunc_and_start (p : Problem) (c : CallInputs) (o : CallOutcome) (s : SolverClass)
    (h : estimateCall p c = some o) (hs : o.solver = some s) :
    (o.hasGrad = true ↔ c.probeStart = .ok) ∧ o.startIsUser = c.userX0 ∧ o.label = "L-BFGS-B" ∧
    (o.geomOfPosterior = true ↔ c.which = .map) := by
  obtain ⟨w, disp, ux, ps, pz⟩ := c
  cases w <;> cases hd : p.directOk <;> cases ps <;> cases pz <;>
    simp [estimateCall, solveMaxPoint, hd] at h <;> (subst h; simp_all)

example : ((estimateCall ⟨.gmrf, .gaussian, .linear, 3, 3, true, true, 2000⟩ ⟨.ml, false, true, .notImplemented, .ok⟩).map
    fun o => (o.hasGrad, o.startIsUser, o.label)) = some (false, true, "L-BFGS-B") := by decide

/-- **estimateCall_disp_only_prints.**  `disp` changes what is printed and nothing else. -/
theorem estimateCall_disp_only_prints (p : Problem) (c : CallInputs) (d : Bool) :
    (estimateCall p { c with disp := d }).map (fun o => (o.solver, o.hasGrad, o.startIsUser, o.label, o.geomOfPosterior)) =
    (estimateCall p c).map (fun o => (o.solver, o.hasGrad, o.startIsUser, o.label, o.geomOfPosterior)) ∧
    ((estimateCall p { c with disp := false }).map (·.printed) = (estimateCall p c).map fun _ => []) := by
  obtain ⟨w, disp, ux, ps, pz⟩ := c
  cases w <;> cases hd : p.directOk <;> cases ps <;> cases pz <;> simp [estimateCall, solveMaxPoint, hd]

example : ((estimateCall ⟨.gaussian, .gaussian, .linear, 3, 4, true, true, 2000⟩ ⟨.map, true, false, .ok, .ok⟩).map
    fun o => o.printed.length) = some 5 := by decide

end CuqiVerif.C15
