import CuqiVerif.Proofs.C17_posterior

/-!
# C17 — the posterior of every shipped test problem, as a theorem about the models

`docs/C17.md` listed as *not delivered*: "`posterior.logd` = Gaussian log-likelihood of the stated noise
+ log-prior" was only validated numerically.  This file proves it, by composing

* **C17's plumbing record** (`mkTarget`, `getComponents`, `components_coherent`): which objects the
  posterior is built from — the data distribution whose mean is *the* model, conditioned on *the* data,
  and *the* prior (the same objects `get_components()` hands out);
* **C01's conditioning theorems** (`Props/C01.lean`, `Props/C01_full.lean`: `condition_steps`,
  `reduce_rep`/`reduce_branches`, `rep_logd_ok`/`condition_logd`): `BayesianProblem.__init__` on both
  construction paths (`JointDistribution(y, x)(y=data)` and `JointDistribution(y.to_likelihood(data), x)()`),
  run in C01's executable model of `JointDistribution.__call__` / `_reduce_to_single_density` /
  `Posterior.logd`, yields a `Posterior` whose `logd` is likelihood + prior (+ no constants);
* **C04's Gaussian log-density** (`Props/C04_norm.lean`: `gaussDiagLogpdf`, `gauss_diag_exp_logpdf`,
  `gauss_diag_integral_eq_one`; `Props/C04.lean`: `quadForm_diag`): `Gaussian(mean, cov).logd` for a
  scalar / vector covariance is the normalised density with that covariance;
* **C17's operator and noise theorems** (`Props/C17.lean`) for the assembled forward operator and the data.

Vocabulary (definitions below and in `Proofs/C17_posterior.lean`):

* `Sem` — the mathematical content of the objects a constructor creates (forward map on parameters,
  covariance diagonal, data, exact values, log-prior); `Sem.vecOf / mapOf / covOf / logpOf` read it through
  C17's object identities `Obj`, so the theorems depend on how `mkTarget` wires the record.
* `Sem.posterior S p` — `BayesianProblem.__init__` for problem `p` in C01's model (`buildVia`).
* `logPostDoc` — the documented value
  `−½ Σ_i ((data_i − (A x)_i)/σ_i)² − Σ_i log|σ_i| − (m/2) log 2π + logprior(x)`.
* `Noise` — the three noise set-ups of the constructors with their covariance, `σ_i`, sampling path;
  `construct` — what every constructor computes (`exactData = forward(exactSolution)`, data by the
  sampling path, covariance from the stated level).
* `deconv1dSem … wangSem` — the seven constructors as instances (`R = ℝ` instances of the generic
  definitions of `Model/C17.lean` / `Model/C07.lean` that the driver runs at `R = Rat`).
-/
open Finset

set_option linter.unusedSimpArgs false
set_option linter.unusedVariables false
set_option linter.unusedSectionVars false

namespace CuqiVerif.C17
open CuqiVerif.C07

/-! ## vocabulary -/

/-- The mathematical content of the objects a test-problem constructor creates. -/
structure Sem where
  /-- number of data (`model.range_dim`) -/
  m : ℕ
  /-- number of parameters (`model.domain_dim`) -/
  n : ℕ
  /-- `model.forward` on parameters -/
  fwd : Vec → Vec
  /-- the scalar / vector covariance handed to `Gaussian(model(x), cov)` (diagonal) -/
  cov : Vec
  /-- the observed data -/
  data : Vec
  exactSolution : Vec
  exactData : Vec
  /-- `prior.logd` (leaf) -/
  logprior : Vec → ℝ

/-- the array an object identity denotes -/
def Sem.vecOf (S : Sem) : Obj → Vec
  | .data => S.data
  | .exactData => S.exactData
  | .exactSolution => S.exactSolution
  | _ => fun _ => 0

/-- the forward map an object identity denotes -/
def Sem.mapOf (S : Sem) : Obj → Vec → Vec
  | .model => S.fwd
  | _ => fun _ _ => 0

/-- the covariance of the distribution an object identity denotes -/
def Sem.covOf (S : Sem) : Obj → Vec
  | .dataDist => S.cov
  | _ => fun _ => 0

/-- the log-density of the (unconditional) distribution an object identity denotes -/
def Sem.logpOf (S : Sem) : Obj → Vec → ℝ
  | .prior => S.logprior
  | _ => fun _ => 0

/-- log-density of the data distribution of a likelihood record, `Gaussian(distMean(x), cov(dist)).logd(y)` -/
noncomputable def Sem.likLogd (S : Sem) (L : Lik) : Vec → Vec → ℝ :=
  fun x y => gaussLogd S.m (S.mapOf L.distMean x) (S.covOf L.dist) y

/-- `BayesianProblem.__init__` for a target record on a construction path, in C01's executable model:
    the graph `y | x`, `x` with the record's data distribution and prior, conditioned on the record's data. -/
noncomputable def Sem.build (S : Sem) (t : Target) (path : Path) : Except C01.Err (C01.Obj Vec ℝ) :=
  buildVia S.m S.n (S.likLogd t.likelihood) (S.logpOf t.prior) (S.vecOf t.likelihood.data) path

/-- `TestProblem(...)._target` = what `.posterior` returns, for the shipped problem `p` -/
noncomputable def Sem.posterior (S : Sem) (p : Problem) : Except C01.Err (C01.Obj Vec ℝ) :=
  S.build (mkTarget p.path) p.path

/-- **The documented log-posterior**: Gaussian log-likelihood with standard deviations `sd` at
    `data − forward(x)`, normalised, plus the log-prior:
    `−½ Σ_i ((data_i − (A x)_i)/σ_i)² − Σ_i log|σ_i| − (m/2) log 2π + logprior(x)`. -/
noncomputable def logPostDoc (S : Sem) (sd : Vec) (x : Vec) : ℝ :=
  -(1 / 2) * ∑ i ∈ range S.m, ((S.data i - S.fwd x i) / sd i) ^ 2 - ∑ i ∈ range S.m, Real.log |sd i|
    - (S.m : ℝ) / 2 * Real.log (2 * Real.pi) + S.logprior x

/-- What is delivered for a problem: construction succeeds, the target is a `Posterior` over `x`, and
    `posterior.logd(x)` / `posterior.logd(x=x)` is the documented value for every `x`. -/
def PosteriorIs (S : Sem) (p : Problem) (val : Vec → ℝ) : Prop :=
  ∃ o, S.posterior p = .ok o ∧ o.kind = "Posterior" ∧ o.paramNames = ["x"] ∧
    ∀ x : Vec, o.logd [x] [] = .ok (val x) ∧ o.logd [] [("x", x)] = .ok (val x)

/-- The noise set-ups of the constructors. -/
inductive Noise
  /-- `noise_type="gaussian"`: `Gaussian(model(x), noise_std**2)`, data = `data_dist(x_exact).sample()`
      (Deconvolution1D/2D; WangCubic uses the same distribution with given data) -/
  | gaussian (σ : ℝ)
  /-- `noise_type="scaledgaussian"`: `Gaussian(model(x), (y_exact*noise_std)**2)` -/
  | scaled (σ : ℝ)
  /-- Poisson1D / Heat1D / Abel1D: `Gaussian(model, sigma*sigma)`, data = `y_exact + normal(0, sigma)`,
      `sigma = ‖y_exact‖/SNR` (`snr_sigma`) -/
  | snr (σ : ℝ)

/-- the covariance the constructor hands to `Gaussian` (`Model/C17`'s `covGaussian`, `covScaled` at `ℝ`) -/
def Noise.cov : Noise → Vec → Vec
  | .gaussian σ, _ => covGaussian σ
  | .scaled σ, ye => covScaled σ ye
  | .snr σ, _ => covGaussian σ

/-- the stated standard deviation of datum `i` -/
def Noise.sd : Noise → Vec → Vec
  | .gaussian σ, _ => fun _ => σ
  | .scaled σ, ye => fun i => ye i * σ
  | .snr σ, _ => fun _ => σ

/-- the sampling path of the constructor (`Model/C17`'s `samplePath` with `Real.sqrt`, `dataNormal`) -/
noncomputable def Noise.sample : Noise → Vec → Vec → Vec
  | .gaussian σ, ye, ξ => samplePath Real.sqrt (covGaussian σ) ye ξ
  | .scaled σ, ye, ξ => samplePath Real.sqrt (covScaled σ ye) ye ξ
  | .snr σ, ye, ξ => dataNormal σ ye ξ

/-- the factor of the standard-normal draw in `data − exactData` -/
def Noise.scale : Noise → Vec → Vec
  | .gaussian σ, _ => fun _ => |σ|
  | .scaled σ, ye => fun i => |σ| * |ye i|
  | .snr σ, _ => fun _ => σ

/-- `noise_type.lower()` → the noise set-up (`Model/C17.noiseType`: `false` = gaussian, `true` = scaledgaussian) -/
def noiseOf (scaled : Bool) (σ : ℝ) : Noise := if scaled then .scaled σ else .gaussian σ

/-- What every constructor computes: `y_exact = forward(x_exact)` on function values (`fwdFun`), the
    model on parameters is `fwdFun ∘ par2fun`, the covariance from the stated level, the data by the
    sampling path with the normal draw `ξ`. -/
noncomputable def construct (m n : ℕ) (fwdFun par2fun : Vec → Vec) (noise : Noise) (xe ξ : Vec)
    (logprior : Vec → ℝ) : Sem where
  m := m
  n := n
  fwd := fun p => fwdFun (par2fun p)
  cov := noise.cov (fwdFun xe)
  data := noise.sample (fwdFun xe) ξ
  exactSolution := xe
  exactData := fwdFun xe
  logprior := logprior

/-! ## 1. the Gaussian log-likelihood (C04) -/

/-- **`Gaussian(mean, cov).logd` is the normalised Gaussian log-density with the stated covariance.**
    For a scalar / vector covariance `cov_i = σ_i²` (`σ_i ≠ 0`), every dimension, mean and point:
    (a) the value C04's model assembles is `−½ Σ ((y_i − mean_i)/σ_i)² − Σ log|σ_i| − (m/2) log 2π`;
    (b) its exponential is the product of the one-dimensional normal densities `N(y_i; mean_i, cov_i)`
    (C04 `gauss_diag_exp_logpdf`); (c) it integrates to one over `ℝ^m` (C04 `gauss_diag_integral_eq_one`). -/
theorem gauss_loglik_documented (m : ℕ) (mean cov sd y : Vec)
    (hcov : ∀ i, i < m → cov i = sd i * sd i) (hsd : ∀ i, i < m → sd i ≠ 0) :
    gaussLogd m mean cov y
        = -(1 / 2) * ∑ i ∈ range m, ((y i - mean i) / sd i) ^ 2 - ∑ i ∈ range m, Real.log |sd i|
          - (m : ℝ) / 2 * Real.log (2 * Real.pi) ∧
    Real.exp (gaussLogd m mean cov y)
        = ∏ i : Fin m, ProbabilityTheory.gaussianPDFReal (mean i) (Real.toNNReal (cov i)) (y i) ∧
    ∫ z : Fin m → ℝ, Real.exp (C04.gaussDiagLogpdf m (fun i => mean i) (fun i => cov i) z) = 1 := by
  have hpos : ∀ i : Fin m, 0 < (fun i : Fin m => cov i) i := fun i => by
    show 0 < cov i
    rw [hcov i i.2]; exact mul_self_pos.mpr (hsd i i.2)
  exact ⟨gaussLogd_eq_documented m mean cov sd y hcov hsd,
    C04.gauss_diag_exp_logpdf m _ _ _ hpos, C04.gauss_diag_integral_eq_one m _ _ hpos⟩

example : gaussLogd 2 (fun _ => 1) (fun _ => 4) (fun i => (i : ℝ))
    = -(1 / 2) * ∑ i ∈ range 2, (((i : ℝ) - 1) / 2) ^ 2 - ∑ i ∈ range 2, Real.log |(2 : ℝ)|
      - ((2 : ℕ) : ℝ) / 2 * Real.log (2 * Real.pi) :=
  (gauss_loglik_documented 2 _ _ (fun _ => 2) _ (fun _ _ => by norm_num) (fun _ _ => by norm_num)).1

/-! ## 2. the posterior is log-likelihood + log-prior (C17 plumbing ∘ C01 conditioning) -/

/-- **Both construction paths build the same target** — for every record, `JointDistribution(y, x)(y=data)`
    (`viaData`) and `JointDistribution(y.to_likelihood(data), x)()` (`viaLikelihood`) reduce the same list
    of densities (C01 `condition_steps`). -/
theorem posterior_paths_agree (S : Sem) (t : Target) : S.build t .viaData = S.build t .viaLikelihood := by
  unfold Sem.build
  rw [build_reduce, build_reduce]

/-- **`posterior.logd = likelihood.logd + prior.logd`, for all six problems, on the objects
    `get_components()` returns.**  For every content `S` of the constructor's objects and every shipped
    problem `p`: construction succeeds; the target is a `Posterior` with parameter `x`, unnamed, with
    constant `0`; its likelihood is the data distribution `Gaussian(model(x), cov)` — `model` being the
    object `get_components()[0]` — conditioned on the data `get_components()[1]`, its prior is the
    prior; and `posterior.logd(x)` (by position or keyword) is `Gaussian(model(x), cov).logd(data) + prior.logd(x)`. -/
theorem posterior_eq_loglik_plus_logprior (S : Sem) (p : Problem) :
    ∃ o, S.posterior p = .ok o ∧ o.kind = "Posterior" ∧ o.paramNames = ["x"] ∧
      o = .post
            (.lik (yFac S.m fun x y => gaussLogd S.m (S.mapOf (getComponents p).model x) S.cov y)
              (fun _ => none) (S.vecOf (getComponents p).data) 0)
            (C01.fresh (xFac S.n S.logprior)) (0 + 0) none ∧
      ∀ x : Vec,
        o.logd [x] [] = .ok (gaussLogd S.m (S.fwd x) S.cov S.data + S.logprior x) ∧
        o.logd [] [("x", x)] = .ok (gaussLogd S.m (S.fwd x) S.cov S.data + S.logprior x) := by
  obtain ⟨hm, hd, hp, hdist, _, _⟩ := components_coherent p
  have hm' : (mkTarget p.path).likelihood.distMean = .model := hm
  have hd' : (mkTarget p.path).likelihood.data = .data := hd
  have hp' : (mkTarget p.path).prior = .prior := hp
  obtain ⟨o, ho, hk, hpn, hform, hlogd⟩ := build_post S.m S.n (S.likLogd (mkTarget p.path).likelihood)
    (S.logpOf (mkTarget p.path).prior) (S.vecOf (mkTarget p.path).likelihood.data) p.path
  have hll : S.likLogd (mkTarget p.path).likelihood
      = fun x y => gaussLogd S.m (S.mapOf Obj.model x) S.cov y := by
    funext x y
    simp only [Sem.likLogd, hm', hdist, Sem.covOf]
  refine ⟨o, ho, hk, hpn, ?_, ?_⟩
  · rw [hform, hm, hd, hll, hd', hp']
    rfl
  · intro x
    have := hlogd x
    simpa only [Sem.likLogd, hm', hd', hp', hdist, Sem.covOf, Sem.logpOf, Sem.mapOf, Sem.vecOf] using this

/-- a concrete content: identity model on two data, variances 4, data `(1, 3)`, prior `−‖x‖²/2` -/
noncomputable def exSem : Sem where
  m := 2
  n := 2
  fwd := fun x => x
  cov := fun _ => 4
  data := fun i => 2 * (i : ℝ) + 1
  exactSolution := fun _ => 1
  exactData := fun _ => 1
  logprior := fun x => -(x 0 ^ 2 + x 1 ^ 2) / 2

example := posterior_eq_loglik_plus_logprior exSem .heat1D
example := posterior_paths_agree exSem (mkTarget .viaData)

/-- **The composed statement, generic in the noise model and the forward operator.**  If the covariance
    handed to the data distribution is `σ_i²` with `σ_i ≠ 0`, then for all six problems
    `posterior.logd(x) = −½ Σ_i ((data_i − (A x)_i)/σ_i)² − Σ_i log|σ_i| − (m/2) log 2π + logprior(x)`. -/
theorem posterior_logd_documented (S : Sem) (p : Problem) (sd : Vec)
    (hcov : ∀ i, i < S.m → S.cov i = sd i * sd i) (hsd : ∀ i, i < S.m → sd i ≠ 0) :
    PosteriorIs S p (logPostDoc S sd) := by
  obtain ⟨o, ho, hk, hpn, _, hlogd⟩ := posterior_eq_loglik_plus_logprior S p
  refine ⟨o, ho, hk, hpn, fun x => ?_⟩
  have e : gaussLogd S.m (S.fwd x) S.cov S.data + S.logprior x = logPostDoc S sd x := by
    rw [(gauss_loglik_documented S.m (S.fwd x) S.cov sd S.data hcov hsd).1]; rfl
  rw [← e]; exact hlogd x

example : PosteriorIs exSem .deconv2D (logPostDoc exSem fun _ => 2) :=
  posterior_logd_documented exSem .deconv2D (fun _ => 2) (fun _ _ => by simp [exSem]; norm_num)
    (fun _ _ => by norm_num)

/-- **Un-normalised form.**  With a noise level that does not depend on `x`, the posterior log-density is
    the weighted misfit plus the log-prior up to one constant:
    `posterior.logd(x) = −½ Σ_i ((data_i − (A x)_i)/σ_i)² + logprior(x) + c` for all `x`. -/
theorem posterior_logd_upto_constant (S : Sem) (p : Problem) (sd : Vec)
    (hcov : ∀ i, i < S.m → S.cov i = sd i * sd i) (hsd : ∀ i, i < S.m → sd i ≠ 0) :
    ∃ c : ℝ, PosteriorIs S p fun x =>
      -(1 / 2) * ∑ i ∈ range S.m, ((S.data i - S.fwd x i) / sd i) ^ 2 + S.logprior x + c := by
  refine ⟨-(∑ i ∈ range S.m, Real.log |sd i|) - (S.m : ℝ) / 2 * Real.log (2 * Real.pi), ?_⟩
  have h := posterior_logd_documented S p sd hcov hsd
  have e : (fun x => -(1 / 2) * ∑ i ∈ range S.m, ((S.data i - S.fwd x i) / sd i) ^ 2 + S.logprior x
      + (-(∑ i ∈ range S.m, Real.log |sd i|) - (S.m : ℝ) / 2 * Real.log (2 * Real.pi))) = logPostDoc S sd := by
    funext x; unfold logPostDoc; ring
  rw [e]; exact h

example := posterior_logd_upto_constant exSem .abel1D (fun _ => -2) (fun _ _ => by simp [exSem]; norm_num)
  (fun _ _ => by norm_num)

/-! ## 3. constructed problems: exact data, noise, posterior -/

/-- the standard deviation `σ_i` squares to the covariance handed to `Gaussian`, for every noise set-up -/
theorem noise_cov_eq_sd_sq (noise : Noise) (ye : Vec) (i : ℕ) :
    noise.cov ye i = noise.sd ye i * noise.sd ye i := by
  cases noise <;> rfl

example : (Noise.scaled (1 / 2)).cov (fun _ => -10) 0 = 25 := by
  norm_num [Noise.cov, covScaled]

/-- **`exactData = forward(exactSolution)` and `data − exactData = σ ⊙ ξ`** for what every constructor
    computes: the exact data are the model applied to the exact solution (on function values; the model on
    parameters is `forward ∘ par2fun`), and the data differ from them, component by component, by the
    stated scale (`|σ|`, `|σ|·|exactData_i|`, or `σ = ‖exactData‖/SNR`) times the normal draw; that scale is
    the `σ_i` of the likelihood up to sign. -/
theorem constructed_data (m n : ℕ) (fwdFun par2fun : Vec → Vec) (noise : Noise) (xe ξ : Vec) (lp : Vec → ℝ)
    (hsd : ∀ i, i < m → noise.sd (fwdFun xe) i ≠ 0) :
    let S := construct m n fwdFun par2fun noise xe ξ lp
    S.exactData = fwdFun S.exactSolution ∧ (∀ q, S.fwd q = fwdFun (par2fun q)) ∧
    (∀ i, i < m → S.data i - S.exactData i = noise.scale S.exactData i * ξ i) ∧
    (∀ i, |noise.scale S.exactData i| = |noise.sd S.exactData i|) := by
  refine ⟨rfl, fun _ => rfl, fun i hi => ?_, fun i => ?_⟩
  · have h := hsd i hi
    show noise.sample (fwdFun xe) ξ i - fwdFun xe i = noise.scale (fwdFun xe) i * ξ i
    cases noise with
    | gaussian σ =>
      have hσ : σ ≠ 0 := h
      simp only [Noise.sample, Noise.scale, noise_affine_gaussian σ hσ, docData, Bool.false_eq_true, if_false]
      ring
    | scaled σ =>
      have hy : fwdFun xe i ≠ 0 := left_ne_zero_of_mul h
      have hσ : σ ≠ 0 := right_ne_zero_of_mul h
      simp only [Noise.sample, Noise.scale, noise_scaled_partial σ hσ _ _ i hy, docData, if_true]
      ring
    | snr σ =>
      simp only [Noise.sample, Noise.scale]
      exact noise_affine_normal σ _ _ i
  · cases noise with
    | gaussian σ => simp [Noise.scale, Noise.sd]
    | scaled σ => simp [Noise.scale, Noise.sd, abs_mul, mul_comm]
    | snr σ => rfl

/-- **The composed statement for a constructed problem** (any forward operator, any of the three noise
    set-ups, any exact solution, normal draw and prior): if no stated standard deviation vanishes, the
    posterior the problem hands out evaluates to the documented log-posterior with the stated `σ_i`
    (`noise_std`, `noise_std·exactData_i`, `‖exactData‖/SNR`). -/
theorem constructed_posterior (p : Problem) (m n : ℕ) (fwdFun par2fun : Vec → Vec) (noise : Noise)
    (xe ξ : Vec) (lp : Vec → ℝ) (hsd : ∀ i, i < m → noise.sd (fwdFun xe) i ≠ 0) :
    PosteriorIs (construct m n fwdFun par2fun noise xe ξ lp) p
      (logPostDoc (construct m n fwdFun par2fun noise xe ξ lp) (noise.sd (fwdFun xe))) :=
  posterior_logd_documented _ p _ (fun i _ => noise_cov_eq_sd_sq noise _ i) hsd

/-- the hypothesis in the constructors' own terms: `noise_std ≠ 0`, and for scaled noise no exact datum is
    zero (forced: known findings `…:noise:scaledgaussian:zero-exact-data`) -/
lemma noiseOf_sd_ne_zero (scaled : Bool) (σ : ℝ) (ye : Vec) (m : ℕ) (hσ : σ ≠ 0)
    (hy : scaled = true → ∀ i, i < m → ye i ≠ 0) : ∀ i, i < m → (noiseOf scaled σ).sd ye i ≠ 0 := by
  intro i hi
  cases scaled with
  | false => exact hσ
  | true => exact mul_ne_zero (hy rfl i hi) hσ

example := constructed_data 3 3 (fun x i => 2 * x i + 1) id (.scaled (1 / 2)) (fun _ => 1) (fun i => (i : ℝ)) (fun _ => 0)
  (fun _ _ => by simp [Noise.sd]; norm_num)
example := constructed_posterior .poisson1D 3 3 (fun x i => 2 * x i) (fun x i => Real.exp (x i)) (.snr 3)
  (fun _ => 1) (fun i => (i : ℝ)) (fun _ => 0) (fun _ _ => by simp [Noise.sd])

/-! ## 4. the seven constructors -/

/-- `Deconvolution1D(dim=n, PSF=P (size s), BC=bc, noise_type, noise_std=σ, phantom=xe, prior)`: the model is
    the stored matrix `deconv1dMatrix` (code-faithful: rows are `conv(e_i)`). -/
noncomputable def deconv1dSem (bc : Ext) (s n : ℕ) (P : Vec) (scaled : Bool) (σ : ℝ) (xe ξ : Vec) (lp : Vec → ℝ) : Sem :=
  construct n n (deconv1dMatrix bc s P n).apply id (noiseOf scaled σ) xe ξ lp

/-- **Deconvolution1D.**  `posterior.logd(x)` is the documented log-posterior for the operator the code
    stores, `(A x)_i = Σ_j C[j,i] x_j` with `C` the documented convolution matrix (`C x = docConv1`) — i.e.
    **the transpose of the documented operator** (known finding `Deconvolution1D:operator:transposed`; it
    is the documented one exactly when `C` is symmetric, see `deconv1d_posterior_documented_partial`) — with
    `σ_i = noise_std` resp. `noise_std·exactData_i`; `exactData = A·exactSolution`; `data − exactData = σ ⊙ ξ`. -/
theorem deconv1d_posterior (bc : Ext) (s n : ℕ) (hn : 0 < n) (P : Vec) (scaled : Bool) (σ : ℝ) (xe ξ : Vec)
    (lp : Vec → ℝ) (hσ : σ ≠ 0)
    (hy : scaled = true → ∀ i, i < n → (deconv1dMatrix bc s P n).apply xe i ≠ 0) :
    PosteriorIs (deconv1dSem bc s n P scaled σ xe ξ lp) .deconv1D
      (logPostDoc (deconv1dSem bc s n P scaled σ xe ξ lp)
        ((noiseOf scaled σ).sd (deconv1dSem bc s n P scaled σ xe ξ lp).exactData)) ∧
    (∀ x i, i < n → (deconv1dSem bc s n P scaled σ xe ξ lp).fwd x i = ∑ j ∈ range n, (conv1 bc s P n).e j i * x j) ∧
    (∀ x i, ∑ j ∈ range n, (conv1 bc s P n).e i j * x j = docConv1 bc s P n x i) ∧
    (deconv1dSem bc s n P scaled σ xe ξ lp).exactData
      = (deconv1dSem bc s n P scaled σ xe ξ lp).fwd (deconv1dSem bc s n P scaled σ xe ξ lp).exactSolution ∧
    (∀ i, i < n → (deconv1dSem bc s n P scaled σ xe ξ lp).data i - (deconv1dSem bc s n P scaled σ xe ξ lp).exactData i
      = (noiseOf scaled σ).scale (deconv1dSem bc s n P scaled σ xe ξ lp).exactData i * ξ i) := by
  have hsd := noiseOf_sd_ne_zero scaled σ _ n hσ hy
  obtain ⟨h1, h2, h3, _⟩ := constructed_data n n (deconv1dMatrix bc s P n).apply id (noiseOf scaled σ) xe ξ lp hsd
  refine ⟨constructed_posterior .deconv1D n n _ id _ xe ξ lp hsd, fun x i hi => ?_, fun x i => ?_, h1, h3⟩
  · exact deconv1d_assembled_transposed bc s n P x i hi
  · rw [← deconv1d_documented_matrix bc s n hn P x i, apply_eq]; rfl

example := deconv1d_posterior .constant 3 6 (by norm_num) (fun a => (a : ℝ) + 1) false 2 (fun k => (k : ℝ))
  (fun _ => 1) (fun _ => 0) (by norm_num) (fun h => by cases h)
/-- scaled noise: the hypothesis "no exact datum is zero" is satisfiable -/
example := deconv1d_posterior .wrap 1 2 (by norm_num) (fun _ => 2) true (1 / 10) (fun k => (k : ℝ) + 1)
  (fun _ => 1) (fun _ => 0) (by norm_num) (fun _ i hi => by
    interval_cases i <;> norm_num [deconv1dMatrix, conv1, LMat.apply, sumTo, hit, extPos, unit])

/-- **Deconvolution1D, symmetric operator.**  Hypothesis forced by the transposition defect: periodic or
    zero boundary and an odd, reversal-symmetric PSF.  Then the log-posterior is the documented one for the
    *documented* operator: `(A x)_i = docConv1` (convolution of the extended signal with the PSF). -/
theorem deconv1d_posterior_documented_partial (bc : Ext) (hbc : bc = .wrap ∨ bc = .constant) (k n : ℕ) (hn : 0 < n)
    (P : Vec) (hP : ∀ a, a < 2 * k + 1 → P (2 * k + 1 - 1 - a) = P a) (scaled : Bool) (σ : ℝ) (xe ξ : Vec)
    (lp : Vec → ℝ) (hσ : σ ≠ 0)
    (hy : scaled = true → ∀ i, i < n → docConv1 bc (2 * k + 1) P n xe i ≠ 0) :
    PosteriorIs (deconv1dSem bc (2 * k + 1) n P scaled σ xe ξ lp) .deconv1D
      (logPostDoc (deconv1dSem bc (2 * k + 1) n P scaled σ xe ξ lp)
        ((noiseOf scaled σ).sd (deconv1dSem bc (2 * k + 1) n P scaled σ xe ξ lp).exactData)) ∧
    (∀ x i, i < n → (deconv1dSem bc (2 * k + 1) n P scaled σ xe ξ lp).fwd x i = docConv1 bc (2 * k + 1) P n x i) := by
  have hf : ∀ x i, i < n → (deconv1dMatrix bc (2 * k + 1) P n).apply x i = docConv1 bc (2 * k + 1) P n x i :=
    fun x i hi => deconv1d_assembled_eq_documented_partial bc hbc k n hn P x hP i hi
  refine ⟨(deconv1d_posterior bc (2 * k + 1) n hn P scaled σ xe ξ lp hσ ?_).1, fun x i hi => hf x i hi⟩
  intro hs i hi
  rw [hf xe i hi]; exact hy hs i hi

example := deconv1d_posterior_documented_partial .wrap (Or.inl rfl) 1 6 (by norm_num)
  (fun a => if a = 1 then (2 : ℝ) else 1)
  (by intro a ha; interval_cases a <;> simp) false 2 (fun k => (k : ℝ)) (fun _ => 1) (fun _ => 0) (by norm_num)
  (fun h => by cases h)

/-- `Deconvolution1D(use_legacy=True, dim=n, PSF=P (length n), …)`: the model is `_getCirculantMatrix`'s
    Toeplitz matrix `legacyMatrix`. -/
noncomputable def legacySem (n : ℕ) (P : Vec) (scaled : Bool) (σ : ℝ) (xe ξ : Vec) (lp : Vec → ℝ) : Sem :=
  construct n n (legacyMatrix n P).apply id (noiseOf scaled σ) xe ξ lp

/-- **Deconvolution1D, legacy form.**  The same statement with `(A x)_i = Σ_j D[j,i] x_j`, `D` the documented
    periodic convolution with the PSF centred at entry `n/2` — again the transpose of the documented operator
    (known finding `Deconvolution1D:legacy:operator:transposed:asym`; equal for PSFs symmetric about the centre,
    `legacy_eq_documented_partial`). -/
theorem deconv1d_legacy_posterior (n : ℕ) (P : Vec) (scaled : Bool) (σ : ℝ) (xe ξ : Vec) (lp : Vec → ℝ)
    (hσ : σ ≠ 0) (hy : scaled = true → ∀ i, i < n → (legacyMatrix n P).apply xe i ≠ 0) :
    PosteriorIs (legacySem n P scaled σ xe ξ lp) .deconv1D
      (logPostDoc (legacySem n P scaled σ xe ξ lp) ((noiseOf scaled σ).sd (legacySem n P scaled σ xe ξ lp).exactData)) ∧
    (∀ x i, i < n → (legacySem n P scaled σ xe ξ lp).fwd x i = ∑ j ∈ range n, (docCirculant n P).e j i * x j) ∧
    (legacySem n P scaled σ xe ξ lp).exactData
      = (legacySem n P scaled σ xe ξ lp).fwd (legacySem n P scaled σ xe ξ lp).exactSolution ∧
    (∀ i, i < n → (legacySem n P scaled σ xe ξ lp).data i - (legacySem n P scaled σ xe ξ lp).exactData i
      = (noiseOf scaled σ).scale (legacySem n P scaled σ xe ξ lp).exactData i * ξ i) := by
  have hsd := noiseOf_sd_ne_zero scaled σ _ n hσ hy
  obtain ⟨h1, h2, h3, _⟩ := constructed_data n n (legacyMatrix n P).apply id (noiseOf scaled σ) xe ξ lp hsd
  refine ⟨constructed_posterior .deconv1D n n _ id _ xe ξ lp hsd, fun x i hi => ?_, h1, h3⟩
  show (legacyMatrix n P).apply x i = _
  rw [apply_eq]
  exact Finset.sum_congr rfl fun j hj => by rw [legacy_transposed n P i j hi (mem_range.mp hj)]

example := deconv1d_legacy_posterior 8 (fun a => if a < 3 then (a : ℝ) + 1 else 0) false (1 / 2) (fun k => (k : ℝ))
  (fun _ => 1) (fun _ => 0) (by norm_num) (fun h => by cases h)

/-- `Deconvolution2D(dim=n, PSF=P (s×s), BC=bc, …)`: matrix-free `_proj_forward_2D` on C-order flattened images -/
noncomputable def deconv2dSem (bc : Ext) (s n : ℕ) (P : ℕ → ℕ → ℝ) (scaled : Bool) (σ : ℝ) (xe ξ : Vec) (lp : Vec → ℝ) : Sem :=
  construct (n * n) (n * n) (conv2 bc s P n).apply id (noiseOf scaled σ) xe ξ lp

/-- **Deconvolution2D.**  `posterior.logd(x)` is the documented log-posterior over the `n²` pixels, with the
    forward operator equal to the *documented* 2-D convolution of the boundary-extended image (no transposition
    in 2-D): `(A vec X)[u·n+v] = docConv2 … X u v`. -/
theorem deconv2d_posterior (bc : Ext) (s n : ℕ) (hn : 0 < n) (P : ℕ → ℕ → ℝ) (scaled : Bool) (σ : ℝ) (xe ξ : Vec)
    (lp : Vec → ℝ) (hσ : σ ≠ 0) (hy : scaled = true → ∀ i, i < n * n → (conv2 bc s P n).apply xe i ≠ 0) :
    PosteriorIs (deconv2dSem bc s n P scaled σ xe ξ lp) .deconv2D
      (logPostDoc (deconv2dSem bc s n P scaled σ xe ξ lp)
        ((noiseOf scaled σ).sd (deconv2dSem bc s n P scaled σ xe ξ lp).exactData)) ∧
    (∀ (X : ℕ → ℕ → ℝ) u v, v < n →
      (deconv2dSem bc s n P scaled σ xe ξ lp).fwd (flat n X) (u * n + v) = docConv2 bc s P n X u v) ∧
    (deconv2dSem bc s n P scaled σ xe ξ lp).exactData
      = (deconv2dSem bc s n P scaled σ xe ξ lp).fwd (deconv2dSem bc s n P scaled σ xe ξ lp).exactSolution ∧
    (∀ i, i < n * n → (deconv2dSem bc s n P scaled σ xe ξ lp).data i - (deconv2dSem bc s n P scaled σ xe ξ lp).exactData i
      = (noiseOf scaled σ).scale (deconv2dSem bc s n P scaled σ xe ξ lp).exactData i * ξ i) := by
  have hsd := noiseOf_sd_ne_zero scaled σ _ (n * n) hσ hy
  obtain ⟨h1, h2, h3, _⟩ := constructed_data (n * n) (n * n) (conv2 bc s P n).apply id (noiseOf scaled σ) xe ξ lp hsd
  exact ⟨constructed_posterior .deconv2D _ _ _ id _ xe ξ lp hsd,
    fun X u v hv => deconv2d_documented_matrix bc s n hn P X u v hv, h1, h3⟩

example := deconv2d_posterior .wrap 2 3 (by norm_num) (fun a b => (2 * a + b : ℝ) + 1) false 3
  (fun k => (k : ℝ)) (fun _ => 1) (fun _ => 0) (by norm_num) (fun h => by cases h)

/-- `Poisson1D(dim=N+1, endpoint, field_type (par2fun `g`), source (`rhs`), SNR, observation map `obs`)`:
    the forward map solves the assembled system `Dx.T@diag(κ)@Dx u = rhs` (`sol`, a solver — leaf) and observes it. -/
noncomputable def poissonSem (mo N : ℕ) (sol obs g : Vec → Vec) (σ : ℝ) (xe ξ : Vec) (lp : Vec → ℝ) : Sem :=
  construct mo (N + 1) (fun κ => obs (sol κ)) g (.snr σ) xe ξ lp

/-- **Poisson1D.**  For any solver `sol` of the assembled system, `posterior.logd(θ)` is the documented
    log-posterior with `σ_i = σ = ‖exactData‖/SNR` and `A(θ) = obs(u)`, where `u` solves the *documented*
    conservative three-point system for the conductivity `κ = par2fun(θ)`; `exactData = obs(u(exactSolution))`
    (function values); `data − exactData = σ ξ`. -/
theorem poisson1d_posterior (mo N : ℕ) (dx : ℝ) (rhs : Vec) (sol obs g : Vec → Vec) (σ : ℝ) (xe ξ : Vec)
    (lp : Vec → ℝ) (hσ : σ ≠ 0)
    (hsol : ∀ κ i, i < N → (poissonAsm N dx κ).apply (sol κ) i = rhs i) :
    PosteriorIs (poissonSem mo N sol obs g σ xe ξ lp) .poisson1D
      (logPostDoc (poissonSem mo N sol obs g σ xe ξ lp) fun _ => σ) ∧
    (∀ θ, (poissonSem mo N sol obs g σ xe ξ lp).fwd θ = obs (sol (g θ))) ∧
    (∀ κ i, i < N → (poissonDoc N dx κ).apply (sol κ) i = rhs i) ∧
    (poissonSem mo N sol obs g σ xe ξ lp).exactData = obs (sol (poissonSem mo N sol obs g σ xe ξ lp).exactSolution) ∧
    (∀ i, i < mo → (poissonSem mo N sol obs g σ xe ξ lp).data i - (poissonSem mo N sol obs g σ xe ξ lp).exactData i
      = σ * ξ i) := by
  have hsd : ∀ i, i < mo → (Noise.snr σ).sd (obs (sol xe)) i ≠ 0 := fun _ _ => hσ
  obtain ⟨h1, h2, h3, _⟩ := constructed_data mo (N + 1) (fun κ => obs (sol κ)) g (.snr σ) xe ξ lp hsd
  refine ⟨constructed_posterior .poisson1D mo (N + 1) _ g _ xe ξ lp hsd, h2, fun κ i hi => ?_, h1, h3⟩
  rw [← hsol κ i hi, apply_eq, apply_eq]
  exact Finset.sum_congr rfl fun j hj => by
    rw [poisson_assembled_eq_documented N dx κ i j hi (mem_range.mp hj)]

example := poisson1d_posterior 2 0 1 (fun _ => 0) (fun κ => κ) (fun u => u) (fun θ i => Real.exp (θ i)) 2
  (fun _ => 1) (fun _ => 0) (fun _ => 0) (by norm_num) (fun _ i hi => by omega)

/-- `Heat1D(dim=N, endpoint, max_time, field (par2fun `g`), observation map `obs`, SNR)`: `k` forward-Euler
    steps (`heatSolve`, `k = heatMaxIter`, `dt = heatDt`) from the initial condition, then observed. -/
noncomputable def heatSem (mo N k : ℕ) (dx dt : ℝ) (obs g : Vec → Vec) (σ : ℝ) (xe ξ : Vec) (lp : Vec → ℝ) : Sem :=
  construct mo N (fun u0 => obs (heatSolve N dx dt k u0)) g (.snr σ) xe ξ lp

/-- **Heat1D.**  `posterior.logd(θ)` is the documented log-posterior with `σ_i = σ = ‖exactData‖/SNR` and
    `A(θ) = obs(u_k)`, `u_0 = par2fun(θ)`, every level the documented explicit Euler step of the previous one
    (`heatDocStep`, zero Dirichlet values); `exactData = obs(u_k(exactSolution))`; `data − exactData = σ ξ`. -/
theorem heat1d_posterior (mo N k : ℕ) (dx dt : ℝ) (obs g : Vec → Vec) (σ : ℝ) (xe ξ : Vec) (lp : Vec → ℝ)
    (hσ : σ ≠ 0) :
    PosteriorIs (heatSem mo N k dx dt obs g σ xe ξ lp) .heat1D
      (logPostDoc (heatSem mo N k dx dt obs g σ xe ξ lp) fun _ => σ) ∧
    (∀ θ, (heatSem mo N k dx dt obs g σ xe ξ lp).fwd θ = obs (heatSolve N dx dt k (g θ))) ∧
    (∀ u0 l i, i < N → heatSolve N dx dt 0 u0 i = u0 i ∧
      heatSolve N dx dt (l + 1) u0 i = heatDocStep N dx dt (heatSolve N dx dt l u0) i) ∧
    (heatSem mo N k dx dt obs g σ xe ξ lp).exactData
      = obs (heatSolve N dx dt k (heatSem mo N k dx dt obs g σ xe ξ lp).exactSolution) ∧
    (∀ i, i < mo → (heatSem mo N k dx dt obs g σ xe ξ lp).data i - (heatSem mo N k dx dt obs g σ xe ξ lp).exactData i
      = σ * ξ i) := by
  have hsd : ∀ i, i < mo → (Noise.snr σ).sd (obs (heatSolve N dx dt k xe)) i ≠ 0 := fun _ _ => hσ
  obtain ⟨h1, h2, h3, _⟩ :=
    constructed_data mo N (fun u0 => obs (heatSolve N dx dt k u0)) g (.snr σ) xe ξ lp hsd
  exact ⟨constructed_posterior .heat1D mo N _ g _ xe ξ lp hsd, h2,
    fun u0 l i hi => heat_solve_recurrence N dx dt u0 l i hi, h1, h3⟩

example := heat1d_posterior 3 3 2 (1 / 4) (1 / 40) id id (1 / 10) (fun i => if i = 0 then 1 else 0)
  (fun _ => 1) (fun _ => 0) (by norm_num)

/-- the Abel matrix: entries are the square roots of the exact squares `abelSq` the model carries -/
noncomputable def abelApply (n : ℕ) (ep : ℚ) (x : Vec) : Vec :=
  fun i => ∑ j ∈ range n, Real.sqrt (((abelSq n ep).e i j : ℚ) : ℝ) * x j

/-- `Abel1D(dim=n, endpoint=ep, SNR)` -/
noncomputable def abelSem (n : ℕ) (ep : ℚ) (σ : ℝ) (xe ξ : Vec) (lp : Vec → ℝ) : Sem :=
  construct n n (abelApply n ep) id (.snr σ) xe ξ lp

/-- **Abel1D.**  `posterior.logd(x)` is the documented log-posterior with `σ_i = σ = ‖exactData‖/SNR` and
    `(A x)_i = Σ_j a_ij x_j`, `a_ij ≥ 0`, `a_ij² = ` the documented squared quadrature weight
    `h²/(s_i − t_j)` on the mask `t_j < s_i` (and `0` off it); `exactData = A·exactSolution`; `data − exactData = σ ξ`. -/
theorem abel1d_posterior (n : ℕ) (ep : ℚ) (hep : 0 < ep) (hn : 0 < n) (σ : ℝ) (xe ξ : Vec) (lp : Vec → ℝ)
    (hσ : σ ≠ 0) :
    PosteriorIs (abelSem n ep σ xe ξ lp) .abel1D (logPostDoc (abelSem n ep σ xe ξ lp) fun _ => σ) ∧
    (∀ x i, (abelSem n ep σ xe ξ lp).fwd x i
      = ∑ j ∈ range n, Real.sqrt (((abelSq n ep).e i j : ℚ) : ℝ) * x j) ∧
    (∀ i j, Real.sqrt (((abelSq n ep).e i j : ℚ) : ℝ) ^ 2 = (((abelDocSq n ep).e i j : ℚ) : ℝ)) ∧
    (abelSem n ep σ xe ξ lp).exactData = (abelSem n ep σ xe ξ lp).fwd (abelSem n ep σ xe ξ lp).exactSolution ∧
    (∀ i, i < n → (abelSem n ep σ xe ξ lp).data i - (abelSem n ep σ xe ξ lp).exactData i = σ * ξ i) := by
  have hsd : ∀ i, i < n → (Noise.snr σ).sd (abelApply n ep xe) i ≠ 0 := fun _ _ => hσ
  obtain ⟨h1, h2, h3, _⟩ := constructed_data n n (abelApply n ep) id (.snr σ) xe ξ lp hsd
  refine ⟨constructed_posterior .abel1D n n _ id _ xe ξ lp hsd, fun x i => rfl, fun i j => ?_, h1, h3⟩
  rw [← (abel_assembled_eq_documented n ep hep hn i j).1]
  apply Real.sq_sqrt
  have hq : (0 : ℚ) ≤ (abelSq n ep).e i j := abelSq_nonneg n ep hep.le i j
  exact_mod_cast hq

example := abel1d_posterior 3 1 (by norm_num) (by norm_num) (1 / 7) (fun _ => 1) (fun _ => 1) (fun _ => 0) (by norm_num)

/-- `WangCubic(noise_std=s, prior, data=d)`: one datum, two parameters, the cubic `wangF`, data and level used
    verbatim (`wangData`, `wangStd`: only an absent option takes the default `1`); no exact values. -/
noncomputable def wangSem (d s : Option ℚ) (lp : Vec → ℝ) : Sem where
  m := 1
  n := 2
  fwd := fun x _ => RExpr.eval x wangF
  cov := covGaussian ((wangStd s : ℚ) : ℝ)
  data := fun _ => ((wangData d : ℚ) : ℝ)
  exactSolution := fun _ => 0
  exactData := fun _ => 0
  logprior := lp

/-- **WangCubic.**  For the data and noise level handed in (also `data = 0`; defaults `1` only when absent):
    `posterior.logd(x) = −½ ((data − (10 x₁ − 10 x₀³ + 5 x₀² + 6 x₀))/σ)² − log|σ| − ½ log 2π + logprior(x)`. -/
theorem wang_posterior (d s : Option ℚ) (lp : Vec → ℝ) (hs : wangStd s ≠ 0) :
    PosteriorIs (wangSem d s lp) .wangCubic fun x =>
      -(1 / 2) * ((((wangData d : ℚ) : ℝ) - (10 * x 1 - 10 * x 0 ^ 3 + 5 * x 0 ^ 2 + 6 * x 0)) / ((wangStd s : ℚ) : ℝ)) ^ 2
        - Real.log |((wangStd s : ℚ) : ℝ)| - 1 / 2 * Real.log (2 * Real.pi) + lp x := by
  have hs' : ((wangStd s : ℚ) : ℝ) ≠ 0 := by exact_mod_cast hs
  have h := posterior_logd_documented (wangSem d s lp) .wangCubic (fun _ => ((wangStd s : ℚ) : ℝ))
    (fun _ _ => rfl) (fun _ _ => hs')
  have e : logPostDoc (wangSem d s lp) (fun _ => ((wangStd s : ℚ) : ℝ)) = fun x =>
      -(1 / 2) * ((((wangData d : ℚ) : ℝ) - (10 * x 1 - 10 * x 0 ^ 3 + 5 * x 0 ^ 2 + 6 * x 0)) / ((wangStd s : ℚ) : ℝ)) ^ 2
        - Real.log |((wangStd s : ℚ) : ℝ)| - 1 / 2 * Real.log (2 * Real.pi) + lp x := by
    funext x
    simp only [logPostDoc, wangSem, Finset.sum_range_one, wang_forward_eq_documented, Nat.cast_one]
  rw [← e]; exact h

example := wang_posterior (some 0) none (fun x => -((x 0 - 1) ^ 2 + x 1 ^ 2) / 2) (by decide)
example := wang_posterior none (some (1 / 100)) (fun _ => 0) (by decide +kernel)

end CuqiVerif.C17
