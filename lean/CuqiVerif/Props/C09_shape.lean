import CuqiVerif.Model.C09_shape
import Mathlib.Data.List.Basic
import Mathlib.Tactic.NormNum

/-!
# C09 — the stored objects and their assembly by `get_samples()` (HybridGibbs)

Theorems about the executable definitions of `Model/C09_shape.lean` (`writeBack`, `assemble`,
`constructS`, `sweepS`, `storeS`, `runS`, `getSamplesS` — the ones the driver op `sh` runs): the
write-back branch of `HybridGibbs.step` (`reshape(-1)` for arrays, the object itself otherwise),
`_store_samples` and `np.array(self.samples[n]).T` of `get_samples`, for every list of blocks, every
kind of initial-point object and every sequence of sweeps.

`get_samples_raises_iff` characterises exactly when the stored sweeps cannot be retrieved;
`hybrid_gibbs_scalar_initial_point_counterexample` is the Lean witness of known finding 3
(`HybridGibbs:stored:get_samples-raises:scalar-initial-point`).
-/
namespace CuqiVerif.C09

variable {N : Type}

lemma prodShape_singleton (m : Nat) : prodShape [m] = m := by simp [prodShape]

/-- **writeBack_flat** — what is written to `current_samples` is never an array of dimension other
    than 1: an array is flattened (same number of elements), anything else is kept as it is; writing back
    twice changes nothing. -/
theorem writeBack_flat (k : Kind) :
    (∀ sh, k = .arr sh → writeBack k = .arr [prodShape sh]) ∧
    ((∀ sh, k ≠ .arr sh) → writeBack k = k) ∧ writeBack (writeBack k) = writeBack k := by
  cases k with
  | scalar => simp [writeBack]
  | plist l => simp [writeBack]
  | arr sh => simp [writeBack, prodShape_singleton]

/-- **stored_is_writeBack_of_points** — after any sequence of sweeps the list stored for block `n` is
    what was stored before followed by, for every sweep in order, the write-back of the point the sampler
    of `n` held at the end of that sweep (the initial-point object itself is never stored). -/
theorem stored_is_writeBack_of_points (sweeps : List (N → Kind)) (g : SG N) (n : N) :
    (runS sweeps g).samples n = g.samples n ++ sweeps.map (fun pts => writeBack (pts n)) := by
  induction sweeps generalizing g with
  | nil => simp [runS]
  | cons p r ih =>
    have : runS (p :: r) g = runS r (storeS (sweepS p g)) := rfl
    rw [this, ih]
    simp [storeS, sweepS]

example : (runS [fun _ => Kind.scalar, fun _ => Kind.arr [1, 3]] (constructS [0] (fun _ => Kind.scalar))).samples 0
    = [Kind.scalar, Kind.arr [3]] := by decide

/-- **assemble_isSome_iff** — `np.array(stored).T` succeeds iff all stored objects have one and the same
    shape (python scalars count as shape `()`, lists of `d` numbers as `(d,)`). -/
theorem assemble_isSome_iff (stored : List Kind) :
    (assemble stored).isSome ↔ ∀ a ∈ stored, ∀ b ∈ stored, a.rowShape = b.rowShape := by
  cases stored with
  | nil => simp [assemble]
  | cons k r =>
    simp only [assemble]
    by_cases h : r.all (fun k' => k'.rowShape == k.rowShape) = true
    · simp only [h, if_true, Option.isSome_some, true_iff]
      rw [List.all_eq_true] at h
      have hk : ∀ a ∈ k :: r, a.rowShape = k.rowShape := by
        intro a ha
        rcases List.mem_cons.1 ha with rfl | ha
        · rfl
        · simpa using h a ha
      intro a ha b hb
      rw [hk a ha, hk b hb]
    · simp only [h, Bool.false_eq_true, if_false, Option.isSome_none, false_iff]
      intro hall
      apply h
      rw [List.all_eq_true]
      intro a ha
      simpa using hall a (List.mem_cons_of_mem _ ha) k (List.mem_cons_self)

/-- **assemble_shape** — when it succeeds on a non-empty list the array has shape
    (shape of one entry reversed …, number of entries): column `j` is the `j`-th stored object. -/
theorem assemble_shape (k : Kind) (r : List Kind) (sh : List Nat) (h : assemble (k :: r) = some sh) :
    sh = ((r.length + 1) :: k.rowShape).reverse := by
  simp only [assemble] at h
  split_ifs at h
  simpa using h.symm

/-- **get_samples_raises_iff** — `get_samples()` raises for block `n` of a fresh sampler iff two sweeps
    ended with objects of different shape for that block. -/
theorem get_samples_raises_iff (names : List N) (init : N → Kind) (sweeps : List (N → Kind)) (n : N) :
    getSamplesS (runS sweeps (constructS names init)) n = none ↔
      ∃ p ∈ sweeps, ∃ q ∈ sweeps, (writeBack (p n)).rowShape ≠ (writeBack (q n)).rowShape := by
  unfold getSamplesS
  rw [stored_is_writeBack_of_points]
  simp only [constructS, List.nil_append]
  rw [← Option.not_isSome_iff_eq_none, assemble_isSome_iff]
  simp only [List.mem_map, forall_exists_index, and_imp, forall_apply_eq_imp_iff₂, not_forall]
  constructor
  · rintro ⟨p, hp, q, hq, hne⟩; exact ⟨p, hp, q, hq, hne⟩
  · rintro ⟨p, hp, q, hq, hne⟩; exact ⟨p, hp, q, hq, hne⟩

/-- **get_samples_ok_of_array_points** — if at the end of every sweep the sampler of block `n` holds an
    array with `d` elements (any shape: `(d,)`, `(1, d)`, 0-d for `d = 1` …) then `get_samples()[n]` is a
    `(d, number of sweeps)` array, whatever object the user gave as initial point. -/
theorem get_samples_ok_of_array_points (names : List N) (init : N → Kind) (sweeps : List (N → Kind)) (n : N)
    (d : Nat) (hne : sweeps ≠ []) (h : ∀ p ∈ sweeps, ∃ sh, p n = .arr sh ∧ prodShape sh = d) :
    getSamplesS (runS sweeps (constructS names init)) n = some [d, sweeps.length] := by
  unfold getSamplesS
  rw [stored_is_writeBack_of_points]
  simp only [constructS, List.nil_append]
  have hall : ∀ p ∈ sweeps, writeBack (p n) = .arr [d] := by
    intro p hp
    obtain ⟨sh, h1, h2⟩ := h p hp
    rw [h1, writeBack, h2]
  cases sweeps with
  | nil => exact absurd rfl hne
  | cons p r =>
    simp only [List.map_cons, assemble]
    have h0 := hall p (by simp)
    have hr : (r.map (fun pts => writeBack (pts n))).all
        (fun k' => k'.rowShape == (writeBack (p n)).rowShape) = true := by
      rw [List.all_eq_true]
      intro a ha
      obtain ⟨q, hq, rfl⟩ := List.mem_map.1 ha
      rw [hall q (by simp [hq]), h0]
      simp
    rw [hr, h0]
    simp [Kind.rowShape]

example : getSamplesS (runS [fun _ => Kind.arr [1, 3], fun _ => Kind.arr [3]] (constructS [0] (fun _ => Kind.scalar))) 0
    = some [3, 2] :=
  get_samples_ok_of_array_points [0] _ _ 0 3 (by simp) (by
    intro p hp
    simp only [List.mem_cons, List.not_mem_nil, or_false] at hp
    rcases hp with rfl | rfl
    · exact ⟨[1, 3], rfl, by decide⟩
    · exact ⟨[3], rfl, by decide⟩)

/-- **get_samples_raises_of_scalar_then_array** — the general form of known finding 3: if a block ends one
    sweep with a python scalar as its point (the user's scalar `initial_point`, not yet moved: zero
    transitions configured or every proposal rejected) and another sweep with an array, the stored sweeps
    of that block cannot be retrieved. -/
theorem get_samples_raises_of_scalar_then_array (names : List N) (init : N → Kind) (sweeps : List (N → Kind))
    (n : N) (p q : N → Kind) (hp : p ∈ sweeps) (hq : q ∈ sweeps) (h1 : p n = .scalar) (sh : List Nat)
    (h2 : q n = .arr sh) :
    getSamplesS (runS sweeps (constructS names init)) n = none := by
  rw [get_samples_raises_iff]
  refine ⟨p, hp, q, hq, ?_⟩
  rw [h1, h2]
  simp [writeBack, Kind.rowShape]

/-- **hybrid_gibbs_scalar_initial_point_counterexample** (witness of known finding 3) — blocks `d`
    (`initial_point = 2.0`, a python float; `num_sampling_steps = {'d': 0}` during the first sweep, `1`
    afterwards, accepted moves leave a `(1,)` array) and `x` (always a `(3,)` array): both sweeps are
    stored, yet `get_samples()` raises for `d`; with `initial_point = np.array([2.0])` it returns a
    `(1, 2)` array. -/
theorem hybrid_gibbs_scalar_initial_point_counterexample :
    getSamplesS (runS [fun n => if n = "d" then Kind.scalar else Kind.arr [3],
                       fun n => if n = "d" then Kind.arr [1] else Kind.arr [3]]
        (constructS ["d", "x"] (fun n => if n = "d" then Kind.scalar else Kind.arr [3]))) "d" = none ∧
    getSamplesS (runS [fun n => if n = "d" then Kind.arr [1] else Kind.arr [3],
                       fun n => if n = "d" then Kind.arr [1] else Kind.arr [3]]
        (constructS ["d", "x"] (fun n => if n = "d" then Kind.arr [1] else Kind.arr [3]))) "d" = some [1, 2] := by
  decide

end CuqiVerif.C09
