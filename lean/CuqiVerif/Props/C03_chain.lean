import CuqiVerif.Props.C03
import CuqiVerif.Proofs.C03_chain
import Mathlib.Analysis.SpecialFunctions.ExpDeriv
import Mathlib.Analysis.SpecialFunctions.Log.Basic

/-!
# C03 — the multivariate chain rule, derived (stretch theorems)

`Props/C03.lean` (`gauss_lik_grad`, `lik_grad_geometry_chain`) works along one coordinate line and *assumes*
that the composite `F ∘ par2fun` has the derivative `Σ_l J a l · G l i` there.  This file derives that from
Fréchet differentiability and states the result with Mathlib's `HasFDerivAt` / `HasGradientAt` on
`E n = EuclideanSpace ℝ (Fin n)`:

* forward map `F : E p → E m` with `HasFDerivAt F J (par2fun x)`, geometry map `par2fun : E n → E p` with
  `HasFDerivAt par2fun G x` (`J`, `G` arbitrary continuous linear maps);
* the log-likelihood is written with the model's own `gaussQuad` (`Model/C03.lean`, the `ℝ` instance of
  the definition the driver runs at `Rat`), the gradient with the model's own `likGrad`
  (`prec @ dev` → vector–Jacobian product → geometry gradient), `gaussGrad`, `sumGrad`, `fdGrad`.

Bridge (defined in `Proofs/C03_chain.lean`): `coords v : ℕ → ℝ` are the coordinates of a Euclidean vector
(zero beyond its length), `toE n f : E n` the first `n` entries of a model vector, `jac J a l = (J e_l)_a`
the matrix of a continuous linear map in the standard bases (what `jacobian(wrt)` returns), `toCLM m p A`
the linear map of the `m × p` block of a model matrix (`jac_toCLM`: `jac (toCLM m p A) = A` on the block),
`toMat`/`toVec` the Mathlib `Matrix` / `Fin n → K` views.

The abstract core is `hasGradientAt_neg_half_quad` (any real Hilbert spaces): for self-adjoint `A`,
`∇ (y ↦ -½⟪d - u y, A (d - u y)⟫)(x) = U† (A (d - u x))`; with `u = F ∘ par2fun`, `U = J ∘ G` (Mathlib's
`HasFDerivAt.comp`) and `(J ∘ G)† = G† ∘ J†` this is `Gᵀ Jᵀ P (d - F(par2fun x))`.
-/
open Finset Filter Topology
open scoped InnerProductSpace

namespace CuqiVerif.C03
open CuqiVerif

/-! ## 1. the coded `likGrad` is `Gᵀ (Jᵀ (P dev))` — executable definitions, any commutative ring -/

/-- **The coded likelihood gradient in matrix notation** (any commutative ring `K`; `K = ℚ` is literally the
    instance the driver runs, `K = ℝ` the one the analytic theorems below use): what
    `Gaussian/Lognormal._gradient` + `Model.gradient` compute with a geometry derivative — `prec @ dev`, then
    `direction @ jacobian`, then `geometry.gradient` — is `Gᵀ *ᵥ (Jᵀ *ᵥ (P *ᵥ dev))`. -/
theorem likGrad_eq_mulVec {K : Type} [CommRing K] (m p n : ℕ) (P J G : ℕ → ℕ → K) (dev : ℕ → K) :
    toVec n (likGrad m p n P dev J (some G))
      = (toMat p n G).transpose.mulVec ((toMat m p J).transpose.mulVec ((toMat m m P).mulVec (toVec m dev))) := by
  funext i
  simp only [toVec, toMat, likGrad, vjp, matVec, sumTo_eq_sum_fin, Matrix.mulVec, dotProduct,
    Matrix.transpose_apply, Matrix.of_apply]
  apply Finset.sum_congr rfl; intro l _
  rw [mul_comm]
  congr 1
  apply Finset.sum_congr rfl; intro a _
  rw [mul_comm]

/-- the same as one matrix: `(Gᵀ Jᵀ P) dev` -/
theorem likGrad_eq_transpose_mul {K : Type} [CommRing K] (m p n : ℕ) (P J G : ℕ → ℕ → K) (dev : ℕ → K) :
    toVec n (likGrad m p n P dev J (some G))
      = ((toMat p n G).transpose * (toMat m p J).transpose * toMat m m P).mulVec (toVec m dev) := by
  rw [likGrad_eq_mulVec, Matrix.mulVec_mulVec, Matrix.mulVec_mulVec]

/-- without a geometry derivative (identity-like domain geometry): `Jᵀ *ᵥ (P *ᵥ dev)` -/
theorem likGrad_none_eq_mulVec {K : Type} [CommRing K] (m p : ℕ) (P J : ℕ → ℕ → K) (dev : ℕ → K) :
    toVec p (likGrad m p p P dev J none)
      = (toMat m p J).transpose.mulVec ((toMat m m P).mulVec (toVec m dev)) := by
  funext i
  simp only [toVec, toMat, likGrad, vjp, matVec, sumTo_eq_sum_fin, Matrix.mulVec, dotProduct,
    Matrix.transpose_apply, Matrix.of_apply]
  apply Finset.sum_congr rfl; intro a _
  rw [mul_comm]

/-- a concrete rational instance (the numbers the driver would print): `P = [[2,1],[1,3]]`, `J = [[1,2],[0,1]]`,
    `G = [[1],[1]]`, `dev = (1,-1)`: `P dev = (1,-2)`, `Jᵀ(P dev) = (1,0)`, `Gᵀ(…) = 1` -/
example : likGrad 2 2 1 (fun a b => if a = b then (if a = 0 then 2 else 3) else (1:ℚ))
    (fun a => if a = 0 then 1 else -1) (fun a l => if a = 0 then (if l = 0 then 1 else 2) else (if l = 0 then 0 else 1))
    (some fun _ _ => 1) 0 = 1 := by
  simp [likGrad, vjp, matVec, sumTo, List.range, List.range.loop]
  norm_num

/-- **The matrix of the linear map of a model matrix is that matrix** (on the `m × p` block): a forward map
    whose Fréchet derivative is given by the Jacobian array `A` the code holds has `jac = A`. -/
theorem jac_toCLM_eq (m p : ℕ) (A : ℕ → ℕ → ℝ) (a l : ℕ) (ha : a < m) (hl : l < p) :
    jac (toCLM m p A) a l = A a l := jac_toCLM m p A a l ha hl

example : jac (toCLM 2 2 fun a l => (a + 2 * l : ℝ)) 1 1 = 3 := by
  rw [jac_toCLM_eq 2 2 _ 1 1 (by norm_num) (by norm_num)]; norm_num

/-! ## 2. Gaussian / Lognormal likelihood: the gradient, derived from `HasFDerivAt` -/

/-- **Gaussian likelihood through an identity-like geometry** (`likGrad … none`).  For every forward map
    `F : ℝⁿ → ℝᵐ` Fréchet-differentiable at `x` with derivative `J`, every symmetric data precision `P` and
    data `d`, the vector the code returns, `Jᵀ P (d - F x)` with `Jᵀ·` computed as the vector–Jacobian product
    over `jac J`, is the gradient (in Mathlib's sense, all directions at once) of
    `x ↦ -½ (d - F x)ᵀ P (d - F x)`. -/
theorem gauss_lik_hasGradientAt (m n : ℕ) (P : ℕ → ℕ → ℝ) (hP : ∀ a < m, ∀ b < m, P a b = P b a)
    (d : ℕ → ℝ) (F : E n → E m) (J : E n →L[ℝ] E m) (x : E n) (hF : HasFDerivAt F J x) :
    HasGradientAt (fun y => -(gaussQuad m P d (coords (F y))) / 2)
      (toE n (likGrad m n n P (fun a => d a - coords (F x) a) (jac J) none)) x := by
  have h := hasGradientAt_neg_half_quad (toCLM m m P) (toCLM_selfAdjoint m P hP) (toE m d) F J x hF
  simp only [gaussQuad_eq_inner]
  convert h using 1
  ext i
  rw [toE_apply, toE_sub_coords, adjoint_quad_coords]

/-- **Gaussian likelihood through a geometry with its own derivative — the multivariate chain rule,
    derived.**  `par2fun : ℝⁿ → ℝᵖ` Fréchet-differentiable at `x` with derivative `G`
    (`geometry.gradient(·, x)` applies `Gᵀ`), `F : ℝᵖ → ℝᵐ` Fréchet-differentiable at `par2fun x` with derivative
    `J`, `P` symmetric.  Then the coded
    `likGrad = geometry.gradient(gradient_func(prec @ (d - F(par2fun x)), par2fun x), x) = Gᵀ (Jᵀ (P (d - F(par2fun x))))`
    is the gradient at `x` of `x ↦ -½ (d - F(par2fun x))ᵀ P (d - F(par2fun x))`.  No chain-rule hypothesis:
    `HasFDerivAt.comp` supplies `D(F ∘ par2fun) = J ∘ G`, and `(J ∘ G)† = G† ∘ J†`. -/
theorem gauss_lik_geometry_hasGradientAt (m p n : ℕ) (P : ℕ → ℕ → ℝ)
    (hP : ∀ a < m, ∀ b < m, P a b = P b a) (d : ℕ → ℝ) (F : E p → E m) (par2fun : E n → E p)
    (J : E p →L[ℝ] E m) (G : E n →L[ℝ] E p) (x : E n)
    (hF : HasFDerivAt F J (par2fun x)) (hg : HasFDerivAt par2fun G x) :
    HasGradientAt (fun y => -(gaussQuad m P d (coords (F (par2fun y)))) / 2)
      (toE n (likGrad m p n P (fun a => d a - coords (F (par2fun x)) a) (jac J) (some (jac G)))) x := by
  have hu : HasFDerivAt (fun y => F (par2fun y)) (J ∘L G) x := hF.comp x hg
  have h := hasGradientAt_neg_half_quad (toCLM m m P) (toCLM_selfAdjoint m P hP) (toE m d) _ _ x hu
  simp only [gaussQuad_eq_inner]
  convert h using 1
  ext i
  rw [toE_apply, toE_sub_coords, adjoint_comp_quad_coords]

/-- the same, in Mathlib's matrix notation: the gradient is `Gᵀ *ᵥ (Jᵀ *ᵥ (P *ᵥ (d - F(par2fun x))))` -/
theorem gauss_lik_geometry_gradient_mulVec (m p n : ℕ) (P : ℕ → ℕ → ℝ)
    (hP : ∀ a < m, ∀ b < m, P a b = P b a) (d : ℕ → ℝ) (F : E p → E m) (par2fun : E n → E p)
    (J : E p →L[ℝ] E m) (G : E n →L[ℝ] E p) (x : E n)
    (hF : HasFDerivAt F J (par2fun x)) (hg : HasFDerivAt par2fun G x) :
    HasGradientAt (fun y => -(gaussQuad m P d (coords (F (par2fun y)))) / 2)
      (WithLp.toLp 2 ((toMat p n (jac G)).transpose.mulVec ((toMat m p (jac J)).transpose.mulVec
        ((toMat m m P).mulVec (toVec m fun a => d a - coords (F (par2fun x)) a))))) x := by
  have h := gauss_lik_geometry_hasGradientAt m p n P hP d F par2fun J G x hF hg
  rw [← likGrad_eq_mulVec]
  exact h

/-- **…with the Jacobian arrays the code holds.**  If the Fréchet derivatives are given by model matrices
    `Jm (m × p)`, `Gm (p × n)` (`jacobian(wrt)` resp. the array `geometry.gradient` multiplies with), the coded
    `likGrad` evaluated on *these arrays* is the gradient. -/
theorem gauss_lik_geometry_hasGradientAt_matrix (m p n : ℕ) (P : ℕ → ℕ → ℝ)
    (hP : ∀ a < m, ∀ b < m, P a b = P b a) (d : ℕ → ℝ) (F : E p → E m) (par2fun : E n → E p)
    (Jm Gm : ℕ → ℕ → ℝ) (x : E n)
    (hF : HasFDerivAt F (toCLM m p Jm) (par2fun x)) (hg : HasFDerivAt par2fun (toCLM p n Gm) x) :
    HasGradientAt (fun y => -(gaussQuad m P d (coords (F (par2fun y)))) / 2)
      (toE n (likGrad m p n P (fun a => d a - coords (F (par2fun x)) a) Jm (some Gm))) x := by
  have h := gauss_lik_geometry_hasGradientAt m p n P hP d F par2fun _ _ x hF hg
  convert h using 1
  apply toE_congr
  intro i hi
  exact (likGrad_congr m p n P _ _ _ _ _ (fun a ha l hl => jac_toCLM m p Jm a l ha hl)
    (fun l hl i hi => jac_toCLM p n Gm l i hl hi) i hi).symm

/-- **Lognormal likelihood** (`Lognormal._gradient`, likelihood branch: `dev = log(val) - model.forward(x)`,
    `model.gradient(prec @ dev, x)`).  The log-density of the data `val` as a function of the parameter is
    `c - ½ (log val - F(par2fun x))ᵀ P (log val - F(par2fun x)) - Σ_j log val_j`; its gradient is the coded
    `likGrad` with `dev = log val - F(par2fun x)`. -/
theorem lognormal_lik_geometry_hasGradientAt (m p n : ℕ) (P : ℕ → ℕ → ℝ)
    (hP : ∀ a < m, ∀ b < m, P a b = P b a) (val : ℕ → ℝ) (c : ℝ) (F : E p → E m) (par2fun : E n → E p)
    (J : E p →L[ℝ] E m) (G : E n →L[ℝ] E p) (x : E n)
    (hF : HasFDerivAt F J (par2fun x)) (hg : HasFDerivAt par2fun G x) :
    HasGradientAt (fun y => c - gaussQuad m P (fun j => Real.log (val j)) (coords (F (par2fun y))) / 2
        - ∑ j ∈ range m, Real.log (val j))
      (toE n (likGrad m p n P (fun a => Real.log (val a) - coords (F (par2fun x)) a) (jac J) (some (jac G)))) x := by
  have h := gauss_lik_geometry_hasGradientAt m p n P hP (fun j => Real.log (val j)) F par2fun J G x hF hg
  have h2 := hasGradientAt_add_const h (c - ∑ j ∈ range m, Real.log (val j))
  convert h2 using 1
  funext y; ring

/-! ### instances: the hypotheses are satisfiable -/

/-- linear forward map `A = [[1,2],[0,1]]`, linear geometry map `B = [[1,1],[0,2]]`, `P = [[2,1],[1,3]]` -/
example (d : ℕ → ℝ) (x : E 2) :
    HasGradientAt (fun y => -(gaussQuad 2 (fun a b => if a = b then (if a = 0 then 2 else 3) else (1:ℝ)) d
        (coords (toCLM 2 2 (fun a l => if a = 0 then (if l = 0 then 1 else 2) else (if l = 0 then 0 else 1))
          (toCLM 2 2 (fun a l => if a = 0 then 1 else (if l = 0 then 0 else 2)) y)))) / 2)
      (toE 2 (likGrad 2 2 2 (fun a b => if a = b then (if a = 0 then 2 else 3) else (1:ℝ))
        (fun a => d a - coords (toCLM 2 2 (fun a l => if a = 0 then (if l = 0 then 1 else 2) else (if l = 0 then 0 else 1))
          (toCLM 2 2 (fun a l => if a = 0 then 1 else (if l = 0 then 0 else 2)) x)) a)
        (fun a l => if a = 0 then (if l = 0 then 1 else 2) else (if l = 0 then 0 else 1))
        (some fun a l => if a = 0 then 1 else (if l = 0 then 0 else 2)))) x :=
  gauss_lik_geometry_hasGradientAt_matrix 2 2 2 _
    (by intro a ha b hb; interval_cases a <;> interval_cases b <;> simp) d _ _ _ _ x
    (ContinuousLinearMap.hasFDerivAt _) (ContinuousLinearMap.hasFDerivAt _)

/-- a non-linear geometry: `par2fun y = exp(y₀)` (a `MappedGeometry(map = exp)` in one variable), with the
    derivative the user would attach as `gradient`; forward map any linear map. -/
noncomputable def expGeom : E 1 → E 1 := fun y => Real.exp (y 0) • EuclideanSpace.single (0 : Fin 1) (1:ℝ)

noncomputable def expGeomDeriv (x : E 1) : E 1 →L[ℝ] E 1 :=
  (Real.exp (x 0) • (EuclideanSpace.proj (0 : Fin 1) : E 1 →L[ℝ] ℝ)).smulRight
    (EuclideanSpace.single (0 : Fin 1) (1:ℝ))

lemma expGeom_hasFDerivAt (x : E 1) : HasFDerivAt expGeom (expGeomDeriv x) x := by
  have h0 : HasFDerivAt (fun y : E 1 => y 0) (EuclideanSpace.proj (0 : Fin 1) : E 1 →L[ℝ] ℝ) x :=
    (EuclideanSpace.proj (0 : Fin 1) : E 1 →L[ℝ] ℝ).hasFDerivAt
  have h1 : HasFDerivAt (fun y : E 1 => Real.exp (y 0))
      (Real.exp (x 0) • (EuclideanSpace.proj (0 : Fin 1) : E 1 →L[ℝ] ℝ)) x :=
    HasDerivAt.comp_hasFDerivAt (h₂ := Real.exp) (f := fun y : E 1 => y 0) x (Real.hasDerivAt_exp (x 0)) h0
  exact h1.smul_const _

example (P : ℝ) (d : ℕ → ℝ) (A : ℕ → ℕ → ℝ) (x : E 1) :
    HasGradientAt (fun y => -(gaussQuad 1 (fun _ _ => P) d (coords (toCLM 1 1 A (expGeom y)))) / 2)
      (toE 1 (likGrad 1 1 1 (fun _ _ => P) (fun a => d a - coords (toCLM 1 1 A (expGeom x)) a)
        (jac (toCLM 1 1 A)) (some (jac (expGeomDeriv x))))) x :=
  gauss_lik_geometry_hasGradientAt 1 1 1 _ (fun _ _ _ _ => rfl) d _ _ _ _ x
    (ContinuousLinearMap.hasFDerivAt _) (expGeom_hasFDerivAt x)

/-- the attached geometry derivative of the example is the `1 × 1` array `[exp x₀]` -/
example (x : E 1) : jac (expGeomDeriv x) 0 0 = Real.exp (x 0) := by
  simp [jac, expGeomDeriv, coords]

example (val : ℕ → ℝ) (c : ℝ) (A : ℕ → ℕ → ℝ) (x : E 1) :
    HasGradientAt (fun y => c - gaussQuad 1 (fun _ _ => (2:ℝ)) (fun j => Real.log (val j))
        (coords (toCLM 1 1 A (expGeom y))) / 2 - ∑ j ∈ range 1, Real.log (val j))
      (toE 1 (likGrad 1 1 1 (fun _ _ => (2:ℝ)) (fun a => Real.log (val a) - coords (toCLM 1 1 A (expGeom x)) a)
        (jac (toCLM 1 1 A)) (some (jac (expGeomDeriv x))))) x :=
  lognormal_lik_geometry_hasGradientAt 1 1 1 _ (fun _ _ _ _ => rfl) val c _ _ _ _ x
    (ContinuousLinearMap.hasFDerivAt _) (expGeom_hasFDerivAt x)

example (d : ℕ → ℝ) (A : ℕ → ℕ → ℝ) (x : E 3) :
    HasGradientAt (fun y => -(gaussQuad 2 (fun a b => if a = b then (2:ℝ) else 1) d (coords (toCLM 2 3 A y))) / 2)
      (toE 3 (likGrad 2 3 3 (fun a b => if a = b then (2:ℝ) else 1) (fun a => d a - coords (toCLM 2 3 A x) a)
        (jac (toCLM 2 3 A)) none)) x :=
  gauss_lik_hasGradientAt 2 3 _ (by intro a _ b _; by_cases h : a = b <;> simp [h, eq_comm]) d _ _ x
    (ContinuousLinearMap.hasFDerivAt _)

/-! ## 3. Gaussian prior (through `prec` and through `sqrtprec`), posterior = likelihood + prior -/

/-- **Gaussian prior, full gradient**: `gaussGrad = -(P (x - μ))` is the gradient (all components at once) of
    `x ↦ -½ (x-μ)ᵀ P (x-μ)`, `P` symmetric.  (`Props/C03.gauss_grad_eq_deriv` is the coordinate-line version.) -/
theorem gauss_prior_hasGradientAt (n : ℕ) (P : ℕ → ℕ → ℝ) (hP : ∀ a < n, ∀ b < n, P a b = P b a)
    (μ : ℕ → ℝ) (x : E n) :
    HasGradientAt (fun y => -(gaussQuad n P (coords y) μ) / 2) (toE n (gaussGrad n P (coords x) μ)) x := by
  have h := hasGradientAt_neg_half_quad (toCLM n n P) (toCLM_selfAdjoint n P hP) (toE n μ)
    (fun y : E n => y) (ContinuousLinearMap.id ℝ (E n)) x (hasFDerivAt_id x)
  have e : (fun y : E n => -(gaussQuad n P (coords y) μ) / 2)
      = fun y => -(⟪toE n μ - y, toCLM n n P (toE n μ - y)⟫_ℝ) / 2 := by
    funext y; rw [gaussQuad_swap, gaussQuad_eq_inner]
  rw [e]
  convert h using 1
  ext i
  rw [toE_apply, ContinuousLinearMap.adjoint_id, ContinuousLinearMap.id_apply, toCLM_coord_gaussGrad]

/-- **Gaussian prior whose log-density is evaluated through `sqrtprec`** (`_logupdf`: `-½‖R (x-μ)‖²`,
    `R = sqrtprec`, any `m × n` factor): the gradient is `gaussGrad` with the precision `RᵀR = gramOf m R`,
    i.e. `-(RᵀR)(x-μ)` — what `Gaussian._gradient` returns when `prec = sqrtprecᵀ sqrtprec` is stored. -/
theorem gauss_prior_sqrtprec_hasGradientAt (m n : ℕ) (R : ℕ → ℕ → ℝ) (μ : ℕ → ℝ) (x : E n) :
    HasGradientAt (fun y => -(normSqR m n R fun j => coords y j - μ j) / 2)
      (toE n (gaussGrad n (gramOf m R) (coords x) μ)) x := by
  have h := gauss_prior_hasGradientAt n (gramOf m R) (fun a _ b _ => gramOf_symm m R a b) μ x
  convert h using 2
  rename_i y
  rw [normSq_eq_quad_gram]
  simp only [gaussQuad_eq, sub_zero]

example (x : E 2) : HasGradientAt (fun y => -(normSqR 2 2 (fun a b => if a ≤ b then (1:ℝ) else 0)
      fun j => coords y j - (fun _ => 1) j) / 2)
    (toE 2 (gaussGrad 2 (gramOf 2 fun a b => if a ≤ b then (1:ℝ) else 0) (coords x) fun _ => 1)) x :=
  gauss_prior_sqrtprec_hasGradientAt 2 2 _ _ x

example (x : E 2) : HasGradientAt (fun y => -(gaussQuad 2 (fun a b => if a = b then (2:ℝ) else 1) (coords y) fun _ => 1) / 2)
    (toE 2 (gaussGrad 2 (fun a b => if a = b then (2:ℝ) else 1) (coords x) fun _ => 1)) x :=
  gauss_prior_hasGradientAt 2 _ (by intro a _ b _; by_cases h : a = b <;> simp [h, eq_comm]) _ x

/-- **Sum rule with `HasGradientAt`** (`Posterior._gradient`, `MultipleLikelihoodPosterior.gradient`): if each
    part `f_k` has gradient `g_k` at `x`, the coded `sumGrad` (left fold from 0, as Python's `sum`) of the
    parts' gradient vectors is the gradient of the folded sum of the parts' log-densities. -/
theorem sum_rule_hasGradientAt (n : ℕ) (fs : List (E n → ℝ)) (gs : List (ℕ → ℝ)) (x : E n)
    (h : List.Forall₂ (fun f g => HasGradientAt f (toE n g) x) fs gs) :
    HasGradientAt (fun y => fs.foldl (fun acc f => acc + f y) 0) (toE n (sumGrad gs)) x := by
  have key : ∀ (f0 : E n → ℝ) (c : ℕ → ℝ), HasGradientAt f0 (toE n c) x →
      HasGradientAt (fun y => fs.foldl (fun acc f => acc + f y) (f0 y))
        (toE n fun i => gs.foldl (fun acc g => acc + g i) (c i)) x := by
    induction h with
    | nil => intro f0 c h0; simpa using h0
    | cons hfg _ ih =>
      intro f0 c h0
      simp only [List.foldl_cons]
      refine ih (fun y => f0 y + _) (fun i => c i + _) ?_
      rw [toE_add]
      exact hasGradientAt_add h0 hfg
  have h0 : HasGradientAt (fun _ : E n => (0:ℝ)) (toE n fun _ => 0) x := by
    rw [toE_zero]; exact hasGradientAt_const' 0 x
  exact key (fun _ => 0) (fun _ => 0) h0

/-- **Posterior gradient = likelihood gradient + prior gradient**, for the Gaussian likelihood through a
    geometry with derivative and *any* prior log-density `π` whose coded gradient `gπ` is its gradient
    (Gaussian by `gauss_prior_hasGradientAt`, the i.i.d. families by `Props/C03`): the coded
    `sumGrad [likGrad …, gπ]` is the gradient of `log-likelihood + log-prior`. -/
theorem posterior_hasGradientAt (m p n : ℕ) (P : ℕ → ℕ → ℝ)
    (hP : ∀ a < m, ∀ b < m, P a b = P b a) (d : ℕ → ℝ) (F : E p → E m) (par2fun : E n → E p)
    (J : E p →L[ℝ] E m) (G : E n →L[ℝ] E p) (x : E n)
    (hF : HasFDerivAt F J (par2fun x)) (hg : HasFDerivAt par2fun G x)
    (π : E n → ℝ) (gπ : ℕ → ℝ) (hπ : HasGradientAt π (toE n gπ) x) :
    HasGradientAt (fun y => -(gaussQuad m P d (coords (F (par2fun y)))) / 2 + π y)
      (toE n (sumGrad [likGrad m p n P (fun a => d a - coords (F (par2fun x)) a) (jac J) (some (jac G)), gπ])) x := by
  have hl := gauss_lik_geometry_hasGradientAt m p n P hP d F par2fun J G x hF hg
  have h := sum_rule_hasGradientAt n [_, π] [_, gπ] x
    (List.Forall₂.cons hl (List.Forall₂.cons hπ List.Forall₂.nil))
  convert h using 1
  funext y
  simp

/-- Gaussian likelihood through the `exp` geometry + Gaussian prior with a dense symmetric precision -/
example (d : ℕ → ℝ) (A : ℕ → ℕ → ℝ) (μ : ℕ → ℝ) (x : E 1) :
    HasGradientAt (fun y => -(gaussQuad 1 (fun _ _ => (3:ℝ)) d (coords (toCLM 1 1 A (expGeom y)))) / 2
        + -(gaussQuad 1 (fun _ _ => (2:ℝ)) (coords y) μ) / 2)
      (toE 1 (sumGrad [likGrad 1 1 1 (fun _ _ => (3:ℝ)) (fun a => d a - coords (toCLM 1 1 A (expGeom x)) a)
        (jac (toCLM 1 1 A)) (some (jac (expGeomDeriv x))), gaussGrad 1 (fun _ _ => (2:ℝ)) (coords x) μ])) x :=
  posterior_hasGradientAt 1 1 1 _ (fun _ _ _ _ => rfl) d _ _ _ _ x
    (ContinuousLinearMap.hasFDerivAt _) (expGeom_hasFDerivAt x) _ _
    (gauss_prior_hasGradientAt 1 _ (fun _ _ _ _ => rfl) μ x)

example (x : E 2) : HasGradientAt (fun y => [fun y : E 2 => -(gaussQuad 2 (fun a b => if a = b then (2:ℝ) else 1) (coords y) fun _ => 1) / 2,
      fun y : E 2 => -(gaussQuad 2 (fun a b => if a = b then (2:ℝ) else 1) (coords y) fun _ => 0) / 2].foldl (fun acc f => acc + f y) 0)
    (toE 2 (sumGrad [gaussGrad 2 (fun a b => if a = b then (2:ℝ) else 1) (coords x) fun _ => 1,
      gaussGrad 2 (fun a b => if a = b then (2:ℝ) else 1) (coords x) fun _ => 0])) x :=
  sum_rule_hasGradientAt 2 _ _ x
    (List.Forall₂.cons (gauss_prior_hasGradientAt 2 _ (by intro a _ b _; by_cases h : a = b <;> simp [h, eq_comm]) _ x)
      (List.Forall₂.cons (gauss_prior_hasGradientAt 2 _ (by intro a _ b _; by_cases h : a = b <;> simp [h, eq_comm]) _ x)
        List.Forall₂.nil))

/-! ## 4. the finite-difference option on the composed log-density -/

/-- **`approx_gradient` of any log-density with a gradient converges to that gradient's component.**
    `φ` is the log-density on `ℝⁿ`, `fun z => φ (toE n z)` the same function of the model vector (what
    `fdGrad` perturbs coordinate-wise). -/
theorem fd_tendsto_of_hasGradientAt (n : ℕ) (φ : E n → ℝ) (gr : ℕ → ℝ) (x : E n)
    (h : HasGradientAt φ (toE n gr) x) (i : ℕ) (hi : i < n) :
    Tendsto (fun ε => fdGrad (fun z => φ (toE n z)) (coords x) ε i) (𝓝[≠] 0) (𝓝 (gr i)) := by
  have hline := hasDerivAt_line_of_hasGradientAt φ (toE n gr) x h i hi
  rw [show toE n gr ⟨i, hi⟩ = gr i from rfl] at hline
  exact fd_tendsto (fun z => φ (toE n z)) (coords x) i (gr i) hline

/-- **Finite differences of the composed Gaussian log-likelihood** `x ↦ -½ (d - F(par2fun x))ᵀ P (d - F(par2fun x))`
    converge, component by component, to the coded closed-form gradient `likGrad` (so the FD option and the
    closed form agree in the limit, for every differentiable forward map and geometry map). -/
theorem fd_tendsto_lik_geometry (m p n : ℕ) (P : ℕ → ℕ → ℝ)
    (hP : ∀ a < m, ∀ b < m, P a b = P b a) (d : ℕ → ℝ) (F : E p → E m) (par2fun : E n → E p)
    (J : E p →L[ℝ] E m) (G : E n →L[ℝ] E p) (x : E n)
    (hF : HasFDerivAt F J (par2fun x)) (hg : HasFDerivAt par2fun G x) (i : ℕ) (hi : i < n) :
    Tendsto (fun ε => fdGrad (fun z => -(gaussQuad m P d (coords (F (par2fun (toE n z))))) / 2) (coords x) ε i)
      (𝓝[≠] 0)
      (𝓝 (likGrad m p n P (fun a => d a - coords (F (par2fun x)) a) (jac J) (some (jac G)) i)) :=
  fd_tendsto_of_hasGradientAt n (fun y => -(gaussQuad m P d (coords (F (par2fun y)))) / 2) _ x
    (gauss_lik_geometry_hasGradientAt m p n P hP d F par2fun J G x hF hg) i hi

example (d : ℕ → ℝ) (A : ℕ → ℕ → ℝ) (x : E 1) :
    Tendsto (fun ε => fdGrad (fun z => -(gaussQuad 1 (fun _ _ => (3:ℝ)) d
        (coords (toCLM 1 1 A (expGeom (toE 1 z))))) / 2) (coords x) ε 0) (𝓝[≠] 0)
      (𝓝 (likGrad 1 1 1 (fun _ _ => (3:ℝ)) (fun a => d a - coords (toCLM 1 1 A (expGeom x)) a)
        (jac (toCLM 1 1 A)) (some (jac (expGeomDeriv x))) 0)) :=
  fd_tendsto_lik_geometry 1 1 1 _ (fun _ _ _ _ => rfl) d _ _ _ _ x
    (ContinuousLinearMap.hasFDerivAt _) (expGeom_hasFDerivAt x) 0 (by norm_num)

example (x : E 2) : Tendsto (fun ε => fdGrad (fun z => -(gaussQuad 2 (fun a b => if a = b then (2:ℝ) else 1)
      (coords (toE 2 z)) fun _ => 1) / 2) (coords x) ε 1) (𝓝[≠] 0)
    (𝓝 (gaussGrad 2 (fun a b => if a = b then (2:ℝ) else 1) (coords x) (fun _ => 1) 1)) :=
  fd_tendsto_of_hasGradientAt 2 _ _ x
    (gauss_prior_hasGradientAt 2 _ (by intro a _ b _; by_cases h : a = b <;> simp [h, eq_comm]) _ x) 1 (by norm_num)

/-! ## 5. the hypothesis of `Props/C03.lik_grad_geometry_chain`, discharged -/

/-- **The multivariate chain rule in coordinates.**  From `HasFDerivAt F J (par2fun x)` and
    `HasFDerivAt par2fun G x`: along the `i`-th coordinate line through `x`, the `a`-th component of
    `F ∘ par2fun` has derivative `Σ_l J a l · G l i` (entries of the standard-basis matrices).  This is exactly
    the hypothesis `hF` that `Props/C03.lik_grad_geometry_chain` assumes. -/
theorem chain_rule_coordinates (m p n : ℕ) (F : E p → E m) (par2fun : E n → E p)
    (J : E p →L[ℝ] E m) (G : E n →L[ℝ] E p) (x : E n)
    (hF : HasFDerivAt F J (par2fun x)) (hg : HasFDerivAt par2fun G x) (i : ℕ) (hi : i < n) (a : ℕ) (ha : a < m) :
    HasDerivAt (fun t => coords (F (par2fun (toE n (Function.update (coords x) i t)))) a)
      (∑ l ∈ range p, jac J a l * jac G l i) (coords x i) := by
  have hu : HasFDerivAt (fun y => F (par2fun y)) (J ∘L G) x := hF.comp x hg
  have hproj : HasFDerivAt (fun y => (F (par2fun y)) ⟨a, ha⟩)
      ((EuclideanSpace.proj (⟨a, ha⟩ : Fin m) : E m →L[ℝ] ℝ) ∘L (J ∘L G)) x :=
    ((EuclideanSpace.proj (⟨a, ha⟩ : Fin m) : E m →L[ℝ] ℝ).hasFDerivAt).comp x hu
  have hl := hasDerivAt_line_of_hasFDerivAt _ _ x hproj i hi
  have e : (fun t => coords (F (par2fun (toE n (Function.update (coords x) i t)))) a)
      = fun t => (F (par2fun (toE n (Function.update (coords x) i t)))) ⟨a, ha⟩ := by
    funext t; rw [coords_of_lt _ a ha]
  rw [e]
  refine hl.congr_deriv ?_
  simp only [ContinuousLinearMap.coe_comp, Function.comp_apply, PiLp.proj_apply]
  rw [comp_apply_coord, Finset.sum_range]
  apply Finset.sum_congr rfl; intro l _
  simp [jac, hi, coords_of_lt _ a ha]

/-- **`lik_grad_geometry_chain` without its chain-rule hypothesis** (coordinate-line form, the statement of
    `Props/C03` with the hypothesis derived): the `i`-th component of the coded `likGrad … (some G)` is the
    partial derivative of the Gaussian log-likelihood along the `i`-th coordinate. -/
theorem lik_grad_geometry_chain_derived (m p n : ℕ) (P : ℕ → ℕ → ℝ) (hP : ∀ a b, P a b = P b a) (d : ℕ → ℝ)
    (F : E p → E m) (par2fun : E n → E p) (J : E p →L[ℝ] E m) (G : E n →L[ℝ] E p) (x : E n)
    (hF : HasFDerivAt F J (par2fun x)) (hg : HasFDerivAt par2fun G x) (i : ℕ) (hi : i < n) :
    HasDerivAt (fun t => -(gaussQuad m P d
        (fun a => coords (F (par2fun (toE n (Function.update (coords x) i t)))) a)) / 2)
      (likGrad m p n P (fun a => d a - coords (F (par2fun x)) a) (jac J) (some (jac G)) i) (coords x i) := by
  have h := lik_grad_geometry_chain m p n P hP d
    (fun a t => coords (F (par2fun (toE n (Function.update (coords x) i t)))) a) (jac J) (jac G) i (coords x i)
    (fun a ha => chain_rule_coordinates m p n F par2fun J G x hF hg i hi a ha)
  simpa using h

example (A : ℕ → ℕ → ℝ) (x : E 1) :
    HasDerivAt (fun t => coords (toCLM 1 1 A (expGeom (toE 1 (Function.update (coords x) 0 t)))) 0)
      (∑ l ∈ range 1, jac (toCLM 1 1 A) 0 l * jac (expGeomDeriv x) l 0) (coords x 0) :=
  chain_rule_coordinates 1 1 1 _ _ _ _ x (ContinuousLinearMap.hasFDerivAt _) (expGeom_hasFDerivAt x)
    0 (by norm_num) 0 (by norm_num)

example (d : ℕ → ℝ) (A : ℕ → ℕ → ℝ) (x : E 1) :
    HasDerivAt (fun t => -(gaussQuad 1 (fun _ _ => (3:ℝ)) d
        (fun a => coords (toCLM 1 1 A (expGeom (toE 1 (Function.update (coords x) 0 t)))) a)) / 2)
      (likGrad 1 1 1 (fun _ _ => (3:ℝ)) (fun a => d a - coords (toCLM 1 1 A (expGeom x)) a)
        (jac (toCLM 1 1 A)) (some (jac (expGeomDeriv x))) 0) (coords x 0) :=
  lik_grad_geometry_chain_derived 1 1 1 _ (fun _ _ => rfl) d _ _ _ _ x
    (ContinuousLinearMap.hasFDerivAt _) (expGeom_hasFDerivAt x) 0 (by norm_num)

end CuqiVerif.C03
