import CuqiVerif.Model.C06_factor
import CuqiVerif.Proofs.C06_chol
import Mathlib.Tactic.LinearCombination
import Mathlib.Tactic.IntervalCases
import Mathlib.Tactic.NormNum

/-!
# C06 — the model's Cholesky factorisation is correct (session 3, second pass)

`cholUpper rt n P` of `Model/C06_factor.lean` stands for `np.linalg.cholesky(P).T` in the full-matrix
branches of `get_sqrtprec_from_cov/_prec/_sqrtcov`.  In the first pass its result was accepted only
after the exact run-time check `UᵀU = P`; here the recursion itself (`cholRows`) is proved correct
for every size over every ordered field (the driver's `ℚ` included) and every root oracle `rt`:
the check is a proved property of the model, not only a per-run certificate.
-/
set_option linter.unusedSectionVars false
set_option linter.unusedVariables false

namespace CuqiVerif.C06

variable {F : Type} [Field F] [LinearOrder F] [IsStrictOrderedRing F]

/-- **cholUpper_correct.**  Whenever the model's Cholesky returns `U` (any size, any `P`, any root
    oracle): `UᵀU = P` on the `n × n` block, `U` is upper triangular and its diagonal is positive —
    the factor `np.linalg.cholesky(P).T` is specified to be. -/
theorem cholUpper_correct (rt : F → Option F) (n : ℕ) (P U : Mat F) (h : cholUpper rt n P = .ok U) :
    (∀ i j, i < n → j < n → gram n U i j = P i j) ∧
    (∀ i j, i < n → j < i → U i j = 0) ∧ (∀ i, i < n → 0 < U i i) := by
  refine ⟨cholUpper_spec rt n P U h, ?_⟩
  unfold cholUpper at h
  split at h
  · cases h
  · cases h
  · rename_i rows hrows
    simp only at h
    split at h
    · cases h
      have inv := cholRows_inv rt n P n 0 #[] rows (by omega) (cholInv_empty n P) hrows
      exact ⟨inv.upper, inv.pos⟩
    · cases h

lemma allLt_of_forall (n : ℕ) (p : ℕ → ℕ → Bool) (h : ∀ i j, i < n → j < n → p i j = true) : allLt n p = true := by
  unfold allLt
  rw [List.all_eq_true]
  intro i hi
  rw [List.all_eq_true]
  intro j hj
  exact h i j (List.mem_range.mp hi) (List.mem_range.mp hj)

/-- **cholUpper_certificate_redundant.**  For a symmetric `P` the recursion's own result always passes
    the final check `UᵀU = P`: whenever `cholRows` delivers rows, `cholUpper` returns them (the check
    never turns a computed factor into `irrational`). -/
theorem cholUpper_certificate_redundant (rt : F → Option F) (n : ℕ) (P : Mat F)
    (hsym : ∀ a b, a < n → b < n → P a b = P b a) (rows : Array (Array F))
    (h : cholRows rt n P n 0 #[] = some (some rows)) :
    cholUpper rt n P = .ok (ofRows rows) := by
  have inv := cholRows_inv rt n P n 0 #[] rows (by omega) (cholInv_empty n P) h
  have hg := cholInv_gram n P rows inv hsym
  unfold cholUpper
  rw [h]
  simp only
  rw [if_pos]
  exact allLt_of_forall n _ fun i j hi hj => by simpa using hg i j hi hj

/-- agreement of the rows computed so far with a given factor `V` -/
lemma cholRows_complete_aux (rt : F → Option F) (n : ℕ) (P V : Mat F)
    (hV : ∀ a b, a < n → b < n → gram n V a b = P a b)
    (hup : ∀ i j, i < n → j < i → V i j = 0) (hpos : ∀ i, i < n → 0 < V i i) :
    ∀ fuel i rows, i + fuel = n → rows.size = i →
      (∀ k j, k < i → j < n → ofRows rows k j = V k j) → cholRows rt n P fuel i rows ≠ none := by
  -- `P a b = Σ_{l ≤ a} V l a · V l b`
  have hP : ∀ a b, a < n → b < n → P a b = sumTo a (fun l => V l a * V l b) + V a a * V a b := by
    intro a b ha hb
    rw [← hV a b ha hb]
    unfold gram
    have hn : n = (a + 1) + (n - (a + 1)) := by omega
    rw [hn, sumTo_add]
    have : sumTo (n - (a + 1)) (fun l => V (a + 1 + l) a * V (a + 1 + l) b) = 0 := by
      rw [← sumTo_zero (n - (a + 1))]
      exact sumTo_congr _ _ _ fun l hl => by rw [hup (a + 1 + l) a (by omega) (by omega), zero_mul]
    rw [this, add_zero]
    rfl
  intro fuel
  induction fuel with
  | zero => intro i rows _ _ _; simp [cholRows]
  | succ fuel ih =>
    intro i rows hn hsz hag
    have hi : i < n := by omega
    have hS : ∀ j, j < n → sumTo i (fun k => ofRows rows k i * ofRows rows k j) = sumTo i (fun l => V l i * V l j) :=
      fun j hj => sumTo_congr _ _ _ fun l hl => by rw [hag l i hl hi, hag l j hl hj]
    have hd : P i i - sumTo i (fun k => ofRows rows k i * ofRows rows k i) = V i i * V i i := by
      rw [hS i hi, hP i i hi hi]; ring
    simp only [cholRows]
    rw [hd]
    rw [if_neg (not_not.mpr (mul_pos (hpos i hi) (hpos i hi)))]
    split
    · simp
    · rename_i u hu
      obtain ⟨hsq, hupos⟩ := rootChecked_pos rt _ u (mul_pos (hpos i hi) (hpos i hi)) hu
      have huV : u = V i i := by
        have : (u - V i i) * (u + V i i) = 0 := by linear_combination hsq
        rcases mul_eq_zero.mp this with h | h
        · linarith
        · have := hpos i hi; linarith
      refine ih (i + 1) _ (by omega) (by rw [Array.size_push, hsz]) ?_
      intro k j hk hj
      rcases Nat.lt_succ_iff_lt_or_eq.mp hk with hk' | rfl
      · rw [ofRows_push_lt _ _ k j (hsz ▸ hk')]; exact hag k j hk' hj
      · have := ofRows_push_eq rows (tabArr n (cholRowFn P (ofRows rows) k u)) j
        rw [hsz] at this
        show ofRows (rows.push (tabArr n (cholRowFn P (ofRows rows) k u))) k j = V k j
        rw [this, ofArr_tabArr n _ j hj]
        unfold cholRowFn
        split_ifs with h1 h2
        · exact (hup k j hi h1).symm
        · rw [h2, huV]
        · rw [hS j hj, hP k j hi hj, huV]
          have := ne_of_gt (hpos k hi)
          field_simp
          ring

/-- **cholUpper_refuses_only_without_factor.**  The model refuses with "not positive definite"
    (`LinAlgError`) **only if `P` has no Cholesky factor**: if some upper-triangular `V` with positive
    diagonal satisfies `VᵀV = P`, every pivot the recursion meets is positive (it then returns a factor,
    or `irrational` when the oracle has no exact root).  Conversely (`cholUpper_correct`) a returned
    factor is such a `V`; so `notPD` ⇔ a non-positive pivot ⇔ no factor over the field, up to `irrational`. -/
theorem cholUpper_refuses_only_without_factor (rt : F → Option F) (n : ℕ) (P V : Mat F)
    (hV : ∀ a b, a < n → b < n → gram n V a b = P a b)
    (hup : ∀ i j, i < n → j < i → V i j = 0) (hpos : ∀ i, i < n → 0 < V i i) :
    cholUpper rt n P ≠ .notPD := by
  have := cholRows_complete_aux rt n P V hV hup hpos n 0 #[] (by omega) rfl
    (fun k j hk => absurd hk (Nat.not_lt_zero _))
  unfold cholUpper
  split
  · rename_i h; exact absurd h this
  · simp
  · simp only
    split <;> simp

/-- instance: `P = [[4,2],[2,5]] = UᵀU` with `U = [[2,1],[0,2]]` over `ℚ` -/
example : ∀ a b, a < 2 → b < 2 →
    gram 2 (fun i j => if i = 0 ∧ j = 0 then (2 : ℚ) else if i = 0 ∧ j = 1 then 1 else if i = 1 ∧ j = 1 then 2 else 0) a b
      = (fun i j => if i = 0 ∧ j = 0 then (4 : ℚ) else if i = 1 ∧ j = 1 then 5 else 2) a b := by
  intro a b ha hb
  interval_cases a <;> interval_cases b <;> norm_num [gram, sumTo]

end CuqiVerif.C06
