import CuqiVerif.Model.C09_nuts
import Mathlib.Data.List.Basic
import Mathlib.Tactic.NormNum

/-!
# C09 — what a block sampler keeps and loses across `HybridGibbs` sweeps

Theorems about `originAfterPrologue` / `nutsOrigin` of `Model/C09_nuts.lean` (the definitions the driver
op `nt` runs): the per-sweep protocol `get_state / get_history / reinitialize / set_state / set_history`
(all samplers but NUTS) and `initial_point = current_point; reinitialize` (NUTS), for every choice of
`_STATE_KEYS`, `_HISTORY_KEYS` and of the attributes `initialize()` assigns.
-/
namespace CuqiVerif.C09

/-- **current_point_survives** — whatever the sampler class and its key sets, the point the sampler
    starts the block update from is the block's current value (the clause of the property; the executable
    scheduling model proves the same as `block_starts_at_current`). -/
theorem current_point_survives (isNuts : Bool) (sk hk asg dfl : List String) :
    originAfterPrologue isNuts sk hk asg dfl "current_point" = .point := by
  simp [originAfterPrologue]

/-- **others_keep_state_and_history** — for every sampler but NUTS every state key and every history key
    is carried over verbatim: the tuned `scale` survives from sweep to sweep (warm-up tuning is effective),
    `_acc` keeps growing — and the cached target evaluation of the *previous* target is carried over too
    (the cause of known finding 1). -/
theorem others_keep_state_and_history (sk hk asg dfl : List String) (a : String)
    (ha : a ∈ sk ∨ a ∈ hk) (hne : a ≠ "current_point") :
    originAfterPrologue false sk hk asg dfl a = .prev := by
  rcases ha with h | h <;> simp [originAfterPrologue, hne, h]

example : originAfterPrologue false ["current_point", "current_target_logd", "scale"] ["_samples", "_acc"]
    ["current_target_logd", "scale", "_samples", "_acc"] [] "scale" = .prev :=
  others_keep_state_and_history _ _ _ _ "scale" (Or.inl (by decide)) (by decide)

/-- **nuts_keeps_no_state** — for NUTS no state key and no history key other than the point is carried
    over: whatever `tune` adapted during a warm-up sweep (`_epsilon`, `_epsilon_bar`, `_H_bar`) and every
    diagnostic list is gone when the next sweep starts. -/
theorem nuts_keeps_no_state (sk hk asg dfl : List String) (a : String)
    (ha : a ∈ sk ∨ a ∈ hk) (hne : a ≠ "current_point") :
    originAfterPrologue true sk hk asg dfl a ≠ .prev := by
  rcases ha with h | h <;> by_cases h1 : a = "initial_point" <;> by_cases h2 : a ∈ asg <;>
    by_cases h3 : a ∈ dfl <;> simp [originAfterPrologue, hne, h, h1, h2, h3]

example : nutsOrigin "_epsilon_bar" ≠ .prev :=
  nuts_keeps_no_state nutsStateKeys nutsHistoryKeys nutsAssigned nutsWithDefault "_epsilon_bar" (Or.inl (by decide)) (by decide)

/-- **nuts_table** — the table for `cuqi.experimental.mcmc.NUTS`: the point is carried over by
    overwriting `initial_point`; step size, its running average, the dual-averaging statistic, `_mu`, the
    cached log-density and gradient and all history lists are recomputed / reset on the new target; the
    constructor parameters `step_size` and `opt_acc_rate` are untouched; **`max_depth`** — a state key that
    `_initialize` does not assign — falls back to the class default: the user's `max_depth` is lost after
    the first sweep. -/
theorem nuts_table :
    nutsOrigin "current_point" = .point ∧ nutsOrigin "initial_point" = .point ∧
    nutsOrigin "_epsilon" = .fresh ∧ nutsOrigin "_epsilon_bar" = .fresh ∧ nutsOrigin "_H_bar" = .fresh ∧
    nutsOrigin "_mu" = .fresh ∧ nutsOrigin "current_target_logd" = .fresh ∧
    nutsOrigin "current_target_grad" = .fresh ∧ nutsOrigin "_acc" = .fresh ∧ nutsOrigin "_samples" = .fresh ∧
    nutsOrigin "num_tree_node_list" = .fresh ∧ nutsOrigin "epsilon_list" = .fresh ∧
    nutsOrigin "epsilon_bar_list" = .fresh ∧
    nutsOrigin "max_depth" = .dflt ∧ nutsOrigin "step_size" = .prev ∧ nutsOrigin "opt_acc_rate" = .prev := by
  decide

/-- **nuts_protocol_completes** — no state or history key of NUTS is left `None`:
    `_validate_initialization` does not raise. -/
theorem nuts_protocol_completes : ∀ a ∈ nutsStateKeys ++ nutsHistoryKeys, nutsOrigin a ≠ .unset := by
  decide

end CuqiVerif.C09
