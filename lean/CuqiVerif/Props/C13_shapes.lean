import CuqiVerif.Props.C13
import CuqiVerif.Props.C13_dst
import CuqiVerif.Proofs.C13_shapes

/-!
# C13 (shapes) — reported shapes = produced shapes, column-wise batches, idempotence, and
# conversion chains of arbitrary length, for every geometry of the model

All statements are about the executable definitions of `Model/C13.lean` (`Geom.par2fun`,
`Geom.fun2par`, `Geom.fun2vec`, `Geom.vec2fun`, `Geom.parShape/funShape/funvecShape`,
`Samples.funvals/vector/parameters`, `CArr.funvals/parameters`, `klPre/klPost`, …) — the ones the
driver runs — except the `KLExpansion` statements over `ℝ`, which are about `klPar2funR/klFun2parR`
of `Props/C13_dst.lean` (the generic versions of `klPre/klPost` composed with the explicit sine sums).

`Geom` is an inductive type (`cont1D` = `Continuous1D`/`_DefaultGeometry1D`, `cont2D`, `image`
= `Image2D`/`_DefaultGeometry2D`, `discrete`, `step`, `mapped`), so a theorem "for every `g : Geom`"
covers every geometry of the model, wrapped in any number of `MappedGeometry` layers.

Hypotheses used (defined in `Proofs/C13_shapes.lean`):
* `g.NoUnitFun`  — `Continuous2D`: both grid axes `≠ 1`; `StepExpansion`: `≠ 1` node; else nothing;
* `g.NoUnitPar`  — `Continuous2D`: `par_dim ≠ 1`; `StepExpansion`: `n_steps ≠ 1` (also when wrapped);
* `g.Squeezes`   — the maps end in a `squeeze` (`Continuous2D`, non visual `Image2D`, `StepExpansion`);
* `g.BatchFun2parOK` — no non-visual `Image2D` inside;
* `g.Valid`      — sizes the code accepts (`par_dim ≠ 0`).
Each of them is necessary: the `…_counterexample` theorems exhibit the failing unit-axis cases.
-/

namespace CuqiVerif.C13

/-! ## (1) `shapes_match_maps` for every geometry -/

/-- **The shape of what `par2fun` returns depends on the shape of its argument only** (never on the
    values) — for every geometry.  This is what makes "the shape `par2fun` produces" well defined and
    is what `Geometry.fun_shape`'s generic inference (`par2fun(ones(par_dim)).shape`) relies on. -/
theorem par2fun_shape_depends_on_shape_only (g : Geom) (x x' : Arr) (h : x.shape = x'.shape) :
    (g.par2fun x).map (·.shape) = (g.par2fun x').map (·.shape) :=
  par2fun_shape_congr g x x' h

example : ((Geom.step [0, 1, 2, 3] none 2 .mean).par2fun (Arr.ofList [2] [5, 7])).map (·.shape)
    = ((Geom.step [0, 1, 2, 3] none 2 .mean).par2fun (ones 2)).map (·.shape) :=
  par2fun_shape_depends_on_shape_only _ _ _ rfl

/-- the same for `fun2par`, including which error is raised -/
theorem fun2par_shape_depends_on_shape_only (g : Geom) (x x' : Arr) (h : x.shape = x'.shape) :
    (g.fun2par x).map (·.shape) = (g.fun2par x').map (·.shape) :=
  fun2par_shape_congr g x x' h

example : ((Geom.cont2D 2 3).fun2par (Arr.ofList [2, 3] [1, 2, 3, 4, 5, 6])).map (·.shape)
    = ((Geom.cont2D 2 3).fun2par ⟨[2, 3], fun _ => 0⟩).map (·.shape) :=
  fun2par_shape_depends_on_shape_only _ _ _ rfl

/-- **`par_shape`, `par_dim`**: every geometry reports a 1-D parameter shape `(par_dim,)`. -/
theorem par_shape_is_par_dim (g : Geom) : g.parShape = [prod g.parShape] := parShape_eq g

example : (Geom.mapped (Geom.step [0, 1, 2] none 2 .max) 2 1 true).parShape = [2] := rfl

/-- **`shapes_match_maps`, `par2fun`, single parameter vector, every geometry.**  For a parameter
    vector of the reported `par_shape`, whatever `par2fun` returns has exactly the reported
    `fun_shape` and `fun_dim = prod fun_shape` entries — provided no `squeeze` meets a unit axis
    (`g.NoUnitFun`: only `Continuous2D` with a grid axis of length 1 and a one-node `StepExpansion`
    are excluded; a `MappedGeometry` needs nothing, whatever it wraps). -/
theorem shapes_match_maps_par2fun (g : Geom) (hg : g.NoUnitFun) (x y : Arr)
    (hx : x.shape = g.parShape) (h : g.par2fun x = some y) :
    g.funShape = some y.shape ∧ y.size = prod y.shape := by
  refine ⟨p2fShape_single_noUnit g hg y.shape ?_, rfl⟩
  rw [← hx]; exact par2fun_shape_of_some h

/-- … and `par2fun` does return something whenever the sizes are ones the code accepts. -/
theorem shapes_match_maps_par2fun_total (g : Geom) (hv : g.Valid) (hg : g.NoUnitFun) (x : Arr)
    (hx : x.shape = g.parShape) :
    ∃ y, g.par2fun x = some y ∧ g.funShape = some y.shape := by
  obtain ⟨sh, hsh⟩ := p2fShape_single g hv
  rw [← hx] at hsh
  obtain ⟨y, hy, _⟩ := par2fun_some_of_shape hsh
  exact ⟨y, hy, (shapes_match_maps_par2fun g hg x y hx hy).1⟩

example : ∃ y, (Geom.step [0, 1, 2, 3, 4] none 2 .mean).par2fun (ones 2) = some y ∧
    (Geom.step [0, 1, 2, 3, 4] none 2 .mean).funShape = some y.shape :=
  shapes_match_maps_par2fun_total _ (by simp [Geom.Valid]) (by simp [Geom.NoUnitFun]) _ rfl

example : ∃ y, (Geom.cont2D 3 4).par2fun (ones 12) = some y ∧ (Geom.cont2D 3 4).funShape = some y.shape :=
  shapes_match_maps_par2fun_total _ (by simp [Geom.Valid]) (by simp [Geom.NoUnitFun]) _ rfl

/-- **`MappedGeometry`'s inferred `fun_shape` always matches** what its `par2fun` produces, for every
    wrapped geometry and without any unit-axis hypothesis (e.g. around `Continuous2D((1,5))` it reports
    `(5,)`, which is what comes out). -/
theorem mapped_inferred_fun_shape (g : Geom) (sc sh : ℚ) (inv : Bool) (x y : Arr)
    (hx : x.shape = g.parShape) (h : (Geom.mapped g sc sh inv).par2fun x = some y) :
    (Geom.mapped g sc sh inv).funShape = some y.shape :=
  (shapes_match_maps_par2fun (Geom.mapped g sc sh inv) trivial x y hx h).1

example : (Geom.mapped (Geom.cont2D 1 5) 2 1 true).funShape = some [5] := by
  obtain ⟨y, hy, hs⟩ := par2fun_some_of_shape (g := Geom.mapped (Geom.cont2D 1 5) 2 1 true) (x := ones 5)
    (sh := [5]) (by simp [p2fShape, ones, prod, squeezeShape, List.filter])
  rw [← hs]
  exact mapped_inferred_fun_shape (Geom.cont2D 1 5) 2 1 true (ones 5) y rfl hy

/-- **`shapes_match_maps`, `par2fun`, batches, every geometry.**  For a batch of shape
    `(par_dim, ns)` with `ns ≠ 1` columns, `par2fun` returns the single-vector shape with the sample
    axis appended — with no unit-axis hypothesis at all (`y0` is what a single vector produces). -/
theorem shapes_match_maps_par2fun_batch (g : Geom) (ns : ℕ) (hns : ns ≠ 1) (x x0 y y0 : Arr)
    (hx : x.shape = g.parShape ++ [ns]) (hx0 : x0.shape = g.parShape)
    (h : g.par2fun x = some y) (h0 : g.par2fun x0 = some y0) :
    y.shape = y0.shape ++ [ns] := by
  have e := par2fun_shape_of_some h
  have e0 := par2fun_shape_of_some h0
  rw [hx] at e; rw [hx0] at e0
  exact p2fShape_batch g ns hns _ _ e0 e

example : ∀ y y0, (Geom.cont2D 1 5).par2fun ⟨[5, 3], fun t => (t : ℚ)⟩ = some y →
    (Geom.cont2D 1 5).par2fun (ones 5) = some y0 → y.shape = y0.shape ++ [3] :=
  fun y y0 h h0 => shapes_match_maps_par2fun_batch (Geom.cont2D 1 5) 3 (by norm_num) _ (ones 5) y y0 rfl rfl h h0

/-- in terms of the reported `fun_shape`: `fun_shape + (ns,)` -/
theorem shapes_match_maps_par2fun_batch_reported (g : Geom) (hg : g.NoUnitFun) (ns : ℕ) (hns : ns ≠ 1)
    (x y : Arr) (fs : List ℕ) (hfs : g.funShape = some fs)
    (hx : x.shape = g.parShape ++ [ns]) (h : g.par2fun x = some y) :
    y.shape = fs ++ [ns] := by
  have e := par2fun_shape_of_some h
  rw [hx] at e
  obtain ⟨s0, hs0⟩ := p2fShape_single_of_batch g ns _ e
  have := p2fShape_single_noUnit g hg s0 hs0
  rw [hfs] at this
  cases this
  exact p2fShape_batch g ns hns _ _ hs0 e

example : ∀ y, (Geom.step [0, 1, 2, 3] none 2 .mean).par2fun ⟨[2, 5], fun t => (t : ℚ)⟩ = some y →
    y.shape = [4] ++ [5] :=
  fun y h => shapes_match_maps_par2fun_batch_reported (Geom.step [0, 1, 2, 3] none 2 .mean)
    (by simp [Geom.NoUnitFun]) 5 (by norm_num) _ y [4] rfl rfl h

/-- **The one-column exception, exactly.**  For the squeezing geometries (`Continuous2D`, non-visual
    `Image2D`, `StepExpansion`, alone or wrapped) a batch with a *single* column comes back with the
    single-vector shape — the sample axis is lost … -/
theorem par2fun_one_column_batch_squeezed (g : Geom) (hg : g.Squeezes) (x x0 y y0 : Arr)
    (hx : x.shape = g.parShape ++ [1]) (hx0 : x0.shape = g.parShape)
    (h : g.par2fun x = some y) (h0 : g.par2fun x0 = some y0) : y.shape = y0.shape := by
  have e := par2fun_shape_of_some h
  have e0 := par2fun_shape_of_some h0
  rw [hx, p2fShape_batch_one_squeezes g hg] at e; rw [hx0, e] at e0
  exact Option.some.inj e0

/-- … while the identity-type geometries (`Continuous1D`, `Discrete`, default 1-D, visual-only
    images, alone or wrapped) keep the sample axis for every number of columns, one included. -/
theorem par2fun_batch_shape_no_squeeze (g : Geom) (hg : ¬ g.Squeezes) (ns : ℕ) (x x0 y y0 : Arr)
    (hx : x.shape = g.parShape ++ [ns]) (hx0 : x0.shape = g.parShape)
    (h : g.par2fun x = some y) (h0 : g.par2fun x0 = some y0) : y.shape = y0.shape ++ [ns] := by
  have e := par2fun_shape_of_some h
  have e0 := par2fun_shape_of_some h0
  rw [hx0] at e0
  rw [hx, p2fShape_batch_noSqueeze g hg, e0] at e
  exact (Option.some.inj e).symm

/-- the one-column exception is real: `Image2D((2,3)).par2fun` of a `(6,1)` batch has shape `(2,3)`,
    not `(2,3,1)` (kept as a counterexample to "`fun_shape + (ns,)` for every `ns`") -/
theorem image_one_column_batch_counterexample :
    ((Geom.image 2 3 false false).par2fun ⟨[6, 1], fun _ => 1⟩).map (·.shape) = some [2, 3] ∧
      (Geom.image 2 3 false false).funShape = some [2, 3] := by
  constructor
  · rw [par2fun_shape]; simp [p2fShape, prod]
  · rfl

example : ∃ y y0, (Geom.cont1D 4).par2fun ⟨[4, 1], fun _ => 1⟩ = some y ∧
    (Geom.cont1D 4).par2fun (ones 4) = some y0 ∧ y.shape = y0.shape ++ [1] :=
  ⟨_, _, rfl, rfl, par2fun_batch_shape_no_squeeze (Geom.cont1D 4) (by simp [Geom.Squeezes]) 1 _ _ _ _
    rfl rfl rfl rfl⟩

/-- **`shapes_match_maps`, `fun2par`, single function value, every geometry.**  Applied to an array
    of the shape `par2fun` produces, whatever `fun2par` returns has the reported `par_shape`
    `(par_dim,)` — provided `par_dim ≠ 1` for `Continuous2D` and `n_steps ≠ 1` for `StepExpansion`
    (`g.NoUnitPar`), where the bare `squeeze()` returns a 0-d array. -/
theorem shapes_match_maps_fun2par (g : Geom) (hg : g.NoUnitPar) (x0 y0 f z : Arr)
    (hx0 : x0.shape = g.parShape) (h0 : g.par2fun x0 = some y0) (hf : f.shape = y0.shape)
    (h : g.fun2par f = .ok z) : z.shape = g.parShape := by
  have e0 := par2fun_shape_of_some h0
  rw [hx0] at e0
  have e := fun2par_shape_of_ok g f z h
  rw [hf] at e
  exact f2pShape_single g hg _ _ e0 e

example : ∀ z, (Geom.image 2 3 true false).fun2par ⟨[2, 3], fun t => (t : ℚ)⟩ = .ok z →
    z.shape = [2 * 3] := by
  intro z hz
  obtain ⟨y0, hy0, hs⟩ := par2fun_some_of_shape (g := Geom.image 2 3 true false) (x := ones 6)
    (sh := [2, 3]) (by simp [p2fShape, ones, prod])
  exact shapes_match_maps_fun2par (Geom.image 2 3 true false) trivial (ones 6) y0 _ z rfl hy0 hs.symm hz

/-- the excluded case is real: `StepExpansion(n_steps=1).fun2par` returns a 0-d array whereas
    `par_shape = (1,)` — for every grid and projection (known finding `*StepExpansion~unit:*`) -/
theorem step_fun2par_unit_counterexample (grid : List ℚ) (bs : Option (List ℚ)) (pr : Proj) (f z : Arr)
    (hf : f.shape = [grid.length]) (h : (Geom.step grid bs 1 pr).fun2par f = .ok z) :
    z.shape = [] ∧ (Geom.step grid bs 1 pr).parShape = [1] := by
  have e := fun2par_shape_of_ok _ f z h
  simp [f2pShape, hf, batchOfShape, squeezeShape, List.filter] at e
  exact ⟨e, rfl⟩

/-- … and `Continuous2D((1,1)).fun2par` likewise (`par_shape = (1,)`, result 0-d) -/
theorem cont2D_fun2par_unit_counterexample :
    ((Geom.cont2D 1 1).fun2par ⟨[1, 1], fun _ => 5⟩).map (·.shape) = .ok [] ∧
      (Geom.cont2D 1 1).parShape = [1] := by
  constructor
  · simp [Geom.fun2par, cont2DFun2par, Arr.size, prod, Arr.squeeze, squeezeShape, Except.map]
  · rfl

/-- **`shapes_match_maps`, `fun2par`, batches.**  For every geometry except a non-visual `Image2D`
    (alone or wrapped), `fun2par` of a batch of function values with `ns ≠ 1` columns has shape
    `(par_dim, ns)`.  (For `Image2D` the result is flat: `image_fun2par_batch_not_columnwise`.) -/
theorem shapes_match_maps_fun2par_batch (g : Geom) (hg : g.NoUnitPar) (hb : g.BatchFun2parOK)
    (ns : ℕ) (hns : ns ≠ 1) (x0 y0 f z : Arr) (hx0 : x0.shape = g.parShape)
    (h0 : g.par2fun x0 = some y0) (hf : f.shape = y0.shape ++ [ns]) (h : g.fun2par f = .ok z) :
    z.shape = g.parShape ++ [ns] := by
  have e0 := par2fun_shape_of_some h0
  rw [hx0] at e0
  have e := fun2par_shape_of_ok g f z h
  rw [hf] at e
  exact f2pShape_batch g hg hb ns hns _ _ e0 e

example : ∀ z, (Geom.cont2D 2 3).fun2par ⟨[2, 3, 4], fun t => (t : ℚ)⟩ = .ok z → z.shape = [2 * 3, 4] := by
  intro z hz
  obtain ⟨y0, hy0, hs⟩ := par2fun_some_of_shape (g := Geom.cont2D 2 3) (x := ones 6)
    (sh := [2, 3]) (by simp [p2fShape, ones, prod, squeezeShape, List.filter])
  exact shapes_match_maps_fun2par_batch (Geom.cont2D 2 3) (by simp [Geom.NoUnitPar]) trivial 4 (by norm_num)
    (ones 6) y0 _ z rfl hy0 (by rw [hs]; rfl) hz

/-- the negative batch result survives wrapping: `MappedGeometry(Image2D).fun2par` of a batch is flat -/
theorem mapped_image_fun2par_batch_not_columnwise (a b ns : ℕ) (o : Bool) (sc sh : ℚ) (y : Arr)
    (hy : y.shape = [a, b, ns]) :
    ∃ z, (Geom.mapped (Geom.image a b o false) sc sh true).fun2par y = .ok z ∧
      z.shape = [a * (b * (ns * 1))] ∧ z.shape ≠ [a * b, ns] := by
  rw [mapped_fun2par_eq]
  exact image_fun2par_batch_not_columnwise a b ns o (imapArr sc sh y) hy

/-- **`funvec_shape` matches `fun2vec`, every geometry**: whenever `fun2vec(par2fun x)` is defined and
    1-D for a parameter vector `x`, its shape is the reported `funvec_shape`. -/
theorem shapes_match_maps_funvec (g : Geom) (x f v : Arr) (hx : x.shape = g.parShape)
    (hf : g.par2fun x = some f) (hv : g.fun2vec f = .ok v) (h1 : v.shape.length = 1) :
    g.funvecShape = some v.shape :=
  funvecShape_matches g x f v hx hf hv h1

example : (Geom.mapped (Geom.image 2 3 true false) 2 1 true).funvecShape = some [2 * 3] := by
  have h1 := image_par2fun_single 2 3 true (ones 6) rfl (by norm_num)
  have := shapes_match_maps_funvec (Geom.mapped (Geom.image 2 3 true false) 2 1 true) (ones 6)
    _ _ rfl (by rw [mapped_par2fun_eq, h1]; rfl)
    (by simp only [Geom.fun2vec]; exact image_fun2par_single 2 3 true _ rfl) rfl
  exact this

/-- `Continuous2D` has no vector representation: `fun2vec`/`vec2fun` raise and `funvec_shape` is
    undefined — consistently (base-class rule `len(fun_shape) == 1` fails). -/
theorem cont2D_no_vector_representation (a b : ℕ) (x : Arr) :
    (Geom.cont2D a b).fun2vec x = .error "raise" ∧ (Geom.cont2D a b).vec2fun x = none ∧
      (Geom.cont2D a b).funvecShape = none :=
  ⟨fun2vec_cont2D a b x, vec2fun_cont2D a b x, funvecShape_cont2D a b⟩

/-- the wrapped geometry's `funvec_shape` is inherited by a `MappedGeometry` (its `fun2vec/vec2fun`
    go to the wrapped geometry) -/
theorem mapped_funvec_shape (g : Geom) (hv : g.Valid) (sc sh : ℚ) (inv : Bool) :
    (Geom.mapped g sc sh inv).funvecShape = g.funvecShape :=
  funvecShape_mapped g hv sc sh inv

example : (Geom.mapped (Geom.step [0, 1, 2, 3] none 2 .mean) 3 1 true).funvecShape = some [4] := by
  rw [mapped_funvec_shape _ (by simp [Geom.Valid])]
  exact funvecShape_step _ _ _ _ (by norm_num) (by simp)

/-- **KLExpansion shapes, every `num_modes`**: the effective number of modes never exceeds `N`;
    `klPre` (the part of `par2fun` before `idst`) maps `(m,)`/`(m, ns)` to `(N, 1)`/`(N, ns)`; `klPost`
    (the part of `fun2par` after `dst`) maps `(N, ns)` to `squeeze (m, ns)`, which is `(m,)` for one
    column and `(m, ns)` for `ns ≠ 1` when `m ≠ 1`. -/
theorem kl_shapes_match_maps (c : ℕ → ℚ) (τ : ℚ) (n : ℕ) (numModes : Option ℕ) :
    let m := klNumModes numModes n
    m ≤ n ∧
    (∀ x, x.shape = [m] → m ≠ 0 → ∃ y, klPre c τ n m x = some y ∧ y.shape = [n, 1]) ∧
    (∀ x ns, x.shape = [m, ns] → m ≠ 0 → ∃ y, klPre c τ n m x = some y ∧ y.shape = [n, ns]) ∧
    (∀ d ns, d.shape = [n, ns] → m ≠ 0 → ∃ z, klPost c τ n m d = some z ∧
      z.shape = squeezeShape [m, ns] ∧
      (m ≠ 1 → ns = 1 → z.shape = [m]) ∧ (m ≠ 1 → ns ≠ 1 → z.shape = [m, ns])) := by
  intro m
  refine ⟨?_, ?_, ?_, ?_⟩
  · show klNumModes numModes n ≤ n
    unfold klNumModes
    cases numModes with
    | none => exact le_refl _
    | some k => simp only; split_ifs <;> omega
  · intro x hx hm
    have hy : ∃ y, klPre c τ n m x = some y := by simp [klPre, batchOf, hx, hm]
    obtain ⟨y, hy⟩ := hy
    refine ⟨y, hy, ?_⟩
    simp [klPre, batchOf, hx, hm] at hy
    rw [← hy]
  · intro x ns hx hm
    have hy : ∃ y, klPre c τ n m x = some y := by simp [klPre, batchOf, hx, hm]
    obtain ⟨y, hy⟩ := hy
    refine ⟨y, hy, ?_⟩
    simp [klPre, batchOf, hx, hm] at hy
    rw [← hy]
  · intro d ns hd hm
    have hz : ∃ z, klPost c τ n m d = some z := by simp [klPost, hd, hm]
    obtain ⟨z, hz⟩ := hz
    have hs : z.shape = squeezeShape [m, ns] := by
      simp [klPost, hd, hm] at hz
      rw [← hz]; rfl
    refine ⟨z, hz, hs, ?_, ?_⟩
    · intro h1 hns; subst hns; rw [hs]; simp [squeezeShape, List.filter, h1]
    · intro h1 hns; rw [hs]; simp [squeezeShape, List.filter, h1, hns]

example : klNumModes (some 20) 16 = 16 ∧ klNumModes none 16 = 16 ∧ klNumModes (some 5) 16 = 5 := by
  simp [klNumModes]

/-- the excluded case: `num_modes = 1` makes `fun2par` return a 0-d array (known finding
    `*KLExpansion~unit:*`) -/
theorem kl_fun2par_unit_counterexample (c : ℕ → ℚ) (τ : ℚ) (n : ℕ) (d : Arr) (hd : d.shape = [n, 1]) :
    ∃ z, klPost c τ n 1 d = some z ∧ z.shape = [] := by
  have hz : ∃ z, klPost c τ n 1 d = some z := by simp [klPost, hd]
  obtain ⟨z, hz⟩ := hz
  refine ⟨z, hz, ?_⟩
  simp [klPost, hd] at hz
  rw [← hz]; rfl

/-! ## (4) `batch_is_columnwise`, every map of every geometry where it holds -/

/-- **`par2fun` acts column-wise on batches — every geometry.**  For a batch `x` of shape
    `(par_dim, ns)`, `ns ≥ 2`: column `k` of `par2fun x` is, as an array (shape and all entries),
    `par2fun` of column `k` of `x`.  (`ColIs y ns k yk`: `y[..., k]` has the shape and the entries of `yk`.) -/
theorem par2fun_batch_columnwise (g : Geom) (ns : ℕ) (hns : 2 ≤ ns) (x y : Arr)
    (hx : x.shape = g.parShape ++ [ns]) (h : g.par2fun x = some y) (k : ℕ) (hk : k < ns) :
    ∃ yk, g.par2fun (x.col ns k) = some yk ∧ ColIs y ns k yk :=
  par2fun_batch_cols g ns hns x y hx h k hk

example : ∀ y, (Geom.mapped (Geom.step [0, 1, 2, 3] none 2 .mean) 2 1 true).par2fun
      (Arr.ofList [2, 3] [1, 2, 3, 4, 5, 6]) = some y →
    ∃ yk, (Geom.mapped (Geom.step [0, 1, 2, 3] none 2 .mean) 2 1 true).par2fun
      ((Arr.ofList [2, 3] [1, 2, 3, 4, 5, 6]).col 3 1) = some yk ∧ ColIs y 3 1 yk :=
  fun y h => par2fun_batch_columnwise _ 3 (by norm_num) _ y rfl h 1 (by norm_num)

/-- **`fun2par` acts column-wise on batches — every geometry except a non-visual `Image2D`** (alone
    or wrapped; there it provably does not: `image_fun2par_batch_not_columnwise`,
    `mapped_image_fun2par_batch_not_columnwise`).  Includes the three `StepExpansion` projections:
    the projection of a batch is the projection of each column. -/
theorem fun2par_batch_columnwise (g : Geom) (hb : g.BatchFun2parOK) (ns : ℕ) (hns : 2 ≤ ns)
    (x0 y0 f z : Arr) (hx0 : x0.shape = g.parShape) (h0 : g.par2fun x0 = some y0)
    (hf : f.shape = y0.shape ++ [ns]) (h : g.fun2par f = .ok z) (k : ℕ) (hk : k < ns) :
    ∃ zk, g.fun2par (f.col ns k) = .ok zk ∧ ColIs z ns k zk := by
  have e0 := par2fun_shape_of_some h0
  rw [hx0] at e0
  exact fun2par_batch_cols g hb ns hns f z _ e0 hf h k hk

example : ∀ z, (Geom.cont2D 2 3).fun2par ⟨[2, 3, 4], fun t => (t : ℚ)⟩ = .ok z →
    ∃ zk, (Geom.cont2D 2 3).fun2par ((⟨[2, 3, 4], fun t => (t : ℚ)⟩ : Arr).col 4 2) = .ok zk ∧
      ColIs z 4 2 zk := by
  intro z hz
  obtain ⟨y0, hy0, hs⟩ := par2fun_some_of_shape (g := Geom.cont2D 2 3) (x := ones 6)
    (sh := [2, 3]) (by simp [p2fShape, ones, prod, squeezeShape, List.filter])
  exact fun2par_batch_columnwise (Geom.cont2D 2 3) trivial 4 (by norm_num) (ones 6) y0 _ z rfl hy0
    (by rw [hs]; rfl) hz 2 (by norm_num)

/-- **`vec2fun` acts column-wise on batches — every geometry** (it is `par2fun` for `Image2D`, the
    identity where the base-class rule applies, the wrapped geometry's for `MappedGeometry`). -/
theorem vec2fun_batch_columnwise (g : Geom) (ns : ℕ) (hns : 2 ≤ ns) (x y : Arr)
    (hx : x.shape = g.parShape ++ [ns]) (h : g.vec2fun x = some y) (k : ℕ) (hk : k < ns) :
    ∃ yk, g.vec2fun (x.col ns k) = some yk ∧ ColIs y ns k yk := by
  induction g generalizing x y with
  | image a b o v =>
    simp only [Geom.vec2fun] at h ⊢
    exact par2fun_batch_cols _ ns hns x y hx h k hk
  | mapped g sc sh inv ih =>
    simp only [Geom.vec2fun] at h ⊢
    exact ih x y hx h
  | cont1D n =>
    rw [vec2fun_cont1D] at h ⊢; cases h; exact ⟨_, rfl, rfl, fun _ => rfl⟩
  | discrete n =>
    rw [vec2fun_discrete] at h ⊢; cases h; exact ⟨_, rfl, rfl, fun _ => rfl⟩
  | step grid bs s pr =>
    rw [vec2fun_step] at h ⊢; cases h; exact ⟨_, rfl, rfl, fun _ => rfl⟩
  | cont2D a b => rw [vec2fun_cont2D] at h; cases h

example : ∃ yk, (Geom.discrete 2).vec2fun ((Arr.ofList [2, 2] [1, 2, 3, 4]).col 2 1) = some yk ∧
    ColIs (Arr.ofList [2, 2] [1, 2, 3, 4]) 2 1 yk :=
  vec2fun_batch_columnwise (Geom.discrete 2) 2 (by norm_num) _ _ rfl (vec2fun_discrete 2 _) 1 (by norm_num)

/-- **`fun2vec` acts column-wise on batches** wherever it is not `Image2D.fun2par`. -/
theorem fun2vec_batch_columnwise (g : Geom) (hb : g.BatchFun2parOK) (ns : ℕ) (x y : Arr)
    (h : g.fun2vec x = .ok y) (k : ℕ) :
    ∃ yk, g.fun2vec (x.col ns k) = .ok yk ∧ ColIs y ns k yk := by
  induction g generalizing x y with
  | image a b o v =>
    have hv : v = true := hb
    subst hv
    simp only [Geom.fun2vec, Geom.fun2par, if_true] at h ⊢
    cases h; exact ⟨_, rfl, rfl, fun _ => rfl⟩
  | mapped g sc sh inv ih =>
    simp only [Geom.fun2vec] at h ⊢
    exact ih hb x y h
  | cont1D n =>
    rw [fun2vec_cont1D] at h ⊢; cases h; exact ⟨_, rfl, rfl, fun _ => rfl⟩
  | discrete n =>
    rw [fun2vec_discrete] at h ⊢; cases h; exact ⟨_, rfl, rfl, fun _ => rfl⟩
  | step grid bs s pr =>
    rw [fun2vec_step] at h ⊢; cases h; exact ⟨_, rfl, rfl, fun _ => rfl⟩
  | cont2D a b => rw [fun2vec_cont2D] at h; cases h

example : ∃ yk, (Geom.cont1D 2).fun2vec ((Arr.ofList [2, 2] [1, 2, 3, 4]).col 2 0) = .ok yk ∧
    ColIs (Arr.ofList [2, 2] [1, 2, 3, 4]) 2 0 yk :=
  fun2vec_batch_columnwise (Geom.cont1D 2) trivial 2 _ _ (fun2vec_cont1D 2 _) 0

/-- **KLExpansion, batches are column-wise** (the parts of `par2fun`/`fun2par` around the
    transforms, which scipy applies along the last axis of the transposed array, i.e. per column):
    entry `r` of column `k` of `klPre` of a batch is entry `r` of `klPre` of column `k`, and the same
    for `klPost`. -/
theorem kl_batch_columnwise (c : ℕ → ℚ) (τ : ℚ) (n m ns : ℕ) (hm : m ≠ 0) (k : ℕ) (hk : k < ns) :
    (∀ x y, x.shape = [m, ns] → klPre c τ n m x = some y →
      ∃ yk, klPre c τ n m (x.col ns k) = some yk ∧ ∀ r, (y.col ns k).get r = yk.get r) ∧
    (∀ d z, d.shape = [n, ns] → klPost c τ n m d = some z →
      ∃ zk, klPost c τ n m ⟨[n, 1], (d.col ns k).get⟩ = some zk ∧ ∀ r, (z.col ns k).get r = zk.get r) := by
  constructor
  · intro x y hx hy
    have hcx : (x.col ns k).shape = [m] := by simp [Arr.col, hx]
    simp only [klPre, batchOf, hx, if_true, hm, if_false] at hy
    cases hy
    refine ⟨⟨[n, 1], fun t => if t / 1 < m then c (t / 1) * (x.col ns k).get (t / 1 * 1 + t % 1) / τ else 0⟩,
      by simp only [klPre, batchOf, hcx, if_true, hm, if_false], ?_⟩
    intro r
    obtain ⟨e1, e2⟩ := div_mod_col r ns k hk
    simp only [Arr.col, e1, e2, Nat.div_one, Nat.mod_one, Nat.mul_one, Nat.add_zero]
  · intro d z hd hz
    simp only [klPost, hd, ne_eq, not_true_eq_false, hm, or_self, if_false] at hz
    cases hz
    refine ⟨Arr.squeeze ⟨[m, 1], fun t => (c (t / 1))⁻¹ * (d.col ns k).get (t / 1 * 1 + t % 1) * τ /
      (2 * (n : ℚ))⟩, by simp only [klPost, ne_eq, not_true_eq_false, hm, or_self, if_false], ?_⟩
    intro r
    obtain ⟨e1, e2⟩ := div_mod_col r ns k hk
    simp only [Arr.col, Arr.squeeze, e1, e2, Nat.div_one, Nat.mod_one, Nat.mul_one, Nat.add_zero]

example : ∀ y, klPre (klCoef 2) 12 4 3 (Arr.ofList [3, 2] [1, 2, 3, 4, 5, 6]) = some y →
    ∃ yk, klPre (klCoef 2) 12 4 3 ((Arr.ofList [3, 2] [1, 2, 3, 4, 5, 6]).col 2 1) = some yk ∧
      ∀ r, (y.col 2 1).get r = yk.get r :=
  fun y h => (kl_batch_columnwise (klCoef 2) 12 4 3 2 (by norm_num) 1 (by norm_num)).1 _ y rfl h

/-! ## (2) the maps are mutually inverse, geometry by geometry -/

/-- **Identity-type geometries** (`Continuous1D`, `_DefaultGeometry1D`, `Discrete`, visual-only
    `Image2D`): all four maps are defined on the reported shapes, read only the array, and
    `fun2par∘par2fun`, `vec2fun∘fun2vec` are the identity (`Geom.Lossless`, see `Proofs/C13_shapes.lean`). -/
theorem maps_mutually_inverse_identity (n a b : ℕ) (o : Bool) :
    (Geom.cont1D n).Lossless [n] ∧ (Geom.discrete n).Lossless [n] ∧
      (Geom.image a b o true).Lossless [a * b] :=
  ⟨lossless_cont1D n, lossless_discrete n, lossless_image_visual a b o⟩

/-- **`Image2D` / `_DefaultGeometry2D`, both orders, every image size `a·b ≠ 0`** (instance of
    `image_roundtrip` + its converse `imgF_index_roundtrip_inv` for `vec2fun∘fun2vec`). -/
theorem maps_mutually_inverse_image (a b : ℕ) (o : Bool) (hab : a * b ≠ 0) :
    (Geom.image a b o false).Lossless [a, b] := lossless_image a b o hab

/-- **`Continuous2D`, every grid without a unit axis** (the unit-axis grids are the known finding). -/
theorem maps_mutually_inverse_cont2D (a b : ℕ) (hab : a * b ≠ 0) (ha : a ≠ 1) (hb : b ≠ 1) :
    (Geom.cont2D a b).Lossless [a, b] := lossless_cont2D a b hab ha hb

/-- **`StepExpansion`, all three projections**, whenever the intervals partition the nodes (`StepOK`:
    no node in two steps, no empty step, `n_steps ∉ {0,1}`, more than one node) — exact interval ends
    or the float ends given as data (instance of `step_fun2par_par2fun`). -/
theorem maps_mutually_inverse_step (grid : List ℚ) (bs : Option (List ℚ)) (s : ℕ) (pr : Proj)
    (h : StepOK grid bs s) : (Geom.step grid bs s pr).Lossless [grid.length] :=
  lossless_step grid bs s pr h

/-- the grid `x0, x0+h, …, x0+m·h` as the model's list -/
def regularGrid (x0 h : ℚ) (m : ℕ) : List ℚ := (List.range (m + 1)).map fun (k : ℕ) => x0 + (k : ℚ) * h

lemma lget_regularGrid (x0 h : ℚ) (m k : ℕ) (hk : k < m + 1) :
    lget (regularGrid x0 h m) k = x0 + (k : ℚ) * h := by
  simp only [lget, regularGrid, List.getD_eq_getElem?_getD, List.getElem?_map, List.getElem?_range hk]
  simp

lemma stepB_regularGrid (x0 h : ℚ) (m s i : ℕ) :
    stepB (regularGrid x0 h m) none s i = stepBound (fun k => x0 + (k : ℚ) * h) (m + 1) s i := by
  have hl : (regularGrid x0 h m).length = m + 1 := by simp [regularGrid]
  simp only [stepB, stepBound, hl, Nat.add_sub_cancel]
  rw [lget_regularGrid x0 h m 0 (by omega), lget_regularGrid x0 h m m (by omega)]

/-- **`StepOK` holds on every regular grid in exact arithmetic**: `h > 0`, `2 ≤ n_steps ≤ #nodes`
    (from `step_partition`, `step_regular_rule`, `step_nonempty`) — so `StepExpansion` on a regular
    grid has mutually inverse maps for mean, max and min. -/
theorem stepOK_regular (x0 h : ℚ) (hh : 0 < h) (m s : ℕ) (hs : 2 ≤ s) (hsn : s ≤ m + 1) :
    StepOK (regularGrid x0 h m) none s := by
  have hl : (regularGrid x0 h m).length = m + 1 := by simp [regularGrid]
  have hb : stepB (regularGrid x0 h m) none s = stepBound (fun k => x0 + (k : ℚ) * h) (m + 1) s :=
    funext fun i => stepB_regularGrid x0 h m s i
  refine ⟨by omega, by omega, by rw [hl]; omega, ?_, ?_⟩
  · intro k hk i hi j hj hin hjin
    rw [hl] at hk
    rw [hb, lget_regularGrid x0 h m k hk] at hin hjin
    have hg0 : (fun k : ℕ => x0 + (k : ℚ) * h) 0 ≤ (fun k : ℕ => x0 + (k : ℚ) * h) k := by
      have : (0 : ℚ) ≤ (k : ℚ) * h := by positivity
      simp only; push_cast; linarith
    have hgl : (fun k : ℕ => x0 + (k : ℚ) * h) k ≤ (fun k : ℕ => x0 + (k : ℚ) * h) (m + 1 - 1) := by
      simp only [Nat.add_sub_cancel]
      have : (k : ℚ) ≤ (m : ℚ) := by exact_mod_cast (by omega : k ≤ m)
      nlinarith
    obtain ⟨i0, _, hu⟩ := step_partition (fun k : ℕ => x0 + (k : ℚ) * h) (m + 1) s k (by omega) hg0 hgl
    rw [hu j ⟨hj, hjin⟩, hu i ⟨hi, hin⟩]
  · intro i hi
    obtain ⟨k, hk, hin⟩ := step_nonempty m s i (by omega) hsn hi
    refine ⟨k, by rw [hl]; exact hk, ?_⟩
    rw [hb, lget_regularGrid x0 h m k hk, step_regular_rule x0 h hh m s k i (by omega)]
    exact hin

example : (Geom.step (regularGrid 2 (7 / 10) 5) none 3 .max).Lossless [6] := by
  have := maps_mutually_inverse_step _ none 3 .max (stepOK_regular 2 (7 / 10) (by norm_num) 5 3 (by norm_num) (by norm_num))
  simpa [regularGrid] using this

/-- **`MappedGeometry` around any geometry with mutually inverse maps** (`map = scale·f + shift`,
    `scale ≠ 0`, `imap` its inverse; instance of `mapped_roundtrip`): the wrapped property is inherited
    — hence for any depth of wrapping. -/
theorem maps_mutually_inverse_mapped (g : Geom) (fs : List ℕ) (L : g.Lossless fs) (hv : g.Valid)
    (sc sh : ℚ) (hsc : sc ≠ 0) : (Geom.mapped g sc sh true).Lossless fs :=
  lossless_mapped g fs L hv sc sh hsc

example : (Geom.mapped (Geom.mapped (Geom.image 2 3 true false) 2 1 true) (-3) 0 true).Lossless [2, 3] :=
  maps_mutually_inverse_mapped _ _ (maps_mutually_inverse_mapped _ _
    (maps_mutually_inverse_image 2 3 true (by norm_num)) (by simp [Geom.Valid]) 2 1 (by norm_num))
    (by simp [Geom.Valid]) (-3) 0 (by norm_num)

/-- **`vec2fun (fun2vec f) = f`** (shape and entries) for every geometry with mutually inverse maps,
    on the reported function-value shape. -/
theorem vec2fun_fun2vec_roundtrip (g : Geom) (fs : List ℕ) (L : g.Lossless fs) (f v f' : Arr)
    (hf : f.shape = fs) (h1 : g.fun2vec f = .ok v) (h2 : g.vec2fun v = some f') : f'.Eqv f :=
  L.vrt f v f' hf h1 h2

example : ∀ v f', (Geom.image 2 3 true false).fun2vec ⟨[2, 3], fun t => (t : ℚ)⟩ = .ok v →
    (Geom.image 2 3 true false).vec2fun v = some f' → f'.Eqv ⟨[2, 3], fun t => (t : ℚ)⟩ :=
  fun v f' => vec2fun_fun2vec_roundtrip _ _ (maps_mutually_inverse_image 2 3 true (by norm_num)) _ v f' rfl

/-! ## (3) idempotence of `par2fun ∘ fun2par` -/

/-- **`par2fun ∘ fun2par` is idempotent — every geometry with `fun2par ∘ par2fun = id`** (model
    level): for function values `f` of the reported shape, projecting twice (`fun2par`, `par2fun`,
    `fun2par`, `par2fun`) gives the same array as projecting once.  With `maps_mutually_inverse_step`
    this is the `StepExpansion` statement for mean, max and min. -/
theorem par2fun_fun2par_idempotent (g : Geom) (fs : List ℕ) (L : g.Lossless fs) (f q f2 : Arr)
    (hf : f.shape = fs) (h1 : g.fun2par f = .ok q) (h2 : g.par2fun q = some f2) :
    ∃ q2 f3, g.fun2par f2 = .ok q2 ∧ g.par2fun q2 = some f3 ∧ f3.Eqv f2 := by
  obtain ⟨q', _, e1, _, _, hq⟩ := L.f2p f f hf (Arr.Eqv.refl f)
  have e1' : optOfExcept (g.fun2par f) = some q' := e1
  rw [optOfExcept_eq_some.mpr h1] at e1'; cases e1'
  obtain ⟨y, _, e2, _, _, hy⟩ := L.p2f q q hq (Arr.Eqv.refl q)
  rw [h2] at e2; cases e2
  obtain ⟨q2, _, e3, _, _, hq2⟩ := L.f2p f2 f2 hy (Arr.Eqv.refl f2)
  have e3' := optOfExcept_eq_some.mp e3
  have hrt := L.rt q f2 q2 hq h2 e3'
  obtain ⟨f3, f2', e4, e5, e6, _⟩ := L.p2f q2 q hq2 hrt
  rw [h2] at e5; cases e5
  exact ⟨q2, f3, e3', e4, e6⟩

example : ∀ q f2, (Geom.step (regularGrid 0 1 3) none 2 .min).fun2par ⟨[4], fun t => (t : ℚ) ^ 2⟩ = .ok q →
    (Geom.step (regularGrid 0 1 3) none 2 .min).par2fun q = some f2 →
    ∃ q2 f3, (Geom.step (regularGrid 0 1 3) none 2 .min).fun2par f2 = .ok q2 ∧
      (Geom.step (regularGrid 0 1 3) none 2 .min).par2fun q2 = some f3 ∧ f3.Eqv f2 :=
  fun q f2 => par2fun_fun2par_idempotent _ [4]
    (by
      have := maps_mutually_inverse_step _ none 2 Proj.min
        (stepOK_regular 0 1 (by norm_num) 3 2 (by norm_num) (by norm_num))
      simpa [regularGrid] using this) _ q f2 rfl

/-- **`StepExpansion`: `par2fun ∘ fun2par` is idempotent, all three projections** (function level,
    any interval ends `b`, any grid `g`): with `P p k = stepFill b s p (g k)` (`par2fun`, node `k`) and
    `Q f i = project pr (values of f on step i)` (`fun2par`), `P (Q (P (Q f))) = P (Q f)` at every node,
    whenever no node lies in two steps and no step is empty. -/
theorem step_par2fun_fun2par_idempotent (b g : ℕ → ℚ) (n s : ℕ) (pr : Proj) (f : ℕ → ℚ)
    (huniq : ∀ k, k < n → ∀ i, i < s → ∀ j, j < s →
      inStep b (g k) i = true → inStep b (g k) j = true → j = i)
    (hne : ∀ i, i < s → ∃ k, k < n ∧ inStep b (g k) i = true) (x : ℚ) :
    let P : (ℕ → ℚ) → ℚ → ℚ := fun p x => stepFill b s p x
    let Q : (ℕ → ℚ) → ℕ → ℚ := fun f i => (project pr (stepVals b g n f i)).getD 0
    P (Q (fun k => P (Q f) (g k))) x = P (Q f) x := by
  intro P Q
  apply stepFill_congr
  intro i hi
  show (project pr (stepVals b g n (fun k => stepFill b s (Q f) (g k)) i)).getD 0 = Q f i
  rw [step_fun2par_par2fun b g n s (Q f) pr i hi
    (fun k hk j hj hin hjin => huniq k hk i hi j hj hin hjin) (hne i hi)]
  rfl

example (f : ℕ → ℚ) (x : ℚ) :
    let b := stepBound (fun k => (0 : ℚ) + (k : ℚ) * 1) 4 2
    let g : ℕ → ℚ := fun k => (0 : ℚ) + (k : ℚ) * 1
    stepFill b 2 (fun i => (project .mean (stepVals b g 4
      (fun k => stepFill b 2 (fun i => (project .mean (stepVals b g 4 f i)).getD 0) (g k)) i)).getD 0) x =
    stepFill b 2 (fun i => (project .mean (stepVals b g 4 f i)).getD 0) x := by
  intro b g
  have hok := stepOK_regular 0 1 (by norm_num) 3 2 (by norm_num) (by norm_num)
  have hl : (regularGrid 0 1 3).length = 4 := by simp [regularGrid]
  have hb : stepB (regularGrid 0 1 3) none 2 = b := funext fun i => stepB_regularGrid 0 1 3 2 i
  refine step_par2fun_fun2par_idempotent b g 4 2 .mean f ?_ ?_ x
  · intro k hk i hi j hj h1 h2
    have := hok.huniq k (by rw [hl]; exact hk) i hi j hj
    rw [hb, lget_regularGrid 0 1 3 k hk] at this
    exact this h1 h2
  · intro i hi
    obtain ⟨k, hk, hin⟩ := hok.hne i hi
    rw [hl] at hk
    rw [hb, lget_regularGrid 0 1 3 k hk] at hin
    exact ⟨k, hk, hin⟩

/-- **`KLExpansion`: `par2fun ∘ fun2par` is idempotent for every `num_modes ≤ N`, pointwise** —
    `kl_par2fun_fun2par_idempotent` (Props/C13_dst.lean) read at a node `n`. -/
theorem kl_par2fun_fun2par_idempotent_pointwise (N m : ℕ) (hN : N ≠ 0) (hmN : m ≤ N)
    (c : ℕ → ℝ) (τ : ℝ) (hτ : τ ≠ 0) (hc : ∀ i, i < m → c i ≠ 0) (f : ℕ → ℝ) (n : ℕ) :
    klPar2funR N m c τ (klFun2parR N c τ (klPar2funR N m c τ (klFun2parR N c τ f))) n =
      klPar2funR N m c τ (klFun2parR N c τ f) n :=
  congrFun (kl_par2fun_fun2par_idempotent N m hN hmN c τ hτ hc f) n

example (f : ℕ → ℝ) : klPar2funR 8 3 (fun i => 1 / ((i : ℝ) + 1) ^ 2) 12
    (klFun2parR 8 (fun i => 1 / ((i : ℝ) + 1) ^ 2) 12 (klPar2funR 8 3 (fun i => 1 / ((i : ℝ) + 1) ^ 2) 12
      (klFun2parR 8 (fun i => 1 / ((i : ℝ) + 1) ^ 2) 12 f))) 5 =
    klPar2funR 8 3 (fun i => 1 / ((i : ℝ) + 1) ^ 2) 12 (klFun2parR 8 (fun i => 1 / ((i : ℝ) + 1) ^ 2) 12 f) 5 :=
  kl_par2fun_fun2par_idempotent_pointwise 8 3 (by norm_num) (by norm_num) _ 12 (by norm_num)
    (fun i _ => by positivity) f 5

/-! ## (2) conversion chains of arbitrary length -/

/-- **The flag automaton on one sample: any chain is lossless** (generic: any type of data, any maps).
    If the per-sample maps respect "same value" (`RP/RF/RV`), `f2p∘p2f ~ id`, `v2f∘f2v ~ id`,
    `v2p ~ f2p∘v2f`, and 1-D function values are their own vector representation (`Sys.Lossless`),
    then after **any list** `cs` of conversion requests (`.parameters/.funvals/.vector`, any length,
    any order) started from a parameter value `p`, a final `.parameters` succeeds, yields a
    parameter-flagged sample, and its data are `p` again. -/
theorem chain_lossless_abstract {X : Type} (M : Sys X) (RP RF RV : X → X → Prop)
    (L : M.Lossless RP RF RV) (p : X) (hp : RP p p) (cs : List Conv) (s' : St X)
    (h : M.chain cs ⟨p, true, true⟩ = some s') :
    ∃ s'', M.convert .parameters s' = some s'' ∧ s''.isPar = true ∧ RP s''.data p := by
  have h0 : M.Inv RP RF RV p ⟨p, true, true⟩ := by simp [Sys.Inv, hp]
  exact L.inv_parameters p hp s' (L.chain_inv p hp cs _ s' h0 h)

/-- **`Samples` chains act sample by sample** (structural, every geometry, no hypothesis): if the
    chain `s.c₁.c₂.….cₖ` of `Samples.funvals/.vector/.parameters` calls succeeds, the number of samples
    is unchanged and sample `i` of the result (with the result's flags) is exactly what the flag
    automaton `sysOf g` (the geometry's map followed by the broadcasting slice assignment) produces
    from sample `i` of `s`. -/
theorem samples_chain_columnwise (g : Geom) (cs : List Conv) (s s' : Samples)
    (h : Samples.chain g cs s = some s') :
    s'.ns = s.ns ∧ ∀ i, i < s.ns → (sysOf g).chain cs (s.colSt s.ns i) = some (s'.colSt s.ns i) :=
  samples_chain_col g cs s s' h

example : ∀ s', Samples.chain (Geom.cont1D 2) [.funvals, .vector, .parameters]
      ⟨Arr.ofList [2, 2] [1, 2, 3, 4], true, true⟩ = some s' →
    s'.ns = 2 ∧ ∀ i, i < 2 → (sysOf (Geom.cont1D 2)).chain [.funvals, .vector, .parameters]
      ((⟨Arr.ofList [2, 2] [1, 2, 3, 4], true, true⟩ : Samples).colSt 2 i) = some (s'.colSt 2 i) :=
  fun s' h => samples_chain_columnwise (Geom.cont1D 2) _ _ s' h

lemma shape_of_col_shape (x : Arr) (ns : ℕ) (sh : List ℕ) (hsh : sh ≠ [])
    (h1 : x.shape.getLastD 0 = ns) (h2 : x.shape.dropLast = sh) : x.shape = sh ++ [ns] := by
  have hne : x.shape ≠ [] := by
    intro h0; rw [h0] at h2; exact hsh h2.symm
  rw [← List.dropLast_append_getLast hne, h2]
  congr 2
  rw [List.getLastD_eq_getLast?, List.getLast?_eq_some_getLast hne] at h1
  simpa using h1

/-- **`samples_conversions_lossless` for chains of arbitrary length, every geometry with mutually
    inverse maps.**  Let `s` be a collection of `ns ≥ 1` parameter samples (shape `(par_dim, ns)`,
    flag `is_par = True`).  After **any** chain of `funvals` / `vector` / `parameters`
    calls that runs through, `.parameters` succeeds and returns a parameter collection of the original
    shape whose entries are the original samples.  `g.Lossless fs` is provided by
    `maps_mutually_inverse_identity/_image/_cont2D/_step/_mapped` (for `StepExpansion` on regular grids
    by `stepOK_regular`). -/
theorem samples_conversions_lossless_chain (g : Geom) (fs : List ℕ) (L : g.Lossless fs)
    (s : Samples) (ns : ℕ) (hns : 0 < ns) (hshape : s.arr.shape = g.parShape ++ [ns])
    (hpar : s.isPar = true) (cs : List Conv) (s' : Samples)
    (h : Samples.chain g cs s = some s') :
    ∃ s'', s'.parameters g = some s'' ∧ s''.isPar = true ∧ s''.arr.shape = g.parShape ++ [ns] ∧
      ∀ i, i < ns → ∀ r, r < prod g.parShape → s''.arr.get (r * ns + i) = s.arr.get (r * ns + i) := by
  have hsns : s.ns = ns := by simp [Samples.ns, hshape]
  obtain ⟨hns', hcols⟩ := samples_chain_col g cs s s' h
  rw [hsns] at hns' hcols
  have hLS := L.toSys
  -- per sample: the invariant holds at the end of the chain
  have hp : ∀ i, g.RP (s.arr.col ns i) (s.arr.col ns i) := fun i =>
    ⟨by simp [Arr.col, hshape], Arr.Eqv.refl _⟩
  have hinv : ∀ i, i < ns → (sysOf g).Inv g.RP (Geom.RF fs) g.RV (s.arr.col ns i) (s'.colSt ns i) := by
    intro i hi
    have h0 : (sysOf g).Inv g.RP (Geom.RF fs) g.RV (s.arr.col ns i) (s.colSt ns i) := by
      simp only [Sys.Inv, Samples.colSt, hpar, if_true]; exact hp i
    exact hLS.chain_inv _ (hp i) cs _ _ h0 (hcols i hi)
  have hfin : ∀ i, i < ns → ∃ s'', (sysOf g).convert .parameters (s'.colSt ns i) = some s'' ∧
      s''.isPar = true ∧ g.RP s''.data (s.arr.col ns i) :=
    fun i hi => hLS.inv_parameters _ (hp i) _ (hinv i hi)
  have hsize : (s.arr.col ns 0).size = prod g.parShape := by simp [Arr.size, Arr.col, hshape]
  by_cases hsp : s'.isPar = true
  · -- already parameters: `.parameters` is a no-op
    refine ⟨s', by simp [Samples.parameters, hsp], hsp, ?_, ?_⟩
    · have h0 := hinv 0 hns
      simp only [Sys.Inv, Samples.colSt, hsp, if_true] at h0
      apply shape_of_col_shape _ _ _ (by rw [parShape_eq g]; simp) hns'
      exact h0.1
    · intro i hi r hr
      have h0 := hinv i hi
      simp only [Sys.Inv, Samples.colSt, hsp, if_true] at h0
      have := h0.2.2 r (by simp only [Arr.size, h0.1]; exact hr)
      simpa [Arr.col] using this
  · -- a real conversion: assemble the per-sample results
    have hconv : ∀ i, i < ns → ∃ d, g.RP d (s.arr.col ns i) ∧
        ((if !s'.isVec then fun x => optOfExcept (g.fun2par x)
          else fun x => (g.vec2fun x).bind (fun f => optOfExcept (g.fun2par f))) (s'.arr.col s'.ns i)).bind
          (fun v => broadcastTo v [prod g.parShape]) = some d := by
      intro i hi
      obtain ⟨s'', h1, _, h3⟩ := hfin i hi
      rw [Sys.convert_parameters_conv _ (s'.colSt ns i) hsp] at h1
      obtain ⟨d, hd, rfl⟩ := Option.map_eq_some_iff.mp h1
      refine ⟨d, h3, ?_⟩
      rw [hns']
      cases hv : s'.isVec with
      | true =>
        have hd' : (sysOf g).v2p (s'.arr.col ns i) = some d := by
          simpa [Samples.colSt, hv] using hd
        simpa [sysOf] using hd'
      | false =>
        have hd' : (sysOf g).f2p (s'.arr.col ns i) = some d := by
          simpa [Samples.colSt, hv] using hd
        simpa [sysOf] using hd'
    have : Nonempty Arr := ⟨⟨[], fun _ => 0⟩⟩
    choose! D hD using hconv
    obtain ⟨out, ho, hosh, hoget⟩ := convertAll_spec [prod g.parShape] s' _ D
      (fun i hi => (hD i (hns' ▸ hi)).2)
    have hpm : s'.parameters g = some ⟨out, true, true⟩ := by
      unfold Samples.parameters
      rw [if_neg hsp]
      simp only [ho, Option.map_some]
    refine ⟨⟨out, true, true⟩, hpm, rfl, ?_, ?_⟩
    · rw [hosh, hns', prod_parShape]
    · intro i hi r hr
      rw [hns'] at hoget
      rw [hoget i hi r]
      have hrp := (hD i hi).1
      have := hrp.2.2 r (by simp only [Arr.size, hrp.1]; exact hr)
      simpa [Arr.col] using this

/-- non-vacuity: a `StepExpansion` on a regular grid, chain of length 7 (it runs through) -/
example : ∀ s', Samples.chain (Geom.step (regularGrid 0 1 3) none 2 .mean)
      [.funvals, .vector, .funvals, .parameters, .vector, .funvals, .funvals]
      ⟨Arr.ofList [2, 3] [1, 2, 3, 4, 5, 6], true, true⟩ = some s' →
    ∃ s'', s'.parameters (Geom.step (regularGrid 0 1 3) none 2 .mean) = some s'' ∧ s''.isPar = true ∧
      s''.arr.shape = [2] ++ [3] ∧
      ∀ i, i < 3 → ∀ r, r < prod [2] → s''.arr.get (r * 3 + i) = (Arr.ofList [2, 3] [1, 2, 3, 4, 5, 6]).get (r * 3 + i) :=
  fun s' h => samples_conversions_lossless_chain _ [(regularGrid 0 1 3).length]
    (maps_mutually_inverse_step _ none 2 Proj.mean (stepOK_regular 0 1 (by norm_num) 3 2 (by norm_num) (by norm_num)))
    _ 3 (by norm_num) rfl rfl _ s' h

/-- … and an image geometry wrapped in a mapped geometry -/
example : ∀ s', Samples.chain (Geom.mapped (Geom.image 2 3 true false) 2 1 true)
      [.vector, .funvals, .vector, .parameters, .funvals]
      ⟨⟨[6, 2], fun t => (t : ℚ)⟩, true, true⟩ = some s' →
    ∃ s'', s'.parameters (Geom.mapped (Geom.image 2 3 true false) 2 1 true) = some s'' ∧ s''.isPar = true ∧
      s''.arr.shape = [2 * 3] ++ [2] ∧
      ∀ i, i < 2 → ∀ r, r < prod [2 * 3] → s''.arr.get (r * 2 + i) = ((r * 2 + i : ℕ) : ℚ) :=
  fun s' h => samples_conversions_lossless_chain _ [2, 3]
    (maps_mutually_inverse_mapped _ _ (maps_mutually_inverse_image 2 3 true (by norm_num))
      (by simp [Geom.Valid]) 2 1 (by norm_num))
    _ 2 (by norm_num) rfl rfl _ s' h

/-! the three chains used as examples above do run through in the model (closed evaluations; the
    data functions are never evaluated, only shapes, flags and — for the step geometry — the
    rational interval tests) -/
example : (Samples.chain (Geom.cont1D 2) [.funvals, .vector, .parameters]
      ⟨Arr.ofList [2, 2] [1, 2, 3, 4], true, true⟩).isSome = true := by decide
example : (Samples.chain (Geom.mapped (Geom.image 2 3 true false) 2 1 true)
      [.vector, .funvals, .vector, .parameters, .funvals]
      ⟨⟨[6, 2], fun t => (t : ℚ)⟩, true, true⟩).isSome = true := by decide
example : (Samples.chain (Geom.step (regularGrid 0 1 3) none 2 .mean)
      [.funvals, .vector, .funvals, .parameters, .vector, .funvals, .funvals]
      ⟨Arr.ofList [2, 3] [1, 2, 3, 4, 5, 6], true, true⟩).isSome = true := by decide +kernel

/-- **`CUQIarray` chains of arbitrary length.**  From a parameter array `p` (shape `(par_dim,)`),
    **every** chain of `.funvals` / `.parameters` calls succeeds (no shape is ever refused by
    `CUQIarray.__new__`), and a final `.parameters` returns a parameter array with the shape and the
    entries of `p` — for every geometry with mutually inverse maps. -/
theorem carr_conversions_lossless_chain (g : Geom) (fs : List ℕ) (L : g.Lossless fs) (p : Arr)
    (hp : p.shape = g.parShape) (cs : List CConv) :
    ∃ c' c'', CArr.chain g cs ⟨p, true⟩ = some c' ∧ c'.parameters g = some c'' ∧
      c''.isPar = true ∧ c''.arr.Eqv p := by
  have h0 : CArr.Inv g fs p ⟨p, true⟩ := by
    simp only [CArr.Inv, if_true]; exact ⟨hp, Arr.Eqv.refl p⟩
  obtain ⟨c', h1, hI⟩ := carr_chain_inv L p hp cs _ h0
  obtain ⟨c'', h2, hI2⟩ := carr_convert_inv L p hp .parameters c' hI
  have h2' : c'.parameters g = some c'' := h2
  have hpar : c''.isPar = true := by
    unfold CArr.parameters at h2'
    obtain ⟨v, _, hv⟩ := Option.bind_eq_some_iff.mp h2'
    unfold CArr.mk? at hv
    split_ifs at hv
    cases hv; rfl
  refine ⟨c', c'', h1, h2', hpar, ?_⟩
  simp only [CArr.Inv, hpar, if_true] at hI2
  exact hI2.2

example : ∃ c' c'', CArr.chain (Geom.cont2D 2 3) [.funvals, .funvals, .parameters, .funvals]
    ⟨ones 6, true⟩ = some c' ∧ c'.parameters (Geom.cont2D 2 3) = some c'' ∧ c''.isPar = true ∧
      c''.arr.Eqv (ones 6) :=
  carr_conversions_lossless_chain _ _ (maps_mutually_inverse_cont2D 2 3 (by norm_num) (by norm_num) (by norm_num))
    (ones 6) rfl _

/-! ### KLExpansion chains (over `ℝ`, scipy's transforms as explicit sine sums) -/

/-- the per-sample maps of a `KLExpansion(N, num_modes = m)` over `ℝ`: `klPar2funR/klFun2parR` of
    `Props/C13_dst.lean`; function values are 1-D, so `fun2vec/vec2fun` are the identity -/
noncomputable def klSys (N m : ℕ) (c : ℕ → ℝ) (τ : ℝ) : Sys (ℕ → ℝ) where
  p2f p := some (klPar2funR N m c τ p)
  f2p f := some (klFun2parR N c τ f)
  f2v f := some f
  v2f v := some v
  v2p v := some (klFun2parR N c τ v)
  oneD := true

lemma dstII_congr (N : ℕ) (x y : ℕ → ℝ) (h : ∀ n, n < N → x n = y n) (k : ℕ) :
    dstII N x k = dstII N y k := by
  unfold dstII
  congr 1
  exact Finset.sum_congr rfl fun n hn => by rw [h n (Finset.mem_range.mp hn)]

lemma klFun2parR_congr (N : ℕ) (c : ℕ → ℝ) (τ : ℝ) (f f' : ℕ → ℝ) (h : ∀ n, n < N → f n = f' n) (i : ℕ) :
    klFun2parR N c τ f i = klFun2parR N c τ f' i := by
  unfold klFun2parR klPostK
  rw [dstII_congr N _ _ (fun n hn => by rw [h n hn]) i]

lemma klSys_lossless (N m : ℕ) (hN : N ≠ 0) (hmN : m ≤ N) (c : ℕ → ℝ) (τ : ℝ) (hτ : τ ≠ 0)
    (hc : ∀ i, i < m → c i ≠ 0) :
    (klSys N m c τ).Lossless (fun p q => ∀ i, i < m → p i = q i)
      (fun f f' => ∀ n, n < N → f n = f' n) (fun f f' => ∀ n, n < N → f n = f' n) where
  symP := fun _ _ h i hi => (h i hi).symm
  transP := fun _ _ _ h h' i hi => (h i hi).trans (h' i hi)
  symF := fun _ _ h i hi => (h i hi).symm
  transF := fun _ _ _ h h' i hi => (h i hi).trans (h' i hi)
  symV := fun _ _ h i hi => (h i hi).symm
  transV := fun _ _ _ h h' i hi => (h i hi).trans (h' i hi)
  hp2f := fun p q h => ⟨_, _, rfl, rfl, fun n _ => by rw [klPar2funR_congr N m c τ p q h]⟩
  hf2p := fun f f' h => ⟨_, _, rfl, rfl, fun i _ => klFun2parR_congr N c τ f f' h i⟩
  hrt := by
    intro x y z _ h1 h2 i hi
    simp only [klSys, Option.some.injEq] at h1 h2
    subst h1; subst h2
    exact kl_roundtrip_maps N m hN hmN c τ hτ x i hi (hc i hi)
  hf2v := by
    intro f f' v h hv
    simp only [klSys, Option.some.injEq] at hv
    subst hv
    exact ⟨f', rfl, h⟩
  hv2f := fun v v' h => ⟨v, v', rfl, rfl, h⟩
  hvrt := by
    intro f v f' _ h1 h2
    simp only [klSys, Option.some.injEq] at h1 h2
    subst h1; subst h2
    exact fun _ _ => rfl
  hv2p := by
    intro v v' f h _ hf
    simp only [klSys, Option.some.injEq] at hf
    subst hf
    exact ⟨_, _, rfl, rfl, fun i _ => klFun2parR_congr N c τ v f h i⟩
  h1D := fun _ f f' h => ⟨h, f', rfl, fun _ _ => rfl⟩

/-- **KLExpansion: any chain of conversions is lossless, every `num_modes = m ≤ N`** (real arithmetic,
    scipy's `dst/idst` as the explicit sums of `Props/C13_dst.lean`; instance of
    `kl_fun2par_par2fun_dst` via `kl_roundtrip_maps`): after any list of `.parameters/.funvals/.vector`
    requests started from the coefficients `p`, a final `.parameters` returns `p i` for all `i < m`. -/
theorem kl_chain_lossless (N m : ℕ) (hN : N ≠ 0) (hmN : m ≤ N) (c : ℕ → ℝ) (τ : ℝ) (hτ : τ ≠ 0)
    (hc : ∀ i, i < m → c i ≠ 0) (p : ℕ → ℝ) (cs : List Conv) :
    ∃ s' s'', (klSys N m c τ).chain cs ⟨p, true, true⟩ = some s' ∧
      (klSys N m c τ).convert .parameters s' = some s'' ∧ s''.isPar = true ∧
      ∀ i, i < m → s''.data i = p i := by
  have htot : ∀ (cs : List Conv) (s : St (ℕ → ℝ)), ∃ s', (klSys N m c τ).chain cs s = some s' := by
    intro cs
    induction cs with
    | nil => exact fun s => ⟨s, rfl⟩
    | cons cv cs ih =>
      intro s
      have h1 : ∃ s1, (klSys N m c τ).convert cv s = some s1 := by
        cases cv <;> simp only [Sys.convert, klSys] <;> split_ifs <;> simp
      obtain ⟨s1, h1⟩ := h1
      obtain ⟨s2, h2⟩ := ih s1
      exact ⟨s2, by simp only [Sys.chain, h1, Option.bind_some]; exact h2⟩
  obtain ⟨s', hs'⟩ := htot cs ⟨p, true, true⟩
  obtain ⟨s'', h1, h2, h3⟩ := chain_lossless_abstract (klSys N m c τ) _ _ _
    (klSys_lossless N m hN hmN c τ hτ hc) p (fun _ _ => rfl) cs s' hs'
  exact ⟨s', s'', hs', h1, h2, h3⟩

example (p : ℕ → ℝ) : ∃ s' s'', (klSys 8 3 (fun i => 1 / ((i : ℝ) + 1) ^ 2) 12).chain
      [.funvals, .vector, .funvals, .parameters, .funvals, .vector] ⟨p, true, true⟩ = some s' ∧
    (klSys 8 3 (fun i => 1 / ((i : ℝ) + 1) ^ 2) 12).convert .parameters s' = some s'' ∧
    s''.isPar = true ∧ ∀ i, i < 3 → s''.data i = p i :=
  kl_chain_lossless 8 3 (by norm_num) (by norm_num) _ 12 (by norm_num) (fun i _ => by positivity) p _

end CuqiVerif.C13
