import CuqiVerif.Model.C11

namespace CuqiVerif.C11

/-- placeholder while the harness is brought up (replaced below) -/
theorem makeCopy_addr (s : St) (a : Nat) : (s.makeCopy a).2 = s.size := rfl

end CuqiVerif.C11
