import CuqiVerif.Proofs.C11
import CuqiVerif.Generated.C11WriteSets

/-!
# C11 — conditioning, evaluating and sampling never alter the objects they start from

The theorems are about the executable heap model of `Model/C11.lean` (the definitions the driver
runs).  `s.run op` is one library operation (condition / logd / gradient / sample /
to_likelihood / model(dist)) applied to arbitrary addresses of an arbitrary heap `s`;
`s.runAll ops` an arbitrary interleaving of any length; `fp n fuel s a` the observable part of
the object graph reachable from `a` (all non-benign fields, recursively) among the objects that
existed at watermark `n`.
-/
namespace CuqiVerif.C11

/-! ## 1. every operation writes only to objects it allocated itself, or to benign caches -/

/-- **op_frame** (`_partial`: everything except the *content* of array-typed `_constant`s, field
    `cval`, which `ndarray += x` mutates in place — `reduce_inplace_counterexample`; the exact
    side condition under which that does not happen is `addConst_no_inplace_of_scalar`).
    One operation, started in any state `s`, on any receiver and arguments:
    the heap only grows; no class tag and no non-benign field of any object that existed before
    the operation changes; every write it logs targets an object allocated during the operation
    or a benign cache field. -/
theorem op_frame_partial (s : St) (op : Op) :
    s.size ≤ (s.run op).1.size ∧
    (∀ a, a < s.size → (s.run op).1.cls a = s.cls a ∧ ∀ f, f.exempt = false → (s.run op).1.get a f = s.get a f) ∧
    (∀ w, w ∈ (s.run op).1.log → w ∈ s.log ∨ s.size ≤ w.1 ∨ w.2.exempt = true) := by
  have h := run_step (n := s.size) (Nat.le_refl _) op
  exact ⟨h.size, fun a ha => ⟨h.cls a ha, fun f hf => h.get a f ha hf⟩, h.log⟩

/-- a conditional distribution `x ~ F(f(v3), 2)` -/
def exDist : St := ⟨#[Obj.ofList .dist [(.name, .num 0), (.slot 0, .fn 1 [3] []), (.slot 1, .num 2)]], []⟩

-- conditioning it on `v3 = 5` allocates object 1, writes only to object 1, and leaves object 0 as it was
example : (exDist.run (.cond 0 [(3, 5)])).2 = .obj 1 := by decide
example : (exDist.run (.cond 0 [(3, 5)])).1.log = [(1, .slot 0), (1, .orig)] := by decide
example : (exDist.run (.cond 0 [(3, 5)])).1.get 1 (.slot 0) = .num (applyFn 1 [(3, 5)])
    ∧ (exDist.run (.cond 0 [(3, 5)])).1.get 0 (.slot 0) = .fn 1 [3] [] := by decide

/-- **op_frame with an earlier watermark** — what is needed for sequences: objects older than `n`
    are protected from an operation started later (`n ≤ s.size`). -/
theorem op_frame_watermark_partial (n : Nat) (s : St) (hn : n ≤ s.size) (op : Op) :
    (∀ a f, a < n → f.exempt = false → (s.run op).1.get a f = s.get a f) ∧
    (∀ w, w ∈ (s.run op).1.log → w ∈ s.log ∨ n ≤ w.1 ∨ w.2.exempt = true) :=
  ⟨(run_step hn op).get, (run_step hn op).log⟩

/-- **sequence_frame.**  Any interleaving of operations of any length, on the originals and on any
    objects derived from them (the addresses in `ops` are arbitrary): no non-benign field of an
    object that existed at the start changes, and the whole write log added by the sequence
    consists of writes to later objects or benign caches. -/
theorem sequence_frame_partial (s : St) (ops : List Op) :
    (∀ a f, a < s.size → f.exempt = false → (s.runAll ops).get a f = s.get a f) ∧
    (∀ a, a < s.size → (s.runAll ops).cls a = s.cls a) ∧
    (∀ w, w ∈ (s.runAll ops).log → w ∈ s.log ∨ s.size ≤ w.1 ∨ w.2.exempt = true) := by
  have h := runAll_step (n := s.size) ops s (Nat.le_refl _)
  exact ⟨h.get, h.cls, h.log⟩

/-- **fingerprint_preserved.**  The observable object graph of every original is unchanged by any
    sequence of operations (unbounded length).  This is the property for the model. -/
theorem fingerprint_preserved_partial (s : St) (ops : List Op) (fuel a : Nat) :
    fp s.size fuel (s.runAll ops) a = fp s.size fuel s a :=
  (runAll_step ops s (Nat.le_refl _)).fp_eq fuel a

lemma runAll_append (s : St) (ops1 ops2 : List Op) : s.runAll (ops1 ++ ops2) = (s.runAll ops1).runAll ops2 := by
  induction ops1 generalizing s with
  | nil => rfl
  | cons op ops ih => simp only [List.cons_append, St.runAll]; exact ih _

/-- **siblings_independent.**  Whatever was derived by a first batch of operations (everything
    existing after `ops1`, in particular every conditioned copy) is not influenced by any later
    operations on its siblings or on the original. -/
theorem siblings_independent (s : St) (ops1 ops2 : List Op) (fuel b : Nat) :
    fp (s.runAll ops1).size fuel (s.runAll (ops1 ++ ops2)) b = fp (s.runAll ops1).size fuel (s.runAll ops1) b := by
  rw [runAll_append]
  exact fingerprint_preserved_partial (s.runAll ops1) ops2 fuel b

/-- **gibbs_stream_frame.**  The re-conditioning stream of Gibbs sampling (`sweeps` sweeps over the
    parameters `pars` of target `t`, with arbitrary current values), of any length — thousands of
    re-conditionings included — leaves every pre-existing object's fingerprint unchanged. -/
theorem gibbs_stream_frame (s : St) (t : Nat) (pars : List Nat) (vals : Nat → Nat → Int) (sweeps fuel a : Nat) :
    fp s.size fuel (s.runAll (gibbsOps t pars vals sweeps)) a = fp s.size fuel s a :=
  fingerprint_preserved_partial s _ fuel a

example : (gibbsOps 4 [0, 1, 2] (fun k q => (k : Int) + q) 1000).length = 3000 := by
  have h : ∀ k, (gibbsOps 4 [0, 1, 2] (fun k q => (k : Int) + q) k).length = 3 * k := by
    intro k; induction k with
    | zero => rfl
    | succ k ih => simp only [gibbsOps, List.length_append, ih, List.length_map, List.length_cons, List.length_nil]; omega
  rw [h]

/-- **constants_on_fresh** (`_partial`).  `_add_constants_to_density` (`density._constant += …`)
    inside a conditioning of a joint never *re-binds* `_constant` on an object that existed before
    the call: every write of the field `_constant` logged by `condJoint` targets an address
    allocated by that call.  NOT covered: when the receiving copy inherited an *ndarray* constant,
    `+=` also adds into that array object in place — and the array is shared with the density the
    copy was made from (`reduce_inplace_counterexample`). -/
theorem constants_on_fresh_partial (s : St) (a : Nat) (kw : Kw) (w : Nat × Fld)
    (hw : w ∈ (s.condJoint a kw).1.log) (hnew : w ∉ s.log) (hf : w.2 = .const) : s.size ≤ w.1 := by
  rcases (condJoint_good (n := s.size) (Nat.le_refl _) a kw).1.log w hw with h | h | h
  · exact absurd h hnew
  · exact h
  · rw [hf] at h; exact absurd h (by decide)

/-- a joint of a distribution and an evaluated density (value 7) -/
def exJoint : St :=
  ⟨#[Obj.ofList .dist [(.name, .num 0), (.slot 0, .num 1)], Obj.ofList .eval [(.name, .num 1), (.value, .num 7), (.const, .num 0)],
     Obj.ofList .joint [(.dens, .refs [0, 1])]], []⟩

-- `joint()` reduces to the distribution's *copy* (object 4) and adds the constant 7 there, not on object 0
example : (exJoint.condJoint 2 []).2 = .obj 4 ∧ (exJoint.condJoint 2 []).1.get 4 .const = .num 7
    ∧ (exJoint.condJoint 2 []).1.get 0 .const = .none := by decide
example : ((exJoint.condJoint 2 []).1.log.filter (fun w => w.2 = .const)) = [(4, .const)] := by decide

/-- **Exact side condition of the in-place branch.**  If the density receiving `+=` holds a scalar
    (not an array object) as `_constant`, `_add_constants_to_density` writes only to that density
    and to objects it allocates: no array content is touched. -/
theorem addConst_no_inplace_of_scalar (s : St) (d : Nat) (ds : List Nat) (hsc : ∀ c, s.get d .const ≠ .ref c)
    (w : Nat × Fld) (hw : w ∈ (s.addConst d ds).log) : w ∈ s.log ∨ w = (d, .const) := by
  unfold St.addConst at hw
  split at hw
  · next cell hc => exact absurd hc (hsc cell)
  · split at hw
    · simp only [write_log, alloc_log, List.mem_cons] at hw
      rcases hw with h | h
      · exact Or.inr h
      · exact Or.inl h
    · simp only [write_log, List.mem_cons] at hw
      rcases hw with h | h
      · exact Or.inr h
      · exact Or.inl h

/-- … and if it holds an array object and there is an evaluated density to add, the content of
    that (shared) array object is written. -/
theorem addConst_inplace_of_array (s : St) (d cell : Nat) (ds : List Nat) (hc : s.get d .const = .ref cell)
    (he : s.hasEvals ds = true) : (cell, Fld.cval) ∈ (s.addConst d ds).log := by
  unfold St.addConst
  rw [hc]
  dsimp only
  rw [if_pos he]
  simp [write_log]

/-- A reduced density `d1` (object 0) whose `_constant` is an ndarray (object 1, content 5), put
    into a NEW joint with an unrelated evaluated density (value 7): conditioning that joint adds
    the 7 *into the array shared with `d1`* — `d1`'s constant becomes 12. -/
def exArrConst : St :=
  ⟨#[Obj.ofList .dist [(.name, .num 0), (.slot 0, .num 1), (.const, .ref 1)], Obj.ofList .arr [(.cval, .num 5)],
     Obj.ofList .eval [(.name, .num 1), (.value, .num 7), (.const, .num 0), (.arrv, .num 1)],
     Obj.ofList .joint [(.dens, .refs [0, 2])]], []⟩

/-- **Counterexample to the full-strength statement** (faithful to the code: known finding
    `alter-constant:ndarray-inplace`): an operation on a *new* joint changes the `_constant` seen by
    a pre-existing density. -/
theorem reduce_inplace_counterexample :
    constContent exArrConst 0 = .num 5 ∧ constContent (exArrConst.run (.cond 3 [])).1 0 = .num 12
    ∧ (1, Fld.cval) ∈ (exArrConst.run (.cond 3 [])).1.log := by
  decide

/-- the object returned by conditioning a joint is never one that existed before -/
theorem condJoint_result_fresh (s : St) (a : Nat) (kw : Kw) (r : Nat) (h : (s.condJoint a kw).2 = .obj r) :
    s.size ≤ r :=
  (condJoint_good (n := s.size) (Nat.le_refl _) a kw).2 r h

/-! ## 2. a conditioned copy keeps the name of its original -/

/-- names are read through non-benign fields of older objects only: any sequence of operations
    leaves the name of every pre-existing density unchanged -/
theorem name_preserved (s : St) (ops : List Op) (a : Nat) (ha : a < s.size) :
    (s.runAll ops).nameOf a = s.nameOf a :=
  nameOf_congr s.size s _ (runAll_step ops s (Nat.le_refl _)).get a ha

/-- **copy_keeps_name** (`_make_copy`): the copy reports the name of its original, whatever is
    later written to the copy's other fields. -/
theorem copy_keeps_name (s : St) (a : Nat) (ha : a < s.size) :
    (s.makeCopy a).1.nameOf (s.makeCopy a).2 = s.nameOf a := by
  have hstep := makeCopy_step (n := s.size) (Nat.le_refl _) a
  have hb : (s.makeCopy a).2 = s.size := rfl
  have horig : (s.makeCopy a).1.get (s.makeCopy a).2 .orig = .ref a := by
    unfold St.makeCopy
    exact write_get_same _ _ _ _ (by rw [alloc_addr, alloc_size]; omega)
  rw [St.nameOf, horig]
  simp only [hb, ha, dite_true]
  exact nameOf_congr s.size s _ hstep.get a ha

example : let s : St := ⟨#[Obj.ofList .dist [(.name, .num 7)]], []⟩
    (s.makeCopy 0).1.nameOf 1 = s.nameOf 0 := copy_keeps_name _ 0 (by decide)

/-! ## 3. benign caches are invisible -/

/-- **benign_idempotent** (Lognormal): after the re-synchronisation performed by every access of
    `_normal`, the shared Gaussian holds the owner's own `mean`/`cov`, whatever it held before —
    what a Lognormal evaluates with is a function of its own non-benign fields only. -/
theorem lognormal_reads_own_fields (s : St) (a g : Nat) (hc : s.cls a = .lognormal) (hg : s.get a .cacheG = .ref g)
    (hlt : g < s.size) : s.lognormalParams a = (s.get a (.slot 0), s.get a (.slot 1)) := by
  unfold St.lognormalParams
  have hg' : (s.resync a).get a .cacheG = .ref g := by
    unfold St.resync
    rw [hc, hg]
    dsimp only
    split <;> split <;> simp only [write_get_other, hg, ne_eq, reduceCtorEq, not_false_eq_true, or_true]
  dsimp only
  rw [hg']
  dsimp only
  unfold St.resync
  rw [hc, hg]
  dsimp only
  by_cases h1 : s.get g .cmean = s.get a (.slot 0)
  · rw [if_pos h1]
    by_cases h2 : s.get g .ccov = s.get a (.slot 1)
    · rw [if_pos h2, h1, h2]
    · rw [if_neg h2, write_get_same _ _ _ _ hlt, write_get_other _ _ _ _ _ _ (Or.inr (by decide)), h1]
  · rw [if_neg h1]
    have hs : (s.write g .cmean (s.get a (.slot 0))).size = s.size := write_size _ _ _ _
    have e0 : (s.write g .cmean (s.get a (.slot 0))).get a (.slot 1) = s.get a (.slot 1) :=
      write_get_other _ _ _ _ _ _ (Or.inr (by decide))
    have e1 : (s.write g .cmean (s.get a (.slot 0))).get g .ccov = s.get g .ccov :=
      write_get_other _ _ _ _ _ _ (Or.inr (by decide))
    rw [e0, e1]
    by_cases h2 : s.get g .ccov = s.get a (.slot 1)
    · rw [if_pos h2, write_get_same _ _ _ _ hlt, e1, h2]
    · rw [if_neg h2, write_get_same _ _ _ _ (by rw [hs]; exact hlt),
          write_get_other _ _ _ _ _ _ (Or.inr (by decide)), write_get_same _ _ _ _ hlt]

example : let s : St := ⟨#[Obj.ofList .cache [(.cmean, .num 9), (.ccov, .num 9)],
                           Obj.ofList .lognormal [(.slot 0, .num 1), (.slot 1, .num 2), (.cacheG, .ref 0)]], []⟩
    s.lognormalParams 1 = (.num 1, .num 2) := by decide

lemma mem_log_ite_write {s : St} {c : Prop} [Decidable c] {a : Nat} {f : Fld} {v : Val} {w : Nat × Fld}
    (hw : w ∈ (if c then s else s.write a f v).log) : w ∈ s.log ∨ w = (a, f) := by
  split at hw
  · exact Or.inl hw
  · rw [write_log] at hw
    rcases List.mem_cons.1 hw with h | h
    · exact Or.inr h
    · exact Or.inl h

/-- the re-synchronisation of a Lognormal's shared Gaussian writes benign fields only (whatever
    the address of that Gaussian) -/
theorem resync_benign (s : St) (a : Nat) (w : Nat × Fld) (hw : w ∈ (s.resync a).log) : w ∈ s.log ∨ w.2.benign = true := by
  unfold St.resync at hw
  split at hw
  · dsimp only at hw
    rcases mem_log_ite_write hw with h | h
    · rcases mem_log_ite_write h with h | h
      · exact Or.inl h
      · subst h; exact Or.inr rfl
    · subst h; exact Or.inr rfl
  · exact Or.inl hw

/-! ## 4. the fingerprint is not vacuous: an in-place write *is* seen -/

/-- A conditioning that wrote the new value into the receiver instead of a copy (what the frame
    theorems exclude) changes the fingerprint of the original. -/
theorem inplace_write_breaks_fingerprint :
    let s : St := ⟨#[Obj.ofList .dist [(.name, .num 0), (.slot 0, .fn 1 [3] [])]], []⟩
    fp 1 2 (s.write 0 (.slot 0) (.num 5)) 0 ≠ fp 1 2 s 0 := by
  intro s h
  have h5 := congrArg (fun t => (t.kids[5]?).bind Tree.leafVal) h
  revert h5
  decide

/-! ## 5. the write table extracted from the current source (re-decided on every run) -/

/-- fields of `self` that are benign caches, per method -/
def benignSelf : List (String × String × String) :=
  [("Distribution", "geometry", "geometry"),            -- lazily inferred default geometry (dimension of the mutable variables)
   ("Distribution", "get_mutable_variables", "_mutable_vars")]

/-- fields of objects held by `self` that are benign caches, per method -/
def benignHeld : List (String × String × String × String) :=
  [("Distribution", "geometry", "self._geometry", "_variable_name"),
   ("Lognormal", "_normal", "self._Gaussian", "mean"),
   ("Lognormal", "_normal", "self._Gaussian", "cov"),
   ("RegularizedGaussian", "gaussian", "self._gaussian", "_name")]

def allowed (w : Gen.W) : Bool :=
  w.recv == .fresh
  || (w.cls == "Gibbs" || w.cls == "HybridGibbs")      -- the sampler's own state, not the densities
  || (w.recv == .self && benignSelf.contains (w.cls, w.meth, w.field))
  || (w.recv == .selfField && benignHeld.contains (w.cls, w.meth, w.recvText, w.field))
  || (w.recv == .param && w.cls == "JointDistribution" && w.meth == "_add_constants_to_density"
        && w.field == "_constant" && w.kind == "aug")

/-- **writes_ok.**  Every attribute write in the conditioning / evaluation / sampling methods of
    the *current* source goes to an object created in the same method (`copy`, `_make_copy`, a
    constructor), to a benign cache, or is the `_constant +=` of `_add_constants_to_density`
    (whose call sites are constrained by `constants_call_sites_ok`). -/
theorem writes_ok : Gen.writes.all allowed = true := by decide

/-- `_add_constants_to_density` is only applied to a freshly constructed `Posterior` or to the
    joint's own (just re-conditioned) distribution, `_reduce_to_single_density` only to the fresh
    copy of the joint, and every entry of the copy's density list is replaced by the result of
    calling (conditioning) the old entry; the Gibbs samplers store `target()`, not `target`. -/
def expectedCalls : List Gen.C :=
  [⟨"JointDistribution", "_condition", "_reduce_to_single_density", "fresh"⟩,
   ⟨"JointDistribution", "_reduce_to_single_density", "_add_constants_to_density", "constructor"⟩,
   ⟨"JointDistribution", "_reduce_to_single_density", "_add_constants_to_density", "ownDistribution"⟩,
   ⟨"Gibbs", "__init__", "store-target", "callOfArgument"⟩,
   ⟨"HybridGibbs", "__init__", "store-target", "callOfArgument"⟩]

/- The comparison is by mutual inclusion (order and multiplicity of the call sites in the source
   are not observable), and names of locals/parameters are canonicalised by the translator, so a
   harmless rename or re-ordering of independent statements does not break the obligation. -/
theorem constants_call_sites_ok :
    Gen.calls.all (expectedCalls.contains ·) = true ∧ expectedCalls.all (Gen.calls.contains ·) = true
    ∧ Gen.writes.any (fun w => w.cls == "JointDistribution" && w.meth == "_condition" && w.recv == .fresh
          && w.field == "_densities" && w.kind == "elem:call") = true := by
  decide

/-- the write sites the heap model transcribes (class, method, receiver kind, field) -/
def modelWrites : List (String × String × Gen.Recv × String) :=
  [("Density", "_make_copy", .fresh, "_original_density"),                 -- makeCopy
   ("Distribution", "geometry", .self, "geometry"),                          -- (lazy default geometry; oracle only)
   ("Distribution", "geometry", .selfField, "_variable_name"),               -- benign `vname`
   ("Distribution", "_condition", .fresh, "<dynamic>"),                      -- condSlot, `unset`
   ("Distribution", "_condition", .fresh, "<dynamic>"),                      -- condSlot, all arguments found
   ("Distribution", "_condition", .fresh, "<dynamic>"),                      -- condSlot, partial
   ("Distribution", "get_mutable_variables", .self, "_mutable_vars"),        -- benign `mvars`
   ("JointDistribution", "_condition", .fresh, "_densities"),                -- condJoint
   ("JointDistribution", "_condition", .fresh, "_densities"),                -- condList
   ("JointDistribution", "_add_constants_to_density", .param, "_constant"),  -- reduce
   ("Lognormal", "_normal", .selfField, "mean"),                             -- resync
   ("Lognormal", "_normal", .selfField, "cov"),                              -- resync
   ("RegularizedGaussian", "gaussian", .selfField, "_name"),                 -- syncInner
   ("RegularizedGaussian", "_condition", .fresh, "_gaussian"),               -- condReg
   ("Likelihood", "_condition", .fresh, "distribution"),                     -- condLik
   ("Model", "forward", .fresh, "_non_default_args")]                        -- applyModel

/-- **table_matches_model.**  The write sites of the current source (outside the Gibbs samplers'
    own state) are exactly the ones the heap model transcribes (as sets: every source row is a model row and vice versa); no method of the
    list is missing from the source. -/
def genRows : List (String × String × Gen.Recv × String) :=
  (Gen.writes.filter (fun w => !(w.cls == "Gibbs" || w.cls == "HybridGibbs"))).map
    (fun w => (w.cls, w.meth, w.recv, w.field))

theorem table_matches_model :
    genRows.all (modelWrites.contains ·) = true ∧ modelWrites.all (genRows.contains ·) = true
    ∧ Gen.methodsMissing = [] := by
  decide

end CuqiVerif.C11
